(* Proofs/ErrShiftMidProlog.v -- C14 (whitespace inserted inside the prolog), part 7: the builder
   context while the first parse_misc of the prolog runs: the root and one comment / PI node per
   round.  Such a context
   - only depends on the text through the range of the root ([rr]),
   - is the frame image ([pc], ErrShiftMidFrame.v) of the shift ([sh_ctx]) of a context over the
     rest of the text whose old nodes are dummies ([uctx]). *)
From Coq Require Import Ascii String.
From Coq Require Import List Arith NArith Bool Lia ZifyBool ZifyN ZifyNat.
Import ListNotations.
From RX Require Import Generated.
From RX.Model Require Import Base CharClass Stream Tokenizer Doc Builder Parse.
From RX.Proofs Require Import Tactics RangeShiftBase RangeShiftTokenizer RangeShiftBuilder
  ErrShiftMidFrame ErrShiftMidCore ErrShiftMidLocal.
Open Scope N_scope.

(* ---- the shape of the nodes ---- *)
Definition okind (q : N) (kd : node_kind) : Prop :=
  match kd with
  | KComment s => sl_start s < q
  | KPI t v => sl_start t < q /\ match v with Some x => sl_start x < q | None => True end
  | _ => False
  end.
Definition isroot (T : bytes) (n : node_data) : Prop :=
  nd_kind n = KRoot /\ nd_range n = (0, tlen T) /\ nd_parent n = None.
Definition isold (q : N) (n : node_data) : Prop :=
  nd_parent n = Some 0 /\ okind q (nd_kind n) /\ fst (nd_range n) < q.

Definition NS (T : bytes) (q : N) (l : list node_data) : Prop :=
  (exists root, nth_error l 0 = Some root /\ isroot T root) /\
  (forall i n, (1 <= i)%nat -> nth_error l i = Some n -> isold q n).

Record PS (T : bytes) (q : N) (c : context) : Prop := {
  ps_attrs : c_cur_attrs c = [];
  ps_pp : c_parent_prefixes c = [empty_slice];
  ps_ent : c_entities c = [];
  ps_at : c_after_text c = [];
  ps_pid : c_parent_id c = 0;
  ps_tn : c_tag_name c = tag_name_null;
  ps_dattrs : d_attrs (c_doc c) = [];
  ps_ns : d_ns_values (c_doc c) = [xml_ns];
  ps_nodes : NS T q (d_nodes (c_doc c))
}.

Lemma okind_mono q q' kd : q <= q' -> okind q kd -> okind q' kd.
Proof. intros H. destruct kd as [| | t v | s | ]; cbn; try tauto; [destruct v|]; lia. Qed.
Lemma isold_mono q q' n : q <= q' -> isold q n -> isold q' n.
Proof. intros H (A & B & C). split; [exact A|]. split; [eapply okind_mono; eassumption|lia]. Qed.

Definition keeps (f : node_data -> node_data) : Prop :=
  forall n, nd_parent (f n) = nd_parent n /\ nd_kind (f n) = nd_kind n /\ nd_range (f n) = nd_range n.
Lemma keeps_prev v : keeps (fun nd => nd_set_prev nd v). Proof. intros n. repeat split. Qed.
Lemma keeps_last v : keeps (fun nd => nd_set_last_child nd v). Proof. intros n. repeat split. Qed.
Lemma keeps_next v : keeps (fun nd => nd_set_next_subtree nd v). Proof. intros n. repeat split. Qed.

Lemma NS_upd T q l i f l' : keeps f -> NS T q l -> upd_node l i f = Ok l' -> NS T q l'.
Proof.
  intros Hf [(root & R1 & R2) Hold] H. unfold upd_node in H.
  destruct (list_upd l (N.to_nat i) f) as [l0|] eqn:E; [|discriminate]. injection H as <-. split.
  - rewrite (list_upd_nth _ _ _ _ 0%nat E). destruct (Nat.eqb_spec 0 (N.to_nat i)).
    + rewrite R1. cbn [option_map]. eexists. split; [reflexivity|].
      destruct (Hf root) as (A & B & C). destruct R2 as (K1 & K2 & K3). unfold isroot. rewrite A, B, C. auto.
    + eauto.
  - intros j n Hj Hn. rewrite (list_upd_nth _ _ _ _ j E) in Hn. destruct (Nat.eqb_spec j (N.to_nat i)).
    + destruct (nth_error l j) as [n0|] eqn:En; [|discriminate]. injection Hn as <-.
      destruct (Hf n0) as (A & B & C). destruct (Hold _ _ Hj En) as (K1 & K2 & K3). unfold isold. rewrite A, B, C. auto.
    + eauto.
Qed.

Lemma NS_next_all T q v : forall ids l l', NS T q l -> set_next_subtree_all l ids v = Ok l' -> NS T q l'.
Proof.
  induction ids as [|i ids IH]; intros l l' HN H; cbn [set_next_subtree_all] in H.
  - injection H as <-. exact HN.
  - apply bind_ok in H. destruct H as (l1 & H1 & H). eapply IH; [|exact H].
    eapply NS_upd; [apply keeps_next|exact HN|exact H1].
Qed.

Lemma append_node_PS T q e kind r c x : PS T q c -> q <= e -> okind e kind -> fst r < e ->
  append_node kind r c = Ok x -> PS T e (snd x).
Proof.
  intros HP Hqe Hk Hr H. destruct HP as [P1 P2 P3 P4 P5 P6 P7 P8 [(root & R1 & R2) Hold]].
  unfold append_node in H. cbv zeta in H.
  destruct (nodes_limit (c_opt c) <=? _); [discriminate|].
  apply bind_ok in H. destruct H as (new_id & Hid & H).
  apply bind_ok in H. destruct H as (pnd & Hpnd & H).
  apply bind_ok in H. destruct H as (l1 & H1 & H).
  apply bind_ok in H. destruct H as (l2 & H2 & H).
  apply bind_ok in H. destruct H as (l3 & H3 & H). injection H as <-.
  cbn [snd]. split; cbn [set_awaiting set_doc set_nodes c_cur_attrs c_parent_prefixes c_entities c_after_text
                            c_parent_id c_tag_name c_doc d_attrs d_ns_values d_nodes]; try assumption.
  eapply NS_next_all; [|exact H3]. eapply NS_upd; [apply keeps_last| |exact H2].
  eapply NS_upd; [apply keeps_prev| |exact H1].
  (* the list with the new node *)
  split.
  - exists root. split; [|exact R2]. destruct (d_nodes (c_doc c)); [discriminate|]. exact R1.
  - intros i n Hi Hn. destruct (Nat.lt_ge_cases i (length (d_nodes (c_doc c)))).
    + rewrite nth_error_app1 in Hn by lia. eapply isold_mono; [exact Hqe|]. eapply Hold; eassumption.
    + rewrite nth_error_app2 in Hn by lia. destruct (i - length (d_nodes (c_doc c)))%nat as [|j]; cbn in Hn.
      * injection Hn as <-. unfold isold. cbn [nd_parent nd_kind nd_range]. rewrite P5. auto.
      * destruct j; discriminate.
Qed.

Lemma token_PS T q a e tok c c' : PS T q c -> q <= a -> tok_in a e tok ->
  Parse.token T tok c = Ok c' -> PS T e c'.
Proof.
  intros HP Hqa Ht H. pose proof (ps_at _ _ _ HP) as Hat.
  destruct tok as [t v r|t r| | | | | |]; cbn [tok_in] in Ht; try contradiction;
    unfold Parse.token in H; cbn [token_with] in H; unfold reset_after_text in H; rewrite Hat in H; cbn [bind] in H.
  - destruct Ht as (-> & Hae & (S1 & S2 & S3) & Hv).
    apply bind_ok in H. destruct H as (x & Hx & H). destruct x as [id c1]. injection H as <-.
    apply (append_node_PS T q e _ _ c (id, c1) HP ltac:(lia)) in Hx; [exact Hx| |cbn; lia].
    cbn [okind]. split; [lia|]. destruct v as [x|]; [|exact I]. destruct Hv as (V1 & V2 & V3). lia.
  - destruct Ht as (-> & Hae & (S1 & S2 & S3)).
    apply bind_ok in H. destruct H as (x & Hx & H). destruct x as [id c1]. injection H as <-.
    apply (append_node_PS T q e _ _ c (id, c1) HP ltac:(lia)) in Hx; [exact Hx| |cbn; lia].
    cbn [okind]. lia.
Qed.

Lemma init_PS T opt c : init_context T opt = Ok c -> PS T 0 c.
Proof.
  unfold init_context, push_ns. cbn. intros [= <-].
  split; cbn; try reflexivity. split.
  - eexists. split; [reflexivity|]. repeat split.
  - intros i n Hi Hn. destruct i as [|[|i]]; [lia| |]; discriminate.
Qed.

(* ---- the text only matters through the range of the root ---- *)
Definition rrn (E : N) (l : list node_data) : list node_data :=
  match l with n :: r => nd_set_range_end n E :: r | [] => [] end.
Definition rr (E : N) (c : context) : context := set_doc c (set_nodes (c_doc c) (rrn E (d_nodes (c_doc c)))).

Definition rmapn (g : list node_data -> list node_data) (r : res (list node_data)) : res (list node_data) :=
  match r with Ok l => Ok (g l) | Err e => Err e | Panic p => Panic p | OutOfFuel => OutOfFuel end.

Lemma upd_rrn E l i f : (forall n, f (nd_set_range_end n E) = nd_set_range_end (f n) E) ->
  upd_node (rrn E l) i f = rmapn (rrn E) (upd_node l i f).
Proof.
  intros Hf. unfold upd_node. destruct l as [|n r]; [reflexivity|]. cbn [rrn].
  destruct (N.to_nat i) as [|j]; cbn [list_upd rmapn rrn].
  - rewrite Hf. reflexivity.
  - destruct (list_upd r j f); reflexivity.
Qed.

Lemma next_all_rrn E v : forall ids l,
  set_next_subtree_all (rrn E l) ids v = rmapn (rrn E) (set_next_subtree_all l ids v).
Proof.
  induction ids as [|i ids IH]; intros l; cbn [set_next_subtree_all]; [reflexivity|].
  rewrite upd_rrn by reflexivity. destruct (upd_node l i _) as [l1| | |]; cbn [rmapn bind]; try reflexivity.
  apply IH.
Qed.

Lemma append_node_rr E kind r c : d_nodes (c_doc c) <> [] ->
  append_node kind r (rr E c) =
  match append_node kind r c with
  | Ok x => Ok (fst x, rr E (snd x)) | Err e => Err e | Panic p => Panic p | OutOfFuel => OutOfFuel end.
Proof.
  intros Hne. unfold append_node. cbv zeta.
  cbn [rr c_doc c_opt c_parent_id c_awaiting set_doc set_nodes d_nodes].
  destruct (d_nodes (c_doc c)) as [|n0 l0] eqn:En; [congruence|]. cbn [rrn].
  replace (len_N (nd_set_range_end n0 E :: l0)) with (len_N (n0 :: l0)) by reflexivity.
  destruct (nodes_limit (c_opt c) <=? _); [reflexivity|].
  destruct (node_id_new _) as [new_id| | |]; cbn [bind]; try reflexivity.
  set (new := {| nd_parent := Some (c_parent_id c); nd_prev_sibling := None; nd_next_subtree := None;
                 nd_last_child := None; nd_kind := kind; nd_range := r |}).
  change ((nd_set_range_end n0 E :: l0) ++ [new]) with (rrn E ((n0 :: l0) ++ [new])).
  set (L := (n0 :: l0) ++ [new]).
  assert (Hnth : match nth_N (rrn E L) (c_parent_id c) with Some x => Ok (nd_last_child x) | None => Panic P_index end
               = match nth_N L (c_parent_id c) with Some x => Ok (nd_last_child x) | None => Panic P_index end :> res (option N)).
  { unfold nth_N. unfold L. cbn [app rrn]. replace (len_N (nd_set_range_end n0 E :: l0 ++ [new])) with (len_N (n0 :: l0 ++ [new])) by reflexivity.
    destruct (_ <=? _); [reflexivity|]. destruct (N.to_nat (c_parent_id c)); reflexivity. }
  destruct (nth_N (rrn E L) (c_parent_id c)) as [pnd2|] eqn:E2; destruct (nth_N L (c_parent_id c)) as [pnd|] eqn:E1;
    try discriminate; cbn [bind]; [|reflexivity].
  injection Hnth as Hlc. rewrite Hlc.
  rewrite upd_rrn by reflexivity. destruct (upd_node L new_id _) as [l1| | |]; cbn [rmapn bind]; try reflexivity.
  rewrite upd_rrn by reflexivity. destruct (upd_node l1 (c_parent_id c) _) as [l2| | |]; cbn [rmapn bind]; try reflexivity.
  rewrite next_all_rrn. destruct (set_next_subtree_all l2 (c_awaiting c) new_id) as [l3| | |]; cbn [rmapn bind]; reflexivity.
Qed.

Lemma token_rr T1 T2 q a e tok c c' : PS T1 q c -> tok_in a e tok ->
  Parse.token T1 tok c = Ok c' -> Parse.token T2 tok (rr (tlen T2) c) = Ok (rr (tlen T2) c').
Proof.
  intros HP Ht H. pose proof (ps_at _ _ _ HP) as Hat.
  assert (Hne : d_nodes (c_doc c) <> []).
  { destruct (ps_nodes _ _ _ HP) as [(root & R1 & _) _]. destruct (d_nodes (c_doc c)); [discriminate|congruence]. }
  destruct tok as [t v r|t r| | | | | |]; cbn [tok_in] in Ht; try contradiction;
    unfold Parse.token in *; cbn [token_with] in *; unfold reset_after_text in *;
    change (c_after_text (rr (tlen T2) c)) with (c_after_text c); rewrite Hat in *; cbn [bind] in *.
  - rewrite append_node_rr by exact Hne. destruct (append_node (KPI t v) r c) as [[id c1]| | |]; cbn [bind] in *; try discriminate.
    injection H as <-. reflexivity.
  - rewrite append_node_rr by exact Hne. destruct (append_node (KComment t) r c) as [[id c1]| | |]; cbn [bind] in *; try discriminate.
    injection H as <-. reflexivity.
Qed.

Lemma PS_rr T1 T2 q c : PS T1 q c -> PS T2 q (rr (tlen T2) c).
Proof.
  intros [P1 P2 P3 P4 P5 P6 P7 P8 [(root & R1 & R2) Hold]].
  split; cbn [rr set_doc set_nodes c_cur_attrs c_parent_prefixes c_entities c_after_text
                 c_parent_id c_tag_name c_doc d_attrs d_ns_values d_nodes]; try assumption.
  destruct (d_nodes (c_doc c)) as [|n0 l0]; [discriminate|]. injection R1 as ->. cbn [rrn]. split.
  - eexists. split; [reflexivity|]. destruct R2 as (K1 & K2 & K3). unfold isroot. cbn [nd_set_range_end nd_kind nd_range nd_parent].
    rewrite K2. auto.
  - intros i n Hi Hn. destruct i as [|i]; [lia|]. cbn [nth_error] in Hn. apply (Hold (S i) n Hi). exact Hn.
Qed.

(* ---- the decomposition ---- *)
Definition kr (n : node_data) : node_kind * range := (nd_kind n, nd_range n).
Definition olds_of (c : context) : list (node_kind * range) := map kr (tl (d_nodes (c_doc c))).

Definition unode (lenU : N) (nd : node_data) : node_data :=
  {| nd_parent := nd_parent nd; nd_prev_sibling := nd_prev_sibling nd;
     nd_next_subtree := nd_next_subtree nd; nd_last_child := nd_last_child nd;
     nd_kind := if is_root_kind (nd_kind nd) then KRoot else KComment empty_slice;
     nd_range := if is_root_kind (nd_kind nd) then (0, lenU) else (0, 0) |}.
Definition uctx (lenU : N) (c : context) : context :=
  set_doc c (set_nodes (c_doc c) (map (unode lenU) (d_nodes (c_doc c)))).

Lemma olds_rr E c : olds_of (rr E c) = olds_of c.
Proof. unfold olds_of, rr. cbn [set_doc set_nodes c_doc d_nodes]. destruct (d_nodes (c_doc c)); reflexivity. Qed.

Lemma uctx_rr lenU E c : uctx lenU (rr E c) = uctx lenU c.
Proof.
  unfold uctx, rr. cbn [set_doc set_nodes c_doc d_nodes c_opt c_ns_start_idx c_cur_attrs c_awaiting c_parent_prefixes
                       c_entities c_after_text c_parent_id c_tag_name c_entity_floor c_ld d_attrs d_ns_values d_ns_tree].
  destruct (d_nodes (c_doc c)) as [|n0 l0]; [reflexivity|]. cbn [rrn map]. reflexivity.
Qed.

Lemma okind_ntext q kd : okind q kd -> ntext kd.
Proof. destruct kd; cbn; tauto. Qed.

Lemma imap_restore P lenU : forall rest pre_olds,
  Forall (fun n => ntext (nd_kind n)) rest ->
  imap_from (pre_olds ++ map kr rest) (S (length pre_olds)) (map (sh_node P) (map (unode lenU) rest)) = rest.
Proof.
  induction rest as [|x rest IH]; intros pre_olds Hf; cbn [map imap_from]; [reflexivity|].
  inversion Hf as [|? ? Hx Hr]; subst. f_equal.
  - cbn [gP]. rewrite nth_error_app2 by lia. rewrite Nat.sub_diag. cbn [map nth_error].
    destruct x as [pa pr nx lc kd rg]. unfold with_kr, kr, sh_node, unode. cbn. reflexivity.
  - replace (pre_olds ++ kr x :: map kr rest) with ((pre_olds ++ [kr x]) ++ map kr rest)
      by (rewrite <- app_assoc; reflexivity).
    replace (S (S (length pre_olds))) with (S (length (pre_olds ++ [kr x]))) by (rewrite app_length; cbn; lia).
    apply IH. exact Hr.
Qed.

Lemma PS_decomp T q c P lenU : PS T q c -> tlen T = lenU + P ->
  c = pc (olds_of c) (sh_ctx P (uctx lenU c)) /\ Inv (olds_of c) (uctx lenU c) /\
  Forall (fun o => ntext (fst o)) (olds_of c) /\
  (forall k, q <= P -> Forall (old_below P k) (olds_of c)).
Proof.
  intros [P1 P2 P3 P4 P5 P6 P7 P8 [(root & R1 & R2) Hold]] HT.
  destruct c as [opt nsi ca aw pp en at_ pid tn ef ld [nodes dattrs nsv nst]].
  cbn [c_cur_attrs c_parent_prefixes c_entities c_after_text c_parent_id c_tag_name c_doc d_attrs d_ns_values d_nodes] in *.
  subst ca pp en at_ pid tn dattrs nsv.
  destruct nodes as [|r0 rest]; [discriminate|]. injection R1 as ->.
  assert (Hrest : Forall (isold q) rest).
  { apply Forall_forall. intros n Hn. apply In_nth_error in Hn. destruct Hn as [i Hi]. apply (Hold (S i) n); [lia|exact Hi]. }
  assert (Hnt : Forall (fun n => ntext (nd_kind n)) rest).
  { eapply Forall_impl; [|exact Hrest]. intros n (_ & K & _). eapply okind_ntext. exact K. }
  unfold olds_of. cbn [c_doc d_nodes tl].
  split; [|split; [|split]].
  - unfold pc, pd, pn, sh_ctx, sh_doc, uctx, set_doc, set_nodes.
    cbn [c_opt c_ns_start_idx c_cur_attrs c_awaiting c_parent_prefixes c_entities c_after_text c_parent_id
         c_tag_name c_entity_floor c_ld c_doc d_nodes d_attrs d_ns_values d_ns_tree map imap_from gP].
    f_equal. f_equal. f_equal.
    + destruct root as [pa pr nx lc kd rg]. destruct R2 as (K1 & K2 & K3). cbn in K1, K2, K3. subst kd rg pa.
      unfold sh_node, unode. cbn. rewrite HT. reflexivity.
    + symmetry. apply (imap_restore P lenU rest []). exact Hnt.
  - unfold Inv, uctx. cbn [set_doc set_nodes c_doc d_nodes c_parent_id]. split.
    + rewrite !map_length. cbn [length]. lia.
    + left. reflexivity.
    + intros i n Hn. rewrite nth_error_map in Hn.
      destruct (nth_error (root :: rest) i) as [n0|] eqn:E; [|discriminate]. injection Hn as <-.
      unfold par_ok, unode. cbn [nd_parent]. destruct i as [|i].
      * injection E as <-. destruct R2 as (_ & _ & ->). exact I.
      * cbn [nth_error] in E. apply nth_error_In in E. rewrite Forall_forall in Hrest.
        destruct (Hrest _ E) as (-> & _). left. reflexivity.
    + intros i n Hi Hn. rewrite nth_error_map in Hn.
      destruct (nth_error (root :: rest) i) as [n0|] eqn:E; [|discriminate]. injection Hn as <-.
      destruct i as [|i]; [lia|]. cbn [nth_error] in E. apply nth_error_In in E. rewrite Forall_forall in Hnt.
      pose proof (Hnt _ E) as Hk. unfold unode. cbn [nd_kind]. destruct (nd_kind n0); cbn in *; tauto.
  - apply Forall_map. eapply Forall_impl; [|exact Hnt]. intros n H. exact H.
  - intros k HqP. apply Forall_map. eapply Forall_impl; [|exact Hrest]. intros n (_ & K & R).
    unfold old_below, kr. cbn [fst snd]. split.
    + destruct (nd_kind n) as [| |t v|s|]; cbn in K; try contradiction; cbn [m_kind]; unfold m_sl.
      * destruct K as [K1 K2]. replace (sl_start t <? P) with true by lia. destruct v as [x|]; [|reflexivity].
        cbn [option_map]. replace (sl_start x <? P) with true by lia. reflexivity.
      * replace (sl_start s <? P) with true by lia. reflexivity.
    + unfold m_rng. replace (fst (nd_range n) <? P) with true by lia. reflexivity.
Qed.
