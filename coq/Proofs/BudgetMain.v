(* BudgetMain.v -- C09: a successful parse has at most
   1 + len + 256 * len * (number of '&')  nodes; no UTF-8 assumption is needed. *)
From Coq Require Import Ascii String.
From Coq Require Import Lia ZifyBool ZifyN ZifyNat.
From RX Require Import Generated.
From RX.Model Require Import Base CharClass Stream Tokenizer Doc Builder Parse.
From RX.Proofs Require Import Tactics OptionsParam OptionsBuild OptionsMain
  BudgetStream BudgetTok BudgetBuild BudgetAcct.

Definition amp_count (text : bytes) : N := count_byte 38 text.

Section Main.
Variable text : bytes.
Notation T := (tlen text).

(* a nested run (the value of an entity): charged to its own length and to the counter *)
Lemma nested_budget lvl : forall s c s' c',
  parse_content_lvl text lvl s c = Ok (s', c') ->
  wfl text s -> 1 <= dp c -> ldok (c_ld c) ->
  mvk text 0 s s' /\ BI text 0 (s_pos s) c (s_pos s') c'.
Proof.
  induction lvl; intros s c s' c' H W Hd Hok; [discriminate|].
  cbn [parse_content_lvl] in H.
  eapply (tp_parse_content text context _ (BI text 0 (s_pos s) c)); [ | | | exact H | exact W | ].
  - intros p p' d. apply BI_mono.
  - intros tok r d d' p. apply (token_budget_r text _ IHlvl). lia.
  - intros tok d d' p Hr _. revert Hr. apply (token_budget_0 text _ IHlvl).
  - apply BI_refl. exact Hok.
Qed.

Lemma token_eq tk c :
  token text tk c =
  token_with text (process_text_with text (parse_content_lvl text entity_levels)) tk c.
Proof. reflexivity. Qed.

(* the whole tokenizer run from a fresh context *)
Lemma document_budget dtd c0 c' :
  parse_document text context (token text) dtd c0 = Ok c' ->
  dp c0 = 0 -> ldok (c_ld c0) ->
  cnt c' <= cnt c0 + T + 256 * T * amp_count text.
Proof.
  intros H Hd Hok.
  eapply (tp_parse_document text context (token text) (BI text (256 * T) 0 c0)) in H.
  - destruct H as [p [Hp (_ & Hd' & _ & Hok' & Hn)]].
    rewrite A_0 in Hn.
    assert (Hr0 : rf c0 = 0) by (apply Hok; exact Hd).
    assert (Hr' : rf c' = 0) by (apply Hok'; unfold dp in *; lia).
    rewrite Hr0, Hr' in Hn.
    pose proof (A_le_amp text p) as HA. fold (amp_count text) in HA.
    assert (256 * T * A text p <= 256 * T * amp_count text) by (apply N.mul_le_mono_l; exact HA).
    lia.
  - intros p p' d. apply BI_mono.
  - intros tok r d d' p Hr Ht. rewrite token_eq in Ht. revert Hr Ht.
    apply (token_budget_r text _ (nested_budget entity_levels)). lia.
  - intros tok d d' p Hr _ Ht. rewrite token_eq in Ht. revert Hr Ht.
    apply (token_budget_0 text _ (nested_budget entity_levels)).
  - intros n v d d' p Ht. rewrite token_eq in Ht. revert Ht.
    apply (token_budget_0 text _ (nested_budget entity_levels)). reflexivity.
  - apply BI_refl. exact Hok.
Qed.

End Main.

Theorem expansion_budget_tight : forall text opt d, parse text opt = Ok d ->
  len_N (d_nodes d) <= 1 + tlen text + 256 * tlen text * amp_count text.
Proof.
  intros text opt d H. rewrite parse_prun in H. unfold prun in H.
  apply bind_ok in H. destruct H as [c0 [H0 H]].
  apply bind_ok in H. destruct H as [c [Hpd H]].
  apply fin_doc in H. subst d. fold (cnt c).
  assert (Hc0 : cnt c0 = 1 /\ c_ld c0 = ld_init).
  { pose proof (init_cnt _ _ _ H0) as [Hc _]. split; [exact Hc|].
    unfold init_context in H0. usteps. reflexivity. }
  destruct Hc0 as [Hc Hl].
  apply document_budget in Hpd.
  - lia.
  - unfold dp. rewrite Hl. reflexivity.
  - rewrite Hl. unfold ldok, ld_init. cbn [ld_depth ld_references]. lia.
Qed.
Print Assumptions expansion_budget_tight.

Theorem expansion_budget_nodes : forall text opt d, parse text opt = Ok d ->
  len_N (d_nodes d) <= 256 * (tlen text + 1) * (amp_count text + 1).
Proof.
  intros text opt d H. apply expansion_budget_tight in H. lia.
Qed.
Print Assumptions expansion_budget_nodes.
