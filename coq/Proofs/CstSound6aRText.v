(* Proofs/CstSound6aRText.v -- CstSound6uRText.v on Frag6a: markup-valued entities may be referenced.  In an attribute value
   the model refuses such a reference ([nattr_lt_fail]: '<' at entity depth > 0); the character-data machine [PTok] runs on
   windows that mention no markup-valued entity ([NoMk]: the values of the character-data entities, M of CstSound6a.v).  References to declared
   entities used in the body: what an accepting run of the model on character data says.
   [nattr_skel]: norm_attr_lvl on a window (an attribute value, or the value of an entity used in one);
   [ptok_skel]: process_text_with on a window (a text token, or the value of an entity used in one):
   the window is the rendering of a canonical list of pieces, whose inlining at level j of the
   declarations succeeds, and the loop detector runs through the trace of that inlining.
   The fuel j of the model is the level of the table: level j has the values that nest at most j deep. *)
From Coq Require Import String.
From Coq Require Import List Arith NArith Bool Lia ZifyBool ZifyN ZifyNat.
Import ListNotations.
From RX Require Import Generated.
From RX.Model Require Import Base CharClass Stream Tokenizer Doc Builder Parse.
From RX.Spec Require Cst Chars CstU CstNs CstText CstEnt Scope Detector.
From RX.Spec Require Import CstFull CstFullS5.
From RX.Proofs Require Import Tactics CstLex CstULex CstTextLex.
From RX.Proofs Require CstEntText CstEntBuild CstEntRun CstFullS2Sem CstFullS2Lex WfParse BorrowParse CstTextBuild.
From RX.Proofs Require Import DetectorProofs CstEntSem CstEntMeaning CstEntRejSem CstEntRejLevel CstFullS3Sem CstFullS3Text.
From RX.Proofs Require Import CstSound CstSoundT CstSoundTLex CstSoundULex CstSoundBuild CstSoundTBuild CstSoundTText.
From RX.Proofs Require Import CstSoundN CstSoundNLex CstSoundNBuild CstSoundNText.
From RX.Proofs Require Import CstSoundP CstSoundPEnt CstSoundPLex CstSoundPBuild CstSoundPText CstSoundPRef.
From RX.Proofs Require CstFullS4TSem.
From RX.Proofs Require Import CstSound6 CstSound6U CstSound6aLex CstSound6aText.
Open Scope N_scope.

(* ---- literal bytes in front of a list of pieces ---- *)
Definition econs_lit (x : N) (ps : list E.epiece) : list E.epiece :=
  match ps with E.EP (T.PLit bs) :: r => E.EP (T.PLit (x :: bs)) :: r | _ => E.EP (T.PLit [x]) :: ps end.

Lemma r_econs_lit x ps : E.r_epieces (econs_lit x ps) = x :: E.r_epieces ps.
Proof. destruct ps as [|[[bs| | |]|] r]; reflexivity. Qed.

Lemma beps_lit x ps : x <> 38 -> beps_ok ps -> beps_ok (econs_lit x ps).
Proof.
  intros Hx [HF HA].
  assert (L1 : bep_ok (E.EP (T.PLit [x]))) by (split; [discriminate|constructor; [exact Hx|constructor]]).
  destruct ps as [|p r]; [split; [constructor; [exact L1|constructor]|reflexivity]|].
  inversion HF as [|? ? Hp Hr]; subst. destruct p as [[bs|hex ds|pe|bs]|nm]; cbn [econs_lit].
  - destruct Hp as [_ Hb]. split; [constructor; [split; [discriminate|constructor; assumption]|exact Hr]|].
    destruct r as [|p2 r2]; [reflexivity|]. exact HA.
  - split; [constructor; [exact L1|exact HF]|]. change (negb (true && false) && E.no_adjacent_elit (E.EP (T.PCharRef hex ds) :: r) = true). exact HA.
  - split; [constructor; [exact L1|exact HF]|]. change (negb (true && false) && E.no_adjacent_elit (E.EP (T.PPredef pe) :: r) = true). exact HA.
  - destruct Hp.
  - split; [constructor; [exact L1|exact HF]|]. change (negb (true && false) && E.no_adjacent_elit (E.ERef nm :: r) = true). exact HA.
Qed.

Lemma beps_ref p ps : bep_ok p -> E.is_elit p = false -> beps_ok ps -> beps_ok (p :: ps).
Proof.
  intros Hp Hl [HF HA]. split; [constructor; assumption|].
  destruct ps as [|p2 r]; [reflexivity|].
  change (negb (E.is_elit p && E.is_elit p2) && E.no_adjacent_elit (p2 :: r) = true). rewrite Hl. exact HA.
Qed.

(* the literals of the inlined pieces have no CR *)
Definition no13 (Q : list T.piece) : Prop :=
  Forall (fun p => match p with T.PLit bs => Forall (fun y => y <> 13) bs | _ => True end) Q.

Lemma no13_nocr Q : no13 Q -> nocr Q.
Proof.
  intros H. unfold nocr. apply forallb_forall. intros p Hp. unfold no13 in H. rewrite Forall_forall in H. specialize (H _ Hp).
  apply negb_true_iff. destruct p as [bs| | |]; try reflexivity. apply lit_nocr. exact H.
Qed.
Lemma no13_app a c : no13 a -> no13 c -> no13 (a ++ c).
Proof. unfold no13. intros. apply Forall_app. split; assumption. Qed.
Lemma no13_mark : no13 [E.mark].
Proof. constructor; [constructor|constructor]. Qed.

Lemma inline_cons_lit tb fa ie x ps Q tr : E.inline_ps tb fa ie ps = Some (Q, tr) -> x <> 13 -> no13 Q ->
  exists Q', E.inline_ps tb fa ie (econs_lit x ps) = Some (Q', tr) /\ no13 Q'.
Proof.
  intros H Hx HQ.
  assert (GEN : exists Q', E.inline_ps tb fa ie (E.EP (T.PLit [x]) :: ps) = Some (Q', tr) /\ no13 Q').
  { cbn [E.inline_ps E.is_lt_ref]. rewrite andb_false_r, H. cbn [E.obind fst snd]. eexists. split; [reflexivity|].
    constructor; [constructor; [exact Hx|constructor]|exact HQ]. }
  destruct ps as [|[[bs|hex ds|pe|bs]|nm] r]; try exact GEN.
  cbn [econs_lit]. cbn [E.inline_ps E.is_lt_ref] in H |- *. rewrite andb_false_r in H |- *.
  destruct (E.inline_ps tb fa ie r) as [[q' t']|]; [|discriminate]. cbn [E.obind fst snd] in H |- *. injection H as <- <-.
  eexists. split; [reflexivity|]. inversion HQ as [|? ? Hb Hr]; subst. constructor; [constructor; assumption|exact Hr].
Qed.

(* a run of literal bytes *)
Definition lit_eps (v : bytes) : list E.epiece := match v with [] => [] | _ => [E.EP (T.PLit v)] end.
Lemma lit_eps_ok tb fa ie v : Forall (fun x => x <> 38) v -> Forall (fun y => y <> 13) v ->
  E.r_epieces (lit_eps v) = v /\ beps_ok (lit_eps v) /\
  E.inline_ps tb fa ie (lit_eps v) = Some (match v with [] => [] | _ => [T.PLit v] end, []) /\
  no13 (match v with [] => [] | _ => [T.PLit v] end).
Proof.
  intros H38 H13. destruct v as [|x v']; [split; [reflexivity|split; [apply beps_nil|split; [reflexivity|constructor]]]|].
  cbn [lit_eps]. split; [cbn; rewrite app_nil_r; reflexivity|]. split.
  { split; [constructor; [split; [discriminate|exact H38]|constructor]|reflexivity]. }
  split; [cbn [E.inline_ps E.is_lt_ref]; rewrite andb_false_r; reflexivity|]. constructor; [exact H13|constructor].
Qed.

Lemma predef_false name : forallb (fun n => negb (bytes_eqb name n)) [b "quot"; b "amp"; b "apos"; b "lt"; b "gt"] = true ->
  E.is_predef_name name = false.
Proof.
  intros H. destruct (E.is_predef_name name) eqn:E; [|reflexivity]. destruct (is_predef_dec name E) as (pe & ->).
  destruct pe; vm_compute in H; discriminate.
Qed.

Lemma uep_beps m vps : Forall (uep_ok m) vps -> E.no_adjacent_elit vps = true -> beps_ok vps.
Proof.
  intros H HA. split; [|exact HA]. eapply Forall_impl; [|exact H]. intros p Hp.
  destruct p as [[bs|hex ds|pe|bs]|nm]; cbn [uep_ok bep_ok piece_ok CstFullS2Sem.bvpiece] in *.
  - destruct Hp as [(Hne & _ & Hb) _]. split; [exact Hne|]. apply Forall_forall. intros y Hy ->. rewrite forallb_forall in Hb.
    specialize (Hb _ Hy). discriminate.
  - apply Hp.
  - exact I.
  - destruct Hp as [[] _].
  - exact Hp.
Qed.

Section RText.
Variable text : bytes.
Hypothesis HF : Frag6a text.
Variable decls : list E.edecl.
Variable ets : list entity.
Hypothesis Henv : Forall2 (uent_ok text) decls ets.
Hypothesis Hdecls : Forall CstFullS4TSem.udecl_okc decls.
Hypothesis Hmk : forall d its, In d decls -> E.e_value d = E.EContent its ->
  mem_b 60 (E.r_value (E.e_value d)) = true /\ Forall (fun y => y <> 38) (E.r_value (E.e_value d)).
(* [l] mentions no markup-valued entity *)
Definition NoMk (l : bytes) : Prop := forall d its, In d decls -> E.e_value d = E.EContent its -> contains_b ([38] ++ E.e_name d ++ [59]) l = false.
Hypothesis Hvals : forall d vps, In d decls -> E.e_value d = E.EText vps -> NoMk (E.r_epieces vps).
Hypothesis Hnames : Forall (fun d => uname (E.e_name d)) decls.
Notation W := (CstLex.W text).
Notation WV := (CstULex.WV text).
Notation sb := (slice_bytes text).
Notation T_ := (Parse.token text).
Notation WS := (CstSoundTText.WS text).
Notation WS_cons := (CstSoundTText.WS_cons text).
Notation WS_app := (CstSoundTText.WS_app text).

Lemma W_no13 p x r : W p (x :: r) -> x <> 13.
Proof. intros H. pose proof (W_cr text HF _ _ H) as Hc. inversion Hc; assumption. Qed.

Lemma W_no13_all l p more : W p (l ++ more) -> Forall (fun y => y <> 13) l.
Proof. apply (W_cr_l text HF). Qed.

Lemma W_valid_amp p r : W p (38 :: r) -> WV p (38 :: r).
Proof.
  intros HW. split; [exact HW|]. destruct HW as [H _]. pose proof (fp_valid _ HF) as Hv.
  rewrite <- (firstn_skipn (N.to_nat p) text), H in Hv.
  apply (Valid_app_inv (firstn (N.to_nat p) text)); [|exact Hv]. eapply valid_split; [|exact Hv]. lia.
Qed.

Lemma NoMk_suffix pre l : NoMk (pre ++ l) -> NoMk l.
Proof.
  intros H d its Hin Ev. specialize (H d its Hin Ev).
  pose proof (CstSoundTLex.contains_skipn _ (length pre) _ H ltac:(discriminate)) as H'. rewrite skipn_len_app in H'. exact H'.
Qed.
Lemma NoMk_cons x l : NoMk (x :: l) -> NoMk l.
Proof. apply (NoMk_suffix [x]). Qed.

(* the declaration a reference resolves to *)
Lemma ref_decl name en p rest : W p ([38] ++ name ++ [59] ++ rest) -> find_entity text ets name = Some en ->
  (exists d vps vs tail, first_decl decls name = Some d /\ E.e_value d = E.EText vps /\
    Forall (uep_ok true) vps /\ contains_b n3 (E.r_epieces vps) = false /\ E.no_adjacent_elit vps = true /\
    en_value en = sl vs (vs + blen (E.r_epieces vps)) /\ WV vs (E.r_epieces vps ++ tail) /\ uname name /\ In d decls) \/
  (exists d its vs tail, first_decl decls name = Some d /\ E.e_value d = E.EContent its /\ In d decls /\ E.e_name d = name /\
    en_value en = sl vs (vs + blen (E.r_value (E.e_value d))) /\ WV vs (E.r_value (E.e_value d) ++ tail)).
Proof.
  intros HWp Hf. destruct (find_entity_first text name en decls ets Henv Hf) as (d & Hd & _ & vs & tail & Ev & HWv).
  destruct (first_decl_in decls name d Hd) as [Hin En]. rewrite Forall_forall in Hnames. pose proof (Hnames _ Hin) as Hu. rewrite En in Hu.
  rewrite Forall_forall in Hdecls. pose proof (Hdecls _ Hin) as Hok. unfold CstFullS4TSem.udecl_okc in Hok.
  destruct (E.e_value d) as [vps|its] eqn:Eval.
  - left. destruct Hok as (Hok & Hn3 & Hadj). cbn [E.r_value] in Ev, HWv. exists d, vps, vs, tail.
    split; [exact Hd|]. split; [exact Eval|]. split; [exact Hok|]. split; [exact Hn3|]. split; [exact Hadj|]. split; [exact Ev|]. split; [exact HWv|]. split; [exact Hu|exact Hin].
  - right. exists d, its, vs, tail. split; [exact Hd|]. split; [exact Eval|]. split; [exact Hin|]. split; [exact En|]. rewrite Eval. split; [exact Ev|exact HWv].
Qed.

(* a window with '<' and without '&', read as (part of) an attribute value inside an entity: refused *)
Lemma nattr_lt_fail j : forall fu e p l more t ld t' ld', CstSoundTText.WS text e p l more ->
  Forall (fun y => y <> 38) l -> mem_b 60 l = true -> 0 < ld_depth ld ->
  WfParse.nattr_loop text j ets fu (sst e p (l ++ more)) t ld = Ok (t', ld') -> False.
Proof.
  induction fu as [|fu IH]; intros e p l more t ld t' ld' HW H38 H60 Hd H; cbn [WfParse.nattr_loop] in H; [noerr|].
  rewrite at_end_sst in H. pose proof HW as [HW0 Hw].
  destruct l as [|x l1]; [discriminate|].
  rewrite blen_cons in Hw. replace (e <=? p) with false in H by lia.
  cbn [app curr_byte_unchecked sst s_rest bind] in H.
  apply Forall_cons_iff in H38. destruct H38 as [Hx H38'].
  replace (x =? 38) with false in H by lia. cbn [negb] in H.
  destruct (x =? 60) eqn:E60.
  - replace (0 <? ld_depth ld) with true in H by lia. cbn [andb] in H. noerr.
  - cbn [andb] in H. fold (sst e p (x :: l1 ++ more)) in H. rewrite advance1_sst in H by lia. cbn [bind] in H.
    apply (IH _ _ _ _ _ _ _ _ (CstSoundTText.WS_cons text _ _ _ _ _ HW) H38' ltac:(cbn [mem_b] in H60; replace (60 =? x) with false in H60 by lia; exact H60) Hd H).
Qed.

Lemma lookup_ref j name d vps Q tr : first_decl decls name = Some d -> E.e_value d = E.EText vps ->
  E.inline_ps (E.level decls j) false true vps = Some (Q, tr) ->
  E.lookup (E.level decls (S j)) name = Some {| E.x_items := [T.IText Q]; E.x_pieces := Some Q; E.x_trace := tr |}.
Proof.
  intros Hd Ev Hi. rewrite lookup_level, Hd, Ev. cbn [E.inline_value]. rewrite Hi. reflexivity.
Qed.

(* ------------------------------------------------------------------------------------------ *)
(* attribute values                                                                            *)
(* ------------------------------------------------------------------------------------------ *)
Lemma push_lt t : push_char_bytes_attr (encode_utf8 60) true t = None.
Proof. reflexivity. Qed.

Definition AttrSkel (j : nat) : Prop := forall fu e p l more t ld t' ld',
  WS e p l more -> (exists dn, U8.Valid (dn ++ l)) ->
  WfParse.nattr_loop text j ets fu (sst e p (l ++ more)) t ld = Ok (t', ld') ->
  exists ps Q tr, l = E.r_epieces ps /\ beps_ok ps /\
    E.inline_ps (E.level decls j) true (0 <? ld_depth ld) ps = Some (Q, tr) /\ ld_run ld tr = Some ld' /\ no13 Q.

Lemma nattr_skel_step j : (forall j', j = S j' -> AttrSkel j') -> AttrSkel j.
Proof.
  intros IHj. unfold AttrSkel. induction fu as [|fu IH]; intros e p l more t ld t' ld' HW HV H; cbn [WfParse.nattr_loop] in H; [noerr|].
  rewrite at_end_sst in H. pose proof HW as [HW0 Hw].
  destruct l as [|x l1].
  { rewrite blen_nil in Hw. replace (e <=? p) with true in H by lia. inversion H; subst.
    exists [], [], []. split; [reflexivity|]. split; [apply beps_nil|]. split; [reflexivity|]. split; [reflexivity|constructor]. }
  rewrite blen_cons in Hw. replace (e <=? p) with false in H by lia.
  cbn [app curr_byte_unchecked sst s_rest bind] in H.
  destruct (x =? 38) eqn:E38; cbn [negb] in H.
  - assert (x = 38) by lia. subst x. cbv zeta in H. ib H rf Hrf.
    change (38 :: l1 ++ more) with ((38 :: l1) ++ more) in Hrf. fold (sst e p ((38 :: l1) ++ more)) in Hrf.
    destruct rf as [[rf s2]|]; [|noerr].
    destruct HV as (dn & HV).
    assert (HV0 : U8.Valid (38 :: l1)) by (apply (Valid_app_inv dn); [eapply valid_split; [|exact HV]; lia|exact HV]).
    assert (HWV : forall X, (38 :: l1) ++ more = X -> WV p X) by (intros X <-; exact (W_valid_amp p (l1 ++ more) HW0)).
    pose proof (W_le text _ _ (W_app text _ _ _ HW0)) as Hle. rewrite blen_cons in Hle.
    destruct (cref_inv_p text HF _ _ _ _ _ _ HW HV0 Hrf)
      as [(hex & ds & l' & El & Hwf & _ & Es2 & HW')|[(pe & l' & El & _ & Es2 & HW')|(nm & name & l5 & Er & El & Hnb & Hnp & Hsb & Es2 & HW')]].
    + (* a character reference *)
      subst l1.
      assert (Epc : (38 :: [35] ++ (if hex then [120] else []) ++ ds ++ [59] ++ l') ++ more = T.r_piece (T.PCharRef hex ds) ++ (l' ++ more)).
      { cbn [T.r_piece app]. rewrite <- !app_assoc. cbn [app]. reflexivity. }
      rewrite Epc in Hrf.
      rewrite (CstFullS2Lex.cref_charref_u text e p hex ds (l' ++ more) (HWV _ Epc) Hwf) in Hrf.
      2:{ clear - Hw. cbn [T.r_piece]. destruct hex; cbn [app] in *; repeat first [rewrite blen_cons in *|rewrite blen_app in *|rewrite blen_nil in *]; lia. }
      2:{ lia. }
      injection Hrf as <- <-.
      destruct (push_char_bytes_attr _ _ t) as [t1|] eqn:Ep; [|noerr].
      assert (HV' : exists dn', U8.Valid (dn' ++ l')).
      { exists (dn ++ T.r_piece (T.PCharRef hex ds)). rewrite <- app_assoc. cbn [T.r_piece]. rewrite <- !app_assoc. exact HV. }
      rewrite Es2 in H.
      destruct (IH _ _ _ _ _ _ _ _ HW' HV' H) as (ps & Q & tr & -> & Hps & Hi & Hr & HQ).
      exists (E.EP (T.PCharRef hex ds) :: ps), (T.PCharRef hex ds :: Q), tr.
      split; [cbn [E.r_epieces flat_map E.r_epiece T.r_piece]; rewrite <- !app_assoc; reflexivity|].
      split; [apply beps_ref; [exact Hwf|reflexivity|exact Hps]|]. split; [|split; [exact Hr|constructor; [exact I|exact HQ]]].
      cbn [E.inline_ps]. rewrite Hi. cbn [E.obind fst snd andb].
      destruct (0 <? ld_depth ld) eqn:Ed; [|reflexivity].
      destruct (E.is_lt_ref (T.PCharRef hex ds)) eqn:Elt; [|reflexivity]. exfalso.
      cbn [E.is_lt_ref] in Elt. assert (Ev : T.ref_val hex ds = 60) by lia. rewrite Ev, push_lt in Ep. discriminate.
    + (* a predefined entity *)
      subst l1.
      assert (Epc : (38 :: T.predef_name pe ++ [59] ++ l') ++ more = T.r_piece (T.PPredef pe) ++ (l' ++ more)).
      { cbn [T.r_piece app]. rewrite <- !app_assoc. cbn [app]. reflexivity. }
      rewrite Epc in Hrf.
      rewrite (CstFullS2Lex.cref_predef_u text e p pe (l' ++ more) (HWV _ Epc)) in Hrf.
      2:{ clear - Hw. cbn [T.r_piece]. cbn [app] in *; repeat first [rewrite blen_cons in *|rewrite blen_app in *|rewrite blen_nil in *]; lia. }
      2:{ lia. }
      injection Hrf as <- <-.
      destruct (push_char_bytes_attr _ _ t) as [t1|] eqn:Ep; [|noerr].
      assert (HV' : exists dn', U8.Valid (dn' ++ l')).
      { exists (dn ++ T.r_piece (T.PPredef pe)). rewrite <- app_assoc. cbn [T.r_piece]. rewrite <- !app_assoc. exact HV. }
      rewrite Es2 in H.
      destruct (IH _ _ _ _ _ _ _ _ HW' HV' H) as (ps & Q & tr & -> & Hps & Hi & Hr & HQ).
      exists (E.EP (T.PPredef pe) :: ps), (T.PPredef pe :: Q), tr.
      split; [cbn [E.r_epieces flat_map E.r_epiece T.r_piece]; rewrite <- !app_assoc; reflexivity|].
      split; [apply beps_ref; [exact I|reflexivity|exact Hps]|]. split; [|split; [exact Hr|constructor; [exact I|exact HQ]]].
      cbn [E.inline_ps]. rewrite Hi. cbn [E.obind fst snd andb].
      destruct (0 <? ld_depth ld) eqn:Ed; [|reflexivity].
      destruct pe; try reflexivity. exfalso. cbn [T.predef_char] in Ep. rewrite push_lt in Ep. discriminate.
    + (* a reference to a declared entity *)
      subst rf l1 s2. rewrite Hsb in H.
      destruct (find_entity text ets name) as [en|] eqn:Ef; [|noerr].
      destruct (ref_decl name en p (l5 ++ more) ltac:(cbn [app] in HW0 |- *; rewrite <- app_assoc in HW0; exact HW0) Ef)
        as [(d & vps & vs & tail & Hd & Ev & Hok & Hn3 & Hadj & Een & HWv & Hun & Hin)|(d & its & vs & tail & Hd & Ev & Hin & En & Een & HWv)].
      2:{ exfalso. ib H ld1 Hl1. ib H ld2 Hl2. ib H q Hq. destruct q as [t1 ld3].
          assert (Hent : ld_enter ld = Some ld2).
          { pose proof (enter_agrees_model text (sst e (p + 1 + blen name + 1) (l5 ++ more)) ld) as Hm.
            destruct (ld_enter ld) as [ldx|].
            - rewrite Hl1 in Hm. cbn [bind] in Hm. rewrite Hl2 in Hm. injection Hm as <-. reflexivity.
            - exfalso. apply (Hm ld2). rewrite Hl1. cbn [bind]. exact Hl2. }
          destruct (enter_d _ _ Hent) as [Dd _].
          destruct j as [|j']; [cbn [norm_attr_lvl] in Hq; discriminate|].
          rewrite WfParse.norm_attr_lvl_eq, Een in Hq. cbn [sl sl_start sl_end] in Hq.
          destruct (stream_from_substr_ws text vs _ tail (WV_W _ _ _ HWv)) as (Es & HWS). rewrite Es in Hq. cbn [bind] in Hq.
          destruct (Hmk d its Hin Ev) as [M60 M38].
          assert (Dpos : 0 < ld_depth ld2) by lia.
          exact (nattr_lt_fail j' _ _ _ _ _ _ _ _ _ HWS M38 M60 Dpos Hq). }
      ib H ld1 Hl1. ib H ld2 Hl2. ib H q Hq. destruct q as [t1 ld3].
      assert (Hent : ld_enter ld = Some ld2).
      { pose proof (enter_agrees_model text (sst e (p + 1 + blen name + 1) (l5 ++ more)) ld) as Hm.
        destruct (ld_enter ld) as [ldx|].
        - rewrite Hl1 in Hm. cbn [bind] in Hm. rewrite Hl2 in Hm. injection Hm as <-. reflexivity.
        - exfalso. apply (Hm ld2). rewrite Hl1. cbn [bind]. exact Hl2. }
      destruct (enter_d _ _ Hent) as [Dd _].
      destruct j as [|j']; [cbn [norm_attr_lvl] in Hq; discriminate|].
      rewrite WfParse.norm_attr_lvl_eq, Een in Hq. cbn [sl sl_start sl_end] in Hq.
      destruct (stream_from_substr_ws text vs (E.r_epieces vps) tail (WV_W _ _ _ HWv)) as (Es & HWS). rewrite Es in Hq. cbn [bind] in Hq.
      assert (HVv : exists dn0, U8.Valid (dn0 ++ E.r_epieces vps)).
      { exists []. apply CstFullS2Sem.ustr_valid. apply (proj1 (uep_bytes true vps Hok)). }
      destruct (IHj j' eq_refl _ _ _ _ _ _ _ _ _ HWS HVv Hq) as (ps1 & Q1 & tr1 & E1 & Hps1 & Hi1 & Hr1 & HQ1).
      assert (ps1 = vps) by (apply beps_unique; [exact Hps1|apply (uep_beps true); assumption|symmetry; exact E1]). subst ps1.
      replace (0 <? ld_depth ld2) with true in Hi1 by lia.
      pose proof (lookup_ref j' name d vps Q1 tr1 Hd Ev (inline_weaken _ _ _ _ _ Hi1)) as Hlk.
      pose proof (ld_run_bal tr1 (bal_ps _ (balT_level decls j') _ _ _ _ _ Hi1) _ _ Hr1) as D3.
      assert (D4 : ld_depth (dec_depth ld3) = ld_depth ld) by (rewrite dec_d by lia; lia).
      assert (HV' : exists dn', U8.Valid (dn' ++ l5)).
      { exists (dn ++ [38] ++ name ++ [59]). rewrite <- !app_assoc. exact HV. }
      destruct (IH _ _ _ _ _ _ _ _ HW' HV' H) as (ps & Q & tr & -> & Hps & Hi & Hr & HQ).
      rewrite D4 in Hi.
      exists (E.ERef name :: ps), (E.mark :: Q1 ++ E.mark :: Q), (Detector.Enter :: tr1 ++ Detector.Exit :: tr).
      split; [cbn [E.r_epieces flat_map E.r_epiece]; rewrite <- !app_assoc; reflexivity|].
      split; [apply beps_ref; [split; [exact Hun|apply predef_false; exact Hnp]|reflexivity|exact Hps]|].
      split; [|split].
      * cbn [E.inline_ps]. rewrite Hlk. cbn [E.obind E.x_pieces E.x_trace andb]. rewrite (inline_lt _ _ _ _ Hi1), Hi. reflexivity.
      * cbn [ld_run]. rewrite Hent, ld_run_app, Hr1. cbn [ld_run]. exact Hr.
      * constructor; [constructor|]. apply no13_app; [exact HQ1|]. constructor; [constructor|exact HQ].
  - destruct ((x =? 60) && (0 <? ld_depth ld)); [noerr|].
    fold (sst e p (x :: l1 ++ more)) in H. rewrite advance1_sst in H by lia. cbn [bind] in H.
    assert (HV' : exists dn', U8.Valid (dn' ++ l1)) by (destruct HV as (dn & HV); exists (dn ++ [x]); rewrite <- app_assoc; exact HV).
    destruct (IH _ _ _ _ _ _ _ _ (WS_cons _ _ _ _ _ HW) HV' H) as (ps & Q & tr & -> & Hps & Hi & Hr & HQ).
    destruct (inline_cons_lit _ _ _ x _ _ _ Hi (W_no13 _ _ _ HW0) HQ) as (Q' & Hi' & HQ').
    exists (econs_lit x ps), Q', tr. split; [rewrite r_econs_lit; reflexivity|]. split; [apply beps_lit; [lia|exact Hps]|].
    split; [exact Hi'|]. split; [exact Hr|exact HQ'].
Qed.

Theorem nattr_skel : forall j, AttrSkel j.
Proof.
  induction j as [|j IH]; apply nattr_skel_step; intros j' E; [discriminate|]. injection E as <-. exact IH.
Qed.

(* ------------------------------------------------------------------------------------------ *)
(* character data                                                                              *)
(* ------------------------------------------------------------------------------------------ *)
Definition nonelemK (K : list row) : Prop := Forall (fun rw => is_element_kind (snd rw) = false) K.

(* what a text token may change *)
Definition tframe (c c' : context) : Prop :=
  c_parent_id c' = c_parent_id c /\ c_parent_prefixes c' = c_parent_prefixes c /\ c_cur_attrs c' = c_cur_attrs c /\
  c_entities c' = c_entities c /\ nseq c c' /\
  exists K, erows c' = erows c ++ K /\ nonelemK K.

Lemma tframe_refl c : tframe c c.
Proof. repeat split. exists []. rewrite app_nil_r. split; [reflexivity|constructor]. Qed.
Lemma tframe_trans c1 c2 c3 : tframe c1 c2 -> tframe c2 c3 -> tframe c1 c3.
Proof.
  intros (A1 & A2 & A3 & A4 & A5 & K1 & A6 & A7) (B1 & B2 & B3 & B4 & B5 & K2 & B6 & B7).
  split; [congruence|]. split; [congruence|]. split; [congruence|]. split; [congruence|].
  split; [eapply nseq_trans; eauto|]. exists (K1 ++ K2). split; [rewrite B6, A6, app_assoc; reflexivity|].
  apply Forall_app. split; assumption.
Qed.

Lemma same_tframe c c' K : same_ctx c c' -> erows c' = erows c ++ K -> nonelemK K -> tframe c c'.
Proof. intros (A1 & A2 & A3 & A4 & A5 & A6 & A7) ER HK. repeat split; try assumption; try apply A6. exists K. auto. Qed.

Lemma append_text_tframe t r c c' : append_text t r c = Ok c' -> tframe c c' /\ c_ld c' = c_ld c.
Proof.
  intros H. unfold append_text in H. ib H c1 H1.
  assert (E : same_ctx c c1 /\ exists K, erows c1 = erows c ++ K /\ nonelemK K).
  { destruct (c_after_text c).
    - ib H1 q Hq. destruct q as [id c2]. inversion H1; subst c2.
      destruct (append_same _ _ _ _ _ Hq) as (X & A1 & _).
      split; [exact X|]. eexists; split; [exact A1|constructor; [reflexivity|constructor]].
    - inversion H1; subst c1. split; [apply same_ctx_refl|]. exists []. rewrite app_nil_r. split; [reflexivity|constructor]. }
  destruct E as (X & K & EK & HK). inversion H; subst c'. clear H.
  pose proof (same_tframe c c1 K X EK HK) as TF. destruct X as (_ & _ & _ & _ & _ & _ & Hld).
  split; [|exact Hld]. eapply tframe_trans; [exact TF|]. repeat split. exists []. rewrite app_nil_r. split; [reflexivity|constructor].
Qed.

Lemma flush_tframe buf r c c1 :
  (if negb (tb_is_empty buf) then let! bs := tb_finish buf in append_text (CowOwned bs) r c else Ok c) = Ok c1 ->
  tframe c c1 /\ c_ld c1 = c_ld c.
Proof.
  intros H. destruct (negb (tb_is_empty buf)).
  - ib H bs Hb. exact (append_text_tframe _ _ _ _ H).
  - inversion H; subst. split; [apply tframe_refl|reflexivity].
Qed.

Lemma uep_nil m : forall vps, Forall (uep_ok m) vps -> E.r_epieces vps = [] -> vps = [].
Proof.
  intros [|p vps] H E; [reflexivity|]. exfalso. inversion H as [|? ? Hp _]; subst. rewrite r_epieces_cons in E.
  destruct (uep_piece_ne m p Hp) as (x & r & Ex). rewrite Ex in E. discriminate.
Qed.

Definition PTok (j : nat) : Prop := forall p x tail c c',
  WV p (x ++ tail) -> U8.Valid x -> NoMk x -> c_entities c = ets ->
  process_text_with text (parse_content_lvl text j) (sl p (p + blen x)) (p, p + blen x) c = Ok c' ->
  exists ps Q tr, x = E.r_epieces ps /\ beps_ok ps /\
    E.inline_ps (E.level decls j) false false ps = Some (Q, tr) /\ ld_run (c_ld c) tr = Some (c_ld c') /\ no13 Q /\
    tframe c c'.

Lemma ploop_skel j r : (forall j', j = S j' -> PTok j') -> forall fuel e p l more buf c buf' c',
  WS e p l more -> (exists dn, U8.Valid (dn ++ l)) -> NoMk l -> c_entities c = ets ->
  BorrowParse.ptext_loop text (parse_content_lvl text j) r fuel (sst e p (l ++ more)) buf c = Ok (buf', c') ->
  exists ps Q tr, l = E.r_epieces ps /\ beps_ok ps /\
    E.inline_ps (E.level decls j) false false ps = Some (Q, tr) /\ ld_run (c_ld c) tr = Some (c_ld c') /\ no13 Q /\
    tframe c c'.
Proof.
  intros IHj. induction fuel as [|fu IH]; intros e p l more buf c buf' c' HW HV HNo Hent H; cbn [BorrowParse.ptext_loop] in H; [noerr|].
  rewrite at_end_sst in H. pose proof HW as [HW0 Hw].
  destruct l as [|x l1].
  { rewrite blen_nil in Hw. replace (e <=? p) with true in H by lia. inversion H; subst.
    exists [], [], []. split; [reflexivity|]. split; [apply beps_nil|]. split; [reflexivity|]. split; [reflexivity|].
    split; [constructor|apply tframe_refl]. }
  rewrite blen_cons in Hw. replace (e <=? p) with false in H by lia.
  ib H q Hq. destruct q as [ch s1]. unfold parse_next_chunk in Hq. rewrite at_end_sst in Hq.
  replace (e <=? p) with false in Hq by lia. cbn [app curr_byte_unchecked sst s_rest bind] in Hq.
  destruct (x =? 38) eqn:E38.
  - assert (x = 38) by lia. subst x. cbv zeta in Hq. ib Hq rf Hrf.
    change (38 :: l1 ++ more) with ((38 :: l1) ++ more) in Hrf. fold (sst e p ((38 :: l1) ++ more)) in Hrf.
    destruct rf as [[rf s2]|]; [|noerr].
    destruct HV as (dn & HV).
    assert (HV0 : U8.Valid (38 :: l1)) by (apply (Valid_app_inv dn); [eapply valid_split; [|exact HV]; lia|exact HV]).
    destruct (cref_inv_p text HF _ _ _ _ _ _ HW HV0 Hrf)
      as [(hex & ds & l' & El & Hwf & (cp & Er) & Es2 & HW')|[(pe & l' & El & (cp & Er) & Es2 & HW')|(nm & name & l5 & Er & El & Hnb & Hnp & Hsb & Es2 & HW')]].
    + subst l1 rf. inversion Hq; subst ch s1. clear Hq. rewrite Es2 in H.
      assert (HV' : exists dn', U8.Valid (dn' ++ l')).
      { exists (dn ++ T.r_piece (T.PCharRef hex ds)). rewrite <- app_assoc. cbn [T.r_piece]. rewrite <- !app_assoc. exact HV. }
      assert (HNo' : NoMk l').
      { apply (NoMk_suffix (38 :: [35] ++ (if hex then [120] else []) ++ ds ++ [59])).
        replace ((38 :: [35] ++ (if hex then [120] else []) ++ ds ++ [59]) ++ l') with (38 :: [35] ++ (if hex then [120] else []) ++ ds ++ [59] ++ l') by (cbn [app]; rewrite <- !app_assoc; reflexivity). exact HNo. }
      destruct (IH _ _ _ _ _ _ _ _ HW' HV' HNo' Hent H) as (ps & Q & tr & -> & Hps & Hi & Hr & HQ & TF).
      exists (E.EP (T.PCharRef hex ds) :: ps), (T.PCharRef hex ds :: Q), tr.
      split; [cbn [E.r_epieces flat_map E.r_epiece T.r_piece]; rewrite <- !app_assoc; reflexivity|].
      split; [apply beps_ref; [exact Hwf|reflexivity|exact Hps]|].
      split; [cbn [E.inline_ps andb]; rewrite Hi; reflexivity|]. split; [exact Hr|]. split; [constructor; [exact I|exact HQ]|exact TF].
    + subst l1 rf. inversion Hq; subst ch s1. clear Hq. rewrite Es2 in H.
      assert (HV' : exists dn', U8.Valid (dn' ++ l')).
      { exists (dn ++ T.r_piece (T.PPredef pe)). rewrite <- app_assoc. cbn [T.r_piece]. rewrite <- !app_assoc. exact HV. }
      assert (HNo' : NoMk l').
      { apply (NoMk_suffix (38 :: T.predef_name pe ++ [59])).
        replace ((38 :: T.predef_name pe ++ [59]) ++ l') with (38 :: T.predef_name pe ++ [59] ++ l') by (cbn [app]; rewrite <- !app_assoc; reflexivity). exact HNo. }
      destruct (IH _ _ _ _ _ _ _ _ HW' HV' HNo' Hent H) as (ps & Q & tr & -> & Hps & Hi & Hr & HQ & TF).
      exists (E.EP (T.PPredef pe) :: ps), (T.PPredef pe :: Q), tr.
      split; [cbn [E.r_epieces flat_map E.r_epiece T.r_piece]; rewrite <- !app_assoc; reflexivity|].
      split; [apply beps_ref; [exact I|reflexivity|exact Hps]|].
      split; [cbn [E.inline_ps andb]; rewrite Hi; reflexivity|]. split; [exact Hr|]. split; [constructor; [exact I|exact HQ]|exact TF].
    + subst rf l1 s2. rewrite Hsb, Hent in Hq.
      destruct (find_entity text ets name) as [en|] eqn:Ef; [|noerr].
      inversion Hq; subst ch s1. clear Hq.
      destruct (ref_decl name en p (l5 ++ more) ltac:(cbn [app] in HW0 |- *; rewrite <- app_assoc in HW0; exact HW0) Ef)
        as [(d & vps & vs & tail & Hd & Ev & Hok & Hn3 & Hadj & Een & HWv & Hun & Hin)|(d & its & vs & tail & Hd & Ev & Hin & En & Een & HWv)].
      2:{ exfalso. specialize (HNo d its Hin Ev). rewrite En in HNo. cbn [contains_b] in HNo. apply orb_false_iff in HNo. destruct HNo as [HNo _].
          replace (38 :: name ++ 59 :: l5) with (([38] ++ name ++ [59]) ++ l5) in HNo by (rewrite <- !app_assoc; reflexivity).
          rewrite prefix_b_app_same in HNo. discriminate. }
      ib H c1 Hc1. destruct (flush_tframe _ _ _ _ Hc1) as (TF1 & Ld1).
      ib H ld1 Hl1. ib H ld2 Hl2. cbv zeta in H. ib H es0 Hes. ib H q4 Hq4. destruct q4 as [sx c4].
      match type of H with (if ?bb then _ else _) = _ => destruct bb; [discriminate|] end.
      assert (Henter : ld_enter (c_ld c) = Some ld2).
      { rewrite <- Ld1. pose proof (enter_agrees_model text (sst e (p + 1 + blen name + 1) (l5 ++ more)) (c_ld c1)) as Hm.
        destruct (ld_enter (c_ld c1)) as [ldx|].
        - rewrite Hl1 in Hm. cbn [bind] in Hm. rewrite Hl2 in Hm. injection Hm as <-. reflexivity.
        - exfalso. apply (Hm ld2). rewrite Hl1. cbn [bind]. exact Hl2. }
      destruct (enter_d _ _ Henter) as [Dd _].
      set (c3 := set_entity_floor (set_tag_name (set_ld c1 ld2) tag_name_null) (len_N (c_parent_prefixes (set_ld c1 ld2)))) in *.
      assert (TF3 : tframe c1 c3) by (repeat split; exists []; rewrite app_nil_r; split; [reflexivity|constructor]).
      assert (Ld3 : c_ld c3 = ld2) by reflexivity.
      assert (Hent3 : c_entities c3 = ets) by (destruct TF1 as (_ & _ & _ & X & _); change (c_entities c3) with (c_entities c1); congruence).
      rewrite Een in Hes. cbn [sl sl_start sl_end] in Hes.
      destruct (stream_from_substr_ws text vs (E.r_epieces vps) tail (WV_W _ _ _ HWv)) as (Es & HWS). rewrite Es in Hes. injection Hes as <-.
      (* the value of the entity, read by the content parser one level down *)
      assert (NEST : exists Q1 tr1, E.inline_ps (E.level decls (pred j)) false false vps = Some (Q1, tr1) /\
                       ld_run ld2 tr1 = Some (c_ld c4) /\ no13 Q1 /\ tframe c3 c4 /\ j = S (pred j)).
      { destruct j as [|j']; [cbn [parse_content_lvl] in Hq4; discriminate|]. cbn [pred].
        cbn [parse_content_lvl] in Hq4. unfold parse_content in Hq4. cbn [sst s_rest] in Hq4.
        destruct (uep_bytes true vps Hok) as (Hustr & H60).
        destruct (E.r_epieces vps) as [|y vb] eqn:Evb.
        - apply (uep_nil true) in Evb; [|exact Hok]. subst vps. cbn [app length parse_content_loop] in Hq4.
          rewrite at_end_sst, blen_nil in Hq4. replace (vs + 0 <=? vs) with true in Hq4 by lia. injection Hq4 as _ <-.
          exists [], []. split; [reflexivity|]. split; [rewrite <- Ld3; reflexivity|]. split; [constructor|]. split; [apply tframe_refl|reflexivity].
        - cbn [app length] in Hq4. change (y :: vb ++ tail) with ((y :: vb) ++ tail) in Hq4.
          rewrite (content_loop_text_ne_u text context _ (vs + blen (y :: vb)) vs (y :: vb) tail c3 _ HWv eq_refl) in Hq4;
            [|apply (W_le text _ _ (W_app text _ _ _ (WV_W _ _ _ HWv)))|exact Hustr|exact H60|exact Hn3|discriminate].
          ib Hq4 c4' Hc4. injection Hq4 as _ <-. cbn [token_with] in Hc4.
          destruct (IHj j' eq_refl _ _ _ _ _ HWv (CstFullS2Sem.ustr_valid _ Hustr) ltac:(rewrite <- Evb; exact (Hvals d vps Hin Ev)) Hent3 Hc4) as (ps1 & Q1 & tr1 & E1 & Hps1 & Hi1 & Hr1 & HQ1 & TF4).
          assert (ps1 = vps) by (apply beps_unique; [exact Hps1|apply (uep_beps true); assumption|rewrite Evb; symmetry; exact E1]). subst ps1.
          exists Q1, tr1. split; [exact Hi1|]. split; [rewrite <- Ld3; exact Hr1|]. split; [exact HQ1|]. split; [exact TF4|reflexivity]. }
      destruct NEST as (Q1 & tr1 & Hi1 & Hr1 & HQ1 & TF4 & Ej).
      set (c6 := set_ld (set_entity_floor (set_tag_name c4 (c_tag_name (set_ld c1 ld2))) (c_entity_floor (set_ld c1 ld2)))
                        (dec_depth (c_ld (set_entity_floor (set_tag_name c4 (c_tag_name (set_ld c1 ld2))) (c_entity_floor (set_ld c1 ld2)))))) in *.
      assert (TF6 : tframe c4 c6) by (repeat split; exists []; rewrite app_nil_r; split; [reflexivity|constructor]).
      assert (Ld6 : c_ld c6 = dec_depth (c_ld c4)) by reflexivity.
      pose proof (tframe_trans _ _ _ TF1 (tframe_trans _ _ _ TF3 (tframe_trans _ _ _ TF4 TF6))) as TFc.
      assert (Hent6 : c_entities c6 = ets) by (destruct TFc as (_ & _ & _ & X & _); congruence).
      assert (HV' : exists dn', U8.Valid (dn' ++ l5)).
      { exists (dn ++ [38] ++ name ++ [59]). rewrite <- !app_assoc. exact HV. }
      assert (HNo' : NoMk l5) by (apply (NoMk_suffix ([38] ++ name ++ [59])); rewrite <- !app_assoc; exact HNo).
      destruct (IH _ _ _ _ _ _ _ _ HW' HV' HNo' Hent6 H) as (ps & Q & tr & -> & Hps & Hi & Hr & HQ & TF).
      rewrite (inline_false_ie _ false true) in Hi1.
      rewrite Ej. pose proof (lookup_ref (pred j) name d vps Q1 tr1 Hd Ev Hi1) as Hlk.
      exists (E.ERef name :: ps), (E.mark :: Q1 ++ E.mark :: Q), (Detector.Enter :: tr1 ++ Detector.Exit :: tr).
      split; [cbn [E.r_epieces flat_map E.r_epiece]; rewrite <- !app_assoc; reflexivity|].
      split; [apply beps_ref; [split; [exact Hun|apply predef_false; exact Hnp]|reflexivity|exact Hps]|].
      split; [|split; [|split]].
      * cbn [E.inline_ps]. rewrite Hlk. cbn [E.obind E.x_pieces E.x_trace andb]. rewrite <- Ej, Hi. reflexivity.
      * cbn [ld_run]. rewrite Henter, ld_run_app, Hr1. cbn [ld_run]. rewrite <- Ld6. exact Hr.
      * constructor; [constructor|]. apply no13_app; [exact HQ1|]. constructor; [constructor|exact HQ].
      * exact (tframe_trans _ _ _ TFc TF).
  - fold (sst e p (x :: l1 ++ more)) in Hq. rewrite advance1_sst in Hq by lia. cbn [bind] in Hq.
    inversion Hq; subst ch s1. clear Hq.
    assert (HV' : exists dn', U8.Valid (dn' ++ l1)) by (destruct HV as (dn & HV); exists (dn ++ [x]); rewrite <- app_assoc; exact HV).
    destruct (IH _ _ _ _ _ _ _ _ (WS_cons _ _ _ _ _ HW) HV' (NoMk_cons _ _ HNo) Hent H) as (ps & Q & tr & -> & Hps & Hi & Hr & HQ & TF).
    destruct (inline_cons_lit _ _ _ x _ _ _ Hi (W_no13 _ _ _ HW0) HQ) as (Q' & Hi' & HQ').
    exists (econs_lit x ps), Q', tr. split; [rewrite r_econs_lit; reflexivity|]. split; [apply beps_lit; [lia|exact Hps]|].
    split; [exact Hi'|]. split; [exact Hr|]. split; [exact HQ'|exact TF].
Qed.

Lemma ptok_step j : (forall j', j = S j' -> PTok j') -> PTok j.
Proof.
  intros IHj p x tail c c' HWV HVx HNo Hent H. pose proof (WV_W _ _ _ HWV) as HW.
  rewrite BorrowParse.process_text_with_eq in H. cbv zeta in H. rewrite (W_slice text _ _ _ HW) in H.
  destruct (existsb (fun y => (y =? 38) || (y =? 13)) x) eqn:Ee; cbn [negb] in H.
  - cbn [fst snd] in H. destruct (stream_from_substr_ws text p x tail HW) as (Es & HWS). rewrite Es in H. cbn [bind] in H.
    ib H q Hq. destruct q as [buf c1].
    destruct (ploop_skel j _ IHj _ _ _ _ _ _ _ _ _ HWS (ex_intro _ [] HVx) HNo Hent Hq) as (ps & Q & tr & E1 & Hps & Hi & Hr & HQ & TF).
    destruct (flush_tframe _ _ _ _ H) as (TF2 & Ld2).
    exists ps, Q, tr. split; [exact E1|]. split; [exact Hps|]. split; [exact Hi|]. split; [rewrite Ld2; exact Hr|].
    split; [exact HQ|exact (tframe_trans _ _ _ TF TF2)].
  - destruct (append_text_tframe _ _ _ _ H) as (TF & Ld).
    assert (H38 : Forall (fun y => y <> 38) x).
    { apply (no38 (fun y => (y =? 38) || (y =? 13))); [intros y ->; reflexivity|exact Ee]. }
    destruct (lit_eps_ok (E.level decls j) false false x H38 (W_no13_all _ _ _ HW)) as (E1 & E2 & E3 & E4).
    eexists (lit_eps x), _, []. split; [symmetry; exact E1|]. split; [exact E2|]. split; [exact E3|].
    split; [cbn [ld_run]; rewrite Ld; reflexivity|]. split; [exact E4|exact TF].
Qed.

Theorem ptok_skel : forall j, PTok j.
Proof.
  induction j as [|j IH]; apply ptok_step; intros j' E; [discriminate|]. injection E as <-. exact IH.
Qed.

End RText.
