(* Proofs/ErrorEnumTie.v -- the model's [error] type and [error_pos] against the source's
   [pub enum Error] and [Error::pos], as regenerated from parse.rs on every run (GeneratedErrors.v:
   [error_enum] = the variants with the types of their fields, [pos_table] = per variant the index of the
   field that [pos()] returns, or None for TextPos::new(1, 1)).

   All statements go through [lookup] by variant name, so the order of the variants / match arms in the
   source (or-patterns, regrouping) does not matter.  A variant added to, removed from or retyped in the
   source, or a changed arm of [pos()], makes one of these theorems fail to compile. *)
From Coq Require Import List String NArith Bool.
Import ListNotations.
From RX Require Import GeneratedErrors.
From RX.Model Require Import Base ErrDisplay.

Fixpoint lookup {A} (k : string) (l : list (string * A)) : option A :=
  match l with
  | [] => None
  | (k', v) :: r => if String.eqb k k' then Some v else lookup k r
  end.

Definition fty_of (f : dfield) : fty :=
  match f with FStr _ => TyStr | FByte _ => TyByte | FChar _ => TyChar | FPos _ => TyPos end.

(* one model error per constructor *)
Definition witnesses : list error :=
  let p := (1, 1)%N in
  [ InvalidXmlPrefixUri p; UnexpectedXmlUri p; UnexpectedXmlnsUri p; InvalidElementNamePrefix p;
    DuplicatedNamespace [] p; UnknownNamespace [] p; UnexpectedCloseTag [] [] p; UnexpectedEntityCloseTag p;
    UnknownEntityReference [] p; MalformedEntityReference p; EntityReferenceLoop p; InvalidAttributeValue p;
    DuplicatedAttribute [] p; NoRootNode; UnclosedRootNode; UnexpectedDeclaration p; DtdDetected;
    NodesLimitReached; AttributesLimitReached; NamespacesLimitReached; InvalidName p; NonXmlChar 0%N p;
    InvalidChar 0%N 0%N p; InvalidChar2 [] 0%N p; InvalidString [] p; InvalidExternalID p; InvalidComment p;
    InvalidCharacterData p; UnknownToken p; UnexpectedEndOfStream ].

Lemma witnesses_complete : forall e, In (error_name e) (map error_name witnesses).
Proof. destruct e; vm_compute; tauto. Qed.

(* every model error is a variant of the source's enum, with fields of the source's types in the source's order *)
Theorem error_enum_tie : forall e, lookup (error_name e) error_enum = Some (map fty_of (error_fields e)).
Proof. destruct e; reflexivity. Qed.

(* every variant of the source's enum is a constructor of the model, and no name occurs twice *)
Definition names_covered : bool :=
  forallb (fun nt => existsb (fun e => String.eqb (error_name e) (fst nt)) witnesses) error_enum.
Fixpoint nodup_b (l : list string) : bool :=
  match l with [] => true | x :: r => negb (existsb (String.eqb x) r) && nodup_b r end.

Theorem error_enum_complete :
  (forall n tys, In (n, tys) error_enum -> exists e, error_name e = n) /\
  nodup_b (map fst error_enum) = true /\ length error_enum = length witnesses.
Proof.
  split; [|split; vm_compute; reflexivity].
  intros n tys Hin.
  assert (Hc : names_covered = true) by (vm_compute; reflexivity).
  unfold names_covered in Hc. rewrite forallb_forall in Hc. specialize (Hc _ Hin).
  rewrite existsb_exists in Hc. destruct Hc as (e & _ & He). cbn [fst] in He.
  exists e. apply String.eqb_eq. exact He.
Qed.

(* [Error::pos] as the source writes it, read off the table *)
Definition pos_of_table (e : error) : option textpos :=
  match lookup (error_name e) pos_table with
  | Some (Some i) => match nth_error (error_fields e) i with Some (FPos p) => Some p | _ => None end
  | Some None => Some (1, 1)%N
  | None => None
  end.

Theorem error_pos_tie : forall e, pos_of_table e = Some (error_pos e).
Proof. destruct e; reflexivity. Qed.

(* the position field is the LAST field of every variant that has fields (so "the payload" of an error is
   everything before it), and only position-less variants answer 1:1 *)
Theorem pos_field_last : forall e,
  match lookup (error_name e) pos_table with
  | Some (Some i) => S i = length (error_fields e)
  | Some None => error_fields e = []
  | None => False
  end.
Proof. destruct e; vm_compute; reflexivity. Qed.
