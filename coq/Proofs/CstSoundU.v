(* Proofs/CstSoundU.v -- C08, soundness half on the UNICODE fragment of Spec/CstU.v: the fragment,
   the statement and sanity examples.

   [in_fragment_u text] (all byte-level, on the input):
     U0  valid_utf8_b text = true                (the input is a Rust &str)
     U1  no CR (13), no '&' (38), no ':' (58) bytes anywhere
     U2  no "<!D", no "<![", no "<?xml", no "xmlns" anywhere (as in CstSound.v: F4 F5 F6)
     U3  the text does not start with a byte order mark EF BB BF: the crate skips a leading U+FEFF
         (XML 1.0, 4.3.3), CstU.render has no such layout; U+FEFF anywhere else is an ordinary Char
   "Every decoded scalar value is a Char" is NOT a hypothesis: the parser checks it itself wherever
   Spec/CstU.v asks for it (text, comments, PI contents, attribute values), and names are NameChars.
   On the result, as in CstSound.v:
     S1  [attrs_raw d]  no attribute value was normalised (no TAB / LF in a literal value). *)
From Coq Require Import String.
From Coq Require Import List NArith Bool Lia.
Import ListNotations.
From RX Require Import Generated.
From RX.Model Require Import Base CharClass Stream Tokenizer Doc Builder Parse.
From RX.Spec Require Cst CstU.
From RX.Proofs Require Import CstSound.
Open Scope N_scope.

Definition in_fragment_u (text : bytes) : bool :=
  valid_utf8_b text &&
  negb (mem_b 13 text) && negb (mem_b 38 text) && negb (mem_b 58 text) &&
  negb (contains_b (b "<!D") text) && negb (contains_b (b "<![") text) &&
  negb (contains_b (b "<?xml") text) && negb (contains_b (b "xmlns") text) &&
  negb (prefix_b [239; 187; 191] text).

Definition parse_sound_fragment_u_stmt : Prop :=
  forall text opt d, in_fragment_u text = true -> parse text opt = Ok d -> attrs_raw d ->
  exists c : Cst.doc, CstU.wf_doc c = true /\ CstU.render c = text.

(* ---- sanity examples ---- *)
Definition witness_u (c : Cst.doc) : bool :=
  let text := CstU.render c in
  in_fragment_u text && accepted text && side_ok text && CstU.wf_doc c.
Definition accepted_u (l : list N) : bool := accepted (CstU.utf8s l).
Definition frag_u (l : list N) : bool := in_fragment_u (CstU.utf8s l).
Definition s (x : string) : list N := b x.

Definition at_ n v : Cst.attr :=
  {| Cst.a_ws := [32]; Cst.a_name := n; Cst.a_ws1 := []; Cst.a_ws2 := []; Cst.a_quote := 34; Cst.a_value := v |}.
Definition eacute := 233. Definition na := 21517. Definition mae := 21069. Definition linb := 65536.  (* e-acute, two CJK, U+10000 *)

(* accepted inputs with their abstract documents (non-ASCII names, values, text, comment, PI; DEL and
   C1 controls are Chars; U+FEFF inside the document) *)
Example exu_ok1 : witness_u
  {| Cst.d_before := [(Cst.IComment [na; 45; mae], [10]); (Cst.IPI [eacute; 183] [32] [8364; 63], [])];
     Cst.d_ws0 := [32];
     Cst.d_root := Cst.IElem [eacute] [at_ [na; mae] [228; 32; 1114111]; at_ [linb; 120] []] []
       (Some ([Cst.IText [65533; 1114111; 133; 127; 65279; 93; 93]; Cst.IElem [na; mae; 183; 45] [] [32] None;
               Cst.IElem [linb; 120] [] [] (Some ([Cst.IText [97; 128512]], [9]))], [32]));
     Cst.d_after := [([10], Cst.IComment [128512])]; Cst.d_ws_end := [] |} = true.
Proof. vm_compute. reflexivity. Qed.
Example exu_ok2 : witness_u
  {| Cst.d_before := []; Cst.d_ws0 := []; Cst.d_root := Cst.IElem [95; 768] [] [] None;   (* '_' + combining grave *)
     Cst.d_after := []; Cst.d_ws_end := [10] |} = true.
Proof. vm_compute. reflexivity. Qed.

(* inputs of the fragment that are rejected *)
Example exu_rej : forallb (fun l => frag_u l && negb (accepted_u l))
  [ s "<a>" ++ [65534] ++ s "</a>";            (* U+FFFE is not a Char *)
    s "<" ++ [183; 97] ++ s "/>";               (* a name starting with U+00B7 *)
    s "<a b=""" ++ [65535] ++ s """/>";         (* U+FFFF in a value *)
    s "<a" ++ [215] ++ s "/>";                  (* U+00D7 is not a NameChar *)
    s "<a" ++ [160] ++ s "b='1'/>";             (* U+00A0 is not white space *)
    s "<a" ++ [8232] ++ s "/>";                 (* nor is U+2028 *)
    s "<a>" ++ [1] ++ s "</a>";                 (* a C0 control *)
    s "<" ++ [eacute] ++ s "></" ++ [101; 769] ++ s ">";  (* e-acute vs e + combining acute: no normalisation *)
    s "<a " ++ [eacute] ++ s "='1' " ++ [eacute] ++ s "='2'/>";   (* duplicate non-ASCII attribute *)
    s "<!--" ++ [na] ++ s "---><a/>" ] = true.
Proof. vm_compute. reflexivity. Qed.

(* U3: a leading byte order mark is skipped by the crate (legal XML); CstU.render cannot produce it *)
Example cexu_bom : accepted_u ([65279] ++ s "<a/>") && side_ok (CstU.utf8s ([65279] ++ s "<a/>"))
                   && negb (frag_u ([65279] ++ s "<a/>"))
                   && frag_u (s "<a>" ++ [65279] ++ s "</a>") && accepted_u (s "<a>" ++ [65279] ++ s "</a>")
                   && negb (accepted_u (s " " ++ [65279] ++ s "<a/>")) = true.
Proof. vm_compute. reflexivity. Qed.
