(* CycleExamples.v -- C09: the cycle theorems are not vacuous, and whole parses agree. *)
From Coq Require Import Ascii String.
From Coq Require Import Lia ZifyBool ZifyN ZifyNat.
From RX Require Import Generated.
From RX.Model Require Import Base CharClass Stream Tokenizer Doc Builder Parse.
From RX.Proofs Require Import CycleStream CycleContent CycleAttr.

Definition o : options := {| allow_dtd := true; nodes_limit := 1000 |}.

(** * Whole parses (vm_compute) *)

(* a -> a *)
Example self_loop :
  parse (b "<!DOCTYPE r [<!ENTITY a ""&a;"">]><r>&a;</r>") o = Err (EntityReferenceLoop (1, 29)).
Proof. vm_compute. reflexivity. Qed.

(* a -> b -> a, with plain text before and after the references *)
Example two_cycle :
  parse (b "<!DOCTYPE r [<!ENTITY a ""x&b;""><!ENTITY b ""&a;y"">]><r>&a;</r>") o
  = Err (EntityReferenceLoop (1, 47)).
Proof. vm_compute. reflexivity. Qed.

(* c -> a -> b -> a : c is not in the cycle *)
Definition doc3 : bytes :=
  b "<!DOCTYPE r [<!ENTITY a ""x&b;""><!ENTITY b ""&a;y""><!ENTITY c ""&a;"">]><r>&c;</r>".

Example entered_from_outside : exists p, parse doc3 o = Err (EntityReferenceLoop p).
Proof. vm_compute. eauto. Qed.

(* the same in an attribute value *)
Example attr_self_loop :
  parse (b "<!DOCTYPE r [<!ENTITY a ""&a;"">]><r t=""&a;""/>") o = Err (EntityReferenceLoop (1, 29)).
Proof. vm_compute. reflexivity. Qed.

Example attr_entered_from_outside : exists p,
  parse (b "<!DOCTYPE r [<!ENTITY a ""x&b;""><!ENTITY b ""&a;y""><!ENTITY c ""&a;"">]><r t=""u&c;""/>") o
  = Err (EntityReferenceLoop p).
Proof. vm_compute. eauto. Qed.

(** * The side conditions of the theorems are needed (counterexamples by vm_compute) *)

(* "]]>" after the reference: the text token is rejected before the reference is looked at *)
Example rest_must_be_plain : exists p,
  parse (b "<!DOCTYPE r [<!ENTITY a ""&a;]]>"">]><r>&a;</r>") o = Err (InvalidCharacterData p).
Proof. vm_compute. eauto. Qed.

(* a predefined name is a character reference, whatever is declared *)
Example predefined_is_not_a_cycle : exists d,
  parse (b "<!DOCTYPE r [<!ENTITY lt ""&lt;"">]><r>&lt;</r>") o = Ok d.
Proof. vm_compute. eauto. Qed.

(* plain text before the reference is flushed into a node first: the node limit can strike *)
Example flush_needs_room :
  parse (b "<!DOCTYPE r [<!ENTITY a ""x&a;"">]><r>&a;</r>") {| allow_dtd := true; nodes_limit := 2 |}
  = Err NodesLimitReached.
Proof. vm_compute. reflexivity. Qed.

(** * The hypotheses of the theorems hold of the entity table of doc3 *)

Definition sl (a e : N) : slice := {| sl_start := a; sl_end := e |}.
(* the table the DOCTYPE of doc3 declares: names and values as slices of doc3 *)
Definition es3 : list entity :=
  [ {| en_name := sl 22 23; en_value := sl 25 29 |};     (* a = "x&b;" *)
    {| en_name := sl 40 41; en_value := sl 43 47 |};     (* b = "&a;y" *)
    {| en_name := sl 58 59; en_value := sl 61 64 |} ].   (* c = "&a;"  *)
Definition S3 (n : bytes) : Prop := n = b "a" \/ n = b "b".

Example es3_reads :
  map (fun e => (slice_bytes doc3 (en_name e), slice_bytes doc3 (en_value e))) es3
  = [(b "a", b "x&b;"); (b "b", b "&a;y"); (b "c", b "&a;")].
Proof. vm_compute. reflexivity. Qed.

Ltac le_c := apply N.leb_le; vm_compute; reflexivity.

Example closed3 : closed doc3 es3 S3.
Proof.
  intros n [->| ->].
  - exists {| en_name := sl 22 23; en_value := sl 25 29 |}. split; [vm_compute; reflexivity|].
    exists (b "x"), (b "b"), [], []. cbn [en_value sl sl_start sl_end].
    repeat split; try le_c; try (vm_compute; reflexivity).
    + left. reflexivity.
    + right. reflexivity.
  - exists {| en_name := sl 40 41; en_value := sl 43 47 |}. split; [vm_compute; reflexivity|].
    exists [], (b "a"), (b "y"), []. cbn [en_value sl sl_start sl_end].
    repeat split; try le_c; try (vm_compute; reflexivity).
    + left. reflexivity.
    + left. reflexivity.
Qed.

(* c is outside S3 but its value leads into it *)
Example c_enters : value_into doc3 S3 (sl 61 64).
Proof.
  exists [], (b "a"), [], []. cbn [sl sl_start sl_end].
  repeat split; try le_c; try (vm_compute; reflexivity).
  - left. reflexivity.
  - left. reflexivity.
Qed.

(* the same table for attributes *)
Example attr_closed3 : attr_closed doc3 es3 S3.
Proof.
  intros n [->| ->].
  - exists {| en_name := sl 22 23; en_value := sl 25 29 |}. split; [vm_compute; reflexivity|].
    exists (b "x"), (b "b"), []. cbn [en_value sl sl_start sl_end].
    repeat split; try le_c; try (vm_compute; reflexivity). right. reflexivity.
  - exists {| en_name := sl 40 41; en_value := sl 43 47 |}. split; [vm_compute; reflexivity|].
    exists [], (b "a"), (b "y"). cbn [en_value sl sl_start sl_end].
    repeat split; try le_c; try (vm_compute; reflexivity). left. reflexivity.
Qed.

(* an instance of the theorem: the text token "&c;" of doc3 (bytes 71..74), in any context that
   carries this table and can take a text fragment, at any depth and count *)
Example instance_doc3 : forall c, c_entities c = es3 -> app_ok c ->
  forall lvl s0, (entity_levels <= lvl)%nat ->
  stream_from_substr doc3 61 64 = Ok s0 ->
  exists p, parse_content_lvl doc3 lvl s0 c = Err (EntityReferenceLoop p).
Proof.
  intros c He Hok lvl s0 Hl Hs.
  eapply (cycle_entered doc3 es3 S3 closed3 lvl c (sl 61 64)); eauto. apply c_enters.
Qed.

Print Assumptions closed3.
Print Assumptions instance_doc3.
