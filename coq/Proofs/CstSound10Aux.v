(* Proofs/CstSound10Aux.v -- helpers of the soundness chain with witness in stage S10 (Spec/CstFullS10.v): the meaning
   [ents_meaning] of Spec/CstFull.v with the piece conditions of S10 ([wf_uepieces10]: a character reference inside an
   entity literal may denote '&' or '<').  The facts on ASCII Names are those of Proofs/CstSound9Aux.v. *)
From Coq Require Import List NArith Bool Lia.
Import ListNotations.
From RX Require Import Generated.
From RX.Model Require Import Base CharClass.
From RX.Spec Require Cst Chars CstU CstNs CstEnt.
From RX.Spec Require Import CstFull CstFullS5 CstFullS6 CstFullS7 CstFullS9 CstFullS10.
From RX.Proofs Require Import CstLex CstULex CstSound9Aux.
Open Scope N_scope.

Section Ents10.
Variable tb : E.table.
Definition wf_eval10 (q : N) (ps : list E.epiece) : bool :=
  wf_uepieces10 q false false false ps &&
  match E.inline_ps tb true false (enc_epieces ps) with
  | None => false
  | Some (Q, tr) => limits_ok tr && E.crlf_split_ok Q
  end.
Definition wf_erun10 (ps : list E.epiece) : bool :=
  match ps with [] => false | _ => true end && wf_uepieces10 60 true true false ps &&
  match E.inline_ps tb false false (enc_epieces ps) with
  | None => false
  | Some (Q, tr) => limits_ok tr && E.crlf_split_ok Q
  end.
Definition ents_meaning10 : meaning epieces := Build_meaning epieces wf_eval10 wf_erun10 (eval_sem tb) (erun_sem tb).
End Ents10.

(* the conditions of S9 imply those of S10 *)
Lemma charref_ok_10 p : E.charref_ok_in_value p = true -> charref_ok10 p = true.
Proof.
  destruct p as [cs|hex ds|pe|cs]; try (intros _; reflexivity). cbn [E.charref_ok_in_value charref_ok10]. cbv zeta. intros H.
  apply negb_true_iff in H. apply negb_true_iff. repeat (apply orb_false_iff in H; destruct H as [H ?]).
  rewrite H. cbn [orb]. match goal with X : (_ =? 10) = false |- _ => rewrite X end. cbn [orb]. assumption.
Qed.

Lemma wf_uepiece_10 q cd ch iv p : wf_uepiece9 q cd ch iv p = true -> wf_uepiece10 q cd ch iv p = true.
Proof.
  destruct p as [p|n]; [|intros H; exact H]. destruct p as [cs|hex ds|pe|cs]; try (intros H; exact H).
  cbn [wf_uepiece9 wf_uepiece10]. intros H. apply andb_true_iff in H. destruct H as [H1 H2]. rewrite H1. cbn [andb].
  destruct iv; [|reflexivity]. apply charref_ok_10. exact H2.
Qed.

Lemma wf_uepieces_10 q cd ch iv ps : wf_uepieces9 q cd ch iv ps = true -> wf_uepieces10 q cd ch iv ps = true.
Proof.
  unfold wf_uepieces9, wf_uepieces10. intros H. apply andb_true_iff in H. destruct H as [H1 H2]. rewrite H2, andb_true_r.
  revert H1. apply CstLex.forallb_imp. intros p. apply wf_uepiece_10.
Qed.
