(* Proofs/CstFullNsRejDoc.v -- C06/C08 on the capstone fragment, rejection half: parse_document on the rendering of a document
   of Spec/CstFullS6.v that is syntactically well-formed, whose expansion is within the limits of the detector and whose
   inlined body violates a namespace rule fails with the error of the first violated rule.  [prolog6]: the prolog
   (Proofs/CstFullS6Doc.v), once, with what remains to be done stated as [doc_tail]. *)
From Coq Require Import Ascii String.
From Coq Require Import List NArith PeanoNat Bool Lia ZifyBool ZifyN ZifyNat.
Import ListNotations.
From RX Require Import Generated.
From RX.Model Require Import Base CharClass Stream Tokenizer Doc Builder Parse.
From RX.Spec Require Cst CstText CstEnt Detector Scope CstU CstNs Chars.
From RX.Spec Require Tree.
From RX.Spec Require Import CstFullS5.
From RX.Spec Require Import Text CstFull CstFullS4.
From RX.Spec Require Import CstFullS6.
From RX.Proofs Require Import Tactics CstLex CstBuild CstNsLex CstNsView CstNsBuild CstULex.
From RX.Proofs Require Import CstTextSem CstEntSem CstEntMeaning CstEntRun CstEntInline DetectorProofs.
From RX.Proofs Require Import CstFullLex CstFullBuild CstFullTree CstFullDoc.
From RX.Proofs Require Import CstFullS2Sem CstFullS3Sem CstFullS3Text CstFullS3Run CstFullS3Plug.
From RX.Proofs Require Import CstEntCBuild CstEntCSem.
From RX.Proofs Require Import CstFullS4Sem CstFullS4TSem CstFullS4TText CstFullS4Build CstFullS4Attr.
From RX.Proofs Require Import CstFullS5Ws CstFullS5Lex CstFullS5Doc CstFullS5Dtd CstFullS5Decl.
From RX.Proofs Require Import CstFullS6Text CstFullS6Items CstFullS6Dtd CstFullS6Doc.
From RX.Proofs Require Import CstFullRejSem CstFullRejAttr CstFullRejText CstFullRejItems CstFullRejDoc.
From RX.Proofs Require Import CstFullNsRejBuild CstFullNsRejText CstFullNsRejItems.
From RX.Proofs Require NsRejDefs NsRejBuild.
From RX.Proofs Require CstItems CstNsItems CstNsDoc CstNsMain CstUItems CstUDoc CstDoc CstEntDtd CstEntText CstEntCLex CstFullS6Lex CstEntRejSem CstEntBuild CstEntCText.
From RX.Proofs Require CstFullS3 CstFullS5Items CstFullS5.
Open Scope N_scope.

Ltac clia := repeat match goal with H : @eq bool _ true |- _ => clear H end; lia.

(* ------------------------------------------------------------------------------------------ *)
(* the root element                                                                           *)
(* ------------------------------------------------------------------------------------------ *)
Section RootN.
Variable text : bytes.
Hypothesis Hvalid : valid_utf8_b text = true.
Variable D : list Scope.binding.
Hypothesis HD : forall l, NoDup l -> incl l D -> N.of_nat (length l) <= 65535.
Variable decls : list xdecl.
Variable es : list entity.
Hypothesis Henv : Forall2 (uent_ok text) (map pd decls) es.
Hypothesis Hdecls : Forall udecl_okc (map pd decls).
Hypothesis Hcont : Forall decl_cont decls.

Notation WV := (CstULex.WV text).
Notation CIn := (CstNsBuild.CIn text D).
Notation OR := (CstFullS6Text.OR text D es).
Notation tbm := (level decls E.max_level).

Lemma root_n name ens ws body p post c its tr ld' rl :
  wf_uitem_s false (IElem name ens ws body) = true ->
  WV p (r_item (@IElem epieces name ens ws body) ++ post) ->
  CIn [] c -> c_after_text c = [] -> c_ld c = ld_init -> c_entities c = es ->
  inline_item tbm false (IElem name ens ws body) = Some (its, tr) ->
  ld_run ld_init tr = Some ld' ->
  Pok [] its -> Rooms [] c [] its -> Syn D [] its -> V [] [] its = Some rl ->
  exists er,
    (let! (open, s, c) := parse_element text context (CstBuild.tok_ev text)
                            (CstLex.st text p (r_item (@IElem epieces name ens ws body) ++ post)) c in
     if open then parse_content text context (CstBuild.tok_ev text) s c else Ok (s, c)) = Err er /\
    rule_error rl er = true.
Proof.
  intros Hwf HW I Hat Hld0 Hes Hin Hld HP HR HSy HV.
  pose proof (cn_floor _ _ _ _ I) as Hfl.
  assert (HO : OR [] c c []) by (constructor; try assumption; apply CstEntText.same_frame_refl).
  pose proof (WV_top _ _ _ HW) as HW'.
  rewrite <- !st_top. rewrite evl_top.
  rewrite inline_item_elem in Hin. destruct (inline_entries tbm false ens) as [[ens' tra]|] eqn:Eat; [|discriminate].
  cbn [E.obind fst snd] in Hin.
  assert (Hm : false = (0 <? ld_depth (c_ld c))) by (rewrite Hld0; reflexivity).
  assert (Hldok : ld_ok (c_ld c)) by (rewrite Hld0; apply ld_ok_init).
  destruct body as [[cs ws2]|].
  - destruct (inline_items tbm false cs) as [[itsc trc]|] eqn:Ecs; [|discriminate].
    cbn [E.obind fst snd] in Hin. injection Hin as <- <-.
    destruct (wf_elem_parts4 _ _ _ _ _ Hwf) as (Hn & _ & _ & Hw2 & Hna & Hcs).
    pose proof (usteps_list_le D HD false cs Hcs) as Hst.
    rewrite ld_run_app in Hld. destruct (ld_run ld_init tra) as [lda|] eqn:Ela; [|discriminate].
    rewrite <- Hld0 in Ela.
    destruct (syn_el D _ _ _ _ _ HSy) as (Hao & HinD & Hac & Hdc).
    rewrite V_single in HV by reflexivity. rewrite den_elem in HV. change (@val_sem bpieces bmeaning) with T.value_sem in HV.
    cbn [NsRejDefs.items_viol] in HV. rewrite NsRejDefs.item_viol_elem in HV.
    destruct (tag_viol [] (x_qname name) (bd ens')) as [rt|] eqn:Etv.
    + injection HV as ->.
      destruct (elem_tag_n text Hvalid D HD decls es Henv Hdecls Hcont E.max_level
                  (fun k' _ cs => NsFail_all text Hvalid D HD decls es Henv Hdecls Hcont k' cs) name ens ws (Some (cs, ws2)) [] false (tlen text) [] p post c c [] []
                  entity_levels ens' tra lda rl _ Hwf HW' HO (CstEntCText.SemI_nil text) Hm Hldok Eat Ela (prov_el' _ _ _ _ _ HP)
                  ltac:(eexists; reflexivity) HR Hao HinD Etv) as (er & E & R).
      rewrite E. cbn [bind]. eauto.
    + destruct (elem_start_n text D HD decls es Henv Hdecls Hcont E.max_level name ens ws cs ws2 [] false (tlen text) [] p post c c [] []
                  entity_levels ens' tra itsc lda Hwf HW' HO (CstEntCText.SemI_nil text) Hm Hldok ltac:(rewrite Hfl; lia) Eat Ela HP HR Etv Hao HinD)
        as (c1 & E1 & HO1 & D1 & D2 & Hok1 & Fl1 & HPc & HRc & HWc).
      rewrite E1. cbn [bind]. unfold parse_content. cbn [CstEntCLex.st s_rest]. rewrite app_nil_r.
      set (post2 := [60; 47] ++ r_qname name ++ ws2 ++ [62] ++ post) in *.
      replace (S (length (r_uitems cs ++ post2)))
        with (usteps_list cs + S (length (r_uitems cs ++ post2) - usteps_list cs))%nat
        by (rewrite app_length in *; clia).
      match goal with |- context [parse_content_loop _ _ _ _ 0 ?s c1] =>
        replace s with (CstEntCLex.st (tlen text) [] (p + 1 + blen (r_qname name) + blen (flat_map r_entry ens) + blen ws + 1) (r_uitems cs ++ post2))
          by (unfold CstEntCLex.st; rewrite app_nil_r; reflexivity) end.
      set (sc := NT.esc (bd ens') []) in *.
      rewrite bdens_regroup, bdens_app in HV, Hac, Hdc.
      rewrite items_viol_app, items_viol_flush in HV. rewrite attrs_oks_app, attrs_oks_flush, andb_true_r in Hac.
      rewrite items_decls_app, decls_flush, app_nil_r in Hdc.
      assert (HVc : V sc [] itsc = Some rl).
      { unfold V. change (CstNsTree.esc (bd ens') []) with sc in HV. destruct (items_viol sc (bdens (fst (walk [] itsc)))); [exact HV|discriminate]. }
      rewrite Hld0 in D2.
      apply (NsFail_all text Hvalid D HD decls es Henv Hdecls Hcont E.max_level cs sc false (tlen text) [] _ _ (sh c1) c1 [] [] entity_levels 0 _ itsc trc ld' rl
               Hcs Hna HWc ltac:(reflexivity) HO1 (CstEntCText.SemI_nil text)); try assumption.
      * destruct cs; [exact Logic.I|]. intros _. reflexivity.
      * rewrite D1, D2. reflexivity.
      * rewrite D1, D2. reflexivity.
      * rewrite D1. exact Hok1.
      * rewrite D1. exact Hld.
      * split; assumption.
  - injection Hin as <- <-.
    destruct (syn_el D _ _ _ _ _ HSy) as (Hao & HinD & _).
    rewrite V_single in HV by reflexivity. rewrite den_elem in HV. change (@val_sem bpieces bmeaning) with T.value_sem in HV.
    cbn [NsRejDefs.items_viol] in HV. rewrite NsRejDefs.item_viol_elem in HV.
    destruct (tag_viol [] (x_qname name) (bd ens')) as [rt|] eqn:Etv; [|discriminate]. injection HV as ->.
    rewrite <- Hld0 in Hld.
    destruct (elem_tag_n text Hvalid D HD decls es Henv Hdecls Hcont E.max_level
                  (fun k' _ cs => NsFail_all text Hvalid D HD decls es Henv Hdecls Hcont k' cs) name ens ws None [] false (tlen text) [] p post c c [] []
                entity_levels ens' tra ld' rl _ Hwf HW' HO (CstEntCText.SemI_nil text) Hm Hldok Eat Hld (prov_el' _ _ _ _ _ HP)
                ltac:(eexists; reflexivity) HR Hao HinD Etv) as (er & E & R).
    rewrite E. cbn [bind]. eauto.
Qed.

End RootN.

Print Assumptions root_n.

(* ------------------------------------------------------------------------------------------ *)
(* from the root element on                                                                   *)
(* ------------------------------------------------------------------------------------------ *)
Section TailN.
Variable text : bytes.
Hypothesis Hvalid : valid_utf8_b text = true.
Variable D : list Scope.binding.
Hypothesis HD : forall l, NoDup l -> incl l D -> N.of_nat (length l) <= 65535.
Variable decls : list xdecl.
Variable es : list entity.
Hypothesis Henv : Forall2 (uent_ok text) (map pd decls) es.
Hypothesis Hdecls : Forall udecl_okc (map pd decls).
Hypothesis Hcont : Forall decl_cont decls.

Notation CIn := (CstNsBuild.CIn text D).
Notation WV := (CstULex.WV text).
Notation node_room := CstNsItems.node_room.
Notation attr_room := CstNsItems.attr_room.
Notation ns_room := CstNsItems.ns_room.
Notation tbm := (level decls E.max_level).

Lemma tail_n6 name ens ws body rest p3 c3 root' tr rl :
  let root := IElem name ens ws body in
  wf_uitem_s false root = true ->
  inline_item tbm false root = Some ([root'], tr) -> limits_ok tr = true -> provisos_item root' = true ->
  attrs_oks (bden root') = true -> incl (NT.items_decls (bden root')) D ->
  items_viol [] (bden root') = Some rl ->
  WV p3 (r_item root ++ rest) ->
  CIn [] c3 -> c_after_text c3 = [] -> c_ld c3 = ld_init -> c_entities c3 = es ->
  node_room c3 (NT.nsizes (bden root')) ->
  attr_room c3 (NT.nattrs_items (bden root')) -> ns_room c3 (NT.ns_costs [] (bden root')) ->
  exists er, doc_tail text (CstLex.st text p3 (r_item root ++ rest)) c3 = Err er /\ rule_error rl er = true.
Proof.
  intros root H5 Hinl Hlim Hprov Hao HinD Hviol HWg I3 A3 Hld3 Kes3 NR AR SR.
  destruct (wf_elem_parts4 _ _ _ _ _ H5) as (Hn & _).
  destruct (root_starts epieces name ens ws body Hn) as (n & l & El & Hnsp & H33 & H63). fold root in El.
  pose proof (WV_W _ _ _ HWg) as HWg'.
  unfold CstFullS5.doc_tail. cbv zeta.
  assert (Hsp : stops byte_is_space (r_item root ++ rest)) by (rewrite El; reflexivity).
  rewrite (CstDoc.skip_spaces_none text) by (try exact HWg'; exact Hsp).
  assert (Ecb : match curr_byte_opt (CstLex.st text p3 (r_item root ++ rest)) with Some x => x =? 60 | None => false end = true).
  { revert HWg'. rewrite El. cbn [app]. intros HWg'. rewrite curr_byte_opt_st by exact HWg'. reflexivity. }
  rewrite Ecb.
  destruct (detector_complete_gen tr 0 0 Hlim) as [ld' Hrun]. change (DetectorProofs.mk 0 0) with ld_init in Hrun.
  assert (Hnt : is_btext root' = false).
  { unfold root in Hinl. rewrite inline_item_elem in Hinl. destruct (inline_entries tbm false ens) as [[a' ta]|]; [|discriminate].
    cbn [E.obind] in Hinl. destruct body as [[cs w2]|].
    - destruct (inline_items tbm false cs) as [[b0 tb0]|]; [|discriminate]. cbn [E.obind] in Hinl. injection Hinl as <- _. reflexivity.
    - injection Hinl as <- _. reflexivity. }
  assert (Ew : walk [] [root'] = ([root'], [])) by (rewrite walk_single by exact Hnt; reflexivity).
  destruct (root_n text Hvalid D HD decls es Henv Hdecls Hcont name ens ws body p3 rest c3 [root'] tr ld' rl H5 HWg I3 A3 Hld3 Kes3 Hinl Hrun)
    as (er & E4 & R).
  { split; rewrite Ew; cbn [fst snd forallb]; [rewrite Hprov; reflexivity|reflexivity]. }
  { split; [|split]; rewrite Ew; cbn [fst snd app flush all_marks forallb CstFullTree.dens]; rewrite ?app_nil_r.
    - exact NR.
    - exact AR.
    - exact SR. }
  { split; rewrite Ew; cbn [fst CstFullTree.dens]; rewrite app_nil_r; assumption. }
  { unfold V. rewrite Ew. cbn [fst CstFullTree.dens]. rewrite app_nil_r. exact Hviol. }
  fold root in E4. rewrite E4. cbn [bind]. eauto.
Qed.

End TailN.

(* ------------------------------------------------------------------------------------------ *)
(* parse_document                                                                             *)
(* ------------------------------------------------------------------------------------------ *)
Section DocN.
Variable d : S6.doc.
Hypothesis Hwf : wf_syntax6 d = true.

Notation decls := (S6.decls d).
Notation main := (S6.x_main d).
Notation text := (S6.render d).
Notation tbm := (level decls E.max_level).
Notation B1 := (CstFullS6Doc.B1 d).
Notation wB1 := (CstFullS6Doc.wB1 d).
Notation L6 := (CstFullS6Doc.L6 d).
Notation dtd_bytes6 := (CstFullS6Doc.dtd_bytes6 d).

Variable D : list Scope.binding.
Hypothesis HD : forall l, NoDup l -> incl l D -> N.of_nat (length l) <= 65535.

Notation CIn := (CstNsBuild.CIn text D).
Notation node_room := CstNsItems.node_room.
Notation attr_room := CstNsItems.attr_room.
Notation ns_room := CstNsItems.ns_room.
Notation WV := (CstULex.WV text).

(* the prolog, up to the root element: what remains is [doc_tail] *)
Lemma prolog6 (dtd : bool) (c0 : context) (X : N) (Y Z : nat) :
  (S6.has_dtd d = true -> dtd = true) ->
  CIn [] c0 -> c_entities c0 = [] -> c_ld c0 = ld_init -> c_after_text c0 = [] ->
  node_room c0 (NT.nsizes (dens0 (S6.prolog_items d)) + (NT.nsizes (dens0 (map snd B1)) + X)) ->
  attr_room c0 Y -> ns_room c0 Z ->
  exists es c3 p3 name ens ws body,
    d_root main = IElem name ens ws body /\
    Forall2 (uent_ok text) (map pd decls) es /\
    parse_document text context (tok_ev text) dtd c0 =
      doc_tail text (CstLex.st text p3 (r_item (@IElem epieces name ens ws body) ++ r_pairs (d_after main) ++ d_ws_end main ++ [])) c3 /\
    WV p3 (r_item (@IElem epieces name ens ws body) ++ r_pairs (d_after main) ++ d_ws_end main ++ []) /\
    CIn [] c3 /\ c_after_text c3 = [] /\ c_ld c3 = ld_init /\ c_entities c3 = es /\
    node_room c3 X /\ attr_room c3 Y /\ ns_room c3 Z.
Proof.
  intros Hdtd I0 Hes0 Hld0 A0 NR AR SR.
  destruct (s6_sparts d Hwf) as [Hx Hg H1 H2 H3 (name & ens & ws & body & Er) H5 H6].
  destruct (decls_ok6s d Hwf) as [Hdk Hcont]. pose proof (text_valid6s d Hwf) as Hvalid.
  destruct (regroup_wf_s epieces M0 _ _ H1 H3) as [Q1 Q2]. fold B1 in Q1. fold wB1 in Q2.
  set (A := d_after main) in *. set (wE := d_ws_end main) in *.
  rewrite Er in *. set (root := IElem name ens ws body) in *.
  set (rest1 := r_item root ++ r_pairs A ++ wE ++ []).
  assert (Emain : render main = r_pairs B1 ++ wB1 ++ rest1).
  { rewrite (render_shape epieces main). fold B1 wB1 A wE. rewrite Er. reflexivity. }
  destruct (wf_elem_parts4 _ _ _ _ _ H5) as (Hn & _).
  destruct (root_starts epieces name ens ws body Hn) as (n & l & El & Hnsp & H33 & H63). fold root in El.
  assert (Hstop1 : CstDoc.misc_stop rest1).
  { unfold rest1. rewrite El. cbn [app]. split; [reflexivity|]. cbn [prefix_b].
    replace (33 =? n) with false by clia. replace (63 =? n) with false by clia. split; reflexivity. }
  assert (Hdt1 : prefix_b [60; 33; 68; 79; 67; 84; 89; 80; 69] rest1 = false).
  { unfold rest1. rewrite El. cbn [app prefix_b]. replace (33 =? n) with false by clia. rewrite andb_false_r. reflexivity. }
  destruct (pairs_dens_s epieces M0 B1 Q1) as (_ & _ & _ & Hn1 & _).
  unfold parse_document.
  destruct (S6.x_dtd d) as [g|] eqn:Ex.
  - (* with a DOCTYPE *)
    cbn [wf_opt] in Hg. destruct (dtd_part_parts6 g Hg) as (H0 & Hb & Ht).
    destruct (regroup_wf_s epieces M0 _ _ H0 Hb) as [R1 R2].
    set (B0 := regroup (S6.g_ws0 g) (S6.g_before g)) in *. set (wB0 := last_ws (S6.g_ws0 g) (S6.g_before g)) in *.
    set (t := S6.g_dtd g) in *.
    assert (Hd : dtd = true) by (apply Hdtd; unfold S6.has_dtd; rewrite Ex; reflexivity). subst dtd.
    assert (Epro : S6.prolog_items d = map snd B0 ++ subset_misc6 t).
    { unfold S6.prolog_items. rewrite Ex. unfold B0. rewrite (regroup_items epieces). reflexivity. }
    assert (Edec : decls = ge_decls6 t) by (unfold S6.decls; rewrite Ex; reflexivity).
    set (rest0 := r_doctype6 t ++ r_pairs B1 ++ wB1 ++ rest1).
    assert (Ebody : dtd_bytes6 ++ render main = r_pairs B0 ++ wB0 ++ rest0).
    { rewrite (dtd_bytes6_shape d g Ex), Emain. unfold rest0. rewrite <- !app_assoc. reflexivity. }
    destruct (doctype6_head t (r_pairs B1 ++ wB1 ++ rest1)) as [ld Eld]. fold rest0 in Eld.
    assert (Hstop0 : CstDoc.misc_stop rest0) by (rewrite Eld; split; [reflexivity|split; reflexivity]).
    destruct (CstFullS5.head_pairs B0 wB0 33 (68 :: ld) R1 R2 ltac:(lia)) as [Hdecl Hhead]. rewrite <- Eld, <- Ebody in Hdecl, Hhead.
    destruct (CstFullS5.prefix_ok text (S6.x_bom d) (S6.x_decl d) (dtd_bytes6 ++ render main) (text_eq6 d) Hvalid Hx Hdecl Hhead) as (P1 & P2 & HWp).
    rewrite P1. cbn [bind]. rewrite P2. cbn [bind]. clear P1 P2.
    set (p0 := CstFullS5.pb (S6.x_bom d) + blen (r_opt r_xmldecl (S6.x_decl d))) in *.
    rewrite Ebody in HWp |- *.
    rewrite Epro in NR. rewrite (dens_app epieces M0) in NR. rewrite <- ?app_assoc in NR. rewrite !nsizes_app in NR.
    destruct (pairs_dens_s epieces M0 B0 R1) as (_ & _ & _ & Hn0 & _).
    (* before the DOCTYPE *)
    unfold parse_misc. cbn [CstLex.st s_rest]. fold (CstLex.st text p0 (r_pairs B0 ++ wB0 ++ rest0)).
    destruct (misc_loop_ok_s epieces M0 CstFullS3.m0_val_lex CstFullS3.m0_run_valid text D HD [] (m0_val_norm_g text [])
                B0 p0 wB0 rest0 c0 (S (length (r_pairs B0 ++ wB0 ++ rest0))) HWp R1 R2 Hstop0)
      as (c1 & K0 & E1 & S1 & I1 & A1 & Tr1 & F1).
    { pose proof (pairs_len_s epieces M0 B0 R1). rewrite app_length. clia. }
    { exact I0. } { exact A0. } { unfold CstNsItems.node_room in *. clia. }
    rewrite E1. cbn [bind]. clear E1.
    pose proof (WV_app _ _ _ _ HWp (pairs_valid0 B0 R1)) as HWa.
    pose proof (WV_lit _ _ _ _ HWa (s_lit _ R2)) as HWd. pose proof (WV_W _ _ _ HWd) as HWd'.
    set (p1 := p0 + blen (r_pairs B0) + blen wB0) in *.
    rewrite (CstDoc.skip_spaces_none text) by (try exact HWd'; apply Hstop0).
    rewrite starts_with_st by exact HWd'. change (b "<!DOCTYPE") with E.kw_doctype.
    replace (prefix_b E.kw_doctype rest0) with true by (unfold rest0, r_doctype6; rewrite <- !app_assoc; rewrite prefix_b_app_same; reflexivity).
    cbn [negb bind].
    pose proof (CstFullS5Items.Stepn_nodes_len _ _ _ _ S1) as Ln1.
    rewrite (CstFullS5Items.Forall2_len_N _ _ _ F1) in Ln1. unfold len_N at 3 in Ln1. rewrite NT.tag_list_len in Ln1.
    pose proof (CstFullS5Items.Stepn_opt _ _ _ _ (proj1 S1)) as Lo1.
    pose proof (CstFullS5Items.Stepn_attrs_len _ _ _ _ (proj1 S1)) as La1. change (len_N []) with 0 in La1.
    destruct (sn_keep _ _ _ _ (proj1 S1)) as (_ & Ee1 & _ & Eld1).
    (* the DOCTYPE *)
    unfold rest0 in HWd |- *.
    destruct (doctype_ok6 text D HD p1 t (r_pairs B1 ++ wB1 ++ rest1) c1 HWd Ht I1 A1) as (c2 & Kd & es & E2 & S2 & Henv & I2 & A2 & Tr2 & F2).
    { unfold CstNsItems.node_room in *. rewrite Ln1, Lo1. clia. }
    rewrite E2. cbn [bind]. clear E2.
    rewrite Ee1, Hes0 in S2. cbn [app] in S2. set (c1' := set_entities c1 es) in *.
    pose proof (CstFullS5Items.Stepn_nodes_len _ _ _ _ S2) as Ln2. cbn [c1' c_doc set_entities] in Ln2.
    rewrite (CstFullS5Items.Forall2_len_N _ _ _ F2) in Ln2. unfold len_N at 3 in Ln2. rewrite NT.tag_list_len in Ln2.
    pose proof (CstFullS5Items.Stepn_opt _ _ _ _ (proj1 S2)) as Lo2. cbn [c1' c_opt set_entities] in Lo2.
    pose proof (CstFullS5Items.Stepn_attrs_len _ _ _ _ (proj1 S2)) as La2. change (len_N []) with 0 in La2. cbn [c1' c_doc set_entities] in La2.
    destruct (sn_keep _ _ _ _ (proj1 S2)) as (_ & Ee2 & _ & Eld2). cbn [c1' c_entities c_ld set_entities] in Ee2, Eld2.
    rewrite <- Edec in Henv.
    pose proof (WV_app _ _ _ _ HWd (doctype_valid6 t Ht)) as HWe.
    set (p2 := p1 + blen (r_doctype6 t)) in *.
    (* between the DOCTYPE and the root *)
    unfold parse_misc. cbn [CstLex.st s_rest]. fold (CstLex.st text p2 (r_pairs B1 ++ wB1 ++ rest1)).
    destruct (misc_loop_ok_s epieces M0 CstFullS3.m0_val_lex CstFullS3.m0_run_valid text D HD es (m0_val_norm_g text es)
                B1 p2 wB1 rest1 c2 (S (length (r_pairs B1 ++ wB1 ++ rest1))) HWe Q1 Q2 Hstop1)
      as (c3 & K1 & E3 & S3 & I3 & A3 & Tr3 & F3).
    { pose proof (pairs_len_s epieces M0 B1 Q1). rewrite app_length. clia. }
    { exact I2. } { exact A2. }
    { unfold CstNsItems.node_room in *. rewrite Ln2, Lo2, Ln1, Lo1. clia. }
    rewrite E3. cbn [bind]. clear E3.
    pose proof (WV_app _ _ _ _ HWe (pairs_valid0 B1 Q1)) as HWf.
    pose proof (WV_lit _ _ _ _ HWf (s_lit _ Q2)) as HWg.
    set (p3 := p2 + blen (r_pairs B1) + blen wB1) in *.
    pose proof (CstFullS5Items.Stepn_nodes_len _ _ _ _ S3) as Ln3.
    rewrite (CstFullS5Items.Forall2_len_N _ _ _ F3) in Ln3. unfold len_N at 3 in Ln3. rewrite NT.tag_list_len in Ln3.
    pose proof (CstFullS5Items.Stepn_opt _ _ _ _ (proj1 S3)) as Lo3.
    pose proof (CstFullS5Items.Stepn_attrs_len _ _ _ _ (proj1 S3)) as La3. change (len_N []) with 0 in La3.
    destruct (sn_keep _ _ _ _ (proj1 S3)) as (_ & Ee3 & _ & Eld3).
    (* the root *)
    exists es, c3, p3, name, ens, ws, body. split; [reflexivity|]. split; [exact Henv|].
    split; [reflexivity|]. split; [exact HWg|]. split; [exact I3|]. split; [exact A3|].
    split; [rewrite Eld3, Eld2, Eld1; exact Hld0|]. split; [rewrite Ee3; exact Ee2|].
    split; [unfold CstNsItems.node_room in *; rewrite Ln3, Lo3, Ln2, Lo2, Ln1, Lo1; clia|].
    split; [unfold CstNsItems.attr_room in *; rewrite La3, La2, La1; clia|].
    unfold CstNsItems.ns_room in *. rewrite Tr3, Tr2, Tr1. exact SR.
  - (* without a DOCTYPE *)
    assert (Epro : S6.prolog_items d = []) by (unfold S6.prolog_items; rewrite Ex; reflexivity).
    assert (Edec : decls = []) by (unfold S6.decls; rewrite Ex; reflexivity).
    assert (Ebody : dtd_bytes6 ++ render main = r_pairs B1 ++ wB1 ++ rest1).
    { unfold CstFullS6Doc.dtd_bytes6. rewrite Ex, Emain. reflexivity. }
    assert (Erest : exists l', rest1 = 60 :: n :: l') by (unfold rest1; rewrite El; cbn [app]; eexists; reflexivity).
    destruct Erest as [l' Erest].
    destruct (CstFullS5.head_pairs B1 wB1 n l' Q1 Q2 H63) as [Hdecl Hhead]. rewrite <- Erest, <- Ebody in Hdecl, Hhead.
    destruct (CstFullS5.prefix_ok text (S6.x_bom d) (S6.x_decl d) (dtd_bytes6 ++ render main) (text_eq6 d) Hvalid Hx Hdecl Hhead) as (P1 & P2 & HWp).
    rewrite P1. cbn [bind]. rewrite P2. cbn [bind]. clear P1 P2.
    set (p0 := CstFullS5.pb (S6.x_bom d) + blen (r_opt r_xmldecl (S6.x_decl d))) in *.
    rewrite Ebody in HWp |- *.
    rewrite Epro in NR. cbn [CstFullTree.dens app] in NR. change (NT.nsizes []) with 0 in NR.
    unfold parse_misc. cbn [CstLex.st s_rest]. fold (CstLex.st text p0 (r_pairs B1 ++ wB1 ++ rest1)).
    destruct (misc_loop_ok_s epieces M0 CstFullS3.m0_val_lex CstFullS3.m0_run_valid text D HD [] (m0_val_norm_g text [])
                B1 p0 wB1 rest1 c0 (S (length (r_pairs B1 ++ wB1 ++ rest1))) HWp Q1 Q2 Hstop1)
      as (c3 & K1 & E3 & S3 & I3 & A3 & Tr3 & F3).
    { pose proof (pairs_len_s epieces M0 B1 Q1). rewrite app_length. clia. }
    { exact I0. } { exact A0. } { unfold CstNsItems.node_room in *. clia. }
    rewrite E3. cbn [bind]. clear E3.
    pose proof (WV_app _ _ _ _ HWp (pairs_valid0 B1 Q1)) as HWf.
    pose proof (WV_lit _ _ _ _ HWf (s_lit _ Q2)) as HWg. pose proof (WV_W _ _ _ HWg) as HWg'.
    set (p3 := p0 + blen (r_pairs B1) + blen wB1) in *.
    rewrite (CstDoc.skip_spaces_none text) by (try exact HWg'; apply Hstop1).
    rewrite starts_with_st by exact HWg'. change (b "<!DOCTYPE") with [60; 33; 68; 79; 67; 84; 89; 80; 69]. rewrite Hdt1. cbn [bind].
    pose proof (CstFullS5Items.Stepn_nodes_len _ _ _ _ S3) as Ln3.
    rewrite (CstFullS5Items.Forall2_len_N _ _ _ F3) in Ln3. unfold len_N at 3 in Ln3. rewrite NT.tag_list_len in Ln3.
    pose proof (CstFullS5Items.Stepn_opt _ _ _ _ (proj1 S3)) as Lo3.
    pose proof (CstFullS5Items.Stepn_attrs_len _ _ _ _ (proj1 S3)) as La3. change (len_N []) with 0 in La3.
    destruct (sn_keep _ _ _ _ (proj1 S3)) as (_ & Ee3 & _ & Eld3).
    assert (Henv : Forall2 (uent_ok text) (map pd decls) []) by (rewrite Edec; constructor).
    exists [], c3, p3, name, ens, ws, body. split; [reflexivity|]. split; [exact Henv|].
    split; [reflexivity|]. split; [exact HWg|]. split; [exact I3|]. split; [exact A3|].
    split; [rewrite Eld3; exact Hld0|]. split; [rewrite Ee3; exact Hes0|].
    split; [unfold CstNsItems.node_room in *; rewrite Ln3, Lo3; clia|].
    split; [unfold CstNsItems.attr_room in *; rewrite La3; clia|].
    unfold CstNsItems.ns_room in *. rewrite Tr3. exact SR.
Qed.


Lemma nparse_document6 (dtd : bool) root' tr (c0 : context) rl :
  (S6.has_dtd d = true -> dtd = true) ->
  inline_item tbm false (d_root main) = Some ([root'], tr) -> limits_ok tr = true -> provisos_item root' = true ->
  attrs_oks (bden root') = true -> incl (NT.items_decls (bden root')) D ->
  items_viol [] (bden root') = Some rl ->
  CIn [] c0 -> c_entities c0 = [] -> c_ld c0 = ld_init -> c_after_text c0 = [] ->
  node_room c0 (NT.nsizes (L6 root')) -> attr_room c0 (NT.nattrs_items (bden root')) ->
  ns_room c0 (NT.ns_costs [] (bden root')) ->
  exists er, parse_document text context (tok_ev text) dtd c0 = Err er /\ rule_error rl er = true.
Proof.
  intros Hdtd Hinl Hlim Hprov Hao HinD Hviol I0 Hes0 Hld0 A0 NR AR SR.
  destruct (decls_ok6s d Hwf) as [Hdk Hcont].
  pose proof (text_valid6s d Hwf) as Hval. apply U8.valid_iff_Valid in Hval.
  unfold CstFullS6Doc.L6 in NR. rewrite !nsizes_app in NR.
  destruct (prolog6 dtd c0 (NT.nsizes (bden root')) _ _ Hdtd I0 Hes0 Hld0 A0 ltac:(unfold CstNsItems.node_room in *; lia) AR SR)
    as (es & c3 & p3 & name & ens & ws & body & Er & Henv & E & HWg & I3 & A3 & Hld3 & Kes3 & NR3 & AR3 & SR3).
  rewrite E. rewrite Er in Hinl.
  destruct (s6_sparts d Hwf) as [_ _ _ _ _ _ H5 _]. rewrite Er in H5.
  apply (tail_n6 text Hval D HD decls es Henv Hdk Hcont name ens ws body _ p3 c3 root' tr rl H5 Hinl Hlim Hprov Hao HinD Hviol HWg I3 A3 Hld3 Kes3 NR3 AR3 SR3).
Qed.

End DocN.

Print Assumptions prolog6.
Print Assumptions nparse_document6.
