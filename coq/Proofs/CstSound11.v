(* Proofs/CstSound11.v -- C08, soundness half, witness in stage S11 of Spec/CstFullS11.v (character references to TAB
   and LF in the character data of CONTENT entities): the fragment and the statement.

   [in_fragment_11 text] is [in_fragment_10 text] (Proofs/CstSound10.v) OR the strong variant [in_fragment_11s text]:
     - [in_fragment_10] with P8 relaxed on the literals WITHOUT '<' of general entity declarations: after "&#" the
       condition is [charref_val_ok11] (only the references to CR stay refused; any spelling of 9 and 10: "&#9;",
       "&#x9;", "&#09;", "&#10;", "&#xA;", "&#xa;" ...).  A literal WITH '<' (a markup-valued entity) keeps
       [amp_ok10]: no reference to TAB / LF in the text or in the attribute values of a markup literal.
     - a blunt use-site condition [refs_in_content]: every '&' of the input that starts neither a character reference
       (next byte '#') nor a reference to one of the five predefined entities is followed by a '<' BEFORE any quote
       character (byte 39 or byte 34).  Inside an attribute value (of the body or of a markup literal) and inside a
       literal without '<' the next quote comes first (the value has no '<' and ends with its quote): so no attribute
       value, no namespace URI and no character-data literal contains a reference to a declared entity (character
       references and the predefined references are free), and every reference to a declared entity stands in
       element content.  This is (P1) of Spec/CstFullS11.v in its bluntest form: the referenced TAB / LF never
       reaches an attribute value.
   (P2) of Spec/CstFullS11.v is free: the fragment has no CR byte and the references to CR stay refused. *)
From Coq Require Import String.
From Coq Require Import List NArith Bool Lia.
Import ListNotations.
From RX Require Import Generated.
From RX.Model Require Import Base CharClass Stream Tokenizer Doc Builder Parse.
From RX.Spec Require Cst Chars CstU CstNs CstText CstEnt Scope.
From RX.Spec Require Import CstFull CstFullS5 CstFullS6 CstFullS7 CstFullS8 CstFullS9 CstFullS10 CstFullS11.
From RX.Proofs Require Import CstSound CstSoundT CstSoundN CstSoundP CstSound6 CstSound7 CstSound8 CstSound9 CstSound10.
Open Scope N_scope.

(* P8 on a literal without '<': [l] is what follows "&#" *)
Definition charref_val_ok11 (l : bytes) : bool :=
  let '(hex, r) := match l with 120 :: r => (true, r) | _ => (false, l) end in
  let '(ds, r') := span (T.is_digit hex) r in
  match ds, r' with
  | _ :: _, 59 :: _ =>
    let c := T.ref_val hex ds in
    Chars.xml_Char c && negb (c =? 13)
  | _, _ => false
  end.
Definition amp_ok11 (l : bytes) : bool :=
  match l with 38 :: 35 :: r => charref_val_ok11 r | 38 :: r => ref_name_ok9 r | _ => true end.

(* [v] is the literal, at [vs, vs + blen v) *)
Definition ge_value_ok11 (text : bytes) (vs : N) (v : bytes) : bool :=
  all_suffixes (if mem_b 60 v then amp_ok10 else amp_ok11) v &&
  (if mem_b 60 v then markup_ok text vs (vs + blen v) else negb (contains_b [93; 93; 62] v)).
Definition lit_ok11 (text : bytes) (q0 : N) (l : bytes) : bool :=
  match l with
  | q :: v => if (q =? 39) || (q =? 34) then ge_value_ok11 text (q0 + 1) (take_until q v) else true
  | [] => true
  end.
Definition ge_decl_ok11 (text : bytes) (p : N) (s : bytes) : bool :=
  if prefix_b (b "<!ENTITY") s then
    let r := skip_ws (skipn 8 s) in
    if is_pe r then true
    else let l := skip_ws (drop_name r) in lit_ok11 text (p + blen s - blen l) l
  else true.
Definition ge_values_ok11 (text : bytes) : bool := scan_pos (ge_decl_ok11 text) 0 text.

(* the use-site condition: after '&' + not '#', a '<' comes before any quote *)
Fixpoint lt_first (l : bytes) : bool :=
  match l with
  | [] => false
  | x :: r => if x =? 60 then true else if (x =? 34) || (x =? 39) then false else lt_first r
  end.
Definition predef_refs : list bytes := [b "quot;"; b "amp;"; b "apos;"; b "lt;"; b "gt;"].
Definition is_predef_ref (r : bytes) : bool := existsb (fun n => prefix_b n r) predef_refs.
Definition ref_use_ok (l : bytes) : bool :=
  match l with
  | x :: r => if x =? 38 then match r with y :: _ => if y =? 35 then true else is_predef_ref r || lt_first r | [] => true end else true
  | [] => true
  end.
Definition refs_in_content (text : bytes) : bool := all_suffixes ref_use_ok text.

Definition in_fragment_11s (text : bytes) : bool :=
  valid_utf8_b text && negb (mem_b 13 text) && charrefs_scalar text &&
  no_colon_start text &&
  xml_pi_ok text && decl_names_ok text && names_nc9 text && ndata_sp text && ge_values_ok11 text &&
  refs_in_content text.

Definition in_fragment_11 (text : bytes) : bool := in_fragment_10 text || in_fragment_11s text.

Definition parse_sound_fragment_11_stmt : Prop :=
  forall text opt d, in_fragment_11 text = true -> allow_dtd opt = true -> parse text opt = Ok d ->
  exists c : S6.doc, S11.wf_doc c = true /\ S11.render c = text.

Lemma in_fragment_10_11 text : in_fragment_10 text = true -> in_fragment_11 text = true.
Proof. unfold in_fragment_11. intros ->. reflexivity. Qed.
Lemma in_fragment_11s_11 text : in_fragment_11s text = true -> in_fragment_11 text = true.
Proof. unfold in_fragment_11. intros ->. apply orb_true_r. Qed.
