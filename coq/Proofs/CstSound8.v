(* Proofs/CstSound8.v -- C08, soundness half, witness in stage S8 of Spec/CstFullS8.v: the fragment, the
   statement and the inclusion of [in_fragment_7].

   [in_fragment_8 text] is [in_fragment_7 text] (Proofs/CstSound7.v) with P8' [ge_values_ok6] replaced by
   [ge_values_ok8]: the same scan without the test "no '%' in the literal of a general entity declaration"
   (Spec/CstFullS8.v [wf_xvalue8]: a bare '%' is an ordinary character of the replacement text). *)
From Coq Require Import String.
From Coq Require Import List NArith Bool Lia.
Import ListNotations.
From RX Require Import Generated.
From RX.Model Require Import Base CharClass Stream Tokenizer Doc Builder Parse.
From RX.Spec Require Cst Chars CstU CstNs CstText CstEnt Scope.
From RX.Spec Require Import CstFull CstFullS5 CstFullS6 CstFullS7 CstFullS8.
From RX.Proofs Require Import CstSound CstSoundT CstSoundN CstSoundP CstSound6 CstSound7.
Open Scope N_scope.

(* [v] is the literal, at [vs, vs + blen v) *)
Definition ge_value_ok8 (text : bytes) (vs : N) (v : bytes) : bool :=
  all_suffixes amp_ok v &&
  (if mem_b 60 v then markup_ok text vs (vs + blen v) else negb (contains_b [93; 93; 62] v)).
Definition lit_ok8 (text : bytes) (q0 : N) (l : bytes) : bool :=
  match l with
  | q :: v => if (q =? 39) || (q =? 34) then ge_value_ok8 text (q0 + 1) (take_until q v) else true
  | [] => true
  end.
Definition ge_decl_ok8 (text : bytes) (p : N) (s : bytes) : bool :=
  if prefix_b (b "<!ENTITY") s then
    let r := skip_ws (skipn 8 s) in
    if is_pe r then true
    else let l := skip_ws (drop_name r) in lit_ok8 text (p + blen s - blen l) l
  else true.
Definition ge_values_ok8 (text : bytes) : bool := scan_pos (ge_decl_ok8 text) 0 text.

Definition in_fragment_8 (text : bytes) : bool :=
  valid_utf8_b text && negb (mem_b 13 text) && charrefs_scalar text &&
  no_colon_start text &&
  xml_pi_ok text && decl_names_ok text && names_nc7 text && ndata_sp text && ge_values_ok8 text.

Definition parse_sound_fragment_8_stmt : Prop :=
  forall text opt d, in_fragment_8 text = true -> allow_dtd opt = true -> parse text opt = Ok d ->
  exists c : S6.doc, S8.wf_doc c = true /\ S8.render c = text.

Lemma scan_pos_impl (P Q : N -> bytes -> bool) : (forall p l, P p l = true -> Q p l = true) ->
  forall l p, scan_pos P p l = true -> scan_pos Q p l = true.
Proof.
  intros HPQ. induction l as [|x r IH]; intros p; cbn [scan_pos]; intros H; [apply HPQ; exact H|].
  apply andb_true_iff in H. destruct H as [H1 H2]. rewrite (HPQ _ _ H1), (IH _ H2). reflexivity.
Qed.

Lemma ge_values_ok_8 text : ge_values_ok6 text = true -> ge_values_ok8 text = true.
Proof.
  unfold ge_values_ok6, ge_values_ok8. apply scan_pos_impl. intros p l. unfold ge_decl_ok6, ge_decl_ok8.
  destruct (prefix_b (b "<!ENTITY") l); [|reflexivity]. cbv zeta. destruct (is_pe _); [reflexivity|].
  unfold lit_ok6, lit_ok8. destruct (skip_ws _) as [|q v]; [reflexivity|]. destruct ((q =? 39) || (q =? 34)); [|reflexivity].
  unfold ge_value_ok6, ge_value_ok8. intros H. apply andb_true_iff in H. destruct H as [H H3]. apply andb_true_iff in H. destruct H as [_ H2].
  rewrite H2, H3. reflexivity.
Qed.

Lemma in_fragment_7_8 text : in_fragment_7 text = true -> in_fragment_8 text = true.
Proof.
  unfold in_fragment_7, in_fragment_8. intros H.
  rewrite !andb_true_iff in H. destruct H as [[[[[[[[H0 H1] H2] H3] H5] H6] H7] H8] H9].
  rewrite H0, H1, H2, H3, H5, H6, H7, H8, (ge_values_ok_8 _ H9). reflexivity.
Qed.
