(* Proofs/WfParseChars.v -- C08 lifted to a whole run, part 2: the byte-by-byte loops of the
   builder (process_text, normalize_attribute) read a source made of XML Chars and produce XML
   Chars.  The loops advance one BYTE at a time, so the invariant [CInv] describes a stream that
   may be in the middle of a multi-byte char, with the bytes already copied to the buffer. *)
From Coq Require Import String.
From Coq Require Import List Arith NArith Bool Lia ZifyBool ZifyN ZifyNat.
Import ListNotations.
From RX Require Import Generated.
From RX.Model Require Import Base CharClass Stream Tokenizer Doc Builder Parse.
From RX.Proofs Require Import Tactics NoPanicUtf8 BorrowLocal RejectProofs WfParseTok.
Open Scope N_scope.

Notation cc := char_is_char.

Definition hi (l : bytes) : Prop := forallb (fun x => 128 <=? x) l = true.

Lemma hi_app l1 l2 : hi l1 -> hi l2 -> hi (l1 ++ l2).
Proof. unfold hi. intros H1 H2. rewrite forallb_app, H1, H2. reflexivity. Qed.

Lemma hi_cont l : forallb is_cont l = true -> hi l.
Proof.
  unfold hi. induction l as [|x l IH]; cbn [forallb]; [reflexivity|].
  intros H. apply andb_true_iff in H. destruct H as [H1 H2]. rewrite (IH H2).
  unfold is_cont in H1. apply andb_true_iff. split; [lia|reflexivity].
Qed.

(* ------------------------------------------------------------------------------------------ *)
(* all_chars: inversion, single chars, ASCII                                                    *)

Lemma decode1_pos l c n : decode1 l = Some (c, n) -> 1 <= n /\ (N.to_nat n <= length l)%nat.
Proof.
  intros H. destruct (decode1_firstn l c n (N.to_nat n) H ltac:(lia)) as (_ & Hn). split; [|exact Hn].
  destruct (decode1_struct _ _ _ H) as (x & cs & r & _ & _ & _ & _ & -> & _). lia.
Qed.

Lemma run_inv_pos P l k : run P l k -> 1 <= k ->
  exists c n k', decode1 l = Some (c, n) /\ P c = true /\ k = n + k' /\
                 run P (skipn (N.to_nat n) l) k'.
Proof. intros H Hk. inversion H; subst; [lia|]. eauto 8. Qed.

Lemma single_char_all l c : decode1 l = Some (c, blen l) -> cc c = true -> all_chars l.
Proof.
  intros Hd Hc. unfold all_chars.
  replace (chars_upto l (blen l)) with (chars_upto l (blen l + 0)) by (f_equal; lia).
  econstructor; [exact Hd|exact Hc|constructor].
Qed.

Lemma all_chars_ascii1 x : (x <? 128) = true -> cc x = true -> all_chars [x].
Proof. intros Hx Hc. apply (single_char_all [x] x); [apply decode1_ascii; exact Hx|exact Hc]. Qed.

Lemma all_chars_snoc l x : all_chars l -> (x <? 128) = true -> cc x = true -> all_chars (l ++ [x]).
Proof. intros. apply all_chars_app; [assumption|apply all_chars_ascii1; assumption]. Qed.

Lemma cc_10 : cc 10 = true. Proof. reflexivity. Qed.
Lemma cc_32 : cc 32 = true. Proof. reflexivity. Qed.

Lemma all_chars_inv l : all_chars l -> l = [] \/
  exists c n, decode1 l = Some (c, n) /\ cc c = true /\ (N.to_nat n <= length l)%nat /\ 1 <= n /\
              all_chars (skipn (N.to_nat n) l).
Proof.
  intros H. destruct l as [|x l]; [left; reflexivity|right].
  unfold all_chars in H. inversion H as [|l0 c n k Hd Hc Hu Hk]; subst.
  destruct (decode1_pos _ _ _ Hd) as (Hn1 & Hn2).
  exists c, n. repeat split; auto. unfold all_chars.
  replace (blen (skipn (N.to_nat n) (x :: l))) with k; [exact Hu|].
  unfold blen in *. rewrite skipn_length. lia.
Qed.

Lemma encode_all_chars c : is_scalar c = true -> cc c = true -> all_chars (encode_utf8 c).
Proof.
  intros Hs Hc. apply (single_char_all _ c); [|exact Hc].
  rewrite <- (app_nil_r (encode_utf8 c)) at 1. apply decode1_encode. exact Hs.
Qed.

Lemma run_app_r P l1 l2 k : run P l1 k -> run P (l1 ++ l2) k.
Proof.
  induction 1 as [l|l c n k Hd Hc Hu IH]; [constructor|].
  destruct (decode1_pos _ _ _ Hd) as (_ & Hn).
  econstructor; [apply decode1_app; exact Hd|exact Hc|].
  rewrite skipn_app. replace (N.to_nat n - length l)%nat with 0%nat by lia. exact IH.
Qed.

(* ------------------------------------------------------------------------------------------ *)
(* cdata_norm keeps XML Chars                                                                   *)

Lemma skipn1 {A} (x : A) r : skipn (N.to_nat 1) (x :: r) = r.
Proof. reflexivity. Qed.

Lemma cdata_norm_hi p l : hi p -> cdata_norm (p ++ l) = p ++ cdata_norm l.
Proof.
  unfold hi. induction p as [|x p IH]; cbn [forallb app]; [reflexivity|].
  intros H. apply andb_true_iff in H. destruct H as [Hx Hp].
  cbn [cdata_norm]. assert ((x =? 13) = false) as -> by lia. rewrite (IH Hp). reflexivity.
Qed.

Lemma cdata_norm_chars_len : forall m l, (length l <= m)%nat -> all_chars l -> all_chars (cdata_norm l).
Proof.
  induction m as [|m IH]; intros l Hm H.
  { destruct l; [constructor|cbn in Hm; lia]. }
  destruct (all_chars_inv l H) as [->|(c & n & Hd & Hc & Hn & Hn1 & Ht)]; [constructor|].
  destruct l as [|x r]; [discriminate|].
  destruct (x <? 128) eqn:Ex.
  - rewrite decode1_ascii in Hd by exact Ex. inversion Hd; subst c n. rewrite skipn1 in Ht.
    cbn [cdata_norm]. destruct (x =? 13) eqn:E13.
    + destruct r as [|y r'].
      * apply all_chars_ascii1; reflexivity.
      * destruct (y =? 10) eqn:E10.
        -- assert (y = 10) by lia. subst y.
           destruct (all_chars_inv _ Ht) as [E|(c' & n' & Hd' & _ & _ & _ & Ht')]; [discriminate|].
           rewrite decode1_ascii in Hd' by reflexivity. inversion Hd'; subst c' n'.
           rewrite skipn1 in Ht'.
           change (10 :: cdata_norm r') with ([10] ++ cdata_norm r').
           apply all_chars_app; [apply all_chars_ascii1; reflexivity|].
           apply IH; [cbn [length] in Hm; lia|exact Ht'].
        -- change (10 :: cdata_norm (y :: r')) with ([10] ++ cdata_norm (y :: r')).
           apply all_chars_app; [apply all_chars_ascii1; reflexivity|].
           apply IH; [cbn [length] in *; lia|exact Ht].
    + change (x :: cdata_norm r) with ([x] ++ cdata_norm r).
      apply all_chars_app; [apply all_chars_ascii1; assumption|].
      apply IH; [cbn [length] in Hm; lia|exact Ht].
  - destruct (decode1_struct _ _ _ Hd) as (x' & cs & r0 & El & _ & Hcs & _ & Hnn & Hdd).
    inversion El; subst x' r. clear El.
    assert (Hsk : skipn (N.to_nat n) (x :: cs ++ r0) = r0).
    { rewrite Hnn, Nat2N.id. cbn [skipn]. apply skipn_len_app. }
    rewrite Hsk in Ht.
    change (x :: cs ++ r0) with ((x :: cs) ++ r0). rewrite cdata_norm_hi.
    + apply all_chars_app.
      * apply (single_char_all _ c); [|exact Hc].
        replace (blen (x :: cs)) with n by (unfold blen; cbn [length]; lia).
        specialize (Hdd []). rewrite app_nil_r in Hdd. exact Hdd.
      * apply IH; [|exact Ht]. cbn [length] in Hm. rewrite app_length in Hm. lia.
    + unfold hi. cbn [forallb]. apply andb_true_iff. split; [lia|apply hi_cont; exact Hcs].
Qed.

Lemma cdata_norm_chars l : all_chars l -> all_chars (cdata_norm l).
Proof. apply (cdata_norm_chars_len (length l)). lia. Qed.

(* ------------------------------------------------------------------------------------------ *)
(* the text buffer                                                                              *)

Lemma flush_chars t : all_chars (tb_buf t) -> all_chars (tb_buf (tb_flush t)).
Proof.
  unfold tb_flush. intros H. destruct (tb_pending_cr t); cbn [tb_buf]; [|exact H].
  apply all_chars_snoc; auto.
Qed.

Lemma tb_finish_chars t bs : all_chars (tb_buf t) -> tb_finish t = Ok bs -> all_chars bs.
Proof.
  unfold tb_finish. cbv zeta. intros H E. destruct (valid_utf8_b (tb_buf (tb_flush t))); [|discriminate].
  inversion E; subst. apply flush_chars; exact H.
Qed.

Lemma push_raw_buf x t :
  tb_buf (tb_push_raw x t) = tb_buf (tb_flush t) ++ [x] /\ tb_pending_cr (tb_push_raw x t) = false.
Proof. unfold tb_push_raw. cbn. auto. Qed.

Lemma push_from_text_ascii_chars x t : all_chars (tb_buf t) -> (x <? 128) = true -> cc x = true ->
  all_chars (tb_buf (tb_push_from_text x t)).
Proof.
  intros H Hx Hc. unfold tb_push_from_text.
  destruct (tb_pending_cr t); [destruct (x =? 10)|]; cbn [tb_buf tb_pending_cr];
    try destruct (x =? 13); cbn [tb_buf];
    repeat first [assumption | apply all_chars_snoc; [|first [assumption|reflexivity]|first [assumption|reflexivity]]].
Qed.

Lemma push_from_text_hi x t : (x <? 128) = false ->
  tb_buf (tb_push_from_text x t) = (if tb_pending_cr t then tb_buf t ++ [10] else tb_buf t) ++ [x] /\
  tb_pending_cr (tb_push_from_text x t) = false.
Proof.
  intros Hx. unfold tb_push_from_text.
  assert ((x =? 10) = false) as E10 by lia. assert ((x =? 13) = false) as E13 by lia.
  destruct (tb_pending_cr t) eqn:Ep; rewrite ?E10, ?E13; cbn [tb_buf tb_pending_cr]; rewrite ?Ep; auto.
Qed.

Lemma push_from_attr_ascii_chars x nx t : all_chars (tb_buf t) -> (x <? 128) = true -> cc x = true ->
  all_chars (tb_buf (tb_push_from_attr x nx t)).
Proof.
  intros H Hx Hc. unfold tb_push_from_attr.
  destruct ((x =? 13) && match nx with Some y => y =? 10 | None => false end); [exact H|].
  cbn [tb_buf]. destruct ((x =? 10) || (x =? 13) || (x =? 9)); apply all_chars_snoc; auto.
Qed.

Lemma push_from_attr_hi x nx t : (x <? 128) = false ->
  tb_buf (tb_push_from_attr x nx t) = tb_buf t ++ [x] /\
  tb_pending_cr (tb_push_from_attr x nx t) = tb_pending_cr t.
Proof.
  intros Hx. unfold tb_push_from_attr.
  assert ((x =? 10) = false) as E10 by lia. assert ((x =? 13) = false) as E13 by lia.
  assert ((x =? 9) = false) as E9 by lia. rewrite E10, E13, E9. cbn. auto.
Qed.

(* a whole referenced char *)
Lemma push_text_hi_nopending : forall bs ie t, hi bs -> tb_pending_cr t = false ->
  tb_buf (push_char_bytes_text bs ie t) = tb_buf t ++ bs.
Proof.
  induction bs as [|x bs IH]; intros ie t Hh Hp; cbn [push_char_bytes_text]; [rewrite app_nil_r; reflexivity|].
  unfold hi in Hh. cbn [forallb] in Hh. apply andb_true_iff in Hh. destruct Hh as [Hx Hh].
  assert (Ex : (x <? 128) = false) by lia.
  destruct ie.
  - destruct (push_from_text_hi x t Ex) as (E1 & E2). rewrite Hp in E1.
    rewrite IH by assumption. rewrite E1, <- app_assoc. reflexivity.
  - destruct (push_raw_buf x t) as (E1 & E2). rewrite IH by assumption.
    rewrite E1. unfold tb_flush. rewrite Hp. rewrite <- app_assoc. reflexivity.
Qed.

Lemma push_text_ref_chars ch ie t : all_chars (tb_buf t) -> is_scalar ch = true -> cc ch = true ->
  all_chars (tb_buf (push_char_bytes_text (encode_utf8 ch) ie t)).
Proof.
  intros H Hs Hc. destruct (ch <? 128) eqn:Ea.
  - rewrite encode_ascii by exact Ea. cbn [push_char_bytes_text]. destruct ie.
    + apply push_from_text_ascii_chars; assumption.
    + destruct (push_raw_buf ch t) as (E1 & _). rewrite E1.
      apply all_chars_snoc; [apply flush_chars; exact H|exact Ea|exact Hc].
  - pose proof (encode_high ch Ea) as Hh. pose proof (encode_all_chars ch Hs Hc) as Hall.
    destruct (encode_utf8 ch) as [|x bs] eqn:Ee; [exact H|].
    cbn [push_char_bytes_text]. unfold hi in *. cbn [forallb] in Hh.
    apply andb_true_iff in Hh. destruct Hh as [Hx Hh]. assert (Ex : (x <? 128) = false) by lia.
    destruct ie.
    + destruct (push_from_text_hi x t Ex) as (E1 & E2).
      rewrite push_text_hi_nopending by assumption. rewrite E1, <- app_assoc.
      apply all_chars_app; [|exact Hall]. destruct (tb_pending_cr t); [apply all_chars_snoc; auto|exact H].
    + destruct (push_raw_buf x t) as (E1 & E2).
      rewrite push_text_hi_nopending by assumption. rewrite E1, <- app_assoc.
      apply all_chars_app; [apply flush_chars; exact H|exact Hall].
Qed.

Lemma push_attr_hi : forall bs ie t t', hi bs ->
  push_char_bytes_attr bs ie t = Some t' ->
  exists pre, all_chars pre /\ tb_buf t' = tb_buf t ++ pre ++ bs.
Proof.
  induction bs as [|x bs IH]; intros ie t t' Hh H; cbn [push_char_bytes_attr] in H.
  { inversion H; subst. exists []. split; [constructor|]. rewrite app_nil_r. reflexivity. }
  unfold hi in Hh. cbn [forallb] in Hh. apply andb_true_iff in Hh. destruct Hh as [Hx Hh].
  assert (Ex : (x <? 128) = false) by lia.
  (* after the first byte nothing is pending in the raw case; in the entity case nothing is ever inserted *)
  assert (REST : forall t1 t2, push_char_bytes_attr bs ie t1 = Some t2 ->
            (ie = false -> tb_pending_cr t1 = false) -> tb_buf t2 = tb_buf t1 ++ bs).
  { clear -Hh. revert Hh. induction bs as [|y bs IH]; intros Hh t1 t2 H Hp; cbn [push_char_bytes_attr] in H.
    - inversion H; subst. rewrite app_nil_r. reflexivity.
    - unfold hi in Hh. cbn [forallb] in Hh. apply andb_true_iff in Hh. destruct Hh as [Hy Hh].
      assert (Ey : (y <? 128) = false) by lia. destruct ie.
      + assert ((y =? 60) = false) as E60 by lia. rewrite E60 in H.
        destruct (push_from_attr_hi y None t1 Ey) as (E1 & E2).
        rewrite (IH Hh _ _ H) by (intros; discriminate). rewrite E1, <- app_assoc. reflexivity.
      + destruct (push_raw_buf y t1) as (E1 & E2).
        rewrite (IH Hh _ _ H) by (intros; exact E2). rewrite E1. unfold tb_flush.
        rewrite (Hp eq_refl). rewrite <- app_assoc. reflexivity. }
  destruct ie.
  - assert ((x =? 60) = false) as E60 by lia. rewrite E60 in H.
    destruct (push_from_attr_hi x None t Ex) as (E1 & E2).
    rewrite (REST _ _ H) by (intros; discriminate). exists []. split; [constructor|].
    rewrite E1, <- app_assoc. reflexivity.
  - destruct (push_raw_buf x t) as (E1 & E2).
    rewrite (REST _ _ H) by (intros; exact E2). rewrite E1. unfold tb_flush.
    destruct (tb_pending_cr t).
    + exists [10]. split; [apply all_chars_ascii1; reflexivity|]. cbn [tb_buf].
      rewrite <- !app_assoc. reflexivity.
    + exists []. split; [constructor|]. rewrite <- app_assoc. reflexivity.
Qed.

Lemma push_attr_ref_chars ch ie t t' : all_chars (tb_buf t) -> is_scalar ch = true -> cc ch = true ->
  push_char_bytes_attr (encode_utf8 ch) ie t = Some t' -> all_chars (tb_buf t').
Proof.
  intros H Hs Hc E. destruct (ch <? 128) eqn:Ea.
  - rewrite encode_ascii in E by exact Ea. cbn [push_char_bytes_attr] in E. destruct ie.
    + destruct (ch =? 60); [discriminate|]. inversion E; subst.
      apply push_from_attr_ascii_chars; assumption.
    + inversion E; subst. destruct (push_raw_buf ch t) as (E1 & _). rewrite E1.
      apply all_chars_snoc; [apply flush_chars; exact H|exact Ea|exact Hc].
  - destruct (push_attr_hi _ _ _ _ (encode_high ch Ea) E) as (pre & Hpre & ->).
    apply all_chars_app; [exact H|]. apply all_chars_app; [exact Hpre|].
    apply encode_all_chars; assumption.
Qed.

(* ------------------------------------------------------------------------------------------ *)
(* Streams whose remaining bytes are XML Chars                                                  *)

Section Align.
Variable text : bytes.
Notation R := (RestOk text).

(* at a char boundary, with only Chars up to the end of the stream *)
Definition G (s : stream) : Prop :=
  R s /\ exists k, s_pos s + k = s_end s /\ run cc (s_rest s) k.

Lemma G_from_substr a e s : all_chars (sub text a e) -> stream_from_substr text a e = Ok s -> G s.
Proof.
  intros Hall H. unfold stream_from_substr in H.
  destruct ((e <? a) || (tlen text <? e)) eqn:E; [discriminate|]. inversion H; subst. clear H.
  split; [reflexivity|]. cbn [s_pos s_end s_rest]. exists (e - a). split; [lia|].
  apply all_chars_run in Hall. unfold sub in Hall.
  assert (Hl : blen (firstn (N.to_nat (e - a)) (skipn (N.to_nat a) text)) = e - a).
  { unfold blen, tlen in *. rewrite firstn_length_le; [lia|]. rewrite skipn_length. unfold blen in E. lia. }
  rewrite Hl in Hall.
  rewrite <- (firstn_skipn (N.to_nat (e - a)) (skipn (N.to_nat a) text)). apply run_app_r. exact Hall.
Qed.

Lemma G_decode_step s c n s1 : G s -> decode1 (s_rest s) = Some (c, n) -> advance n s = Ok s1 ->
  G s1 /\ cc c = true.
Proof.
  intros (Hr & k & Hk & Hrun) Hd Ha.
  destruct (advance_rest text _ _ _ Ha Hr) as (Hr1 & Hp & He & Hle).
  destruct (advance_ok _ _ _ Ha) as (_ & Hrest & _).
  destruct (decode1_pos _ _ _ Hd) as (Hn & _).
  destruct (run_inv_pos _ _ _ Hrun ltac:(lia)) as (c' & n' & k' & Hd' & Hc & -> & Hrun').
  rewrite Hd in Hd'. inversion Hd'; subst c' n'. split; [|exact Hc].
  split; [exact Hr1|]. exists k'. split; [lia|]. rewrite Hrest. exact Hrun'.
Qed.

Lemma G_ascii_step s x r s1 : G s -> s_rest s = x :: r -> (x <? 128) = true -> advance 1 s = Ok s1 ->
  G s1 /\ cc x = true.
Proof.
  intros Hg Hs Hx Ha. eapply G_decode_step; [exact Hg| |exact Ha]. rewrite Hs. apply decode1_ascii. exact Hx.
Qed.

Lemma curr_byte_opt_some s x : curr_byte_opt s = Some x -> exists r, s_rest s = x :: r.
Proof.
  unfold curr_byte_opt. destruct (at_end s); [discriminate|].
  destruct (s_rest s) as [|y r]; [discriminate|]. intros H; inversion H; subst. eauto.
Qed.

Lemma G_try_consume_byte c s b0 s' : (c <? 128) = true -> G s -> try_consume_byte c s = (b0, s') -> G s'.
Proof.
  intros Hc Hg H. unfold try_consume_byte in H.
  destruct (curr_byte_opt s) as [x|] eqn:Ex; [|inversion H; subst; exact Hg].
  destruct (x =? c) eqn:E; [|inversion H; subst; exact Hg].
  destruct (advance 1 s) as [s1| | |] eqn:Ea; inversion H; subst; try exact Hg.
  destruct (curr_byte_opt_some _ _ Ex) as (r & Hs).
  assert (x = c) by lia. subst x. eapply G_ascii_step; eauto.
Qed.

Lemma G_consume_byte c s s' : (c <? 128) = true -> G s -> consume_byte text c s = Ok s' -> G s'.
Proof.
  intros Hc Hg H. unfold consume_byte in H. ib H x Hx.
  destruct (x =? c) eqn:E; cbn [negb] in H; [|noerr].
  unfold curr_byte in Hx. destruct (at_end s); [discriminate|]. unfold curr_byte_unchecked in Hx.
  destruct (s_rest s) as [|y r] eqn:Es; [discriminate|]. inversion Hx; subst y.
  assert (x = c) by lia. subst x. eapply G_ascii_step; eauto.
Qed.

Lemma scan_le f : forall room l, (scan f l room <= room)%nat.
Proof.
  induction room as [|room IH]; intros l; [destruct l; cbn [scan]; lia|].
  destruct l as [|x t]; cbn [scan]; [lia|]. destruct (f x); [specialize (IH t)|]; lia.
Qed.

Lemma run_scan f P : (forall x, f x = true -> (x <? 128) = true) ->
  forall room l k, run P l k -> (room <= N.to_nat k)%nat ->
  run P (skipn (scan f l room) l) (k - N.of_nat (scan f l room)).
Proof.
  intros Hf. induction room as [|room IH]; intros l k Hrun Hk.
  { replace (scan f l 0) with 0%nat by (destruct l; reflexivity).
    cbn [skipn]. replace (k - N.of_nat 0) with k by lia. exact Hrun. }
  destruct l as [|x t]; cbn [scan]. { cbn [skipn]. replace (k - N.of_nat 0) with k by lia. exact Hrun. }
  destruct (f x) eqn:Ex. 2:{ cbn [skipn]. replace (k - N.of_nat 0) with k by lia. exact Hrun. }
  destruct (run_inv_pos _ _ _ Hrun ltac:(lia)) as (c & n & k' & Hd & _ & -> & Hrun').
  rewrite decode1_ascii in Hd by (apply Hf; exact Ex). inversion Hd; subst c n.
  rewrite skipn1 in Hrun'.
  cbn [skipn]. specialize (IH t k' Hrun' ltac:(lia)).
  replace (1 + k' - N.of_nat (S (scan f t room))) with (k' - N.of_nat (scan f t room)) by lia. exact IH.
Qed.

Lemma G_skip_bytes f s : (forall x, f x = true -> (x <? 128) = true) -> G s -> G (skip_bytes f s).
Proof.
  intros Hf (Hr & k & Hk & Hrun). split; [apply skip_bytes_rest; exact Hr|].
  unfold skip_bytes. cbn [s_pos s_end s_rest].
  pose proof (scan_le f (N.to_nat (s_end s - s_pos s)) (s_rest s)) as Hle.
  exists (k - N.of_nat (scan f (s_rest s) (N.to_nat (s_end s - s_pos s)))). split; [lia|].
  apply run_scan; [exact Hf|exact Hrun|lia].
Qed.

Lemma G_skip_name_loop : forall fu s s', skip_name_loop fu s = Ok s' -> G s -> G s'.
Proof.
  induction fu as [|fu IH]; intros s s' H Hg; cbn [skip_name_loop] in H; [noerr|].
  ib H oc Ho. destruct oc as [[c n]|]; [|inversion H; subst; exact Hg].
  apply next_char_some in Ho. destruct (char_is_name c); [|inversion H; subst; exact Hg].
  ib H s1 H1. eapply IH; [exact H|]. eapply G_decode_step; eauto.
Qed.

Lemma G_consume_name s nm s' : consume_name text s = Ok (nm, s') -> G s -> G s'.
Proof.
  unfold consume_name. intros H Hg. ib H s1 H1. ib H sl H2.
  destruct (slice_len sl =? 0); [noerr|]. inversion H; subst.
  unfold skip_name in H1. ib H1 oc Ho. destruct oc as [[c n]|]; [|inversion H1; subst; exact Hg].
  apply next_char_some in Ho. destruct (char_is_name_start c); [|noerr].
  ib H1 s2 H2'. eapply G_skip_name_loop; [exact H1|]. eapply G_decode_step; eauto.
Qed.

Lemma hexdigit_ascii x : is_ascii_hexdigit x = true -> (x <? 128) = true.
Proof. unfold is_ascii_hexdigit, is_ascii_digit. lia. Qed.
Lemma digit_ascii x : is_ascii_digit x = true -> (x <? 128) = true.
Proof. unfold is_ascii_digit. lia. Qed.

(* a reference is made of whole chars, and a referenced char is a scalar XML Char *)
Lemma G_consume_reference s r s' : G s -> consume_reference text s = Ok (Some (r, s')) ->
  G s' /\ match r with RefChar ch => cc ch = true /\ is_scalar ch = true | RefEntity _ => True end.
Proof.
  intros Hg H. unfold consume_reference in H.
  destruct (try_consume_byte 38 s) as [ok s1] eqn:E1.
  assert (G1 : G s1) by (eapply G_try_consume_byte; [|exact Hg|exact E1]; reflexivity).
  destruct ok; cbn [negb] in H; [|discriminate].
  destruct (try_consume_byte 35 s1) as [is_num s2] eqn:E2.
  assert (G2 : G s2) by (eapply G_try_consume_byte; [|exact G1|exact E2]; reflexivity).
  ib H r0 Hr0.
  assert (P0 : match r0 with
               | Some (r1, s3) => G s3 /\ match r1 with RefChar ch => cc ch = true /\ is_scalar ch = true
                                                   | RefEntity _ => True end
               | None => True end).
  { destruct is_num.
    - destruct (try_consume_byte 120 s2) as [is_hex s3] eqn:E3.
      assert (G3 : G s3) by (eapply G_try_consume_byte; [|exact G2|exact E3]; reflexivity).
      ib Hr0 q Hq. destruct q as [value s4].
      assert (G4 : G s4).
      { unfold consume_bytes in Hq. ib Hq sl Hsl. inversion Hq; subst. apply G_skip_bytes; [|exact G3].
        destruct is_hex; [apply hexdigit_ascii|apply digit_ascii]. }
      destruct (slice_bytes text value); [inversion Hr0; subst; exact I|].
      destruct (u32_max <? _); [inversion Hr0; subst; exact I|]. cbv zeta in Hr0.
      match type of Hr0 with context [char_is_char ?c] => destruct (char_is_char c) eqn:Ec end;
        cbn [negb] in Hr0; inversion Hr0; subst; [|exact I].
      split; [exact G4|]. split; [exact Ec|].
      match goal with |- is_scalar (if ?b then _ else _) = true => destruct b eqn:Es end; [exact Es|reflexivity].
    - destruct (consume_name text s2) as [[name s3]| | |] eqn:En; inversion Hr0; subst; try exact I.
      split; [eapply G_consume_name; eauto|].
      repeat match goal with |- context [if ?b then _ else _] => destruct b end; cbn; auto. }
  destruct r0 as [[r1 s3]|]; [|discriminate].
  destruct (consume_byte text 59 s3) as [s4| | |] eqn:E4; inversion H; subst.
  destruct P0 as (G3 & Pr). split; [|exact Pr]. eapply G_consume_byte; [|exact G3|exact E4]. reflexivity.
Qed.

(* ---- the invariant of a byte-by-byte copy ---- *)

(* [out] is what has been produced so far: complete Chars [A], then the first bytes [Pt] of the
   char the stream is inside of; [Q] are the remaining bytes of that char. [pend]: a CR is pending
   in the buffer (only between chars). *)
Definition CInv (s : stream) (out : bytes) (pend : bool) : Prop :=
  exists A Pt Q rest' k,
    out = A ++ Pt /\ all_chars A /\ R s /\ s_rest s = Q ++ rest' /\
    s_pos s + blen Q + k = s_end s /\ run cc rest' k /\
    (Pt = [] -> Q = []) /\ (pend = true -> Pt = []) /\
    (Pt <> [] -> hi Pt /\ hi Q /\
       exists c0, cc c0 = true /\ forall r', decode1 (Pt ++ Q ++ r') = Some (c0, blen (Pt ++ Q))).

Lemma G_CInv s out pend : G s -> all_chars out -> CInv s out pend.
Proof.
  intros (Hr & k & Hk & Hrun) Hall. exists out, [], [], (s_rest s), k.
  rewrite app_nil_r. repeat split; auto; try (unfold blen; cbn [length]; lia); try (intros ?; congruence); try congruence.
Qed.

(* between two chars: everything produced is Chars, and the stream is at a boundary *)
Lemma CInv_boundary s out pend : CInv s out pend ->
  (at_end s = true \/ exists x r, s_rest s = x :: r /\ (x <? 128) = true) ->
  all_chars out /\ G s.
Proof.
  intros (A & Pt & Q & rest' & k & -> & HA & Hr & Hs & Hk & Hrun & HPQ & Hpend & HP) Hb.
  assert (HQ : Q = []).
  { destruct Q as [|q Q']; [reflexivity|exfalso]. destruct Hb as [Hb|(x & r & Hx & Hxa)].
    - unfold at_end in Hb. unfold blen in Hk. cbn [length] in Hk. lia.
    - destruct Pt as [|p Pt']; [specialize (HPQ eq_refl); discriminate|].
      destruct (HP ltac:(discriminate)) as (_ & HhQ & _). rewrite Hs in Hx. inversion Hx; subst.
      unfold hi in HhQ. cbn [forallb] in HhQ. lia. }
  subst Q. cbn [app] in Hs. split.
  - destruct Pt as [|p Pt']; [rewrite app_nil_r; exact HA|].
    destruct (HP ltac:(discriminate)) as (_ & _ & c0 & Hc0 & Hd).
    apply all_chars_app; [exact HA|]. apply (single_char_all _ c0); [|exact Hc0].
    specialize (Hd []). rewrite !app_nil_r in Hd. exact Hd.
  - split; [exact Hr|]. exists k. unfold blen in Hk. cbn [length] in Hk. split; [lia|]. rewrite Hs. exact Hrun.
Qed.

Lemma CInv_end s out pend : CInv s out pend -> at_end s = true -> all_chars out.
Proof. intros H E. apply (CInv_boundary s out pend H). left; exact E. Qed.

(* one byte of a multi-byte char is copied *)
Lemma CInv_hi_step s out pend x r s1 : CInv s out pend -> s_rest s = x :: r -> (x <? 128) = false ->
  at_end s = false -> advance 1 s = Ok s1 ->
  CInv s1 ((if pend then out ++ [10] else out) ++ [x]) false.
Proof.
  intros (A & Pt & Q & rest' & k & -> & HA & Hr & Hs & Hk & Hrun & HPQ & Hpend & HP) Hx Hxh He Ha.
  destruct (advance_rest text _ _ _ Ha Hr) as (Hr1 & Hp1 & He1 & _).
  destruct (advance_ok _ _ _ Ha) as (_ & Hrest1 & _).
  destruct Q as [|q Q'].
  - (* at a boundary: a new char starts *)
    cbn [app] in Hs. unfold blen in Hk. cbn [length] in Hk. unfold at_end in He.
    assert (Hall : all_chars (A ++ Pt)).
    { destruct Pt as [|p Pt']; [rewrite app_nil_r; exact HA|].
      destruct (HP ltac:(discriminate)) as (_ & _ & c0 & Hc0 & Hd).
      apply all_chars_app; [exact HA|]. apply (single_char_all _ c0); [|exact Hc0].
      specialize (Hd []). rewrite !app_nil_r in Hd. exact Hd. }
    assert (Hall1 : all_chars (if pend then (A ++ Pt) ++ [10] else A ++ Pt)).
    { destruct pend; [apply all_chars_snoc; auto|exact Hall]. }
    subst rest'. rewrite Hx in Hrun, Hrest1.
    destruct (run_inv_pos _ _ _ Hrun ltac:(lia)) as (c0 & n & k' & Hd & Hc0 & -> & Hrun').
    destruct (decode1_struct _ _ _ Hd) as (x' & cs & r0 & El & _ & Hcs & _ & Hn & Hdd).
    injection El as E1 E2. subst x' r.
    assert (Hsk : skipn (N.to_nat n) (x :: cs ++ r0) = r0).
    { rewrite Hn, Nat2N.id. cbn [skipn]. apply skipn_len_app. }
    rewrite Hsk in Hrun'.
    exists (if pend then (A ++ Pt) ++ [10] else A ++ Pt), [x], cs, r0, k'.
    split; [reflexivity|]. split; [exact Hall1|]. split; [exact Hr1|].
    split; [rewrite Hrest1; apply skipn1|].
    split; [unfold blen; lia|]. split; [exact Hrun'|].
    split; [intros; discriminate|]. split; [intros; discriminate|]. intros _.
    split; [unfold hi; cbn [forallb]; apply andb_true_iff; split; [lia|reflexivity]|].
    split; [apply hi_cont; exact Hcs|]. exists c0. split; [exact Hc0|]. intros r'.
    cbn [app]. replace (blen (x :: cs)) with n by (unfold blen; cbn [length]; lia). apply Hdd.
  - (* inside a char *)
    destruct Pt as [|p Pt']; [specialize (HPQ eq_refl); discriminate|].
    assert (pend = false) by (destruct pend; [specialize (Hpend eq_refl); discriminate|reflexivity]).
    subst pend. destruct (HP ltac:(discriminate)) as (HhP & HhQ & c0 & Hc0 & Hd).
    rewrite Hs in Hx. inversion Hx; subst q r. clear Hx.
    exists A, ((p :: Pt') ++ [x]), Q', rest', k.
    split; [rewrite app_assoc; reflexivity|]. split; [exact HA|]. split; [exact Hr1|].
    split; [rewrite Hrest1, Hs; reflexivity|].
    split; [unfold blen in *; cbn [length] in *; lia|]. split; [exact Hrun|].
    split; [intros E; destruct Pt'; discriminate|]. split; [intros; discriminate|]. intros _.
    unfold hi in HhQ. cbn [forallb] in HhQ. apply andb_true_iff in HhQ. destruct HhQ as [Hx1 HhQ].
    split; [apply hi_app; [exact HhP|unfold hi; cbn [forallb]; rewrite Hx1; reflexivity]|].
    split; [exact HhQ|]. exists c0. split; [exact Hc0|]. intros r'.
    specialize (Hd r'). rewrite <- !app_assoc in *. cbn [app] in *.
    replace (blen (p :: Pt' ++ [x] ++ Q')) with (blen (p :: Pt' ++ x :: Q'))
      by (unfold blen; cbn [length]; rewrite !app_length; cbn [length]; lia).
    exact Hd.
Qed.

End Align.
