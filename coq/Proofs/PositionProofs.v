(* Proofs/PositionProofs.v -- property C14: text positions (Document::text_pos_at). *)
From Coq Require Import Lia ZifyBool ZifyN ZifyNat PeanoNat.
From RX Require Import Generated.
From RX.Model Require Import Base CharClass Stream.
From RX.Proofs Require Import Tactics.

Local Open Scope N_scope.

(* ------------------------------------------------------------------ *)
(** * Counting lemmas *)

Lemma count_byte_app : forall c l1 l2, count_byte c (l1 ++ l2) = count_byte c l1 + count_byte c l2.
Proof.
  intros c l1 l2. induction l1 as [|x r IH]; cbn [app count_byte]; [lia|].
  rewrite IH. lia.
Qed.

Lemma char_count_app : forall l1 l2, char_count (l1 ++ l2) = char_count l1 + char_count l2.
Proof.
  intros l1 l2. induction l1 as [|x r IH]; cbn [app char_count]; [lia|].
  rewrite IH. lia.
Qed.

Lemma count_byte_firstn_le : forall c l n, count_byte c (firstn n l) <= count_byte c l.
Proof.
  intros c l. induction l as [|x r IH]; intros [|n]; cbn [firstn count_byte]; try lia.
  specialize (IH n). lia.
Qed.

Lemma char_count_firstn_le : forall l n, char_count (firstn n l) <= char_count l.
Proof.
  intros l. induction l as [|x r IH]; intros [|n]; cbn [firstn char_count]; try lia.
  specialize (IH n). lia.
Qed.

Lemma count_byte_repeat_same : forall c k, count_byte c (repeat c k) = N.of_nat k.
Proof.
  intros c k. induction k as [|k IH]; cbn [repeat count_byte]; [reflexivity|].
  rewrite N.eqb_refl, IH. lia.
Qed.

Lemma count_byte_repeat_other : forall c x k, x <> c -> count_byte c (repeat x k) = 0.
Proof.
  intros c x k Hne. induction k as [|k IH]; cbn [repeat count_byte]; [reflexivity|].
  rewrite IH. destruct (x =? c) eqn:E; lia.
Qed.

Lemma char_count_repeat_noncont : forall x k, is_cont x = false -> char_count (repeat x k) = N.of_nat k.
Proof.
  intros x k Hx. induction k as [|k IH]; cbn [repeat char_count]; [reflexivity|].
  rewrite Hx, IH. lia.
Qed.

(* ------------------------------------------------------------------ *)
(** * [after_last_lf] *)

Lemma after_last_lf_acc_spec : forall l acc,
  after_last_lf_acc acc l = if count_byte 10 l =? 0 then acc else after_last_lf l.
Proof.
  unfold after_last_lf.
  induction l as [|x r IH]; intros acc.
  - reflexivity.
  - cbn [after_last_lf_acc count_byte]. destruct (x =? 10) eqn:E.
    + destruct (1 + count_byte 10 r =? 0) eqn:E2; [lia|]. reflexivity.
    + rewrite N.add_0_l. rewrite (IH acc), (IH (x :: r)).
      destruct (count_byte 10 r =? 0); reflexivity.
Qed.

Lemma after_last_lf_cons : forall x r,
  after_last_lf (x :: r) =
  if x =? 10 then after_last_lf r
  else if count_byte 10 r =? 0 then x :: r else after_last_lf r.
Proof.
  intros x r. unfold after_last_lf at 1. cbn [after_last_lf_acc].
  destruct (x =? 10); [reflexivity|]. apply after_last_lf_acc_spec.
Qed.

Lemma after_last_lf_nolf : forall l, count_byte 10 l = 0 -> after_last_lf l = l.
Proof.
  intros l H. unfold after_last_lf. rewrite after_last_lf_acc_spec, H. reflexivity.
Qed.

Lemma char_count_after_last_lf_le : forall l, char_count (after_last_lf l) <= char_count l.
Proof.
  induction l as [|x r IH].
  - unfold after_last_lf; cbn [after_last_lf_acc]. lia.
  - rewrite after_last_lf_cons.
    destruct (x =? 10); destruct (count_byte 10 r =? 0); cbn [char_count]; lia.
Qed.

Lemma after_last_lf_repeat_lf : forall k l, after_last_lf (repeat 10 k ++ l) = after_last_lf l.
Proof.
  induction k as [|k IH]; intros l; cbn [repeat app]; [reflexivity|].
  rewrite after_last_lf_cons, N.eqb_refl. apply IH.
Qed.

Lemma after_last_lf_repeat_space : forall k l,
  after_last_lf (repeat 32 k ++ l) =
  if count_byte 10 l =? 0 then repeat 32 k ++ l else after_last_lf l.
Proof.
  induction k as [|k IH]; intros l; cbn [repeat app].
  - destruct (count_byte 10 l =? 0) eqn:E; [|reflexivity].
    apply after_last_lf_nolf. lia.
  - rewrite after_last_lf_cons. change (32 =? 10) with false. cbv iota.
    rewrite count_byte_app, count_byte_repeat_other by discriminate.
    rewrite N.add_0_l, IH.
    destruct (count_byte 10 l =? 0); reflexivity.
Qed.

(* ------------------------------------------------------------------ *)
(** * [floor_boundary] and [text_pos_at] on a boundary *)

Lemma floor_boundary_fuel_le : forall text fuel p, floor_boundary_fuel text fuel p <= p.
Proof.
  intros text fuel. induction fuel as [|fu IH]; intros p; cbn [floor_boundary_fuel]; [lia|].
  destruct (is_boundary text p); [lia|]. specialize (IH (p - 1)). lia.
Qed.

Lemma floor_boundary_on_boundary : forall text q, is_boundary text q = true -> floor_boundary text q = q.
Proof.
  intros text q H. unfold floor_boundary. cbn [floor_boundary_fuel]. rewrite H. reflexivity.
Qed.

Lemma gen_text_pos_at_ok : forall text e, e <= tlen text -> is_boundary text e = true ->
  gen_text_pos_at text e = Ok (calc_row text e, calc_col text e).
Proof.
  intros text e Hle Hb. unfold gen_text_pos_at. rewrite Hb.
  destruct (tlen text <? e) eqn:E; [lia|]. reflexivity.
Qed.

Lemma gen_text_pos_at_inv : forall text e r c, gen_text_pos_at text e = Ok (r, c) ->
  r = calc_row text e /\ c = calc_col text e.
Proof.
  intros text e r c. unfold gen_text_pos_at.
  destruct ((tlen text <? e) || negb (is_boundary text e)); [discriminate|].
  intros H; inversion H; auto.
Qed.

(* clamping: offsets past the end give the position of the end *)
Theorem text_pos_clamped : forall text p, tlen text <= p -> text_pos_at text p = text_pos_at text (tlen text).
Proof.
  intros text p H. unfold text_pos_at, gen_text_pos_from.
  rewrite (N.min_r p (tlen text)) by lia. rewrite N.min_id. reflexivity.
Qed.
Print Assumptions text_pos_clamped.

(* specification on a boundary offset q <= len: row/col by counting *)
Theorem text_pos_on_boundary : forall text q, q <= tlen text -> is_boundary text q = true ->
  text_pos_at text q = Ok (1 + count_byte 10 (firstn (N.to_nat q) text),
                           1 + char_count (after_last_lf (firstn (N.to_nat q) text))).
Proof.
  intros text q Hle Hb. unfold text_pos_at, gen_text_pos_from.
  rewrite N.min_l by lia. rewrite floor_boundary_on_boundary by exact Hb.
  rewrite gen_text_pos_at_ok by assumption. reflexivity.
Qed.
Print Assumptions text_pos_on_boundary.

(* bounds: 1 <= row <= number of lines; 1 <= col <= chars + 1 *)
Theorem text_pos_bounds : forall text p r c, text_pos_at text p = Ok (r, c) ->
  1 <= r /\ r <= 1 + count_byte 10 text /\ 1 <= c /\ c <= 1 + char_count text.
Proof.
  intros text p r c H. unfold text_pos_at, gen_text_pos_from in H.
  apply gen_text_pos_at_inv in H. destruct H as [-> ->].
  unfold calc_row, calc_col.
  set (e := N.to_nat (floor_boundary text (N.min p (tlen text)))).
  pose proof (count_byte_firstn_le 10 text e).
  pose proof (char_count_after_last_lf_le (firstn e text)).
  pose proof (char_count_firstn_le text e).
  lia.
Qed.
Print Assumptions text_pos_bounds.

(* ------------------------------------------------------------------ *)
(** * Inserting a prefix in front of the text *)

(* the first byte of the text is not a continuation byte (true of every valid UTF-8 text) *)
Definition head_ok (t : bytes) : Prop :=
  match t with x :: _ => is_cont x = false | [] => True end.

Lemma blen_app : forall l1 l2 : bytes, blen (l1 ++ l2) = blen l1 + blen l2.
Proof. intros. unfold blen. rewrite app_length. lia. Qed.

Lemma is_boundary_app : forall pre text q,
  q <= tlen text -> is_boundary text q = true -> (q = 0 -> head_ok text) ->
  is_boundary (pre ++ text) (blen pre + q) = true.
Proof.
  intros pre text q Hle Hb Hh. unfold is_boundary in *.
  destruct (blen pre + q =? 0) eqn:E0; [reflexivity|].
  assert (Hn : nth_error (pre ++ text) (N.to_nat (blen pre + q)) = nth_error text (N.to_nat q)).
  { rewrite nth_error_app2 by (unfold blen; lia). f_equal. unfold blen. lia. }
  rewrite Hn. rewrite blen_app.
  destruct (q =? 0) eqn:Eq.
  - assert (q = 0) by lia. subst q. specialize (Hh eq_refl).
    destruct text as [|x t]; cbn [nth_error N.to_nat].
    + change (N.to_nat 0) with O. cbn [nth_error]. unfold blen. cbn [length]. lia.
    + change (N.to_nat 0) with O. cbn [nth_error]. cbn [head_ok] in Hh. rewrite Hh. reflexivity.
  - destruct (nth_error text (N.to_nat q)); [exact Hb|]. lia.
Qed.

Lemma text_pos_at_app : forall pre text q,
  q <= tlen text -> is_boundary text q = true -> (q = 0 -> head_ok text) ->
  text_pos_at (pre ++ text) (blen pre + q) =
  Ok (1 + count_byte 10 (pre ++ firstn (N.to_nat q) text),
      1 + char_count (after_last_lf (pre ++ firstn (N.to_nat q) text))).
Proof.
  intros pre text q Hle Hb Hh.
  rewrite text_pos_on_boundary.
  - replace (N.to_nat (blen pre + q)) with (length pre + N.to_nat q)%nat by (unfold blen; lia).
    rewrite firstn_app_2. reflexivity.
  - unfold tlen in *. rewrite blen_app. lia.
  - apply is_boundary_app; assumption.
Qed.

Lemma blen_repeat : forall x k, blen (repeat x k) = N.of_nat k.
Proof. intros. unfold blen. rewrite repeat_length. reflexivity. Qed.

(* inserting k line breaks in front shifts the row by k and leaves the column.
   General form: when q = 0 the first byte of the text must not be a continuation byte. *)
Theorem text_pos_shift_lines_gen : forall text k q r c, q <= tlen text -> is_boundary text q = true ->
  (q = 0 -> head_ok text) ->
  text_pos_at text q = Ok (r, c) ->
  text_pos_at (repeat 10 k ++ text) (N.of_nat k + q) = Ok (N.of_nat k + r, c).
Proof.
  intros text k q r c Hle Hb Hh H.
  rewrite text_pos_on_boundary in H by assumption. inversion H; subst r c; clear H.
  rewrite <- (blen_repeat 10 k). rewrite text_pos_at_app by assumption.
  rewrite blen_repeat, count_byte_app, count_byte_repeat_same, after_last_lf_repeat_lf.
  f_equal. f_equal. lia.
Qed.
Print Assumptions text_pos_shift_lines_gen.

(* inserting k spaces in front shifts the column by k on the first line only *)
Theorem text_pos_shift_spaces_gen : forall text k q r c, q <= tlen text -> is_boundary text q = true ->
  (q = 0 -> head_ok text) ->
  text_pos_at text q = Ok (r, c) ->
  text_pos_at (repeat 32 k ++ text) (N.of_nat k + q) = Ok (r, if r =? 1 then N.of_nat k + c else c).
Proof.
  intros text k q r c Hle Hb Hh H.
  rewrite text_pos_on_boundary in H by assumption. inversion H; subst r c; clear H.
  rewrite <- (blen_repeat 32 k). rewrite text_pos_at_app by assumption.
  rewrite blen_repeat, count_byte_app, count_byte_repeat_other by discriminate.
  rewrite after_last_lf_repeat_space.
  set (l := firstn (N.to_nat q) text).
  destruct (count_byte 10 l =? 0) eqn:E.
  - assert (E' : count_byte 10 l = 0) by lia.
    rewrite (after_last_lf_nolf l E'), E'.
    change (1 + 0 =? 1) with true. cbv iota.
    rewrite char_count_app, char_count_repeat_noncont by reflexivity.
    f_equal. f_equal; lia.
  - destruct (1 + count_byte 10 l =? 1) eqn:E2; [lia|].
    f_equal.
Qed.
Print Assumptions text_pos_shift_spaces_gen.

(* ------------------------------------------------------------------ *)
(** * Valid UTF-8: a boundary is at most 3 bytes back *)

Lemma decode1_some : forall b0 r c n, decode1 (b0 :: r) = Some (c, n) ->
  is_cont b0 = false /\ 1 <= n /\ n <= 4 /\ (N.to_nat n <= length (b0 :: r))%nat.
Proof.
  intros b0 r c n. unfold decode1.
  destruct (b0 <? 128) eqn:E1.
  { intros H; inversion H; subst. unfold is_cont. cbn [length]. lia. }
  destruct (b0 <? 192) eqn:E2; [discriminate|].
  assert (Hc : is_cont b0 = false) by (unfold is_cont; lia).
  destruct (b0 <? 224) eqn:E3.
  { destruct r as [|b1 r]; [discriminate|]. destruct (is_cont b1); [|discriminate].
    intros H; inversion H; subst. cbn [length]. lia. }
  destruct (b0 <? 240) eqn:E4.
  { destruct r as [|b1 [|b2 r]]; try discriminate.
    destruct (is_cont b1 && is_cont b2); [|discriminate].
    intros H; inversion H; subst. cbn [length]. lia. }
  destruct (b0 <? 248) eqn:E5; [|discriminate].
  destruct r as [|b1 [|b2 [|b3 r]]]; try discriminate.
  destruct (is_cont b1 && is_cont b2 && is_cont b3); [|discriminate].
  intros H; inversion H; subst. cbn [length]. lia.
Qed.

Lemma nth_error_skipn' : forall (A : Type) (n : nat) (l : list A) (q : nat),
  nth_error (skipn n l) q = nth_error l (n + q).
Proof.
  intros A n. induction n as [|n IH]; intros l q; [reflexivity|].
  destruct l as [|x r]; cbn [skipn Nat.add nth_error]; [destruct q; reflexivity|apply IH].
Qed.

(* nat-indexed boundary predicate *)
Definition bnd (l : bytes) (q : nat) : Prop :=
  q = length l \/ exists x, nth_error l q = Some x /\ is_cont x = false.

Lemma valid_boundary_near : forall fuel l, valid_utf8_fuel fuel l = true ->
  forall p, (p <= length l)%nat -> exists i, (i <= 3)%nat /\ (i <= p)%nat /\ bnd l (p - i).
Proof.
  induction fuel as [|fu IH]; intros l Hv p Hp; cbn [valid_utf8_fuel] in Hv; [discriminate|].
  destruct l as [|b0 r].
  { cbn [length] in Hp. exists O. repeat split; try lia. left. cbn [length]. lia. }
  destruct (decode1 (b0 :: r)) as [[c n]|] eqn:Ed; [|discriminate].
  apply andb_true_iff in Hv. destruct Hv as [_ Hv].
  apply decode1_some in Ed. destruct Ed as (Hc & Hn1 & Hn4 & Hlen).
  set (m := N.to_nat n) in *.
  assert (Hm : (1 <= m <= 4)%nat) by lia.
  destruct (Nat.ltb p m) eqn:Epm.
  - apply Nat.ltb_lt in Epm. exists p. repeat split; try lia.
    replace (p - p)%nat with O by lia. right. exists b0. cbn [nth_error]. auto.
  - apply Nat.ltb_ge in Epm.
    destruct (IH _ Hv (p - m)%nat) as (i & Hi3 & Hip & Hb).
    { rewrite skipn_length. lia. }
    exists i. repeat split; try lia.
    destruct Hb as [Hb|[x [Hx Hxc]]].
    + left. rewrite skipn_length in Hb. lia.
    + right. exists x. split; [|exact Hxc].
      rewrite <- Hx. rewrite nth_error_skipn'. f_equal. lia.
Qed.

Lemma bnd_is_boundary : forall l q, bnd l q -> is_boundary l (N.of_nat q) = true.
Proof.
  intros l q Hb. unfold is_boundary.
  destruct (N.of_nat q =? 0) eqn:E0; [reflexivity|].
  rewrite Nat2N.id. destruct Hb as [Hb|[x [Hx Hxc]]].
  - subst q. rewrite (proj2 (nth_error_None l (length l))) by lia. unfold blen. lia.
  - rewrite Hx, Hxc. reflexivity.
Qed.

Lemma floor_boundary_fuel_hits : forall text fuel p,
  (exists i, i < N.of_nat fuel /\ is_boundary text (p - i) = true) ->
  is_boundary text (floor_boundary_fuel text fuel p) = true.
Proof.
  intros text fuel. induction fuel as [|fu IH]; intros p [i [Hi Hb]]; [lia|].
  cbn [floor_boundary_fuel]. destruct (is_boundary text p) eqn:Ep; [exact Ep|].
  apply IH. exists (i - 1).
  assert (i <> 0). { intros ->. rewrite N.sub_0_r in Hb. congruence. }
  split; [lia|]. replace (p - 1 - (i - 1)) with (p - i) by lia. exact Hb.
Qed.

Lemma valid_floor_boundary : forall text p, valid_utf8_b text = true -> p <= tlen text ->
  is_boundary text (floor_boundary text p) = true.
Proof.
  intros text p Hv Hp. unfold floor_boundary. apply floor_boundary_fuel_hits.
  destruct (valid_boundary_near _ _ Hv (N.to_nat p)) as (i & Hi3 & Hip & Hb).
  { unfold tlen, blen in Hp. lia. }
  exists (N.of_nat i). split; [lia|].
  apply bnd_is_boundary in Hb.
  replace (p - N.of_nat i) with (N.of_nat (N.to_nat p - i)) by lia. exact Hb.
Qed.

(* never panics, for any VALID UTF-8 text and any offset (past the end, inside a character) *)
Theorem text_pos_total_valid : forall text p, valid_utf8_b text = true ->
  exists rc, text_pos_at text p = Ok rc.
Proof.
  intros text p Hv. unfold text_pos_at, gen_text_pos_from.
  set (m := N.min p (tlen text)).
  assert (Hm : m <= tlen text) by (unfold m; lia).
  eexists. apply gen_text_pos_at_ok.
  - pose proof (floor_boundary_fuel_le text 4 m). unfold floor_boundary. lia.
  - apply valid_floor_boundary; assumption.
Qed.
Print Assumptions text_pos_total_valid.

Lemma valid_head_ok : forall text, valid_utf8_b text = true -> head_ok text.
Proof.
  intros [|b0 r] Hv; [exact I|]. cbn [head_ok].
  unfold valid_utf8_b in Hv. cbn [valid_utf8_fuel] in Hv.
  destruct (decode1 (b0 :: r)) as [[c n]|] eqn:Ed; [|discriminate].
  apply decode1_some in Ed. tauto.
Qed.

(* the two shift theorems as stated, for valid UTF-8 texts *)
Theorem text_pos_shift_lines_valid : forall text k q r c, valid_utf8_b text = true ->
  q <= tlen text -> is_boundary text q = true ->
  text_pos_at text q = Ok (r, c) ->
  text_pos_at (repeat 10 k ++ text) (N.of_nat k + q) = Ok (N.of_nat k + r, c).
Proof.
  intros text k q r c Hv Hle Hb H.
  apply text_pos_shift_lines_gen; auto. intros _. apply valid_head_ok, Hv.
Qed.
Print Assumptions text_pos_shift_lines_valid.

Theorem text_pos_shift_spaces_valid : forall text k q r c, valid_utf8_b text = true ->
  q <= tlen text -> is_boundary text q = true ->
  text_pos_at text q = Ok (r, c) ->
  text_pos_at (repeat 32 k ++ text) (N.of_nat k + q) = Ok (r, if r =? 1 then N.of_nat k + c else c).
Proof.
  intros text k q r c Hv Hle Hb H.
  apply text_pos_shift_spaces_gen; auto. intros _. apply valid_head_ok, Hv.
Qed.
Print Assumptions text_pos_shift_spaces_valid.

(* ------------------------------------------------------------------ *)
(** * The three statements that are false for arbitrary byte lists *)

(* text_pos_total: six continuation bytes, offset 5 -- four steps back end at offset 1, which is
   not a boundary either *)
Theorem text_pos_total_false :
  ~ (forall text p, exists rc, text_pos_at text p = Ok rc).
Proof.
  intros H. destruct (H (repeat 128 6%nat) 5) as [rc Hrc].
  vm_compute in Hrc. discriminate.
Qed.
Print Assumptions text_pos_total_false.

(* text_pos_shift_lines: text = [128] (a lone continuation byte), q = 0, k = 1 *)
Theorem text_pos_shift_lines_false :
  ~ (forall text k q r c, q <= tlen text -> is_boundary text q = true ->
     text_pos_at text q = Ok (r, c) ->
     text_pos_at (repeat 10 k ++ text) (N.of_nat k + q) = Ok (N.of_nat k + r, c)).
Proof.
  intros H. specialize (H [128] 1%nat 0 1 1).
  assert (H1 : 0 <= tlen [128]) by (vm_compute; discriminate).
  specialize (H H1 eq_refl eq_refl). vm_compute in H. discriminate.
Qed.
Print Assumptions text_pos_shift_lines_false.

Theorem text_pos_shift_spaces_false :
  ~ (forall text k q r c, q <= tlen text -> is_boundary text q = true ->
     text_pos_at text q = Ok (r, c) ->
     text_pos_at (repeat 32 k ++ text) (N.of_nat k + q) = Ok (r, if r =? 1 then N.of_nat k + c else c)).
Proof.
  intros H. specialize (H [128] 1%nat 0 1 1).
  assert (H1 : 0 <= tlen [128]) by (vm_compute; discriminate).
  specialize (H H1 eq_refl eq_refl). vm_compute in H. discriminate.
Qed.
Print Assumptions text_pos_shift_spaces_false.
