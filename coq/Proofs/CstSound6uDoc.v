(* Proofs/CstSoundPDoc.v -- C08 soundness WITH A PROLOG AND ENTITIES (stage S5 of Spec/CstFullS5.v), first
   milestone: byte order mark, XML declaration, comments / PIs, DOCTYPE with its internal subset,
   root, epilog, final checks; the theorem [parse_sound_fragment_p0] (no reference to a declared
   entity is used in the document). *)
From Coq Require Import String.
From Coq Require Import List Arith NArith Bool Lia ZifyBool ZifyN ZifyNat.
Import ListNotations.
From RX Require Import Generated.
From RX.Model Require Import Base CharClass Stream Tokenizer Doc Builder Parse.
From RX.Spec Require Cst Chars CstU CstNs Scope CstEnt.
From RX.Spec Require CstText.
From RX.Spec Require Import CstFull CstFullS5.
From RX.Proofs Require Import Tactics CstLex CstULex CstTextLex.
From RX.Proofs Require CstBuild RejectProofs CstFullTree CstSoundDoc CstSoundTDoc CstNsTree.
From RX.Proofs Require Import CstSound CstSoundT CstSoundTLex CstSoundULex CstSoundBuild CstSoundTBuild CstSoundTText CstSoundTMain.
From RX.Proofs Require Import CstSoundN CstSoundNLex CstSoundNBuild CstSoundNText CstSoundNMain CstSoundNDoc.
From RX.Proofs Require Import CstSoundP CstSoundPEnt CstSoundPLex CstSoundPDtd CstSoundPBuild CstSoundPText.
From RX.Proofs Require Import CstSound6 CstSound6U CstSound6uLex CstSound6uDtd CstSound6uText.
Open Scope N_scope.

Notation itemE := (CstFull.item epieces).
Definition pairs_s := list (bytes * itemE).
Definition r_pairs_s (l : pairs_s) : bytes := flat_map (fun x => fst x ++ r_item (snd x)) l.
Definition wf_pairs_s (l : pairs_s) : bool := forallb (fun x => wf_s (fst x) && wf_misc_s (snd x)) l.

Fixpoint shift_s (l : pairs_s) (w : bytes) : bytes * list (itemE * bytes) :=
  match l with
  | [] => (w, [])
  | (w1, i1) :: r => let '(w0, b0) := shift_s r w in (w1, (i1, w0) :: b0)
  end.

Lemma shift_render_s : forall l w,
  fst (shift_s l w) ++ flat_map (fun p => r_item (fst p) ++ snd p) (snd (shift_s l w)) = r_pairs_s l ++ w.
Proof.
  induction l as [|[w1 i1] r IH]; intros w.
  - cbn. rewrite app_nil_r. reflexivity.
  - cbn [shift_s]. specialize (IH w). destruct (shift_s r w) as [w0 b0]. cbn [fst snd] in *.
    unfold r_pairs_s in *. cbn [flat_map fst snd]. rewrite <- !app_assoc. rewrite <- IH. reflexivity.
Qed.

Lemma shift_wf_s : forall l w, wf_pairs_s l = true -> wf_s w = true ->
  wf_s (fst (shift_s l w)) = true /\
  forallb (fun p => wf_misc_s (fst p) && wf_s (snd p)) (snd (shift_s l w)) = true.
Proof.
  induction l as [|[w1 i1] r IH]; intros w Hl Hw; cbn [shift_s fst snd forallb]; [auto|].
  cbn [wf_pairs_s forallb fst snd] in Hl. apply andb_true_iff in Hl. destruct Hl as [H1 H2].
  apply andb_true_iff in H1. destruct H1 as [H0 H1].
  destruct (IH w H2 Hw) as [A B]. destruct (shift_s r w) as [w0 b0]. cbn [fst snd forallb] in *.
  split; [exact H0|]. rewrite H1, A, B. reflexivity.
Qed.

Lemma wf_s_app a c : wf_s a = true -> wf_s c = true -> wf_s (a ++ c) = true.
Proof. unfold wf_s. intros A B. rewrite forallb_app, A, B. reflexivity. Qed.

Section DocP.
Variable text : bytes.
Hypothesis HF : Frag6u text.
Notation T_ := (Parse.token text).
Notation st := (CstLex.st text).
Notation W := (CstLex.W text).
Notation WV := (CstULex.WV text).
Notation SimP := (CstSoundPBuild.SimP text).
Notation Res := (CstSoundPBuild.Res text).

Definition nonelem (K : list row) : Prop := Forall (fun r => is_element_kind (snd r) = false) K.
(* P4 from a position on *)
Definition XA (p : N) : Prop := forall p' l', W p' l' -> p <= p' -> xml_at l' = true.

Lemma XA_mono p q : XA p -> p <= q -> XA q.
Proof. intros H Hpq p' l' HW Hq. apply (H p' l' HW). lia. Qed.
Lemma XA_after p : bom_len text < p -> XA p.
Proof. intros Hp p' l' HW Hq. apply (xml_at_pos text HF _ _ HW). lia. Qed.

(* ---- Misc* ---- *)
Lemma misc_sound_p ets (P : context -> Prop) (HP : forall a b, nseq a b -> P a -> P b) : forall fuel p l c s' c' stk,
  WV p l -> XA p -> SimP ets c stk -> P c ->
  parse_misc_loop text context T_ fuel (st p l) c = Ok (s', c') ->
  exists items wend l' p' K,
    l = r_pairs_s items ++ wend ++ l' /\ s' = st p' l' /\ WV p' l' /\ p <= p' /\
    wf_pairs_s items = true /\ Cst.wf_ws wend = true /\
    SimP ets c' stk /\ erows c' = erows c ++ K /\ nonelem K /\ P c'.
Proof.
  induction fuel as [|fu IH]; intros p l c s' c' stk HWV HX HS HR H; cbn [parse_misc_loop] in H; [noerr|].
  pose proof (WV_W _ _ _ HWV) as HW.
  rewrite (at_end_st text) in H by exact HW.
  destruct l as [|x l0].
  { inversion H; subst. exists [], [], [], p, []. rewrite app_nil_r.
    split; [reflexivity|]. split; [reflexivity|]. split; [exact HWV|]. split; [lia|]. split; [reflexivity|].
    split; [reflexivity|]. split; [exact HS|]. split; [first [rewrite app_nil_r; reflexivity|reflexivity]|]. split; [constructor|exact HR]. }
  cbv zeta in H.
  destruct (skip_spaces_inv_p text HF p (x :: l0) HWV) as (w & l1 & El & Hw & Hst & E1 & HW1).
  rewrite E1 in H. rewrite !(starts_with_st text) in H by apply HW1.
  destruct (prefix_b (b "<!--") l1) eqn:Ec.
  { change (b "<!--") with [60; 33; 45; 45] in Ec. destruct (prefix_b_split _ _ Ec) as (l2 & ->).
    ib H q Hq. destruct q as [s1 c1].
    destruct (inv_comment_p text HF context T_ _ _ _ _ _ HW1 Hq) as (bs & l3 & -> & Hwf & -> & HW2 & Hev).
    destruct (step_comment_p text ets _ _ _ _ _ HS Hev) as (HS1 & R1).
    pose proof (HP _ _ (leaf_nseq text _ _ _ _ Hev) HR) as HR1.
    assert (HX1 : XA (p + blen w + 4 + blen (utf8s bs) + 3)) by (apply (XA_mono p); [exact HX|lia]).
    destruct (IH _ _ _ _ _ _ HW2 HX1 HS1 HR1 H) as (items & wend & l' & p' & K & -> & -> & HW3 & Hp' & Hi & Hwe & HS2 & R2 & HK & HR2).
    eexists ((w, @IComment epieces bs) :: items), wend, l', p', (_ :: K).
    split. { rewrite El. cbn [r_pairs_s flat_map fst snd r_item Cst.r_item]. rewrite <- !app_assoc. reflexivity. }
    split; [reflexivity|]. split; [exact HW3|]. split; [lia|]. split.
    { cbn [wf_pairs_s forallb fst snd wf_misc_s]. rewrite (ws_s _ Hw), Hwf. exact Hi. }
    split; [exact Hwe|]. split; [exact HS2|].
    split; [rewrite R2, R1, <- app_assoc; reflexivity|]. split; [constructor; [reflexivity|exact HK]|exact HR2]. }
  destruct (prefix_b (b "<?") l1) eqn:Ep.
  { change (b "<?") with [60; 63] in Ep. destruct (prefix_b_split _ _ Ep) as (l2 & ->).
    ib H q Hq. destruct q as [s1 c1].
    assert (Hxa : xml_at ([60; 63] ++ l2) = true) by (apply (HX _ _ (WV_W _ _ _ HW1)); lia).
    destruct (inv_pi_p text HF context T_ _ _ _ _ _ HW1 Hxa Hq) as (tg & sep & v & l3 & -> & Hwf & -> & HW2 & Hev).
    unfold pi_tok in Hev. cbv zeta in Hev.
    destruct (step_pi_p text ets _ _ _ _ _ _ HS Hev) as (HS1 & R1).
    pose proof (HP _ _ (leaf_nseq text _ _ _ _ Hev) HR) as HR1.
    assert (HX1 : XA (p + blen w + 2 + blen (utf8s tg) + blen sep + blen (utf8s v) + 2)) by (apply (XA_mono p); [exact HX|lia]).
    destruct (IH _ _ _ _ _ _ HW2 HX1 HS1 HR1 H) as (items & wend & l' & p' & K & -> & -> & HW3 & Hp' & Hi & Hwe & HS2 & R2 & HK & HR2).
    eexists ((w, @IPI epieces tg sep v) :: items), wend, l', p', (_ :: K).
    split. { rewrite El. cbn [r_pairs_s flat_map fst snd r_item Cst.r_item]. rewrite <- !app_assoc. reflexivity. }
    split; [reflexivity|]. split; [exact HW3|]. split; [lia|]. split.
    { cbn [wf_pairs_s forallb fst snd wf_misc_s]. rewrite (ws_s _ Hw), (wf_pi_s_intro _ _ _ Hwf). exact Hi. }
    split; [exact Hwe|]. split; [exact HS2|].
    split; [rewrite R2, R1, <- app_assoc; reflexivity|]. split; [constructor; [reflexivity|exact HK]|exact HR2]. }
  inversion H; subst. exists [], w, l1, (p + blen w), []. cbn [r_pairs_s flat_map app]. rewrite app_nil_r.
  split; [exact El|]. split; [reflexivity|]. split; [exact HW1|]. split; [lia|]. split; [reflexivity|].
  split; [exact Hw|]. split; [exact HS|]. split; [first [rewrite app_nil_r; reflexivity|reflexivity]|]. split; [constructor|exact HR].
Qed.

(* ---- what the builder does with the declarations of the internal subset ---- *)
Lemma dsteps_sim (P : context -> Prop) (HP : forall a b, nseq a b -> P a -> P b) : forall ds ets c c',
  dsteps text context T_ ds c c' -> SimP ets c [] -> P c ->
  exists ets' K, SimP ets' c' [] /\ erows c' = erows c ++ K /\ nonelem K /\ P c'.
Proof.
  induction ds as [|sd ds IH]; intros ets c c' Hd HS HR.
  - inversion Hd; subst. exists ets, []. rewrite app_nil_r. split; [exact HS|]. split; [reflexivity|]. split; [constructor|exact HR].
  - inversion Hd as [|? ? ? c1 ? Hs Hrest]; subst.
    assert (ONE : exists ets1 K1, SimP ets1 c1 [] /\ erows c1 = erows c ++ K1 /\ nonelem K1 /\ P c1).
    { destruct sd as [e|? ? ? ? ? ? ?|? ? ? ? ? ? ?|? ? ?|ws0 i|e]; cbn [dstep] in Hs.
      6:{ destruct Hs as (nm & vl & Hev & _). destruct (step_entity_p text ets _ _ _ _ _ HS Hev) as (A & B0 & C0).
          eexists _, []. rewrite app_nil_r. split; [exact A|]. split; [exact B0|]. split; [constructor|exact (HP _ _ C0 HR)]. }
      - destruct Hs as (nm & vl & Hev & _). destruct (step_entity_p text ets _ _ _ _ _ HS Hev) as (A & B0 & C0).
        eexists _, []. rewrite app_nil_r. split; [exact A|]. split; [exact B0|]. split; [constructor|exact (HP _ _ C0 HR)].
      - subst c1. exists ets, []. rewrite app_nil_r. split; [exact HS|]. split; [reflexivity|]. split; [constructor|exact HR].
      - subst c1. exists ets, []. rewrite app_nil_r. split; [exact HS|]. split; [reflexivity|]. split; [constructor|exact HR].
      - subst c1. exists ets, []. rewrite app_nil_r. split; [exact HS|]. split; [reflexivity|]. split; [constructor|exact HR].
      - destruct i as [? ? ? ?|?|bs|t sp v]; try contradiction.
        + destruct Hs as (s0 & r0 & Hev). destruct (step_comment_p text ets _ _ _ _ _ HS Hev) as (A & B0).
          eexists ets, [_]. split; [exact A|]. split; [exact B0|]. split; [constructor; [reflexivity|constructor]|].
          exact (HP _ _ (leaf_nseq text _ _ _ _ Hev) HR).
        + destruct Hs as (t0 & v0 & r0 & Hev). destruct (step_pi_p text ets _ _ _ _ _ _ HS Hev) as (A & B0).
          eexists ets, [_]. split; [exact A|]. split; [exact B0|]. split; [constructor; [reflexivity|constructor]|].
          exact (HP _ _ (leaf_nseq text _ _ _ _ Hev) HR). }
    destruct ONE as (ets1 & K1 & A1 & B1 & C1 & D1).
    destruct (IH _ _ _ Hrest A1 D1) as (ets' & K2 & A2 & B2 & C2 & D2).
    exists ets', (K1 ++ K2). split; [exact A2|]. split; [rewrite B2, B1, app_assoc; reflexivity|].
    split; [apply Forall_app; split; assumption|exact D2].
Qed.

(* ---- root and epilog ---- *)
Definition tail_doc (s : stream) (c : context) : res context :=
  let s := skip_spaces s in
  let! (s, c) :=
    if match curr_byte_opt s with Some x => x =? 60 | None => false end then
      let! (open, s, c) := parse_element text context T_ s c in
      if open then parse_content text context T_ s c else Ok (s, c)
    else Ok (s, c) in
  let! (s, c) := parse_misc text context T_ s c in
  if negb (at_end s) then err_at text s UnknownToken
  else Ok c.

Definition rest_doc (allow : bool) (s : stream) (c : context) : res context :=
  let! s := if starts_with_declaration s then parse_declaration text s else Ok s in
  let! (s, c) := parse_misc text context T_ s c in
  let s := skip_spaces s in
  let! (s, c) :=
    if starts_with s (b "<!DOCTYPE") then
      if negb allow then Err DtdDetected
      else
        let! (s, c) := parse_doctype text context T_ s c in
        parse_misc text context T_ s c
    else Ok (s, c) in
  tail_doc s c.

Lemma bom_valid : U8.Valid [239; 187; 191].
Proof. change [239; 187; 191] with (utf8s [65279]). apply Valid_utf8s. repeat constructor; vm_compute; reflexivity. Qed.

End DocP.
