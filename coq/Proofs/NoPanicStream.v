(* Proofs/NoPanicStream.v -- the stream invariant and the panic-freedom of every Stream primitive
   on a valid UTF-8 text. *)
From Coq Require Import List Arith NArith Bool Lia ZifyBool ZifyN ZifyNat.
Import ListNotations.
From RX Require Import Generated.
From RX.Model Require Import Base CharClass Stream.
From RX.Proofs Require Import Tactics NoPanicUtf8.
Open Scope N_scope.

(* ---------------------------------------------------------------------------------------- *)
(* "does not panic, and if it returns a value the value satisfies Q"                        *)
(* ---------------------------------------------------------------------------------------- *)

Definition safe {A} (r : res A) (Q : A -> Prop) : Prop :=
  match r with Ok a => Q a | Panic _ => False | _ => True end.

Lemma safe_bind {A B} (r : res A) (f : A -> res B) (Q : A -> Prop) (R : B -> Prop) :
  safe r Q -> (forall a, Q a -> safe (f a) R) -> safe (bind r f) R.
Proof. destruct r; cbn; auto; tauto. Qed.

Lemma safe_bind_eq {A B} (r : res A) (f : A -> res B) (Q : A -> Prop) (R : B -> Prop) :
  safe r Q -> (forall a, r = Ok a -> Q a -> safe (f a) R) -> safe (bind r f) R.
Proof. destruct r; cbn; auto; tauto. Qed.

Lemma safe_mono {A} (r : res A) (Q R : A -> Prop) :
  safe r Q -> (forall a, Q a -> R a) -> safe r R.
Proof. destruct r; cbn; auto. Qed.

Lemma safe_no_panic {A} (r : res A) Q p : safe r Q -> r <> Panic p.
Proof. destruct r; cbn; intros; try discriminate. contradiction. Qed.

Lemma safe_of_no_panic {A} (r : res A) : (forall p, r <> Panic p) -> safe r (fun _ => True).
Proof. destruct r; cbn; auto. intros H. apply (H s); reflexivity. Qed.

Lemma safe_ok_inv {A} (r : res A) Q a : safe r Q -> r = Ok a -> Q a.
Proof. intros H ->. exact H. Qed.

Lemma safe_err {A} e (Q : A -> Prop) : safe (Err e) Q.
Proof. exact I. Qed.

Lemma safe_fuel {A} (Q : A -> Prop) : safe OutOfFuel Q.
Proof. exact I. Qed.

(* the same, but the panics in [allow] are tolerated *)
Definition safeP {A} (allow : panic_site -> Prop) (r : res A) (Q : A -> Prop) : Prop :=
  match r with Ok a => Q a | Panic p => allow p | _ => True end.

Lemma safe_safeP {A} allow (r : res A) Q : safe r Q -> safeP allow r Q.
Proof. destruct r; cbn; auto. contradiction. Qed.

Lemma safeP_bind {A B} allow (r : res A) (f : A -> res B) (Q : A -> Prop) (R : B -> Prop) :
  safeP allow r Q -> (forall a, Q a -> safeP allow (f a) R) -> safeP allow (bind r f) R.
Proof. destruct r; cbn; auto. Qed.

Lemma safeP_mono {A} allow (r : res A) (Q R : A -> Prop) :
  safeP allow r Q -> (forall a, Q a -> R a) -> safeP allow r R.
Proof. destruct r; cbn; auto. Qed.

Lemma safeP_noP {A} (r : res A) Q : safeP (fun _ => False) r Q -> safe r Q.
Proof. destruct r; cbn; auto. Qed.

Lemma safeP_ok_inv {A} allow (r : res A) Q a : safeP allow r Q -> r = Ok a -> Q a.
Proof. intros H ->. exact H. Qed.

Lemma safeP_panic_inv {A} allow (r : res A) Q p : safeP allow r Q -> r = Panic p -> allow p.
Proof. intros H ->. exact H. Qed.

(* ---------------------------------------------------------------------------------------- *)
(* list facts                                                                               *)
(* ---------------------------------------------------------------------------------------- *)

Lemma scan_le f l room : (scan f l room <= room)%nat.
Proof. revert l; induction room; intros [|x l]; cbn; try lia. destruct (f x); [|lia]. specialize (IHroom l). lia. Qed.

Lemma scan_le_len f l room : (scan f l room <= length l)%nat.
Proof. revert l; induction room; intros [|x l]; cbn; try lia. destruct (f x); [|lia]. specialize (IHroom l). lia. Qed.

Lemma scan_all f l room : forallb f (firstn (scan f l room) l) = true.
Proof.
  revert l; induction room; intros [|x l]; cbn; auto. destruct (f x) eqn:E; cbn; auto.
  rewrite E, IHroom. reflexivity.
Qed.

Lemma scan_stop f l room :
  scan f l room = room \/ skipn (scan f l room) l = [] \/
  exists x r, skipn (scan f l room) l = x :: r /\ f x = false.
Proof.
  revert l; induction room; intros [|x l]; cbn; auto.
  destruct (f x) eqn:E.
  - destruct (IHroom l) as [H|[H|H]]; auto.
  - right; right. exists x, l. auto.
Qed.

Lemma forallb_impl {A} (f g : A -> bool) l :
  (forall x, f x = true -> g x = true) -> forallb f l = true -> forallb g l = true.
Proof. intros H. induction l; cbn; auto. intros E. apply andb_true_iff in E as [E1 E2]. rewrite H, IHl; auto. Qed.

Lemma find_idx_spec g l i : find_idx g l = Some i ->
  exists x r, skipn (N.to_nat i) l = x :: r /\ g x = true.
Proof.
  revert i; induction l as [|y l IH]; intros i; cbn [find_idx]; [discriminate|].
  destruct (g y) eqn:E.
  - intros H; inversion H; subst. exists y, l. auto.
  - destruct (find_idx g l) as [j|]; [|discriminate]. intros H; inversion H; subst.
    destruct (IH j eq_refl) as (x & r & Hs & Hx). exists x, r.
    replace (N.to_nat (j + 1)) with (S (N.to_nat j)) by lia. auto.
Qed.

Lemma skipn_firstn_cons {A} : forall (i m : nat) (l : list A) x r,
  skipn i (firstn m l) = x :: r -> (i < m)%nat /\ exists r', skipn i l = x :: r'.
Proof.
  induction i; intros m l x r H.
  - destruct m; [discriminate|]. destruct l; [discriminate|]. cbn in H. inversion H; subst.
    split; [lia|]. eexists; reflexivity.
  - destruct m; [discriminate|]. destruct l; [discriminate|]. cbn in H.
    destruct (IHi _ _ _ _ H) as [H1 [r' H2]]. split; [lia|]. exists r'. exact H2.
Qed.

Lemma prefix_b_app p l : prefix_b p l = true -> exists r, l = p ++ r.
Proof.
  revert l; induction p as [|a p IH]; intros l H; cbn in *.
  - exists l; reflexivity.
  - destruct l as [|c l]; [discriminate|]. apply andb_true_iff in H as [H1 H2].
    destruct (IH _ H2) as [r ->]. exists r. f_equal. lia.
Qed.

Lemma firstn_app_inv {A} (m : nat) (l p r : list A) :
  firstn m l = p ++ r -> (length p <= m)%nat /\ exists r', l = p ++ r'.
Proof.
  intros H. split.
  - pose proof (firstn_le_length m l). rewrite H, app_length in H0. lia.
  - exists (r ++ skipn m l). rewrite app_assoc, <- H. symmetry; apply firstn_skipn.
Qed.

Lemma skipn_nil_len {A} (n : nat) (l : list A) : skipn n l = [] -> (length l <= n)%nat.
Proof. revert l; induction n; intros [|x l]; cbn; intros; try discriminate; try lia. specialize (IHn _ H). lia. Qed.

(* ---------------------------------------------------------------------------------------- *)
(* byte classes accepted by the callers of skip_bytes are ASCII                             *)
(* ---------------------------------------------------------------------------------------- *)

Lemma byte_is_space_ascii x : byte_is_space x = true -> ascii x = true.
Proof. unfold byte_is_space, in_ranges, byte_space_ranges, ascii. cbn [existsb fst snd]. lia. Qed.

Lemma is_ascii_digit_ascii x : is_ascii_digit x = true -> ascii x = true.
Proof. unfold is_ascii_digit, ascii. lia. Qed.

Lemma is_ascii_hexdigit_ascii x : is_ascii_hexdigit x = true -> ascii x = true.
Proof. unfold is_ascii_hexdigit, is_ascii_digit, ascii. lia. Qed.

Section WithText.
Variable text : bytes.
Hypothesis Hvalid : valid_utf8_b text = true.

Notation Bd := (Boundary text).
Notation stream := Stream.stream.

Definition SInv0 (s : stream) : Prop :=
  s_rest s = skipn (N.to_nat (s_pos s)) text /\ s_pos s <= s_end s /\ s_end s <= blen text /\
  Bd (s_end s).
Definition SInv (s : stream) : Prop := SInv0 s /\ Bd (s_pos s).
(* s' is a later state of s *)
Definition Ext (s s' : stream) : Prop :=
  SInv s' /\ s_pos s <= s_pos s' /\ s_end s' = s_end s.

Lemma Ext_refl s : SInv s -> Ext s s.
Proof.
  clear Hvalid. intros H; split; auto. split; [lia|reflexivity]. Qed.

Lemma Ext_trans s1 s2 s3 : Ext s1 s2 -> Ext s2 s3 -> Ext s1 s3.
Proof.
  clear Hvalid. intros (_ & H1 & H2) (H3 & H4 & H5). split; auto. split; [lia|congruence]. Qed.

Lemma Ext_SInv s s' : Ext s s' -> SInv s'.
Proof.
  clear Hvalid. intros H; apply H. Qed.

Lemma SInv_new : SInv (stream_new text).
Proof.
  clear Hvalid.
  unfold SInv, SInv0, stream_new, tlen. cbn [s_pos s_end s_rest].
  repeat split; try reflexivity; try lia; try apply (Boundary_len text); apply (Boundary_0 text).
Qed.

Lemma SInv0_rest_len s : SInv0 s -> length (s_rest s) = (length text - N.to_nat (s_pos s))%nat.
Proof.
  clear Hvalid. intros (Hr & _). rewrite Hr. apply skipn_length. Qed.

Lemma SInv0_room s : SInv0 s -> (N.to_nat (s_end s - s_pos s) <= length (s_rest s))%nat.
Proof.
  clear Hvalid. intros H. rewrite (SInv0_rest_len s H). destruct H as (_ & H1 & H2 & _). unfold blen in *. lia. Qed.

(* ---- positions ---- *)

Lemma gen_text_pos_at_safe p : Bd p -> safe (gen_text_pos_at text p) (fun _ => True).
Proof.
  clear Hvalid.
  intros [Hb Hl]. unfold gen_text_pos_at, tlen. rewrite Hb.
  destruct (blen text <? p) eqn:E; [lia|]. exact I.
Qed.

Lemma floor_boundary_Bd p : p <= blen text -> Bd (floor_boundary text p).
Proof.
  intros Hp. destruct (floor_exists text Hvalid p Hp) as (k & Hk & Hkp & Hb).
  unfold floor_boundary. cbn [floor_boundary_fuel].
  destruct (is_boundary text p) eqn:E0; [apply Boundary_of; auto|].
  destruct (is_boundary text (p - 1)) eqn:E1; [apply Boundary_of; auto|].
  destruct (is_boundary text (p - 1 - 1)) eqn:E2; [apply Boundary_of; auto|].
  destruct (is_boundary text (p - 1 - 1 - 1)) eqn:E3; [apply Boundary_of; auto|].
  exfalso. destruct Hb as [Hb _].
  assert (Hc : k = 0 \/ k = 1 \/ k = 2 \/ k = 3) by lia.
  destruct Hc as [ -> | [ -> | [ -> | -> ]]].
  - replace (p - 0) with p in Hb by lia. congruence.
  - congruence.
  - replace (p - 2) with (p - 1 - 1) in Hb by lia. congruence.
  - replace (p - 3) with (p - 1 - 1 - 1) in Hb by lia. congruence.
Qed.

Lemma gen_text_pos_from_safe p : safe (gen_text_pos_from text p) (fun _ => True).
Proof.
  unfold gen_text_pos_from. apply gen_text_pos_at_safe, floor_boundary_Bd. unfold tlen. lia.
Qed.

Lemma err_from_safe {A} p mk (Q : A -> Prop) : safe (err_from text p mk) Q.
Proof.
  unfold err_from. eapply safe_bind; [apply gen_text_pos_from_safe|]. intros; exact I.
Qed.

Lemma err_at_safe {A} s mk (Q : A -> Prop) : SInv s -> safe (err_at text s mk) Q.
Proof.
  clear Hvalid.
  intros [_ Hb]. unfold err_at, gen_text_pos.
  eapply safe_bind; [apply gen_text_pos_at_safe; auto|]. intros; exact I.
Qed.

Lemma err_at_safe' {A} s mk (Q : A -> Prop) : Bd (s_pos s) -> safe (err_at text s mk) Q.
Proof.
  clear Hvalid.
  intros Hb. unfold err_at, gen_text_pos.
  eapply safe_bind; [apply gen_text_pos_at_safe; auto|]. intros; exact I.
Qed.

(* ---- bytes ---- *)

Lemma not_at_end_rest s : SInv0 s -> at_end s = false ->
  exists x r, s_rest s = x :: r /\ s_pos s < s_end s.
Proof.
  clear Hvalid.
  intros H E. unfold at_end in E. pose proof (SInv0_rest_len s H) as Hl.
  destruct H as (Hr & H1 & H2 & _). unfold blen in *.
  destruct (s_rest s) as [|x r] eqn:Er; [cbn in Hl; lia|]. exists x, r. split; auto. lia.
Qed.

Lemma curr_byte_unchecked_safe s : SInv0 s -> at_end s = false ->
  safe (curr_byte_unchecked s) (fun x => exists r, s_rest s = x :: r /\ s_pos s < s_end s).
Proof.
  clear Hvalid.
  intros H E. destruct (not_at_end_rest s H E) as (x & r & Hr & Hlt).
  unfold curr_byte_unchecked. rewrite Hr. cbn. eauto.
Qed.

Lemma curr_byte_safe s : SInv0 s ->
  safe (curr_byte s) (fun x => exists r, s_rest s = x :: r /\ s_pos s < s_end s).
Proof.
  clear Hvalid.
  intros H. unfold curr_byte. destruct (at_end s) eqn:E; [exact I|].
  apply curr_byte_unchecked_safe; auto.
Qed.

Lemma curr_byte_opt_some s x : curr_byte_opt s = Some x ->
  exists r, s_rest s = x :: r /\ s_pos s < s_end s.
Proof.
  clear Hvalid.
  unfold curr_byte_opt, at_end. destruct (s_end s <=? s_pos s) eqn:E; [discriminate|].
  destruct (s_rest s) as [|y r]; [discriminate|]. intros H; inversion H; subst.
  exists r. split; auto. lia.
Qed.

Lemma next_byte_safe s : SInv0 s ->
  safe (next_byte s) (fun y => exists x r, s_rest s = x :: y :: r /\ s_pos s + 1 < s_end s).
Proof.
  clear Hvalid.
  intros H. unfold next_byte. destruct (s_end s <=? s_pos s + 1) eqn:E; [exact I|].
  pose proof (SInv0_rest_len s H) as Hl. destruct H as (Hr & H1 & H2 & _). unfold blen in *.
  destruct (s_rest s) as [|x [|y r]] eqn:Er; cbn in Hl; try lia.
  cbn. exists x, r. split; auto. lia.
Qed.

(* ---- advance ---- *)

Lemma advance_safe n s : SInv0 s -> s_pos s + n <= s_end s -> Bd (s_pos s + n) ->
  safe (advance n s) (Ext s).
Proof.
  clear Hvalid.
  intros (Hr & Hpe & Het & Hbe) Hn Hb. unfold advance.
  destruct (s_end s <? s_pos s + n) eqn:E; [lia|].
  cbn [safe]. unfold Ext, SInv, SInv0. cbn [s_pos s_end s_rest].
  split; [split; [split; [|split; [|split]]|]|split]; auto; try lia.
  rewrite Hr, skipn_skipn'. f_equal. lia.
Qed.

Lemma advance_pos n s s' : advance n s = Ok s' -> s_pos s' = s_pos s + n /\ s_end s' = s_end s.
Proof.
  unfold advance. destruct (s_end s <? s_pos s + n); [discriminate|].
  intros H; inversion H; subst. cbn. auto.
Qed.

Definition ascii_ahead (k : nat) (s : stream) : Prop :=
  s_pos s + N.of_nat k <= s_end s /\ forallb ascii (firstn k (s_rest s)) = true.

Lemma advance_ascii k n s : SInv s -> ascii_ahead k s -> n = N.of_nat k ->
  safe (advance n s) (Ext s).
Proof.
  intros [H0 Hb] [Hk Ha] ->. apply advance_safe; auto.
  pose proof (SInv0_room s H0) as Hroom.
  assert (Hlen : length (firstn k (s_rest s)) = k) by (apply firstn_length_le; lia).
  rewrite <- Hlen at 1.
  apply (Boundary_ascii_run text Hvalid (firstn k (s_rest s)) (s_pos s) (skipn k (s_rest s))); auto.
  destruct H0 as (Hr & _). rewrite <- Hr. symmetry. apply firstn_skipn.
Qed.

Lemma starts_with_split s p : s_pos s <= s_end s -> starts_with s p = true ->
  s_pos s + blen p <= s_end s /\ exists r, s_rest s = p ++ r.
Proof.
  clear Hvalid.
  unfold starts_with, avail. intros Hle H. apply prefix_b_app in H as [r H].
  apply firstn_app_inv in H as [H1 H2]. split; auto. unfold blen. lia.
Qed.

Lemma starts_with_ascii_ahead s p : SInv s -> starts_with s p = true -> forallb ascii p = true ->
  ascii_ahead (length p) s.
Proof.
  clear Hvalid.
  intros Hs H Ha. apply starts_with_split in H as [H1 [r H2]]; [|apply Hs]. split; [exact H1|].
  rewrite H2, firstn_len_app. exact Ha.
Qed.

Lemma advance_kw p n s : SInv s -> starts_with s p = true -> forallb ascii p = true ->
  n = blen p -> safe (advance n s) (Ext s).
Proof.
  intros Hs Hp Ha ->. eapply advance_ascii; eauto using starts_with_ascii_ahead.
Qed.

Lemma ascii_ahead_1 s x r : s_rest s = x :: r -> s_pos s < s_end s -> ascii x = true ->
  ascii_ahead 1 s.
Proof.
  clear Hvalid. intros Hr Hlt Hx. split; [lia|]. rewrite Hr. cbn. rewrite Hx. reflexivity. Qed.

Lemma ascii_ahead_2 s x y r : s_rest s = x :: y :: r -> s_pos s + 1 < s_end s ->
  ascii x = true -> ascii y = true -> ascii_ahead 2 s.
Proof.
  clear Hvalid. intros Hr Hlt Hx Hy. split; [lia|]. rewrite Hr. cbn. rewrite Hx, Hy. reflexivity. Qed.

Lemma advance1_safe s x r : SInv s -> s_rest s = x :: r -> s_pos s < s_end s -> ascii x = true ->
  safe (advance 1 s) (Ext s).
Proof. intros. eapply (advance_ascii 1); eauto using ascii_ahead_1. Qed.

Lemma skip_string_safe p s : SInv s -> forallb ascii p = true ->
  safe (skip_string text p s) (Ext s).
Proof.
  intros Hs Ha. unfold skip_string. destruct (starts_with s p) eqn:E; cbn [negb].
  - eapply advance_kw; eauto.
  - apply err_at_safe; auto.
Qed.

Lemma consume_byte_safe c s : SInv s -> ascii c = true -> safe (consume_byte text c s) (Ext s).
Proof.
  intros Hs Hc. unfold consume_byte.
  eapply safe_bind; [apply curr_byte_safe; apply Hs|]. intros x (r & Hr & Hlt). cbv beta.
  destruct (x =? c) eqn:E; cbn [negb].
  - assert (x = c) by lia. subst. eapply advance1_safe; eauto.
  - apply err_at_safe; auto.
Qed.

Lemma try_consume_byte_safe c s : SInv s -> ascii c = true -> Ext s (snd (try_consume_byte c s)).
Proof.
  intros Hs Hc. unfold try_consume_byte.
  destruct (curr_byte_opt s) as [x|] eqn:E; [|apply Ext_refl; auto].
  destruct (x =? c) eqn:Ex; [|apply Ext_refl; auto].
  assert (x = c) by lia. subst. apply curr_byte_opt_some in E as (r & Hr & Hlt).
  pose proof (advance1_safe s c r Hs Hr Hlt Hc) as H.
  destruct (advance 1 s); cbn in *; auto using Ext_refl.
Qed.

(* ---- skip_bytes ---- *)

Lemma skip_bytes_SInv0 f s : SInv0 s ->
  SInv0 (skip_bytes f s) /\ s_pos s <= s_pos (skip_bytes f s) /\ s_end (skip_bytes f s) = s_end s.
Proof.
  clear Hvalid.
  intros H. pose proof (SInv0_room s H) as Hroom. destruct H as (Hr & Hpe & Het & Hbe).
  unfold skip_bytes, SInv0. cbn [s_pos s_end s_rest].
  pose proof (scan_le f (s_rest s) (N.to_nat (s_end s - s_pos s))).
  repeat split; auto; try lia; try apply Hbe.
  rewrite Hr, skipn_skipn'. f_equal. lia.
Qed.

(* f accepts ASCII bytes only: we step over whole chars *)
Lemma skip_bytes_ascii f s : (forall x, f x = true -> ascii x = true) -> SInv s ->
  Ext s (skip_bytes f s).
Proof.
  intros Hf [H0 Hb]. destruct (skip_bytes_SInv0 f s H0) as (H1 & H2 & H3).
  split; [split; auto|split; auto].
  pose proof (SInv0_room s H0) as Hroom.
  unfold skip_bytes. cbn [s_pos].
  set (n := scan f (s_rest s) (N.to_nat (s_end s - s_pos s))).
  pose proof (scan_le f (s_rest s) (N.to_nat (s_end s - s_pos s))) as Hle. fold n in Hle.
  assert (Hlen : length (firstn n (s_rest s)) = n) by (apply firstn_length_le; lia).
  rewrite <- Hlen.
  apply (Boundary_ascii_run text Hvalid (firstn n (s_rest s)) (s_pos s) (skipn n (s_rest s))); auto.
  - destruct H0 as (Hr & _). rewrite <- Hr. symmetry. apply firstn_skipn.
  - eapply forallb_impl; [apply Hf|]. apply scan_all.
Qed.

(* f rejects non-continuation bytes only: we stop at the end or on the first byte of a char *)
Lemma skip_bytes_stop f s : (forall x, f x = false -> is_cont x = false) -> SInv0 s ->
  Ext s (skip_bytes f s).
Proof.
  clear Hvalid.
  intros Hf H0. destruct (skip_bytes_SInv0 f s H0) as (H1 & H2 & H3).
  split; [split; auto|split; auto].
  pose proof (SInv0_room s H0) as Hroom.
  pose proof H1 as (Hr' & _). revert Hr'.
  unfold skip_bytes. cbn [s_pos s_rest].
  set (n := scan f (s_rest s) (N.to_nat (s_end s - s_pos s))). intros Hr'.
  pose proof (scan_le f (s_rest s) (N.to_nat (s_end s - s_pos s))) as Hle. fold n in Hle.
  destruct H0 as (Hr & Hpe & Het & Hbe).
  assert (Hend : n = N.to_nat (s_end s - s_pos s) -> Bd (s_pos s + N.of_nat n)).
  { intros E. replace (s_pos s + N.of_nat n) with (s_end s) by lia. exact Hbe. }
  destruct (scan_stop f (s_rest s) (N.to_nat (s_end s - s_pos s))) as [E|[E|(x & r & E & Hx)]];
    fold n in E; auto.
  - apply Hend. apply skipn_nil_len in E. lia.
  - rewrite Hr' in E. eapply Boundary_noncont; eauto.
Qed.

Lemma skip_spaces_safe s : SInv s -> Ext s (skip_spaces s).
Proof. intros. apply skip_bytes_ascii; auto. apply byte_is_space_ascii. Qed.

Lemma skip_bytes_not s q : ascii q = true -> SInv s ->
  Ext s (skip_bytes (fun x => negb (x =? q)) s).
Proof.
  clear Hvalid.
  intros Hq [H0 _]. apply skip_bytes_stop; auto. intros x Hx.
  assert (x = q) by lia. subst. apply ascii_not_cont; auto.
Qed.

(* ---- slices ---- *)

Lemma mk_slice_safe a e : Bd a -> Bd e -> a <= e ->
  safe (mk_slice text a e) (fun sl => sl = {| sl_start := a; sl_end := e |}).
Proof.
  clear Hvalid.
  intros [Ha _] [He Hel] Hae. unfold mk_slice, tlen.
  destruct ((e <? a) || (blen text <? e)) eqn:E; [lia|]. rewrite Ha, He. reflexivity.
Qed.

Lemma slice_back_safe start s : Bd start -> SInv s -> start <= s_pos s ->
  safe (slice_back text start s) (fun sl => sl = {| sl_start := start; sl_end := s_pos s |}).
Proof.
  clear Hvalid. intros Hb [_ Hp] Hle. apply mk_slice_safe; auto. Qed.

Lemma consume_bytes_ascii f s : (forall x, f x = true -> ascii x = true) -> SInv s ->
  safe (consume_bytes text f s) (fun '(sl, s') => Ext s s' /\ sl = {| sl_start := s_pos s; sl_end := s_pos s' |}).
Proof.
  intros Hf Hs. unfold consume_bytes. pose proof (skip_bytes_ascii f s Hf Hs) as HE.
  eapply safe_bind; [apply slice_back_safe; try apply HE; apply Hs|].
  intros sl ->. cbn. auto.
Qed.

Lemma consume_bytes_not q s : ascii q = true -> SInv s ->
  safe (consume_bytes text (fun x => negb (x =? q)) s) (fun '(sl, s') => Ext s s').
Proof.
  clear Hvalid.
  intros Hq Hs. unfold consume_bytes. pose proof (skip_bytes_not s q Hq Hs) as HE.
  eapply safe_bind; [apply slice_back_safe; try apply HE; apply Hs|].
  intros sl ->. cbn. auto.
Qed.

Lemma consume_spaces_safe s : SInv s -> safe (consume_spaces text s) (Ext s).
Proof.
  intros Hs. unfold consume_spaces. destruct (at_end s) eqn:E; [exact I|].
  destruct (starts_with_space s); cbn [negb].
  - cbn. apply skip_spaces_safe; auto.
  - eapply safe_bind; [apply curr_byte_unchecked_safe; auto; apply Hs|].
    intros; apply err_at_safe; auto.
Qed.

Lemma advance_until2_safe n1 n2 s : ascii n1 = true -> ascii n2 = true -> SInv s ->
  safe (advance_until2 n1 n2 s) (Ext s).
Proof.
  clear Hvalid.
  intros A1 A2 [H0 Hb]. unfold advance_until2.
  destruct (find_idx _ (avail s)) as [i|] eqn:E; [|exact I].
  apply find_idx_spec in E as (x & r & Hs & Hx). unfold avail in Hs.
  apply skipn_firstn_cons in Hs as [Hi [r' Hs]].
  pose proof H0 as (Hr & Hpe & Het & Hbe).
  apply advance_safe; auto; [lia|].
  rewrite Hr, skipn_skipn' in Hs.
  replace (N.to_nat (s_pos s) + N.to_nat i)%nat with (N.to_nat (s_pos s + i)) in Hs by lia.
  eapply Boundary_noncont; eauto. apply ascii_not_cont.
  destruct (x =? n1) eqn:E1; [assert (x = n1) by lia; subst; auto|].
  assert (x = n2) by lia; subst; auto.
Qed.

(* ---- chars ---- *)

Lemma next_char_safe s : SInv s ->
  safe (next_char s) (fun oc => match oc with
                                | None => True
                                | Some (c, n) => 1 <= n /\ s_pos s + n <= s_end s /\ Bd (s_pos s + n)
                                end).
Proof.
  intros [H0 Hb]. unfold next_char. destruct (at_end s) eqn:E; [exact I|].
  destruct H0 as (Hr & Hpe & Het & Hbe). unfold at_end in E.
  destruct (char_step text Hvalid (s_pos s) (s_end s) Hb Hbe ltac:(lia)) as (c & n & Hd & Hn & Hle & Hb' & _).
  rewrite Hr, Hd. destruct (s_end s <? s_pos s + n) eqn:E2; [lia|]. cbn. auto.
Qed.

Lemma advance_char s n : SInv s ->
  1 <= n /\ s_pos s + n <= s_end s /\ Bd (s_pos s + n) -> safe (advance n s) (Ext s).
Proof.
  clear Hvalid. intros [H0 _] (_ & H1 & H2). apply advance_safe; auto. Qed.

Lemma skip_chars_loop_safe f : forall fu s, SInv s -> safe (skip_chars_loop text fu f s) (Ext s).
Proof.
  induction fu; intros s Hs; cbn [skip_chars_loop]; [exact I|].
  eapply safe_bind; [apply next_char_safe; auto|]. intros [[c n]|] Hoc; [|apply Ext_refl; auto].
  destruct (char_is_char c); cbn [negb]; [|apply err_at_safe; auto].
  destruct (f s c); [|apply Ext_refl; auto].
  eapply safe_bind; [eapply advance_char; eauto|]. intros s1 H1. cbv beta.
  eapply safe_mono; [apply IHfu; apply H1|]. intros s2 H2. eapply Ext_trans; eauto.
Qed.

Lemma skip_chars_safe f s : SInv s -> safe (skip_chars text f s) (Ext s).
Proof. apply skip_chars_loop_safe. Qed.

Lemma consume_chars_safe f s : SInv s ->
  safe (consume_chars text f s)
       (fun '(sl, s') => Ext s s' /\ sl = {| sl_start := s_pos s; sl_end := s_pos s' |}).
Proof.
  intros Hs. unfold consume_chars.
  eapply safe_bind; [apply skip_chars_safe; auto|]. intros s1 H1. cbv beta.
  eapply safe_bind; [apply slice_back_safe; try apply H1; apply Hs|]. intros sl ->. cbn. auto.
Qed.

Lemma skip_name_loop_safe : forall fu s, SInv s -> safe (skip_name_loop fu s) (Ext s).
Proof.
  induction fu; intros s Hs; cbn [skip_name_loop]; [exact I|].
  eapply safe_bind; [apply next_char_safe; auto|]. intros [[c n]|] Hoc; [|apply Ext_refl; auto].
  destruct (char_is_name c); [|apply Ext_refl; auto].
  eapply safe_bind; [eapply advance_char; eauto|]. intros s1 H1. cbv beta.
  eapply safe_mono; [apply IHfu; apply H1|]. intros s2 H2. eapply Ext_trans; eauto.
Qed.

Lemma skip_name_safe s : SInv s -> safe (skip_name text s) (Ext s).
Proof.
  intros Hs. unfold skip_name.
  eapply safe_bind; [apply next_char_safe; auto|]. intros [[c n]|] Hoc; [|apply Ext_refl; auto].
  destruct (char_is_name_start c); [|apply err_from_safe].
  eapply safe_bind; [eapply advance_char; eauto|]. intros s1 H1. cbv beta.
  eapply safe_mono; [apply skip_name_loop_safe; apply H1|]. intros s2 H2. eapply Ext_trans; eauto.
Qed.

Lemma consume_name_safe s : SInv s ->
  safe (consume_name text s)
       (fun '(sl, s') => Ext s s' /\ sl = {| sl_start := s_pos s; sl_end := s_pos s' |}).
Proof.
  intros Hs. unfold consume_name.
  eapply safe_bind; [apply skip_name_safe; auto|]. intros s1 H1. cbv beta.
  eapply safe_bind; [apply slice_back_safe; try apply H1; apply Hs|]. intros sl ->.
  destruct (slice_len _ =? 0); [apply err_from_safe|]. cbn. auto.
Qed.

(* ---- qualified names ---- *)

Definition SplOk (start : N) (s : stream) (spl : option N) : Prop :=
  match spl with
  | None => True
  | Some sp => Bd sp /\ Bd (sp + 1) /\ start <= sp /\ sp + 1 <= s_pos s
  end.

Lemma SplOk_mono start s s' spl : SplOk start s spl -> s_pos s <= s_pos s' -> SplOk start s' spl.
Proof.
  clear Hvalid. destruct spl; cbn; auto. intros (H1 & H2 & H3 & H4) H. repeat split; auto; try apply H1; try apply H2; lia. Qed.

Lemma consume_qname_loop_safe start : forall fu spl s, SInv s -> SplOk start s spl -> start <= s_pos s ->
  safe (consume_qname_loop text fu start spl s) (fun '(spl', s') => Ext s s' /\ SplOk start s' spl').
Proof.
  induction fu; intros spl s Hs Hspl Hst; cbn [consume_qname_loop]; [exact I|].
  destruct (at_end s) eqn:E. { cbn. split; auto using Ext_refl. }
  eapply safe_bind; [apply curr_byte_unchecked_safe; auto; apply Hs|].
  intros x (r & Hr & Hlt). cbv beta.
  assert (Hloop : forall spl' s1, Ext s s1 -> SplOk start s1 spl' ->
            safe (consume_qname_loop text fu start spl' s1)
                 (fun '(spl', s') => Ext s s' /\ SplOk start s' spl')).
  { intros spl' s1 H1 Hs1. eapply safe_mono; [apply IHfu; auto; try apply H1|].
    - destruct H1 as (_ & H1 & _). lia.
    - intros [spl2 s2] [H2 H3]. split; auto. eapply Ext_trans; eauto. }
  destruct (x <? 128) eqn:Ex.
  - destruct (x =? 58) eqn:E58.
    + destruct spl as [sp|]; [apply err_from_safe|].
      eapply safe_bind_eq; [eapply advance1_safe; eauto|]. intros s1 Eadv H1. cbv beta.
      apply Hloop; auto. cbn. pose proof H1 as (Hi1 & Hp1 & He1).
      assert (Hb1 : Bd (s_pos s + 1)).
      { destruct Hs as [(Hr0 & _) Hb]. rewrite Hr0 in Hr.
        eapply (Boundary_ascii_step text Hvalid); eauto. }
      repeat split; try apply Hs; try apply Hb1; auto.
      apply advance_pos in Eadv as [Eadv _]. lia.
    + destruct (byte_is_name x); [|cbn; split; auto using Ext_refl].
      eapply safe_bind; [eapply advance1_safe; eauto|]. intros s1 H1. cbv beta.
      apply Hloop; auto. eapply SplOk_mono; eauto. apply H1.
  - eapply safe_bind; [apply next_char_safe; auto|].
    intros [[c n]|] Hoc; [|cbn; split; auto using Ext_refl].
    destruct (char_is_name c); [|cbn; split; auto using Ext_refl].
    eapply safe_bind; [eapply advance_char; eauto|]. intros s1 H1. cbv beta.
    apply Hloop; auto. eapply SplOk_mono; eauto. apply H1.
Qed.

Lemma consume_qname_safe s : SInv s ->
  safe (consume_qname text s) (fun '(p, l, s') => Ext s s' /\ slice_len l <> 0).
Proof.
  intros Hs. unfold consume_qname.
  eapply safe_bind; [apply consume_qname_loop_safe; auto; [exact I|lia]|].
  intros [spl s1] [H1 Hspl]. cbv beta iota.
  pose proof Hs as [_ Hb]. pose proof H1 as ([_ Hb1] & Hle & _).
  eapply safe_bind.
  - instantiate (1 := fun _ => True). destruct spl as [sp|].
    + destruct Hspl as (B1 & B2 & L1 & L2).
      eapply safe_bind; [apply mk_slice_safe; auto|]. intros p _.
      eapply safe_bind; [apply slice_back_safe; auto; apply H1|]. intros l _. exact I.
    + eapply safe_bind; [apply slice_back_safe; auto; apply H1|]. intros l _.
      eapply safe_bind; [apply mk_slice_safe; auto; lia|]. intros p _. exact I.
  - intros [p l] _. cbv beta iota.
    destruct (negb (slice_len p =? 0) && negb (str_is_name_start (slice_bytes text p)));
      [apply err_from_safe|].
    destruct (negb (str_is_name_start (slice_bytes text l))) eqn:El; [apply err_from_safe|].
    cbn. split; [exact H1|]. intros Hz. unfold slice_len in Hz.
    unfold slice_bytes, sub in El. rewrite Hz in El. cbn in El. discriminate.
Qed.

Lemma consume_eq_safe s : SInv s -> safe (consume_eq text s) (Ext s).
Proof.
  intros Hs. unfold consume_eq. pose proof (skip_spaces_safe s Hs) as H1.
  eapply safe_bind; [apply consume_byte_safe; [apply H1|reflexivity]|]. intros s2 H2. cbn.
  eapply Ext_trans; [eauto|]. eapply Ext_trans; [eauto|]. apply skip_spaces_safe. apply H2.
Qed.

Lemma consume_quote_safe s : SInv s ->
  safe (consume_quote text s) (fun '(q, s') => Ext s s' /\ ascii q = true /\ s_pos s < s_pos s').
Proof.
  intros Hs. unfold consume_quote.
  eapply safe_bind; [apply curr_byte_safe; apply Hs|]. intros x (r & Hr & Hlt). cbv beta.
  destruct ((x =? 39) || (x =? 34)) eqn:E; [|apply err_at_safe; auto].
  assert (Hx : ascii x = true) by (unfold ascii; lia).
  eapply safe_bind_eq; [eapply advance1_safe; eauto|]. intros s1 Ea H1. cbn.
  apply advance_pos in Ea as [Ea _]. repeat split; auto; try apply H1. lia.
Qed.

(* ---- is_xml_str ---- *)

Lemma is_xml_str_ascii_safe : forall l i, safe (is_xml_str_ascii text l i) (fun _ => True).
Proof.
  induction l as [|x l IH]; intros i; cbn [is_xml_str_ascii]; [exact I|].
  destruct (negb (byte_is_char x)); [apply err_from_safe|apply IH].
Qed.

Lemma sub_skip a e n : (a + n <= e) ->
  skipn (N.to_nat n) (sub text a e) = sub text (a + n) e.
Proof.
  clear Hvalid.
  intros H. unfold sub. rewrite skipn_firstn_comm, skipn_skipn'. f_equal; [lia|f_equal; lia].
Qed.

Lemma is_xml_str_unicode_safe : forall fu a e, Bd a -> Bd e -> a <= e ->
  safe (is_xml_str_unicode text fu (sub text a e) a) (fun _ => True).
Proof.
  induction fu; intros a e Ha He Hae; cbn [is_xml_str_unicode]; [exact I|].
  destruct (sub text a e) as [|y l'] eqn:El; [exact I|]. rewrite <- El.
  assert (Hlt : a < e).
  { destruct (N.eq_dec a e) as [->|]; [|lia]. unfold sub in El.
    rewrite N.sub_diag in El. discriminate. }
  destruct (char_step text Hvalid a e Ha He Hlt) as (c & n & _ & Hn & Hle & Hb & Hf & _).
  unfold sub at 1. rewrite (Hf (N.to_nat (e - a))) by lia.
  destruct (negb (char_is_char c)); [apply err_from_safe|].
  rewrite sub_skip by lia. apply IHfu; auto.
Qed.

Lemma is_xml_str_safe a e : Bd a -> Bd e -> a <= e ->
  safe (is_xml_str text {| sl_start := a; sl_end := e |} a) (fun _ => True).
Proof.
  intros. unfold is_xml_str, slice_bytes. cbn [sl_start sl_end].
  destruct (forallb _ _); [apply is_xml_str_ascii_safe|apply is_xml_str_unicode_safe; auto].
Qed.


(* ---- sub-streams (entity values, attribute values, text ranges) ---- *)

Definition SliceOk (sl : slice) : Prop :=
  Bd (sl_start sl) /\ Bd (sl_end sl) /\ sl_start sl <= sl_end sl.

Lemma stream_from_substr_safe a e : Bd a -> Bd e -> a <= e ->
  safe (stream_from_substr text a e)
       (fun s => SInv s /\ s_pos s = a /\ s_end s = e).
Proof.
  clear Hvalid.
  intros Ha He Hae. pose proof (proj2 He) as Hel. unfold stream_from_substr, tlen.
  destruct ((e <? a) || (blen text <? e)) eqn:E; [lia|]. cbn.
  unfold SInv, SInv0. cbn [s_pos s_end s_rest]. repeat split; auto; try apply Ha; try apply He.
Qed.

(* ---- references ---- *)

Definition RefOk (r : reference) : Prop :=
  match r with RefChar c => is_scalar c = true | RefEntity _ => True end.

Lemma consume_reference_safe s : SInv s ->
  safe (consume_reference text s)
       (fun o => match o with None => True | Some (r, s') => Ext s s' /\ RefOk r end).
Proof.
  intros Hs. unfold consume_reference.
  pose proof (try_consume_byte_safe 38 s Hs eq_refl) as H1.
  destruct (try_consume_byte 38 s) as [ok s1]. cbn [snd] in H1.
  destruct ok; cbn [negb]; [|exact I].
  pose proof (try_consume_byte_safe 35 s1 ltac:(apply H1) eq_refl) as H2.
  destruct (try_consume_byte 35 s1) as [is_num s2]. cbn [snd] in H2.
  assert (H12 : Ext s s2) by (eapply Ext_trans; eauto).
  eapply safe_bind with (Q := fun o => match o with None => True
                                       | Some (r, s') => Ext s s' /\ RefOk r end).
  { destruct is_num.
    - pose proof (try_consume_byte_safe 120 s2 ltac:(apply H2) eq_refl) as H3.
      destruct (try_consume_byte 120 s2) as [is_hex s3]. cbn [snd] in H3.
      eapply safe_bind.
      { apply (consume_bytes_ascii (if is_hex then is_ascii_hexdigit else is_ascii_digit) s3).
        - destruct is_hex; [apply is_ascii_hexdigit_ascii|apply is_ascii_digit_ascii].
        - apply H3. }
      intros [value s4] [H4 _]. cbv beta iota zeta.
      destruct (slice_bytes text value); [exact I|].
      destruct (u32_max <? _); [exact I|].
      match goal with |- context [char_is_char ?c] => destruct (char_is_char c) end; cbn [negb]; [|exact I].
      cbn. split.
      + eapply Ext_trans; [exact H12|]. eapply Ext_trans; eauto.
      + cbn [RefOk]. match goal with |- is_scalar (if is_scalar ?n then _ else _) = true =>
          destruct (is_scalar n) eqn:Es end; [exact Es|reflexivity].
    - pose proof (consume_name_safe s2 ltac:(apply H2)) as Hn.
      destruct (consume_name text s2) as [[name s3]|e|p|]; cbn in Hn; try exact I; [|contradiction].
      destruct Hn as [H3 _]. cbn. split; [eapply Ext_trans; eauto|].
      repeat match goal with |- context [if ?c then _ else _] => destruct c end; cbn; auto. }
  intros [[r s3]|] Hr; [|exact I]. destruct Hr as [H3 Hr].
  pose proof (consume_byte_safe 59 s3 ltac:(apply H3) eq_refl) as H4.
  destruct (consume_byte text 59 s3) as [s4|e|p|]; cbn in H4; try exact I; [|contradiction].
  cbn. split; auto. eapply Ext_trans; eauto.
Qed.

End WithText.
