(* Proofs/DefaultText.v -- C16: without entities, decoding never lengthens.  The per-token
   length lemmas (text, CDATA, attribute value) and the callback invariant CInv. *)
From Coq Require Import List NArith Bool Lia ZifyBool ZifyN ZifyNat.
Import ListNotations.
From RX Require Import Generated.
From RX.Model Require Import Base CharClass Stream Tokenizer Doc Builder Parse.
From RX.Proofs Require Import TermStream TermTokenizer TermBuilder TermParse.
From RX.Proofs Require Import DefaultTokenizer DefaultContent.
Open Scope N_scope.

(* ---- the text buffer: bytes it will hold when finished ---- *)
Definition tbm (t : text_buffer) : N := blen (tb_buf t) + (if tb_pending_cr t then 1 else 0).

Lemma tbm_new : tbm tb_new = 0.
Proof. reflexivity. Qed.

Lemma tb_push_from_attr_le x nx t : tbm (tb_push_from_attr x nx t) <= tbm t + 1.
Proof.
  unfold tb_push_from_attr, tbm. destruct (_ && _); [lia|].
  cbn [tb_buf tb_pending_cr]. rewrite blen_app. cbn. lia.
Qed.

Lemma tb_push_raw_eq x t : tbm (tb_push_raw x t) = tbm t + 1.
Proof.
  unfold tb_push_raw, tb_flush, tbm. destruct (tb_pending_cr t); cbn [tb_buf tb_pending_cr];
    rewrite ?blen_app; cbn; lia.
Qed.

Lemma tb_push_from_text_le x t : tbm (tb_push_from_text x t) <= tbm t + 1.
Proof.
  unfold tb_push_from_text, tbm. destruct (tb_pending_cr t) eqn:Ep.
  - destruct (x =? 10); cbn [tb_buf tb_pending_cr]; [rewrite blen_app; cbn; lia|].
    destruct (x =? 13); cbn [tb_buf tb_pending_cr]; rewrite ?blen_app; cbn; lia.
  - destruct (x =? 13); cbn [tb_buf tb_pending_cr]; rewrite ?Ep, ?blen_app; cbn; lia.
Qed.

Lemma push_char_bytes_text_false bs : forall t,
  tbm (push_char_bytes_text bs false t) = tbm t + blen bs.
Proof.
  induction bs as [|x bs IH]; intros t; cbn [push_char_bytes_text]; [cbn; lia|].
  rewrite IH, tb_push_raw_eq. unfold blen. cbn [length]. lia.
Qed.

Lemma push_char_bytes_attr_false bs : forall t t',
  push_char_bytes_attr bs false t = Some t' -> tbm t' = tbm t + blen bs.
Proof.
  induction bs as [|x bs IH]; intros t t' H; cbn [push_char_bytes_attr] in H.
  - injection H as <-. cbn; lia.
  - apply IH in H. rewrite H, tb_push_raw_eq. unfold blen. cbn [length]. lia.
Qed.

Lemma tb_finish_len t : good (fun bs => blen bs = tbm t) (tb_finish t).
Proof.
  unfold tb_finish, tb_flush, tbm. destruct (tb_pending_cr t); cbn [tb_buf];
    destruct (valid_utf8_b _); cbn [good]; rewrite ?blen_app; cbn; lia.
Qed.

Lemma encode_len c : 1 <= blen (encode_utf8 c) <= 4.
Proof.
  unfold encode_utf8. destruct (c <? 128); [cbn; lia|]. destruct (c <? 2048); [cbn; lia|].
  destruct (c <? 65536); cbn; lia.
Qed.

Lemma sub_len t a e : blen (sub t a e) <= e - a.
Proof. unfold sub, blen. pose proof (firstn_le_length (N.to_nat (e - a)) (skipn (N.to_nat a) t)). lia. Qed.

Lemma sub_nonempty t a e x r : sub t a e = x :: r -> a < e.
Proof.
  unfold sub. intros H. destruct (N.to_nat (e - a)) eqn:E; [discriminate|]. lia.
Qed.

Lemma cdata_norm_len n : forall l, (length l <= n)%nat -> (length (cdata_norm l) <= length l)%nat.
Proof.
  induction n as [|n IH]; intros l Hl.
  - destruct l; [cbn; lia|cbn in Hl; lia].
  - destruct l as [|x r]; [cbn; lia|]. cbn [cdata_norm]. cbn [length] in Hl.
    destruct (x =? 13).
    + destruct r as [|y r']; [cbn; lia|]. cbn [length] in *.
      destruct (y =? 10); cbn [length].
      * specialize (IH r' ltac:(lia)). lia.
      * specialize (IH (y :: r') ltac:(cbn [length]; lia)). cbn [length] in IH. lia.
    + cbn [length]. specialize (IH r ltac:(lia)). lia.
Qed.

Section WithText.
Variable text : bytes.
Hypothesis Hsafe : safe text.

Notation Phi := (Phi text).
Notation base := (base text).
Notation run_ok := (run_ok text).

Lemma from_substr_pos a e :
  good (fun s => wf s /\ s_pos s = a /\ s_end s = e) (stream_from_substr text a e).
Proof.
  pose proof (from_substr_good text a e Hsafe) as H. unfold stream_from_substr in *.
  destruct (_ || _); [exact I|]. cbn [good s_pos s_end] in *. auto.
Qed.

(* ---- references: at least as many source bytes as decoded bytes ---- *)
Lemma consume_reference_len s : wf s ->
  good (fun o => match o with
                 | Some (RefChar c, s') => adv (blen (encode_utf8 c)) s s'
                 | Some (RefEntity _, s') => adv 1 s s'
                 | None => True
                 end) (consume_reference text s).
Proof.
  intros W. unfold consume_reference.
  pose proof (try_consume_byte_adv 38 s W) as H1.
  destruct (try_consume_byte 38 s) as [ok s1]. cbn [fst snd] in H1.
  destruct ok; cbn [negb]; [|exact I].
  pose proof (try_consume_byte_adv 35 s1 (adv_wf _ _ _ H1)) as H2.
  destruct (try_consume_byte 35 s1) as [is_num s2]. cbn [fst snd] in H2.
  eapply good_bind with
    (Q := fun r => match r with
                   | Some (RefChar c, s3) => adv (blen (encode_utf8 c) - 1) s s3
                   | Some (RefEntity _, s3) => adv 1 s s3
                   | None => True end).
  - destruct is_num.
    + pose proof (try_consume_byte_adv 120 s2 (adv_wf _ _ _ H2)) as H3.
      destruct (try_consume_byte 120 s2) as [is_hex s3]. cbn [fst snd] in H3.
      eapply good_bind; [apply consume_bytes_pos; eapply adv_wf; eauto|].
      intros [value s4] [H4 [Hs He]]. cbn [fst snd] in *.
      destruct (slice_bytes text value) as [|d0 dr] eqn:Ed; [exact I|].
      apply sub_nonempty in Ed.
      destruct (u32_max <? _); [exact I|]. destruct (negb _); [exact I|].
      cbn [good].
      match goal with |- adv (blen (encode_utf8 ?c) - 1) _ _ => pose proof (encode_len c) end.
      destruct is_hex; solve_adv.
    + pose proof (consume_name_good text s2 (adv_wf _ _ _ H2)) as H3.
      destruct (consume_name text s2) as [[name s3]| | |]; cbn [good snd] in *;
        try exact I; try contradiction.
      repeat match goal with |- context [if ?b then _ else _] => destruct b end;
        cbn [good]; try (change (blen (encode_utf8 _) - 1) with 0); solve_adv.
  - intros [[[nm|c] s3]|] H3; [| |exact I].
    + pose proof (consume_byte_good text 59 s3 (adv_wf _ _ _ H3)) as H4.
      destruct (consume_byte text 59 s3); cbn [good] in *; try exact I; try contradiction.
      solve_adv.
    + pose proof (consume_byte_good text 59 s3 (adv_wf _ _ _ H3)) as H4.
      destruct (consume_byte text 59 s3); cbn [good] in *; try exact I; try contradiction.
      pose proof (encode_len c). solve_adv.
Qed.

Lemma parse_next_chunk_len s : wf s ->
  good (fun p => match fst p with
                 | ChByte _ => adv 1 s (snd p)
                 | ChChar cp => adv (blen (encode_utf8 cp)) s (snd p)
                 | ChText _ => False
                 end) (parse_next_chunk text s []).
Proof.
  intros W. unfold parse_next_chunk. gstep; [exact I|]. gb. gstep.
  - cbv zeta. eapply good_bind; [apply consume_reference_len; assumption|].
    intros [[[nm|c] s3]|] H3; cbn [find_entity]; vauto. exact H3.
  - gb. cbn [good fst snd]. assumption.
Qed.

(* ---- normalize_attribute without entities ---- *)
Lemma norm_loop_len rec fuel : forall s t ld, wf s -> ld_depth ld = 0 ->
  s_end s - s_pos s < N.of_nat fuel ->
  good (fun p => snd p = ld /\ tbm (fst p) <= tbm t + (s_end s - s_pos s))
       (norm_loop text rec [] fuel s t ld).
Proof.
  induction fuel; intros s t ld W Hd Hf; [lia|]. cbn [norm_loop].
  gstep; [cbn [good fst snd]; split; [reflexivity|lia]|].
  gb. gstep.
  - gstep; [vauto|]. gb.
    eapply good_weaken; [apply IHfuel; [eauto with good|assumption|pmeasure]|].
    intros [t' ld'] [H1 H2]. cbn [fst snd] in *. split; [assumption|].
    pose proof (tb_push_from_attr_le a (curr_byte_opt a0) t). pmeasure.
  - cbv zeta. eapply good_bind; [apply consume_reference_len; assumption|].
    intros [[[nm|c] s3]|] H3; cbn [find_entity]; [vauto| |vauto].
    rewrite Hd. change (0 <? 0) with false.
    destruct (push_char_bytes_attr (encode_utf8 c) false t) as [t1|] eqn:Ep; [|vauto].
    apply push_char_bytes_attr_false in Ep.
    eapply good_weaken; [apply IHfuel; [eauto with good|assumption|]|].
    + pose proof (encode_len c). pmeasure.
    + intros [t' ld'] [H1 H2]. cbn [fst snd] in *. split; [assumption|]. pmeasure.
Qed.

Lemma norm_attr_len lvl v t ld : ld_depth ld = 0 ->
  good (fun p => snd p = ld /\ tbm (fst p) <= tbm t + (sl_end v - sl_start v))
       (norm_attr_lvl text (S lvl) [] v t ld).
Proof.
  intros Hd. rewrite norm_attr_lvl_S.
  eapply good_bind; [apply from_substr_pos|]. intros s0 [W [Hp He]].
  eapply good_weaken; [apply norm_loop_len; [assumption|assumption|apply fuel_enough; assumption]|].
  intros [t' ld'] [H1 H2]. cbn [fst snd] in *. split; [assumption|]. rewrite Hp, He in H2. exact H2.
Qed.

Lemma slice_bytes_len v : blen (slice_bytes text v) <= sl_end v - sl_start v.
Proof. apply sub_len. Qed.

Lemma normalize_attribute_ok v c : c_entities c = [] -> ld_depth (c_ld c) = 0 ->
  good (fun p => blen (storage_bytes text (fst p)) <= sl_end v - sl_start v /\ samev c (snd p))
       (normalize_attribute text v c).
Proof.
  intros He Hd. unfold normalize_attribute. gstep.
  - rewrite He. change entity_levels with (S 11).
    eapply good_bind; [apply norm_attr_len; exact Hd|]. intros [t ld] [H1 H2]. cbn [fst snd] in *.
    subst ld. eapply good_bind; [apply tb_finish_len|]. intros bs Hb. cbn [good fst snd storage_bytes].
    split; [rewrite Hb; rewrite tbm_new in H2; lia|]. repeat split; reflexivity.
  - cbn [good fst snd storage_bytes str_bytes]. split; [apply slice_bytes_len|apply samev_refl].
Qed.

Lemma process_attribute_ok r q e p l v c : c_entities c = [] -> ld_depth (c_ld c) = 0 ->
  good (fun c' => kinds c' = kinds c /\ c_after_text c' = c_after_text c /\ eld c c' /\
                  base c' <= base c + (sl_end v - sl_start v))
       (process_attribute text r q e p l v c).
Proof.
  intros He Hd. unfold process_attribute.
  eapply good_bind; [apply normalize_attribute_ok; assumption|].
  intros [v' c1] [Hl [Hk [Ha [Hc [Ht Hel]]]]]. cbn [fst snd] in *.
  assert (Hb : base c1 = base c).
  { unfold DefaultContent.base. rewrite Hk, Ha, Hc. reflexivity. }
  pose proof (push_ns_keepd text) as Hpush. pose proof (ns_exists_good text) as Hex.
  vauto.
  all: unfold keepd, DefaultContent.base, kinds, eld in *;
       cbn [c_doc c_cur_attrs c_after_text c_entities c_ld set_doc set_cur_attrs] in *; destruct_conj;
       rewrite ?cur_len_app, ?cur_len_cons; cbn [ta_value]; change (cur_len text []) with 0;
       repeat match goal with
              | H : d_nodes ?x = _ |- _ => rewrite H in *
              | H : d_attrs ?x = _ |- _ => rewrite H in *
              end;
       repeat split; try congruence; lia.
Qed.

(* ---- CDATA ---- *)
Lemma process_cdata_ok t r c : run_ok c ->
  good (fun c' => run_ok c' /\ eld c c' /\ Phi c' <= Phi c + (sl_end t - sl_start t))
       (process_cdata text t r c).
Proof.
  intros Hr. unfold process_cdata. pose proof (slice_bytes_len t) as Hl. cbv zeta. destruct (mem_b 13 _).
  - eapply good_weaken; [apply (append_text_ok text); assumption|].
    intros c' [H1 [H2 H3]]. split; [assumption|split; [assumption|]].
    cbn [cow_bytes] in H3.
    pose proof (cdata_norm_len _ (slice_bytes text t) (le_n _)). unfold blen in *. lia.
  - eapply good_weaken; [apply (append_text_ok text); assumption|].
    intros c' [H1 [H2 H3]]. split; [assumption|split; [assumption|]].
    cbn [cow_bytes] in H3. lia.
Qed.

(* ---- process_text without entities ---- *)
Lemma ptext_loop_len pc r fuel : forall s buf c, wf s -> c_entities c = [] ->
  ld_depth (c_ld c) = 0 -> s_end s - s_pos s < N.of_nat fuel ->
  good (fun p => snd p = c /\ tbm (fst p) <= tbm buf + (s_end s - s_pos s))
       (ptext_loop text pc r fuel s buf c).
Proof.
  induction fuel; intros s buf c W He Hd Hf; [lia|]. cbn [ptext_loop].
  gstep; [cbn [good fst snd]; split; [reflexivity|lia]|].
  rewrite He. eapply good_bind; [apply parse_next_chunk_len; assumption|].
  intros [[x|cp|v] s1] H1; cbn [fst snd] in H1; [| |contradiction].
  - eapply good_weaken; [apply IHfuel; [eauto with good|assumption|assumption|pmeasure]|].
    intros [b' c'] [H2 H3]. cbn [fst snd] in *. split; [assumption|].
    pose proof (tb_push_from_text_le x buf). pmeasure.
  - rewrite Hd. change (0 <? 0) with false.
    eapply good_weaken; [apply IHfuel; [eauto with good|assumption|assumption|]|].
    + pose proof (encode_len cp). pmeasure.
    + intros [b' c'] [H2 H3]. cbn [fst snd] in *. split; [assumption|].
      rewrite push_char_bytes_text_false in H3. pmeasure.
Qed.

Lemma process_text_with_ok pc t r c : c_entities c = [] -> ld_depth (c_ld c) = 0 -> run_ok c ->
  good (fun c' => run_ok c' /\ eld c c' /\
                  Phi c' <= Phi c + N.max (sl_end t - sl_start t) (snd r - fst r))
       (process_text_with text pc t r c).
Proof.
  intros He Hd Hr. rewrite process_text_with_eq. cbv zeta. gstep.
  - eapply good_weaken; [apply (append_text_ok text); assumption|].
    intros c' [H1 [H2 H3]]. split; [assumption|split; [assumption|]].
    cbn [cow_bytes] in H3. pose proof (slice_bytes_len t).
    pose proof (N.le_max_l (sl_end t - sl_start t) (snd r - fst r)). lia.
  - eapply good_bind; [apply from_substr_pos|]. intros s0 [W [Hp Hen]].
    eapply good_bind; [apply ptext_loop_len; [assumption|assumption|assumption|apply fuel_enough; assumption]|].
    intros [buf c1] [H1 H2]. cbn [fst snd] in *. subst c1. rewrite tbm_new, Hp, Hen in H2.
    gstep.
    + eapply good_bind; [apply tb_finish_len|]. intros bs Hb. cbv beta in Hb.
      eapply good_weaken; [apply (append_text_ok text); assumption|].
      intros c' [H3 [H4 H5]]. split; [assumption|split; [assumption|]].
      cbn [cow_bytes] in H5. pose proof (N.le_max_r (sl_end t - sl_start t) (snd r - fst r)). lia.
    + cbn [good]. split; [assumption|]. split; [split; reflexivity|lia].
Qed.

(* ---- the invariant of the callback ---- *)
Definition CInv (p : N) (c : context) : Prop :=
  c_entities c = [] /\ ld_depth (c_ld c) = 0 /\ run_ok c /\ Phi c <= p.

Lemma CInv_mono p q c : p <= q -> CInv p c -> CInv q c.
Proof. unfold CInv. intros H [H1 [H2 [H3 H4]]]. repeat split; try assumption. lia. Qed.

Lemma run_ok_nil c : c_after_text c = [] -> run_ok c.
Proof. unfold DefaultContent.run_ok. intros ->. exact I. Qed.

Lemma Phi_nil c : c_after_text c = [] -> Phi c = base c.
Proof. unfold DefaultContent.Phi. intros ->. cbn [tl]. change (frags_len text []) with 0. lia. Qed.

Lemma token_with_ok ptext tk c p q :
  (forall t r c, c_entities c = [] -> ld_depth (c_ld c) = 0 -> run_ok c ->
     good (fun c' => run_ok c' /\ eld c c' /\
                     Phi c' <= Phi c + N.max (sl_end t - sl_start t) (snd r - fst r)) (ptext t r c)) ->
  tok_in False tk p q -> CInv p c -> good (CInv q) (token_with text ptext tk c).
Proof.
  intros Hp [Hpq Htk] [He [Hd [Hr HP]]]. unfold token_with. destruct tk.
  - (* PI *)
    eapply good_bind; [apply reset_after_text_ok; exact Hr|]. intros c1 [Ht1 [[He1 Hl1] HP1]].
    eapply good_bind; [apply append_node_view|]. intros [i c2] [Hk [Ha [Hc [Ht [He2 Hl2]]]]].
    cbn [good fst snd] in *. unfold CInv.
    assert (Ht2 : c_after_text c2 = []) by congruence.
    split; [congruence|]. split; [congruence|]. split; [apply run_ok_nil; assumption|].
    rewrite (Phi_nil c2 Ht2). rewrite (Phi_nil c1 Ht1) in HP1.
    unfold DefaultContent.base in *. rewrite Hk, Ha, Hc, kinds_len_app, kinds_len_cons.
    cbn [klen]. change (kinds_len text []) with 0. lia.
  - (* Comment *)
    eapply good_bind; [apply reset_after_text_ok; exact Hr|]. intros c1 [Ht1 [[He1 Hl1] HP1]].
    eapply good_bind; [apply append_node_view|]. intros [i c2] [Hk [Ha [Hc [Ht [He2 Hl2]]]]].
    cbn [good fst snd] in *. unfold CInv.
    assert (Ht2 : c_after_text c2 = []) by congruence.
    split; [congruence|]. split; [congruence|]. split; [apply run_ok_nil; assumption|].
    rewrite (Phi_nil c2 Ht2). rewrite (Phi_nil c1 Ht1) in HP1.
    unfold DefaultContent.base in *. rewrite Hk, Ha, Hc, kinds_len_app, kinds_len_cons.
    cbn [klen]. change (kinds_len text []) with 0. lia.
  - (* EntityDecl *) contradiction.
  - (* ElementStart *)
    eapply good_bind; [apply reset_after_text_ok; exact Hr|]. intros c1 [Ht1 [[He1 Hl1] HP1]].
    gstep; [apply good_err_from|]. cbn [good]. unfold CInv, DefaultContent.run_ok, DefaultContent.Phi,
      DefaultContent.base, kinds in *.
    cbn [c_entities c_ld c_after_text c_doc c_cur_attrs set_tag_name] in *.
    rewrite Ht1 in *. repeat split; try congruence. lia.
  - (* Attribute *)
    eapply good_weaken; [apply process_attribute_ok; assumption|].
    intros c1 [Hk [Ht [[He1 Hl1] Hb]]]. unfold CInv.
    split; [congruence|]. split; [congruence|].
    split.
    + unfold DefaultContent.run_ok in *. rewrite Ht, Hk. exact Hr.
    + unfold DefaultContent.Phi in *. rewrite Ht. lia.
  - (* ElementEnd *)
    eapply good_bind; [apply reset_after_text_ok; exact Hr|]. intros c1 [Ht1 [[He1 Hl1] HP1]].
    eapply good_weaken; [apply process_element_ok|]. intros c2 [Ht2 [[He2 Hl2] Hb2]].
    rewrite Ht1 in Ht2. unfold CInv.
    split; [congruence|]. split; [congruence|]. split; [apply run_ok_nil; assumption|].
    rewrite (Phi_nil c2 Ht2). rewrite (Phi_nil c1 Ht1) in HP1. lia.
  - (* Text *)
    eapply good_weaken; [apply Hp; assumption|]. intros c1 [Hr1 [[He1 Hl1] HP1]]. unfold CInv.
    split; [congruence|]. split; [congruence|]. split; [assumption|]. cbn [fst snd] in *. lia.
  - (* Cdata *)
    eapply good_weaken; [apply process_cdata_ok; assumption|]. intros c1 [Hr1 [[He1 Hl1] HP1]].
    unfold CInv. split; [congruence|]. split; [congruence|]. split; [assumption|]. lia.
Qed.

Lemma token_ok tk c p q : tok_in False tk p q -> CInv p c -> good (CInv q) (token text tk c).
Proof.
  unfold token, process_text. apply token_with_ok.
  intros t r c0. apply process_text_with_ok.
Qed.

End WithText.
