(* Proofs/CstEntCItems.v -- C07 with content entities: parse_content_loop, with the callback of any level and on a
   stream over any part of the input, on the rendering of the items of Spec/CstEnt.v: the rows
   appended are those of what the items are inlined to, read from left to right with the run of
   character data that is still open (Proofs/CstEntCSem.v, CstEntCText.v). *)
From Coq Require Import Ascii String.
From Coq Require Import List NArith PeanoNat Bool Lia ZifyBool ZifyN ZifyNat.
Import ListNotations.
From RX Require Import Generated.
From RX.Model Require Import Base CharClass Stream Tokenizer Doc Builder Parse.
From RX.Spec Require Cst CstText CstEnt Detector.
From RX.Spec Require Import Text.
From RX.Proofs Require Import Tactics CstLex CstBuild CstTree CstItems CstDoc TextMachine TextMerge HoistProofs NoPanicUtf8 DetectorProofs.
From RX.Proofs Require Import CstTextSem CstTextLex CstTextBuild CstTextItems.
From RX.Proofs Require Import CstEntSem CstEntText CstEntAttr CstEntMeaning CstEntRun CstEntLex CstEntDtd CstEntBuild CstEntInline CstEntItems CstEntDoc CstEntMain.
From RX.Proofs Require Import CstEntCFloor CstEntCAttr CstEntCBuild CstEntCSem CstEntCLex CstEntCLex2 CstEntCLoop CstEntCText.
Open Scope N_scope.

(* ---- runs of items that are all character data ---- *)
Lemma walk_texts : forall its acc, forallb is_titext its = true -> walk acc its = ([], acc ++ pieces_of its).
Proof.
  induction its as [|i r IH]; intros acc H; [cbn [walk pieces_of]; rewrite app_nil_r; reflexivity|].
  cbn [forallb] in H. apply andb_true_iff in H. destruct H as [H1 H2]. destruct i as [|ps| |]; try discriminate.
  cbn [walk pieces_of]. rewrite IH by exact H2. rewrite app_assoc. reflexivity.
Qed.

Lemma inline_run_app tb m : forall a b0 its tr, E.inline_run tb m (a ++ b0) = Some (its, tr) ->
  exists ia tra ib trb, E.inline_run tb m a = Some (ia, tra) /\ E.inline_run tb m b0 = Some (ib, trb) /\
                        its = ia ++ ib /\ tr = tra ++ trb.
Proof.
  induction a as [|p a IH]; intros b0 its tr H.
  - exists [], [], its, tr. auto.
  - cbn [app E.inline_run] in *. destruct p as [q|n].
    + destruct (E.inline_run tb m (a ++ b0)) as [[i0 t0]|] eqn:Ea; [|discriminate]. cbn [E.obind fst snd] in H.
      injection H as <- <-. destruct (IH _ _ _ Ea) as (ia & tra & ib & trb & E1 & E2 & -> & ->).
      rewrite E1. cbn [E.obind fst snd]. exists (T.IText [q] :: ia), tra, ib, trb. auto.
    + destruct (E.lookup tb n) as [v|]; [|discriminate]. cbn [E.obind] in *.
      destruct (E.inline_run tb m (a ++ b0)) as [[i0 t0]|] eqn:Ea; [|discriminate]. cbn [E.obind fst snd] in H.
      injection H as <- <-. destruct (IH _ _ _ Ea) as (ia & tra & ib & trb & E1 & E2 & -> & ->).
      rewrite E1. cbn [E.obind fst snd]. eexists. eexists. exists ib, trb. split; [reflexivity|]. split; [exact E2|].
      split; [cbn [app]; rewrite <- app_assoc; reflexivity|]. cbn [app]. rewrite <- !app_assoc. reflexivity.
Qed.

(* a stretch without '&': the pieces are literals, inlined to themselves *)
Lemma inline_run_plain tb m : forall ps its tr, existsb (fun x => x =? 38) (E.r_epieces ps) = false ->
  Forall (ep_ok m) ps -> E.inline_run tb m ps = Some (its, tr) ->
  tr = [] /\ forallb is_titext its = true /\ chunks (pieces_of its) = map CLit (E.r_epieces ps) /\
  nomarks (pieces_of its) /\ (ps <> [] -> pieces_of its <> []).
Proof.
  induction ps as [|p ps IH]; intros its tr Hn Hok Hin.
  - injection Hin as <- <-. repeat split; try constructor. congruence.
  - rewrite r_epieces_cons, existsb_app in Hn. apply orb_false_iff in Hn. destruct Hn as [Hn1 Hn2].
    apply Forall_cons_iff in Hok. destruct Hok as [Hp Hr].
    cbn [E.inline_run] in Hin. destruct p as [q|n]; [|cbn in Hn1; discriminate].
    destruct (E.inline_run tb m ps) as [[i0 t0]|] eqn:Er; [|discriminate]. cbn [E.obind fst snd] in Hin.
    injection Hin as <- <-. destruct (IH _ _ Hn2 Hr eq_refl) as (I1 & I2 & I3 & I4 & _).
    split; [exact I1|]. split; [exact I2|]. cbn [pieces_of app]. split; [|split; [|discriminate]].
    + unfold chunks in *. cbn [flat_map]. rewrite I3, r_epieces_cons, map_app. f_equal.
      destruct Hp as [Hv _]. destruct q as [bs|hex ds|e|bs]; cbn [T.wf_vpiece E.r_epiece T.r_piece T.piece_chunks] in *;
        try reflexivity; try discriminate.
    + constructor; [apply (ep_nonmark _ _ Hp)|exact I4].
Qed.

Section CItems.
Variable text : bytes.
Hypothesis Hascii : Forall (fun x => x < 128) text.
Variable decls : list E.edecl.
Variable es : list entity.
Hypothesis Henv : Forall2 (ent_ok text) decls es.
Hypothesis Hdecls : Forall decl_ok decls.
Hypothesis Hadjs : Forall decl_adj decls.
Hypothesis Hcont : Forall decl_cont decls.
Variable k : nat.
Hypothesis IHk : forall k', k = S k' -> forall cs, ItemsOK text es (E.level decls k') cs.

Notation tb := (E.level decls k).
Notation W := (CstLex.W text).
Notation evl := (CstEntCBuild.evl text).
Notation OR := (CstEntCText.OR es).
Notation Res := (CstEntCText.Res text es).
Notation SemI := (CstEntCText.SemI text).

(* ---- a text token ---- *)
Lemma tok_stretch_c l p more m c0 c frs acc L its tr ld' :
  W p (E.r_epieces l ++ more) -> Forall (ep_ok m) l -> l <> [] ->
  m = (0 <? ld_depth (c_ld c)) -> N.of_nat L + ld_depth (c_ld c) = 12 ->
  OR c0 c frs -> SemI frs acc -> bnd acc = true -> c_entity_floor c <= len_N (c_parent_prefixes c) ->
  E.inline_run tb m l = Some (its, tr) -> ld_run (c_ld c) tr = Some ld' ->
  Pok acc its -> Rooms c0 acc its ->
  exists c0' c' frs' K ext,
    evl L (TText (sl p (p + blen (E.r_epieces l))) (p, p + blen (E.r_epieces l))) c = Ok c' /\
    Res c0 c acc its ld' c0' c' frs' K ext.
Proof.
  intros HW Hok Hne Hm Hlvl HO HS Hbnd Hfl Hin Hld HP HR.
  unfold CstEntCBuild.evl. cbn [token_with].
  rewrite process_text_with_unfold. unfold slice_bytes at 1. cbn [sl sl_start sl_end].
  rewrite (CstLex.W_sub _ _ _ _ HW).
  pose proof (CstLex.W_le _ _ _ (CstLex.W_app _ _ _ _ HW)) as Hle.
  destruct (existsb (fun x => (x =? 38) || (x =? 13)) (E.r_epieces l)) eqn:Efast; cbn [negb].
  - cbn [fst snd]. rewrite (stream_from_substr_W text p (E.r_epieces l) more HW). cbn [bind].
    destruct (TLc text Hascii decls es Henv Hdecls Hcont k IHk l [] [] m (p + blen (E.r_epieces l)) p more c0 c frs acc
                (S (length (s_rest (sst (p + blen (E.r_epieces l)) p (E.r_epieces l ++ more))))) L
                (p, p + blen (E.r_epieces l)) its tr ld')
      as (c0' & c' & frs' & K & ext & E' & HRes & _); try assumption; try reflexivity.
    + constructor.
    + constructor.
    + rewrite app_nil_r. exact HP.
    + rewrite app_nil_r. exact HR.
    + cbn [sst s_rest]. rewrite app_length. lia.
    + cbn [push_text_chunks] in E'. rewrite E'. exists c0', c', frs', K, ext. split; [reflexivity|].
      rewrite app_nil_r in HRes. exact HRes.
  - destruct (existsb_or_false _ _ _ Efast) as [E38 E13].
    destruct (inline_run_plain tb m l its tr E38 Hok Hin) as (-> & Htx & Hch & Hnm & Hpne).
    cbn [ld_run] in Hld. injection Hld as <-.
    set (g := pieces_of its) in *.
    assert (Ew : walk acc its = ([], acc ++ g)) by (apply walk_texts; exact Htx).
    destruct HO as [A1 A2 A3 A4 A5 A6].
    assert (Hcr : E.crlf_split_ok (acc ++ g) = true) by (destruct HP as [_ X]; rewrite Ew in X; exact X).
    destruct (run_append (CowBorrowed (sl p (p + blen (E.r_epieces l)))) (p, p + blen (E.r_epieces l)) c0 c frs A5 A1)
      as (c' & Ea & HRa & La1 & La2 & La3); [|exact A2|].
    { intros Z0. destruct HR as [HR _]. rewrite Ew in HR. cbn [fst snd app] in HR. apply (node_room_room _ _ HR).
      unfold flush. rewrite all_marks_app, (proj1 (proj2 HS) Z0). cbn [andb].
      destruct (all_marks g) eqn:Em; [apply (nomarks_all g Hnm) in Em; exfalso; apply (Hpne Hne); exact Em|].
      cbn [map]. rewrite nsizes_cons, nsize_text. change (nsizes []) with 0. lia. }
    rewrite Ea. exists c0, c', (frs ++ [CowBorrowed (sl p (p + blen (E.r_epieces l)))]), [], []. split; [reflexivity|].
    unfold CstEntCText.Res. rewrite Ew. cbn [fst snd map tag_list nattrs_items length].
    split; [apply Step_refl|]. split.
    { constructor; try assumption. rewrite (Run_entities _ _ _ HRa). rewrite <- A6. symmetry. apply (Run_entities _ _ _ A5). }
    split.
    { apply SemI_ext; [exact HS| | |].
      - cbn [map concat cow_bytes]. rewrite app_nil_r. unfold slice_bytes. cbn [sl sl_start sl_end].
        rewrite (CstLex.W_sub _ _ _ _ HW). rewrite Hch, decode_lits, norm_eol_nocr by exact E13. reflexivity.
      - split; [discriminate|]. intros Em. apply (nomarks_all g Hnm) in Em. exfalso. apply (Hpne Hne). exact Em.
      - apply (nosplit_bnd acc g []); [exact Hbnd|rewrite app_nil_r; exact Hcr]. }
    split; [constructor|]. split; [reflexivity|]. split; [exact La1|]. split; [reflexivity|]. split; [exact La3|].
    unfold tn_set. rewrite La2. auto.
Qed.

(* ---- a CDATA section ---- *)
Lemma tok_cdata_c bs p post en tl c0 c frs acc L :
  CstEntCLex.W text en tl p (T.cdata_open ++ bs ++ n3 ++ post) ->
  OR c0 c frs -> SemI frs acc -> E.crlf_split_ok (acc ++ [T.PCData bs]) = true -> (frs = [] -> room c0) ->
  exists c',
    evl L (TCdata (sl (p + 9) (p + 9 + blen bs)) (p, p + 9 + blen bs + 3)) c = Ok c' /\
    Res c0 c acc [T.IText [T.PCData bs]] (c_ld c) c0 c' (frs ++ [if mem_b 13 bs then CowOwned (norm_eol bs) else CowBorrowed (sl (p + 9) (p + 9 + blen bs))]) [] [].
Proof.
  intros HW [A1 A2 A3 A4 A5 A6] HS Hcr Hroom.
  unfold CstEntCBuild.evl. cbn [token_with]. rewrite process_cdata_spec.
  pose proof (CstEntCLex.W_app text en tl _ _ _ HW) as HW1. change (blen T.cdata_open) with 9 in HW1.
  rewrite (CstEntCLex.W_slice text en tl _ _ _ HW1).
  set (t := if mem_b 13 bs then CowOwned (norm_eol bs) else CowBorrowed (sl (p + 9) (p + 9 + blen bs))).
  destruct (run_append t (p, p + 9 + blen bs + 3) c0 c frs A5 A1 Hroom A2) as (c' & Ea & HRa & La1 & La2 & La3).
  rewrite Ea. exists c'. split; [reflexivity|].
  unfold CstEntCText.Res. cbn [walk fst snd map tag_list nattrs_items length].
  split; [apply Step_refl|]. split.
  { constructor; try assumption. rewrite (Run_entities _ _ _ HRa). rewrite <- A6. symmetry. apply (Run_entities _ _ _ A5). }
  split.
  { apply SemI_ext; [exact HS| | |].
    - cbn [map concat]. rewrite app_nil_r. unfold chunks. cbn [flat_map T.piece_chunks]. rewrite app_nil_r.
      rewrite decode_ref_nil, decode_app_ref, decode_lits. change (decode_chunks []) with (@nil N). rewrite !app_nil_r.
      unfold t. destruct (mem_b 13 bs) eqn:E13; cbn [cow_bytes]; [reflexivity|].
      rewrite (CstEntCLex.W_slice text en tl _ _ _ HW1). rewrite mem_b_existsb in E13. rewrite norm_eol_nocr by exact E13. reflexivity.
    - split; discriminate.
    - unfold chunks at 2. cbn [flat_map T.piece_chunks]. rewrite andb_false_r. reflexivity. }
  split; [constructor|]. split; [reflexivity|]. split; [exact La1|]. split; [reflexivity|]. split; [exact La3|].
  unfold tn_set. rewrite La2. auto.
Qed.

(* ---- the segments of a run ---- *)
Definition eseg_wfm (m : bool) (s : eseg) : Prop :=
  eseg_wf s /\ match s with ESS l => Forall (ep_ok m) l | ESC _ => True end.

Definition seg_bnd (L : list eseg) (acc : list T.piece) : Prop :=
  match L with ESS _ :: _ => bnd acc = true | _ => True end.

Lemma segs_c post en tl : text_stop post ->
  forall L prev p m c0 c frs acc lvl depth fuel its tr ld',
  Forall (eseg_wfm m) L -> ealt (prev :: L) -> CstEntCLex.W text en tl p (flat_map r_eseg L ++ post) ->
  m = (0 <? ld_depth (c_ld c)) -> N.of_nat lvl + ld_depth (c_ld c) = 12 ->
  OR c0 c frs -> SemI frs acc -> seg_bnd L acc -> c_entity_floor c <= len_N (c_parent_prefixes c) ->
  E.inline_run tb m (flat_map seg_pieces L) = Some (its, tr) -> ld_run (c_ld c) tr = Some ld' ->
  Pok acc its -> Rooms c0 acc its ->
  exists c0' c' frs' K ext,
    parse_content_loop text context (evl lvl) (length L + fuel) depth (CstEntCLex.st en tl p (flat_map r_eseg L ++ post)) c =
    parse_content_loop text context (evl lvl) fuel depth (CstEntCLex.st en tl (p + blen (flat_map r_eseg L)) post) c' /\
    Res c0 c acc its ld' c0' c' frs' K ext.
Proof.
  intros Hpost. induction L as [|s L IH]; intros prev p m c0 c frs acc lvl depth fuel its tr ld'
    HF A HW Hm Hlvl HO HS Hb Hfl Hin Hld HP HR.
  - cbn [flat_map E.inline_run] in Hin. injection Hin as <- <-. cbn [ld_run] in Hld. injection Hld as <-.
    cbn [length flat_map app Nat.add]. rewrite blen_nil, N.add_0_r.
    exists c0, c, frs, [], []. split; [reflexivity|]. apply Res_nil; assumption.
  - apply Forall_cons_iff in HF. destruct HF as [[Hs Hsm] HL].
    assert (A' : ealt (s :: L)) by (destruct A as [_ A]; exact A).
    cbn [flat_map] in Hin, HW |- *. rewrite <- app_assoc in HW |- *.
    destruct (inline_run_app _ _ _ _ _ _ Hin) as (ia & tra & ib & trb & Ea & Eb & -> & ->).
    rewrite ld_run_app in Hld. destruct (ld_run (c_ld c) tra) as [ld1|] eqn:El1; [|discriminate].
    destruct (Pok_app _ _ _ HP) as [HPa HPb]. pose proof (Rooms_app_l _ _ _ _ HR) as HRa.
    cbn [length Nat.add].
    assert (Hstep : exists c0a ca frsa K1 e1,
              parse_content_loop text context (evl lvl) (S (length L + fuel)) depth (CstEntCLex.st en tl p (r_eseg s ++ flat_map r_eseg L ++ post)) c =
              parse_content_loop text context (evl lvl) (length L + fuel) depth (CstEntCLex.st en tl (p + blen (r_eseg s)) (flat_map r_eseg L ++ post)) ca /\
              Res c0 c acc ia ld1 c0a ca frsa K1 e1 /\ seg_bnd L (snd (walk acc ia))).
    { destruct s as [l|bs]; cbn [r_eseg seg_pieces] in *.
      - (* a stretch *)
        destruct (ess_bytes l Hs) as (Hbt & x & r & Ex & Hx60). destruct Hs as (Hne & _ & _ & Hn3).
        rewrite Ex in HW |- *. cbn [app] in HW |- *. rewrite (loop_text text en tl) by assumption.
        change (x :: r ++ flat_map r_eseg L ++ post) with ((x :: r) ++ flat_map r_eseg L ++ post) in *. rewrite <- Ex in *.
        assert (Hstop : text_stop (flat_map r_eseg L ++ post)).
        { destruct L as [|[l'|bs'] L']; cbn [flat_map app]; [exact Hpost| |reflexivity].
          destruct A' as [A' _]. specialize (A' eq_refl). discriminate. }
        rewrite (lex_text' text Hascii en tl) by assumption.
        destruct HW as [HWf HWe].
        rewrite <- app_assoc in HWf.
        destruct (tok_stretch_c l p _ m c0 c frs acc lvl ia tra ld1 HWf Hsm Hne Hm Hlvl HO HS Hb Hfl Ea El1 HPa HRa)
          as (c0a & ca & frsa & K1 & e1 & E1 & HRes1).
        rewrite E1. cbn [bind]. exists c0a, ca, frsa, K1, e1. split; [reflexivity|]. split; [exact HRes1|].
        destruct L as [|[l'|bs'] L']; [exact I| |exact I]. destruct A' as [A' _]. specialize (A' eq_refl). discriminate.
      - (* a CDATA section *)
        cbn [E.inline_run E.obind fst snd] in Ea. injection Ea as <- <-. cbn [ld_run] in El1. injection El1 as <-.
        destruct Hs as [H1 H2]. rewrite <- !app_assoc in HW |- *.
        rewrite (loop_cdata text en tl) by exact HW.
        change T.cdata_close with n3 in *.
        rewrite (lex_cdata text Hascii en tl) by assumption.
        destruct (tok_cdata_c bs p _ en tl c0 c frs acc lvl HW HO HS) as (ca & E1 & HRes1).
        { destruct HPa as [_ X]. cbn [walk snd] in X. exact X. }
        { intros Z0. destruct HRa as [X _]. cbn [walk fst snd app] in X. apply (node_room_room _ _ X).
          unfold flush. rewrite all_marks_app. change (all_marks [T.PCData bs]) with false. rewrite andb_false_r.
          cbn [map]. rewrite nsizes_cons, nsize_text. change (nsizes []) with 0. lia. }
        rewrite E1. cbn [bind]. eexists c0, ca, _, [], []. split.
        { f_equal. f_equal. rewrite !blen_app. change (blen T.cdata_open) with 9. change (blen n3) with 3. lia. }
        split; [exact HRes1|]. cbn [walk snd]. destruct L as [|[l'|bs'] L']; try exact I.
        cbn [seg_bnd]. rewrite bnd_snoc. reflexivity. }
    destruct Hstep as (c0a & ca & frsa & K1 & e1 & E1 & HRes1 & Hb1). rewrite E1.
    pose proof HRes1 as (S1 & O1 & M1 & F1 & Le1 & D1 & D1' & Fl1 & T1).
    destruct (IH s (p + blen (r_eseg s)) m c0a ca frsa (snd (walk acc ia)) lvl depth fuel ib trb ld' HL A')
      as (c0' & c' & frs' & K2 & e2 & E2 & HRes2); try assumption.
    + apply (CstEntCLex.W_app text en tl _ _ _ HW).
    + rewrite D1, D1'. exact Hm.
    + rewrite D1, D1'. exact Hlvl.
    + rewrite Fl1. rewrite (Run_pp _ _ _ (or_run _ _ _ _ O1)). destruct S1 as (_ & _ & ->).
      rewrite <- (Run_pp _ _ _ (or_run _ _ _ _ HO)). exact Hfl.
    + rewrite D1. exact Hld.
    + apply (Rooms_app_r _ _ _ _ _ _ _ _ _ _ _ _ _ HRes1 HR).
    + rewrite E2. exists c0', c', frs', (K1 ++ K2), (e1 ++ e2). split.
      { rewrite blen_app, N.add_assoc. reflexivity. }
      apply (Res_app _ _ _ _ _ _ _ _ _ _ _ _ _ _ _ _ _ _ _ HRes1 HRes2).
Qed.

(* ---- a token that is not character data closes the open run ---- *)
Lemma nattrs_flush acc : nattrs_items (map erase (flush acc)) = O.
Proof. unfold flush. destruct (all_marks acc); reflexivity. Qed.

Lemma flush_res c0 c frs acc : OR c0 c frs -> SemI frs acc ->
  exists cr Kt,
    reset_after_text text c = Ok cr /\ c_after_text cr = [] /\ Step c0 (sh cr) Kt [] /\ CI (sh cr) /\
    c_ld cr = c_ld c /\ c_tag_name cr = c_tag_name c /\ c_entity_floor cr = c_entity_floor c /\
    (forall A, Forall2 (km text A) Kt (tag_list (c_parent_id c0) (len_N (d_nodes (c_doc c0))) (map erase (flush acc)))) /\
    c_entities cr = es /\ c_parent_prefixes cr = c_parent_prefixes c.
Proof.
  intros [A1 A2 A3 A4 A5 A6] [S1 S2].
  destruct (flush_run text c0 c frs A1 A2 A3 A4 A5) as (cr & K & Er & Ar & St & Ir & L1 & L2 & L3 & HK).
  exists cr, K. repeat (split; [assumption|]).
  assert (Hent : c_entities cr = es /\ c_parent_prefixes cr = c_parent_prefixes c).
  { destruct (s_keep _ _ _ _ (proj1 St)) as (_ & _ & K3 & _). change (c_entities (sh cr)) with (c_entities cr) in K3.
    destruct St as (_ & _ & P2). change (c_parent_prefixes (sh cr)) with (c_parent_prefixes cr) in P2.
    rewrite K3, P2. rewrite <- (Run_entities _ _ _ A5), (Run_pp _ _ _ A5). auto. }
  split; [|exact Hent]. intros A. unfold flush. destruct frs as [|t0 rest].
  - subst K. rewrite (proj1 S2 eq_refl). constructor.
  - destruct HK as (stg & -> & Hb). destruct (all_marks acc) eqn:Em; [discriminate (proj2 S2 eq_refl)|].
    cbn [map erase tag_list tag app]. constructor; [|constructor]. split; [reflexivity|]. cbn [snd]. rewrite Hb. exact S1.
Qed.

Lemma Res_item c0 c frs acc cr Kt i' c' Kx ex ld' :
  OR c0 c frs ->
  Step c0 (sh cr) Kt [] -> c_ld cr = c_ld c -> c_entity_floor cr = c_entity_floor c -> c_tag_name cr = c_tag_name c ->
  (forall A, Forall2 (km text A) Kt (tag_list (c_parent_id c0) (len_N (d_nodes (c_doc c0))) (map erase (flush acc)))) ->
  Step (sh cr) (sh c') Kx ex -> CI (sh c') -> c_after_text c' = [] ->
  Forall2 (km text (d_attrs (c_doc c'))) Kx (tag_list (c_parent_id cr) (len_N (d_nodes (c_doc cr))) [erase i']) ->
  length ex = nattrs (erase i') -> is_titext i' = false ->
  c_ld c' = ld' -> ld_depth ld' = ld_depth (c_ld cr) -> c_entity_floor c' = c_entity_floor cr -> (tn_set cr -> tn_set c') ->
  Res c0 c acc [i'] ld' (sh c') c' [] (Kt ++ Kx) ex.
Proof.
  intros HO St L1 L3 L2 HKt Sx Ix Ax Fx Lx Hnt D1 D2 Fl Tn.
  unfold CstEntCText.Res. rewrite walk_nontext by exact Hnt. cbn [walk fst snd].
  split; [apply (Step_trans _ _ _ _ _ _ _ St Sx)|]. split.
  { constructor; try assumption; try reflexivity.
    - apply same_frame_sym. apply sh_frame.
    - destruct (s_keep _ _ _ _ (proj1 Sx)) as (_ & _ & K3 & _). destruct (s_keep _ _ _ _ (proj1 St)) as (_ & _ & K3' & _).
      change (c_entities (sh c')) with (c_entities c') in K3. change (c_entities (sh cr)) with (c_entities cr) in K3, K3'.
      rewrite K3, K3'. rewrite <- (Run_entities _ _ _ (or_run _ _ _ _ HO)). apply (or_es _ _ _ _ HO). }
  split; [apply SemI_nil|].
  pose proof (Step_nodes_len _ _ _ _ St) as Ln. rewrite (Forall2_len_N _ _ _ (HKt [])) in Ln. unfold len_N at 3 in Ln.
  rewrite tag_list_len in Ln. change (d_nodes (c_doc (sh cr))) with (d_nodes (c_doc cr)) in Ln.
  split.
  { rewrite map_app, tag_list_app. apply Forall2_app; [apply HKt|]. cbn [map].
    destruct St as (_ & P1 & _). change (c_parent_id (sh cr)) with (c_parent_id cr) in P1. rewrite P1, Ln in Fx. exact Fx. }
  split; [rewrite map_app, nattrs_items_app, nattrs_flush; cbn [map nattrs_items]; lia|].
  split; [exact D1|]. split; [rewrite D2, L1; reflexivity|]. split; [congruence|].
  intros T. apply Tn. unfold tn_set in *. rewrite L2. exact T.
Qed.

(* room for the rows of one item after the open run *)
Lemma room_after c0 cr Kt acc X : Step c0 (sh cr) Kt [] ->
  (forall A, Forall2 (km text A) Kt (tag_list (c_parent_id c0) (len_N (d_nodes (c_doc c0))) (map erase (flush acc)))) ->
  node_room c0 (nsizes (map erase (flush acc)) + X) -> node_room cr X.
Proof.
  intros St HKt NR.
  pose proof (Step_nodes_len _ _ _ _ St) as Ln. rewrite (Forall2_len_N _ _ _ (HKt [])) in Ln. unfold len_N at 3 in Ln.
  rewrite tag_list_len in Ln. change (d_nodes (c_doc (sh cr))) with (d_nodes (c_doc cr)) in Ln.
  pose proof (Step_opt _ _ _ _ (proj1 St)) as Lo. change (c_opt (sh cr)) with (c_opt cr) in Lo.
  unfold node_room in *. rewrite Ln, Lo. lia.
Qed.

(* ------------------------------------------------------------------------------------------ *)
(* items                                                                                      *)
(* ------------------------------------------------------------------------------------------ *)
Definition ItemOK (i : E.item) : Prop :=
  forall m en tl p post c0 c frs acc lvl depth fuel its tr ld',
    E.wf_item m i = true -> CstEntCLex.W text en tl p (E.r_item i ++ post) ->
    (E.is_text i = true -> text_stop post) ->
    OR c0 c frs -> SemI frs acc -> (E.is_text i = true -> bnd acc = true) ->
    m = (0 <? ld_depth (c_ld c)) -> N.of_nat lvl + ld_depth (c_ld c) = 12 ->
    c_entity_floor c <= len_N (c_parent_prefixes c) ->
    E.inline_item tb m i = Some (its, tr) -> ld_run (c_ld c) tr = Some ld' ->
    Pok acc its -> Rooms c0 acc its ->
    exists c0' c' frs' K ext,
      parse_content_loop text context (evl lvl) (esteps i + fuel) depth (CstEntCLex.st en tl p (E.r_item i ++ post)) c =
      parse_content_loop text context (evl lvl) fuel depth (CstEntCLex.st en tl (p + blen (E.r_item i)) post) c' /\
      Res c0 c acc its ld' c0' c' frs' K ext.

Lemma wf_epiece_mono q cd ch m p : E.wf_epiece q cd ch m p = true -> E.wf_epiece q cd ch false p = true.
Proof.
  destruct m; [|auto]. destruct p as [[bs|hex ds|e|bs]|n]; cbn [E.wf_epiece]; intros H; try exact H.
  all: rewrite !andb_true_iff in *; destruct H as [[A B0] _]; auto.
Qed.

Lemma esegs_wfm m ps : forallb (E.wf_epiece 60 true true m) ps = true -> E.no_adjacent_elit ps = true ->
  Forall (eseg_wfm m) (esegs ps).
Proof.
  intros Hw Ha.
  assert (Hw0 : forallb (E.wf_epiece 60 true true false) ps = true).
  { revert Hw. apply forallb_imp. intros p. apply wf_epiece_mono. }
  pose proof (esegs_wf ps Hw0 Ha) as HF. pose proof (esegs_flat ps) as Hflat.
  apply Forall_forall. intros s Hs. rewrite Forall_forall in HF. split; [apply HF; exact Hs|].
  destruct s as [l|bs]; [|exact I]. apply Forall_forall. intros p Hp.
  assert (Hin : In p ps).
  { rewrite <- Hflat. apply in_flat_map. exists (ESS l). split; [exact Hs|exact Hp]. }
  rewrite forallb_forall in Hw. specialize (Hw p Hin).
  destruct (HF _ Hs) as (_ & Hok & _). rewrite Forall_forall in Hok. specialize (Hok p Hp).
  destruct p as [[bs|hex ds|e|bs]|n]; cbn [E.wf_epiece ep_ok] in *.
  - rewrite !andb_true_iff in Hw. destruct Hw as [[_ H] H']. split; [exact H|]. intros ->. exact H'.
  - rewrite !andb_true_iff in Hw. destruct Hw as [[_ H] H']. split; [exact H|]. intros ->. exact H'.
  - split; [reflexivity|]. intros ->. reflexivity.
  - destruct Hok as [Hok _]. discriminate.
  - exact Hok.
Qed.

Lemma ItemOK_text ps : ItemOK (E.IText ps).
Proof.
  intros m en tl p post c0 c frs acc lvl depth fuel its tr ld' Hwf HW Hstop HO HS Hb Hm Hlvl Hfl Hin Hld HP HR.
  specialize (Hstop eq_refl). specialize (Hb eq_refl).
  cbn [E.wf_item E.r_item esteps E.inline_item] in *.
  unfold E.wf_epieces in Hwf. rewrite !andb_true_iff in Hwf. destruct Hwf as [Hne [Hw Hadj]].
  pose proof (esegs_wfm m ps Hw Hadj) as HF.
  rewrite <- (esegs_render ps) in HW |- *. rewrite <- (esegs_flat ps) in Hin.
  destruct (segs_c post en tl Hstop (esegs ps) (ESC []) p m c0 c frs acc lvl depth fuel its tr ld' HF)
    as (c0' & c' & frs' & K & ext & E' & HRes); try assumption.
  - apply ealt_sc. apply ealt_esegs.
  - destruct (esegs ps) as [|[l|bs] L]; try exact I. exact Hb.
  - exists c0', c', frs', K, ext. split; [exact E'|exact HRes].
Qed.

(* ---- comments and processing instructions ---- *)
Lemma walk_single acc i : is_titext i = false -> walk acc [i] = (flush acc ++ [i], []).
Proof. intros H. rewrite walk_nontext by exact H. reflexivity. Qed.

Lemma rooms_single c0 acc i cr Kt : is_titext i = false -> Rooms c0 acc [i] -> Step c0 (sh cr) Kt [] ->
  (forall A, Forall2 (km text A) Kt (tag_list (c_parent_id c0) (len_N (d_nodes (c_doc c0))) (map erase (flush acc)))) ->
  node_room cr (nsize (erase i)) /\ attr_room cr (nattrs (erase i)).
Proof.
  intros Hnt [NR AR] St HKt. rewrite walk_single in NR, AR by exact Hnt. cbn [fst snd flush all_marks forallb] in NR, AR.
  rewrite app_nil_r, map_app, nsizes_app in NR. cbn [map] in NR. rewrite nsizes_cons in NR. change (nsizes []) with 0 in NR.
  split; [apply (room_after c0 cr Kt acc _ St HKt); rewrite N.add_0_r in NR; exact NR|].
  rewrite map_app, nattrs_items_app, nattrs_flush in AR. cbn [map nattrs_items] in AR.
  pose proof (Step_attrs_len _ _ _ _ (proj1 St)) as La. change (len_N []) with 0 in La.
  change (d_attrs (c_doc (sh cr))) with (d_attrs (c_doc cr)) in La.
  unfold attr_room in *. rewrite La. lia.
Qed.

Lemma ItemOK_comment bs : ItemOK (E.IComment bs).
Proof.
  intros m en tl p post c0 c frs acc lvl depth fuel its tr ld' Hwf HW _ HO HS _ Hm Hlvl Hfl Hin Hld HP HR.
  cbn [E.inline_item] in Hin. injection Hin as <- <-. cbn [ld_run] in Hld. injection Hld as <-.
  assert (Hok : comment_ok bs) by (apply wf_comment; destruct m; exact Hwf).
  cbn [E.r_item Cst.r_item esteps Nat.add] in *. rewrite <- !app_assoc in HW |- *.
  rewrite (loop_comment text en tl) by exact HW.
  rewrite (CstEntCLex.lex_comment text Hascii en tl) by assumption.
  destruct (flush_res c0 c frs acc HO HS) as (cr & Kt & Er & Ar & St & Ir & L1 & L2 & L3 & HKt & _).
  rewrite (evl_reset text lvl (TComment (sl (p + 4) (p + 4 + blen bs)) (p, p + 4 + blen bs + 3)) c cr I Er Ar).
  destruct (rooms_single c0 acc (T.IComment bs) cr Kt eq_refl HR St HKt) as [NR _].
  destruct (tok_comment_g text lvl (sl (p + 4) (p + 4 + blen bs)) (p, p + 4 + blen bs + 3) cr Ir
              (node_room_room _ _ NR ltac:(unfold nsize; cbn; lia)))
    as (c' & E & S & I' & A & T & D & Fl).
  rewrite E. cbn [bind]. eexists (sh c'), c', [], _, []. split.
  { f_equal. f_equal. rewrite !blen_app. change (blen [60; 33; 45; 45]) with 4. change (blen [45; 45; 62]) with 3. lia. }
  apply (Res_item c0 c frs acc cr Kt (T.IComment bs) c' _ [] (c_ld c) HO St L1 L3 L2 HKt S I' A); try reflexivity; try congruence.
  - cbn [erase tag_list tag app]. constructor; [|constructor]. split; [reflexivity|]. cbn [snd].
    pose proof (CstEntCLex.W_app text en tl _ _ _ HW) as HW1. change (blen [60; 33; 45; 45]) with 4 in HW1.
    apply (CstEntCLex.W_slice text en tl _ _ _ HW1).
Qed.

Lemma ItemOK_pi t s0 v : ItemOK (E.IPI t s0 v).
Proof.
  intros m en tl p post c0 c frs acc lvl depth fuel its tr ld' Hwf HW _ HO HS _ Hm Hlvl Hfl Hin Hld HP HR.
  cbn [E.inline_item] in Hin. injection Hin as <- <-. cbn [ld_run] in Hld. injection Hld as <-.
  assert (Hok : pi_ok t s0 v) by (apply wf_pi; destruct m; exact Hwf).
  cbn [E.r_item Cst.r_item esteps Nat.add] in *. rewrite <- !app_assoc in HW |- *.
  rewrite (loop_pi text en tl) by exact HW.
  rewrite (CstEntCLex.lex_pi text Hascii en tl) by assumption. cbv zeta.
  set (vs := match v with [] => None | _ :: _ => Some (sl (p + 2 + blen t + blen s0) (p + 2 + blen t + blen s0 + blen v)) end).
  destruct (flush_res c0 c frs acc HO HS) as (cr & Kt & Er & Ar & St & Ir & L1 & L2 & L3 & HKt & _).
  rewrite (evl_reset text lvl (TPI (sl (p + 2) (p + 2 + blen t)) vs (p, p + 2 + blen t + blen s0 + blen v + 2)) c cr I Er Ar).
  destruct (rooms_single c0 acc (T.IPI t s0 v) cr Kt eq_refl HR St HKt) as [NR _].
  destruct (tok_pi_g text lvl (sl (p + 2) (p + 2 + blen t)) vs (p, p + 2 + blen t + blen s0 + blen v + 2) cr Ir
              (node_room_room _ _ NR ltac:(unfold nsize; cbn; lia)))
    as (c' & E & S & I' & A & T & D & Fl).
  rewrite E. cbn [bind]. eexists (sh c'), c', [], _, []. split.
  { f_equal. f_equal. rewrite !blen_app. change (blen [60; 63]) with 2. change (blen [63; 62]) with 2. lia. }
  apply (Res_item c0 c frs acc cr Kt (T.IPI t s0 v) c' _ [] (c_ld c) HO St L1 L3 L2 HKt S I' A); try reflexivity; try congruence.
  - cbn [erase tag_list tag app]. constructor; [|constructor]. split; [reflexivity|]. cbn [snd].
    pose proof (CstEntCLex.W_app text en tl _ _ _ HW) as HW1. change (blen [60; 63]) with 2 in HW1.
    split; [apply (CstEntCLex.W_slice text en tl _ _ _ HW1)|].
    pose proof (CstEntCLex.W_app text en tl _ _ _ HW1) as HW2. pose proof (CstEntCLex.W_app text en tl _ _ _ HW2) as HW3.
    unfold vs. destruct v as [|x v]; [exact Logic.I|]. apply (CstEntCLex.W_slice text en tl _ _ _ HW3).
Qed.

(* ---- elements ---- *)
Lemma evs_reset lvl tok r c cr : resets tok -> reset_after_text text c = Ok cr -> c_after_text cr = [] ->
  evs context (evl lvl) (tok :: r) c = evs context (evl lvl) (tok :: r) cr.
Proof. intros Ht E A. cbn [evs]. rewrite (evl_reset text lvl tok c cr Ht E A). reflexivity. Qed.

Lemma wf_elem_parts_g m name attrs ws body : E.wf_item m (E.IElem name attrs ws body) = true ->
  Cst.wf_name name = true /\ forallb (E.wf_attr m) attrs = true /\ forallb enot_xmlns attrs = true /\
  Cst.names_distinct (map E.a_name attrs) = true /\ Cst.wf_ws ws = true /\
  match body with
  | None => True
  | Some (cs, ws2) => Cst.wf_ws ws2 = true /\ E.no_adjacent_text cs = true /\ forallb (E.wf_item m) cs = true
  end.
Proof.
  rewrite wf_item_elem_gen, !andb_true_iff. intros [[[[[[H1 _] H2] H3] H4] H5] H6].
  repeat split; try assumption. destruct body as [[cs ws2]|]; [|exact Logic.I].
  rewrite !andb_true_iff in H6. tauto.
Qed.

Lemma raws_wf_g m attrs : forallb (E.wf_attr m) attrs = true -> Forall wf_rattr (map raw attrs).
Proof.
  intros Ha. apply Forall_forall. intros ra Hra. apply in_map_iff in Hra. destruct Hra as (a & <- & Hin).
  rewrite forallb_forall in Ha. apply (ewf_attr_parts_g m _ (Ha a Hin)).
Qed.

Lemma W_full en tl p r : CstEntCLex.W text en tl p r -> W p (r ++ tl).
Proof. intros [H _]. exact H. Qed.

Lemma elem_empty_c name attrs ws m en tl p post c0 c frs acc lvl its tr ld' :
  E.wf_item m (E.IElem name attrs ws None) = true ->
  CstEntCLex.W text en tl p (E.r_item (E.IElem name attrs ws None) ++ post) ->
  OR c0 c frs -> SemI frs acc ->
  m = (0 <? ld_depth (c_ld c)) ->
  E.inline_item tb m (E.IElem name attrs ws None) = Some (its, tr) -> ld_run (c_ld c) tr = Some ld' ->
  Pok acc its -> Rooms c0 acc its ->
  exists c0' c' frs' K ext,
    parse_element text context (evl lvl) (CstEntCLex.st en tl p (E.r_item (E.IElem name attrs ws None) ++ post)) c =
    Ok (false, CstEntCLex.st en tl (p + blen (E.r_item (E.IElem name attrs ws None))) post, c') /\
    Res c0 c acc its ld' c0' c' frs' K ext.
Proof.
  intros Hwf HW HO HS Hm Hin Hld HP HR.
  destruct (wf_elem_parts_g _ _ _ _ _ Hwf) as (Hn & Ha & Hx & Hd & Hw & _). clear Hwf.
  rewrite inline_elem in Hin. destruct (E.inline_attrs tb m attrs) as [[attrs' tra]|] eqn:Eat; [|discriminate].
  cbn [E.obind fst snd] in Hin. injection Hin as <- <-.
  pose proof (inline_attrs_len _ _ _ _ _ Eat) as Elen.
  set (el := T.IElem name attrs' ws None) in *.
  assert (Hprov : forallb (fun a => E.crlf_split_ok (T.a_value a)) attrs' = true).
  { destruct HP as [X _]. rewrite walk_single in X by reflexivity. cbn [fst] in X. rewrite forallb_app in X.
    apply andb_true_iff in X. destruct X as [_ X]. cbn [forallb] in X. unfold el in X. rewrite prov_elem, !andb_true_r in X. exact X. }
  rewrite er_item_elem in *. rewrite <- !app_assoc in HW |- *.
  change ([47; 62] ++ post) with (tag_tail true ++ post) in *.
  rewrite <- raws_render in HW |- *.
  rewrite (lex_relement text Hascii en tl) by (try assumption; apply (raws_wf_g m); exact Ha).
  cbv zeta. rewrite raws_render in HW |- *.
  destruct (flush_res c0 c frs acc HO HS) as (cr & Kt & Er & Ar & St & Ir & L1 & L2 & L3 & HKt & Ees & Epp).
  unfold rstart_toks. rewrite (evs_reset lvl (TElementStart (sl (p + 1) (p + 1)) (sl (p + 1) (p + 1 + blen name)) p) _ c cr I Er Ar).
  fold (rstart_toks p name (map raw attrs)).
  destruct (rooms_single c0 acc el cr Kt eq_refl HR St HKt) as [NR AR].
  unfold el in NR, AR. rewrite erase_elem in NR, AR. rewrite nattrs_elem, map_length, Nat.add_0_r in AR.
  pose proof (W_full _ _ _ _ HW) as HWf. rewrite <- !app_assoc in HWf.
  destruct (start_tag_g text Hascii decls es Henv Hdecls Hadjs lvl p name attrs attrs' tra k ws true (post ++ tl) cr ld' m
              HWf (wf_name_ne _ Hn) Ha Hx Hd ltac:(rewrite L1; exact Hm) Eat Hprov ltac:(rewrite L1; exact Hld) Ir Ees)
    as (c' & ar & E & S & Hkm & I' & A & Tt & (D1 & D2 & Fl) & P1 & P2);
    [apply (node_room_room _ _ NR); unfold nsize; cbn; lia|unfold attr_room, len_N in *; lia|].
  cbv zeta in E. apply bind_ok in E. destruct E as (c1 & E1 & E2).
  rewrite E1. cbn [bind]. rewrite E2. cbn [bind negb].
  eexists (sh c'), c', [], _, _. split.
  { replace (p + blen ([60] ++ name ++ flat_map E.r_attr attrs ++ ws ++ [47; 62]))
      with (p + 1 + blen name + blen (flat_map E.r_attr attrs) + blen ws + blen (tag_tail true)); [reflexivity|].
    rewrite !blen_app. change (blen [60]) with 1. change (blen (tag_tail true)) with 2. change (blen [47; 62]) with 2. lia. }
  apply (Res_item c0 c frs acc cr Kt el c' [(Some (c_parent_id cr), KElement None (sl (p + 1) (p + 1 + blen name)) ar (1, 1))]
           (map ad_of (tas_e (p + 1 + blen name) attrs attrs')) ld' HO St L1 L3 L2 HKt); try assumption; try reflexivity.
  - split; [exact S|]. split; assumption.
  - unfold el. rewrite erase_elem. cbn [tag_list tag app]. fold (CstTree.eattrs (map erase_attr attrs')). rewrite eattrs_erase.
    constructor; [|constructor]. apply Hkm.
  - unfold el. rewrite erase_elem, map_length, nattrs_elem, map_length, Nat.add_0_r.
    destruct (tas_e_facts_g text decls (ws ++ tag_tail true ++ post ++ tl) k m attrs attrs' tra (p + 1 + blen name)) as (_ & _ & _ & Tl).
    { pose proof (CstLex.W_app _ _ _ _ HWf) as X. change (blen [60]) with 1 in X. apply (CstLex.W_app _ _ _ _ X). }
    { exact Ha. } { exact Eat. }
    unfold len_N in Tl. lia.
  - intros _. exact Tt.
Qed.

Lemma ItemOK_empty name attrs ws : ItemOK (E.IElem name attrs ws None).
Proof.
  intros m en tl p post c0 c frs acc lvl depth fuel its tr ld' Hwf HW _ HO HS _ Hm Hlvl Hfl Hin Hld HP HR.
  destruct (elem_empty_c name attrs ws m en tl p post c0 c frs acc lvl its tr ld' Hwf HW HO HS Hm Hin Hld HP HR)
    as (c0' & c' & frs' & K & ext & E & HRes).
  destruct (wf_elem_parts_g _ _ _ _ _ Hwf) as (Hn & _).
  exists c0', c', frs', K, ext. split; [|exact HRes].
  cbn [esteps Nat.add]. rewrite er_item_elem in HW, E |- *. rewrite <- !app_assoc in HW, E |- *.
  rewrite (loop_elem' text en tl) by assumption. rewrite E. reflexivity.
Qed.

Ltac clia := repeat match goal with H : @eq bool _ true |- _ => clear H end; lia.

Lemma elem_open_c name attrs ws cs ws2 : ItemsOK text es tb cs ->
  forall m en tl p post c0 c frs acc lvl d fuel its tr ld',
  E.wf_item m (E.IElem name attrs ws (Some (cs, ws2))) = true ->
  CstEntCLex.W text en tl p (E.r_item (E.IElem name attrs ws (Some (cs, ws2))) ++ post) ->
  OR c0 c frs -> SemI frs acc ->
  m = (0 <? ld_depth (c_ld c)) -> N.of_nat lvl + ld_depth (c_ld c) = 12 ->
  c_entity_floor c <= len_N (c_parent_prefixes c) ->
  E.inline_item tb m (E.IElem name attrs ws (Some (cs, ws2))) = Some (its, tr) -> ld_run (c_ld c) tr = Some ld' ->
  Pok acc its -> Rooms c0 acc its ->
  let q := p + 1 + blen name + blen (flat_map E.r_attr attrs) + blen ws + 1 in
  let post2 := [60; 47] ++ name ++ ws2 ++ [62] ++ post in
  let pe := p + blen (E.r_item (E.IElem name attrs ws (Some (cs, ws2)))) in
  exists c1 c0' c' frs' K ext,
    parse_element text context (evl lvl) (CstEntCLex.st en tl p (E.r_item (E.IElem name attrs ws (Some (cs, ws2))) ++ post)) c =
      Ok (true, CstEntCLex.st en tl q (E.r_items cs ++ post2), c1) /\
    parse_content_loop text context (evl lvl) (esteps_list cs + S fuel) d (CstEntCLex.st en tl q (E.r_items cs ++ post2)) c1 =
      (if d =? 0 then Ok (CstEntCLex.st en tl pe post, c')
       else parse_content_loop text context (evl lvl) fuel (d - 1) (CstEntCLex.st en tl pe post) c') /\
    Res c0 c acc its ld' c0' c' frs' K ext.
Proof.
  intros HL m en tl p post c0 c frs acc lvl d fuel its tr ld' Hwf HW HO HS Hm Hlvl Hfl Hin Hld HP HR q0 post20 pe.
  assert (Epe : pe = p + 1 + blen name + blen (flat_map E.r_attr attrs) + blen ws + 1 + blen (E.r_items cs) + 2 + blen name + blen ws2 + 1).
  { unfold pe. rewrite er_item_elem, !blen_app. change (blen [60]) with 1. change (blen [60; 47]) with 2. change (blen [62]) with 1. lia. }
  clearbody pe. subst q0 post20.
  destruct (wf_elem_parts_g _ _ _ _ _ Hwf) as (Hn & Ha & Hx & Hd & Hw & Hw2 & Hna & Hcs). clear Hwf.
  rewrite inline_elem in Hin. destruct (E.inline_attrs tb m attrs) as [[attrs' tra]|] eqn:Eat; [|discriminate].
  cbn [E.obind fst snd] in Hin. destruct (E.inline_items tb m cs) as [[itsc trc]|] eqn:Ecs; [|discriminate].
  cbn [E.obind fst snd] in Hin. injection Hin as <- <-.
  pose proof (inline_attrs_len _ _ _ _ _ Eat) as Elen.
  set (el := T.IElem name attrs' ws (Some (E.regroup itsc, ws2))) in *.
  assert (Hprov : forallb (fun a => E.crlf_split_ok (T.a_value a)) attrs' = true /\ forallb E.provisos_item (E.regroup itsc) = true).
  { destruct HP as [X _]. rewrite walk_single in X by reflexivity. cbn [fst] in X. rewrite forallb_app in X.
    apply andb_true_iff in X. destruct X as [_ X]. cbn [forallb] in X. unfold el in X. rewrite prov_elem, andb_true_r in X.
    apply andb_true_iff in X. exact X. }
  destruct Hprov as [Hpa Hpc]. destruct (provisos_walk itsc Hpc) as [Pc1 Pc2].
  set (outc := fst (walk [] itsc)) in *. set (accc := snd (walk [] itsc)) in *.
  rewrite ld_run_app in Hld. destruct (ld_run (c_ld c) tra) as [lda|] eqn:Ela; [|discriminate].
  rewrite er_item_elem in *. rewrite <- !app_assoc in HW |- *.
  change ([62] ++ E.r_items cs ++ [60; 47] ++ name ++ ws2 ++ [62] ++ post)
    with (tag_tail false ++ (E.r_items cs ++ [60; 47] ++ name ++ ws2 ++ [62] ++ post)) in *.
  set (post2 := [60; 47] ++ name ++ ws2 ++ [62] ++ post) in *.
  rewrite <- raws_render in HW |- *.
  rewrite (lex_relement text Hascii en tl) by (try assumption; apply (raws_wf_g m); exact Ha).
  cbv zeta. rewrite raws_render in HW |- *.
  destruct (flush_res c0 c frs acc HO HS) as (cr & Kt & Er & Ar & St & Ir & L1 & L2 & L3 & HKt & Ees & Epp).
  unfold rstart_toks. rewrite (evs_reset lvl (TElementStart (sl (p + 1) (p + 1)) (sl (p + 1) (p + 1 + blen name)) p) _ c cr I Er Ar).
  fold (rstart_toks p name (map raw attrs)).
  destruct (rooms_single c0 acc el cr Kt eq_refl HR St HKt) as [NR AR].
  unfold el in NR, AR. rewrite erase_elem in NR, AR. rewrite nsize_elem in NR. rewrite nattrs_elem, map_length in AR.
  rewrite den_walk in NR, AR. fold outc accc in NR, AR.
  pose proof (W_full _ _ _ _ HW) as HWf. rewrite <- !app_assoc in HWf.
  destruct (start_tag_g text Hascii decls es Henv Hdecls Hadjs lvl p name attrs attrs' tra k ws false
              (E.r_items cs ++ post2 ++ tl) cr lda m
              HWf (wf_name_ne _ Hn) Ha Hx Hd ltac:(rewrite L1; exact Hm) Eat Hpa ltac:(rewrite L1; exact Ela) Ir Ees)
    as (c1 & ar & E & S1 & Hkm & I1 & A1 & T1 & (D1 & D2 & Fl1) & P1 & P2 & P3);
    [unfold node_room, room in *; clia|unfold attr_room, len_N in *; clia|].
  cbv zeta in E. apply bind_ok in E. destruct E as (cx & E0 & E1).
  rewrite E0. cbn [bind]. rewrite E1. cbn [bind negb]. clear E0 E1 cx.
  exists c1.
  destruct (tas_e_facts_g text decls (ws ++ tag_tail false ++ E.r_items cs ++ post2 ++ tl) k m attrs attrs' tra (p + 1 + blen name))
    as (_ & _ & _ & Tl).
  { pose proof (CstLex.W_app _ _ _ _ HWf) as X. change (blen [60]) with 1 in X. apply (CstLex.W_app _ _ _ _ X). }
  { exact Ha. } { exact Eat. }
  set (row := (Some (c_parent_id cr), KElement None (sl (p + 1) (p + 1 + blen name)) ar (1, 1))) in *.
  set (tas := tas_e (p + 1 + blen name) attrs attrs') in *.
  (* the children *)
  pose proof (CstEntCLex.W_app text en tl _ _ _ HW) as HW1. change (blen [60]) with 1 in HW1.
  pose proof (CstEntCLex.W_app text en tl _ _ _ HW1) as HW2. pose proof (CstEntCLex.W_app text en tl _ _ _ HW2) as HW3.
  pose proof (CstEntCLex.W_app text en tl _ _ _ HW3) as HW4. pose proof (CstEntCLex.W_app text en tl _ _ _ HW4) as HW5.
  set (q := p + 1 + blen name + blen (flat_map E.r_attr attrs) + blen ws + blen (tag_tail false)) in *.
  pose proof (Step0_len _ _ _ _ S1) as Ln1. change (len_N [_]) with 1 in Ln1.
  change (d_nodes (c_doc (sh c1))) with (d_nodes (c_doc c1)) in Ln1. change (d_nodes (c_doc (sh cr))) with (d_nodes (c_doc cr)) in Ln1.
  pose proof (Step_attrs_len _ _ _ _ S1) as La1. rewrite len_N_map in La1. fold tas in La1. rewrite Tl in La1.
  change (d_attrs (c_doc (sh c1))) with (d_attrs (c_doc c1)) in La1. change (d_attrs (c_doc (sh cr))) with (d_attrs (c_doc cr)) in La1.
  pose proof (Step_opt _ _ _ _ S1) as Lo1. change (c_opt (sh c1)) with (c_opt c1) in Lo1. change (c_opt (sh cr)) with (c_opt cr) in Lo1.
  destruct (s_keep _ _ _ _ S1) as (_ & _ & Kes & _).
  change (c_entities (sh c1)) with (c_entities c1) in Kes. change (c_entities (sh cr)) with (c_entities cr) in Kes.
  assert (HO1 : OR (sh c1) c1 []).
  { constructor; try assumption; try reflexivity; [apply same_frame_sym; apply sh_frame|congruence]. }
  destruct (HL m en tl q post2 (sh c1) c1 [] [] lvl d (S fuel) itsc trc ld' Hcs Hna HW5 ltac:(reflexivity) HO1 (SemI_nil text))
    as (c0b & cb & frsb & Kc & ec & Ec & HResc); try assumption.
  { destruct cs; [exact I|]. intros _. reflexivity. }
  { rewrite D1, D2, L1. exact Hm. }
  { rewrite D1, D2, L1. exact Hlvl. }
  { rewrite Fl1, L3, P2, len_N_app, Epp. change (len_N [_]) with 1. clia. }
  { rewrite D1. exact Hld. }
  { split; assumption. }
  { fold outc accc. split.
    - unfold node_room in *. change (d_nodes (c_doc (sh c1))) with (d_nodes (c_doc c1)). change (c_opt (sh c1)) with (c_opt c1).
      rewrite Ln1, Lo1. fold outc accc. clia.
    - unfold attr_room in *. change (d_attrs (c_doc (sh c1))) with (d_attrs (c_doc c1)). rewrite La1.
      rewrite map_app, nattrs_items_app, nattrs_flush in AR. fold outc accc. unfold len_N in *. clia. }
  change (p + 1 + blen name + blen (flat_map E.r_attr attrs) + blen ws + 1) with q.
  rewrite Ec. clear Ec. fold outc accc in HResc.
  destruct HResc as (Sc & Ob & Mb & Fc & Lc & Db & Db' & Flb & Tb).
  (* the end tag *)
  pose proof (CstEntCLex.W_app text en tl _ _ _ HW5) as HW6. set (e := q + blen (E.r_items cs)) in *.
  unfold post2 in HW6 |- *. rewrite (loop_close text en tl) by exact HW6.
  rewrite (CstEntCLex.lex_close text Hascii en tl) by assumption. cbv zeta.
  destruct (flush_res c0b cb frsb accc Ob Mb) as (cr2 & Kt2 & Er2 & Ar2 & St2 & Ir2 & M1 & M2 & M3 & HKt2 & Ees2 & Epp2).
  rewrite (evl_reset text lvl (TElementEnd (EClose (sl (e + 2) (e + 2)) (sl (e + 2) (e + 2 + blen name))) (e, e + 2 + blen name + blen ws2 + 1)) cb cr2 I Er2 Ar2).
  pose proof (CstEntCLex.W_app text en tl _ _ _ HW6) as HW7. change (blen [60; 47]) with 2 in HW7.
  (* the contexts in between *)
  destruct Sc as (Sc & Pidc & Ppc). destruct St2 as (St2 & Pid2 & Pp2).
  change (c_parent_id (sh c1)) with (c_parent_id c1) in Pidc. change (c_parent_prefixes (sh c1)) with (c_parent_prefixes c1) in Ppc.
  change (c_parent_id (sh cr2)) with (c_parent_id cr2) in Pid2. change (c_parent_prefixes (sh cr2)) with (c_parent_prefixes cr2) in Pp2.
  pose proof (ci_pid _ Ir : c_parent_id cr < len_N (d_nodes (c_doc cr))) as Hpidr.
  pose proof (Step0_len _ _ _ _ Sc) as Lnc. change (d_nodes (c_doc (sh c1))) with (d_nodes (c_doc c1)) in Lnc.
  pose proof (Step0_len _ _ _ _ St2) as Ln2. change (d_nodes (c_doc (sh cr2))) with (d_nodes (c_doc cr2)) in Ln2.
  destruct (close_tag_g text lvl (sl (e + 2) (e + 2)) (sl (e + 2) (e + 2 + blen name))
              (e, e + 2 + blen name + blen ws2 + 1) cr2 (c_parent_id cr) None
              (sl (p + 1) (p + 1 + blen name)) ar (1, 1) name (c_parent_prefixes cr) (sl (p + 1) (p + 1)) Ir2)
    as (c3 & E3 & S3 & I3 & Pid3 & Pp3 & A3 & Tn3 & D3 & Fl3).
  { rewrite Pid2, Pidc, P1.
    change (absn (c_doc cr2)) with (absn (c_doc (sh cr2))). rewrite (s_nodes _ _ _ _ St2), (s_nodes _ _ _ _ Sc), (s_nodes _ _ _ _ S1).
    change (absn (c_doc (sh cr))) with (absn (c_doc cr)).
    replace (N.to_nat (len_N (d_nodes (c_doc cr)))) with (length (absn (c_doc cr)))
      by (unfold absn, len_N; rewrite map_length; clia).
    rewrite <- !app_assoc, nth_error_app2 by clia. rewrite Nat.sub_diag. reflexivity. }
  { apply (CstEntCLex.W_slice text en tl _ _ _ HW1). }
  { apply (CstEntCLex.W_slice text en tl _ _ _ HW7). }
  { apply slice_empty. }
  { rewrite Pp2, Ppc, P2. reflexivity. }
  { apply (ci_pp _ Ir). }
  { apply slice_empty. }
  { unfold tn_set in *. rewrite M2. apply Tb. exact T1. }
  { rewrite M3, Flb, Fl1, L3, Epp. exact Hfl. }
  { rewrite Ln2, Lnc, Ln1. clia. }
  { destruct (ci_par _ Ir : exists par k0, nth_error (absn (c_doc cr)) (N.to_nat (c_parent_id cr)) = Some (par, k0) /\ par_kind_ok k0)
      as (par & k0 & Ep & Hk). exists par, k0. split; [|exact Hk].
    change (absn (c_doc cr2)) with (absn (c_doc (sh cr2))). rewrite (s_nodes _ _ _ _ St2), (s_nodes _ _ _ _ Sc), (s_nodes _ _ _ _ S1).
    change (absn (c_doc (sh cr))) with (absn (c_doc cr)). rewrite <- !app_assoc.
    rewrite nth_error_app1; [exact Ep|]. rewrite <- absn_len in Hpidr. unfold len_N in Hpidr. clia. }
  rewrite E3. cbn [bind].
  eexists (sh c3), c3, [], (Kt ++ row :: Kc ++ Kt2), (map ad_of tas ++ ec).
  assert (Epos : e + 2 + blen name + blen ws2 + 1 = pe).
  { rewrite Epe. unfold e, q. change (blen (tag_tail false)) with 1. clear. clia. }
  rewrite Epos. split; [reflexivity|]. split; [reflexivity|].
  pose proof (Step0_trans _ _ _ _ _ _ _ (Step0_trans _ _ _ _ _ _ _ (Step0_trans _ _ _ _ _ _ _ S1 Sc) St2) S3) as S13.
  rewrite !app_nil_r in S13. cbn [app] in S13.
  apply (Res_item c0 c frs acc cr Kt el c3 (row :: Kc ++ Kt2) (map ad_of tas ++ ec) ld' HO St L1 L3 L2 HKt); try assumption; try reflexivity.
  - split; [exact S13|]. split; [exact Pid3|exact Pp3].
  - unfold el. rewrite erase_elem. cbn [tag_list]. rewrite app_nil_r, tag_elem.
    fold (CstTree.eattrs (map erase_attr attrs')). rewrite eattrs_erase, map_length.
    rewrite den_walk. fold outc accc.
    change (d_attrs (c_doc c3)) with (d_attrs (c_doc (sh c3))).
    rewrite (s_attrs _ _ _ _ S3), app_nil_r. change (d_attrs (c_doc (sh cr2))) with (d_attrs (c_doc cr2)).
    constructor.
    + change (d_attrs (c_doc cr2)) with (d_attrs (c_doc (sh cr2))). rewrite (s_attrs _ _ _ _ St2), app_nil_r, (s_attrs _ _ _ _ Sc).
      apply km_ext. apply Hkm.
    + rewrite map_app, tag_list_app. apply Forall2_app.
      * change (d_attrs (c_doc cr2)) with (d_attrs (c_doc (sh cr2))). rewrite (s_attrs _ _ _ _ St2), app_nil_r.
        change (c_parent_id (sh c1)) with (c_parent_id c1) in Fc. change (d_nodes (c_doc (sh c1))) with (d_nodes (c_doc c1)) in Fc.
        rewrite P1, Ln1 in Fc. exact Fc.
      * pose proof (HKt2 (d_attrs (c_doc cr2))) as X. rewrite Pidc, P1 in X.
        rewrite (Forall2_len_N _ _ _ Fc) in Lnc. unfold len_N at 3 in Lnc. rewrite tag_list_len in Lnc.
        rewrite Lnc, Ln1 in X. exact X.
  - unfold el. rewrite erase_elem, nattrs_elem, map_length, app_length, map_length. rewrite den_walk. fold outc accc.
    rewrite map_app, nattrs_items_app, nattrs_flush, Lc. unfold len_N in Tl. fold outc. clia.
  - rewrite D3, M1. exact Db.
  - rewrite Db', D1, D2. reflexivity.
  - rewrite Fl3, M3, Flb. exact Fl1.
  - intros _. unfold tn_set in *. rewrite Tn3, M2. apply Tb. exact T1.
Qed.

Lemma ItemOK_open name attrs ws cs ws2 : ItemsOK text es tb cs -> ItemOK (E.IElem name attrs ws (Some (cs, ws2))).
Proof.
  intros HL m en tl p post c0 c frs acc lvl depth fuel its tr ld' Hwf HW _ HO HS _ Hm Hlvl Hfl Hin Hld HP HR.
  destruct (elem_open_c name attrs ws cs ws2 HL m en tl p post c0 c frs acc lvl (depth + 1) fuel its tr ld'
              Hwf HW HO HS Hm Hlvl Hfl Hin Hld HP HR) as (c1 & c0' & c' & frs' & K & ext & E1 & E2 & HRes).
  destruct (wf_elem_parts_g _ _ _ _ _ Hwf) as (Hn & _).
  exists c0', c', frs', K, ext. split; [|exact HRes].
  rewrite esteps_elem. cbn [Nat.add].
  rewrite er_item_elem in HW |- *. rewrite er_item_elem in E1. rewrite <- !app_assoc in HW, E1 |- *.
  rewrite (loop_elem' text en tl) by assumption. rewrite E1. cbn [bind].
  replace (esteps_list cs + 1 + fuel)%nat with (esteps_list cs + S fuel)%nat by lia.
  rewrite E2. replace (depth + 1 =? 0) with false by lia. replace (depth + 1 - 1) with depth by lia.
  rewrite er_item_elem. reflexivity.
Qed.

(* ---- lists of items ---- *)
Lemma inline_nontext_g m i its tr : E.is_text i = false -> E.inline_item tb m i = Some (its, tr) ->
  exists x, its = [x] /\ is_titext x = false.
Proof.
  destruct i as [n a w body|ps|bs|t s0 v]; intros Ht H; try discriminate.
  - rewrite inline_elem in H. destruct (E.inline_attrs tb m a) as [[a' ta]|]; [|discriminate]. cbn [E.obind] in H.
    destruct body as [[cs w2]|].
    + destruct (E.inline_items tb m cs) as [[b0 tb0]|]; [|discriminate]. cbn [E.obind] in H. injection H as <- _. eauto.
    + injection H as <- _. eauto.
  - cbn in H. injection H as <- _. eauto.
  - cbn in H. injection H as <- _. eauto.
Qed.

Lemma nontext_stop m d rest : E.is_text d = false -> E.wf_item m d = true -> text_stop (E.r_item d ++ rest).
Proof.
  intros Ht Hwf. destruct d as [n a w body|ps|bs|t s0 v]; try discriminate.
  - rewrite er_item_elem. reflexivity.
  - reflexivity.
  - reflexivity.
Qed.

Lemma ItemsOK_of cs : Forall ItemOK cs -> ItemsOK text es tb cs.
Proof.
  induction 1 as [|i r Hi _ IH]; intros m en tl p post c0 c frs acc lvl depth fuel its tr ld'
    Hwf Hna HW Hpost HO HS Hb Hm Hlvl Hfl Hin Hld HP HR.
  - cbn [E.inline_items] in Hin. injection Hin as <- <-. cbn [ld_run] in Hld. injection Hld as <-.
    cbn [esteps_list E.r_items flat_map app Nat.add]. rewrite blen_nil, N.add_0_r.
    exists c0, c, frs, [], []. split; [reflexivity|]. apply Res_nil; assumption.
  - cbn [forallb] in Hwf. apply andb_true_iff in Hwf. destruct Hwf as [Hw1 Hw2].
    rewrite r_items_cons in HW |- *. rewrite <- app_assoc in HW |- *.
    cbn [E.inline_items] in Hin.
    destruct (E.inline_item tb m i) as [[its1 tr1]|] eqn:Ei; [|discriminate]. cbn [E.obind fst snd] in Hin.
    destruct (E.inline_items tb m r) as [[its2 tr2]|] eqn:Er; [|discriminate]. cbn [E.obind fst snd] in Hin.
    injection Hin as <- <-.
    assert (Hna2 : E.no_adjacent_text r = true).
    { destruct r as [|d r']; [reflexivity|]. cbn [E.no_adjacent_text] in Hna. apply andb_true_iff in Hna. apply Hna. }
    assert (Hnext : forall d r', r = d :: r' -> E.is_text i = true -> E.is_text d = false).
    { intros d r' -> Hi1. cbn [E.no_adjacent_text] in Hna. apply andb_true_iff in Hna.
      destruct Hna as [Hna _]. rewrite Hi1 in Hna. cbn [andb] in Hna. apply negb_true_iff in Hna. exact Hna. }
    rewrite ld_run_app in Hld. destruct (ld_run (c_ld c) tr1) as [ld1|] eqn:El1; [|discriminate].
    destruct (Pok_app _ _ _ HP) as [HP1 HP2]. pose proof (Rooms_app_l _ _ _ _ HR) as HR1.
    destruct (Hi m en tl p (E.r_items r ++ post) c0 c frs acc lvl depth (esteps_list r + fuel)%nat its1 tr1 ld1 Hw1 HW)
      as (c0a & ca & frsa & K1 & e1 & E1 & HRes1); try assumption.
    { intros Hi1. destruct r as [|d r']; [exact Hpost|]. rewrite r_items_cons, <- app_assoc.
      apply (nontext_stop m); [apply (Hnext d r' eq_refl Hi1)|]. cbn [forallb] in Hw2. apply andb_true_iff in Hw2. apply Hw2. }
    pose proof HRes1 as (S1 & O1 & M1 & F1 & Le1 & D1 & D1' & Fl1 & T1).
    destruct (IH m en tl (p + blen (E.r_item i)) post c0a ca frsa (snd (walk acc its1)) lvl depth fuel its2 tr2 ld' Hw2 Hna2)
      as (c0' & c' & frs' & K2 & e2 & E2 & HRes2); try assumption.
    + apply (CstEntCLex.W_app text en tl _ _ _ HW).
    + destruct r as [|d r']; [exact I|]. intros Hd. destruct (E.is_text i) eqn:Eti.
      * rewrite (Hnext d r' eq_refl eq_refl) in Hd. discriminate.
      * destruct (inline_nontext_g m i its1 tr1 Eti Ei) as (x & -> & Hx). rewrite walk_single by exact Hx. reflexivity.
    + rewrite D1, D1'. exact Hm.
    + rewrite D1, D1'. exact Hlvl.
    + rewrite Fl1. rewrite (Run_pp _ _ _ (or_run _ _ _ _ O1)). destruct S1 as (_ & _ & ->).
      rewrite <- (Run_pp _ _ _ (or_run _ _ _ _ HO)). exact Hfl.
    + rewrite D1. exact Hld.
    + apply (Rooms_app_r _ _ _ _ _ _ _ _ _ _ _ _ _ HRes1 HR).
    + exists c0', c', frs', (K1 ++ K2), (e1 ++ e2). split.
      { cbn [esteps_list]. rewrite <- Nat.add_assoc, E1, E2. f_equal. f_equal. rewrite blen_app. lia. }
      apply (Res_app _ _ _ _ _ _ _ _ _ _ _ _ _ _ _ _ _ _ _ HRes1 HRes2).
Qed.

Theorem ItemOK_all : forall i, ItemOK i.
Proof.
  intros i. induction i as [n a w|n a w cs w2 IH|ps|bs|t s v] using eitem_ind.
  - apply ItemOK_empty.
  - apply ItemOK_open. apply ItemsOK_of. exact IH.
  - apply ItemOK_text.
  - apply ItemOK_comment.
  - apply ItemOK_pi.
Qed.

Theorem ItemsOK_level : forall cs, ItemsOK text es tb cs.
Proof. intros cs. apply ItemsOK_of. apply Forall_forall. intros i _. apply ItemOK_all. Qed.

End CItems.

(* every level of the table *)
Theorem ItemsOK_all text (Hascii : Forall (fun x => x < 128) text) decls es :
  Forall2 (ent_ok text) decls es -> Forall decl_ok decls -> Forall decl_adj decls -> Forall decl_cont decls ->
  forall k cs, ItemsOK text es (E.level decls k) cs.
Proof.
  intros Henv Hdecls Hadjs Hcont. induction k as [|k IH]; intros cs.
  - apply (ItemsOK_level text Hascii decls es Henv Hdecls Hadjs Hcont 0). intros k' E0. discriminate.
  - apply (ItemsOK_level text Hascii decls es Henv Hdecls Hadjs Hcont (S k)). intros k' E0. injection E0 as <-. exact IH.
Qed.

Print Assumptions ItemsOK_all.
