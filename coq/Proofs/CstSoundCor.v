(* Proofs/CstSoundCor.v -- C08/C03 on the Cst fragment: soundness (CstSoundDoc.v) and completeness
   (CstMain.v) together.  An input of the fragment is accepted exactly when it is the rendering of a
   well-formed abstract document, and then the parsed tree is the meaning of that document. *)
From Coq Require Import List NArith Bool Lia ZifyBool ZifyN ZifyNat.
Import ListNotations.
From RX Require Import Generated.
From RX.Model Require Import Base CharClass Stream Tokenizer Doc Builder Parse.
From RX.Spec Require Cst.
From RX.Proofs Require CstMain.
From RX.Proofs Require Import CstSound CstSoundDoc.
Open Scope N_scope.

Theorem parse_sound_and_complete : forall text opt d,
  in_fragment text = true -> parse text opt = Ok d -> attrs_raw d ->
  N.of_nat (length text) <= nodes_limit opt ->      (* room for all nodes *)
  N.of_nat (length text) <= u32_max ->              (* the input is at most u32::MAX bytes long *)
  exists c : Cst.doc,
    Cst.wf_doc c = true /\ Cst.render c = text /\ CstMain.view text d = Cst.sem c.
Proof.
  intros text opt d Hf H Hraw Hlim Hsz.
  destruct (parse_sound_fragment text opt d Hf H Hraw) as (c & Hwf & Hr).
  exists c. split; [exact Hwf|]. split; [exact Hr|].
  destruct (CstMain.render_bounds c Hwf) as [B1 _]. rewrite Hr in B1.
  destruct (CstMain.parse_render_sem c opt Hwf) as (d' & Hp & Hv & _).
  - lia.
  - rewrite Hr. exact Hsz.
  - rewrite Hr in Hp, Hv. rewrite H in Hp. injection Hp as <-. exact Hv.
Qed.
Print Assumptions parse_sound_and_complete.

