(* Proofs/RangeShiftBuilder.v -- C13 (shift by prolog whitespace), part 4: the shift of a builder
   context, and the builder functions run on [ws ++ text] from a shifted context. *)
From Coq Require Import Ascii String.
From Coq Require Import List Arith NArith Bool Lia ZifyBool ZifyN ZifyNat.
Import ListNotations.
From RX Require Import Generated.
From RX.Model Require Import Base CharClass Stream Tokenizer Doc Builder.
From RX.Proofs Require Import Tactics NoPanicUtf8 NoPanicStream BorrowLocal RangeBuilder
  RangeShiftBase RangeShiftStream RangeShiftTokenizer.
Open Scope N_scope.

(* ------------------------------------------------------------------ *)
(* shifting the stored offsets                                          *)

(* the constant empty slice (the "prefix" of the root, the null tag name) is not an offset *)
Definition sh_sl0 (k : N) (sl : slice) : slice :=
  if (sl_start sl =? 0) && (sl_end sl =? 0) then sl else sh_sl k sl.

Definition sh_str (k : N) (s : str) : str :=
  match s with SIn sl => SIn (sh_sl k sl) | SStatic bs => SStatic bs end.
Definition sh_sto (k : N) (s : storage) : storage :=
  match s with Borrowed x => Borrowed (sh_str k x) | Owned bs => Owned bs end.
Definition sh_cow (k : N) (x : cow) : cow :=
  match x with CowBorrowed s => CowBorrowed (sh_sl k s) | CowOwned bs => CowOwned bs end.
Definition sh_kind (k : N) (kd : node_kind) : node_kind :=
  match kd with
  | KRoot => KRoot
  | KElement ns local ar nss => KElement ns (sh_sl k local) ar nss
  | KPI t v => KPI (sh_sl k t) (option_map (sh_sl k) v)
  | KComment s => KComment (sh_sl k s)
  | KText st => KText (sh_sto k st)
  end.
Definition is_root_kind (kd : node_kind) : bool := match kd with KRoot => true | _ => false end.
(* the root's range is the whole input: its start stays 0 *)
Definition sh_node (k : N) (nd : node_data) : node_data :=
  {| nd_parent := nd_parent nd; nd_prev_sibling := nd_prev_sibling nd;
     nd_next_subtree := nd_next_subtree nd; nd_last_child := nd_last_child nd;
     nd_kind := sh_kind k (nd_kind nd);
     nd_range := if is_root_kind (nd_kind nd) then (fst (nd_range nd), snd (nd_range nd) + k)
                 else sh_rng k (nd_range nd) |}.
Definition sh_attr (k : N) (a : attr_data) : attr_data :=
  {| ad_ns_idx := ad_ns_idx a; ad_local := sh_sl k (ad_local a); ad_value := sh_sto k (ad_value a);
     ad_range := sh_rng k (ad_range a); ad_qname_len := ad_qname_len a; ad_eq_len := ad_eq_len a |}.
Definition sh_ns (k : N) (v : namespace) : namespace :=
  {| ns_name := option_map (sh_str k) (ns_name v); ns_uri := sh_sto k (ns_uri v) |}.
Definition sh_doc (k : N) (d : document) : document :=
  {| d_nodes := map (sh_node k) (d_nodes d); d_attrs := map (sh_attr k) (d_attrs d);
     d_ns_values := map (sh_ns k) (d_ns_values d); d_ns_tree := d_ns_tree d |}.
Definition sh_tattr (k : N) (a : temp_attr) : temp_attr :=
  {| ta_prefix := sh_sl k (ta_prefix a); ta_local := sh_sl k (ta_local a);
     ta_value := sh_sto k (ta_value a); ta_range := sh_rng k (ta_range a);
     ta_qname_len := ta_qname_len a; ta_eq_len := ta_eq_len a |}.
Definition sh_ent (k : N) (e : entity) : entity :=
  {| en_name := sh_sl k (en_name e); en_value := sh_sl k (en_value e) |}.
Definition sh_tn (k : N) (tn : tag_name_span) : tag_name_span :=
  if slice_len (tn_name tn) =? 0 then tn
  else {| tn_prefix := sh_sl0 k (tn_prefix tn); tn_name := sh_sl k (tn_name tn);
          tn_pos := tn_pos tn + k; tn_prefix_pos := tn_prefix_pos tn + k |}.
Definition sh_ctx (k : N) (c : context) : context :=
  {| c_opt := c_opt c; c_ns_start_idx := c_ns_start_idx c;
     c_cur_attrs := map (sh_tattr k) (c_cur_attrs c); c_awaiting := c_awaiting c;
     c_parent_prefixes := map (sh_sl0 k) (c_parent_prefixes c);
     c_entities := map (sh_ent k) (c_entities c); c_after_text := map (sh_cow k) (c_after_text c);
     c_parent_id := c_parent_id c; c_tag_name := sh_tn k (c_tag_name c);
     c_entity_floor := c_entity_floor c; c_ld := c_ld c; c_doc := sh_doc k (c_doc c) |}.

(* ------------------------------------------------------------------ *)
(* lists                                                                *)
Lemma len_N_map {A B} (g : A -> B) l : len_N (map g l) = len_N l.
Proof. unfold len_N. rewrite map_length. reflexivity. Qed.

Lemma nth_N_map {A B} (g : A -> B) l i : nth_N (map g l) i = option_map g (nth_N l i).
Proof.
  unfold nth_N. rewrite len_N_map. destruct (len_N l <=? i); [reflexivity|]. apply nth_error_map.
Qed.

Lemma list_upd_map {A B} (g : A -> B) (f1 : A -> A) (f2 : B -> B) :
  (forall x, f2 (g x) = g (f1 x)) ->
  forall l i, list_upd (map g l) i f2 = option_map (map g) (list_upd l i f1).
Proof.
  intros Hf. induction l as [|x l IH]; intros i; cbn [map list_upd]; [reflexivity|].
  destruct i; cbn [option_map map]; [rewrite Hf; reflexivity|].
  rewrite IH. destruct (list_upd l i f1); reflexivity.
Qed.

Lemma rev_map_hd {A B} (g : A -> B) l : rev (map g l) = map g (rev l).
Proof. symmetry. apply map_rev. Qed.

Lemma removelast_map {A B} (g : A -> B) l : removelast (map g l) = map g (removelast l).
Proof.
  induction l as [|x l IH]; [reflexivity|]. cbn [map removelast].
  destruct l; [reflexivity|]. cbn [map] in *. rewrite IH. reflexivity.
Qed.

Section Shift.
Variable ws text : bytes.
Hypothesis Hvalid : valid_utf8_b text = true.
Hypothesis Hws : forallb byte_is_space ws = true.
Notation text2 := (ws ++ text).
Notation k := (blen ws).
Notation shs := (sh_s k).
Notation shl := (sh_sl k).
Notation shc := (sh_ctx k).
Notation shd := (sh_doc k).

(* ---- bytes are the same ---- *)
Lemma slice_bytes_sl0 sl : slice_bytes text2 (sh_sl0 k sl) = slice_bytes text sl.
Proof.
  clear Hvalid Hws. unfold sh_sl0. destruct ((sl_start sl =? 0) && (sl_end sl =? 0)) eqn:E.
  - apply andb_true_iff in E. destruct E as [E1 E2]. apply N.eqb_eq in E1, E2.
    unfold slice_bytes, sub. rewrite E1, E2. reflexivity.
  - apply (slice_bytes_shift ws).
Qed.

Lemma str_bytes_sh s : str_bytes text2 (sh_str k s) = str_bytes text s.
Proof. clear Hvalid Hws. destruct s; cbn; [apply (slice_bytes_shift ws)|reflexivity]. Qed.
Lemma storage_bytes_sh s : storage_bytes text2 (sh_sto k s) = storage_bytes text s.
Proof. clear Hvalid Hws. destruct s; cbn; [apply str_bytes_sh|reflexivity]. Qed.
Lemma cow_bytes_sh x : cow_bytes text2 (sh_cow k x) = cow_bytes text x.
Proof. clear Hvalid Hws. destruct x; cbn; [apply (slice_bytes_shift ws)|reflexivity]. Qed.
Lemma ns_name_bytes_sh v : ns_name_bytes text2 (sh_ns k v) = ns_name_bytes text v.
Proof.
  clear Hvalid Hws. unfold ns_name_bytes, sh_ns. cbn [ns_name]. destruct (ns_name v); cbn; [rewrite str_bytes_sh|]; reflexivity.
Qed.

Lemma find_ns_sh : forall vals name uri i,
  find_ns text2 (map (sh_ns k) vals) name uri i = find_ns text vals name uri i.
Proof.
  clear Hvalid Hws. induction vals as [|v r IH]; intros name uri i; cbn [map find_ns]; [reflexivity|].
  rewrite ns_name_bytes_sh. cbn [sh_ns ns_uri]. rewrite storage_bytes_sh, IH. reflexivity.
Qed.

Lemma find_entity_sh : forall es name,
  find_entity text2 (map (sh_ent k) es) name = option_map (sh_ent k) (find_entity text es name).
Proof.
  clear Hvalid Hws. induction es as [|e r IH]; intros name; cbn [map find_entity]; [reflexivity|].
  cbn [sh_ent en_name]. rewrite (slice_bytes_shift ws). destruct (bytes_eqb _ _); [reflexivity|apply IH].
Qed.

Lemma slice_len_tn tn : slice_len (tn_name (sh_tn k tn)) = slice_len (tn_name tn).
Proof.
  clear Hvalid Hws. unfold sh_tn. destruct (slice_len (tn_name tn) =? 0) eqn:E; [reflexivity|].
  cbn [tn_name]. apply (slice_len_shift ws).
Qed.

Lemma sh_tn_real tn : (slice_len (tn_name tn) =? 0) = false ->
  sh_tn k tn = {| tn_prefix := sh_sl0 k (tn_prefix tn); tn_name := shl (tn_name tn);
                  tn_pos := tn_pos tn + k; tn_prefix_pos := tn_prefix_pos tn + k |}.
Proof. clear Hvalid Hws. unfold sh_tn. intros ->. reflexivity. Qed.

(* ---- projections of a shifted context ---- *)
Ltac cproj :=
  cbn [sh_ctx sh_doc c_opt c_ns_start_idx c_cur_attrs c_awaiting c_parent_prefixes c_entities c_after_text
       c_parent_id c_tag_name c_entity_floor c_ld c_doc
       set_doc set_ns_start_idx set_cur_attrs set_awaiting set_parent_prefixes set_entities
       set_after_text set_parent_id set_tag_name set_entity_floor set_ld
       d_nodes d_attrs d_ns_values d_ns_tree set_nodes set_attrs fst snd pmap idf] in *.

Ltac bsync1 :=
  rewrite ?len_N_map, ?nth_N_map, ?(slice_bytes_shift ws), ?slice_bytes_sl0, ?str_bytes_sh, ?storage_bytes_sh,
          ?cow_bytes_sh, ?find_ns_sh, ?find_entity_sh, ?(slice_len_shift ws), ?slice_len_tn,
          ?ns_name_bytes_sh,
          ?(at_end_sh ws), ?(starts_with_sh ws), ?(curr_byte_opt_sh ws), ?(skip_spaces_sh ws),
          ?(curr_byte_sh ws), ?s_rest_sh, ?s_pos_sh.
Ltac bsync := cproj; repeat (progress bsync1).

Ltac use L := solve [eapply L; try eassumption; try (intros; reflexivity)].
Ltac sbase :=
  first [ use err_at_sh0 | use err_from_sh0 | use err_at_sh | use err_from_sh
        | use advance_sh | apply id_sim | use stream_from_substr_sh
        | use consume_reference_sh | use curr_byte_unchecked_sim | use curr_byte_sim ].

(* ---- nodes ---- *)
Lemma list_upd_map_at {A B} (g : A -> B) (f1 : A -> A) (f2 : B -> B) :
  forall l i, (forall x, nth_error l i = Some x -> f2 (g x) = g (f1 x)) ->
  list_upd (map g l) i f2 = option_map (map g) (list_upd l i f1).
Proof.
  induction l as [|x l IH]; intros i Hf; cbn [map list_upd]; [reflexivity|].
  destruct i; cbn [option_map map]; [rewrite (Hf x eq_refl); reflexivity|].
  rewrite IH by (intros y Hy; apply Hf; exact Hy). destruct (list_upd l i f1); reflexivity.
Qed.

Lemma upd_node_sh_at nodes i f1 f2 :
  (forall x, nth_error nodes (N.to_nat i) = Some x -> f2 (sh_node k x) = sh_node k (f1 x)) ->
  rsimf (map (sh_node k)) (upd_node nodes i f1) (upd_node (map (sh_node k) nodes) i f2).
Proof.
  clear Hvalid Hws. intros Hf. unfold upd_node. rewrite (list_upd_map_at _ f1 f2) by exact Hf.
  destruct (list_upd nodes (N.to_nat i) f1); reflexivity.
Qed.

Lemma upd_node_sh nodes i f1 f2 :
  (forall x, f2 (sh_node k x) = sh_node k (f1 x)) ->
  rsimf (map (sh_node k)) (upd_node nodes i f1) (upd_node (map (sh_node k) nodes) i f2).
Proof. intros Hf. apply upd_node_sh_at. intros x _. apply Hf. Qed.

Lemma set_next_subtree_all_sh : forall ids nodes v,
  rsimf (map (sh_node k)) (set_next_subtree_all nodes ids v)
        (set_next_subtree_all (map (sh_node k) nodes) ids v).
Proof.
  clear Hvalid Hws. induction ids as [|i ids IH]; intros nodes v; cbn [set_next_subtree_all]; [reflexivity|].
  eapply rsimf_bind; [apply upd_node_sh; intros x; reflexivity|]. intros l _. apply IH.
Qed.

Definition non_root (kd : node_kind) : Prop := is_root_kind kd = false.

Lemma append_node_sh kind r c : non_root kind ->
  rsimf (pmap idf shc) (append_node kind r c) (append_node (sh_kind k kind) (sh_rng k r) (shc c)).
Proof.
  clear Hvalid Hws. intros Hk. unfold append_node. cbv zeta. bsync.
  destruct (_ <=? _); [apply rsimf_err|].
  eapply rsimf_bind; [apply id_sim|]. intros id _. cbv beta.
  set (new1 := {| nd_parent := Some (c_parent_id c); nd_prev_sibling := None; nd_next_subtree := None;
                  nd_last_child := None; nd_kind := kind; nd_range := r |}).
  match goal with |- rsimf _ _ (bind (match nth_N (?l ++ [?n2]) _ with _ => _ end) _) =>
    replace (l ++ [n2]) with (map (sh_node k) (d_nodes (c_doc c) ++ [new1]))
  end.
  2:{ rewrite map_app. cbn [map]. unfold sh_node, new1. cbn. rewrite Hk. reflexivity. }
  rewrite nth_N_map.
  destruct (nth_N (d_nodes (c_doc c) ++ [new1]) (c_parent_id c)) as [pnd|]; cbn [option_map bind]; [|reflexivity].
  eapply rsimf_bind; [apply upd_node_sh; intros x; reflexivity|]. intros l1 _. cbv beta.
  eapply rsimf_bind; [apply upd_node_sh; intros x; reflexivity|]. intros l2 _. cbv beta.
  eapply rsimf_bind; [apply set_next_subtree_all_sh|]. intros l3 _. cbv beta.
  replace (is_element_kind (sh_kind k kind)) with (is_element_kind kind) by (destruct kind; reflexivity).
  reflexivity.
Qed.

(* ---- text ---- *)
Lemma append_text_sh t r c :
  rsimf shc (append_text t r c) (append_text (sh_cow k t) (sh_rng k r) (shc c)).
Proof.
  clear Hvalid Hws. unfold append_text. bsync.
  eapply rsimf_bind with (f := shc).
  - destruct (c_after_text c); cbn [map]; [|reflexivity].
    eapply rsimf_bind.
    + replace (KText match sh_cow k t with CowBorrowed s => Borrowed (SIn s) | CowOwned bs => Owned bs end)
        with (sh_kind k (KText match t with CowBorrowed s => Borrowed (SIn s) | CowOwned bs => Owned bs end))
        by (destruct t; reflexivity).
      apply append_node_sh. reflexivity.
    + intros [id c1] _. reflexivity.
  - intros c1 _. cbv beta. apply rsimf_ret. unfold sh_ctx. cproj. rewrite map_app. reflexivity.
Qed.

Lemma rev_last_nth {A} (l : list A) x r : rev l = x :: r ->
  nth_error l (N.to_nat (len_N l - 1)) = Some x.
Proof.
  intros H. assert (E : l = rev r ++ [x]).
  { rewrite <- (rev_involutive l), H. reflexivity. }
  subst l. unfold len_N. rewrite app_length, rev_length. cbn [length].
  replace (N.to_nat (N.of_nat (length r + 1) - 1)) with (length (rev r)) by (rewrite rev_length; lia).
  rewrite nth_error_app2 by lia. rewrite Nat.sub_diag. reflexivity.
Qed.

Lemma merge_text_sh c : rsimf shc (merge_text text c) (merge_text text2 (shc c)).
Proof.
  clear Hvalid Hws. unfold merge_text. cbv zeta. bsync. rewrite rev_map_hd.
  destruct (rev (d_nodes (c_doc c))) as [|nd l] eqn:Er; cbn [map]; [reflexivity|].
  cbn [sh_node nd_kind]. destruct (nd_kind nd) eqn:Ek; cbn [sh_kind]; try reflexivity.
  rewrite map_map.
  replace (map (fun x => cow_bytes text2 (sh_cow k x)) (c_after_text c)) with (map (cow_bytes text) (c_after_text c))
    by (apply map_ext; intros; symmetry; apply cow_bytes_sh).
  eapply rsimf_bind.
  - apply upd_node_sh_at. intros x Hx. rewrite (rev_last_nth _ _ _ Er) in Hx. injection Hx as <-.
    unfold sh_node, nd_set_kind. cbn. rewrite Ek. reflexivity.
  - intros nodes' _. reflexivity.
Qed.

Lemma reset_after_text_sh c : rsimf shc (reset_after_text text c) (reset_after_text text2 (shc c)).
Proof.
  clear Hvalid Hws. unfold reset_after_text. bsync.
  destruct (c_after_text c) as [|x [|y l]]; cbn [map]; try reflexivity.
  eapply rsimf_bind; [apply merge_text_sh|]. intros c1 _. reflexivity.
Qed.

Lemma process_cdata_sh t r c :
  rsimf shc (process_cdata text t r c) (process_cdata text2 (shl t) (sh_rng k r) (shc c)).
Proof.
  clear Hvalid Hws. unfold process_cdata. cbv zeta. bsync.
  destruct (mem_b 13 _).
  - apply (append_text_sh (CowOwned _)).
  - apply (append_text_sh (CowBorrowed t)).
Qed.

(* ---- namespaces ---- *)
Lemma push_ns_sh name uri d :
  rsimf shd (push_ns text name uri d) (push_ns text2 (option_map (sh_str k) name) (sh_sto k uri) (shd d)).
Proof.
  clear Hvalid Hws. unfold push_ns. cbn [sh_doc d_ns_values d_nodes d_attrs d_ns_tree].
  replace (match option_map (sh_str k) name with Some s => Some (str_bytes text2 s) | None => None end)
    with (match name with Some s => Some (str_bytes text s) | None => None end)
    by (destruct name; cbn; [rewrite str_bytes_sh|]; reflexivity).
  rewrite storage_bytes_sh, find_ns_sh, len_N_map.
  destruct (find_ns _ _ _ _ _); [reflexivity|]. destruct (_ <? _); [apply rsimf_err|].
  apply rsimf_ret. unfold sh_doc. cbn. rewrite map_app. reflexivity.
Qed.

Lemma push_ref_sh i d : rsimf shd (push_ref i d) (push_ref i (shd d)).
Proof.
  clear Hvalid Hws. unfold push_ref. cbn [sh_doc d_ns_tree]. destruct (nth_N _ _); reflexivity.
Qed.

Lemma ns_prefix_at_sh d idx : ns_prefix_at text2 (shd d) idx = ns_prefix_at text d idx.
Proof.
  clear Hvalid Hws. unfold ns_prefix_at. cbn [sh_doc d_ns_values]. rewrite nth_N_map.
  destruct (nth_N _ _); cbn; [rewrite ns_name_bytes_sh|]; reflexivity.
Qed.

Lemma any_prefix_sh d : forall idxs prefix, any_prefix text2 (shd d) idxs prefix = any_prefix text d idxs prefix.
Proof.
  clear Hvalid Hws. induction idxs as [|i r IH]; intros prefix; cbn [any_prefix]; [reflexivity|].
  rewrite ns_prefix_at_sh. destruct (ns_prefix_at text d i); cbn [bind]; try reflexivity.
  destruct (opt_str_eqb _ _); [reflexivity|apply IH].
Qed.

Lemma ns_exists_sh d start prefix : ns_exists text2 (shd d) start prefix = ns_exists text d start prefix.
Proof.
  clear Hvalid Hws. unfold ns_exists. cbn [sh_doc d_ns_tree]. destruct (_ <? _); [reflexivity|]. apply any_prefix_sh.
Qed.

Lemma find_prefix_idx_sh d : forall idxs prefix,
  find_prefix_idx text2 (shd d) idxs prefix = find_prefix_idx text d idxs prefix.
Proof.
  clear Hvalid Hws. induction idxs as [|i r IH]; intros prefix; cbn [find_prefix_idx]; [reflexivity|].
  rewrite ns_prefix_at_sh. destruct (ns_prefix_at text d i); cbn [bind]; try reflexivity.
  destruct (opt_str_eqb _ _); [reflexivity|apply IH].
Qed.

(* any slice with the same bytes will do for the prefix *)
Lemma get_ns_idx_by_prefix_sh nss pp pp' prefix prefix' d :
  slice_bytes text2 prefix' = slice_bytes text prefix ->
  rsimf idf (get_ns_idx_by_prefix text nss pp prefix d) (get_ns_idx_by_prefix text2 nss pp' prefix' (shd d)).
Proof.
  intros Hb. unfold get_ns_idx_by_prefix. cbv zeta. rewrite Hb.
  destruct (bytes_eqb _ _); [reflexivity|].
  eapply rsimf_bind; [unfold ns_range_slice; cbn [sh_doc d_ns_tree]; apply id_sim|]. intros idxs _. unfold idf.
  rewrite find_prefix_idx_sh.
  eapply rsimf_bind; [apply id_sim|]. intros found _. unfold idf.
  destruct found; [reflexivity|]. destruct (slice_bytes text prefix); [reflexivity|].
  apply (err_from_sh0 ws text Hvalid Hws).
Qed.

Lemma resolve_ns_loop_sh start : forall is d,
  rsimf shd (resolve_ns_loop text start is d) (resolve_ns_loop text2 start is (shd d)).
Proof.
  clear Hvalid Hws. induction is as [|i is IH]; intros d; cbn [resolve_ns_loop]; [reflexivity|].
  cbn [sh_doc d_ns_tree].
  eapply rsimf_bind; [apply id_sim|]. intros vidx _. unfold idf.
  change {| d_nodes := map (sh_node k) (d_nodes d); d_attrs := map (sh_attr k) (d_attrs d);
            d_ns_values := map (sh_ns k) (d_ns_values d); d_ns_tree := d_ns_tree d |} with (shd d).
  rewrite ns_prefix_at_sh.
  eapply rsimf_bind; [apply id_sim|]. intros name _. unfold idf. rewrite ns_exists_sh.
  eapply rsimf_bind; [apply id_sim|]. intros ex _. unfold idf.
  eapply rsimf_bind with (f := shd). { destruct ex; [reflexivity|apply push_ref_sh]. }
  intros d1 _. apply IH.
Qed.

Lemma resolve_namespaces_sh c :
  rsimf (pmap idf shc) (resolve_namespaces text c) (resolve_namespaces text2 (shc c)).
Proof.
  clear Hvalid Hws. unfold resolve_namespaces. cbv zeta. bsync.
  destruct (nth_N (d_nodes (c_doc c)) (c_parent_id c)) as [pnd|]; cbn [option_map bind]; [|reflexivity].
  cbn [sh_node nd_kind]. destruct (nd_kind pnd) as [|ns local ar [pa pe]| | |]; cbn [sh_kind].
  all: try (eapply rsimf_bind; [apply id_sim|]; intros r _; reflexivity).
  destruct (_ =? _); [reflexivity|].
  eapply rsimf_bind; [apply (resolve_ns_loop_sh _ _ (c_doc c))|]. intros d1 _. cbv beta.
  cbn [sh_doc d_ns_tree].
  eapply rsimf_bind; [apply id_sim|]. intros r _. reflexivity.
Qed.

(* ---- attributes ---- *)
Lemma attr_expanded_name_sh d ns_idx local :
  attr_expanded_name text2 (shd d) ns_idx (shl local) = attr_expanded_name text d ns_idx local.
Proof.
  clear Hvalid Hws. unfold attr_expanded_name. rewrite (slice_bytes_shift ws). destruct ns_idx; [|reflexivity].
  cbn [sh_doc d_ns_values]. rewrite nth_N_map. destruct (nth_N _ _); cbn; [rewrite storage_bytes_sh|]; reflexivity.
Qed.

Lemma any_same_name_sh d : forall l name,
  any_same_name text2 (shd d) (map (sh_attr k) l) name = any_same_name text d l name.
Proof.
  clear Hvalid Hws. induction l as [|a l IH]; intros name; cbn [map any_same_name]; [reflexivity|].
  cbn [sh_attr ad_ns_idx ad_local]. rewrite attr_expanded_name_sh.
  destruct (attr_expanded_name text d (ad_ns_idx a) (ad_local a)); cbn [bind]; try reflexivity.
  destruct (_ && _); [reflexivity|apply IH].
Qed.

Lemma skipn_map {A B} (g : A -> B) n l : skipn n (map g l) = map g (skipn n l).
Proof. revert l. induction n; intros [|x l]; cbn; auto. Qed.

Lemma resolve_attrs_loop_sh nss start : forall l d,
  rsimf shd (resolve_attrs_loop text nss start l d)
        (resolve_attrs_loop text2 nss start (map (sh_tattr k) l) (shd d)).
Proof.
  induction l as [|a l IH]; intros d; cbn [map resolve_attrs_loop]; [reflexivity|].
  cbv zeta. cbn [sh_tattr ta_prefix ta_local ta_range ta_value ta_qname_len ta_eq_len].
  rewrite !(slice_bytes_shift ws).
  eapply rsimf_bind with (f := idf).
  { destruct (bytes_eqb _ _); [reflexivity|]. destruct (slice_bytes text (ta_prefix a)) eqn:Eb; [reflexivity|].
    apply get_ns_idx_by_prefix_sh. apply (slice_bytes_shift ws). }
  intros ns_idx _. unfold idf. rewrite attr_expanded_name_sh.
  eapply rsimf_bind; [apply id_sim|]. intros name _. unfold idf.
  cbn [sh_doc d_attrs]. rewrite skipn_map.
  change {| d_nodes := map (sh_node k) (d_nodes d); d_attrs := map (sh_attr k) (d_attrs d);
            d_ns_values := map (sh_ns k) (d_ns_values d); d_ns_tree := d_ns_tree d |} with (shd d).
  rewrite any_same_name_sh.
  eapply rsimf_bind; [apply id_sim|]. intros dup _. unfold idf.
  destruct dup; [apply (err_from_sh0 ws text Hvalid Hws)|].
  match goal with |- rsimf _ _ (resolve_attrs_loop _ _ _ _ ?d2) =>
    replace d2 with (shd (set_attrs d (d_attrs d ++ [{| ad_ns_idx := ns_idx; ad_local := ta_local a;
                        ad_value := ta_value a; ad_range := ta_range a;
                        ad_qname_len := ta_qname_len a; ad_eq_len := ta_eq_len a |}])))
  end.
  - apply IH.
  - unfold sh_doc, set_attrs. cbn. rewrite map_app. reflexivity.
Qed.

Lemma resolve_attributes_sh nss c :
  rsimf (pmap idf shc) (resolve_attributes text nss c) (resolve_attributes text2 nss (shc c)).
Proof.
  unfold resolve_attributes. bsync.
  destruct (c_cur_attrs c) as [|a0 l0] eqn:Ec; cbn [map]; [reflexivity|].
  change (sh_tattr k a0 :: map (sh_tattr k) l0) with (map (sh_tattr k) (a0 :: l0)). rewrite len_N_map.
  destruct (_ <=? _); [apply rsimf_err|].
  eapply rsimf_bind; [apply (resolve_attrs_loop_sh nss _ (a0 :: l0) (c_doc c))|]. intros d1 _. cbv beta.
  cbn [sh_doc d_attrs]. rewrite len_N_map.
  eapply rsimf_bind; [apply id_sim|]. intros r _. reflexivity.
Qed.

(* ---- the loop detector ---- *)
Lemma inc_depth_sh s ld : rsimf idf (inc_depth text s ld) (inc_depth text2 (shs s) ld).
Proof. unfold inc_depth. destruct (_ <? _); [reflexivity|apply (err_at_sh0 ws text Hvalid)]. Qed.

Lemma inc_references_sh s ld : rsimf idf (inc_references text s ld) (inc_references text2 (shs s) ld).
Proof.
  unfold inc_references. destruct (_ =? 0); [reflexivity|].
  destruct (_ =? _); [apply (err_at_sh0 ws text Hvalid)|reflexivity].
Qed.

End Shift.

(* ---- normalize_attribute: the inner loop with a name ---- *)
Definition norm_loop (tx : bytes)
    (rec : list entity -> slice -> text_buffer -> loop_detector -> res (text_buffer * loop_detector))
    (entities : list entity) :=
  fix loop (fuel : nat) (s : Stream.stream) (t : text_buffer) (ld : loop_detector) {struct fuel}
    : res (text_buffer * loop_detector) :=
    match fuel with
    | O => OutOfFuel
    | S fu =>
      if at_end s then Ok (t, ld) else
      let! x := curr_byte_unchecked s in
      if negb (x =? 38) then
        if (x =? 60) && (0 <? ld_depth ld) then err_at tx s InvalidAttributeValue
        else
          let! s := advance 1 s in
          loop fu s (tb_push_from_attr x (curr_byte_opt s) t) ld
      else
        let start := s_pos s in
        let! r := consume_reference tx s in
        match r with
        | Some (RefChar ch, s) =>
          match push_char_bytes_attr (encode_utf8 ch) (0 <? ld_depth ld) t with
          | Some t => loop fu s t ld
          | None => err_from tx start InvalidAttributeValue
          end
        | Some (RefEntity name, s) =>
          match find_entity tx entities (slice_bytes tx name) with
          | Some e =>
            let! ld := inc_references tx s ld in
            let! ld := inc_depth tx s ld in
            let! (t, ld) := rec entities (en_value e) t ld in
            loop fu s t (dec_depth ld)
          | None => err_from tx start (UnknownEntityReference (slice_bytes tx name))
          end
        | None => err_from tx start MalformedEntityReference
        end
    end.

Lemma norm_attr_lvl_S tx lvl entities value t ld :
  norm_attr_lvl tx (S lvl) entities value t ld =
  let! s0 := stream_from_substr tx (sl_start value) (sl_end value) in
  norm_loop tx (norm_attr_lvl tx lvl) entities (S (length (s_rest s0))) s0 t ld.
Proof. reflexivity. Qed.

Section Shift2.
Variable ws text : bytes.
Hypothesis Hvalid : valid_utf8_b text = true.
Hypothesis Hws : forallb byte_is_space ws = true.
Notation text2 := (ws ++ text).
Notation k := (blen ws).
Notation shs := (sh_s k).
Notation shl := (sh_sl k).
Notation shc := (sh_ctx k).
Notation shd := (sh_doc k).

Ltac cproj :=
  cbn [sh_ctx sh_doc c_opt c_ns_start_idx c_cur_attrs c_awaiting c_parent_prefixes c_entities c_after_text
       c_parent_id c_tag_name c_entity_floor c_ld c_doc
       set_doc set_ns_start_idx set_cur_attrs set_awaiting set_parent_prefixes set_entities
       set_after_text set_parent_id set_tag_name set_entity_floor set_ld
       d_nodes d_attrs d_ns_values d_ns_tree set_nodes set_attrs fst snd pmap idf] in *.

Lemma norm_loop_sh rec1 rec2 entities :
  (forall v t ld, rsimf idf (rec1 entities v t ld) (rec2 (map (sh_ent k) entities) (shl v) t ld)) ->
  forall fuel s t ld,
    rsimf idf (norm_loop text rec1 entities fuel s t ld)
          (norm_loop text2 rec2 (map (sh_ent k) entities) fuel (shs s) t ld).
Proof.
  intros Hrec. induction fuel as [|fu IH]; intros s t ld; cbn [norm_loop]; [reflexivity|].
  rewrite (at_end_sh ws). destruct (at_end s); [reflexivity|].
  eapply rsimf_bind; [apply (curr_byte_unchecked_sim ws)|]. intros x _. unfold idf.
  destruct (negb (x =? 38)).
  - destruct (_ && _); [apply (err_at_sh0 ws text Hvalid)|].
    eapply rsimf_bind; [apply (advance_sh ws)|]. intros s1 _. cbv beta. rewrite (curr_byte_opt_sh ws). apply IH.
  - cbv zeta.
    eapply rsimf_bind; [apply (consume_reference_sh ws text Hvalid Hws)|]. intros r _.
    destruct r as [[[name|ch] s1]|]; cbn [sh_refres option_map pmap sh_ref fst snd].
    + rewrite (slice_bytes_shift ws), find_entity_sh.
      destruct (find_entity text entities (slice_bytes text name)) as [e|]; cbn [option_map];
        [|apply (err_from_sh0 ws text Hvalid Hws)].
      eapply rsimf_bind; [apply inc_references_sh; assumption|]. intros ld1 _. unfold idf.
      eapply rsimf_bind; [apply inc_depth_sh; assumption|]. intros ld2 _. unfold idf.
      eapply rsimf_bind; [apply (Hrec (en_value e))|]. intros [t1 ld3] _. unfold idf. apply IH.
    + destruct (push_char_bytes_attr _ _ _); [apply IH|apply (err_from_sh0 ws text Hvalid Hws)].
    + apply (err_from_sh0 ws text Hvalid Hws).
Qed.

Lemma norm_attr_lvl_sh : forall lvl entities value t ld,
  rsimf idf (norm_attr_lvl text lvl entities value t ld)
        (norm_attr_lvl text2 lvl (map (sh_ent k) entities) (shl value) t ld).
Proof.
  induction lvl as [|lvl IH]; intros entities value t ld; [reflexivity|].
  rewrite !norm_attr_lvl_S. cbn [sh_sl sl_start sl_end].
  eapply rsimf_bind; [apply (stream_from_substr_sh ws)|]. intros s0 _. cbv beta. rewrite s_rest_sh.
  apply norm_loop_sh. intros v t1 ld1. apply IH.
Qed.

Lemma normalize_attribute_sh value c :
  rsimf (pmap (sh_sto k) shc) (normalize_attribute text value c)
        (normalize_attribute text2 (shl value) (shc c)).
Proof.
  unfold normalize_attribute. cbv zeta. rewrite (slice_bytes_shift ws). cproj.
  destruct (existsb _ _); [|reflexivity].
  eapply rsimf_bind; [apply norm_attr_lvl_sh|]. intros [t ld] _. unfold idf.
  eapply rsimf_bind; [apply id_sim|]. intros bs _. reflexivity.
Qed.

Lemma process_attribute_sh r ql el prefix local value c :
  rsimf shc (process_attribute text r ql el prefix local value c)
        (process_attribute text2 (sh_rng k r) ql el (shl prefix) (shl local) (shl value) (shc c)).
Proof.
  unfold process_attribute.
  eapply rsimf_bind; [apply normalize_attribute_sh|]. intros [v c1] _. cbn [pmap fst snd]. cbv beta iota zeta.
  rewrite !(slice_bytes_shift ws), (storage_bytes_sh ws). cproj. rewrite !(ns_exists_sh ws).
  destruct (bytes_eqb (slice_bytes text prefix) xmlns_str).
  - destruct (bytes_eqb _ _); [apply (err_from_sh0 ws text Hvalid Hws)|].
    destruct (bytes_eqb _ _); [apply (err_from_sh0 ws text Hvalid Hws)|].
    destruct (_ && _); [apply (err_from_sh0 ws text Hvalid Hws)|].
    destruct (_ && _); [apply (err_from_sh0 ws text Hvalid Hws)|].
    eapply rsimf_bind; [apply id_sim|]. intros ex _. unfold idf.
    destruct ex; [apply (err_from_sh0 ws text Hvalid Hws)|].
    destruct (negb _); [|reflexivity].
    eapply rsimf_bind; [apply (push_ns_sh ws text (Some (SIn local)) v (c_doc c1))|]. intros d1 _. reflexivity.
  - rewrite ?(slice_len_shift ws).
    match goal with |- rsimf _ (if ?b then _ else _) _ => destruct b end.
    + destruct (bytes_eqb _ _); [apply (err_from_sh0 ws text Hvalid Hws)|].
      destruct (bytes_eqb _ _); [apply (err_from_sh0 ws text Hvalid Hws)|].
      eapply rsimf_bind; [apply id_sim|]. intros ex _. unfold idf.
      destruct ex; [apply (err_from_sh0 ws text Hvalid Hws)|].
      eapply rsimf_bind; [apply (push_ns_sh ws text None v (c_doc c1))|]. intros d1 _. reflexivity.
    + apply rsimf_ret. unfold sh_ctx. cproj. rewrite map_app. reflexivity.
Qed.

(* ---- text chunks ---- *)
Definition sh_chunk (ch : next_chunk) : next_chunk :=
  match ch with ChText v => ChText (shl v) | ChByte x => ChByte x | ChChar c => ChChar c end.

Lemma parse_next_chunk_sh s entities :
  rsimf (pmap sh_chunk shs) (parse_next_chunk text s entities)
        (parse_next_chunk text2 (shs s) (map (sh_ent k) entities)).
Proof.
  unfold parse_next_chunk. rewrite (at_end_sh ws). destruct (at_end s); [reflexivity|].
  eapply rsimf_bind; [apply (curr_byte_unchecked_sim ws)|]. intros x _. unfold idf.
  destruct (x =? 38).
  - cbv zeta. eapply rsimf_bind; [apply (consume_reference_sh ws text Hvalid Hws)|]. intros r _.
    destruct r as [[[name|ch] s1]|]; cbn [sh_refres option_map pmap sh_ref fst snd].
    + rewrite (slice_bytes_shift ws), (find_entity_sh ws).
      destruct (find_entity text entities (slice_bytes text name)); cbn [option_map];
        [reflexivity|apply (err_from_sh0 ws text Hvalid Hws)].
    + reflexivity.
    + apply (err_from_sh0 ws text Hvalid Hws).
  - eapply rsimf_bind; [apply (advance_sh ws)|]. intros s1 _. reflexivity.
Qed.

End Shift2.

(* ---- process_element ---- *)
Lemma resolve_attributes_tn text nss c ar c' :
  resolve_attributes text nss c = Ok (ar, c') -> c_tag_name c' = c_tag_name c.
Proof.
  unfold resolve_attributes. destruct (c_cur_attrs c); [intros [= _ <-]; reflexivity|].
  destruct (_ <=? _); [discriminate|]. intros H.
  apply bind_ok in H. destruct H as [d [_ H]]. apply bind_ok in H. destruct H as [r [_ H]].
  injection H as _ <-. reflexivity.
Qed.

Section Shift3.
Variable ws text : bytes.
Hypothesis Hvalid : valid_utf8_b text = true.
Hypothesis Hws : forallb byte_is_space ws = true.
Notation text2 := (ws ++ text).
Notation k := (blen ws).
Notation shs := (sh_s k).
Notation shl := (sh_sl k).
Notation shc := (sh_ctx k).
Notation shd := (sh_doc k).

Ltac cproj :=
  cbn [sh_ctx sh_doc c_opt c_ns_start_idx c_cur_attrs c_awaiting c_parent_prefixes c_entities c_after_text
       c_parent_id c_tag_name c_entity_floor c_ld c_doc
       set_doc set_ns_start_idx set_cur_attrs set_awaiting set_parent_prefixes set_entities
       set_after_text set_parent_id set_tag_name set_entity_floor set_ld
       d_nodes d_attrs d_ns_values d_ns_tree set_nodes set_attrs fst snd pmap idf] in *.

Lemma sh_node_range_end nd e :
  nd_set_range_end (sh_node k nd) (e + k) = sh_node k (nd_set_range_end nd e).
Proof.
  unfold sh_node, nd_set_range_end. cbn. destruct (is_root_kind (nd_kind nd)); reflexivity.
Qed.

Lemma process_element_sh e r c :
  rsimf shc (process_element text e r c) (process_element text2 (sh_ee k e) (sh_rng k r) (shc c)).
Proof.
  unfold process_element. cproj. rewrite (slice_len_tn ws).
  destruct (slice_len (tn_name (c_tag_name c)) =? 0) eqn:Etn.
  { destruct e; cbn [sh_ee]; first [reflexivity | apply (err_from_sh0 ws text Hvalid Hws)]. }
  eapply rsimf_bind; [apply (resolve_namespaces_sh ws)|]. intros [nss c1] E1. cbn [pmap fst snd idf]. cbv beta iota.
  assert (T1 : c_tag_name c1 = c_tag_name c).
  { pose proof (resolve_namespaces_same text c _ E1) as (_ & _ & _ & T & _). exact T. }
  cbv zeta. cproj.
  change (set_ns_start_idx (shc c1) (len_N (d_ns_tree (c_doc c1))))
    with (shc (set_ns_start_idx c1 (len_N (d_ns_tree (c_doc c1))))).
  eapply rsimf_bind; [apply (resolve_attributes_sh ws text Hvalid Hws)|]. intros [ar c3] E3.
  cbn [pmap fst snd idf]. cbv beta iota.
  assert (T3 : c_tag_name c3 = c_tag_name c).
  { apply resolve_attributes_tn in E3. cbn [set_ns_start_idx c_tag_name] in E3. congruence. }
  assert (Etn3 : (slice_len (tn_name (c_tag_name c3)) =? 0) = false) by (rewrite T3; exact Etn).
  cproj. rewrite (sh_tn_real ws _ Etn3). cbn [tn_prefix tn_name tn_pos tn_prefix_pos].
  destruct e as [|prefix local|]; cbn [sh_ee].
  - (* open *)
    eapply rsimf_bind; [apply (get_ns_idx_by_prefix_sh ws text Hvalid Hws); apply (slice_bytes_sl0 ws)|].
    intros idx _. unfold idf.
    eapply rsimf_bind.
    { apply (append_node_sh ws (KElement idx (tn_name (c_tag_name c3)) ar nss)
                            (tn_pos (c_tag_name c3), snd r) c3). reflexivity. }
    intros [id c4] _. cbn [pmap fst snd idf]. cbv beta iota.
    apply rsimf_ret. unfold sh_ctx. cproj. rewrite map_app. cbn [map]. reflexivity.
  - (* close *)
    rewrite len_N_map. destruct (_ <=? _); [apply (err_from_sh0 ws text Hvalid Hws)|].
    rewrite nth_N_map.
    destruct (nth_N (d_nodes (c_doc c3)) (c_parent_id c3)) as [pnd|]; cbn [option_map bind]; [|reflexivity].
    rewrite rev_map_hd. destruct (rev (c_parent_prefixes c3)) as [|pp0 ppr]; cbn [map bind]; [reflexivity|].
    cbn [sh_rng snd].
    eapply rsimf_bind.
    { apply (upd_node_sh ws). intros x. apply sh_node_range_end. }
    intros nodes' _. cbv beta.
    eapply rsimf_bind with (f := idf).
    { cbn [sh_node nd_kind]. destruct (nd_kind pnd); cbn [sh_kind]; try reflexivity.
      rewrite (slice_bytes_sl0 ws), !(slice_bytes_shift ws).
      destruct (_ || _); [apply (err_from_sh0 ws text Hvalid Hws)|reflexivity]. }
    intros _ _. cbn [sh_node nd_parent].
    destruct (nd_parent pnd); [|apply (err_from_sh0 ws text Hvalid Hws)].
    cproj. rewrite removelast_map.
    destruct (removelast (c_parent_prefixes c3)) eqn:Erl; cbn [map]; [reflexivity|].
    apply rsimf_ret. unfold sh_ctx, sh_doc. cproj. rewrite ?removelast_map, ?Erl. reflexivity.
  - (* empty *)
    eapply rsimf_bind; [apply (get_ns_idx_by_prefix_sh ws text Hvalid Hws); apply (slice_bytes_sl0 ws)|].
    intros idx _. unfold idf.
    eapply rsimf_bind.
    { apply (append_node_sh ws (KElement idx (tn_name (c_tag_name c3)) ar nss)
                            (tn_pos (c_tag_name c3), snd r) c3). reflexivity. }
    intros [id c4] _. cbn [pmap fst snd idf]. cbv beta iota. reflexivity.
Qed.

End Shift3.
