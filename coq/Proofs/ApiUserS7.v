(* Proofs/ApiUserS7.v -- USER-LEVEL corollaries of the capstone (Spec/CstFullS7.v, Proofs/CstFullS7Main.v): from the
   WRITTEN document to what each accessor of the public API returns on the parsed one, one statement per accessor
   family, no arena in any statement.  For a well-formed document d of stage S7 (a fortiori S6: [s6_in_s7]), under
   the hypotheses of [parse_render_sem_full_s7_api] ([s7_ok d opt]) and [parse (S7.render d) opt = Ok doc]:
     (A3) [user_nodes]         the node ids are 0 (Root) and 1 .. n; Descendants of the root yields 0 .. n; the node
                               1 + k is the k-th entry of [S7.sem d] -- its node_type() is that entry's
     (A1) [user_root_element]  root_element() is the entry after the comments / PIs of the prolog; its expanded name
                               is the written root name resolved in its own scope (Spec/Scope.v)
     (A2) [user_tag_name] [user_has_tag_name] [user_attribute] [user_has_attribute] [user_lookup_namespace_uri]
          [user_default_namespace] [user_lookup_prefix] [user_children]   on the element entry VElem ns local attrs nss n
     (A4) [user_text] [user_comment] [user_pi]
   [S7.sem d] is computed from the written document by Spec/ files only (references expanded, names resolved and
   scopes computed by Spec/Scope.v). *)
From Coq Require Import Ascii String.
From Coq Require Import List Arith NArith Bool Lia.
Import ListNotations.
From RX Require Import Generated.
From RX.Model Require Import Base CharClass Stream Tokenizer Doc Builder Parse Api.
From RX.Spec Require Scope Cst CstNs.
From RX.Spec Require Import CstFullS5.
From RX.Spec Require Import Text CstFull CstFullS4.
From RX.Spec Require Import CstFullS6 CstFullS7.
From RX.Proofs Require Import Tactics CstFullTree CstFullS4Sem.
From RX.Proofs Require CstFullDoc CstNsDoc CstFullS7Misc CstFullS7Doc CstFullS7Main.
From RX.Proofs Require Import ApiViewAcc ApiView ApiUserCore ApiUserAcc.
Open Scope N_scope.

(* the hypotheses of [parse_render_sem_full_s7_api] *)
Definition s7_ok (d : S7.doc) (opt : options) : Prop :=
  S7.wf_doc d = true /\
  (S7.has_dtd d = true -> allow_dtd opt = true) /\
  nodes_limit opt <= u32_max /\
  N.of_nat (length (S7.sem d)) < nodes_limit opt /\
  N.of_nat (length (S7.sem d)) < u32_max /\
  N.of_nat (S7.nattrs d) < u32_max /\
  S7.distinct_decls_le d (N.to_nat 65535) /\
  1 + N.of_nat (S7.ns_cost d) <= u32_max.

(* the id of the node that is the k-th entry of the meaning *)
Definition id_of (k : nat) : N := 1 + N.of_nat k.

(* ---------------------------------------------------------------------------------------- *)
(* the shape of the meaning: the comments / PIs of the prolog, the root element, the rest    *)
(* ---------------------------------------------------------------------------------------- *)
Lemma misc_sem (l : list uitem) : forallb (is_misc epieces) l = true ->
  length (NT.sem_items [] (CstFullTree.dens epieces CstFullS3.M0 l)) = length l /\
  forallb (fun v => negb (is_velem v)) (NT.sem_items [] (CstFullTree.dens epieces CstFullS3.M0 l)) = true.
Proof.
  induction l as [|i r IH]; intros H; [split; reflexivity|]. cbn [forallb] in H. apply andb_true_iff in H. destruct H as [H1 H2].
  destruct (IH H2) as [I1 I2]. cbn [CstFullTree.dens]. rewrite CstNsDoc.sem_items_app, app_length, forallb_app, I1, I2.
  destruct i as [? ? ? ?|?|bs|tg s v]; try discriminate; split; reflexivity.
Qed.

Lemma s7_sem_shape (d : S7.doc) : S7.wf_doc d = true ->
  exists name ens ws body es body' pre post,
    d_root (S6.x_main d) = IElem name ens ws body /\
    S7.sem d = pre ++ CstNs.sem_item [] (CstNs.IElem (x_qname name) es ws body') ++ post /\
    forallb (fun v => negb (is_velem v)) pre = true /\
    length pre = (length (S6.prolog_items d) + length (d_before (S6.x_main d)))%nat.
Proof.
  intros Hwf.
  destruct (CstFullS7Doc.s7_parts d Hwf) as [_ _ H1 _ H3 (name & ens & ws & body & Er) H5 H6 (root' & tr & Hroot & Hinl & Hl & Hp & Hns)].
  pose proof (CstFullS7Main.sem_all7 d Hwf root' tr Hinl) as Esem.
  assert (Er' : exists ens' body', root' = @IElem bpieces name ens' ws body').
  { rewrite Er, inline_item_elem in Hroot. destruct (inline_entries (level (S6.decls d) E.max_level) false ens) as [[a' ta]|]; [|discriminate].
    cbn [E.obind fst] in Hroot. destruct body as [[cs0 w2]|].
    - destruct (inline_items (level (S6.decls d) E.max_level) false cs0) as [[b0 tb0]|]; [|discriminate]. cbn [E.obind] in Hroot. injection Hroot as <- _. eauto.
    - injection Hroot as <- _. eauto. }
  destruct Er' as (ens' & body' & ->).
  unfold S7.sem. rewrite Esem. unfold CstFullS7Doc.L7. rewrite den_elem, !CstNsDoc.sem_items_app.
  pose proof (misc_sem _ (CstFullS7Main.prolog_misc d Hwf)) as [P1 P2].
  assert (Hb : forallb (is_misc epieces) (map snd (CstFullS7Doc.B1 d)) = true).
  { unfold CstFullS7Doc.B1. rewrite (CstFullDoc.regroup_items epieces). apply CstFullS7Main.before_misc. exact H3. }
  pose proof (misc_sem _ Hb) as [Q1 Q2].
  set (pre1 := NT.sem_items [] (CstFullTree.dens epieces CstFullS3.M0 (S6.prolog_items d))) in *.
  set (pre2 := NT.sem_items [] (CstFullTree.dens epieces CstFullS3.M0 (map snd (CstFullS7Doc.B1 d)))) in *.
  set (post := NT.sem_items [] (CstFullTree.dens epieces CstFullS3.M0 (map snd (d_after (S6.x_main d))))).
  exists name, ens, ws, body, (map (x_entry bpieces (val_sem bmeaning)) ens'),
    (match body' with None => None | Some (cs, ws2) => Some (CstFullTree.dens bpieces bmeaning cs, ws2) end), (pre1 ++ pre2), post.
  split; [exact Er|]. split; [|split].
  - cbn [NT.sem_items]. rewrite app_nil_r, <- !app_assoc. reflexivity.
  - rewrite forallb_app, P2, Q2. reflexivity.
  - rewrite app_length, P1, Q1. f_equal. unfold CstFullS7Doc.B1. rewrite (CstFullDoc.regroup_items epieces), map_length. reflexivity.
Qed.

Section User.
Variable d : S7.doc.
Variable opt : options.
Variable doc : document.
Hypothesis Hok : s7_ok d opt.
Hypothesis Hparse : parse (S7.render d) opt = Ok doc.
Notation text := (S7.render d).
Notation sem := (S7.sem d).

Lemma s7_view : api_view text doc = Some sem.
Proof.
  destruct Hok as (H1 & H2 & H3 & H4 & H5 & H6 & H7 & H8).
  destruct (CstFullS7Main.parse_render_sem_full_s7_api d opt H1 H2 H3 H4 H5 H6 H7 H8) as (doc' & P & V).
  rewrite Hparse in P. injection P as <-. exact V.
Qed.

Lemma s7_facts : valid_utf8_b text = true /\ nodes_limit opt <= u32_max.
Proof. destruct Hok as (H1 & _ & H3 & _). split; [apply CstFullS7Main.render_valid_utf8_s7; exact H1|exact H3]. Qed.

Lemma s7_entry k v : nth_error sem k = Some v -> api_node text doc (id_of k) = Ok (Some v).
Proof.
  destruct s7_facts as [Hu Hl]. destruct (entries_of_view text opt doc sem Hu Hl Hparse s7_view) as (_ & _ & _ & H). apply H.
Qed.

(* ---------------------------------------------------------------------------------------- *)
(* (A3) the nodes, in document order                                                         *)
(* ---------------------------------------------------------------------------------------- *)
Theorem user_nodes :
  descendants doc 0 = Ok {| it_lo := 0; it_hi := 1 + N.of_nat (length sem) |} /\
  sit_list {| it_lo := 0; it_hi := 1 + N.of_nat (length sem) |} = 0 :: map id_of (seq 0 (length sem)) /\
  node_type doc 0 = Ok NtRoot /\
  forall k v, nth_error sem k = Some v -> node_type doc (id_of k) = Ok (ntype_of v).
Proof.
  destruct s7_facts as [Hu Hl]. destruct (entries_of_view text opt doc sem Hu Hl Hparse s7_view) as (_ & D & R & H).
  split; [exact D|]. split; [|split].
  - unfold sit_list, sit_len. cbn [it_lo it_hi]. replace (N.to_nat (1 + N.of_nat (length sem) - 0)) with (S (length sem)) by lia.
    cbn [N_range]. f_equal. generalize (length sem). intros n. unfold id_of.
    change (0 + 1) with (1 + N.of_nat 0). generalize O. induction n as [|n IH]; intros a; [reflexivity|].
    cbn [N_range seq map]. f_equal. replace (1 + N.of_nat a + 1) with (1 + N.of_nat (S a)) by lia. apply IH.
  - unfold api_node in R. apply bind_ok in R. destruct R as (ty & T & R). rewrite T. destruct ty; try reflexivity.
    + repeat (apply bind_ok in R; destruct R as (? & _ & R)). discriminate.
    + apply bind_ok in R; destruct R as (? & _ & R). discriminate.
    + apply bind_ok in R; destruct R as (? & _ & R). discriminate.
    + apply bind_ok in R; destruct R as (? & _ & R). discriminate.
  - intros k v E. apply (entry_node_type text doc). apply s7_entry. exact E.
Qed.

(* ---------------------------------------------------------------------------------------- *)
(* (A1) root_element()                                                                        *)
(* ---------------------------------------------------------------------------------------- *)
(* the root element is the entry after the comments / PIs that precede it (those of the prolog: before the DOCTYPE,
   inside its internal subset, between the DOCTYPE and the root); its expanded name is the WRITTEN name of the root
   resolved in the scope [nss] of that entry (Spec/Scope.v [resolve_elem]) *)
Theorem user_root_element : forall name ens ws body, d_root (S6.x_main d) = IElem name ens ws body ->
  let m := (length (S6.prolog_items d) + length (d_before (S6.x_main d)))%nat in
  root_element doc = Ok (id_of m) /\
  (forall k v, (k < m)%nat -> nth_error sem k = Some v -> is_velem v = false) /\
  exists attrs nss n,
    nth_error sem m =
    Some (CstNs.VElem (CstNs.ns_of (Scope.resolve_elem nss (utf8s (q_prefix name)))) (utf8s (q_local name)) attrs nss n).
Proof.
  intros name ens ws body Er m. destruct Hok as (Hwf & _). destruct s7_facts as [Hu Hl].
  destruct (s7_sem_shape d Hwf) as (name' & ens' & ws' & body0 & es & body' & pre & post & Er' & Es & Hpre & Hlen).
  rewrite Er in Er'. injection Er' as <- <- <- <-. fold m in Hlen.
  assert (Hpre' : forall k v, (k < m)%nat -> nth_error sem k = Some v -> is_velem v = false).
  { intros k v Hk E. rewrite Es, nth_error_app1 in E by lia. rewrite forallb_forall in Hpre.
    apply nth_error_In in E. specialize (Hpre v E). destruct (is_velem v); [discriminate|reflexivity]. }
  assert (Hm : exists attrs nss n, nth_error sem m =
            Some (CstNs.VElem (CstNs.ns_of (Scope.resolve_elem nss (utf8s (q_prefix name)))) (utf8s (q_local name)) attrs nss n)).
  { rewrite Es, nth_error_app2 by lia. replace (m - length pre)%nat with O by lia.
    cbn [CstNs.sem_item]. destruct body' as [[cs w2]|]; cbn [app nth_error]; eexists; eexists; eexists; reflexivity. }
  split; [|split; [exact Hpre'|exact Hm]].
  apply (root_element_of_view text opt doc sem m Hu Hl Hparse s7_view Hpre').
  destruct Hm as (a & s & n & E). eexists. split; [exact E|reflexivity].
Qed.

(* ---------------------------------------------------------------------------------------- *)
(* (A2) an element                                                                            *)
(* ---------------------------------------------------------------------------------------- *)
Section Element.
Variables (k : nat) (ns : option bytes) (local : bytes) (attrs : list (option bytes * bytes * bytes)) (nss : list Scope.binding) (n : nat).
Hypothesis Hk : nth_error sem k = Some (CstNs.VElem ns local attrs nss n).

Theorem user_tag_name : tag_name text doc (id_of k) = Ok (ns, local).
Proof. apply (elem_tag_name text doc _ _ _ _ _ _ (s7_entry _ _ Hk)). Qed.

Theorem user_has_tag_name name :
  has_tag_name text doc (id_of k) name =
  Ok (match fst name with Some _ => ename_eqb (ns, local) name | None => bytes_eqb local (snd name) end).
Proof. apply (elem_has_tag_name text doc _ _ _ _ _ _ (s7_entry _ _ Hk)). Qed.

Theorem user_attribute name : attribute text doc (id_of k) name = Ok (first_attr attrs name).
Proof. apply (elem_attribute text doc _ _ _ _ _ _ (s7_entry _ _ Hk)). Qed.

Theorem user_has_attribute name :
  has_attribute text doc (id_of k) name = Ok (match first_attr attrs name with Some _ => true | None => false end).
Proof. apply (elem_has_attribute text doc _ _ _ _ _ _ (s7_entry _ _ Hk)). Qed.

Theorem user_lookup_namespace_uri prefix : lookup_namespace_uri text doc (id_of k) prefix = Ok (Scope.lookup nss prefix).
Proof. apply (elem_lookup_namespace_uri text doc _ _ _ _ _ _ (s7_entry _ _ Hk)). Qed.

Theorem user_default_namespace : default_namespace text doc (id_of k) = Ok (Scope.lookup nss None).
Proof. apply (elem_default_namespace text doc _ _ _ _ _ _ (s7_entry _ _ Hk)). Qed.

Theorem user_lookup_prefix uri :
  lookup_prefix text doc (id_of k) uri =
  Ok (if bytes_eqb uri Scope.xml_uri then Some Scope.xml_prefix else first_prefix nss uri).
Proof. apply (elem_lookup_prefix text doc _ _ _ _ _ _ (s7_entry _ _ Hk)). Qed.

Theorem user_children : exists ch, children_list doc (id_of k) = Ok ch /\ length ch = n.
Proof. apply (elem_children text doc _ _ _ _ _ _ (s7_entry _ _ Hk)). Qed.
End Element.

(* ---------------------------------------------------------------------------------------- *)
(* (A4) text, comments, processing instructions                                               *)
(* ---------------------------------------------------------------------------------------- *)
Theorem user_text k bs : nth_error sem k = Some (CstNs.VText bs) ->
  exists st, text_storage doc (id_of k) = Ok (Some st) /\ storage_bytes text st = bs.
Proof. intros E. apply (text_entry text doc). apply s7_entry. exact E. Qed.

Theorem user_comment k bs : nth_error sem k = Some (CstNs.VComment bs) ->
  exists st, text_storage doc (id_of k) = Ok (Some st) /\ storage_bytes text st = bs.
Proof. intros E. apply (comment_entry text doc). apply s7_entry. exact E. Qed.

Theorem user_pi k target value : nth_error sem k = Some (CstNs.VPI target value) ->
  pi text doc (id_of k) = Ok (Some (target, value)).
Proof. intros E. apply (pi_entry text doc). apply s7_entry. exact E. Qed.

End User.

Print Assumptions user_nodes.
Print Assumptions user_root_element.
Print Assumptions user_tag_name.
Print Assumptions user_has_tag_name.
Print Assumptions user_attribute.
Print Assumptions user_has_attribute.
Print Assumptions user_lookup_namespace_uri.
Print Assumptions user_default_namespace.
Print Assumptions user_lookup_prefix.
Print Assumptions user_children.
Print Assumptions user_text.
Print Assumptions user_comment.
Print Assumptions user_pi.
