(* Proofs/ErrShiftSubBuild.v -- C14 (inside the internal subset), part 6.  COPY of ErrShiftEntBuild.v
   with these changes: [OKent] allows a value on EITHER side of P (never straddling it; below P
   with the margin 2), so a reference enters a sub-stream of the side of the value
   ([ent_value_side]; [norm_loop_x], [parse_next_chunk_x], [ptext_loop_x] and what follows are
   generalised from the side "below" to any side); TEntityDecl is a token ([token_with_x]).
   Original header:
   Proofs/ErrShiftSubBuild.v -- C14 (entities), part 4: the builder.  The context of the second run
   is the image [x_ctx c] of the context of the first run: every stored slice is mapped by its
   START ([m_sl] of ErrShiftMidCore.v), every stored range and position componentwise by [mS]
   (what lies below P stays, the rest moves by k).  The invariant [CI] says that no stored slice
   straddles P and that the values of the entities lie (with a margin) below P. *)
From Coq Require Import Ascii String.
From Coq Require Import List Arith NArith Bool Lia ZifyBool ZifyN ZifyNat.
Import ListNotations.
From RX Require Import Generated.
From RX.Model Require Import Base CharClass Stream Tokenizer Doc Builder Parse.
From RX.Proofs Require Import Tactics NoPanicUtf8 NoPanicStream PositionProofs BorrowLocal BorrowParse
  RangeShiftBase RangeShiftStream RangeShiftTokenizer RangeShiftBuilder
  ErrShiftBase ErrShiftBuilder ErrShiftMidCore
  ErrShiftSubBase ErrShiftSubStream ErrShiftSubTok.
Open Scope N_scope.

(* ---- the maps ---- *)
Definition mS (P k x : N) : N := if x <? P then x else x + k.
Definition x_rng (P k : N) (r : range) : range := (mS P k (fst r), mS P k (snd r)).
Definition x_cow (P k : N) (x : cow) : cow :=
  match x with CowBorrowed s => CowBorrowed (m_sl P k s) | CowOwned bs => CowOwned bs end.
Definition x_node (P k : N) (nd : node_data) : node_data :=
  {| nd_parent := nd_parent nd; nd_prev_sibling := nd_prev_sibling nd;
     nd_next_subtree := nd_next_subtree nd; nd_last_child := nd_last_child nd;
     nd_kind := m_kind P k (nd_kind nd); nd_range := x_rng P k (nd_range nd) |}.
Definition x_attr (P k : N) (a : attr_data) : attr_data :=
  {| ad_ns_idx := ad_ns_idx a; ad_local := m_sl P k (ad_local a); ad_value := m_sto P k (ad_value a);
     ad_range := x_rng P k (ad_range a); ad_qname_len := ad_qname_len a; ad_eq_len := ad_eq_len a |}.
Definition x_doc (P k : N) (d : document) : document :=
  {| d_nodes := map (x_node P k) (d_nodes d); d_attrs := map (x_attr P k) (d_attrs d);
     d_ns_values := map (m_ns P k) (d_ns_values d); d_ns_tree := d_ns_tree d |}.
Definition x_tattr (P k : N) (a : temp_attr) : temp_attr :=
  {| ta_prefix := m_sl P k (ta_prefix a); ta_local := m_sl P k (ta_local a);
     ta_value := m_sto P k (ta_value a); ta_range := x_rng P k (ta_range a);
     ta_qname_len := ta_qname_len a; ta_eq_len := ta_eq_len a |}.
Definition x_ent (P k : N) (e : entity) : entity :=
  {| en_name := m_sl P k (en_name e); en_value := m_sl P k (en_value e) |}.
Definition x_tn (P k : N) (tn : tag_name_span) : tag_name_span :=
  {| tn_prefix := m_sl P k (tn_prefix tn); tn_name := m_sl P k (tn_name tn);
     tn_pos := mS P k (tn_pos tn); tn_prefix_pos := mS P k (tn_prefix_pos tn) |}.
Definition x_ctx (P k : N) (c : context) : context :=
  {| c_opt := c_opt c; c_ns_start_idx := c_ns_start_idx c;
     c_cur_attrs := map (x_tattr P k) (c_cur_attrs c); c_awaiting := c_awaiting c;
     c_parent_prefixes := map (m_sl P k) (c_parent_prefixes c);
     c_entities := map (x_ent P k) (c_entities c); c_after_text := map (x_cow P k) (c_after_text c);
     c_parent_id := c_parent_id c; c_tag_name := x_tn P k (c_tag_name c);
     c_entity_floor := c_entity_floor c; c_ld := c_ld c; c_doc := x_doc P k (c_doc c) |}.

(* ---- no stored slice straddles P ---- *)
Section OK.
Variable P : N.
Definition OKs (sl : slice) : Prop := sl_start sl < P -> sl_end sl <= P.
Definition OKstr (s : str) : Prop := match s with SIn sl => OKs sl | SStatic _ => True end.
Definition OKsto (s : storage) : Prop := match s with Borrowed x => OKstr x | Owned _ => True end.
Definition OKcow (x : cow) : Prop := match x with CowBorrowed s => OKs s | CowOwned _ => True end.
Definition OKkind (kd : node_kind) : Prop :=
  match kd with
  | KRoot => True
  | KElement _ local _ _ => OKs local
  | KPI t v => OKs t /\ match v with Some x => OKs x | None => True end
  | KComment s => OKs s
  | KText st => OKsto st
  end.
Definition OKnode (nd : node_data) : Prop := OKkind (nd_kind nd).
Definition OKattr (a : attr_data) : Prop := OKs (ad_local a) /\ OKsto (ad_value a).
Definition OKns (v : namespace) : Prop :=
  match ns_name v with Some s => OKstr s | None => True end /\ OKsto (ns_uri v).
Definition DocOK (d : document) : Prop :=
  Forall OKnode (d_nodes d) /\ Forall OKattr (d_attrs d) /\ Forall OKns (d_ns_values d).
Definition OKta (a : temp_attr) : Prop := OKs (ta_prefix a) /\ OKs (ta_local a) /\ OKsto (ta_value a).
(* the value of an entity: a well-formed slice that ends 4 bytes below P at least *)
Definition OKent (e : entity) : Prop :=
  OKs (en_name e) /\ sl_start (en_value e) <= sl_end (en_value e) /\
  (sl_end (en_value e) + 2 <= P \/ P <= sl_start (en_value e)).
Definition OKtn (tn : tag_name_span) : Prop := OKs (tn_prefix tn) /\ OKs (tn_name tn).
Record CI (c : context) : Prop := {
  ci_doc : DocOK (c_doc c);
  ci_cur : Forall OKta (c_cur_attrs c);
  ci_pp : Forall OKs (c_parent_prefixes c);
  ci_ent : Forall OKent (c_entities c);
  ci_at : Forall OKcow (c_after_text c);
  ci_tn : OKtn (c_tag_name c)
}.
End OK.

Section Ent.
Variable S : setting.
Notation pre := (st_pre S).
Notation ws := (st_ws S).
Notation post := (st_post S).
Notation T1 := (pre ++ post).
Notation T2 := (pre ++ ws ++ post).
Notation P := (blen pre).
Notation k := (blen ws).
Hypothesis HP0 : 0 < P.
Notation psim := (psim S).
Notation F := (F S).
Notation SI := (SI S).
Notation LS := (LS S).
Notation NS := (NS S).
Notation dd := (dd S).
Notation mS := (mS P k).
Notation xsl := (m_sl P k).
Notation xrng := (x_rng P k).
Notation xsto := (m_sto P k).
Notation xc := (x_ctx P k).
Notation xd := (x_doc P k).
Notation OKs := (OKs P).
Notation CI := (CI P).

(* ---- on the side hi, the maps are the shift by dd hi ---- *)
Lemma sh_sl_0 sl : sh_sl 0 sl = sl.
Proof. destruct sl as [a e]. unfold sh_sl. cbn. rewrite !N.add_0_r. reflexivity. Qed.

Lemma xsl_side hi sl : LS hi sl -> xsl sl = sh_sl (dd hi) sl /\ OKs sl.
Proof.
  intros [H1 H2]. unfold m_sl, OKs. destruct hi; cbn [ErrShiftSubBase.dd] in *.
  - replace (sl_start sl <? P) with false by lia. split; [reflexivity|lia].
  - replace (sl_start sl <? P) with true by lia. rewrite sh_sl_0. split; [reflexivity|lia].
Qed.

Lemma mS_side hi p : NS hi p -> mS p = p + dd hi.
Proof.
  unfold mS. destruct hi; cbn [ErrShiftSubBase.NS ErrShiftSubBase.dd]; intros H.
  - replace (p <? P) with false by lia. reflexivity.
  - replace (p <? P) with true by lia. lia.
Qed.

Lemma xrng_side hi r : RI S hi r -> xrng r = sh_rng (dd hi) r.
Proof.
  intros [H1 H2]. apply (NS4_NS S) in H2. unfold x_rng, sh_rng. rewrite (mS_side hi _ H1), (mS_side hi _ H2). reflexivity.
Qed.

(* ---- bytes are the same ---- *)
Lemma slice_bytes_x sl : OKs sl -> slice_bytes T2 (xsl sl) = slice_bytes T1 sl.
Proof.
  intros H. unfold m_sl, slice_bytes. destruct (sl_start sl <? P) eqn:E.
  - apply (sub_lo S). apply H. lia.
  - unfold sh_sl. cbn [sl_start sl_end]. apply (sub_hi S). lia.
Qed.

Lemma slice_len_x sl : slice_len (xsl sl) = slice_len sl.
Proof. unfold m_sl. destruct (_ <? _); [reflexivity|apply (slice_len_s k)]. Qed.

Lemma str_bytes_x s : OKstr P s -> str_bytes T2 (m_str P k s) = str_bytes T1 s.
Proof. destruct s; cbn; [apply slice_bytes_x|reflexivity]. Qed.
Lemma storage_bytes_x s : OKsto P s -> storage_bytes T2 (xsto s) = storage_bytes T1 s.
Proof. destruct s; cbn; [apply str_bytes_x|reflexivity]. Qed.
Lemma cow_bytes_x x : OKcow P x -> cow_bytes T2 (x_cow P k x) = cow_bytes T1 x.
Proof. destruct x; cbn; [apply slice_bytes_x|reflexivity]. Qed.
Lemma ns_name_bytes_x v : OKns P v -> ns_name_bytes T2 (m_ns P k v) = ns_name_bytes T1 v.
Proof.
  intros [H _]. unfold ns_name_bytes, m_ns. cbn [ns_name]. destruct (ns_name v); cbn; [rewrite str_bytes_x by exact H|]; reflexivity.
Qed.

Lemma find_ns_x : forall vals name uri i, Forall (OKns P) vals ->
  find_ns T2 (map (m_ns P k) vals) name uri i = find_ns T1 vals name uri i.
Proof.
  induction vals as [|v r IH]; intros name uri i H; cbn [map find_ns]; [reflexivity|].
  inversion H as [|? ? Hv Hr]; subst. rewrite ns_name_bytes_x by exact Hv. cbn [m_ns ns_uri].
  rewrite storage_bytes_x by apply Hv. rewrite IH by exact Hr. reflexivity.
Qed.

Lemma find_entity_x : forall es name, Forall (OKent P) es ->
  find_entity T2 (map (x_ent P k) es) name = option_map (x_ent P k) (find_entity T1 es name).
Proof.
  induction es as [|e r IH]; intros name H; cbn [map find_entity]; [reflexivity|].
  inversion H as [|? ? He Hr]; subst. cbn [x_ent en_name].
  rewrite slice_bytes_x by (destruct He as [A _]; exact A).
  destruct (bytes_eqb _ _); [reflexivity|apply IH; exact Hr].
Qed.

Lemma find_entity_ok : forall es name e, Forall (OKent P) es -> find_entity T1 es name = Some e -> OKent P e.
Proof.
  induction es as [|x r IH]; intros name e H E; cbn [find_entity] in E; [discriminate|].
  inversion H as [|? ? Hx Hr]; subst. destruct (bytes_eqb _ _); [injection E as <-; exact Hx|eapply IH; eassumption].
Qed.

(* the value of an entity is a slice of one of the two sides *)
Lemma ent_value_side e : OKent P e -> exists hv, LS hv (en_value e).
Proof.
  intros (_ & H1 & [H2|H2]); [exists false|exists true]; split; assumption.
Qed.

Lemma nth_N_Forall {A} (Q : A -> Prop) l i x : Forall Q l -> nth_N l i = Some x -> Q x.
Proof.
  intros H E. unfold nth_N in E. destruct (_ <=? _); [discriminate|]. apply nth_error_In in E.
  rewrite Forall_forall in H. apply H. exact E.
Qed.

Lemma ns_prefix_at_x d idx : DocOK P d -> ns_prefix_at T2 (xd d) idx = ns_prefix_at T1 d idx.
Proof.
  intros (_ & _ & H). unfold ns_prefix_at. cbn [x_doc d_ns_values]. rewrite nth_N_map.
  destruct (nth_N (d_ns_values d) idx) as [v|] eqn:E; cbn [option_map]; [|reflexivity].
  rewrite ns_name_bytes_x by (eapply nth_N_Forall; eassumption). reflexivity.
Qed.

Lemma any_prefix_x d : DocOK P d -> forall idxs prefix, any_prefix T2 (xd d) idxs prefix = any_prefix T1 d idxs prefix.
Proof.
  intros H. induction idxs as [|i r IH]; intros prefix; cbn [any_prefix]; [reflexivity|].
  rewrite ns_prefix_at_x by exact H. destruct (ns_prefix_at T1 d i); cbn [bind]; try reflexivity.
  destruct (opt_str_eqb _ _); [reflexivity|apply IH].
Qed.

Lemma ns_exists_x d start prefix : DocOK P d -> ns_exists T2 (xd d) start prefix = ns_exists T1 d start prefix.
Proof.
  intros H. unfold ns_exists. cbn [x_doc d_ns_tree]. destruct (_ <? _); [reflexivity|]. apply any_prefix_x. exact H.
Qed.

Lemma find_prefix_idx_x d : DocOK P d -> forall idxs prefix,
  find_prefix_idx T2 (xd d) idxs prefix = find_prefix_idx T1 d idxs prefix.
Proof.
  intros H. induction idxs as [|i r IH]; intros prefix; cbn [find_prefix_idx]; [reflexivity|].
  rewrite ns_prefix_at_x by exact H. destruct (ns_prefix_at T1 d i); cbn [bind]; try reflexivity.
  destruct (opt_str_eqb _ _); [reflexivity|apply IH].
Qed.

Lemma attr_expanded_name_x d i l : DocOK P d -> OKs l ->
  attr_expanded_name T2 (xd d) i (xsl l) = attr_expanded_name T1 d i l.
Proof.
  intros (_ & _ & H) Hl. unfold attr_expanded_name. rewrite slice_bytes_x by exact Hl.
  destruct i as [j|]; [|reflexivity]. cbn [x_doc d_ns_values]. rewrite nth_N_map.
  destruct (nth_N (d_ns_values d) j) as [v|] eqn:E; cbn [option_map]; [|reflexivity].
  cbn [m_ns ns_uri]. rewrite storage_bytes_x by (apply (nth_N_Forall _ _ _ _ H E)). reflexivity.
Qed.

Lemma any_same_name_x d name : DocOK P d -> forall l, Forall (OKattr P) l ->
  any_same_name T2 (xd d) (map (x_attr P k) l) name = any_same_name T1 d l name.
Proof.
  intros H. induction l as [|a l IH]; intros Hl; cbn [map any_same_name]; [reflexivity|].
  inversion Hl as [|? ? Ha Hr]; subst. cbn [x_attr ad_ns_idx ad_local].
  rewrite attr_expanded_name_x by (try exact H; apply Ha).
  destruct (attr_expanded_name T1 d (ad_ns_idx a) (ad_local a)); cbn [bind]; try reflexivity.
  destruct (_ && _); [reflexivity|apply IH; exact Hr].
Qed.


(* ---- errors at a stored position ---- *)
Lemma err_from_x {A B} p mk (I : A -> Prop) (g : A -> B) : pos_ctor mk ->
  psim I g (@err_from T1 A p mk) (@err_from T2 B (mS p) mk).
Proof.
  intros Hmk. unfold mS. destruct (p <? P) eqn:E.
  - apply (err_from_ps S false); [exact Hmk|cbn [ErrShiftSubBase.NS]; lia|cbn [ErrShiftSubBase.dd]; lia].
  - apply (err_from_ps S true); [exact Hmk|cbn [ErrShiftSubBase.NS]; lia|reflexivity].
Qed.

Ltac cproj :=
  cbn [x_ctx x_doc c_opt c_ns_start_idx c_cur_attrs c_awaiting c_parent_prefixes c_entities c_after_text
       c_parent_id c_tag_name c_entity_floor c_ld c_doc
       set_doc set_ns_start_idx set_cur_attrs set_awaiting set_parent_prefixes set_entities
       set_after_text set_parent_id set_tag_name set_entity_floor set_ld
       d_nodes d_attrs d_ns_values d_ns_tree set_nodes set_attrs fst snd pmap] in *; unfold idf in *.
Ltac efx := apply err_from_x; pc.
Ltac nopos := apply psim_same_err; reflexivity.
Ltac idp := eapply psim_weaken; [apply id_psim; np|intros ? _; split; [exact I|reflexivity]].

Notation xn := (x_node P k).
Notation NOK := (Forall (OKnode P)).

(* ---- nodes ---- *)
Lemma list_upd_Forall {A} (Q : A -> Prop) (f : A -> A) : forall l i l', list_upd l i f = Some l' ->
  (forall x, Q x -> Q (f x)) -> Forall Q l -> Forall Q l'.
Proof.
  induction l as [|x r IH]; intros i l' E Hf HN; cbn [list_upd] in E; [discriminate|].
  inversion HN as [|? ? Hx Hr]; subst. destruct i as [|i].
  - injection E as <-. constructor; [apply Hf; exact Hx|exact Hr].
  - destruct (list_upd r i f) as [l0|] eqn:E'; [|discriminate]. injection E as <-.
    constructor; [exact Hx|eapply IH; eassumption].
Qed.

Lemma upd_node_x nodes i f1 f2 : (forall x, f2 (xn x) = xn (f1 x)) -> (forall x, OKnode P x -> OKnode P (f1 x)) ->
  NOK nodes -> psim NOK (map xn) (upd_node nodes i f1) (upd_node (map xn nodes) i f2).
Proof.
  intros Hf Hok HN. unfold upd_node. rewrite (list_upd_map _ f1 f2) by exact Hf.
  destruct (list_upd nodes (N.to_nat i) f1) as [l|] eqn:E; cbn [option_map]; [|reflexivity].
  split; [|reflexivity]. eapply list_upd_Forall; eassumption.
Qed.

Lemma set_next_subtree_all_x : forall ids nodes v, NOK nodes ->
  psim NOK (map xn) (set_next_subtree_all nodes ids v) (set_next_subtree_all (map xn nodes) ids v).
Proof.
  induction ids as [|i ids IH]; intros nodes v HN; cbn [set_next_subtree_all]; [apply psim_ret; [exact HN|reflexivity]|].
  eapply psim_bind; [apply upd_node_x; [intros x; reflexivity|intros x Hx; exact Hx|exact HN]|]. intros l Hl. apply IH. exact Hl.
Qed.

Lemma CI_nodes c nodes : CI c -> NOK nodes -> CI (set_doc c (set_nodes (c_doc c) nodes)).
Proof.
  intros [[H1 [H2 H3]] H4 H5 H6 H7 H8] HN. constructor; cproj; try assumption. split; [exact HN|split; assumption].
Qed.

Lemma append_node_x kind r c : CI c -> OKkind P kind ->
  psim (fun x => CI (snd x)) (pmap idf xc) (append_node kind r c) (append_node (m_kind P k kind) (xrng r) (xc c)).
Proof.
  intros Hc Hk. unfold append_node. cbv zeta. cproj. rewrite len_N_map.
  destruct (_ <=? _); [nopos|].
  eapply psim_bind; [idp|]. intros id _. cbv beta.
  set (new1 := {| nd_parent := Some (c_parent_id c); nd_prev_sibling := None; nd_next_subtree := None;
                  nd_last_child := None; nd_kind := kind; nd_range := r |}).
  match goal with |- psim _ _ _ (bind (match nth_N (?l ++ [?n2]) _ with _ => _ end) _) =>
    replace (l ++ [n2]) with (map xn (d_nodes (c_doc c) ++ [new1])) by (rewrite map_app; reflexivity)
  end.
  rewrite nth_N_map.
  assert (HN : NOK (d_nodes (c_doc c) ++ [new1])).
  { apply Forall_app. split; [apply (ci_doc _ _ Hc)|]. constructor; [exact Hk|constructor]. }
  destruct (nth_N (d_nodes (c_doc c) ++ [new1]) (c_parent_id c)) as [pnd|]; cbn [option_map bind]; [|reflexivity].
  eapply psim_bind; [apply upd_node_x; [intros x; reflexivity|intros x Hx; exact Hx|exact HN]|]. intros l1 H1. cbv beta.
  eapply psim_bind; [apply upd_node_x; [intros x; reflexivity|intros x Hx; exact Hx|exact H1]|]. intros l2 H2. cbv beta.
  eapply psim_bind; [apply set_next_subtree_all_x; exact H2|]. intros l3 H3. cbv beta.
  replace (is_element_kind (m_kind P k kind)) with (is_element_kind kind) by (destruct kind; reflexivity).
  apply psim_ret; [|reflexivity]. cbn [snd].
  pose proof (CI_nodes c l3 Hc H3) as [A1 A2 A3 A4 A5 A6]. constructor; cproj; assumption.
Qed.

(* ---- text ---- *)
Lemma append_text_x t r c : CI c -> OKcow P t ->
  psim CI xc (append_text t r c) (append_text (x_cow P k t) (xrng r) (xc c)).
Proof.
  intros Hc Ht. unfold append_text. cproj.
  eapply psim_bind with (I := CI) (g := xc).
  - destruct (c_after_text c); cbn [map]; [|apply psim_ret; [exact Hc|reflexivity]].
    eapply psim_bind.
    + replace (KText match x_cow P k t with CowBorrowed s => Borrowed (SIn s) | CowOwned bs => Owned bs end)
        with (m_kind P k (KText match t with CowBorrowed s => Borrowed (SIn s) | CowOwned bs => Owned bs end))
        by (destruct t; reflexivity).
      apply append_node_x; [exact Hc|]. destruct t; exact Ht.
    + intros [id c1] H1. apply psim_ret; [exact H1|reflexivity].
  - intros c1 [A1 A2 A3 A4 A5 A6]. cbv beta. apply psim_ret.
    + constructor; cproj; try assumption. apply Forall_app. split; [assumption|constructor; [exact Ht|constructor]].
    + unfold x_ctx. cproj. rewrite map_app. reflexivity.
Qed.

Lemma merge_text_x c : CI c -> psim CI xc (merge_text T1 c) (merge_text T2 (xc c)).
Proof.
  intros Hc. unfold merge_text. cbv zeta. cproj. rewrite rev_map_hd.
  destruct (rev (d_nodes (c_doc c))) as [|nd l] eqn:Er; cbn [map]; [reflexivity|].
  cbn [x_node nd_kind]. destruct (nd_kind nd) eqn:Ek; cbn [m_kind]; try reflexivity.
  rewrite map_map, len_N_map.
  replace (map (fun x => cow_bytes T2 (x_cow P k x)) (c_after_text c)) with (map (cow_bytes T1) (c_after_text c)).
  2:{ pose proof (ci_at _ _ Hc) as H. induction H as [|x r Hx _ IH]; [reflexivity|]. cbn [map]. rewrite IH, cow_bytes_x by exact Hx. reflexivity. }
  eapply psim_bind.
  - apply upd_node_x; [intros x; reflexivity|intros x _; exact I|apply (ci_doc _ _ Hc)].
  - intros nodes' Hn. apply psim_ret; [apply CI_nodes; assumption|reflexivity].
Qed.

Lemma reset_after_text_x c : CI c -> psim CI xc (reset_after_text T1 c) (reset_after_text T2 (xc c)).
Proof.
  intros Hc. unfold reset_after_text. cproj.
  assert (H0 : CI (set_after_text c [])) by (destruct Hc; constructor; cproj; try assumption; constructor).
  destruct (c_after_text c) as [|x [|y l]]; cbn [map].
  - apply psim_ret; [exact Hc|reflexivity].
  - apply psim_ret; [exact H0|reflexivity].
  - eapply psim_bind; [apply merge_text_x; exact Hc|]. intros c1 H1.
    apply psim_ret; [destruct H1; constructor; cproj; try assumption; constructor|reflexivity].
Qed.

Lemma process_cdata_x hi t r c : CI c -> LS hi t -> RI S hi r ->
  psim CI xc (process_cdata T1 t r c) (process_cdata T2 (sh_sl (dd hi) t) (sh_rng (dd hi) r) (xc c)).
Proof.
  intros Hc Ht Hr. destruct (xsl_side hi t Ht) as [Et Hok]. rewrite <- Et, <- (xrng_side hi r Hr).
  unfold process_cdata. cbv zeta. rewrite slice_bytes_x by exact Hok.
  destruct (mem_b 13 _).
  - apply (append_text_x (CowOwned _)); [exact Hc|exact I].
  - apply (append_text_x (CowBorrowed t)); [exact Hc|exact Hok].
Qed.


(* ---- namespaces ---- *)
Notation DOK := (DocOK P).

Lemma push_ns_x name uri d : DOK d -> match name with Some s => OKstr P s | None => True end -> OKsto P uri ->
  psim DOK xd (push_ns T1 name uri d) (push_ns T2 (option_map (m_str P k) name) (xsto uri) (xd d)).
Proof.
  intros (H1 & H2 & H3) Hn Hu. unfold push_ns. cbn [x_doc d_ns_values d_nodes d_attrs d_ns_tree].
  replace (match option_map (m_str P k) name with Some s => Some (str_bytes T2 s) | None => None end)
    with (match name with Some s => Some (str_bytes T1 s) | None => None end)
    by (destruct name; cbn; [rewrite str_bytes_x by exact Hn|]; reflexivity).
  rewrite storage_bytes_x by exact Hu. rewrite find_ns_x by exact H3. rewrite len_N_map.
  destruct (find_ns _ _ _ _ _).
  - apply psim_ret; [split; [|split]; assumption|reflexivity].
  - destruct (_ <? _); [nopos|]. apply psim_ret.
    + split; [exact H1|]. split; [exact H2|]. cbn [d_ns_values]. apply Forall_app. split; [exact H3|].
      constructor; [|constructor]. split; [exact Hn|exact Hu].
    + unfold x_doc. cbn. rewrite map_app. reflexivity.
Qed.

Lemma push_ref_x i d : DOK d -> psim DOK xd (push_ref i d) (push_ref i (xd d)).
Proof.
  intros H. unfold push_ref. cbn [x_doc d_ns_tree]. destruct (nth_N _ _); [|reflexivity].
  apply psim_ret; [exact H|reflexivity].
Qed.

Lemma get_ns_idx_by_prefix_x nss pp prefix prefix' d : DOK d ->
  slice_bytes T2 prefix' = slice_bytes T1 prefix ->
  psim TT idf (get_ns_idx_by_prefix T1 nss pp prefix d) (get_ns_idx_by_prefix T2 nss (mS pp) prefix' (xd d)).
Proof.
  intros H Hb. unfold get_ns_idx_by_prefix. cbv zeta. rewrite Hb.
  destruct (bytes_eqb _ _); [apply psim_ret; [exact I|reflexivity]|].
  change (ns_range_slice (xd d) nss) with (ns_range_slice d nss).
  eapply psim_bind; [idp|]. intros idxs _.
  rewrite find_prefix_idx_x by exact H.
  eapply psim_bind; [idp|]. intros found _.
  destruct found; [apply psim_ret; [exact I|reflexivity]|].
  destruct (slice_bytes T1 prefix); [apply psim_ret; [exact I|reflexivity]|]. efx.
Qed.

Lemma resolve_ns_loop_x start : forall is d, DOK d ->
  psim DOK xd (resolve_ns_loop T1 start is d) (resolve_ns_loop T2 start is (xd d)).
Proof.
  induction is as [|i is IH]; intros d H; cbn [resolve_ns_loop]; [apply psim_ret; [exact H|reflexivity]|].
  change (d_ns_tree (xd d)) with (d_ns_tree d).
  eapply psim_bind; [idp|]. intros vidx _.
  rewrite ns_prefix_at_x by exact H.
  eapply psim_bind; [idp|]. intros name _. rewrite ns_exists_x by exact H.
  eapply psim_bind; [idp|]. intros ex _.
  eapply psim_bind with (I := DOK) (g := xd). { destruct ex; [apply psim_ret; [exact H|reflexivity]|apply push_ref_x; exact H]. }
  intros d1 H1. apply IH. exact H1.
Qed.

Lemma CI_doc c d : CI c -> DOK d -> CI (set_doc c d).
Proof. intros [H1 H2 H3 H4 H5 H6] Hd. constructor; cproj; assumption. Qed.

Lemma resolve_namespaces_x c : CI c ->
  psim (fun x => CI (snd x)) (pmap idf xc) (resolve_namespaces T1 c) (resolve_namespaces T2 (xc c)).
Proof.
  intros Hc. unfold resolve_namespaces. cbv zeta. cproj. rewrite nth_N_map.
  destruct (nth_N (d_nodes (c_doc c)) (c_parent_id c)) as [pnd|]; cbn [option_map bind]; [|reflexivity].
  cbn [x_node nd_kind]. destruct (nd_kind pnd) as [|ns local ar [pa pe]| | |]; cbn [m_kind].
  all: try (eapply psim_bind; [idp|]; intros r _; apply psim_ret; [exact Hc|reflexivity]).
  destruct (_ =? _); [apply psim_ret; [exact Hc|reflexivity]|].
  eapply psim_bind; [apply (resolve_ns_loop_x _ _ (c_doc c)); apply (ci_doc _ _ Hc)|]. intros d1 H1. cbv beta.
  cbn [x_doc d_ns_tree].
  eapply psim_bind; [idp|]. intros r _. apply psim_ret; [apply CI_doc; assumption|reflexivity].
Qed.

Lemma skipn_Forall {A} (Q : A -> Prop) n l : Forall Q l -> Forall Q (skipn n l).
Proof. revert l. induction n as [|n IH]; intros l H; [exact H|]. destruct l; [exact H|]. inversion H; subst. apply IH. assumption. Qed.

Lemma resolve_attrs_loop_x nss start : forall l d, DOK d -> Forall (OKta P) l ->
  psim DOK xd (resolve_attrs_loop T1 nss start l d) (resolve_attrs_loop T2 nss start (map (x_tattr P k) l) (xd d)).
Proof.
  induction l as [|a l IH]; intros d H Hl; cbn [map resolve_attrs_loop]; [apply psim_ret; [exact H|reflexivity]|].
  inversion Hl as [|? ? (Ha1 & Ha2 & Ha3) Hr]; subst.
  cbv zeta. cbn [x_tattr ta_prefix ta_local ta_range ta_value ta_qname_len ta_eq_len x_rng fst].
  rewrite !slice_bytes_x by assumption.
  eapply psim_bind with (I := TT) (g := idf).
  { destruct (bytes_eqb _ _); [apply psim_ret; [exact I|reflexivity]|].
    destruct (slice_bytes T1 (ta_prefix a)) eqn:Eb; [apply psim_ret; [exact I|reflexivity]|].
    apply get_ns_idx_by_prefix_x; [exact H|apply slice_bytes_x; exact Ha1]. }
  intros ns_idx _. unfold idf. rewrite attr_expanded_name_x by assumption.
  eapply psim_bind; [idp|]. intros name _. unfold idf.
  cbn [x_doc d_attrs]. rewrite skipn_map.
  change {| d_nodes := map xn (d_nodes d); d_attrs := map (x_attr P k) (d_attrs d);
            d_ns_values := map (m_ns P k) (d_ns_values d); d_ns_tree := d_ns_tree d |} with (xd d).
  rewrite any_same_name_x by (try exact H; apply skipn_Forall; apply H).
  eapply psim_bind; [idp|]. intros dup _. unfold idf.
  destruct dup; [efx|].
  match goal with |- psim _ _ _ (resolve_attrs_loop _ _ _ _ ?d2) =>
    replace d2 with (xd (set_attrs d (d_attrs d ++ [{| ad_ns_idx := ns_idx; ad_local := ta_local a;
                        ad_value := ta_value a; ad_range := ta_range a;
                        ad_qname_len := ta_qname_len a; ad_eq_len := ta_eq_len a |}])))
  end.
  - apply IH; [|exact Hr]. destruct H as (H1 & H2 & H3). split; [exact H1|]. split; [|exact H3].
    cbn [set_attrs d_attrs]. apply Forall_app. split; [exact H2|]. constructor; [|constructor]. split; assumption.
  - unfold x_doc, set_attrs. cbn. rewrite map_app. reflexivity.
Qed.

Lemma resolve_attributes_x nss c : CI c ->
  psim (fun x => CI (snd x)) (pmap idf xc) (resolve_attributes T1 nss c) (resolve_attributes T2 nss (xc c)).
Proof.
  intros Hc. unfold resolve_attributes. cproj.
  destruct (c_cur_attrs c) as [|a0 l0] eqn:Ec; cbn [map]; [apply psim_ret; [exact Hc|reflexivity]|].
  change (x_tattr P k a0 :: map (x_tattr P k) l0) with (map (x_tattr P k) (a0 :: l0)). rewrite !len_N_map.
  destruct (_ <=? _); [nopos|].
  eapply psim_bind.
  { apply (resolve_attrs_loop_x nss _ (a0 :: l0) (c_doc c)); [apply (ci_doc _ _ Hc)|]. rewrite <- Ec. apply (ci_cur _ _ Hc). }
  intros d1 H1. cbv beta. cbn [x_doc d_attrs]. rewrite len_N_map.
  eapply psim_bind; [idp|]. intros r _. apply psim_ret; [|reflexivity]. cbn [snd].
  destruct Hc as [A1 A2 A3 A4 A5 A6]. constructor; cproj; try assumption. constructor.
Qed.


(* ---- the loop detector ---- *)
Lemma inc_depth_x hi s ld : SI hi s -> psim TT idf (inc_depth T1 s ld) (inc_depth T2 (F hi s) ld).
Proof.
  intros H. unfold inc_depth. destruct (_ <? _); [apply psim_ret; [exact I|reflexivity]|].
  apply (err_at_ps S); [pc|exact H].
Qed.

Lemma inc_references_x hi s ld : SI hi s -> psim TT idf (inc_references T1 s ld) (inc_references T2 (F hi s) ld).
Proof.
  intros H. unfold inc_references. destruct (_ =? 0); [apply psim_ret; [exact I|reflexivity]|].
  destruct (_ =? _); [apply (err_at_ps S); [pc|exact H]|apply psim_ret; [exact I|reflexivity]].
Qed.

(* ---- attribute values ---- *)
Notation EOK := (Forall (OKent P)).

Lemma norm_loop_x rec1 rec2 ents : EOK ents ->
  (forall hv v t ld, LS hv v -> psim TT idf (rec1 ents v t ld) (rec2 (map (x_ent P k) ents) (sh_sl (dd hv) v) t ld)) ->
  forall hi fu1 fu2 s t ld, (fu1 <= fu2)%nat -> SI hi s ->
    psim TT idf (norm_loop T1 rec1 ents fu1 s t ld) (norm_loop T2 rec2 (map (x_ent P k) ents) fu2 (F hi s) t ld).
Proof.
  intros He Hrec hi. induction fu1 as [|fu IH]; intros fu2 s t ld Hle H; [exact I|].
  destruct fu2 as [|fu2]; [lia|]. cbn [norm_loop].
  rewrite (at_end_F S). destruct (at_end s); [apply psim_ret; [exact I|reflexivity]|].
  eapply psim_bind; [apply (curr_byte_unchecked_ps S hi); exact H|]. intros x _. unfold idf.
  destruct (negb (x =? 38)).
  - destruct (_ && _); [apply (err_at_ps S); [pc|exact H]|].
    eapply psim_bind; [apply (advance_ps' S hi); exact H|]. intros s1 H1. cbv beta.
    rewrite (curr_byte_opt_F S) by exact H1. apply IH; [lia|exact H1].
  - cbv zeta. rewrite (s_pos_F S).
    eapply psim_bind; [apply (consume_reference_ps S hi); exact H|]. intros r Hr.
    destruct r as [[[name|ch] s1]|]; cbn [ErrShiftSubStream.sh_refres option_map pmap sh_ref fst snd ErrShiftSubStream.RefI] in *.
    + destruct Hr as [H1 Hn]. rewrite (slice_bytes_s S hi) by exact Hn. rewrite find_entity_x by exact He.
      destruct (find_entity T1 ents (slice_bytes T1 name)) as [e|] eqn:Ef; cbn [option_map].
      2:{ apply (err_from_ps S hi); [pc|eapply (SI_NS S); eassumption|reflexivity]. }
      destruct (ent_value_side e (find_entity_ok _ _ _ He Ef)) as [hv Hlv].
      eapply psim_bind; [apply (inc_references_x hi); exact H1|]. intros ld1 _. unfold idf.
      eapply psim_bind; [apply (inc_depth_x hi); exact H1|]. intros ld2 _. unfold idf.
      cbn [x_ent en_value]. rewrite (proj1 (xsl_side hv _ Hlv)).
      eapply psim_bind; [apply (Hrec hv (en_value e)); exact Hlv|]. intros [t1 ld3] _. unfold idf.
      apply IH; [lia|exact H1].
    + destruct Hr as [H1 _]. destruct (push_char_bytes_attr _ _ _); [apply IH; [lia|exact H1]|].
      apply (err_from_ps S hi); [pc|eapply (SI_NS S); eassumption|reflexivity].
    + apply (err_from_ps S hi); [pc|eapply (SI_NS S); eassumption|reflexivity].
Qed.

Lemma LS_stream hi v : LS hi v -> NS hi (sl_start v) /\ (hi = false -> sl_end v + 2 <= P).
Proof.
  intros [H1 H2]. destruct hi; cbn [ErrShiftSubBase.NS] in *; [split; [exact H2|discriminate]|].
  split; [lia|]. intros _. exact H2.
Qed.

Lemma norm_attr_lvl_x : forall lvl hi ents value t ld, EOK ents -> LS hi value ->
  psim TT idf (norm_attr_lvl T1 lvl ents value t ld)
       (norm_attr_lvl T2 lvl (map (x_ent P k) ents) (sh_sl (dd hi) value) t ld).
Proof.
  induction lvl as [|lvl IH]; intros hi ents value t ld He Hv; [exact I|].
  rewrite !norm_attr_lvl_S. cbn [sh_sl sl_start sl_end].
  destruct (LS_stream hi value Hv) as [A1 A2].
  eapply psim_bind; [apply (stream_from_substr_ps S hi); assumption|]. intros s0 H0. cbv beta.
  apply norm_loop_x; [exact He| | |exact H0].
  - intros hv v t1 ld1 Hlv. exact (IH hv ents v t1 ld1 He Hlv).
  - pose proof (rest_len_le S hi s0 H0). lia.
Qed.

Lemma CI_ld c ld : CI c -> CI (set_ld c ld).
Proof. intros [H1 H2 H3 H4 H5 H6]. constructor; cproj; assumption. Qed.

Lemma normalize_attribute_x hi value c : CI c -> LS hi value ->
  psim (fun x => OKsto P (fst x) /\ CI (snd x)) (pmap xsto xc) (normalize_attribute T1 value c)
       (normalize_attribute T2 (sh_sl (dd hi) value) (xc c)).
Proof.
  intros Hc Hv. unfold normalize_attribute. cbv zeta. rewrite (slice_bytes_s S hi) by exact Hv. cproj.
  destruct (xsl_side hi value Hv) as [Ev Hok].
  destruct (existsb _ _).
  - eapply psim_bind; [apply norm_attr_lvl_x; [apply (ci_ent _ _ Hc)|exact Hv]|]. intros [t ld] _. unfold idf.
    eapply psim_bind; [idp|]. intros bs _. unfold idf.
    apply psim_ret; [split; [exact I|apply CI_ld; exact Hc]|reflexivity].
  - apply psim_ret; [split; [exact Hok|exact Hc]|]. unfold pmap. cbn [fst snd m_sto m_str]. rewrite Ev. reflexivity.
Qed.

Lemma process_attribute_x hi r ql el prefix local value c : CI c -> RI S hi r -> LS hi prefix -> LS hi local -> LS hi value ->
  psim CI xc (process_attribute T1 r ql el prefix local value c)
       (process_attribute T2 (sh_rng (dd hi) r) ql el (sh_sl (dd hi) prefix) (sh_sl (dd hi) local) (sh_sl (dd hi) value) (xc c)).
Proof.
  intros Hc Hr Hp Hl Hv. unfold process_attribute.
  eapply psim_bind; [apply normalize_attribute_x; assumption|]. intros [v c1] [Hv1 Hc1]. cbn [pmap fst snd] in *. cbv beta iota zeta.
  destruct (xsl_side hi prefix Hp) as [Ep Hpo]. destruct (xsl_side hi local Hl) as [El Hlo].
  rewrite <- Ep, <- El, <- (xrng_side hi r Hr). cbn [x_rng fst].
  rewrite !slice_bytes_x by assumption. rewrite storage_bytes_x by exact Hv1. cproj.
  rewrite !ns_exists_x by apply (ci_doc _ _ Hc1).
  destruct (bytes_eqb (slice_bytes T1 prefix) xmlns_str).
  - destruct (bytes_eqb _ _); [efx|].
    destruct (bytes_eqb _ _); [efx|].
    destruct (_ && _); [efx|].
    destruct (_ && _); [efx|].
    eapply psim_bind; [idp|]. intros ex _. unfold idf.
    destruct ex; [efx|].
    destruct (negb _); [|apply psim_ret; [exact Hc1|reflexivity]].
    eapply psim_bind.
    { apply (push_ns_x (Some (SIn local)) v (c_doc c1)); [apply (ci_doc _ _ Hc1)|exact Hlo|exact Hv1]. }
    intros d1 H1. apply psim_ret; [apply CI_doc; assumption|reflexivity].
  - rewrite ?slice_len_x.
    match goal with |- psim _ _ (if ?b then _ else _) _ => destruct b end.
    + destruct (bytes_eqb _ _); [efx|].
      destruct (bytes_eqb _ _); [efx|].
      eapply psim_bind; [idp|]. intros ex _. unfold idf.
      destruct ex; [efx|].
      eapply psim_bind.
      { apply (push_ns_x None v (c_doc c1)); [apply (ci_doc _ _ Hc1)|exact I|exact Hv1]. }
      intros d1 H1. apply psim_ret; [apply CI_doc; assumption|reflexivity].
    + apply psim_ret.
      * destruct Hc1 as [A1 A2 A3 A4 A5 A6]. constructor; cproj; try assumption.
        apply Forall_app. split; [exact A2|]. constructor; [|constructor]. repeat split; assumption.
      * unfold x_ctx. cproj. rewrite map_app. reflexivity.
Qed.

(* ---- text with references ---- *)
Definition x_chunk (ch : next_chunk) : next_chunk :=
  match ch with ChText v => ChText (xsl v) | _ => ch end.
Definition ChI (hi : bool) (x : next_chunk * stream) : Prop :=
  SI hi (snd x) /\ match fst x with ChText v => exists hv, LS hv v | _ => True end.

Lemma parse_next_chunk_x hi s ents : SI hi s -> EOK ents ->
  psim (ChI hi) (pmap x_chunk (F hi)) (parse_next_chunk T1 s ents) (parse_next_chunk T2 (F hi s) (map (x_ent P k) ents)).
Proof.
  intros H He. unfold parse_next_chunk. rewrite (at_end_F S). destruct (at_end s); [reflexivity|].
  eapply psim_bind; [apply (curr_byte_unchecked_ps S hi); exact H|]. intros x _. unfold idf.
  destruct (x =? 38).
  - cbv zeta. rewrite (s_pos_F S).
    eapply psim_bind; [apply (consume_reference_ps S hi); exact H|]. intros r Hr.
    destruct r as [[[name|ch] s1]|]; cbn [ErrShiftSubStream.sh_refres option_map pmap sh_ref fst snd ErrShiftSubStream.RefI] in *.
    + destruct Hr as [H1 Hn]. rewrite (slice_bytes_s S hi) by exact Hn. rewrite find_entity_x by exact He.
      destruct (find_entity T1 ents (slice_bytes T1 name)) as [e|] eqn:Ef; cbn [option_map].
      * apply psim_ret; [split; [exact H1|apply ent_value_side; exact (find_entity_ok _ _ _ He Ef)]|reflexivity].
      * apply (err_from_ps S hi); [pc|eapply (SI_NS S); eassumption|reflexivity].
    + destruct Hr as [H1 _]. apply psim_ret; [split; [exact H1|exact I]|reflexivity].
    + apply (err_from_ps S hi); [pc|eapply (SI_NS S); eassumption|reflexivity].
  - eapply psim_bind; [apply (advance_ps' S hi); exact H|]. intros s1 H1.
    apply psim_ret; [split; [exact H1|exact I]|reflexivity].
Qed.


(* ---- elements ---- *)
Lemma Forall_removelast {A} (Q : A -> Prop) l : Forall Q l -> Forall Q (removelast l).
Proof.
  induction l as [|x l IH]; intros H; [exact H|]. inversion H; subst. cbn [removelast].
  destruct l; [constructor|]. constructor; [assumption|apply IH; assumption].
Qed.

Lemma x_tn_null : x_tn P k tag_name_null = tag_name_null.
Proof.
  unfold x_tn, tag_name_null, m_sl, ErrShiftSubBuild.mS, empty_slice. cbn [tn_prefix tn_name tn_pos tn_prefix_pos sl_start].
  replace (0 <? P) with true by lia. reflexivity.
Qed.

Lemma process_element_x hi e r c : CI c -> RI S hi r ->
  match e with EClose p l => LS hi p /\ LS hi l | _ => True end ->
  psim CI xc (process_element T1 e r c) (process_element T2 (sh_ee (dd hi) e) (sh_rng (dd hi) r) (xc c)).
Proof.
  intros Hc Hr He. rewrite <- (xrng_side hi r Hr). unfold process_element. cproj.
  cbn [x_tn tn_name]. rewrite slice_len_x.
  destruct (slice_len (tn_name (c_tag_name c)) =? 0) eqn:Etn.
  { destruct e; cbn [sh_ee]; first [reflexivity | cbn [x_rng fst]; efx]. }
  eapply psim_bind; [apply resolve_namespaces_x; exact Hc|]. intros [nss c1] H1. cbn [pmap fst snd] in *. unfold idf. cbv beta iota.
  cbv zeta. cproj.
  change (set_ns_start_idx (xc c1) (len_N (d_ns_tree (c_doc c1))))
    with (xc (set_ns_start_idx c1 (len_N (d_ns_tree (c_doc c1))))).
  eapply psim_bind.
  { apply resolve_attributes_x. destruct H1 as [A1 A2 A3 A4 A5 A6]. constructor; cproj; assumption. }
  intros [ar c3] H3. cbn [pmap fst snd] in *. unfold idf. cbv beta iota. cproj.
  cbn [x_tn tn_prefix tn_name tn_pos tn_prefix_pos].
  destruct (ci_tn _ _ H3) as [Htp Htn].
  destruct e as [|prefix local|]; cbn [sh_ee].
  - (* open *)
    eapply psim_bind; [apply get_ns_idx_by_prefix_x; [apply (ci_doc _ _ H3)|apply slice_bytes_x; exact Htp]|].
    intros idx _. unfold idf.
    eapply psim_bind.
    { apply (append_node_x (KElement idx (tn_name (c_tag_name c3)) ar nss) (tn_pos (c_tag_name c3), snd r) c3 H3). exact Htn. }
    intros [id c4] H4. cbn [pmap fst snd] in *. unfold idf. cbv beta iota.
    apply psim_ret.
    + destruct H4 as [A1 A2 A3 A4 A5 A6]. constructor; cproj; try assumption.
      apply Forall_app. split; [exact A3|]. constructor; [exact Htp|constructor].
    + unfold x_ctx. cproj. rewrite map_app. cbn [map]. reflexivity.
  - (* close *)
    destruct He as [Hpf Hlc]. destruct (xsl_side hi prefix Hpf) as [Epf Hpfo]. destruct (xsl_side hi local Hlc) as [Elc Hlco].
    rewrite <- Epf, <- Elc.
    rewrite len_N_map. destruct (_ <=? _); [cbn [x_rng fst]; efx|].
    rewrite nth_N_map.
    destruct (nth_N (d_nodes (c_doc c3)) (c_parent_id c3)) as [pnd|] eqn:Epnd; cbn [option_map bind]; [|reflexivity].
    rewrite rev_map_hd. destruct (rev (c_parent_prefixes c3)) as [|pp0 ppr] eqn:Erev; cbn [map bind]; [reflexivity|].
    assert (Hpp0 : OKs pp0).
    { pose proof (ci_pp _ _ H3) as Hf. rewrite Forall_forall in Hf. apply Hf. apply in_rev. rewrite Erev. left. reflexivity. }
    assert (Hpnd : OKnode P pnd) by (eapply nth_N_Forall; [apply (ci_doc _ _ H3)|exact Epnd]).
    cbn [x_rng snd].
    eapply psim_bind.
    { apply (upd_node_x _ _ (fun nd => nd_set_range_end nd (snd r)) (fun nd => nd_set_range_end nd (mS (snd r)))).
      - intros x. reflexivity.
      - intros x Hx. exact Hx.
      - apply (ci_doc _ _ H3). }
    intros nodes' Hn'. cbv beta.
    eapply psim_bind with (I := TT) (g := idf).
    { cbn [x_node nd_kind]. unfold OKnode in Hpnd.
      destruct (nd_kind pnd) eqn:Ek; cbn [m_kind OKkind] in *; try (apply psim_ret; [exact I|reflexivity]).
      rewrite !slice_bytes_x by assumption.
      destruct (_ || _); [cbn [x_rng fst]; efx|apply psim_ret; [exact I|reflexivity]]. }
    intros _ _. cbn [x_node nd_parent].
    destruct (nd_parent pnd); [|cbn [x_rng fst]; efx].
    cproj. rewrite removelast_map.
    destruct (removelast (c_parent_prefixes c3)) eqn:Erl; cbn [map]; [reflexivity|].
    apply psim_ret.
    + destruct H3 as [[B1 [B2 B3]] A2 A3 A4 A5 A6]. constructor; cproj; try assumption.
      * split; [exact Hn'|split; assumption].
      * rewrite <- Erl. apply Forall_removelast. exact A3.
    + unfold x_ctx, x_doc. cproj. rewrite ?removelast_map, ?Erl. reflexivity.
  - (* empty *)
    eapply psim_bind; [apply get_ns_idx_by_prefix_x; [apply (ci_doc _ _ H3)|apply slice_bytes_x; exact Htp]|].
    intros idx _. unfold idf.
    eapply psim_bind.
    { apply (append_node_x (KElement idx (tn_name (c_tag_name c3)) ar nss) (tn_pos (c_tag_name c3), snd r) c3 H3). exact Htn. }
    intros [id c4] H4. cbn [pmap fst snd] in *. unfold idf. cbv beta iota.
    apply psim_ret; [|reflexivity]. destruct H4 as [A1 A2 A3 A4 A5 A6]. constructor; cproj; assumption.
Qed.


(* ---- the callback ---- *)
Lemma CI_tn c tn : CI c -> OKtn P tn -> CI (set_tag_name c tn).
Proof. intros [H1 H2 H3 H4 H5 H6] Ht. constructor; cproj; assumption. Qed.
Lemma CI_floor c v : CI c -> CI (set_entity_floor c v).
Proof. intros [H1 H2 H3 H4 H5 H6]. constructor; cproj; assumption. Qed.

Lemma token_with_x hi ptext1 ptext2 :
  (forall t r c, CI c -> LS hi t -> RI S hi r ->
     psim CI xc (ptext1 t r c) (ptext2 (sh_sl (dd hi) t) (sh_rng (dd hi) r) (xc c))) ->
  forall tok c, TokI S hi tok -> CI c ->
    psim CI xc (token_with T1 ptext1 tok c) (token_with T2 ptext2 (sh_tok (dd hi) tok) (xc c)).
Proof.
  intros Hp tok c Ht Hc. unfold token_with.
  destruct tok as [tgt content r | t r | name value | prefix local start | r ql el prefix local value
                  | e r | t r | t r]; cbn [sh_tok TokI] in *.
  - destruct Ht as (Htg & Hct & Hr). destruct (xsl_side hi tgt Htg) as [Etg Htgo].
    eapply psim_bind; [apply reset_after_text_x; exact Hc|]. intros c1 H1. cbv beta.
    eapply psim_bind.
    { rewrite <- (xrng_side hi r Hr).
      replace (KPI (sh_sl (dd hi) tgt) (option_map (sh_sl (dd hi)) content)) with (m_kind P k (KPI tgt content)).
      2:{ cbn [m_kind]. rewrite Etg. destruct content as [v|]; cbn [option_map]; [|reflexivity].
          destruct (xsl_side hi v Hct) as [Ev _]. rewrite Ev. reflexivity. }
      apply (append_node_x (KPI tgt content) r c1 H1). cbn [OKkind]. split; [exact Htgo|].
      destruct content as [v|]; [apply (xsl_side hi v Hct)|exact I]. }
    intros [id c2] H2. apply psim_ret; [exact H2|reflexivity].
  - destruct Ht as (Htx & Hr). destruct (xsl_side hi t Htx) as [Et Hto].
    eapply psim_bind; [apply reset_after_text_x; exact Hc|]. intros c1 H1. cbv beta.
    eapply psim_bind.
    { rewrite <- (xrng_side hi r Hr), <- Et. apply (append_node_x (KComment t) r c1 H1). exact Hto. }
    intros [id c2] H2. apply psim_ret; [exact H2|reflexivity].
  - destruct Ht as [Hn Hv]. destruct (xsl_side hi name Hn) as [En Hno]. destruct (xsl_side hi value Hv) as [Ev _].
    apply psim_ret.
    + destruct Hc as [H1 H2 H3 H4 H5 H6]. constructor; cproj; try assumption. apply Forall_app. split; [exact H4|].
      constructor; [|constructor]. split; [exact Hno|]. cbn [en_value]. destruct Hv as [A B]. split; [exact A|].
      destruct hi; [right|left]; exact B.
    + unfold x_ctx. cproj. rewrite map_app. cbn [map]. unfold x_ent. cbn [en_name en_value]. rewrite En, Ev. reflexivity.
  - destruct Ht as (Hpf & Hlc & Hst & Hne & Hps).
    destruct (xsl_side hi prefix Hpf) as [Epf Hpfo]. destruct (xsl_side hi local Hlc) as [Elc Hlco].
    assert (Hst1 : NS hi (start + 1)).
    { destruct Hpf as [A B]. destruct hi; cbn [ErrShiftSubBase.NS] in *; lia. }
    eapply psim_bind; [apply reset_after_text_x; exact Hc|]. intros c1 H1. cbv beta.
    rewrite (slice_bytes_s S hi) by exact Hpf.
    destruct (bytes_eqb _ _).
    { apply (err_from_ps S hi); [pc|exact Hst1|lia]. }
    apply psim_ret.
    + apply CI_tn; [exact H1|]. split; assumption.
    + unfold x_ctx, x_tn. cproj. cbn [tn_prefix tn_name tn_pos tn_prefix_pos].
      rewrite Epf, Elc, (mS_side hi _ Hst), (mS_side hi _ Hst1).
      replace (start + 1 + dd hi) with (start + dd hi + 1) by lia. reflexivity.
  - destruct Ht as (Hr & Hpf & Hlc & Hvl). apply process_attribute_x; assumption.
  - destruct Ht as (He & Hr).
    eapply psim_bind; [apply reset_after_text_x; exact Hc|]. intros c1 H1. cbv beta.
    apply process_element_x; assumption.
  - destruct Ht as (Htx & Hr). apply Hp; assumption.
  - destruct Ht as (Htx & Hr). apply process_cdata_x; assumption.
Qed.

Definition shpc (hi : bool) (x : stream * context) : stream * context := (F hi (fst x), xc (snd x)).
Definition PIc (x : stream * context) : Prop := CI (snd x).

Lemma ptext_loop_x hi pc1 pc2 r :
  (forall hv es c, SI hv es -> CI c -> psim PIc (shpc hv) (pc1 es c) (pc2 (F hv es) (xc c))) ->
  forall fu1 fu2 s buf c, (fu1 <= fu2)%nat -> SI hi s -> CI c ->
    psim (fun x => CI (snd x)) (pmap idf xc) (ptext_loop T1 pc1 r fu1 s buf c)
         (ptext_loop T2 pc2 (xrng r) fu2 (F hi s) buf (xc c)).
Proof.
  intros Hpc. induction fu1 as [|fu IH]; intros fu2 s buf c Hle H Hc; [exact I|].
  destruct fu2 as [|fu2]; [lia|]. cbn [ptext_loop].
  rewrite (at_end_F S). destruct (at_end s); [apply psim_ret; [exact Hc|reflexivity]|]. cproj.
  eapply psim_bind; [apply (parse_next_chunk_x hi); [exact H|apply (ci_ent _ _ Hc)]|]. intros [ch s1] [H1 Hch].
  cbn [pmap fst snd] in *. cbv beta iota. destruct ch as [x|cp|value]; cbn [x_chunk].
  - apply IH; [lia|assumption..].
  - apply IH; [lia|assumption..].
  - destruct Hch as [hv Hlv]. rewrite (proj1 (xsl_side hv value Hlv)). cbn [sh_sl sl_start sl_end].
    eapply psim_bind with (I := CI) (g := xc).
    { destruct (negb (tb_is_empty buf)); [|apply psim_ret; [exact Hc|reflexivity]].
      eapply psim_bind; [idp|]. intros bs _. unfold idf. apply (append_text_x (CowOwned bs)); [exact Hc|exact I]. }
    intros c1 Hc1. cbv beta. cproj.
    eapply psim_bind; [apply (inc_references_x hi); exact H1|]. intros ld1 _. unfold idf.
    eapply psim_bind; [apply (inc_depth_x hi); exact H1|]. intros ld2 _. unfold idf. cbv zeta.
    destruct (LS_stream hv value Hlv) as [A1 A2].
    eapply psim_bind; [apply (stream_from_substr_ps S hv); assumption|]. intros es Hes. cbv beta. cproj. rewrite len_N_map.
    eapply psim_bind.
    { match goal with |- psim _ _ _ (pc2 _ ?c2) =>
        replace c2 with (xc (set_entity_floor (set_tag_name (set_ld c1 ld2) tag_name_null)
                                              (len_N (c_parent_prefixes c1))))
          by (unfold x_ctx; cproj; rewrite x_tn_null; reflexivity)
      end.
      apply (Hpc hv); [exact Hes|]. apply CI_floor. apply CI_tn; [apply CI_ld; exact Hc1|].
      split; unfold OKs, tag_name_null, empty_slice; cbn; lia. }
    intros [s2 c2] Hc2. unfold PIc in Hc2. cbn [shpc fst snd] in *. cbv beta iota. cproj. rewrite len_N_map.
    destruct (negb _); [nopos|].
    match goal with |- psim _ _ (ptext_loop _ _ _ _ _ _ ?ca) (ptext_loop _ _ _ _ _ _ ?cb) =>
      change cb with (xc ca)
    end.
    apply IH; [lia|exact H1|].
    apply CI_ld. apply CI_floor. apply CI_tn; [exact Hc2|]. apply (ci_tn _ _ Hc1).
Qed.

Lemma process_text_with_x hi pc1 pc2 :
  (forall hv es c, SI hv es -> CI c -> psim PIc (shpc hv) (pc1 es c) (pc2 (F hv es) (xc c))) ->
  forall t r c, CI c -> LS hi t -> RI S hi r ->
    psim CI xc (process_text_with T1 pc1 t r c)
         (process_text_with T2 pc2 (sh_sl (dd hi) t) (sh_rng (dd hi) r) (xc c)).
Proof.
  intros Hpc t r c Hc Ht Hr. rewrite !process_text_with_eq. cbv zeta. rewrite (slice_bytes_s S hi) by exact Ht.
  destruct (xsl_side hi t Ht) as [Et Hto].
  destruct (negb _).
  { rewrite <- Et, <- (xrng_side hi r Hr). apply (append_text_x (CowBorrowed t)); [exact Hc|exact Hto]. }
  cbn [sh_rng fst snd]. destruct Hr as [Hr1 Hr2].
  eapply psim_bind.
  { apply (stream_from_substr_ps S hi); [exact Hr1|]. intros ->. exact Hr2. }
  intros s0 H0. cbv beta.
  change (fst r + dd hi, snd r + dd hi) with (sh_rng (dd hi) r). rewrite <- (xrng_side hi r (conj Hr1 Hr2)).
  eapply psim_bind.
  { apply (ptext_loop_x hi pc1 pc2 r Hpc); [|exact H0|exact Hc]. pose proof (rest_len_le S hi s0 H0). lia. }
  intros [buf c1] Hc1. cbn [pmap fst snd] in *. unfold idf. cbv beta iota.
  destruct (negb _); [|apply psim_ret; [exact Hc1|reflexivity]].
  eapply psim_bind; [idp|]. intros bs _. unfold idf. apply (append_text_x (CowOwned bs)); [exact Hc1|exact I].
Qed.

Lemma parse_content_lvl_x : forall lvl hi es c, SI hi es -> CI c ->
  psim (PI S hi context CI) (shp S hi context xc) (parse_content_lvl T1 lvl es c) (parse_content_lvl T2 lvl (F hi es) (xc c)).
Proof.
  induction lvl as [|lvl IH]; intros hi es c Hs Hc; cbn [parse_content_lvl]; [exact I|].
  apply (parse_content_ps S hi context _ _ xc CI); [|exact Hs|exact Hc].
  intros tok c0 Ht Hc0. apply token_with_x; [|exact Ht|exact Hc0].
  intros t r c1 Hc1 Ht1 Hr1. apply process_text_with_x; [|assumption..].
  intros hv es0 c2 Hes0 Hc2. eapply psim_weaken; [apply (IH hv); assumption|].
  intros [s' c'] [_ H']. split; [exact H'|reflexivity].
Qed.

Theorem token_x hi tok c : TokI S hi tok -> CI c ->
  psim CI xc (Parse.token T1 tok c) (Parse.token T2 (sh_tok (dd hi) tok) (xc c)).
Proof.
  intros Ht Hc. unfold Parse.token, process_text. apply token_with_x; [|exact Ht|exact Hc].
  intros t r c1 Hc1 Ht1 Hr1. apply process_text_with_x; [|assumption..].
  intros hv es0 c2 Hes0 Hc2. eapply psim_weaken; [apply (parse_content_lvl_x entity_levels hv); assumption|].
  intros [s' c'] [_ H']. split; [exact H'|reflexivity].
Qed.

End Ent.

Print Assumptions token_x.
