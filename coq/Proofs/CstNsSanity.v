(* Proofs/CstNsSanity.v -- C06, M1: the model on sample documents of Spec/CstNs.v, by computation. *)
From Coq Require Import Ascii String.
From Coq Require Import List NArith Bool.
Import ListNotations.
From RX.Model Require Import Base Stream Tokenizer Doc Builder Parse.
From RX.Spec Require Import CstNs.
From RX.Proofs Require Import CstNsView.
Open Scope N_scope.

Definition lay ws w1 w2 q := {| l_ws := b ws; l_ws1 := b w1; l_ws2 := b w2; l_quote := q |}.
Definition qn p l := {| q_prefix := b p; q_local := b l |}.
Definition at_ p l v := EAttr (lay " " "" "" 34) (qn p l) (b v).
Definition dc p u := EDecl (lay " " "" "" 39) (b p) (b u).
Definition el p l es cs := IElem (qn p l) es [] (Some (cs, [])).
Definition em p l es := IElem (qn p l) es (b " ") None.
Definition mk root := {| d_before := []; d_ws0 := []; d_root := root; d_after := []; d_ws_end := [10] |}.
Definition opt := {| allow_dtd := false; nodes_limit := 1000 |}.

Definition vnode_eq_dec : forall x y : vnode, {x = y} + {x <> y}.
Proof. repeat decide equality. Defined.

Definition check (c : doc) : bool * bool :=
  (wf_doc c,
   match parse (render c) opt with
   | Ok d => match view (render c) d with
             | Some v => if list_eq_dec vnode_eq_dec v (sem c) then true else false
             | None => false end
   | _ => false
   end).
Definition rejected (c : doc) : bool * bool :=
  (wf_doc c, match parse (render c) opt with Err _ => true | _ => false end).

(* 1: default namespace, prefixed declaration, prefixed attribute, redeclaration in a child,
      a child that declares nothing (shares the scope), undeclared default (xmlns="") *)
Definition ex1 := mk (el "" "root" [dc "" "urn:d"; at_ "" "a" "1"; dc "p" "urn:p"; at_ "p" "a" "2"]
  [ em "" "c1" [];
    el "p" "c2" [dc "p" "urn:p2"; at_ "p" "x" "v"] [em "" "g" [at_ "p" "y" ""]; IText (b "t")];
    em "" "c3" [dc "" ""];
    em "q" "c4" [at_ "q" "z" "w"; dc "q" "urn:p"; dc "" "urn:d"] ]).
Eval vm_compute in (check ex1).
Eval vm_compute in (sem ex1).

(* 2: xml:lang, xmlns:xml with the xml URI (binds nothing), p:xmlns is an ordinary attribute,
      an element with the xml prefix, xmlns:p="" *)
Definition ex2 := mk (el "" "r" [at_ "xml" "lang" "en"; dc "xml" "http://www.w3.org/XML/1998/namespace";
                                 dc "p" "urn:p"; at_ "p" "xmlns" "v"; dc "e" ""]
  [ em "xml" "a" []; em "e" "b" [at_ "e" "k" "1"; at_ "" "k" "2"] ]).
Eval vm_compute in (check ex2).
Eval vm_compute in (sem ex2).

(* 3: a and p:a are distinct; prolog and epilog *)
Definition ex3 := {| d_before := [(IComment (b "c"), [10])]; d_ws0 := b " ";
  d_root := el "p" "r" [at_ "" "a" "1"; at_ "p" "a" "2"; dc "p" "u"] [el "" "s" [dc "q" "u"] [em "q" "t" [at_ "q" "a" "1"; at_ "" "a" "2"]]];
  d_after := [(b " ", IPI (b "pi") (b " ") (b "x"))]; d_ws_end := [] |}.
Eval vm_compute in (check ex3).

(* not well-formed, and rejected by the parser *)
Definition bad1 := mk (em "p" "r" []).                                             (* N2 element *)
Definition bad2 := mk (em "" "r" [at_ "p" "a" "1"]).                               (* N2 attribute *)
Definition bad3 := mk (em "" "r" [dc "p" "u"; dc "q" "u"; at_ "p" "a" "1"; at_ "q" "a" "2"]).  (* N7 *)
Definition bad4 := mk (em "" "r" [dc "p" "u"; dc "p" "v"]).                        (* N6 *)
Definition bad5 := mk (em "" "r" [dc "" "u"; dc "" "v"]).                          (* N6 default *)
Definition bad6 := mk (em "" "r" [dc "xmlns" "u"]).                                (* N3 *)
Definition bad7 := mk (em "" "r" [dc "p" "http://www.w3.org/2000/xmlns/"]).        (* N4 *)
Definition bad8 := mk (em "" "r" [dc "xml" "u"]).                                  (* N5 *)
Definition bad9 := mk (em "" "r" [dc "p" "http://www.w3.org/XML/1998/namespace"]). (* N5 *)
Definition bad10 := mk (em "" "r" [dc "" "http://www.w3.org/XML/1998/namespace"]). (* N5 *)
Definition bad11 := mk (em "xmlns" "r" []).                                        (* N1 *)
Eval vm_compute in (map rejected [bad1; bad2; bad3; bad4; bad5; bad6; bad7; bad8; bad9; bad10; bad11]).
