(* Proofs/CstFullS6Example.v -- the theorems of Proofs/CstFullS6Main.v are not vacuous: the sample document ex1 of
   Proofs/CstFullS6Sanity.v uses every construct at once (byte order mark, full XML declaration, DOCTYPE with PUBLIC
   identifier, subset with comment, parameter entity, unparsed entity, ELEMENT declaration, PI, character-data entities
   with Unicode names, a MARKUP entity with CR in its tags and a prefix bound only at the place of the reference, a
   redeclared name; references in a namespace URI, in an attribute value and in character data; CR in every markup
   white space) and satisfies the hypotheses. *)
From Coq Require Import Ascii String.
From Coq Require Import List NArith Bool Lia.
Import ListNotations.
From RX Require Import Generated.
From RX.Model Require Import Base Stream Tokenizer Doc Builder Parse.
From RX.Spec Require CstNs CstU.
From RX.Spec Require Import CstFull CstFullS6.
From RX.Proofs Require Import CstNsView CstFullMain CstFullS6Sanity CstFullS6Main.
Open Scope N_scope.

Definition optx := {| allow_dtd := true; nodes_limit := default_nodes_limit |}.

Example ex1_parses : exists x, parse (S6.render ex1) optx = Ok x /\ view (S6.render ex1) x = Some (S6.sem ex1).
Proof.
  apply parse_render_sem_full_s6.
  - vm_compute. reflexivity.
  - reflexivity.
  - vm_compute. reflexivity.
  - vm_compute. reflexivity.
  - vm_compute. reflexivity.
  - unfold S6.distinct_decls_le, X4.S4.distinct_decls_le.
    match goal with |- match ?x with _ => _ end => let y := eval vm_compute in x in change x with y end.
    apply distinct_by_count.
    match goal with |- (length ?l <= _)%nat => let n := eval vm_compute in (length l) in change (length l) with n end. lia.
  - vm_compute. intros H. discriminate H.
Qed.

Example ex2_parses_without_option :
  exists x, parse (S6.render ex2) {| allow_dtd := false; nodes_limit := default_nodes_limit |} = Ok x /\ view (S6.render ex2) x = Some (S6.sem ex2).
Proof.
  apply parse_render_sem_full_s6.
  - vm_compute. reflexivity.
  - intros H. discriminate H.
  - vm_compute. reflexivity.
  - vm_compute. reflexivity.
  - vm_compute. reflexivity.
  - unfold S6.distinct_decls_le, X4.S4.distinct_decls_le.
    match goal with |- match ?x with _ => _ end => let y := eval vm_compute in x in change x with y end.
    apply distinct_by_count.
    match goal with |- (length ?l <= _)%nat => let n := eval vm_compute in (length l) in change (length l) with n end. lia.
  - vm_compute. intros H. discriminate H.
Qed.

Print Assumptions ex1_parses.
Print Assumptions ex2_parses_without_option.
