(* Proofs/CstRangeG6Defs.v -- C13 / C18 on the capstone fragment, stage S6 (Spec/CstFullS6.v: the prolog of S5 with
   the entities of S4, whose value may be MARKUP), part 1: where every node of the parsed document
   comes from, and what is expected to be stored for it.  Computed from the abstract document alone
   (no model).

   The content of an element is read token by token; what is read is described by EVENTS, in the
   order in which the parser meets them:
   - a FRAGMENT of character data (CstRangeEDefs.v): a text token is read piece by piece into a buffer;
     a reference flushes the buffer (one fragment, Owned, with the range of the TOKEN being read); the
     value of a character-data entity is read as a token of its own, whose range lies inside the
     literal of the declaration; a token without '&' and CR is one Borrowed fragment;
   - the value of a MARKUP entity is read as content, in place, from the literal of its declaration:
     the events of its items, at the offsets where they are written inside the literal;
   - a node that is no character data (element, comment, PI), written at some offset -- in the
     document or inside a literal;
   - the end of an element.
   Maximal groups of adjacent fragments -- across the boundaries of entities -- form ONE Text node
   with the range of the FIRST fragment; it is Borrowed iff the group is a single Borrowed fragment. *)
From Coq Require Import List NArith Bool Lia.
Import ListNotations.
From RX.Spec Require Cst CstNs CstU CstText CstEnt Scope.
From RX.Spec Require Import Text CstFull CstFullS4 CstFullS5 CstFullS6.
From RX.Proofs Require Import CstRangeDefs CstRangeTDefs CstRangeEDefs CstRangeFDefs CstRangeGDefs CstRangeG5Defs.
Open Scope N_scope.

(* ---- where the values of the declarations are written ---- *)
Definition xvt := list (bytes * (N * xvalue)).     (* name (UTF-8), offset of the value, value *)

Definition xdecl_value_off (e : xdecl) : N :=
  nlen (x_ws0 e) + 8 + nlen (x_ws1 e) + nlen (utf8s (x_name e)) + nlen (x_ws2 e) + 1.

Fixpoint xvlookup (tb : xvt) (n : bytes) : option (N * xvalue) :=
  match tb with [] => None | (m, v) :: r => if E.beq m n then Some v else xvlookup r n end.

(* the view of the character-data machine (CstRangeEDefs.v [frs_ps]): a markup value is no character data *)
Definition ev_of (v : xvalue) : E.evalue :=
  match v with
  | XText ps => E.EText (enc_epieces ps)
  | XContent its => E.EContent [E.IText [E.EP (T.PLit (r_uitems its))]]
  end.
Definition tvt (vt : xvt) : list (bytes * (N * E.evalue)) :=
  map (fun x => (fst x, (fst (snd x), ev_of (snd (snd x))))) vt.

(* ---- events ---- *)
Inductive lev :=
| LFrag (d : fdesc)            (* a fragment of character data *)
| LNode (x : N * uitem)        (* an element (its start tag), a comment, a PI: the item, written at the offset *)
| LBreak.                      (* the end tag of an element *)

Section Events.
Variable vt : xvt.
(* the events of the items of a markup value written at an offset *)
Variable ent : N -> list uitem -> list lev.

(* the events of the (encoded) pieces [ps] of a token with range [r]; [ne]: the buffer is not empty *)
Fixpoint lev_ps (ne : bool) (ps : list E.epiece) (r : N * N) : list lev :=
  match ps with
  | [] => if ne then [LFrag (r, None)] else []
  | E.EP _ :: rest => lev_ps true rest r
  | E.ERef n :: rest =>
    (if ne then [LFrag (r, None)] else []) ++
    match xvlookup vt n with
    | Some (vs, XText vps) =>
      let V := E.r_epieces (enc_epieces vps) in
      let vr := (vs, vs + nlen V) in
      match V with
      | [] => []
      | _ => map LFrag (if has_amp_cr V then frs_ps E.max_level (tvt vt) false (enc_epieces vps) vr else [(vr, Some vr)])
      end
    | Some (vs, XContent its) => ent vs its
    | None => []
    end ++ lev_ps false rest r
  end.

(* a run is tokenised segment by segment (CstRangeEDefs.v [rsegs]) *)
Fixpoint lev_segs (p : N) (L : list rseg) : list lev :=
  match L with
  | [] => []
  | RC bs :: t =>
    let e := p + 9 + nlen bs + 3 in
    LFrag ((p, e), if has_cr bs then None else Some (p + 9, p + 9 + nlen bs)) :: lev_segs e t
  | RS a :: t =>
    let e := p + nlen (E.r_epieces a) in
    (if has_amp_cr (E.r_epieces a) then lev_ps false a (p, e) else [LFrag ((p, e), Some (p, e))])
    ++ lev_segs e t
  end.

Fixpoint lev_item (p : N) (i : uitem) : list lev :=
  match i with
  | IElem name es ws_end body =>
    LNode (p, i) ::
    match body with
    | None => []
    | Some (children, _) =>
      (fix go (q : N) (l : list uitem) : list lev :=
         match l with [] => [] | c :: r => lev_item q c ++ go (q + nlen (r_item c)) r end)
        (p + fstart_tag_len epieces name es ws_end) children
    end ++ [LBreak]
  | IText r => lev_segs p (rsegs (enc_epieces r))
  | _ => [LNode (p, i)]
  end.

Fixpoint lev_items (p : N) (l : list uitem) : list lev :=
  match l with [] => [] | c :: r => lev_item p c ++ lev_items (p + nlen (r_item c)) r end.
End Events.

(* references nest at most [E.max_level] deep *)
Fixpoint lev_ent (vt : xvt) (k : nat) : N -> list uitem -> list lev :=
  match k with
  | O => fun _ _ => []
  | S k' => lev_items vt (lev_ent vt k')
  end.

(* ---- from the events to the nodes ---- *)
(* what a node holds: as in CstRangeTDefs.v; of an Owned Text node only that it is Owned (its text is
   what Proofs/CstFullS6Main.v [parse_render_sem_full_s6] says) *)
Inductive xshape :=
| XS (sh : tshape)
| XSOwnedText.

Definition node_of_group (fs : list fdesc) : list ((N * N) * xshape) :=
  match fs with
  | [] => []
  | [(r, Some sp)] => [(r, XS (TSText (TBorrowed sp)))]
  | (r, _) :: _ => [(r, XSOwnedText)]
  end.

Definition node_of_item (x : N * uitem) : list ((N * N) * xshape) :=
  map (fun y => (fst y, XS (snd y))) (fnode_of epieces (fun _ _ => []) x).

(* [open]: the fragments of the group that is still open *)
Fixpoint ewalk (open : list fdesc) (evs : list lev) : list ((N * N) * xshape) * list fdesc :=
  match evs with
  | [] => ([], open)
  | LFrag d :: r => ewalk (open ++ [d]) r
  | LNode x :: r => let w := ewalk [] r in (node_of_group open ++ node_of_item x ++ fst w, snd w)
  | LBreak :: r => let w := ewalk [] r in (node_of_group open ++ fst w, snd w)
  end.

Definition ev_nodes (evs : list lev) : list ((N * N) * xshape) :=
  let w := ewalk [] evs in fst w ++ node_of_group (snd w).

Section Attrs.
Variable M : meaning epieces.
Variable vstore : N -> val epieces -> tstore.
Definition ev_aspans (evs : list lev) : list faspan :=
  flat_map (fun e => match e with LNode x => fitem_aspans epieces vstore x | _ => [] end) evs.
Definition ev_decls (evs : list lev) : list (Scope.binding * fnsdesc) :=
  flat_map (fun e => match e with LNode x => fitem_decls epieces M vstore x | _ => [] end) evs.
End Attrs.

(* ---- the internal subset whose first item is written at q ---- *)
Fixpoint smisc6_at (q : N) (ds : list sdecl6) : list (N * uitem) :=
  match ds with
  | [] => []
  | s :: r =>
    match s with
    | XOther (X5.SMisc ws0 i) => (q + nlen ws0, i) :: smisc6_at (q + nlen (r_sdecl6 s)) r
    | _ => smisc6_at (q + nlen (r_sdecl6 s)) r
    end
  end.
Fixpoint svtable6_at (q : N) (ds : list sdecl6) : xvt :=
  match ds with
  | [] => []
  | s :: r =>
    match s with
    | XEntity e => (utf8s (x_name e), (q + xdecl_value_off e, x_value e)) :: svtable6_at (q + nlen (r_sdecl6 s)) r
    | _ => svtable6_at (q + nlen (r_sdecl6 s)) r
    end
  end.
(* the offset of the first item of the internal subset of a DOCTYPE written at p (after the '[') *)
Definition subset_offset6 (p : N) (t : doctype6) : N :=
  p + 9 + nlen (z_ws1 t) + nlen (utf8s (z_name t)) + nlen (z_ws2 t)
  + nlen (X5.r_opt (fun x => X5.r_extid (fst x) ++ snd x) (z_ext t)) + 1.

(* ---- the offsets of a document ---- *)
Definition s6_start (d : S6.doc) : N := (if S6.x_bom d then 3 else 0) + nlen (X5.r_opt X5.r_xmldecl (S6.x_decl d)).
Definition s6_dtd_offset (d : S6.doc) (g : S6.dtd_part) : N :=
  s6_start d + nlen (S6.g_ws0 g) + fbefore_len epieces (S6.g_before g).
Definition s6_vtable (d : S6.doc) : xvt :=
  match S6.x_dtd d with
  | Some g => svtable6_at (subset_offset6 (s6_dtd_offset d g) (S6.g_dtd g)) (subset_decls6 (S6.g_dtd g))
  | None => []
  end.
(* the offset of the body *)
Definition s6_main_offset (d : S6.doc) : N :=
  match S6.x_dtd d with
  | Some g => s6_dtd_offset d g + nlen (r_doctype6 (S6.g_dtd g))
  | None => s6_start d
  end.
(* the comments and PIs of the prolog up to the DOCTYPE's '>' *)
Definition s6_prolog_at (d : S6.doc) : list (N * uitem) :=
  match S6.x_dtd d with
  | Some g =>
    fbefore_at epieces (s6_start d + nlen (S6.g_ws0 g)) (S6.g_before g)
    ++ smisc6_at (subset_offset6 (s6_dtd_offset d g) (S6.g_dtd g)) (subset_decls6 (S6.g_dtd g))
  | None => []
  end.

(* the events of the whole document *)
Definition s6_events (d : S6.doc) : list lev :=
  let c := S6.x_main d in
  let p0 := s6_main_offset d in
  map LNode (s6_prolog_at d)
  ++ map LNode (fbefore_at epieces (p0 + nlen (d_ws0 c)) (d_before c))
  ++ lev_item (s6_vtable d) (lev_ent (s6_vtable d) E.max_level) (p0 + froot_offset epieces c) (d_root c)
  ++ map LNode (fafter_at epieces (p0 + froot_offset epieces c + nlen (r_item (d_root c))) (d_after c)).

(* the meaning of the character-data entities (for the values of attributes and namespace declarations) *)
Definition s6_tdecls (d : S6.doc) : list E.edecl :=
  map (fun e => {| E.e_ws0 := x_ws0 e; E.e_ws1 := x_ws1 e; E.e_name := utf8s (x_name e); E.e_ws2 := x_ws2 e;
                   E.e_quote := x_quote e; E.e_value := ev_of (x_value e); E.e_ws3 := x_ws3 e |}) (S6.decls d).
Definition s6_table (d : S6.doc) : E.table := E.level (s6_tdecls d) E.max_level.
Definition vstore_s6 (d : S6.doc) := vstore3 (s6_table d).

Definition fnodes6 (d : S6.doc) : list ((N * N) * xshape) := ev_nodes (s6_events d).
(* (1) the ranges of the nodes below the Root, in document order *)
Definition fspans6 (d : S6.doc) : list (N * N) := map fst (fnodes6 d).
(* (2) what they hold *)
Definition fshapes6 (d : S6.doc) : list xshape := map snd (fnodes6 d).
Definition fattr_spans6 (d : S6.doc) : list faspan := ev_aspans (vstore_s6 d) (s6_events d).
Definition fns_table6 (d : S6.doc) : list fnsdesc :=
  map snd (dedupe [xml_binding] (ev_decls (ents_meaning (s6_table d)) (vstore_s6 d) (s6_events d))).
Definition fattrs_small6 (d : S6.doc) : Prop := Forall faspan_small (fattr_spans6 d).
