(* Proofs/CstSound6Lex.v -- C08 soundness, the capstone (stage S6): the lexical half, inverted, for a
   stream over a PART [.., en) of the input followed by tl (the value of an entity; with en = tlen text
   and tl = [] the whole input).  The lemmas are those of CstSoundPLex.v part 1 (white space,
   qualified names, comments, character data, CDATA sections, PIs, end tags, start tags; generic in
   the callback) on the streams of CstEntCLex.v / CstFullS4Lex.v; the fragment conditions used are
   the lexical ones ([FragL]). *)
From Coq Require Import String.
From Coq Require Import List Arith NArith Bool Lia ZifyBool ZifyN ZifyNat.
Import ListNotations.
From RX Require Import Generated.
From RX.Model Require Import Base CharClass Stream Tokenizer.
From RX.Spec Require Cst Chars CstU CstNs CstEnt.
From RX.Spec Require Import CstFull.
From RX.Proofs Require Import Tactics CstLex CstULex.
From RX.Proofs Require RejectProofs CharTablesProofs WfParseTok CstEntCLex CstFullS4Lex.
From RX.Proofs Require Import CstSound CstSoundLex CstSoundU CstSoundULex CstSoundT CstSoundTLex CstSoundTText CstSoundN CstSoundNLex CstSoundNText.
From RX.Proofs Require Import CstSoundP CstSoundPLex.
Open Scope N_scope.

(* the lexical conditions of the fragment *)
Record FragL (text : bytes) : Prop := {
  fl_valid : U8.Valid text;
  fl_cr : Forall (fun x => x <> 13) text;
  fl_refs : charrefs_scalar text = true;
  fl_c60 : contains_b [60; 58] text = false;
  fl_c47 : contains_b [47; 58] text = false;
  fl_c32 : contains_b [32; 58] text = false;
  fl_c9 : contains_b [9; 58] text = false;
  fl_c10 : contains_b [10; 58] text = false;
  fl_pi : pi_targets_nc text = true
}.

Lemma FragP_FragL text : FragP text -> FragL text.
Proof. intros [A B0 C0 D E F G H I _ _ _ _ _]. constructor; assumption. Qed.

Section G6.
Variable text : bytes.
Hypothesis HF : FragL text.
Variable en : N.
Variable tl : bytes.
Notation st := (CstEntCLex.st en tl).
Notation W := (CstEntCLex.W text en tl).

(* the window is valid UTF-8 by itself (the range ends on a character boundary) *)
Definition WV (p : N) (r : bytes) : Prop := CstFullS4Lex.WV text en tl p r /\ U8.Valid r.

Lemma WV_W p r : WV p r -> W p r.
Proof. intros [H _]. apply (@CstFullS4Lex.WV_W text en tl _ _ H). Qed.
Lemma WV_valid p r : WV p r -> U8.Valid r.
Proof. intros [_ H]. exact H. Qed.
Lemma WV_app p x l : WV p (x ++ l) -> U8.Valid x -> WV (p + blen x) l.
Proof. intros [H1 H2] Hx. split; [apply (@CstFullS4Lex.WV_app text en tl _ _ _ H1 Hx)|apply (Valid_app_inv x l Hx H2)]. Qed.
Lemma WV_lit p x l : WV p (x ++ l) -> forallb (fun y => y <? 128) x = true -> WV (p + blen x) l.
Proof. intros H Hx. apply (WV_app _ _ _ H). apply Valid_lit. exact Hx. Qed.
Lemma WV_cons p x l : WV p (x :: l) -> x < 128 -> WV (p + 1) l.
Proof. intros H Hx. apply (WV_lit p [x] l H). cbn. replace (x <? 128) with true by lia. reflexivity. Qed.

Notation W_app := (@CstEntCLex.W_app text en tl).
Notation W_cons := (@CstEntCLex.W_cons text en tl).
Notation W_slice := (@CstEntCLex.W_slice text en tl).
Notation W_le := (@CstEntCLex.W_le text en tl).
Notation at_end_st := (CstEntCLex.at_end_st text en tl).
Notation avail_st := (CstEntCLex.avail_st text en tl).
Notation starts_with_st := (CstEntCLex.starts_with_st text en tl).
Notation advance_st := (CstEntCLex.advance_st text en tl).
Notation advance1_st := (CstEntCLex.advance1_st text en tl).
Notation next_byte_st := (CstEntCLex.next_byte_st text en tl).
Notation next_char_end := (CstEntCLex.next_char_end text en tl).
Notation skip_bytes_st := (CstEntCLex.skip_bytes_st text en tl).
Notation walk_u := (CstFullS4Lex.walk_u en tl).

Lemma next_char_v p c l : WV p (utf8 c ++ l) -> is_scalar c = true ->
  next_char (st p (utf8 c ++ l)) = Ok (Some (c, blen (utf8 c))).
Proof. intros [H _]. apply (CstFullS4Lex.next_char_v _ _ _ _ _ _ H). Qed.
Lemma advance_v p c l : WV p (utf8 c ++ l) ->
  advance (blen (utf8 c)) (st p (utf8 c ++ l)) = Ok (st (p + blen (utf8 c)) l).
Proof. intros [H _]. apply (CstFullS4Lex.advance_v _ _ _ _ _ _ H). Qed.

Lemma W_full p r : W p r -> CstLex.W text p (r ++ tl).
Proof. intros [H _]. exact H. Qed.

Lemma W_noprefix p l needle : W p l -> contains_b needle text = false -> needle <> [] -> prefix_b needle l = false.
Proof.
  intros HW Hc Hn. destruct (prefix_b needle l) eqn:E; [|reflexivity].
  pose proof (prefix_mono needle l tl E) as E'. rewrite (CstSoundTLex.W_noprefix text p _ needle (W_full _ _ HW) Hc Hn) in E'. discriminate.
Qed.

(* ---- primitives ---- *)
Lemma skip_bytes_inv f p l : W p l ->
  exists x l', l = x ++ l' /\ forallb f x = true /\ stops f l' /\ skip_bytes f (st p l) = st (p + blen x) l'.
Proof.
  intros HW. destruct (span_split f l) as (x & l' & -> & Hx & Hl). exists x, l'.
  repeat split; auto. apply skip_bytes_st; assumption.
Qed.

Lemma starts_with_space_st p l : W p l ->
  starts_with_space (st p l) = match l with x :: _ => byte_is_space x | [] => false end.
Proof.
  intros HW. unfold starts_with_space, curr_byte_opt. rewrite at_end_st by exact HW.
  destruct l; reflexivity.
Qed.

Lemma curr_byte_inv p l x : W p l -> curr_byte (st p l) = Ok x -> exists l', l = x :: l'.
Proof.
  intros HW H. unfold curr_byte in H. rewrite at_end_st in H by exact HW.
  destruct l as [|y l']; [discriminate|]. cbn in H. inversion H; subst. eauto.
Qed.

Lemma consume_byte_inv c p l s' : W p l -> consume_byte text c (st p l) = Ok s' ->
  exists l', l = c :: l' /\ s' = st (p + 1) l' /\ W (p + 1) l'.
Proof.
  intros HW H. unfold consume_byte in H. ib H x Hx.
  destruct (curr_byte_inv _ _ _ HW Hx) as (l' & ->).
  destruct (x =? c) eqn:E; cbn [negb] in H; [|noerr]. assert (x = c) by lia. subst x.
  rewrite advance1_st in H by exact HW. inversion H; subst.
  exists l'. split; [reflexivity|]. split; [reflexivity|]. apply W_cons in HW. exact HW.
Qed.

Lemma skip_string_inv lit p l s' : W p l -> skip_string text lit (st p l) = Ok s' ->
  exists l', l = lit ++ l' /\ s' = st (p + blen lit) l' /\ W (p + blen lit) l'.
Proof.
  intros HW H. unfold skip_string in H. rewrite starts_with_st in H by exact HW.
  destruct (prefix_b lit l) eqn:E; cbn [negb] in H; [|noerr].
  destruct (prefix_b_split _ _ E) as (l' & ->).
  rewrite advance_st in H by (auto; exact HW). inversion H; subst.
  exists l'. split; [reflexivity|]. split; [reflexivity|]. apply W_app. exact HW.
Qed.

Lemma consume_quote_inv p l q s' : W p l -> consume_quote text (st p l) = Ok (q, s') ->
  exists l', l = q :: l' /\ (q = 39 \/ q = 34) /\ s' = st (p + 1) l' /\ W (p + 1) l'.
Proof.
  intros HW H. unfold consume_quote in H. ib H x Hx. destruct (curr_byte_inv _ _ _ HW Hx) as (l' & ->).
  destruct ((x =? 39) || (x =? 34)) eqn:E; [|noerr].
  rewrite advance1_st in H by exact HW. cbn [bind] in H. inversion H; subst.
  exists l'. split; [reflexivity|]. split; [lia|]. split; [reflexivity|]. apply W_cons in HW. exact HW.
Qed.

Lemma advance_until2_inv a c0 p l s' : W p l -> advance_until2 a c0 (st p l) = Ok s' ->
  exists v c l', l = v ++ c :: l' /\ forallb (fun y => negb ((y =? a) || (y =? c0))) v = true /\
    (c = a \/ c = c0) /\ s' = st (p + blen v) (c :: l') /\ W (p + blen v) (c :: l').
Proof.
  intros HW H. unfold advance_until2 in H. rewrite avail_st in H by exact HW.
  destruct (find_idx _ l) as [i|] eqn:Ef; [|noerr].
  destruct (CstSoundTLex.find_idx_inv _ _ _ Ef) as (v & c & l' & -> & Hv & Hf & Hc).
  rewrite (advance_st i p v) in H by (auto; exact HW). inversion H; subst.
  exists v, c, l'. split; [reflexivity|]. split; [exact Hf|]. split; [lia|]. split; [reflexivity|].
  apply W_app. exact HW.
Qed.

(* ---- chars ---- *)
Definition stop_s (f : stream -> N -> bool) (p : N) (l : bytes) : Prop :=
  l = [] \/ exists c l2, l = utf8 c ++ l2 /\ is_scalar c = true /\ char_is_char c = true /\ f (st p l) c = false.

Lemma walk_scalars f : forall cs p l, walk_u f p cs l -> scalars_ok cs.
Proof. apply CstFullS4Lex.walk_scalars. Qed.

Lemma skip_chars_loop_inv_u f : forall fuel p r s', WV p r -> skip_chars_loop text fuel f (st p r) = Ok s' ->
  exists cs l', r = utf8s cs ++ l' /\ s' = st (p + blen (utf8s cs)) l' /\
    walk_u f p cs l' /\ stop_s f (p + blen (utf8s cs)) l'.
Proof.
  induction fuel as [|fu IH]; intros p r s' HW H; cbn [skip_chars_loop] in H; [noerr|].
  destruct (Valid_inv r (WV_valid _ _ HW)) as [->|(c & r' & -> & Hc & Hv)].
  - rewrite next_char_end in H by apply (WV_W _ _ HW). cbn [bind] in H. inversion H; subst.
    exists [], []. cbn [CstU.utf8s flat_map app]. rewrite blen_nil, N.add_0_r. repeat split. left; reflexivity.
  - rewrite next_char_v in H by assumption. cbn [bind] in H.
    destruct (char_is_char c) eqn:Ecc; cbn [negb] in H; [|noerr].
    destruct (f (st p (utf8 c ++ r')) c) eqn:Ef.
    + rewrite advance_v in H by exact HW. cbn [bind] in H.
      assert (HW' : WV (p + blen (utf8 c)) r').
      { apply (WV_app _ _ _ HW). rewrite utf8_enc. apply U8.Valid_encode. exact Hc. }
      destruct (IH _ _ _ HW' H) as (cs & l' & -> & -> & Hx & Hl).
      exists (c :: cs), l'. rewrite utf8s_cons, blen_app, <- app_assoc, N.add_assoc.
      split; [reflexivity|]. split; [reflexivity|]. split; [|exact Hl].
      cbn [CstFullS4Lex.walk_u]. rewrite utf8s_cons, <- app_assoc. auto.
    + inversion H; subst. exists [], (utf8 c ++ r'). cbn [CstU.utf8s flat_map app]. rewrite blen_nil, N.add_0_r.
      split; [reflexivity|]. split; [reflexivity|]. split; [exact I|]. right. exists c, r'. auto.
Qed.

Lemma consume_chars_inv_u f p r s0 s' : WV p r -> consume_chars text f (st p r) = Ok (s0, s') ->
  exists cs l', r = utf8s cs ++ l' /\ s0 = sl p (p + blen (utf8s cs)) /\ s' = st (p + blen (utf8s cs)) l' /\
    WV (p + blen (utf8s cs)) l' /\ walk_u f p cs l' /\ stop_s f (p + blen (utf8s cs)) l'.
Proof.
  intros HW H. unfold consume_chars in H. ib H s1 H1. ib H s2 H2.
  unfold skip_chars in H1. destruct (skip_chars_loop_inv_u _ _ _ _ _ HW H1) as (cs & l' & -> & -> & Hx & Hl).
  unfold slice_back in H2. apply mk_slice_sl in H2. cbn [CstEntCLex.st s_pos] in H2. subst s2.
  inversion H; subst. clear H.
  exists cs, l'. split; [reflexivity|]. split; [reflexivity|]. split; [reflexivity|].
  split; [|split; assumption]. apply (WV_app _ _ _ HW). apply Valid_utf8s. eapply walk_scalars; eauto.
Qed.

Lemma walk_chars f : forall cs p l, walk_u f p cs l -> Forall (fun x => x <> 13) (utf8s cs) ->
  forallb CstU.is_char cs = true.
Proof.
  induction cs as [|c cs IH]; intros p l H Hn; [reflexivity|]. destruct H as (H1 & H2 & _ & H4).
  pose proof (scalars_ne 13 _ ltac:(lia) Hn) as Hn'. inversion Hn' as [|? ? Hc13 _]; subst.
  rewrite utf8s_cons in Hn. apply Forall_app in Hn. destruct Hn as [_ Hn].
  cbn [forallb]. rewrite (uchar_intro c H1 H2 Hc13), (IH _ _ H4 Hn). reflexivity.
Qed.

Lemma text_walk_inv_u : forall bs p l', walk_u text_f p bs l' -> Forall (fun x => x <> 60) bs.
Proof.
  induction bs as [|x bs IH]; intros p l' H; [constructor|].
  destruct H as (_ & _ & Hf & Hr). unfold text_f in Hf. constructor; [lia|eapply IH; eauto].
Qed.

Lemma pi_walk_inv_u : forall v p post, W p (utf8s v ++ [63; 62] ++ post) ->
  walk_u pi_f p v ([63; 62] ++ post) -> contains_b [63; 62] v = false.
Proof.
  induction v as [|x v IH]; intros p post HW H; [reflexivity|].
  destruct H as (Hs & _ & Hf & Hr). cbn [contains_b].
  assert (HW' : W (p + blen (utf8 x)) (utf8s v ++ [63; 62] ++ post)).
  { rewrite utf8s_cons, <- app_assoc in HW. apply (W_app _ _ _ HW). }
  rewrite (IH _ _ HW' Hr), orb_false_r.
  cbn [prefix_b]. destruct (63 =? x) eqn:E; [|reflexivity]. assert (x = 63) by lia. subst x. cbn [andb].
  destruct v as [|y v]; [reflexivity|]. destruct (62 =? y) eqn:E2; [|reflexivity]. exfalso.
  assert (y = 62) by lia. subst y. unfold pi_f in Hf. rewrite starts_with_st in Hf by exact HW.
  rewrite !utf8s_cons in Hf. rewrite (utf8_ascii 63), (utf8_ascii 62) in Hf by lia. cbn in Hf. discriminate.
Qed.

Lemma cbu_st p x l : curr_byte_unchecked (st p (x :: l)) = Ok x.
Proof. reflexivity. Qed.

Lemma W_cr p l : W p l -> Forall (fun x => x <> 13) l.
Proof.
  intros [[H _] _]. assert (F : Forall (fun x => x <> 13) (l ++ tl)) by (rewrite <- H; apply Forall_skipn; exact (fl_cr _ HF)).
  apply Forall_app in F. tauto.
Qed.

Lemma W_cr_l p x l : W p (x ++ l) -> Forall (fun y => y <> 13) x.
Proof. intros H. apply W_cr in H. apply Forall_app in H. tauto. Qed.

(* ---- no colon after '<', '/', SP, TAB, LF ---- *)
Lemma nc_after p x l : W p (x :: l) -> x = 60 \/ x = 47 \/ x = 32 \/ x = 9 \/ x = 10 -> nc l.
Proof.
  intros HW Hx. destruct l as [|y l]; [exact I|]. destruct (N.eq_dec y 58) as [->|Hy].
  2:{ cbn. destruct y as [|pp]; [exact I|]. do 6 (destruct pp as [pp|pp|]; try exact I). congruence. }
  exfalso.
  assert (Hp : forall n, contains_b n text = false -> n <> [] -> prefix_b n (x :: 58 :: l) = false)
    by (intros n Hc Hn; apply (W_noprefix p _ n HW Hc Hn)).
  destruct Hx as [-> | [-> | [-> | [-> | ->]]]].
  - specialize (Hp [60; 58] (fl_c60 _ HF) ltac:(discriminate)). discriminate.
  - specialize (Hp [47; 58] (fl_c47 _ HF) ltac:(discriminate)). discriminate.
  - specialize (Hp [32; 58] (fl_c32 _ HF) ltac:(discriminate)). discriminate.
  - specialize (Hp [9; 58] (fl_c9 _ HF) ltac:(discriminate)). discriminate.
  - specialize (Hp [10; 58] (fl_c10 _ HF) ltac:(discriminate)). discriminate.
Qed.

Lemma nc_after_ws p w l : W p (w ++ l) -> w <> [] -> Cst.wf_ws w = true -> nc l.
Proof.
  intros HW Hne Hw. destruct (exists_last Hne) as (w0 & y & ->).
  rewrite <- app_assoc in HW. cbn [app] in HW. apply W_app in HW.
  apply (nc_after _ y _ HW). unfold Cst.wf_ws in Hw. rewrite forallb_app in Hw. apply andb_true_iff in Hw.
  destruct Hw as [_ Hy]. cbn [forallb] in Hy. unfold Cst.is_ws in Hy. lia.
Qed.

(* ---- white space ---- *)
Lemma skip_spaces_inv_g p l : WV p l ->
  exists w l', l = w ++ l' /\ Cst.wf_ws w = true /\ stops byte_is_space l' /\
               skip_spaces (st p l) = st (p + blen w) l' /\ WV (p + blen w) l'.
Proof.
  intros HW. destruct (skip_bytes_inv byte_is_space p l (WV_W _ _ HW)) as (w & l' & -> & Hw & Hl & E).
  exists w, l'. split; [reflexivity|]. split.
  { apply spaces_ws_u; [|exact Hw]. apply (W_cr_l _ _ _ (WV_W _ _ HW)). }
  split; [exact Hl|]. split; [exact E|]. apply (WV_lit _ _ _ HW). apply spaces_lit. exact Hw.
Qed.

Lemma consume_spaces_inv_g p l s' : WV p l -> consume_spaces text (st p l) = Ok s' ->
  exists w l', l = w ++ l' /\ w <> [] /\ Cst.wf_ws w = true /\ stops byte_is_space l' /\
               s' = st (p + blen w) l' /\ WV (p + blen w) l'.
Proof.
  intros HW H. pose proof (WV_W _ _ HW) as HW0. unfold consume_spaces in H.
  rewrite at_end_st in H by exact HW0.
  destruct l as [|x l0]; [noerr|]. rewrite starts_with_space_st in H by exact HW0.
  destruct (byte_is_space x) eqn:Ex; cbn [negb] in H.
  2:{ ib H y Hy. noerr. }
  inversion H; subst. clear H.
  destruct (skip_spaces_inv_g p (x :: l0) HW) as (w & l' & E & Hw & Hst & E1 & HW1).
  exists w, l'. split; [exact E|]. split.
  { intros ->. cbn [app] in E. subst l'. cbn [stops] in Hst. congruence. }
  split; [exact Hw|]. split; [exact Hst|]. split; [exact E1|exact HW1].
Qed.

Lemma consume_eq_inv_g p l s' : WV p l -> consume_eq text (st p l) = Ok s' ->
  exists w1 w2 l', l = w1 ++ [61] ++ w2 ++ l' /\ Cst.wf_ws w1 = true /\ Cst.wf_ws w2 = true /\
    s' = st (p + blen w1 + 1 + blen w2) l' /\ WV (p + blen w1 + 1 + blen w2) l'.
Proof.
  intros HW H. unfold consume_eq in H.
  destruct (skip_spaces_inv_g p l HW) as (w1 & l1 & -> & Hw1 & _ & E1 & HW1). rewrite E1 in H.
  ib H s1 H1. destruct (consume_byte_inv _ _ _ _ (WV_W _ _ HW1) H1) as (l2 & -> & -> & _).
  assert (HW2 : WV (p + blen w1 + 1) l2) by (apply (WV_cons _ _ _ HW1); lia).
  destruct (skip_spaces_inv_g _ l2 HW2) as (w2 & l3 & -> & Hw2 & _ & E2 & HW3). rewrite E2 in H.
  inversion H; subst. exists w1, w2, l3.
  split; [reflexivity|]. split; [exact Hw1|]. split; [exact Hw2|]. split; [reflexivity|exact HW3].
Qed.

(* ---- qualified names ---- *)
(* after the colon: NCName characters only *)
Lemma qloop_some start sp : forall fuel p r spl' s', WV p r ->
  consume_qname_loop text fuel start (Some sp) (st p r) = Ok (spl', s') ->
  exists x l', r = utf8s x ++ l' /\ spl' = Some sp /\ s' = st (p + blen (utf8s x)) l' /\
               forallb CstU.is_name_char x = true.
Proof.
  induction fuel as [|fu IH]; intros p r spl' s' HW H; cbn [consume_qname_loop] in H; [noerr|].
  rewrite at_end_st in H by apply (WV_W _ _ HW).
  destruct (Valid_inv r (WV_valid _ _ HW)) as [->|(c & r' & -> & Hc & Hv)].
  { inversion H; subst. exists [], []. cbn [CstU.utf8s flat_map app]. rewrite blen_nil, N.add_0_r. repeat split. }
  destruct (utf8_nonempty c r') as (b0 & t & Eb). rewrite Eb in H.
  rewrite cbu_st in H. cbn [bind] in H. rewrite <- Eb in H.
  assert (HW' : WV (p + blen (utf8 c)) r').
  { apply (WV_app _ _ _ HW). rewrite utf8_enc. apply U8.Valid_encode. exact Hc. }
  assert (STOP : exists x l', utf8 c ++ r' = utf8s x ++ l' /\ Some sp = Some sp /\
                   st p (utf8 c ++ r') = st (p + blen (utf8s x)) l' /\ forallb CstU.is_name_char x = true).
  { exists [], (utf8 c ++ r'). cbn [CstU.utf8s flat_map app]. rewrite blen_nil, N.add_0_r. repeat split. }
  destruct (N.lt_ge_cases c 128) as [L|L].
  - rewrite (utf8_ascii c L) in *. cbn [app] in Eb. injection Eb as <- <-.
    replace (c <? 128) with true in H by lia.
    destruct (c =? 58) eqn:E58; [noerr|]. assert (H58 : c <> 58) by lia.
    destruct (byte_is_name c) eqn:Ebn; [|inversion H; subst; exact STOP].
    cbn [app] in H. fold (st p (c :: r')) in H. rewrite advance1_st in H by apply (WV_W _ _ HW). cbn [bind] in H.
    change (blen [c]) with 1 in HW'.
    destruct (IH _ _ _ _ HW' H) as (x & l' & -> & -> & -> & Hx).
    exists (c :: x), l'. rewrite utf8s_cons, (utf8_ascii c L), blen_app. change (blen [c]) with 1. rewrite N.add_assoc.
    split; [reflexivity|]. split; [reflexivity|]. split; [reflexivity|].
    cbn [forallb]. rewrite (uname_char_intro_b c L Ebn H58), Hx. reflexivity.
  - destruct (utf8_high c L) as (_ & b1 & t1 & E1 & Hb1). rewrite E1 in Eb. cbn [app] in Eb. injection Eb as <- _.
    replace (b1 <? 128) with false in H by lia.
    rewrite next_char_v in H by assumption. cbn [bind] in H.
    destruct (char_is_name c) eqn:Ecn; [|inversion H; subst; exact STOP].
    rewrite advance_v in H by exact HW. cbn [bind] in H.
    destruct (IH _ _ _ _ HW' H) as (x & l' & -> & -> & -> & Hx).
    exists (c :: x), l'. rewrite utf8s_cons, blen_app, <- app_assoc, N.add_assoc.
    split; [reflexivity|]. split; [reflexivity|]. split; [reflexivity|].
    cbn [forallb]. rewrite (uname_char_intro c Hc Ecn ltac:(lia)), Hx. reflexivity.
Qed.

Lemma qloop_none start : forall fuel p r spl' s', WV p r ->
  consume_qname_loop text fuel start None (st p r) = Ok (spl', s') ->
  exists x, forallb CstU.is_name_char x = true /\
    ((exists l', r = utf8s x ++ l' /\ spl' = None /\ s' = st (p + blen (utf8s x)) l') \/
     (exists y l', r = utf8s x ++ [58] ++ utf8s y ++ l' /\ spl' = Some (p + blen (utf8s x)) /\
                   forallb CstU.is_name_char y = true /\
                   s' = st (p + blen (utf8s x) + 1 + blen (utf8s y)) l')).
Proof.
  induction fuel as [|fu IH]; intros p r spl' s' HW H; cbn [consume_qname_loop] in H; [noerr|].
  rewrite at_end_st in H by apply (WV_W _ _ HW).
  destruct (Valid_inv r (WV_valid _ _ HW)) as [->|(c & r' & -> & Hc & Hv)].
  { inversion H; subst. exists []. split; [reflexivity|]. left. exists [].
    cbn [CstU.utf8s flat_map app]. rewrite blen_nil, N.add_0_r. repeat split. }
  destruct (utf8_nonempty c r') as (b0 & t & Eb). rewrite Eb in H.
  rewrite cbu_st in H. cbn [bind] in H. rewrite <- Eb in H.
  assert (HW' : WV (p + blen (utf8 c)) r').
  { apply (WV_app _ _ _ HW). rewrite utf8_enc. apply U8.Valid_encode. exact Hc. }
  assert (STOP : forall s0, s0 = st p (utf8 c ++ r') ->
     exists x, forallb CstU.is_name_char x = true /\
       ((exists l', utf8 c ++ r' = utf8s x ++ l' /\ @None N = None /\ s0 = st (p + blen (utf8s x)) l') \/
        (exists y l', utf8 c ++ r' = utf8s x ++ [58] ++ utf8s y ++ l' /\ @None N = Some (p + blen (utf8s x)) /\
                   forallb CstU.is_name_char y = true /\
                   s0 = st (p + blen (utf8s x) + 1 + blen (utf8s y)) l'))).
  { intros s0 ->. exists []. split; [reflexivity|]. left. exists (utf8 c ++ r').
    cbn [CstU.utf8s flat_map app]. rewrite blen_nil, N.add_0_r. repeat split. }
  assert (CONS : forall spl0 s0,
     (exists x, forallb CstU.is_name_char x = true /\
       ((exists l', r' = utf8s x ++ l' /\ spl0 = None /\ s0 = st (p + blen (utf8 c) + blen (utf8s x)) l') \/
        (exists y l', r' = utf8s x ++ [58] ++ utf8s y ++ l' /\ spl0 = Some (p + blen (utf8 c) + blen (utf8s x)) /\
                   forallb CstU.is_name_char y = true /\
                   s0 = st (p + blen (utf8 c) + blen (utf8s x) + 1 + blen (utf8s y)) l'))) ->
     CstU.is_name_char c = true ->
     exists x, forallb CstU.is_name_char x = true /\
       ((exists l', utf8 c ++ r' = utf8s x ++ l' /\ spl0 = None /\ s0 = st (p + blen (utf8s x)) l') \/
        (exists y l', utf8 c ++ r' = utf8s x ++ [58] ++ utf8s y ++ l' /\ spl0 = Some (p + blen (utf8s x)) /\
                   forallb CstU.is_name_char y = true /\
                   s0 = st (p + blen (utf8s x) + 1 + blen (utf8s y)) l'))).
  { intros spl0 s0 (x & Hx & D) Hcn. exists (c :: x). split; [cbn [forallb]; rewrite Hcn, Hx; reflexivity|].
    destruct D as [(l' & -> & -> & ->)|(y & l' & -> & -> & Hy & ->)]; [left; exists l'|right; exists y, l'];
      rewrite utf8s_cons, blen_app, <- app_assoc, N.add_assoc; repeat split. exact Hy. }
  destruct (N.lt_ge_cases c 128) as [L|L].
  - rewrite (utf8_ascii c L) in *. cbn [app] in Eb. injection Eb as <- <-.
    replace (c <? 128) with true in H by lia. change (blen [c]) with 1 in *.
    destruct (c =? 58) eqn:E58.
    + assert (c = 58) by lia. subst c.
      cbn [app] in H. fold (st p (58 :: r')) in H. rewrite advance1_st in H by apply (WV_W _ _ HW). cbn [bind] in H.
      cbn [CstEntCLex.st s_pos] in H.
      destruct (qloop_some _ _ _ _ _ _ _ HW' H) as (y & l' & -> & -> & -> & Hy).
      exists []. split; [reflexivity|]. right. exists y, l'.
      cbn [CstU.utf8s flat_map app]. rewrite blen_nil, N.add_0_r. repeat split. exact Hy.
    + assert (H58 : c <> 58) by lia.
      destruct (byte_is_name c) eqn:Ebn; [|inversion H; subst; apply STOP; reflexivity].
      cbn [app] in H. fold (st p (c :: r')) in H. rewrite advance1_st in H by apply (WV_W _ _ HW). cbn [bind] in H.
      apply CONS; [|apply (uname_char_intro_b c L Ebn H58)].
      exact (IH _ _ _ _ HW' H).
  - destruct (utf8_high c L) as (_ & b1 & t1 & E1 & Hb1). rewrite E1 in Eb. cbn [app] in Eb. injection Eb as <- _.
    replace (b1 <? 128) with false in H by lia.
    rewrite next_char_v in H by assumption. cbn [bind] in H.
    destruct (char_is_name c) eqn:Ecn; [|inversion H; subst; apply STOP; reflexivity].
    rewrite advance_v in H by exact HW. cbn [bind] in H.
    apply CONS; [|apply (uname_char_intro c Hc Ecn); lia].
    exact (IH _ _ _ _ HW' H).
Qed.

Lemma consume_qname_inv_g p r pfx loc s' : WV p r -> nc r -> consume_qname text (st p r) = Ok (pfx, loc, s') ->
  exists pre locn l', r = rq pre locn ++ l' /\ qn_ok pre locn /\
    pfx = sl p (p + blen (utf8s pre)) /\ loc = sl (p + qoff pre) (p + qoff pre + blen (utf8s locn)) /\
    s' = st (p + blen (rq pre locn)) l' /\ WV (p + blen (rq pre locn)) l'.
Proof.
  intros HW Hnc H. unfold consume_qname in H. cbn [CstEntCLex.st s_pos] in H.
  ib H q Hq. destruct q as [spl s1].
  destruct (qloop_none _ _ _ _ _ _ HW Hq) as (x & Hx & [(l' & -> & -> & ->)|(y & l' & -> & -> & Hy & ->)]).
  - (* no colon *)
    ib H pl Hpl. destruct pl as [p0 l0]. ib Hpl l1 Hl1. ib Hpl p1 Hp1. inversion Hpl; subst p0 l0. clear Hpl.
    unfold slice_back in Hl1. apply mk_slice_sl in Hl1. apply mk_slice_sl in Hp1. subst l1 p1.
    cbn [CstEntCLex.st s_pos] in H.
    destruct (negb (slice_len (sl p p) =? 0) && negb (str_is_name_start (slice_bytes text (sl p p)))); [noerr|].
    destruct (str_is_name_start (slice_bytes text (sl p (p + blen (utf8s x))))) eqn:Es; cbn [negb] in H; [|noerr].
    inversion H; subst. clear H.
    rewrite (W_slice p (utf8s x) l' (WV_W _ _ HW)) in Es.
    exists [], x, l'. unfold rq, qoff, qn_ok. cbn [CstU.utf8s flat_map]. rewrite blen_nil, !N.add_0_r.
    split; [reflexivity|]. split; [split; [left; reflexivity|apply wf_name_intro; assumption]|].
    split; [reflexivity|]. split; [reflexivity|]. split; [reflexivity|].
    apply (WV_app _ _ _ HW). apply Valid_utf8s. apply uname_scalars. exact Hx.
  - (* prefix : local *)
    ib H pl Hpl. destruct pl as [p0 l0]. ib Hpl p1 Hp1. ib Hpl l1 Hl1. inversion Hpl; subst p0 l0. clear Hpl.
    unfold slice_back in Hl1. apply mk_slice_sl in Hl1. apply mk_slice_sl in Hp1. subst l1 p1.
    cbn [CstEntCLex.st s_pos] in H.
    assert (Hxne : x <> []).
    { intros ->. cbn [CstU.utf8s flat_map app] in Hnc. exact Hnc. }
    pose proof (uname_scalars _ Hx) as Hxs. pose proof (uname_scalars _ Hy) as Hys.
    assert (HWc : WV (p + blen (utf8s x)) ([58] ++ utf8s y ++ l')).
    { apply (WV_app _ _ _ HW). apply Valid_utf8s. exact Hxs. }
    assert (HWy : WV (p + blen (utf8s x) + 1) (utf8s y ++ l')).
    { apply (WV_cons _ 58 _ HWc). lia. }
    rewrite (W_slice p (utf8s x) _ (WV_W _ _ HW)) in H.
    rewrite (W_slice _ (utf8s y) l' (WV_W _ _ HWy)) in H.
    destruct (str_is_name_start (utf8s x)) eqn:Esx.
    2:{ assert (El : (slice_len (sl p (p + blen (utf8s x))) =? 0) = false).
        { unfold slice_len. cbn [sl sl_start sl_end]. destruct x as [|c0 x0]; [congruence|].
          rewrite utf8s_cons, blen_app. pose proof (utf8_len c0). lia. }
        rewrite El in H. cbn [negb andb] in H. noerr. }
    rewrite andb_false_r in H.
    destruct (str_is_name_start (utf8s y)) eqn:Esy; cbn [negb] in H; [|noerr].
    inversion H; subst. clear H.
    exists x, y, l'. unfold rq, qoff, qn_ok. destruct x as [|c0 x0]; [congruence|].
    split; [rewrite <- !app_assoc; reflexivity|].
    split; [split; [right; apply wf_name_intro; assumption|apply wf_name_intro; assumption]|].
    split; [reflexivity|]. split; [rewrite N.add_assoc; reflexivity|].
    rewrite !blen_app. change (blen [58]) with 1.
    replace (p + (blen (utf8s (c0 :: x0)) + (1 + blen (utf8s y)))) with (p + blen (utf8s (c0 :: x0)) + 1 + blen (utf8s y)) by lia.
    split; [reflexivity|]. apply (WV_app _ _ _ HWy). apply Valid_utf8s. exact Hys.
Qed.

(* ---- names (PI targets): no colon, by N5 ---- *)
Lemma name_run_char c r : is_scalar c = true -> char_is_name c = true -> name_run (utf8 c ++ r) = utf8 c ++ name_run r.
Proof.
  intros Hs Hc. destruct (N.lt_ge_cases c 128) as [L|L].
  - rewrite (utf8_ascii c L). cbn [app name_run]. unfold name_byte.
    destruct (CharTablesProofs.byte_char_agree c L) as (_ & _ & E). rewrite E, Hc, orb_true_r. reflexivity.
  - destruct (utf8_high c L) as (Hh & _). induction (utf8 c) as [|y u IH]; [reflexivity|].
    inversion Hh as [|? ? Hy Hu]; subst. cbn [app name_run]. unfold name_byte at 1.
    replace (128 <=? y) with true by lia. cbn [orb]. rewrite IH by exact Hu. reflexivity.
Qed.

Lemma mem_b_app_false x a r : mem_b x (a ++ r) = false -> mem_b x a = false /\ mem_b x r = false.
Proof.
  induction a as [|y a IH]; cbn [app mem_b]; [auto|]. intros H. apply orb_false_iff in H. destruct H as [H1 H2].
  destruct (IH H2) as [A B]. rewrite H1, A. auto.
Qed.

Lemma mem_utf8_self c : c < 128 -> mem_b c (utf8 c) = true.
Proof. intros L. rewrite (utf8_ascii c L). cbn [mem_b]. rewrite N.eqb_refl. reflexivity. Qed.

Lemma skip_name_loop_inv_g : forall fuel p r s', WV p r -> mem_b 58 (name_run r) = false ->
  skip_name_loop fuel (st p r) = Ok s' ->
  exists x l', r = utf8s x ++ l' /\ s' = st (p + blen (utf8s x)) l' /\ forallb CstU.is_name_char x = true.
Proof.
  induction fuel as [|fu IH]; intros p r s' HW Hr H; cbn [skip_name_loop] in H; [noerr|].
  destruct (Valid_inv r (WV_valid _ _ HW)) as [->|(c & r' & -> & Hc & Hv)].
  { rewrite next_char_end in H by apply (WV_W _ _ HW). cbn [bind] in H. inversion H; subst.
    exists [], []. cbn [CstU.utf8s flat_map app]. rewrite blen_nil, N.add_0_r. repeat split. }
  rewrite next_char_v in H by assumption. cbn [bind] in H.
  destruct (char_is_name c) eqn:Ecn.
  - rewrite advance_v in H by exact HW. cbn [bind] in H.
    assert (HW' : WV (p + blen (utf8 c)) r').
    { apply (WV_app _ _ _ HW). rewrite utf8_enc. apply U8.Valid_encode. exact Hc. }
    rewrite (name_run_char c r' Hc Ecn) in Hr. destruct (mem_b_app_false _ _ _ Hr) as [Hr1 Hr2].
    destruct (IH _ _ _ HW' Hr2 H) as (x & l' & -> & -> & Hx).
    exists (c :: x), l'. rewrite utf8s_cons, blen_app, <- app_assoc, N.add_assoc.
    split; [reflexivity|]. split; [reflexivity|].
    assert (H58 : c <> 58) by (intros ->; rewrite mem_utf8_self in Hr1 by lia; discriminate).
    cbn [forallb]. rewrite (uname_char_intro c Hc Ecn H58), Hx. reflexivity.
  - inversion H; subst. exists [], (utf8 c ++ r'). cbn [CstU.utf8s flat_map app]. rewrite blen_nil, N.add_0_r. repeat split.
Qed.

Lemma start_is_name c : is_scalar c = true -> char_is_name_start c = true -> char_is_name c = true.
Proof.
  intros Hs Hc. destruct (CharTablesProofs.char_tables_conform c Hs) as (_ & E1 & E2).
  rewrite E2. apply name_start_name. rewrite <- E1. exact Hc.
Qed.

Lemma consume_name_inv_g p r s0 s' : WV p r -> mem_b 58 (name_run r) = false ->
  consume_name text (st p r) = Ok (s0, s') ->
  exists name l', r = utf8s name ++ l' /\ CstU.wf_name name = true /\
                  s0 = sl p (p + blen (utf8s name)) /\ s' = st (p + blen (utf8s name)) l' /\
                  WV (p + blen (utf8s name)) l'.
Proof.
  intros HW Hr H. unfold consume_name in H. cbn [CstEntCLex.st s_pos] in H. ib H s1 H1. ib H s2 H2.
  unfold slice_back in H2. apply mk_slice_sl in H2. subst s2.
  destruct (slice_len (sl p (s_pos s1)) =? 0) eqn:El; [noerr|]. inversion H; subst. clear H.
  unfold skip_name in H1.
  destruct (Valid_inv r (WV_valid _ _ HW)) as [->|(c & r' & -> & Hc & Hv)].
  { rewrite next_char_end in H1 by apply (WV_W _ _ HW). cbn [bind] in H1. inversion H1; subst.
    unfold slice_len in El. cbn in El. lia. }
  rewrite next_char_v in H1 by assumption. cbn [bind] in H1.
  destruct (char_is_name_start c) eqn:Ecs; [|noerr].
  rewrite advance_v in H1 by exact HW. cbn [bind] in H1.
  assert (HW' : WV (p + blen (utf8 c)) r').
  { apply (WV_app _ _ _ HW). rewrite utf8_enc. apply U8.Valid_encode. exact Hc. }
  rewrite (name_run_char c r' Hc (start_is_name c Hc Ecs)) in Hr. destruct (mem_b_app_false _ _ _ Hr) as [Hr1 Hr2].
  destruct (skip_name_loop_inv_g _ _ _ _ HW' Hr2 H1) as (x & l' & -> & -> & Hx).
  assert (H58 : c <> 58) by (intros ->; rewrite mem_utf8_self in Hr1 by lia; discriminate).
  assert (Hwf : CstU.wf_name (c :: x) = true).
  { cbn [CstU.wf_name]. rewrite (uname_start_intro c Hc Ecs H58), Hx. reflexivity. }
  exists (c :: x), l'. cbn [CstEntCLex.st s_pos]. rewrite utf8s_cons, blen_app, <- app_assoc, N.add_assoc.
  split; [reflexivity|]. split; [exact Hwf|]. split; [reflexivity|]. split; [reflexivity|].
  rewrite <- N.add_assoc, <- blen_app. rewrite app_assoc in HW. apply (WV_app _ _ _ HW).
  change (utf8 c ++ utf8s x) with (utf8s (c :: x)). apply Valid_utf8s. constructor; [exact Hc|apply uname_scalars; exact Hx].
Qed.

(* ------------------------------------------------------------------------------------------ *)
(* the productions, generic in the callback                                                     *)

Variable C : Type.
Variable ev : token -> C -> res C.
Notation evs := (CstLex.evs C ev).

(* ---- comments ---- *)
Lemma inv_comment_g p l1 c s' c' : WV p ([60; 33; 45; 45] ++ l1) ->
  parse_comment text C ev (st p ([60; 33; 45; 45] ++ l1)) c = Ok (s', c') ->
  exists bs l', l1 = utf8s bs ++ [45; 45; 62] ++ l' /\ CstU.wf_item (Cst.IComment bs) = true /\
    s' = st (p + 4 + blen (utf8s bs) + 3) l' /\ WV (p + 4 + blen (utf8s bs) + 3) l' /\
    ev (TComment (sl (p + 4) (p + 4 + blen (utf8s bs))) (p, p + 4 + blen (utf8s bs) + 3)) c = Ok c'.
Proof.
  intros HW H. pose proof (WV_W _ _ HW) as HW0. unfold parse_comment in H. cbv zeta in H. cbn [CstEntCLex.st s_pos] in H.
  fold (st p ([60; 33; 45; 45] ++ l1)) in H.
  rewrite (advance_st 4 p [60; 33; 45; 45]) in H by (try reflexivity; exact HW0). cbn [bind] in H.
  pose proof (WV_lit _ _ _ HW eq_refl) as HW1. change (blen [60; 33; 45; 45]) with 4 in HW1.
  ib H q Hq. destruct q as [txt s2].
  destruct (consume_chars_inv_u _ _ _ _ _ HW1 Hq) as (bs & l2 & -> & -> & -> & HW2 & Hwalk & Hstop).
  ib H s3 H3. change (b "-->") with [45; 45; 62] in H3.
  destruct (skip_string_inv _ _ _ _ (WV_W _ _ HW2) H3) as (l' & -> & -> & _).
  pose proof (WV_lit _ _ _ HW2 eq_refl) as HW3. change (blen [45; 45; 62]) with 3 in *.
  rewrite (W_slice (p + 4) (utf8s bs) _ (WV_W _ _ HW1)) in H. change (b "--") with [45; 45] in H.
  destruct (contains_b [45; 45] (utf8s bs)) eqn:E1; [noerr|].
  destruct (ends_with_byte 45 (utf8s bs)) eqn:E2; [noerr|].
  ib H c1 Hc. inversion H; subst. cbn [CstEntCLex.st s_pos] in Hc.
  exists bs, l'. split; [reflexivity|]. split.
  { cbn [CstU.wf_item]. rewrite contains_utf8 in E1 by (try discriminate; reflexivity).
    rewrite ends_utf8 in E2 by lia. rewrite contains_eq, E1. cbn [negb].
    rewrite (walk_chars _ _ _ _ Hwalk (W_cr_l _ _ _ (WV_W _ _ HW1))). cbn [andb].
    unfold ends_with_byte in E2. destruct (rev bs); [reflexivity|]. rewrite E2. reflexivity. }
  split; [reflexivity|]. split; [exact HW3|exact Hc].
Qed.

(* ---- character data (raw): Chars, no '<', no "]]>" ---- *)
Lemma walk_uchars f : forall cs p l, walk_u f p cs l -> uchars cs.
Proof.
  induction cs as [|c cs IH]; intros p l H; [constructor|]. destruct H as (H1 & H2 & _ & H4).
  constructor; [auto|eapply IH; eauto].
Qed.

Lemma inv_text_g p x l0 c s' c' : WV p (x :: l0) -> x <> 60 ->
  parse_text text C ev (st p (x :: l0)) c = Ok (s', c') ->
  exists cs l', x :: l0 = utf8s cs ++ l' /\ raw_text_ok_n cs /\ text_stop l' /\
    s' = st (p + blen (utf8s cs)) l' /\ WV (p + blen (utf8s cs)) l' /\
    ev (TText (sl p (p + blen (utf8s cs))) (p, p + blen (utf8s cs))) c = Ok c'.
Proof.
  intros HW Hx H. unfold parse_text in H. cbv zeta in H. cbn [CstEntCLex.st s_pos] in H.
  fold (st p (x :: l0)) in H.
  ib H q Hq. destruct q as [txt s1].
  destruct (consume_chars_inv_u _ _ _ _ _ HW Hq) as (bs & l' & E & -> & -> & HW1 & Hwalk & Hstop).
  rewrite E in HW. rewrite (W_slice p (utf8s bs) _ (WV_W _ _ HW)) in H. change (b "]]>") with [93; 93; 62] in H.
  destruct (contains_b [93; 93; 62] (utf8s bs)) eqn:Ec.
  { rewrite (RejectProofs.contains_cdata_end_mem _ Ec) in H. cbn [andb] in H. noerr. }
  rewrite andb_false_r in H. ib H c1 Hc. inversion H; subst. cbn [CstEntCLex.st s_pos] in Hc.
  assert (Hstop' : text_stop l').
  { destruct Hstop as [->|(c0 & l2 & -> & _ & _ & Hf)]; [exact I|]. unfold text_f in Hf.
    assert (c0 = 60) by lia. subst c0. reflexivity. }
  assert (Hne : bs <> []).
  { intros ->. cbn [CstU.utf8s flat_map app] in E. subst l'. cbn [text_stop] in Hstop'. lia. }
  exists bs, l'. split; [exact E|]. split.
  { split; [exact Hne|]. split; [eapply walk_uchars; exact Hwalk|]. split; [eapply text_walk_inv_u; exact Hwalk|].
    rewrite contains_utf8 in Ec by (try discriminate; reflexivity). exact Ec. }
  split; [exact Hstop'|]. split; [reflexivity|]. split; [exact HW1|exact Hc].
Qed.

(* ---- CDATA sections ---- *)
Lemma cdata_walk_inv_g : forall v p post, W p (utf8s v ++ [93; 93; 62] ++ post) ->
  walk_u cdata_fm p v ([93; 93; 62] ++ post) -> contains_b [93; 93; 62] v = false.
Proof.
  induction v as [|x v IH]; intros p post HW H; [reflexivity|].
  destruct H as (Hs & _ & Hf & Hr). cbn [contains_b].
  assert (HW' : W (p + blen (utf8 x)) (utf8s v ++ [93; 93; 62] ++ post)).
  { rewrite utf8s_cons, <- app_assoc in HW. apply (W_app _ _ _ HW). }
  rewrite (IH _ _ HW' Hr), orb_false_r.
  destruct (prefix_b [93; 93; 62] (x :: v)) eqn:E; [|reflexivity]. exfalso.
  unfold cdata_fm in Hf. rewrite starts_with_st in Hf by exact HW.
  destruct (prefix_b_split _ _ E) as (r & Er). cbn [app] in Er. injection Er as -> ->.
  rewrite !utf8s_cons in Hf. rewrite !(utf8_ascii 93), (utf8_ascii 62) in Hf by lia. cbn in Hf. discriminate.
Qed.

Lemma inv_cdata_g p l1 c s' c' : WV p ([60; 33; 91; 67; 68; 65; 84; 65; 91] ++ l1) ->
  parse_cdata text C ev (st p ([60; 33; 91; 67; 68; 65; 84; 65; 91] ++ l1)) c = Ok (s', c') ->
  exists cs l', l1 = utf8s cs ++ [93; 93; 62] ++ l' /\ uchars cs /\ contains_b [93; 93; 62] cs = false /\
    s' = st (p + 9 + blen (utf8s cs) + 3) l' /\ WV (p + 9 + blen (utf8s cs) + 3) l' /\
    ev (cdata_tok p (utf8s cs)) c = Ok c'.
Proof.
  intros HW H. pose proof (WV_W _ _ HW) as HW0. unfold parse_cdata in H. cbv zeta in H. cbn [CstEntCLex.st s_pos] in H.
  fold (st p ([60; 33; 91; 67; 68; 65; 84; 65; 91] ++ l1)) in H.
  rewrite (advance_st 9 p [60; 33; 91; 67; 68; 65; 84; 65; 91]) in H by (try reflexivity; exact HW0).
  cbn [bind] in H. pose proof (WV_lit _ _ _ HW eq_refl) as HW1.
  change (blen [60; 33; 91; 67; 68; 65; 84; 65; 91]) with 9 in HW1.
  ib H q Hq. destruct q as [txt s2].
  destruct (consume_chars_inv_u _ _ _ _ _ HW1 Hq) as (cs & l2 & -> & -> & -> & HW2 & Hwalk & Hstop).
  ib H s3 H3. change (b "]]>") with [93; 93; 62] in H3.
  destruct (skip_string_inv _ _ _ _ (WV_W _ _ HW2) H3) as (l' & -> & -> & _).
  pose proof (WV_lit _ _ _ HW2 eq_refl) as HW3. change (blen [93; 93; 62]) with 3 in *.
  ib H c1 Hc. inversion H; subst. cbn [CstEntCLex.st s_pos] in Hc.
  exists cs, l'. split; [reflexivity|]. split; [eapply walk_uchars; exact Hwalk|].
  split; [eapply cdata_walk_inv_g; [apply (WV_W _ _ HW1)|exact Hwalk]|]. split; [reflexivity|]. split; [exact HW3|exact Hc].
Qed.

(* ---- processing instructions ---- *)
Lemma name_run_prefix : forall a c, exists r, name_run (a ++ c) = name_run a ++ r.
Proof.
  induction a as [|x a IH]; intros c; [exists (name_run c); reflexivity|]. cbn [app name_run].
  destruct (name_byte x); [|exists []; reflexivity]. destruct (IH c) as (r & E). exists r. rewrite E. reflexivity.
Qed.

Lemma pi_nc_here p l1 : W p ([60; 63] ++ l1) -> mem_b 58 (name_run l1) = false.
Proof.
  intros [[H _] _]. pose proof (pi_nc_skipn (N.to_nat p) text (fl_pi _ HF)) as Hc. rewrite H in Hc.
  cbn [app pi_targets_nc] in Hc. apply andb_true_iff in Hc. destruct Hc as [Hc _]. apply negb_true_iff in Hc.
  destruct (name_run_prefix l1 tl) as (r & E). rewrite E in Hc. apply (mem_b_app_false _ _ _ Hc).
Qed.

Lemma inv_pi_g p l1 c s' c' : WV p ([60; 63] ++ l1) -> xml_at ([60; 63] ++ l1) = true ->
  parse_pi text C ev (st p ([60; 63] ++ l1)) c = Ok (s', c') ->
  exists target sep v l', l1 = utf8s target ++ sep ++ utf8s v ++ [63; 62] ++ l' /\
    CstU.wf_item (Cst.IPI target sep v) = true /\
    s' = st (p + 2 + blen (utf8s target) + blen sep + blen (utf8s v) + 2) l' /\
    WV (p + 2 + blen (utf8s target) + blen sep + blen (utf8s v) + 2) l' /\
    ev (pi_tok p (utf8s target) sep (utf8s v)) c = Ok c'.
Proof.
  intros HW Hxml H. pose proof (WV_W _ _ HW) as HW0. unfold parse_pi in H. rewrite starts_with_st in H by exact HW0.
  destruct (prefix_b (b "<?xml ") ([60; 63] ++ l1)) eqn:Ed; [noerr|].
  cbv zeta in H. cbn [CstEntCLex.st s_pos] in H. fold (st p ([60; 63] ++ l1)) in H.
  rewrite (advance_st 2 p [60; 63]) in H by (try reflexivity; exact HW0). cbn [bind] in H.
  pose proof (WV_lit _ _ _ HW eq_refl) as HW1. change (blen [60; 63]) with 2 in HW1.
  ib H q Hq. destruct q as [tg s2].
  destruct (consume_name_inv_g _ _ _ _ HW1 (pi_nc_here _ _ HW0) Hq) as (target & l2 & -> & Hn & -> & -> & HW2).
  ib H s3 H3.
  assert (SEP : exists sep l3, l2 = sep ++ l3 /\ Cst.wf_ws sep = true /\ stops byte_is_space l3 /\
                  s3 = st (p + 2 + blen (utf8s target) + blen sep) l3 /\
                  WV (p + 2 + blen (utf8s target) + blen sep) l3 /\
                  (sep = [] -> prefix_b [63; 62] l3 = true)).
  { rewrite starts_with_st in H3 by apply (WV_W _ _ HW2). change (b "?>") with [63; 62] in H3.
    destruct (prefix_b [63; 62] l2) eqn:Eq.
    - inversion H3; subst s3. exists [], l2. rewrite blen_nil, N.add_0_r.
      split; [reflexivity|]. split; [reflexivity|]. split.
      { destruct l2 as [|y l2]; [exact I|]. cbn [prefix_b] in Eq. cbn [stops].
        apply andb_true_iff in Eq. destruct Eq as [Ey _]. assert (y = 63) by lia. subst. reflexivity. }
      split; [reflexivity|]. split; [exact HW2|]. intros _. exact Eq.
    - destruct (consume_spaces_inv_g _ _ _ HW2 H3) as (sep & l3 & -> & Hne & Hw & Hst & -> & HW3).
      exists sep, l3. split; [reflexivity|]. split; [exact Hw|]. split; [exact Hst|].
      split; [reflexivity|]. split; [exact HW3|]. intros ->. congruence. }
  destruct SEP as (sep & l3 & -> & Hsep & Hst & -> & HW3 & Hnil).
  ib H q4 H4. destruct q4 as [ct s4].
  destruct (consume_chars_inv_u _ _ _ _ _ HW3 H4) as (v & l4 & -> & -> & -> & HW4 & Hwalk & Hstop).
  ib H s5 H5. change (b "?>") with [63; 62] in H5.
  destruct (skip_string_inv _ _ _ _ (WV_W _ _ HW4) H5) as (l' & -> & -> & _).
  pose proof (WV_lit _ _ _ HW4 eq_refl) as HW5. change (blen [63; 62]) with 2 in *.
  ib H c1 Hc. inversion H; subst. clear H. cbn [CstEntCLex.st s_pos] in Hc.
  exists target, sep, v, l'. split; [reflexivity|]. split.
  { apply wf_pi_intro_u; auto.
    - apply (walk_chars _ _ _ _ Hwalk). apply (W_cr_l _ _ _ (WV_W _ _ HW3)).
    - eapply pi_walk_inv_u; [apply (WV_W _ _ HW3)|exact Hwalk].
    - destruct (Cst.prefix_is_xml target) eqn:Ex; [|reflexivity]. exfalso.
      apply prefix_is_xml_true in Ex. subst target.
      change (utf8s [120; 109; 108]) with [120; 109; 108] in Hxml, Ed. cbn [app] in Hxml, Ed.
      destruct sep as [|y sep'].
      + specialize (Hnil eq_refl). cbn [app] in Hxml, Hnil. destruct (utf8s v ++ 63 :: 62 :: l') as [|z zr]; [cbn in Hnil; discriminate|].
        cbn [prefix_b] in Hnil. apply andb_true_iff in Hnil. destruct Hnil as [Hz _]. assert (z = 63) by lia. subst z.
        vm_compute in Hxml. discriminate.
      + cbn [app] in Hxml, Ed. unfold Cst.wf_ws in Hsep. cbn [forallb] in Hsep. apply andb_true_iff in Hsep. destruct Hsep as [Hy _].
        assert (Hy' : y = 32 \/ y = 9 \/ y = 10) by (unfold Cst.is_ws in Hy; lia).
        destruct Hy' as [->|[->| ->]]; [cbn in Ed; discriminate|vm_compute in Hxml; discriminate|vm_compute in Hxml; discriminate].
    - destruct v as [|x v]; [exact I|]. destruct (Cst.is_ws x) eqn:Ew; [|reflexivity]. exfalso.
      assert (x < 128) by (unfold Cst.is_ws in Ew; lia). rewrite utf8s_cons, (utf8_ascii x) in Hst by assumption.
      cbn [app stops] in Hst. rewrite (ws_space _ Ew) in Hst. discriminate.
    - destruct sep as [|y sep]; [|right; discriminate]. left.
      specialize (Hnil eq_refl). destruct v as [|x v]; [reflexivity|exfalso].
      destruct Hwalk as (_ & _ & Hf & _). unfold pi_f in Hf.
      rewrite starts_with_st in Hf by apply (WV_W _ _ HW3). change (b "?>") with [63; 62] in Hf. rewrite Hnil in Hf.
      rewrite utf8s_cons in Hnil. destruct (N.lt_ge_cases x 128) as [L|L].
      + rewrite (utf8_ascii x L) in Hnil. cbn [app prefix_b] in Hnil. apply andb_true_iff in Hnil.
        destruct Hnil as [Hx _]. assert (x = 63) by lia. subst x. cbn in Hf. discriminate.
      + destruct (utf8_high x L) as (_ & b1 & t1 & E1 & Hb1). rewrite E1 in Hnil. cbn [app prefix_b] in Hnil.
        replace (63 =? b1) with false in Hnil by lia. discriminate. }
  split; [reflexivity|]. split; [exact HW5|].
  unfold pi_tok. cbv zeta. unfold slice_len in Hc. cbn [sl sl_start sl_end] in Hc.
  replace (p + 2 + blen (utf8s target) + blen sep + blen (utf8s v) - (p + 2 + blen (utf8s target) + blen sep))
    with (blen (utf8s v)) in Hc by lia.
  exact Hc.
Qed.

(* ---- end tags ---- *)
Lemma inv_close_g p l1 c s' c' : WV p ([60; 47] ++ l1) ->
  parse_close_element text C ev (st p ([60; 47] ++ l1)) c = Ok (s', c') ->
  exists pre loc ws2 l', l1 = rq pre loc ++ ws2 ++ [62] ++ l' /\ qn_ok pre loc /\ Cst.wf_ws ws2 = true /\
    s' = st (p + 2 + blen (rq pre loc) + blen ws2 + 1) l' /\ WV (p + 2 + blen (rq pre loc) + blen ws2 + 1) l' /\
    ev (nclose_tok p pre loc ws2) c = Ok c'.
Proof.
  intros HW H. pose proof (WV_W _ _ HW) as HW0. unfold parse_close_element in H. cbv zeta in H.
  cbn [CstEntCLex.st s_pos] in H. fold (st p ([60; 47] ++ l1)) in H.
  rewrite (advance_st 2 p [60; 47]) in H by (try reflexivity; exact HW0). cbn [bind] in H.
  pose proof (WV_lit _ _ _ HW eq_refl) as HW1. change (blen [60; 47]) with 2 in HW1.
  assert (Hnc : nc l1).
  { apply (nc_after (p + 1) 47). - apply (W_cons p 60). exact HW0. - auto. }
  ib H q Hq. destruct q as [[pfx loc] s2].
  destruct (consume_qname_inv_g _ _ _ _ _ HW1 Hnc Hq) as (pre & locn & l2 & -> & Hn & -> & -> & -> & HW2).
  destruct (skip_spaces_inv_g _ l2 HW2) as (ws2 & l3 & -> & Hws & Hst & E3 & HW3). rewrite E3 in H.
  ib H s4 H4. destruct (consume_byte_inv _ _ _ _ (WV_W _ _ HW3) H4) as (l' & -> & -> & _).
  assert (HW4 : WV (p + 2 + blen (rq pre locn) + blen ws2 + 1) l') by (apply (WV_cons _ _ _ HW3); lia).
  ib H c1 Hc. inversion H; subst. clear H. cbn [CstEntCLex.st s_pos] in Hc.
  exists pre, locn, ws2, l'. split; [reflexivity|]. split; [exact Hn|]. split; [exact Hws|].
  split; [reflexivity|]. split; [exact HW4|exact Hc].
Qed.

(* ---- start tags ---- *)
Lemma inv_elem_loop_g : forall fuel ts q l c open s' c', WV q l ->
  parse_element_loop text C ev fuel ts (st q l) c = Ok (open, s', c') ->
  exists attrs ws_end l' c2,
    l = flat_map r_rattr attrs ++ ws_end ++ tag_tail (negb open) ++ l' /\
    Forall rattr_ok attrs /\ Cst.wf_ws ws_end = true /\
    evs (nattr_toks q attrs) c = Ok c2 /\
    ev (end_tok (q + blen (flat_map r_rattr attrs) + blen ws_end) (negb open)) c2 = Ok c' /\
    s' = st (q + blen (flat_map r_rattr attrs) + blen ws_end + blen (tag_tail (negb open))) l' /\
    WV (q + blen (flat_map r_rattr attrs) + blen ws_end + blen (tag_tail (negb open))) l'.
Proof.
  induction fuel as [|fu IH]; intros ts q l c open s' c' HW H; cbn [parse_element_loop] in H; [noerr|].
  pose proof (WV_W _ _ HW) as HW0.
  destruct (at_end (st q l)) eqn:Ea; [noerr|]. cbv zeta in H.
  rewrite starts_with_space_st in H by exact HW0.
  destruct (skip_spaces_inv_g q l HW) as (w & l1 & El & Hw & Hst & E1 & HW1). rewrite E1 in H.
  pose proof (WV_W _ _ HW1) as HW10.
  cbn [CstEntCLex.st s_pos] in H. fold (st (q + blen w) l1) in H.
  ib H x Hx. destruct (curr_byte_inv _ _ _ HW10 Hx) as (l2 & ->).
  destruct (x =? 47) eqn:E47.
  { assert (x = 47) by lia. subst x. rewrite advance1_st in H by exact HW10. cbn [bind] in H.
    assert (HW2 : WV (q + blen w + 1) l2) by (apply (WV_cons _ _ _ HW1); lia).
    ib H s2 H2. destruct (consume_byte_inv _ _ _ _ (WV_W _ _ HW2) H2) as (l' & -> & -> & _).
    assert (HW3 : WV (q + blen w + 1 + 1) l') by (apply (WV_cons _ _ _ HW2); lia).
    ib H c1 Hc. inversion H; subst. clear H. cbn [CstEntCLex.st s_pos] in Hc.
    exists [], w, l', c. cbn [flat_map negb tag_tail app CstLex.evs nattr_toks]. rewrite blen_nil, N.add_0_r.
    change (blen [47; 62]) with 2.
    split; [reflexivity|]. split; [constructor|]. split; [exact Hw|]. split; [reflexivity|].
    replace (q + blen w + 2) with (q + blen w + 1 + 1) by lia.
    split; [|split; [reflexivity|exact HW3]].
    unfold end_tok. replace (q + blen w + 2) with (q + blen w + 1 + 1) by lia. exact Hc. }
  destruct (x =? 62) eqn:E62.
  { assert (x = 62) by lia. subst x. rewrite advance1_st in H by exact HW10. cbn [bind] in H.
    ib H c1 Hc. inversion H; subst. clear H. cbn [CstEntCLex.st s_pos] in Hc.
    exists [], w, l2, c. cbn [flat_map negb tag_tail app CstLex.evs nattr_toks]. rewrite blen_nil, N.add_0_r.
    change (blen [62]) with 1.
    split; [reflexivity|]. split; [constructor|]. split; [exact Hw|]. split; [reflexivity|].
    split; [exact Hc|]. split; [reflexivity|]. apply (WV_cons _ _ _ HW1). lia. }
  ib H s1 H1.
  assert (Hs1 : s1 = st (q + blen w) (x :: l2) /\ w <> []).
  { subst l. destruct w as [|w0 wr].
    - cbn [app] in H1. cbn [stops] in Hst. rewrite Hst in H1.
      unfold consume_spaces in H1. rewrite at_end_st in H1 by exact HW10.
      rewrite starts_with_space_st in H1 by exact HW10. rewrite Hst in H1. cbn [negb] in H1.
      ib H1 y Hy. noerr.
    - cbn [app] in H1. unfold Cst.wf_ws in Hw. cbn [forallb] in Hw. apply andb_true_iff in Hw.
      destruct Hw as [Hw0 _]. rewrite (ws_space _ Hw0) in H1. inversion H1. split; [reflexivity|discriminate]. }
  destruct Hs1 as [-> Hwne]. clear H1.
  assert (Hnc : nc (x :: l2)).
  { subst l. apply (nc_after_ws q w _ HW0 Hwne Hw). }
  ib H qv Hqn. destruct qv as [[pfx loc] s2].
  destruct (consume_qname_inv_g _ _ _ _ _ HW1 Hnc Hqn) as (pre & locn & l3 & En & Hname & -> & -> & -> & HW3).
  cbn [CstEntCLex.st s_pos] in H. fold (st (q + blen w + blen (rq pre locn)) l3) in H.
  ib H s3 H3. destruct (consume_eq_inv_g _ _ _ HW3 H3) as (w1 & w2 & l4 & -> & Hw1 & Hw2 & -> & HW4).
  ib H qq Hqq. destruct qq as [quote s4].
  destruct (consume_quote_inv _ _ _ _ (WV_W _ _ HW4) Hqq) as (l5 & -> & Hquote & -> & _).
  assert (HW5 : WV (q + blen w + blen (rq pre locn) + blen w1 + 1 + blen w2 + 1) l5)
    by (apply (WV_cons _ _ _ HW4); lia).
  cbn [CstEntCLex.st s_pos] in H.
  fold (st (q + blen w + blen (rq pre locn) + blen w1 + 1 + blen w2 + 1) l5) in H.
  ib H s5 H5.
  destruct (advance_until2_inv _ _ _ _ _ (WV_W _ _ HW5) H5) as (vb & cq & l6 & -> & Hv & Hcq & -> & HW60).
  assert (Hcq128 : cq < 128) by lia.
  pose proof (valid_split vb cq l6 Hcq128 (WV_valid _ _ HW5)) as Hvb.
  destruct (Valid_scalars _ Hvb) as (v & Hvs & ->).
  pose proof (WV_app _ _ _ HW5 Hvb) as HW6.
  ib H vsl Hvsl. unfold slice_back in Hvsl. apply mk_slice_sl in Hvsl. cbn [CstEntCLex.st s_pos] in Hvsl. subst vsl.
  ib H u Hu. apply WfParseTok.is_xml_str_wf in Hu.
  rewrite (W_slice _ (utf8s v) _ (WV_W _ _ HW5)) in Hu.
  pose proof (all_chars_utf8s v Hvs Hu) as Hcc.
  ib H s6 H6. destruct (consume_byte_inv _ _ _ _ (WV_W _ _ HW6) H6) as (l7 & E7 & -> & _).
  inversion E7; subst cq l7. clear E7 Hcq.
  assert (HW7 : WV (q + blen w + blen (rq pre locn) + blen w1 + 1 + blen w2 + 1 + blen (utf8s v) + 1) l6)
    by (apply (WV_cons _ _ _ HW6); lia).
  ib H c1 Hc. cbn [CstEntCLex.st s_pos] in Hc.
  destruct (IH _ _ _ _ _ _ _ HW7 H) as (attrs & ws_end & l' & c2 & -> & Hattrs & Hwe & Hevs & Hend & -> & HWe).
  set (a := {| ra_ws := w; ra_pre := pre; ra_loc := locn; ra_ws1 := w1; ra_ws2 := w2;
               ra_quote := quote; ra_val := v |}).
  assert (Hq' : q + blen w + blen (rq pre locn) + blen w1 + 1 + blen w2 + 1 + blen (utf8s v) + 1
                = q + blen (r_rattr a)).
  { unfold r_rattr, a. cbn [ra_ws ra_pre ra_loc ra_ws1 ra_ws2 ra_quote ra_val].
    rewrite !blen_app. change (blen [61]) with 1. change (blen [quote]) with 1. lia. }
  rewrite Hq' in *.
  exists (a :: attrs), ws_end, l', c2. cbn [flat_map]. rewrite blen_app.
  replace (q + (blen (r_rattr a) + blen (flat_map r_rattr attrs))) with
          (q + blen (r_rattr a) + blen (flat_map r_rattr attrs)) by lia.
  split.
  { assert (Era : r_rattr a = w ++ rq pre locn ++ w1 ++ [61] ++ w2 ++ [quote] ++ utf8s v ++ [quote]) by reflexivity.
    subst l. rewrite En, Era. rewrite <- !app_assoc. cbn [app]. rewrite <- ?app_assoc. reflexivity. }
  split.
  { constructor; [|exact Hattrs]. unfold rattr_ok, a. cbn [ra_ws ra_pre ra_loc ra_ws1 ra_ws2 ra_quote ra_val].
    assert (Hws1 : Cst.wf_ws1 w = true) by (unfold Cst.wf_ws1; destruct w; [congruence|exact Hw]).
    split; [exact Hws1|]. split; [exact Hname|]. split; [exact Hw1|]. split; [exact Hw2|].
    split; [lia|]. split.
    { unfold uchars. unfold scalars_ok in Hvs. rewrite Forall_forall in *. intros y Hy. auto. }
    apply forallb_Forall in Hv.
    assert (Nq : Forall (fun x => x <> quote) v).
    { apply (scalars_ne quote v); [lia|]. eapply Forall_impl; [|exact Hv]. cbv beta. intros y Hy. lia. }
    assert (N60 : Forall (fun x => x <> 60) v).
    { apply (scalars_ne 60 v); [lia|]. eapply Forall_impl; [|exact Hv]. cbv beta. intros y Hy. lia. }
    rewrite Forall_forall in *. intros y Hy. auto. }
  split; [exact Hwe|]. split; [|split; [exact Hend|split; [reflexivity|exact HWe]]].
  cbn [nattr_toks CstLex.evs].
  assert (Etok : nattr_tok q a =
     TAttribute (q + blen w, q + blen (r_rattr a))
       (N.min (q + blen w + blen (rq pre locn) - (q + blen w)) qname_len_sat)
       (N.min (q + blen w + blen (rq pre locn) + blen w1 + 1 + blen w2 - (q + blen w + blen (rq pre locn))) eq_len_sat)
       (sl (q + blen w) (q + blen w + blen (utf8s pre)))
       (sl (q + blen w + qoff pre) (q + blen w + qoff pre + blen (utf8s locn)))
       (sl (q + blen w + blen (rq pre locn) + blen w1 + 1 + blen w2 + 1)
           (q + blen w + blen (rq pre locn) + blen w1 + 1 + blen w2 + 1 + blen (utf8s v)))).
  { rewrite <- Hq'. unfold nattr_tok, a. cbv zeta.
    cbn [ra_ws ra_pre ra_loc ra_ws1 ra_ws2 ra_quote ra_val]. reflexivity. }
  rewrite Etok, Hc. cbn [bind]. exact Hevs.
Qed.

Lemma inv_element_g p l1 c open s' c' : WV p ([60] ++ l1) ->
  parse_element text C ev (st p ([60] ++ l1)) c = Ok (open, s', c') ->
  exists pre loc attrs ws_end l' c1 c2,
    l1 = rq pre loc ++ flat_map r_rattr attrs ++ ws_end ++ tag_tail (negb open) ++ l' /\
    qn_ok pre loc /\ Forall rattr_ok attrs /\ Cst.wf_ws ws_end = true /\
    ev (nstart_tok p pre loc) c = Ok c1 /\
    evs (nattr_toks (p + 1 + blen (rq pre loc)) attrs) c1 = Ok c2 /\
    ev (end_tok (p + 1 + blen (rq pre loc) + blen (flat_map r_rattr attrs) + blen ws_end) (negb open)) c2 = Ok c' /\
    s' = st (p + 1 + blen (rq pre loc) + blen (flat_map r_rattr attrs) + blen ws_end + blen (tag_tail (negb open))) l' /\
    WV (p + 1 + blen (rq pre loc) + blen (flat_map r_rattr attrs) + blen ws_end + blen (tag_tail (negb open))) l'.
Proof.
  intros HW H. pose proof (WV_W _ _ HW) as HW0. unfold parse_element in H. cbv zeta in H. cbn [CstEntCLex.st s_pos] in H.
  fold (st p ([60] ++ l1)) in H.
  rewrite (advance_st 1 p [60]) in H by (try reflexivity; exact HW0). cbn [bind] in H.
  pose proof (WV_lit _ _ _ HW eq_refl) as HW1. change (blen [60]) with 1 in HW1.
  assert (Hnc : nc l1) by (apply (nc_after p 60 _ HW0); auto).
  ib H qv Hqn. destruct qv as [[pfx loc] s2].
  destruct (consume_qname_inv_g _ _ _ _ _ HW1 Hnc Hqn) as (pre & locn & l2 & -> & Hname & -> & -> & -> & HW2).
  ib H c1 Hc1.
  destruct (inv_elem_loop_g _ _ _ _ _ _ _ _ HW2 H) as (attrs & ws_end & l' & c2 & -> & Ha & Hw & Hevs & Hend & -> & HWe).
  exists pre, locn, attrs, ws_end, l', c1, c2.
  split; [reflexivity|]. split; [exact Hname|]. split; [exact Ha|]. split; [exact Hw|].
  split; [exact Hc1|]. split; [exact Hevs|]. split; [exact Hend|]. split; [reflexivity|exact HWe].
Qed.

End G6.
