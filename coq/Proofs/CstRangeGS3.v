(* Proofs/CstRangeGS3.v -- C13 / C18 on the capstone fragment, stage S3 (Spec/CstFull.v, [S3]: an internal
   DTD subset declares character-data entities over Unicode, used in character data, in attribute
   values and in the values of namespace declarations): parse_document of CstFullS3.v once more with
   the observations of CstRangeFItems.v, and the theorems [parse_render_ranges_f3],
   [parse_render_attr_ranges_f3], [parse_render_storage_f3]. *)
From Coq Require Import Ascii String.
From Coq Require Import List NArith PeanoNat Bool Lia ZifyBool ZifyN ZifyNat.
Import ListNotations.
From RX Require Import Generated.
From RX.Model Require Import Base CharClass Stream Tokenizer Doc Builder Parse Api.
From RX.Spec Require Cst Scope CstNs CstU CstText CstEnt Detector.
From RX.Spec Require Import Text CstFull.
From RX.Proofs Require Import Tactics CstLex CstBuild CstNsLex CstNsView CstNsBuild CstULex DetectorProofs.
From RX.Proofs Require Import CstEntSem CstFullLex CstFullBuild CstFullTree CstFullItems CstFullDoc CstFullMain.
From RX.Proofs Require Import CstFullS2Sem CstFullS3Sem CstFullS3Text CstFullS3Dtd CstFullS3Plug CstFullS3.
From RX.Proofs Require CstItems CstNsItems CstNsDoc CstNsMain CstDoc CstEntDtd RangeInv RangeParse.
From RX.Proofs Require Import CstRangeDefs CstRangeBuild CstRangeTDefs CstRangeTBuild CstRangeEDefs CstRangeFDefs CstRangeFBuild CstRangeFItems CstRangeFDoc CstRangeFMain CstRangeFS2.
From RX.Proofs Require Import CstRangeGDefs CstRangeGPlug.
Open Scope N_scope.

Ltac clia := repeat match goal with H : @eq bool _ true |- _ => clear H end; lia.

(* ---- comments and PIs: what is observed does not depend on what the stage plugs in ---- *)
Lemma ExtraF_misc_indep Sy M M' vs vs' rn rn' text (L : list (N * item Sy)) c c' K ext :
  Forall (fun x => is_misc Sy (snd x) = true) L ->
  ExtraF Sy M vs rn text L c c' K ext -> ExtraF Sy M' vs' rn' text L c c' K ext.
Proof.
  intros HM (A1 & A2 & A3 & A4).
  assert (E1 : flat_map (fnode_of Sy rn') L = flat_map (fnode_of Sy rn) L).
  { clear - HM. induction HM as [|[p i] L Hi _ IH]; [reflexivity|]. cbn [flat_map]. rewrite IH.
    cbn [snd] in Hi. destruct i; try discriminate; reflexivity. }
  assert (E2 : flat_map (fitem_aspans Sy vs') L = flat_map (fitem_aspans Sy vs) L).
  { clear - HM. induction HM as [|[p i] L Hi _ IH]; [reflexivity|]. cbn [flat_map]. rewrite IH.
    cbn [snd] in Hi. destruct i; try discriminate; reflexivity. }
  assert (E3 : flat_map (fitem_decls Sy M' vs') L = flat_map (fitem_decls Sy M vs) L).
  { clear - HM. induction HM as [|[p i] L Hi _ IH]; [reflexivity|]. cbn [flat_map]. rewrite IH.
    cbn [snd] in Hi. destruct i; try discriminate; reflexivity. }
  unfold ExtraF. rewrite E1, E2, E3. split; [exact A1|split; [exact A2|split; [exact A3|exact A4]]].
Qed.

Lemma fpairs_misc Sy M : forall (l : pairs Sy) p, wf_pairs Sy M l = true ->
  Forall (fun x => is_misc Sy (snd x) = true) (fpairs_at Sy p l).
Proof.
  induction l as [|[w i] r IH]; intros p H; cbn [fpairs_at]; [constructor|].
  cbn [CstFullDoc.wf_pairs forallb fst snd] in H. rewrite !andb_true_iff in H. destruct H as [[[_ H2] _] H4].
  constructor; [exact H2|apply IH; exact H4].
Qed.

Lemma m0_val_norm_r text vs : forall q v p more, wf_val M0 q v = true -> q = 39 \/ q = 34 ->
  CstULex.WV text p (r_val epieces v ++ [q] ++ more) ->
  exists stor, norm_ok text [] (sl p (p + blen (r_val epieces v))) stor /\ storage_bytes text stor = val_sem M0 v /\
               stored stor (vs p v).
Proof. intros q v p more H. discriminate H. Qed.

(* a document of the frame written at offset p0 *)
Lemma fdoc_items_from_eq Sy (M : meaning Sy) (c : doc Sy) p0 : wf_doc M c = true ->
  let B := regroup (d_ws0 c) (d_before c) in
  let p1 := p0 + blen (r_pairs B) + blen (last_ws (d_ws0 c) (d_before c)) in
  fdoc_items_from Sy p0 c =
  fpairs_at Sy p0 B ++ fitems_at Sy p1 (d_root c) ++ fpairs_at Sy (p1 + blen (r_item (d_root c))) (d_after c).
Proof.
  intros Hwf B p1. pose proof (wf_doc_parts Sy M c Hwf) as [H1 H2 H3 _ H5 H6 _].
  assert (Ero : p0 + froot_offset Sy c = p1).
  { unfold froot_offset, fbefore_len, p1, B.
    pose proof (f_equal (@length N) (regroup_render Sy (d_before c) (d_ws0 c))) as E.
    rewrite !app_length in E. unfold nlen, blen. lia. }
  unfold fdoc_items_from. rewrite Ero, <- (fpairs_at_regroup Sy M (d_before c) p0 (d_ws0 c) H3).
  rewrite <- (fpairs_at_after Sy M (d_after c) _ H6). reflexivity.
Qed.

Section Doc3R.
Variable d : S3.doc.
Hypothesis Hwf : S3.wf_doc d = true.

Notation t := (S3.x_dtd d).
Notation decls := (E.t_decls (enc_dtd t)).
Notation M := (S3.meaning_of d).
Notation main := (S3.x_main d).
Notation text := (S3.render d).
Notation dens := (CstFullTree.dens epieces M).
Notation s3_parts := (CstFullS3.s3_parts d Hwf).
Notation B0 := (CstFullS3.B0 d).
Notation wB0 := (CstFullS3.wB0 d).
Notation text_shape := (CstFullS3.text_shape d).
Notation dtd_starts := (CstFullS3.dtd_starts d).
Notation text_valid := (CstFullS3.text_valid d Hwf).
Notation head_text := (CstFullS3.head_text d Hwf).
Notation all_items := (CstFullS3.all_items d).
Notation ExtraF := (CstRangeFItems.ExtraF epieces M (vstore_s3 d) (run_nodes_s3 d) text).
Notation ExtraF_app := (CstRangeFItems.ExtraF_app epieces M (vstore_s3 d) (run_nodes_s3 d) text).

Lemma s3_dtd_offset_eq : 0 + blen (r_pairs B0) + blen wB0 = s3_dtd_offset d.
Proof.
  unfold s3_dtd_offset, fbefore_len, CstFullS3.B0, CstFullS3.wB0.
  pose proof (f_equal (@length N) (regroup_render epieces (S3.x_before d) (S3.x_ws0 d))) as E.
  rewrite !app_length in E. unfold nlen, blen. lia.
Qed.

Lemma s3_items_eq :
  let B1 := regroup (d_ws0 main) (d_before main) in
  let p1 := 0 + blen (r_pairs B0) + blen wB0 in
  let p2 := p1 + blen (E.r_dtd (enc_dtd t)) in
  let p3 := p2 + blen (r_pairs B1) + blen (last_ws (d_ws0 main) (d_before main)) in
  s3_items_at d = fpairs_at epieces 0 B0 ++ fpairs_at epieces p2 B1 ++ fitems_at epieces p3 (d_root main) ++
                  fpairs_at epieces (p3 + blen (r_item (d_root main))) (d_after main).
Proof.
  intros B1 p1 p2 p3. destruct s3_parts as (H0 & Hb & Ht & Hm).
  unfold s3_items_at, s3_main_offset. rewrite <- s3_dtd_offset_eq. fold p1. change (nlen (E.r_dtd (enc_dtd t))) with (blen (E.r_dtd (enc_dtd t))). fold p2.
  rewrite (fdoc_items_from_eq epieces M main p2 Hm). fold B1. fold p3.
  pose proof (fpairs_at_regroup epieces M (S3.x_before d) 0 (S3.x_ws0 d) Hb) as Eb. rewrite N.add_0_l in Eb. rewrite <- Eb. reflexivity.
Qed.

Variable D : list Scope.binding.
Hypothesis HD : forall l, NoDup l -> incl l D -> N.of_nat (length l) <= 65535.
Hypothesis HinD : incl (doc_decls M main) D.

Notation CIn := (CstNsBuild.CIn text D).
Notation node_room := CstNsItems.node_room.
Notation attr_room := CstNsItems.attr_room.
Notation ns_room := CstNsItems.ns_room.

Lemma parse_document_ok_3_r (c0 : context) :
  CIn [] c0 -> c_entities c0 = [] -> c_ld c0 = ld_init -> c_after_text c0 = [] ->
  node_room c0 (NT.nsizes (dens all_items)) -> attr_room c0 (NT.nattrs_items (den M (d_root main))) ->
  ns_room c0 (ns_cost M main) ->
  exists cf K ext,
    parse_document text context (tok_ev text) true c0 = Ok cf /\
    absn (c_doc cf) = absn (c_doc c0) ++ K /\ d_attrs (c_doc cf) = d_attrs (c_doc c0) ++ ext /\
    ExtraF (s3_items_at d) c0 cf K ext.
Proof.
  intros I0 Hes0 Hld0 A0 NR AR SR. pose proof s3_items_eq as Eat.
  destruct s3_parts as (H0 & Hb & Ht & Hm). destruct (udtd_of t Ht) as [Hlex Hdk].
  destruct (regroup_wf epieces M _ _ H0 Hb) as [R1 R2]. fold B0 in R1. fold wB0 in R2.
  pose proof text_valid as Hvalid. pose proof head_text as [Hdecl Hbom].
  pose proof (wf_doc_parts epieces M main Hm) as [H1 H2 H3 (name & ens & ws & body & Er) H5 H6 H7].
  destruct (regroup_wf epieces M _ _ H1 H3) as [Q1 Q2].
  unfold doc_decls in HinD. rewrite <- (items_decls_flat) in HinD. unfold ns_cost in SR. rewrite <- ns_costs_sum in SR.
  set (B1 := regroup (d_ws0 main) (d_before main)) in *. set (wB1 := last_ws (d_ws0 main) (d_before main)) in *.
  set (A := d_after main) in *. set (wE := d_ws_end main) in *.
  assert (Eitems : all_items = map snd B0 ++ map snd B1 ++ d_root main :: map snd A).
  { unfold all_items, B0, B1. rewrite (regroup_items epieces), (doc_items_shape epieces). reflexivity. }
  rewrite Eitems in *. rewrite Er in *.
  set (root := IElem name ens ws body) in *.
  rewrite !(dens_app epieces M) in NR. cbn [CstFullTree.dens] in NR |- *. rewrite !nsizes_app in NR.
  destruct (pairs_indep M B0 R1) as [R1' Ed0].
  destruct (pairs_dens epieces M B0 R1) as (_ & _ & _ & Hn0 & _).
  destruct (pairs_dens epieces M B1 Q1) as (_ & _ & _ & Hn1 & _).
  assert (Etext : text = r_pairs B0 ++ wB0 ++ E.r_dtd (enc_dtd t) ++ r_pairs B1 ++ wB1 ++ r_item root ++ r_pairs A ++ wE ++ []).
  { rewrite text_shape, (render_shape epieces main). fold B1 wB1 A wE. rewrite Er. reflexivity. }
  pose proof (WV_new text Hvalid) as HW0.
  pose proof (root_name epieces M _ _ _ _ H5) as Hn.
  destruct (root_starts epieces name ens ws body Hn) as (n & l & El & Hnsp & H33 & H63). fold root in El.
  set (rest1 := r_item root ++ r_pairs A ++ wE ++ []) in *.
  set (rest0 := E.r_dtd (enc_dtd t) ++ r_pairs B1 ++ wB1 ++ rest1) in *.
  destruct dtd_starts as [ld Eld].
  assert (Hstop0 : CstDoc.misc_stop rest0).
  { unfold rest0. rewrite Eld. cbn [app]. split; [reflexivity|split; reflexivity]. }
  assert (Hstop1 : CstDoc.misc_stop rest1).
  { unfold rest1. rewrite El. cbn [app]. split; [reflexivity|]. cbn [prefix_b].
    replace (33 =? n) with false by clia. replace (63 =? n) with false by clia. split; reflexivity. }
  assert (Hdt1 : prefix_b [60; 33; 68; 79; 67; 84; 89; 80; 69] rest1 = false).
  { unfold rest1. rewrite El. cbn [app prefix_b]. replace (33 =? n) with false by clia. rewrite andb_false_r. reflexivity. }
  unfold parse_document. rewrite st_new.
  rewrite starts_with_st by exact (WV_W _ _ _ HW0). rewrite Hbom. cbn [bind].
  unfold starts_with_declaration. rewrite starts_with_st, avail_st by exact (WV_W _ _ _ HW0).
  change (b "<?xml") with [60; 63; 120; 109; 108]. fold (CstDoc.decl_test text). rewrite Hdecl. cbn [bind].
  (* before the DOCTYPE *)
  unfold parse_misc. cbn [CstLex.st s_rest]. fold (CstLex.st text 0 text).
  assert (HW0' : WV text 0 (r_pairs B0 ++ wB0 ++ rest0)) by (rewrite <- Etext; exact HW0).
  replace (CstLex.st text 0 text) with (CstLex.st text 0 (r_pairs B0 ++ wB0 ++ rest0))
    by (rewrite <- Etext; reflexivity).
  assert (Elen : length text = length (r_pairs B0 ++ wB0 ++ rest0)) by (rewrite <- Etext; reflexivity).
  destruct (misc_loop_ok_f_r epieces M0 (vstore_s3 d) (run_nodes_s3 d) m0_val_lex m0_run_valid text D HD [] (m0_val_norm_r text (vstore_s3 d)) B0 0 wB0 rest0 c0 (S (length text)) HW0' R1' R2 Hstop0)
    as (c1 & K0 & E1 & S1 & I1 & A1 & Tr1 & F1 & Y1).
  { pose proof (pairs_len epieces M B0 R1). rewrite Elen, app_length. clia. }
  { exact I0. } { exact A0. } { rewrite Ed0. unfold CstNsItems.node_room in *. clia. }
  rewrite Ed0 in F1.
  rewrite E1. cbn [bind]. clear E1.
  pose proof (WV_app _ _ _ _ HW0' (pairs_valid epieces M (s3_val_lex decls) (s3_run_valid decls) B0 R1)) as HWa.
  pose proof (WV_lit _ _ _ _ HWa (ws_lit _ R2)) as HWd. pose proof (WV_W _ _ _ HWd) as HWd'.
  set (p1 := 0 + blen (r_pairs B0) + blen wB0) in *.
  rewrite (CstDoc.skip_spaces_none text) by (try exact HWd'; apply Hstop0).
  rewrite starts_with_st by exact HWd'. change (b "<!DOCTYPE") with E.kw_doctype.
  replace (prefix_b E.kw_doctype rest0) with true by (unfold rest0, E.r_dtd; rewrite <- !app_assoc; rewrite prefix_b_app_same; reflexivity).
  cbn [negb bind].
  (* the DOCTYPE: the entities are recorded *)
  unfold rest0 in HWd |- *.
  rewrite (lex_doctype_u text context (tok_ev text) p1 (enc_dtd t) _ c1 HWd Hlex). cbv zeta.
  rewrite (CstEntDtd.decls_recorded text). cbn [bind].
  set (q := p1 + 9 + blen (E.t_ws1 (enc_dtd t)) + blen (E.t_name (enc_dtd t)) + blen (E.t_ws2 (enc_dtd t)) + 1) in *.
  set (es := CstEntDtd.decl_ents q decls).
  assert (Hes1 : c_entities c1 = []).
  { destruct S1 as [S1 _]. destruct (sn_keep _ _ _ _ S1) as (_ & E2 & _). rewrite E2. exact Hes0. }
  rewrite Hes1. cbn [app].
  set (c2 := set_entities c1 es).
  assert (Henv : Forall2 (uent_ok text) decls es).
  { unfold es. destruct Hlex as [L1 L2 L3 L4 L5 L6].
    assert (HWq : WV text q (flat_map E.r_decl decls ++ E.t_ws3 (enc_dtd t) ++ [93] ++ E.t_ws4 (enc_dtd t) ++ [62] ++ r_pairs B1 ++ wB1 ++ rest1)).
    { revert HWd. unfold E.r_dtd. rewrite <- !app_assoc. intros HWd.
      destruct (CstEntDtd.ws1_parts _ L1) as [_ Lw1]. destruct (uname_bytes _ L2) as (Hun & _).
      pose proof (WV_lit _ _ _ _ HWd (eq_refl : forallb (fun y => y <? 128) E.kw_doctype = true)) as X1. change (blen E.kw_doctype) with 9 in X1.
      pose proof (WV_lit _ _ _ _ X1 (ws_lit _ Lw1)) as X2. pose proof (WV_app _ _ _ _ X2 (ustr_valid _ Hun)) as X3.
      pose proof (WV_lit _ _ _ _ X3 (ws_lit _ L3)) as X4.
      pose proof (WV_lit _ _ _ _ X4 (eq_refl : forallb (fun y => y <? 128) [91] = true)) as X5. change (blen [91]) with 1 in X5. exact X5. }
    apply (decl_ents_ok_u text decls q _ HWq L4). }
  pose proof (WV_app _ _ _ _ HWd (udtd_valid _ Hlex)) as HWe.
  set (p2 := p1 + blen (E.r_dtd (enc_dtd t))) in *.
  assert (I2 : CIn [] c2) by (apply CIn_set_entities; exact I1).
  assert (HC2 : CstFullBuild.NC es c2).
  { split; [reflexivity|]. unfold c2. cbn [c_ld set_entities]. destruct S1 as [S1 _]. destruct (sn_keep _ _ _ _ S1) as (_ & _ & _ & E4). rewrite E4. exact Hld0. }
  pose proof (Stepn_nodes_len _ _ _ _ S1) as Ln1.
  rewrite (Forall2_len_N _ _ _ F1) in Ln1. unfold len_N at 3 in Ln1. rewrite NT.tag_list_len in Ln1.
  pose proof (Stepn_opt _ _ _ _ (proj1 S1)) as Lo1.
  pose proof (Stepn_attrs_len _ _ _ _ (proj1 S1)) as La1. change (len_N []) with 0 in La1.
  (* between the DOCTYPE and the root *)
  unfold parse_misc. cbn [CstLex.st s_rest]. fold (CstLex.st text p2 (r_pairs B1 ++ wB1 ++ rest1)).
  destruct (misc_loop_ok_f_r epieces M (vstore_s3 d) (run_nodes3 (table_of t) (vtable_at q decls)) (s3_val_lex decls) (s3_run_valid decls) text D HD es (s3_val_norm_r decls Hdk text D HD q Henv)
              B1 p2 wB1 rest1 c2 (S (length (r_pairs B1 ++ wB1 ++ rest1))) HWe Q1 Q2 Hstop1)
    as (c3 & K1 & E3 & S3 & I3 & A3 & Tr3 & F3 & Y3).
  { pose proof (pairs_len epieces M B1 Q1). rewrite app_length. clia. }
  { exact I2. } { exact A1. }
  { unfold CstNsItems.node_room in *. cbn [c_doc c_opt c2 set_entities]. rewrite Ln1, Lo1. clia. }
  rewrite E3. cbn [bind]. clear E3.
  pose proof (WV_app _ _ _ _ HWe (pairs_valid epieces M (s3_val_lex decls) (s3_run_valid decls) B1 Q1)) as HWf.
  pose proof (WV_lit _ _ _ _ HWf (ws_lit _ Q2)) as HWg. pose proof (WV_W _ _ _ HWg) as HWg'.
  set (p3 := p2 + blen (r_pairs B1) + blen wB1) in *.
  rewrite (CstDoc.skip_spaces_none text) by (try exact HWg'; apply Hstop1).
  assert (Ecb : match curr_byte_opt (CstLex.st text p3 rest1) with Some x => x =? 60 | None => false end = true).
  { revert HWg'. unfold rest1. rewrite El. cbn [app]. intros HWg'. rewrite curr_byte_opt_st by exact HWg'. reflexivity. }
  rewrite Ecb.
  (* root *)
  cbn [c_doc c_opt c_parent_id c2 set_entities] in S3, F3.
  pose proof (Stepn_nodes_len _ _ _ _ S3) as Ln3. cbn [c_doc c2 set_entities] in Ln3.
  rewrite (Forall2_len_N _ _ _ F3) in Ln3. unfold len_N at 3 in Ln3. rewrite NT.tag_list_len in Ln3.
  pose proof (Stepn_opt _ _ _ _ (proj1 S3)) as Lo3. cbn [c_opt c2 set_entities] in Lo3.
  pose proof (Stepn_attrs_len _ _ _ _ (proj1 S3)) as La3. change (len_N []) with 0 in La3. cbn [c_doc c2 set_entities] in La3.
  cbn [c_doc c2 set_entities] in Tr3.
  unfold rest1 in HWg |- *.
  destruct (root_ok_f_r epieces M steps3 (vstore_s3 d) (run_nodes3 (table_of t) (vtable_at q decls)) (s3_val_lex decls) (s3_run_valid decls) (s3_run_steps decls) text D HD es
              (s3_val_norm_r decls Hdk text D HD q Henv) (s3_run_r decls Hdk text D HD q Henv)
              [] name ens ws body p3 (r_pairs A ++ wE ++ []) c3 H5 H7 HinD HWg I3)
    as (c4 & K2 & e2 & E4 & S4 & I4 & A4 & _ & F4 & L4 & Tr4 & Y4).
  { apply (Stepn_NC _ _ _ _ _ S3 HC2). }
  { exact A3. }
  { unfold CstNsItems.node_room in *. rewrite Ln3, Lo3, Ln1, Lo1. fold root. clia. }
  { unfold CstNsItems.attr_room in *. rewrite La3, La1. fold root. clia. }
  { unfold CstNsItems.ns_room in *. rewrite Tr3, Tr1. fold root. exact SR. }
  fold root in E4, S4, F4, L4, Tr4, HWg, Y4.
  rewrite E4. cbn [bind]. clear E4.
  pose proof (WV_app _ _ _ _ HWg (fitem_valid epieces M (s3_val_lex decls) (s3_run_valid decls) _ H5)) as HWh. fold root in HWh.
  set (p4 := p3 + blen (r_item root)) in *.
  pose proof (Stepn_nodes_len _ _ _ _ S4) as Ln4.
  rewrite (Forall2_len_N _ _ _ F4) in Ln4. unfold len_N at 3 in Ln4. rewrite NT.tag_list_len in Ln4.
  pose proof (Stepn_opt _ _ _ _ (proj1 S4)) as Lo4.
  (* epilog *)
  unfold parse_misc. cbn [CstLex.st s_rest]. fold (CstLex.st text p4 (r_pairs A ++ wE ++ [])).
  destruct (misc_loop_ok_f_r epieces M (vstore_s3 d) (run_nodes3 (table_of t) (vtable_at q decls)) (s3_val_lex decls) (s3_run_valid decls) text D HD es (s3_val_norm_r decls Hdk text D HD q Henv)
              A p4 wE [] c4 (S (length (r_pairs A ++ wE ++ []))) HWh H6 H2)
    as (c5 & K3 & E5 & S5 & I5 & A5 & Tr5 & F5 & Y5).
  { split; [exact Logic.I|split; reflexivity]. }
  { pose proof (pairs_len epieces M A H6). rewrite app_length. clia. }
  { exact I4. } { exact A4. }
  { unfold CstNsItems.node_room in *. rewrite Ln4, Lo4, Ln3, Lo3, Ln1, Lo1, <- !N.add_assoc. exact NR. }
  rewrite E5. cbn [bind]. clear E5.
  pose proof (WV_W _ _ _ HWh) as HWh'.
  pose proof (W_app _ _ _ _ HWh') as HWi. pose proof (W_app _ _ _ _ HWi) as HWj.
  rewrite at_end_st by exact HWj. cbn [negb].
  exists c5, (K0 ++ K1 ++ K2 ++ K3), ([] ++ [] ++ e2 ++ []). split; [reflexivity|].
  destruct S1 as (S1 & P1a & P1b). destruct S3 as (S3 & P3a & P3b). destruct S4 as (S4 & P4a & P4b). destruct S5 as (S5 & P5a & P5b).
  split; [|split].
  - rewrite (sn_nodes _ _ _ _ S5), (sn_nodes _ _ _ _ S4), (sn_nodes _ _ _ _ S3). cbn [c_doc c2 set_entities].
    rewrite (sn_nodes _ _ _ _ S1), <- !app_assoc. reflexivity.
  - rewrite (sn_attrs _ _ _ _ S5), (sn_attrs _ _ _ _ S4), (sn_attrs _ _ _ _ S3). cbn [c_doc c2 set_entities].
    rewrite (sn_attrs _ _ _ _ S1), <- !app_assoc. reflexivity.
  - (* where things are *)
    cbv zeta in Eat.
    assert (Eq : s3_decls_offset d = q) by (unfold q, p1, s3_decls_offset; rewrite <- s3_dtd_offset_eq; reflexivity).
    rewrite Eat. unfold run_nodes_s3, s3_vtable. rewrite Eq.
    eapply CstRangeFItems.ExtraF_app; [apply (ExtraF_misc_indep _ _ _ _ _ _ _ _ _ _ _ _ _ (fpairs_misc _ _ _ _ R1') Y1)|].
    eapply CstRangeFItems.ExtraF_app; [exact Y3|]. eapply CstRangeFItems.ExtraF_app; [exact Y4|exact Y5].
Qed.

End Doc3R.

Print Assumptions parse_document_ok_3_r.

(* ------------------------------------------------------------------------------------------ *)
(* the run                                                                                    *)
(* ------------------------------------------------------------------------------------------ *)
Lemma parse_observed_f3 : forall (d : S3.doc) (opt : options) doc,
  S3.wf_doc d = true -> allow_dtd opt = true ->
  N.of_nat (length (S3.sem d)) < nodes_limit opt ->
  N.of_nat (length (S3.render d)) <= u32_max ->
  S3.distinct_decls_le d (N.to_nat 65535) ->
  1 + N.of_nat (S3.ns_cost d) <= u32_max ->
  parse (S3.render d) opt = Ok doc ->
  map nd_range (d_nodes doc) = (0, tlen (S3.render d)) :: fspans3 d /\
  (exists k0, map nd_kind (d_nodes doc) = KRoot :: k0 /\ Forall2 fkshape k0 (fshapes3 d)) /\
  Forall2 fattr_obs (d_attrs doc) (fattr_spans3 d) /\
  d_ns_values doc = xml_ns :: map nsv_of (fns_table3 d).
Proof.
  intros d opt doc Hwf Hdtd Hlim Hsz Hdist Hcost H. destruct (s3_render_bounds d Hwf) as [B1 B2]. set (text := S3.render d) in *.
  set (D := doc_decls (S3.meaning_of d) (S3.x_main d)).
  assert (HD : forall l, NoDup l -> incl l D -> N.of_nat (length l) <= 65535).
  { intros l N1 N2. pose proof (Hdist l N1 N2). lia. }
  assert (Hsz' : NT.nsizes (CstFullTree.dens epieces (S3.meaning_of d) (all_items d)) = N.of_nat (length (S3.sem d))).
  { rewrite sem_all, sem_items_len. reflexivity. }
  destruct (parse_document_ok_3_r d Hwf D HD (incl_refl _) (init_ctx text opt) (CstNsMain.init_ctx_CIn text D opt) eq_refl eq_refl eq_refl)
    as (cf & K & ext & E & Habs & Hattrs & (X1 & X2 & X3 & X4)).
  { unfold CstNsItems.node_room. cbn. rewrite Hsz'. unfold len_N. cbn [length]. unfold u32_max in *. lia. }
  { unfold CstNsItems.attr_room. cbn. unfold u32_max in *. lia. }
  { unfold CstNsItems.ns_room. cbn. unfold len_N. cbn [length]. unfold S3.ns_cost in Hcost. lia. }
  fold text in E. unfold tok_ev in E. rewrite <- Hdtd in E. rewrite (parse_is_doc_ns text opt cf doc E H).
  split; [exact X3|]. split; [|split].
  - exists (map snd K). split; [|exact X1].
    rewrite <- absn_kinds, Habs, map_app. reflexivity.
  - rewrite Hattrs. cbn [CstNsMain.init_ctx c_doc d_attrs app]. exact X2.
  - destruct X4 as [_ X4]. rewrite X4. reflexivity.
Qed.

(* ------------------------------------------------------------------------------------------ *)
(* (1) the ranges                                                                             *)
(* ------------------------------------------------------------------------------------------ *)
Theorem parse_render_ranges_f3 : forall (d : S3.doc) (opt : options) doc,
  S3.wf_doc d = true ->
  allow_dtd opt = true ->                                         (* the options allow a DOCTYPE *)
  N.of_nat (length (S3.sem d)) < nodes_limit opt ->               (* room for all nodes + the Root *)
  N.of_nat (length (S3.render d)) <= u32_max ->                    (* the input is at most u32::MAX bytes long *)
  S3.distinct_decls_le d (N.to_nat 65535) ->                       (* at most 65535 distinct declared bindings *)
  1 + N.of_nat (S3.ns_cost d) <= u32_max ->                        (* the namespace table fits *)
  parse (S3.render d) opt = Ok doc ->
  (* every node below the Root, in document order: the span of the construct it was read from -- in
     the document, or (a Text node that starts with the value of an entity) inside the literal of
     the entity declaration in the DOCTYPE *)
  map nd_range (tl (d_nodes doc)) = fspans3 d /\
  (exists root, nth_N (d_nodes doc) 0 = Some root /\ nd_range root = (0, N.of_nat (length (S3.render d)))) /\
  (* all these offsets are on character boundaries *)
  Forall (fun r => is_boundary (S3.render d) (fst r) = true /\ is_boundary (S3.render d) (snd r) = true) (fspans3 d).
Proof.
  intros d opt doc Hwf Hdtd Hlim Hsz Hd Hc H. destruct (parse_observed_f3 d opt doc Hwf Hdtd Hlim Hsz Hd Hc H) as (R & _ & _ & _).
  pose proof (RangeParse.parse_ranges_valid _ opt doc (render_valid_utf8_s3 d Hwf) H) as (G & _ & _).
  destruct (d_nodes doc) as [|root nodes]; [discriminate|]. cbn [map tl] in *. injection R as R0 R1.
  split; [exact R1|]. split; [exists root; split; [reflexivity|exact R0]|].
  rewrite <- R1. apply Forall_forall. intros r Hr. apply in_map_iff in Hr. destruct Hr as (nd & <- & Hin).
  destruct (G nd (or_intror Hin)) as (_ & _ & B1 & B2). split; assumption.
Qed.
Print Assumptions parse_render_ranges_f3.

Lemma items_aspans_ok Sy vs (L : list (N * item Sy)) : Forall faspan_ok (flat_map (fitem_aspans Sy vs) L).
Proof.
  induction L as [|[p i] L IH]; [constructor|]. cbn [flat_map].
  apply Forall_app. split; [|exact IH]. destruct i; try constructor. apply entries_aspans_ok.
Qed.

Theorem parse_render_attr_ranges_f3 : forall (d : S3.doc) (opt : options) doc,
  S3.wf_doc d = true -> allow_dtd opt = true ->
  N.of_nat (length (S3.sem d)) < nodes_limit opt ->
  N.of_nat (length (S3.render d)) <= u32_max ->
  S3.distinct_decls_le d (N.to_nat 65535) ->
  1 + N.of_nat (S3.ns_cost d) <= u32_max ->
  fattrs_small3 d ->                                           (* below the saturation limits *)
  parse (S3.render d) opt = Ok doc ->
  map (fun a => (ad_range a, attr_range_qname a, attr_range_value a)) (d_attrs doc) =
  map (fun s => (fa_range s, fa_qname s, Ok (fa_value s))) (fattr_spans3 d).
Proof.
  intros d opt doc Hwf Hdtd Hlim Hsz Hd Hc Hsmall H. destruct (parse_observed_f3 d opt doc Hwf Hdtd Hlim Hsz Hd Hc H) as (_ & _ & A & _).
  apply (obs_ranges _ _ A); [apply items_aspans_ok|exact Hsmall].
Qed.
Print Assumptions parse_render_attr_ranges_f3.

(* ------------------------------------------------------------------------------------------ *)
(* (2) what is stored (C18)                                                                   *)
(* ------------------------------------------------------------------------------------------ *)
Theorem parse_render_storage_f3 : forall (d : S3.doc) (opt : options) doc,
  S3.wf_doc d = true -> allow_dtd opt = true ->
  N.of_nat (length (S3.sem d)) < nodes_limit opt ->
  N.of_nat (length (S3.render d)) <= u32_max ->
  S3.distinct_decls_le d (N.to_nat 65535) ->
  1 + N.of_nat (S3.ns_cost d) <= u32_max ->
  parse (S3.render d) opt = Ok doc ->
  (* every node holds exactly what [fshapes3] says; a Text node is Borrowed with the span of its only
     fragment -- a literal or a CDATA section of the document, or the literal value of an entity inside
     the DOCTYPE, through any nesting of references that add nothing else -- or Owned with its text *)
  Forall2 stored_as_f (map nd_kind (tl (d_nodes doc))) (fshapes3 d) /\
  (* every ordinary attribute: local name = slice of the written local part; a value with a
     reference is Owned with the normalised value *)
  Forall2 attr_stored_f (d_attrs doc) (fattr_spans3 d) /\
  (* the namespace table, as in stage S2; a URI written with an entity reference is Owned *)
  d_ns_values doc = xml_ns :: map ns_entry_of (fns_table3 d).
Proof.
  intros d opt doc Hwf Hdtd Hlim Hsz Hd Hc H.
  destruct (parse_observed_f3 d opt doc Hwf Hdtd Hlim Hsz Hd Hc H) as (_ & (k0 & Hk & HF) & A & V).
  split; [|split; [|exact V]].
  - destruct (d_nodes doc) as [|root nodes]; [discriminate|]. cbn [map tl] in *. injection Hk as _ Hk. rewrite Hk. exact HF.
  - clear - A. induction A as [|a s l l' (_ & O2 & _ & _ & O5) _ IH]; constructor; [split; assumption|exact IH].
Qed.
Print Assumptions parse_render_storage_f3.

(* ------------------------------------------------------------------------------------------ *)
(* examples (vm_compute): the model against the definitions                                   *)
(* ------------------------------------------------------------------------------------------ *)
Module ExamplesF3.
Import Example3.

Definition obs (c : S3.doc) :=
  match parse (S3.render c) opt with
  | Ok d => Some (map nd_range (tl (d_nodes d)),
                  map (fun nd => match nd_kind nd with
                                 | KText (Borrowed (SIn s)) => Some (TBorrowed (sl_start s, sl_end s))
                                 | KText (Owned bs) => Some (TOwned bs)
                                 | _ => None end) (tl (d_nodes d)),
                  map (fun a => (ad_range a, attr_range_qname a, attr_range_value a, (sl_start (ad_local a), sl_end (ad_local a)))) (d_attrs d),
                  tl (d_ns_values d))
  | _ => None
  end.
Definition expd (c : S3.doc) :=
  Some (fspans3 c,
        map (fun sh => match sh with TSText st => Some st | _ => None end) (fshapes3 c),
        map (fun s => (fa_range s, fa_qname s, Ok (fa_value s), fa_local s)) (fattr_spans3 c),
        map ns_entry_of (fns_table3 c)).

(* the example of CstFullS3.v: a comment before the DOCTYPE, three entities (one of them empty,
   one referring to another), a PI between the DOCTYPE and the root, references in a namespace
   declaration, in an attribute value and in character data *)
Example ex_obs : S3.wf_doc ex = true /\ obs ex = expd ex /\
  fspans3 ex = [(0, 8); (90, 95); (95, 176); (136, 142); (159, 164)].
Proof. vm_compute. repeat split; reflexivity. Qed.

(* an entity used twice: two Text nodes with the SAME range inside the DOCTYPE, both Borrowed *)
Definition twice : S3.doc :=
  {| S3.x_ws0 := []; S3.x_before := [];
     S3.x_dtd := {| E.t_ws1 := b " "; E.t_name := b "r"; E.t_ws2 := b " "; E.t_decls := [decl (b "e") [lit (b "xy")]];
                    E.t_ws3 := []; E.t_ws4 := [] |};
     S3.x_main := {| d_before := []; d_ws0 := []; d_root := el [] (b "r") [] [tx [E.ERef (b "e")]; el [] (b "s") [] [tx [E.ERef (b "e")]]];
                     d_after := []; d_ws_end := [] |} |}.
Example twice_obs : S3.wf_doc twice = true /\ obs twice = expd twice /\
  match fnodes3 twice with
  | [_; (r1, TSText (TBorrowed s1)); _; (r2, TSText (TBorrowed s2))] => r1 = r2 /\ s1 = r1 /\ s2 = r2
  | _ => False
  end.
Proof. vm_compute. repeat split; reflexivity. Qed.
End ExamplesF3.
