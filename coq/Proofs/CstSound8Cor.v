(* Proofs/CstSound8Cor.v -- C08 on the widened fragments [in_fragment_7] / [in_fragment_8]: soundness and completeness
   combined, "the tree is the meaning of the witness", in the shape of [parse_sound_and_complete_6_hyp]
   (Proofs/CstSound6eCor0.v): the two namespace resource bounds of the witness are explicit hypotheses.  From
   [parse_sound_fragment_7] / [parse_sound_fragment_8] (Proofs/CstSound7Final.v, CstSound8Final.v), the completeness
   theorems [parse_render_sem_full_s7] / [_s8] (Proofs/CstFullS7Main.v, CstFullS8Main.v), [parse_limit_up]
   (Proofs/CstSound6rCor.v) and determinism of parse.  [parse_view_of_witness_7] / [_8]: the same for EVERY witness
   that is well formed for S7 / S8 (the analogue of [CstSound6rCor.parse_view_of_witness]; the hypothesis on
   [nodes_limit] of the completeness theorem is discharged in the same way). *)
From Coq Require Import String.
From Coq Require Import List NArith Bool Lia ZifyBool ZifyN ZifyNat.
Import ListNotations.
From RX Require Import Generated.
From RX.Model Require Import Base CharClass Stream Tokenizer Doc Builder Parse.
From RX.Spec Require Import CstFull CstFullS4 CstFullS5 CstFullS6 CstFullS7 CstFullS8.
From RX.Proofs Require CstNsView CstFullS7Main CstFullS8Main OptionsMain CstSound6rCor CstSound7Final CstSound8Final.
From RX.Proofs Require Import CstSound CstSoundT CstSoundN CstSoundP CstSound6 CstSound7 CstSound8.
Open Scope N_scope.

(* ---- the tree of an accepted input is the meaning of EVERY document, well formed for S7 / S8, that it renders ---- *)
Theorem parse_view_of_witness_7 : forall text opt d (c : S7.doc),
  parse text opt = Ok d -> S7.wf_doc c = true -> S7.render c = text ->
  (S7.has_dtd c = true -> allow_dtd opt = true) ->
  N.of_nat (length (S7.sem c)) < u32_max -> N.of_nat (S7.nattrs c) < u32_max ->
  S7.distinct_decls_le c (N.to_nat 65535) -> 1 + N.of_nat (S7.ns_cost c) <= u32_max ->
  CstNsView.view text d = Some (S7.sem c).
Proof.
  intros text opt d c H Hwf Hr Hdtd L2 L3 Hd Hc.
  set (big := N.max (nodes_limit opt) (N.of_nat (length (S7.sem c)) + 1)).
  assert (L1 : N.of_nat (length (S7.sem c)) < nodes_limit (OptionsMain.opts (allow_dtd opt) big)).
  { unfold OptionsMain.opts. cbn [nodes_limit]. unfold big. lia. }
  assert (Hle : nodes_limit opt <= big) by (unfold big; lia).
  destruct (CstFullS7Main.parse_render_sem_full_s7 c (OptionsMain.opts (allow_dtd opt) big) Hwf Hdtd L1 L2 L3 Hd Hc) as (d' & Hp & Hv).
  rewrite Hr in Hp, Hv. rewrite (CstSound6rCor.opts_eta opt) in H.
  rewrite (CstSound6rCor.parse_limit_up text _ _ big d Hle H) in Hp. injection Hp as <-. exact Hv.
Qed.
Print Assumptions parse_view_of_witness_7.

Theorem parse_view_of_witness_8 : forall text opt d (c : S8.doc),
  parse text opt = Ok d -> S8.wf_doc c = true -> S8.render c = text ->
  (S8.has_dtd c = true -> allow_dtd opt = true) ->
  N.of_nat (length (S8.sem c)) < u32_max -> N.of_nat (S8.nattrs c) < u32_max ->
  S8.distinct_decls_le c (N.to_nat 65535) -> 1 + N.of_nat (S8.ns_cost c) <= u32_max ->
  CstNsView.view text d = Some (S8.sem c).
Proof.
  intros text opt d c H Hwf Hr Hdtd L2 L3 Hd Hc.
  set (big := N.max (nodes_limit opt) (N.of_nat (length (S8.sem c)) + 1)).
  assert (L1 : N.of_nat (length (S8.sem c)) < nodes_limit (OptionsMain.opts (allow_dtd opt) big)).
  { unfold OptionsMain.opts. cbn [nodes_limit]. unfold big. lia. }
  assert (Hle : nodes_limit opt <= big) by (unfold big; lia).
  destruct (CstFullS8Main.parse_render_sem_full_s8 c (OptionsMain.opts (allow_dtd opt) big) Hwf Hdtd L1 L2 L3 Hd Hc) as (d' & Hp & Hv).
  rewrite Hr in Hp, Hv. rewrite (CstSound6rCor.opts_eta opt) in H.
  rewrite (CstSound6rCor.parse_limit_up text _ _ big d Hle H) in Hp. injection Hp as <-. exact Hv.
Qed.
Print Assumptions parse_view_of_witness_8.

(* ---- soundness and completeness combined on the widened fragments ---- *)
Theorem parse_sound_and_complete_7_hyp : forall text opt d,
  in_fragment_7 text = true -> allow_dtd opt = true -> parse text opt = Ok d ->
  exists c : S6.doc, S7.wf_doc c = true /\ S7.render c = text /\
    (N.of_nat (length (S7.sem c)) < u32_max -> N.of_nat (S7.nattrs c) < u32_max ->
     S7.distinct_decls_le c (N.to_nat 65535) -> 1 + N.of_nat (S7.ns_cost c) <= u32_max ->
     CstNsView.view text d = Some (S7.sem c)).
Proof.
  intros text opt d HF Ha H.
  destruct (CstSound7Final.parse_sound_fragment_7 text opt d HF Ha H) as (c & Hwf & Hr).
  exists c. split; [exact Hwf|]. split; [exact Hr|]. intros L2 L3 Hd Hc.
  exact (parse_view_of_witness_7 text opt d c H Hwf Hr (fun _ => Ha) L2 L3 Hd Hc).
Qed.
Print Assumptions parse_sound_and_complete_7_hyp.

Theorem parse_sound_and_complete_8_hyp : forall text opt d,
  in_fragment_8 text = true -> allow_dtd opt = true -> parse text opt = Ok d ->
  exists c : S6.doc, S8.wf_doc c = true /\ S8.render c = text /\
    (N.of_nat (length (S8.sem c)) < u32_max -> N.of_nat (S8.nattrs c) < u32_max ->
     S8.distinct_decls_le c (N.to_nat 65535) -> 1 + N.of_nat (S8.ns_cost c) <= u32_max ->
     CstNsView.view text d = Some (S8.sem c)).
Proof.
  intros text opt d HF Ha H.
  destruct (CstSound8Final.parse_sound_fragment_8 text opt d HF Ha H) as (c & Hwf & Hr).
  exists c. split; [exact Hwf|]. split; [exact Hr|]. intros L2 L3 Hd Hc.
  exact (parse_view_of_witness_8 text opt d c H Hwf Hr (fun _ => Ha) L2 L3 Hd Hc).
Qed.
Print Assumptions parse_sound_and_complete_8_hyp.

(* the converse directions are the completeness theorems themselves *)
Theorem parse_complete_8 : forall (c : S8.doc) opt,
  S8.wf_doc c = true -> allow_dtd opt = true ->
  N.of_nat (length (S8.sem c)) < nodes_limit opt -> N.of_nat (length (S8.sem c)) < u32_max -> N.of_nat (S8.nattrs c) < u32_max ->
  S8.distinct_decls_le c (N.to_nat 65535) -> 1 + N.of_nat (S8.ns_cost c) <= u32_max ->
  exists d, parse (S8.render c) opt = Ok d /\ CstNsView.view (S8.render c) d = Some (S8.sem c).
Proof. intros c opt Hwf Ha L1 L2 L3 Hd Hc. exact (CstFullS8Main.parse_render_sem_full_s8 c opt Hwf (fun _ => Ha) L1 L2 L3 Hd Hc). Qed.

(* ---- the accepted input of [ex8_nonvacuous] (Proofs/CstSound8Final.v: in in_fragment_8, outside in_fragment_7), its
   witness, and the tree: '%' in the character-data literal of n, and in an attribute value, the text and a PI of the
   markup literal of m; colons in the DOCTYPE name; n used in an attribute value of the root and of the value of m ---- *)
Definition ex8_text : bytes := CstSound8Final.ex8_text.
Definition xd8 n v : X4.xdecl :=
  {| X4.x_ws0 := []; X4.x_ws1 := [32]; X4.x_name := n; X4.x_ws2 := [32]; X4.x_quote := 39; X4.x_value := v; X4.x_ws3 := [] |}.
Definition eref8 (n : string) := E.ERef (b n).
Definition ex8_m : uitem :=
  @IElem epieces (qn [] (b "b")) [ eat [] (b "a") [elit "%"; eref8 "n"] ] []
    (Some ([etx [elit "50%"]; @IPI epieces (b "p") [32] (b "%x;")], [])).
Definition ex8_c : S6.doc :=
  {| S6.x_bom := false; S6.x_decl := None;
     S6.x_dtd := Some {| S6.g_ws0 := []; S6.g_before := []; S6.g_dtd :=
        {| z_ws1 := [32]; z_name := b "p:r"; z_ws2 := [32]; z_ext := None;
           z_subset := Some {| zu_decls := [XEntity (xd8 (b "n") (X4.XText [elit "100%"; E.EP (T.PPredef T.Amp); elit "%c;"]));
                                            XEntity (xd8 (b "m") (X4.XContent [ex8_m]))];
                               zu_ws3 := []; zu_ws4 := [] |} |} |};
     S6.x_main := {| d_before := []; d_ws0 := [];
                     d_root := eel (b "p") (b "r")
                                 [edc (b "p") [elit "u"]; @EAttr epieces (elay " " "" "" 39) (qn [] (b "c")) [eref8 "n"]]
                                 [etx [eref8 "m"; eref8 "n"]];
                     d_after := []; d_ws_end := [] |} |}.

Example ex8_view :
  in_fragment_8 ex8_text = true /\ in_fragment_7 ex8_text = false /\
  S8.wf_doc ex8_c = true /\ S7.wf_doc ex8_c = false /\ S8.render ex8_c = ex8_text /\
  exists d, parse ex8_text od = Ok d /\ CstNsView.view ex8_text d = Some (S8.sem ex8_c) /\
            S8.sem ex8_c = [CstNs.VElem (Some (b "u")) (b "r") [(None, b "c", b "100%&%c;")] [(Some (b "p"), b "u")] 2;
                            CstNs.VElem None (b "b") [(None, b "a", b "%100%&%c;")] [(Some (b "p"), b "u")] 2;
                            CstNs.VText (b "50%"); CstNs.VPI (b "p") (Some (b "%x;"));
                            CstNs.VText (b "100%&%c;")].
Proof.
  split; [vm_compute; reflexivity|]. split; [vm_compute; reflexivity|]. split; [vm_compute; reflexivity|].
  split; [vm_compute; reflexivity|]. split; [vm_compute; reflexivity|].
  assert (E : match parse ex8_text od with Ok d => CstNsView.view ex8_text d | _ => None end = Some (S8.sem ex8_c))
    by (vm_compute; reflexivity).
  destruct (parse ex8_text od) as [d| | |]; try discriminate. exists d. split; [reflexivity|]. split; [exact E|].
  vm_compute. reflexivity.
Qed.

(* the theorem applied to it *)
Example ex8_cor_applied : forall d, parse ex8_text od = Ok d ->
  exists c : S6.doc, S8.wf_doc c = true /\ S8.render c = ex8_text /\
    (N.of_nat (length (S8.sem c)) < u32_max -> N.of_nat (S8.nattrs c) < u32_max ->
     S8.distinct_decls_le c (N.to_nat 65535) -> 1 + N.of_nat (S8.ns_cost c) <= u32_max ->
     CstNsView.view ex8_text d = Some (S8.sem c)).
Proof.
  intros d Hd. apply (parse_sound_and_complete_8_hyp ex8_text od d); [|reflexivity|exact Hd].
  exact (proj1 CstSound8Final.ex8_nonvacuous).
Qed.
Print Assumptions ex8_cor_applied.
