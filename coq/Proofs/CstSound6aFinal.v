(* Proofs/CstSound6aFinal.v -- C08 soundness on stage S6 (Spec/CstFullS6.v), markup-valued entities REFERENCED from
   the body: the closed theorem on the fragment [in_fragment_6a1] of Proofs/CstSound6a.v.
   [parse_sound_fragment_6a1_val] (Proofs/CstSound6aRDoc.v) is parametric in [ValOK text]; [val_ok6a]
   (Proofs/CstSound6aVal.v) discharges it from [Frag6a text]. *)
From Coq Require Import String.
From Coq Require Import List NArith Bool.
Import ListNotations.
From RX Require Import Generated.
From RX.Model Require Import Base CharClass Stream Tokenizer Doc Builder Parse.
From RX.Spec Require Import CstFull CstFullS5 CstFullS6.
From RX.Proofs Require Import CstSound CstSoundT CstSoundN CstSoundP CstSound6 CstSound6Sanity CstSound6U.
From RX.Proofs Require Import CstSound6a CstSound6aLex CstSound6aVal CstSound6aRDoc.
Open Scope N_scope.

Theorem parse_sound_fragment_6a1 : forall text opt d,
  in_fragment_6a1 text = true -> allow_dtd opt = true -> parse text opt = Ok d ->
  exists c : S6.doc, S6.wf_doc c = true /\ S6.render c = text.
Proof.
  intros text opt d HF Hallow H.
  exact (parse_sound_fragment_6a1_val text opt d (val_ok6a text (in_fragment_6a1_Frag6a _ HF)) HF Hallow H).
Qed.

(* the statement announced in Proofs/CstSound6a.v *)
Theorem parse_sound_fragment_6a1_holds : parse_sound_fragment_6a1_stmt.
Proof. exact parse_sound_fragment_6a1. Qed.

Print Assumptions parse_sound_fragment_6a1.

(* ---- non-vacuity: inputs of the fragment that reference a markup-valued entity and are accepted
   ([od] of Proofs/CstSoundP.v has allow_dtd = true) ---- *)
Example od_allows_dtd : allow_dtd od = true.
Proof. reflexivity. Qed.

Definition ex_text : bytes := b "<!DOCTYPE a [<!ENTITY e '<b/>'>]><a>&e;</a>".

Example ex6a1_nonvacuous :
  in_fragment_6a1 ex_text = true /\ allow_dtd od = true /\
  (exists d, parse ex_text od = Ok d) /\
  contains_b (b "&e;") ex_text = true.
Proof.
  split; [vm_compute; reflexivity|]. split; [reflexivity|]. split.
  - destruct (parse ex_text od) as [d| | |] eqn:E; [exists d; reflexivity| | |]; vm_compute in E; discriminate.
  - vm_compute. reflexivity.
Qed.

(* the theorem applied to it: the input is the rendering of a well-formed S6 document *)
Example ex6a1_applied : exists c : S6.doc, S6.wf_doc c = true /\ S6.render c = ex_text.
Proof.
  destruct ex6a1_nonvacuous as (HF & Hallow & (d & Hd) & _).
  exact (parse_sound_fragment_6a1 ex_text od d HF Hallow Hd).
Qed.

(* the larger examples of Proofs/CstSound6a.v (a markup value with namespaces, comment, CDATA, referenced several
   times and at several depths, next to character-data entities) are in the fragment and accepted *)
Example ex6a1_more : forallb (fun t => in_fragment_6a1 (b t) && acc6 (b t))
  [ "<!DOCTYPE r [<!ENTITY m '<b>t</b>'>]><r>a&m;b<c>&m;</c>&m;</r>";
    "<!DOCTYPE r [<!ENTITY m '<p:b xmlns:p=""u"" p:a=""1""><!--c--><![CDATA[<]]></p:b>x'><!ENTITY n 'y'><!ENTITY f 'x&n;'>]><r a='&f;'>&f;&m;</r>" ]%string = true.
Proof. vm_compute. reflexivity. Qed.
Print Assumptions ex6a1_applied.
