(* Proofs/CstSoundNCor.v -- C08/C03..C07 WITH NAMESPACES on stage S2 of Spec/CstFull.v: soundness
   (CstSoundNDoc.v) and completeness (CstFullS2.v): an accepted input of the fragment is the rendering
   of a well-formed S2 document and the parser returns the meaning of that document. *)
From Coq Require Import List NArith Bool Lia ZifyBool ZifyN ZifyNat.
Import ListNotations.
From RX Require Import Generated.
From RX.Model Require Import Base CharClass Stream Tokenizer Doc Builder Parse.
From RX.Spec Require Import CstFull.
From RX.Proofs Require CstNsView CstFullMain CstFullS2.
From RX.Proofs Require Import CstSoundN CstSoundNDoc.
Open Scope N_scope.

(* The two namespace resource hypotheses of the completeness theorem (at most 65535 distinct declared
   bindings; the namespace table fits in u32) are DERIVED from acceptance: CstSoundNDoc.parse_sound_fragment_n_res. *)
Theorem parse_sound_and_complete_n : forall text opt d,
  in_fragment_n text = true -> parse text opt = Ok d ->
  N.of_nat (length text) <= nodes_limit opt ->      (* room for all nodes *)
  N.of_nat (length text) <= u32_max ->              (* the input is at most u32::MAX bytes long *)
  exists c : S2.doc,
    S2.wf_doc c = true /\ S2.render c = text /\ CstNsView.view text d = Some (S2.sem c).
Proof.
  intros text opt d Hf H Hlim Hsz.
  destruct (parse_sound_fragment_n_res text opt d Hf H) as (c & Hwf & Hr & Hd & Hc).
  exists c. split; [exact Hwf|]. split; [exact Hr|].
  destruct (CstFullMain.render_bounds_f pieces pieces_meaning CstFullS2.steps2 CstFullS2.s2_run_steps c Hwf) as [B1 _].
  change (render c) with (S2.render c) in B1. rewrite Hr in B1.
  destruct (CstFullS2.parse_render_sem_full_s2 c opt Hwf) as (d' & Hp & Hv).
  - change (S2.sem c) with (sem pieces_meaning c). lia.
  - rewrite Hr. exact Hsz.
  - exact Hd.
  - exact Hc.
  - rewrite Hr in Hp, Hv. rewrite H in Hp. injection Hp as <-. exact Hv.
Qed.
Print Assumptions parse_sound_and_complete_n.
