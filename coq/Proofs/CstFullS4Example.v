(* Proofs/CstFullS4Example.v -- the theorems of Proofs/CstFullS4Main.v are not vacuous: the sample documents of
   Proofs/CstFullS4Sanity.v (an entity holding <p:x xmlns:p='u' p:a='1'/> referred to under different bindings of p;
   an entity whose element uses a prefix bound only at the place of reference; the default namespace inherited
   into entity content and shadowed inside it; Unicode names, nested markup entities) satisfy the hypotheses. *)
From Coq Require Import Ascii String.
From Coq Require Import List NArith Bool Lia.
Import ListNotations.
From RX Require Import Generated.
From RX.Model Require Import Base Stream Tokenizer Doc Builder Parse.
From RX.Spec Require CstNs CstU.
From RX.Spec Require Import CstFull CstFullS4.
From RX.Proofs Require Import CstNsView CstFullMain CstFullS4Sanity CstFullS4Main.
Open Scope N_scope.

Definition optx := {| allow_dtd := true; nodes_limit := default_nodes_limit |}.

Ltac s4_example :=
  apply parse_render_sem_full_s4;
  [ vm_compute; reflexivity
  | reflexivity
  | vm_compute; reflexivity
  | vm_compute; reflexivity
  | vm_compute; reflexivity
  | unfold S4.distinct_decls_le;
    match goal with |- match ?x with _ => _ end => let y := eval vm_compute in x in change x with y end;
    apply distinct_by_count;
    match goal with |- (length ?l <= _)%nat => let n := eval vm_compute in (length l) in change (length l) with n end; lia
  | vm_compute; intros H; discriminate H ].

Example ex1_parses : exists x, parse (S4.render ex1) optx = Ok x /\ view (S4.render ex1) x = Some (S4.sem ex1).
Proof. s4_example. Qed.
Example ex2_parses : exists x, parse (S4.render ex2) optx = Ok x /\ view (S4.render ex2) x = Some (S4.sem ex2).
Proof. s4_example. Qed.
Example ex3_parses : exists x, parse (S4.render ex3) optx = Ok x /\ view (S4.render ex3) x = Some (S4.sem ex3).
Proof. s4_example. Qed.
Example ex5_parses : exists x, parse (S4.render ex5) optx = Ok x /\ view (S4.render ex5) x = Some (S4.sem ex5).
Proof. s4_example. Qed.

Print Assumptions ex1_parses.
Print Assumptions ex5_parses.
