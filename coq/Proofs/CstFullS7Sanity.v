(* Proofs/CstFullS7Sanity.v -- the capstone fragment, stage S7 (Spec/CstFullS7.v): the model on sample documents and on
   raw inputs, by computation.
   FINDINGS recorded here (each confirmed on the crate itself and against expat):
   (1) a comment body / a PI value is the raw source slice: CR is kept, no line-end normalisation;
   (2) DOCTYPE name, entity names, PI targets are Names with ':' as an ordinary name character;
   (3) [defect D22, REPAIRED: the evaluations below show the repaired behaviour] a skipped declaration (ELEMENT /
       ATTLIST / NOTATION) used to end at the FIRST '>', quotes not honoured: a well-formed DOCTYPE was rejected (3a) or
       mis-read -- a declaration hidden inside a system literal was executed (3b); quotes are now honoured;
   (4) '%' in an entity literal is an ordinary character (never a parameter-entity reference, never an error). *)
From Coq Require Import Ascii String.
From Coq Require Import List NArith Bool.
Import ListNotations.
From RX.Model Require Import Base Stream Tokenizer Doc Builder Parse.
From RX.Spec Require CstNs CstU.
From RX.Spec Require Import CstFull CstFullS6 CstFullS7.
From RX.Proofs Require Import CstNsView CstFullS6Sanity.
Open Scope N_scope.

Definition check7 (c : S7.doc) : bool * bool * bool :=
  (S7.wf_doc c, valid_utf8_b (S7.render c),
   match parse (S7.render c) opt_dtd with
   | Ok d => match view (S7.render c) d with
             | Some v => if list_eq_dec vnode_eq_dec v (S7.sem c) then true else false
             | None => false end
   | _ => false
   end).
Definition rejected7 (c : S7.doc) : bool * bool :=
  (S7.wf_doc c, match parse (S7.render c) opt_dtd with Err _ => true | _ => false end).

(* CR in comments and PI values (also inside the subset and inside a markup entity), colons in the DOCTYPE name and in
   PI targets (leading, repeated) *)
Definition cm : scalars := [120; cr; 10; 121; cr].                (* x CR LF y CR *)
Definition subset7 : subset6 :=
  {| zu_decls :=
       [ XOther (X5.SMisc [10] (IComment cm));
         XOther (X5.SMisc [cr] (IPI [58; 112; 58; 58; 113] [cr] [97; cr; cr; 98]));             (* <?:p::q CR a CR CR b?> *)
         XEntity (xd (b "m") (X4.XContent [IComment cm; IPI (b "t:u") [32] [118; cr; 10]; el [] (b "y") [] [IComment [cr]]])) ];
     zu_ws3 := [cr]; zu_ws4 := [] |}.
Definition ex7 : S7.doc :=
  {| S6.x_bom := false; S6.x_decl := None;
     S6.x_dtd := Some {| S6.g_ws0 := []; S6.g_before := [(IComment cm, [cr]); (IPI (b "a:b") [] [], [])];
                         S6.g_dtd := {| z_ws1 := [32]; z_name := [58; 100; 58; 116]; z_ws2 := []; z_ext := None;     (* <!DOCTYPE :d:t[ *)
                                        z_subset := Some subset7 |} |};
     S6.x_main := {| d_before := [(IPI (b "x:") [cr; 10] (b "v"), [])]; d_ws0 := [];
                     d_root := el [] (b "r") [] [tx [rf (b "m")]; IComment [cr; cr]; IPI (b "p") [32] [120; cr]];
                     d_after := [([], IComment cm)]; d_ws_end := [] |} |}.
Eval vm_compute in (check7 ex7, S6.wf_doc ex7).
Eval vm_compute in (S7.sem ex7).
(* S6 documents are S7 documents *)
Eval vm_compute in (check7 ex1, check7 ex2).

(* still excluded, and rejected *)
Definition mk7 (i : uitem) : S7.doc :=
  {| S6.x_bom := false; S6.x_decl := None; S6.x_dtd := None;
     S6.x_main := {| d_before := []; d_ws0 := []; d_root := el [] (b "r") [] [i]; d_after := []; d_ws_end := [] |} |}.
Eval vm_compute in (map rejected7 [mk7 (IComment (b "a--b")); mk7 (IComment (b "a-")); mk7 (IComment [1])]).
Eval vm_compute in (map (fun c => S7.wf_doc c) [mk7 (IPI (b "xml") [32] (b "v")); mk7 (IPI (b "p") [] (b "v")); mk7 (IPI (b "p") [32] (b "a?>b"))]).

(* ------------------------------------------------------------------------------------------ *)
(* the findings, on raw inputs                                                                *)
(* ------------------------------------------------------------------------------------------ *)
Local Open Scope string_scope.
Definition run (s : string) : option (list CstNs.vnode) + option error :=
  match parse (b s) opt_dtd with Ok d => inl (view (b s) d) | Err e => inr (Some e) | _ => inr None end.
(* (2) entity names with colons are accepted too (outside the fragment) *)
Eval vm_compute in run "<!DOCTYPE a:b [<!ENTITY x:y 'v'><!ENTITY :e:f: 'w'>]><a><?p:q r?>&x:y;&:e:f:;</a>".
(* (3a) well-formed: accepted (before the repair of D22: Err UnknownToken (1,36)) *)
Eval vm_compute in run "<!DOCTYPE a [<!NOTATION n SYSTEM '>'>]><a/>".
Eval vm_compute in run "<!DOCTYPE a [<!ATTLIST a b CDATA '>'>]><a/>".
(* (3b) well-formed, but &e; is NOT declared (the text is inside the system literal): Err UnknownEntityReference
   (before the repair of D22: accepted with the text "evil") *)
Eval vm_compute in run "<!DOCTYPE a [<!NOTATION n SYSTEM '><!ENTITY e ""evil""><!ELEMENT x '>]><a>&e;</a>".
Eval vm_compute in run "<!DOCTYPE a [<!NOTATION n SYSTEM 'u'>]><a>&e;</a>".
(* (4) '%' in an entity literal *)
Eval vm_compute in run "<!DOCTYPE a [<!ENTITY e '100%'>]><a>&e;</a>".
Eval vm_compute in run "<!DOCTYPE a [<!ENTITY % p 'x'><!ENTITY e 'a%p;b'>]><a b='&e;'>&e;</a>".
