(* TruncMain.v -- C08, the truncation clause, for documents without a DOCTYPE:
   no proper prefix of an accepted document that ends before the end of its root element is
   accepted. *)
From Coq Require Import Ascii String.
From Coq Require Import PeanoNat Lia ZifyBool ZifyN ZifyNat.
From RX Require Import Generated.
From RX.Model Require Import Base CharClass Stream Tokenizer Doc Builder Parse.
From RX.Proofs Require Import Tactics OptionsParam OptionsBuild OptionsMain OptionsDtd
  BudgetStream BudgetTok BudgetBuild BudgetNoEnt NoPanicUtf8 TruncStream TruncTok TruncBuild.

Definition firstn_N {A} (n : N) (l : list A) : list A := firstn (N.to_nat n) l.

(* the end of the range of the root element: the first node whose parent is node 0 and that
   is an element *)
Definition root_element_end (d : document) : N :=
  match find (fun nd => match nd_parent nd with
                        | Some 0 => is_element_kind (nd_kind nd)
                        | _ => false end) (d_nodes d) with
  | Some nd => snd (nd_range nd)
  | None => 0
  end.

(** * Cutting valid UTF-8 at a place where the prefix is valid is cutting at a boundary *)

Lemma WF_app_inv a : WF a -> forall r, WF (a ++ r) -> WF r.
Proof.
  induction 1 as [|x cs a' c k Hx Hcs Hlen Hk Hdec Hsc Henc Ha IH]; intros r H; [exact H|].
  rewrite <- app_comm_cons, <- app_assoc in H.
  remember (x :: cs ++ a' ++ r) as L eqn:EL.
  destruct H as [|x0 cs0 r0 c0 k0 Hx0 Hcs0 Hlen0 Hk0 Hdec0 Hsc0 Henc0 Hr0]; [discriminate|].
  assert (Hd1 := Hdec (a' ++ r)). assert (Hd2 := Hdec0 r0).
  rewrite <- EL in Hd1. rewrite Hd1 in Hd2. inversion Hd2 as [[Ec Ek]].
  assert (Hl : length cs = length cs0) by lia.
  inversion EL as [[Ex E3]].
  assert (E2 : forall (u v u' v' : bytes), length u = length u' -> u ++ v = u' ++ v' -> v = v').
  { induction u as [|y u IHu]; intros v u' v' Hlen' E; destruct u' as [|y' u']; cbn in *; try lia.
    - exact E.
    - inversion E. eapply IHu; [|eassumption]. lia. }
  assert (Er : r0 = a' ++ r) by (eapply E2; [symmetry; exact Hl|exact E3]).
  subst r0. apply IH. exact Hr0.
Qed.

Lemma prefix_boundary text n : valid_utf8_b text = true -> n <= tlen text ->
  valid_utf8_b (firstn_N n text) = true -> is_boundary text n = true.
Proof.
  intros Hv Hn Hp. apply valid_WF in Hv. apply valid_WF in Hp. unfold firstn_N in Hp.
  rewrite <- (firstn_skipn (N.to_nat n) text) in Hv.
  pose proof (WF_app_inv _ Hp _ Hv) as Hr.
  unfold is_boundary. destruct (n =? 0); [reflexivity|].
  destruct (nth_error text (N.to_nat n)) as [x|] eqn:E.
  - assert (Hs : exists r, skipn (N.to_nat n) text = x :: r).
    { clear - E. revert E. generalize (N.to_nat n). intros k. revert text. induction k; intros [|y l] E; cbn in *; try discriminate.
      - inversion E. eauto.
      - eauto. }
    destruct Hs as [r Hs]. rewrite Hs in Hr. rewrite (WF_head_noncont _ _ Hr). reflexivity.
  - apply nth_error_None in E. unfold tlen, blen in *. lia.
Qed.

Lemma contains_b_firstn pat : forall l k, pat <> [] -> contains_b pat l = false ->
  contains_b pat (firstn k l) = false.
Proof.
  induction l as [|x l IH]; intros k Hp H.
  - rewrite firstn_nil. exact H.
  - destruct k as [|k]; [destruct pat; [congruence|reflexivity]|].
    cbn [firstn contains_b] in *. apply orb_false_iff in H. destruct H as [H1 H2].
    apply orb_false_iff. split; [|apply IH; assumption].
    change (x :: firstn k l) with (firstn (S k) (x :: l)).
    destruct (prefix_b pat (firstn (S k) (x :: l))) eqn:E; [|reflexivity].
    rewrite <- (firstn_skipn (S k) (x :: l)) in H1. rewrite (prefix_b_true_app _ _ _ E) in H1. discriminate.
Qed.

(** * The final checks of parse see an element *)

Lemma any_element_node fuel : forall d it, children_any_element fuel d it = Ok true ->
  exists i nd, nth_N (d_nodes d) i = Some nd /\ is_element_kind (nd_kind nd) = true.
Proof.
  induction fuel; intros d it H; [discriminate|]. cbn [children_any_element] in H.
  apply bind_ok in H. destruct H as [[o it'] [_ H]]. cbv beta iota in H.
  destruct o as [i|]; [|discriminate].
  apply bind_ok in H. destruct H as [e [He H]]. cbv beta in H. destruct e.
  - unfold node_is_element, node_data_of, get_node in He.
    destruct (nth_N (d_nodes d) i) as [nd|] eqn:E; [|discriminate]. cbn [bind] in He. inversion He. eauto.
  - eauto.
Qed.

Lemma fin_facts c d : fin c = Ok d ->
  d = c_doc c /\ len_N (c_parent_prefixes c) <= 1 /\
  exists i nd, nth_N (d_nodes (c_doc c)) i = Some nd /\ is_element_kind (nd_kind nd) = true.
Proof.
  unfold fin. intros H. apply bind_ok in H. destruct H as [it [_ H]].
  apply bind_ok in H. destruct H as [has [Hh H]]. cbv beta in H.
  destruct has; cbn [negb] in H; [|discriminate].
  destruct (1 <? len_N (c_parent_prefixes c)) eqn:E; [discriminate|]. inversion H.
  split; [reflexivity|]. split; [lia|]. eapply any_element_node; eauto.
Qed.

(* with the invariant, at the end of an accepted document: the root is closed, where the
   counter says *)
Lemma final_root c st d : fin c = Ok d -> Jc c st ->
  cs_root st = Some (root_element_end d).
Proof.
  intros H (stk & _ & _ & _ & E4 & (Hd & _ & _ & _ & Hr)).
  destruct (fin_facts _ _ H) as (-> & Hlen & i & nd & Hi & He).
  assert (stk = []) by (destruct stk; [reflexivity|cbn [length] in E4; lia]). subst stk.
  destruct Hr as [(Hn & _)|(j & ndj & (Hj & Hej & Hb) & Hp & Hcase)].
  { exfalso. unfold nth_N in Hi. destruct (_ <=? _); [discriminate|].
    specialize (Hn _ _ Hi). unfold is_el in Hn. congruence. }
  destruct Hcase as [(_ & Hne & _)|(Hroot & _)]; [congruence|]. rewrite Hroot. f_equal.
  unfold root_element_end.
  assert (Hf : forall l k, (forall j' nd', (j' < k)%nat -> nth_error l j' = Some nd' -> is_el nd' = false) ->
              nth_error l k = Some ndj ->
              find (fun nd0 => match nd_parent nd0 with Some 0 => is_element_kind (nd_kind nd0) | _ => false end) l
              = Some ndj).
  { induction l as [|y l IHl]; intros k Hk Hn; [destruct k; discriminate|].
    destruct k as [|k]; cbn [nth_error find] in *.
    - inversion Hn; subst y. rewrite Hp. unfold is_el in Hej. rewrite Hej. reflexivity.
    - assert (Hy : is_el y = false) by (apply (Hk 0%nat y); [lia|reflexivity]).
      unfold is_el in Hy. rewrite Hy.
      assert (IH' : find (fun nd0 => match nd_parent nd0 with Some 0 => is_element_kind (nd_kind nd0) | _ => false end) l
                    = Some ndj).
      { apply (IHl k); [|exact Hn]. intros j' nd' Hj' Hn'. apply (Hk (S j') nd'); [lia|exact Hn']. }
      destruct (nd_parent y) as [[|?]|]; exact IH'. }
  rewrite (Hf _ _ Hb Hj). reflexivity.
Qed.

(** * The three runs: the builder, the builder with the counter, the counter alone *)

Section Runs.
Variable t : bytes.

Definition evp (tk : Tokenizer.token) (x : context * cst) : res (context * cst) :=
  let! c' := token t tk (fst x) in Ok (c', cstep tk (snd x)).

(* the builder alone and the builder with the counter run in lockstep *)
Lemma run_product dtd c st c' : parse_document t context (token t) dtd c = Ok c' ->
  exists st', parse_document t (context * cst) evp dtd (c, st) = Ok (c', st').
Proof.
  intros H.
  pose proof (b_parse_document t context (context * cst) (token t) evp False UnexpectedEndOfStream
                (fun a x => a = fst x) (fun _ => False)) as HB.
  assert (Hev : forall tok c1 c2, c1 = fst c2 ->
     grel False UnexpectedEndOfStream (fun a x => a = fst x) (fun _ => False) (token t tok c1) (evp tok c2)).
  { intros tok c1 [c2 s2] ->. unfold evp. cbn [fst snd]. destruct (token t tok c2); cbn [bind]; constructor. reflexivity. }
  specialize (HB Hev (fun _ _ _ _ F => F) dtd c (c, st) eq_refl). rewrite H in HB.
  inversion HB; subst. destruct x2 as [c2 s2]. cbn [fst] in *. subst. eauto.
Qed.

(* ... and what the counter does does not depend on the builder *)
Lemma run_counter dtd c st c' st' : parse_document t (context * cst) evp dtd (c, st) = Ok (c', st') ->
  parse_document t cst evd dtd st = Ok st'.
Proof.
  intros H.
  set (e0 := UnexpectedEndOfStream).
  set (evq := fun tk x => match evp tk x with Ok y => Ok y | _ => Err e0 end).
  (* evq fails with e0 exactly where evp fails *)
  assert (H1 : parse_document t (context * cst) evq dtd (c, st) = Ok (c', st')).
  { pose proof (b_parse_document t (context * cst) (context * cst) evq evp True e0 eq (fun _ => False)) as HB.
    assert (Hev : forall tok c1 c2, c1 = c2 -> grel True e0 eq (fun _ => False) (evq tok c1) (evp tok c2)).
    { intros tok c1 c2 ->. unfold evq. destruct (evp tok c2) eqn:E; try (apply gr_early; [exact I|intros; discriminate]).
      apply gr_ok. reflexivity. }
    specialize (HB Hev (fun _ _ _ _ F => F) dtd (c, st) (c, st) eq_refl). rewrite H in HB.
    destruct (grel_inv_ok_r _ _ _ _ _ HB) as [E|(_ & _ & F)]; [exact E|contradiction]. }
  pose proof (b_parse_document t (context * cst) cst evq evd True e0 (fun x s => snd x = s) (fun _ => True)) as HB.
  assert (Hev : forall tok c1 c2, snd c1 = c2 ->
     grel True e0 (fun x s => snd x = s) (fun _ => True) (evq tok c1) (evd tok c2)).
  { intros tok [c1 s1] c2 <-. unfold evq, evp. cbn [fst snd]. rewrite evd_cstep.
    destruct (token t tok c1); cbn [bind]; try (apply gr_early; [exact I|auto]).
    apply gr_ok. reflexivity. }
  specialize (HB Hev (fun _ _ _ _ _ => I) dtd (c, st) st eq_refl). rewrite H1 in HB.
  inversion HB; subst. cbn [snd] in *. congruence.
Qed.

(* the invariant, with the position: the recorded end of the root is behind *)
Definition Inv (q : N) (x : context * cst) : Prop :=
  Jc (fst x) (snd x) /\ forall e, cs_root (snd x) = Some e -> e <= q.

Lemma estep_root e r st x : cs_root (estep e r st) = Some x -> cs_root st = Some x \/ x = snd r.
Proof.
  destruct e; cbn [estep]; destruct (cs_root st) eqn:E; try destruct (_ =? _);
  cbn [cs_root]; rewrite ?E; intros H; inversion H; auto.
Qed.

Lemma run_invariant c st c' st' : parse_document t (context * cst) evp false (c, st) = Ok (c', st') ->
  Jc c st -> cs_root st = None ->
  Jc c' st' /\ forall e, cs_root st' = Some e -> e <= tlen t.
Proof.
  intros H HJ Hr.
  destruct (tp_parse_document_nodtd t (context * cst) evp Inv) with (c := (c, st)) (c' := (c', st'))
    as (q & Hq & HJ' & Hroot); try assumption.
  - intros q q' x Hqq [H1 H2]. split; [exact H1|]. intros e He. specialize (H2 e He). lia.
  - intros tok r [c1 s1] [c2 s2] q Htr Hev [H1 H2] Hq Hlt. unfold evp in Hev. cbn [fst snd] in *.
    apply bind_ok in Hev. destruct Hev as [c3 [Ht Hev]]. inversion Hev; subst c3 s2. split.
    + eapply Jc_token; eauto. destruct tok; cbn in Htr |- *; try discriminate; reflexivity.
    + intros e He. destruct tok; cbn [cstep] in He; try (specialize (H2 e He); cbn [tok_range] in Htr; inversion Htr; subst; lia).
      cbn [tok_range] in Htr. inversion Htr; subst r0.
      destruct (estep_root _ _ _ _ He) as [Ho| ->]; [specialize (H2 e Ho); lia|lia].
  - intros tok [c1 s1] [c2 s2] q Htr Hd Hev [H1 H2]. unfold evp in Hev. cbn [fst snd] in *.
    apply bind_ok in Hev. destruct Hev as [c3 [Ht Hev]]. inversion Hev; subst c3 s2. split.
    + eapply Jc_token; eauto.
    + intros e He. destruct tok; cbn [cstep tok_range] in *; try discriminate; eauto.
  - split; [exact HJ|]. cbn [snd]. intros e He. congruence.
  - split; [exact HJ'|]. intros e He. specialize (Hroot e He). lia.
Qed.

End Runs.

Lemma init_Jc t o c : init_context t o = Ok c -> Jc c {| cs_depth := 0; cs_root := None |}.
Proof.
  unfold init_context. intros H. usteps. pose proof (push_ns_nodes _ _ _ _ _ Hb) as Hn.
  exists []. cbn [c_entities c_entity_floor c_parent_id c_parent_prefixes c_doc hd length].
  split; [reflexivity|]. split; [reflexivity|]. split; [reflexivity|]. split; [reflexivity|].
  rewrite Hn. cbn [d_nodes]. split; [reflexivity|]. split; [exact I|]. split; [intros x []|]. split; [exact I|].
  left. split; [|auto]. intros j nd Hj. destruct j as [|[|j]]; cbn in Hj; try discriminate. inversion Hj. reflexivity.
Qed.

(** * The theorem *)

Section Main.
Variable text : bytes.
Variable opt : options.
Variable n : N.
Hypothesis Hdt : contains_b (b "<!DOCTYPE") text = false.
Hypothesis Hv : valid_utf8_b text = true.
Hypothesis Hvp : valid_utf8_b (firstn_N n text) = true.

Lemma truncation_core d d' : parse text opt = Ok d -> n < root_element_end d ->
  parse (firstn_N n text) opt = Ok d' -> False.
Proof.
  intros Hfull Hlt Htr.
  assert (Hdp : contains_b (b "<!DOCTYPE") (firstn_N n text) = false)
    by (apply contains_b_firstn; [discriminate|exact Hdt]).
  rewrite parse_prun in Hfull, Htr.
  assert (Hfull' : prun text false opt = Ok d).
  { destruct (allow_dtd opt); [rewrite prun_noflag by exact Hdt|]; exact Hfull. }
  assert (Htr' : prun (firstn_N n text) false opt = Ok d').
  { destruct (allow_dtd opt); [rewrite prun_noflag by exact Hdp|]; exact Htr. }
  clear Hfull Htr. unfold prun in *.
  apply bind_ok in Hfull'. destruct Hfull' as [c0 [Hi1 H1]].
  apply bind_ok in H1. destruct H1 as [c1 [Hpd1 Hfin1]].
  apply bind_ok in Htr'. destruct Htr' as [c0' [Hi2 H2]].
  apply bind_ok in H2. destruct H2 as [c2 [Hpd2 Hfin2]].
  set (st0 := {| cs_depth := 0; cs_root := None |}).
  (* the full run *)
  destruct (run_product text false c0 st0 _ Hpd1) as [st1 Hp1].
  destruct (run_invariant text _ _ _ _ Hp1 (init_Jc _ _ _ Hi1) eq_refl) as [HJ1 Hb1].
  pose proof (run_counter text false _ _ _ _ Hp1) as Hc1.
  pose proof (final_root _ _ _ Hfin1 HJ1) as Hr1.
  (* the truncated run *)
  destruct (run_product _ false c0' st0 _ Hpd2) as [st2 Hp2].
  destruct (run_invariant _ _ _ _ _ Hp2 (init_Jc _ _ _ Hi2) eq_refl) as [HJ2 Hb2].
  pose proof (run_counter _ false _ _ _ _ Hp2) as Hc2.
  pose proof (final_root _ _ _ Hfin2 HJ2) as Hr2.
  (* n is inside the text, at a boundary *)
  assert (Hn : n <= tlen text) by (specialize (Hb1 _ Hr1); lia).
  assert (Hbn : is_boundary text n = true) by (apply prefix_boundary; assumption).
  (* the counter of the full run passes through the final state of the truncated one *)
  pose proof (X_document text n Hn Hbn cst evd) as HX.
  assert (Hign : forall tok c, is_end_tok tok = false -> evd tok c = Ok c).
  { intros tok c Ht. destruct tok; cbn in Ht |- *; try discriminate; reflexivity. }
  specialize (HX Hign st0 st2 Hc2 (fun st => cs_root st = Some (root_element_end d'))).
  assert (Hpres : pres cst evd (fun st => cs_root st = Some (root_element_end d'))).
  { intros tok a a' Ha Hr. eapply evd_root; eauto. }
  specialize (HX Hpres Hr2 st1 Hc1). cbv beta in HX. rewrite Hr1 in HX. inversion HX as [E].
  (* the end of the root of the truncated run is inside the prefix *)
  specialize (Hb2 _ Hr2). assert (Etl : tlen (firstn_N n text) = n) by (apply tlen_p; assumption).
  lia.
Qed.

End Main.

(* no accepted document has an accepted prefix that stops before the end of its root element *)
Theorem truncation_not_ok_partial : forall text opt d n,
  contains_b (b "<!DOCTYPE") text = false ->
  valid_utf8_b text = true -> parse text opt = Ok d -> n < root_element_end d ->
  valid_utf8_b (firstn_N n text) = true ->
  forall d', parse (firstn_N n text) opt <> Ok d'.
Proof.
  intros text opt d n Hdt Hv Hp Hn Hvp d' H. eapply truncation_core; eauto.
Qed.
Print Assumptions truncation_not_ok_partial.

(* with the two totality theorems: the prefix is rejected with an error *)
From RX.Proofs Require Import NoPanicFinal TermFinal.

Theorem truncation_rejected_partial : forall text opt d n,
  contains_b (b "<!DOCTYPE") text = false ->
  nodes_limit opt <= u32_max ->
  valid_utf8_b text = true -> parse text opt = Ok d -> n < root_element_end d ->
  valid_utf8_b (firstn_N n text) = true ->
  exists e, parse (firstn_N n text) opt = Err e.
Proof.
  intros text opt d n Hdt Hlim Hv Hp Hn Hvp.
  destruct (parse (firstn_N n text) opt) as [d'|e|pn|] eqn:E.
  - exfalso. eapply truncation_not_ok_partial; eauto.
  - eauto.
  - exfalso. eapply parse_no_panic; eauto.
  - exfalso. eapply parse_terminates; eauto.
Qed.
Print Assumptions truncation_rejected_partial.
