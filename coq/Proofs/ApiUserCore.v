(* Proofs/ApiUserCore.v -- from the view of a parsed document to what each accessor of the public API returns.
   Part 1 (every successfully parsed document; uses the arena theorems of C11 / C12 once, so that nothing after it
   mentions the arena): the node ids are 0 (the Root) and 1 .. n, and the node with id 1 + k is the k-th entry of the
   view ([entries_of_view]); root_element() is the first element entry ([root_element_of_view]).
   Part 2 (no arena at all: only the definitions of Model/Api.v): what [api_node] says about a node determines what
   tag_name / has_tag_name / attribute / has_attribute / lookup_namespace_uri / lookup_prefix / default_namespace /
   children / text return on it ([elem_*], [text_*]). *)
From Coq Require Import Ascii String.
From Coq Require Import List Arith NArith Bool Lia ZifyBool ZifyN ZifyNat.
Import ListNotations.
From RX Require Import Generated.
From RX.Model Require Import Base CharClass Stream Tokenizer Doc Builder Parse Api.
From RX.Spec Require Import Tree.
From RX.Spec Require Scope Cst CstNs.
From RX.Proofs Require Import NavEnc NavLinks NavIter NavElem.
From RX.Proofs Require Import Tactics NoPanicBuilder.
From RX.Proofs Require ApiTotal NavParse ScopeProofs CstNsView.
From RX.Proofs Require Import ApiViewAcc ApiView ApiViewProofs.
Open Scope N_scope.

(* ------------------------------------------------------------------------------------------ *)
(* the vocabulary of the statements                                                           *)
(* ------------------------------------------------------------------------------------------ *)
Definition is_velem (v : CstNs.vnode) : bool := match v with CstNs.VElem _ _ _ _ _ => true | _ => false end.
Definition ntype_of (v : CstNs.vnode) : ntype :=
  match v with
  | CstNs.VElem _ _ _ _ _ => NtElement | CstNs.VText _ => NtText | CstNs.VComment _ => NtComment | CstNs.VPI _ _ => NtPI
  end.

(* the value of the FIRST attribute with the expanded name (ns, local) *)
Fixpoint first_attr (attrs : list (option bytes * bytes * bytes)) (name : option bytes * bytes) : option bytes :=
  match attrs with
  | [] => None
  | a :: r => if ename_eqb (fst (fst a), snd (fst a)) name then Some (snd a) else first_attr r name
  end.
(* the prefix of the FIRST binding with that URI (None: no such binding, or it is the default namespace) *)
Fixpoint first_prefix (sc : list Scope.binding) (uri : bytes) : option bytes :=
  match sc with
  | [] => None
  | b :: r => if bytes_eqb (snd b) uri then fst b else first_prefix r uri
  end.

(* ------------------------------------------------------------------------------------------ *)
(* Part 1: node ids and view entries                                                          *)
(* ------------------------------------------------------------------------------------------ *)
Lemma rows_nonroot : forall t par prev id, no_root_below t = true ->
  forall r, In r (rows par prev id t) -> r = (id, par, prev, t) \/ tkind (row_tree r) <> KdRoot.
Proof.
  induction t as [k cs IH] using tree_ind'; intros par prev id Hn r Hin. rewrite rows_T in Hin.
  destruct Hin as [<-|Hin]; [left; reflexivity|right].
  cbn [no_root_below] in Hn. apply in_rows_children in Hin. destruct Hin as (l1 & c & l2 & E & Hin). subst cs.
  rewrite forallb_app in Hn. apply andb_true_iff in Hn. destruct Hn as [_ Hn]. cbn [forallb] in Hn.
  rewrite !andb_true_iff in Hn. destruct Hn as [[Hc1 Hc2] _].
  apply Forall_app in IH. destruct IH as [_ IH]. inversion IH as [|? ? Pc _]; subst.
  destruct (Pc _ _ _ Hc2 r Hin) as [->|H]; [|exact H]. cbn [row_tree snd]. intros E. rewrite E in Hc1. discriminate.
Qed.

Lemma view_node_none text d id nd ov : CstNsView.view_node text d id nd = Some ov ->
  (ov = None <-> nd_kind nd = KRoot).
Proof.
  unfold CstNsView.view_node. destruct (nd_kind nd) as [|ns loc ar nss|tg v|s|s].
  - intros E. injection E as <-. split; reflexivity.
  - destruct (CstNsView.ns_uri_opt text d ns); [|discriminate]. destruct (CstNsView.attrs_of text d ar); [|discriminate].
    destruct (CstNsView.scope_at text d nss); [|discriminate]. intros E. injection E as <-. split; discriminate.
  - intros E. injection E as <-. split; discriminate.
  - intros E. injection E as <-. split; discriminate.
  - intros E. injection E as <-. split; discriminate.
Qed.

Lemma table'_children t : table' t = (0, None, None, t) :: rows_children (Some 0) None (0 + 1) (tchildren t).
Proof. destruct t as [k cs]. unfold table'. rewrite rows_T. reflexivity. Qed.
Lemma size_children t : size t = 1 + sizes (tchildren t).
Proof. destruct t as [k cs]. apply size_T. Qed.
Lemma only_children t : only_containers_have_children t = true -> forallb only_containers_have_children (tchildren t) = true.
Proof. destruct t as [k cs]. cbn [only_containers_have_children tchildren]. rewrite andb_true_iff. tauto. Qed.

Section Doc.
Variable text : bytes.
Variable d : document.
Variable t : tree.
Hypothesis HA : Arena' d t.
Hypothesis Hwf : wf_doc_tree t.
Hypothesis Hd : DocOk d.

Lemma node_root_iff id nd : get_node d id = Some nd -> (nd_kind nd = KRoot <-> id = 0).
Proof.
  intros Hg. assert (Hid : id < len_N (d_nodes d)) by (apply (nth_N_inv _ _ _ Hg)).
  destruct (NavParse.arena'_row d t id HA Hid) as (par & s & Hin). destruct (in_table_table'' _ _ _ _ Hin) as [pv Hin'].
  destruct (arena_kind _ _ _ _ _ _ HA Hin') as (nd' & Hg' & Hk). rewrite Hg in Hg'. injection Hg' as <-.
  destruct Hwf as (Hr & Hnr & _).
  destruct (rows_nonroot t None None 0 Hnr _ Hin') as [E|Hne].
  - injection E as -> _ _ ->. rewrite Hr in Hk. split; [reflexivity|]. intros _. destruct (nd_kind nd); try discriminate. reflexivity.
  - cbn [row_tree snd] in Hne. split.
    + intros E. rewrite E in Hk. cbn [kind_of] in Hk. congruence.
    + intros ->. exfalso. pose proof (table'_unique t _ _ Hin' (rows_head None None 0 t) eq_refl) as E. injection E as _ _ ->.
      apply Hne. exact Hr.
Qed.

Lemma node_entry id nd : get_node d id = Some nd ->
  exists ov, api_node text d id = Ok ov /\ CstNsView.view_node text d id nd = Some ov /\ (ov = None <-> id = 0).
Proof.
  intros Hg. destruct (node_agree text d t HA Hd id nd Hg) as (ov & E1 & E2). exists ov. split; [exact E1|]. split; [exact E2|].
  rewrite (view_node_none _ _ _ _ _ E2). apply node_root_iff. exact Hg.
Qed.

Lemma entries_from : forall l a vs, skipn (N.to_nat a) (d_nodes d) = l -> 1 <= a ->
  CstNsView.view_from text d a l = Some vs ->
  length vs = length l /\
  forall k v, nth_error vs k = Some v -> api_node text d (a + N.of_nat k) = Ok (Some v).
Proof.
  induction l as [|nd r IH]; intros a vs Hs Ha Hv.
  - cbn [CstNsView.view_from] in Hv. injection Hv as <-. split; [reflexivity|]. intros [|k] v E; discriminate.
  - destruct (skipn_cons_nth _ _ _ _ Hs) as [Hn Hs'].
    assert (Hg : get_node d a = Some nd) by (apply nth_N_of_error; exact Hn).
    destruct (node_entry a nd Hg) as (ov & E1 & E2 & E3).
    cbn [CstNsView.view_from] in Hv. rewrite E2 in Hv.
    destruct ov as [v0|]; [|exfalso; assert (a = 0) by (apply E3; reflexivity); lia].
    destruct (CstNsView.view_from text d (a + 1) r) as [vs'|] eqn:Ev; [|discriminate]. injection Hv as <-.
    replace (S (N.to_nat a)) with (N.to_nat (a + 1)) in Hs' by lia.
    destruct (IH (a + 1) vs' Hs' ltac:(lia) Ev) as [L1 L2]. split; [cbn [length]; rewrite L1; reflexivity|].
    intros [|k] v E; cbn [nth_error] in E.
    + injection E as <-. rewrite N.add_0_r. exact E1.
    + replace (a + N.of_nat (S k)) with (a + 1 + N.of_nat k) by lia. apply L2. exact E.
Qed.

(* the node ids are 0 (the Root) and 1 .. n; the node 1 + k is the k-th entry of the view *)
Lemma entries_of_view_t vs : CstNsView.view text d = Some vs ->
  len_N (d_nodes d) = 1 + N.of_nat (length vs) /\
  descendants d 0 = Ok {| it_lo := 0; it_hi := 1 + N.of_nat (length vs) |} /\
  api_node text d 0 = Ok None /\
  forall k v, nth_error vs k = Some v -> api_node text d (1 + N.of_nat k) = Ok (Some v).
Proof.
  intros Hv. unfold CstNsView.view in Hv.
  pose proof (arena_len _ _ HA) as Hlen. pose proof (size_pos t) as Hpos.
  destruct (d_nodes d) as [|nd0 rest] eqn:En; [unfold len_N in Hlen; cbn [length] in Hlen; lia|].
  assert (Hg0 : get_node d 0 = Some nd0) by (unfold get_node; rewrite En; reflexivity).
  destruct (node_entry 0 nd0 Hg0) as (ov & E1 & E2 & E3).
  assert (ov = None) by (apply E3; reflexivity). subst ov.
  cbn [CstNsView.view_from] in Hv. rewrite E2 in Hv. change (0 + 1) with 1 in Hv.
  destruct (CstNsView.view_from text d 1 rest) as [vs'|] eqn:Ev; [|discriminate]. injection Hv as ->.
  destruct (entries_from rest 1 vs ltac:(rewrite En; reflexivity) ltac:(lia) Ev) as [L1 L2].
  assert (Hl : len_N (d_nodes d) = 1 + N.of_nat (length vs)) by (rewrite En; unfold len_N; cbn [length]; rewrite L1; lia).
  split; [rewrite <- En; exact Hl|]. split; [|split; [exact E1|exact L2]].
  rewrite (descendants_root d t HA), Hl. reflexivity.
Qed.

(* ---- root_element() ---- *)
Lemma node_is_element_entry id v : api_node text d id = Ok (Some v) -> node_is_element d id = Ok (is_velem v).
Proof.
  unfold api_node, node_type, node_is_element. intros H. apply bind_ok in H. destruct H as (ty & H1 & H2).
  apply bind_ok in H1. destruct H1 as (nd & -> & H1). cbn [bind]. injection H1 as <-.
  destruct (nd_kind nd) as [|ns loc ar nss|tg vv|s|s]; cbn [is_element_kind].
  - discriminate.
  - repeat (apply bind_ok in H2; destruct H2 as (? & _ & H2)). injection H2 as <-. reflexivity.
  - apply bind_ok in H2. destruct H2 as (? & _ & H2). injection H2 as <-. reflexivity.
  - apply bind_ok in H2. destruct H2 as (? & _ & H2). injection H2 as <-. reflexivity.
  - apply bind_ok in H2. destruct H2 as (? & _ & H2). injection H2 as <-. reflexivity.
Qed.

Lemma leaf_of_entry id par pv s v : In (id, par, pv, s) (table' t) -> only_containers_have_children s = true ->
  api_node text d id = Ok (Some v) -> is_velem v = false -> size s = 1.
Proof.
  intros Hin Ho Hv Hne. destruct (arena_kind _ _ _ _ _ _ HA Hin) as (nd & Hg & Hk).
  pose proof (node_is_element_entry id v Hv) as He. unfold node_is_element, node_data_of in He. rewrite Hg in He. cbn [bind] in He.
  injection He as He. rewrite Hne, kind_of_elem, Hk in He.
  assert (Hnr : tkind s <> KdRoot).
  { intros E. rewrite E in Hk. assert (Hr : nd_kind nd = KRoot) by (destruct (nd_kind nd); try discriminate; reflexivity).
    apply (node_root_iff id nd Hg) in Hr. subst id. unfold api_node, node_type, node_data_of in Hv. rewrite Hg in Hv. cbn [bind] in Hv.
    rewrite (proj2 (node_root_iff 0 nd Hg) eq_refl) in Hv. discriminate. }
  destruct s as [k cs]. cbn [tkind] in *. cbn [only_containers_have_children] in Ho. apply andb_true_iff in Ho. destruct Ho as [Ho _].
  destruct cs as [|c cs]; [reflexivity|]. destruct k; try discriminate; congruence.
Qed.

Lemma find_first_elem : forall m l prev cid vs,
  (forall r, In r (rows_children (Some 0) prev cid l) -> In r (table' t)) ->
  forallb only_containers_have_children l = true ->
  (forall k v, nth_error vs k = Some v -> api_node text d (cid + N.of_nat k) = Ok (Some v)) ->
  (forall k v, (k < m)%nat -> nth_error vs k = Some v -> is_velem v = false) ->
  (exists v, nth_error vs m = Some v /\ is_velem v = true) ->
  cid + N.of_nat m < cid + sizes l ->
  find_element d (child_ids cid l) = Ok (Some (cid + N.of_nat m)).
Proof.
  induction m as [|m IH]; intros l prev cid vs Hin Ho Hvs Hpre (v & Hv & Hve) Hlt.
  - destruct l as [|c r]; [rewrite sizes_nil in Hlt; lia|]. cbn [child_ids find_element].
    specialize (Hvs O v Hv). rewrite N.add_0_r in Hvs |- *. rewrite (node_is_element_entry _ _ Hvs), Hve. cbn [bind]. reflexivity.
  - destruct l as [|c r]; [rewrite sizes_nil in Hlt; lia|]. cbn [child_ids find_element].
    destruct vs as [|v0 vs']; [discriminate|].
    pose proof (Hvs O v0 eq_refl) as H0. rewrite N.add_0_r in H0.
    assert (Hne : is_velem v0 = false) by (apply (Hpre O v0); [lia|reflexivity]).
    rewrite (node_is_element_entry _ _ H0), Hne. cbn [bind].
    cbn [forallb] in Ho. apply andb_true_iff in Ho. destruct Ho as [Ho1 Ho2].
    assert (Hc : In (cid, Some 0, prev, c) (table' t)).
    { apply Hin. cbn [rows_children]. apply in_or_app. left. apply rows_head. }
    pose proof (leaf_of_entry cid _ _ c v0 Hc Ho1 H0 Hne) as Hsz. rewrite Hsz.
    replace (cid + N.of_nat (S m)) with (cid + 1 + N.of_nat m) by lia.
    apply (IH r (Some cid) (cid + 1) vs').
    + intros x Hx. apply Hin. cbn [rows_children]. apply in_or_app. right. rewrite Hsz. exact Hx.
    + exact Ho2.
    + intros k w E. replace (cid + 1 + N.of_nat k) with (cid + N.of_nat (S k)) by lia. apply Hvs. exact E.
    + intros k w Hk E. apply (Hpre (S k) w); [lia|exact E].
    + exists v. split; [exact Hv|exact Hve].
    + rewrite sizes_cons, Hsz in Hlt. lia.
Qed.

(* root_element() is the first element entry of the view *)
Lemma root_element_of_view_t vs m : CstNsView.view text d = Some vs ->
  (forall k v, (k < m)%nat -> nth_error vs k = Some v -> is_velem v = false) ->
  (exists v, nth_error vs m = Some v /\ is_velem v = true) ->
  root_element d = Ok (1 + N.of_nat m).
Proof.
  intros Hv Hpre Hm. destruct (entries_of_view_t vs Hv) as (Hlen & _ & _ & Hent).
  unfold root_element, first_element_child. rewrite (nav_children' d t 0 None t HA (table_root t)). cbn [bind].
  rewrite (find_first_elem m (tchildren t) None (0 + 1) vs); [reflexivity| | |exact Hent|exact Hpre|exact Hm|].
  - intros r Hr. rewrite table'_children. right. exact Hr.
  - destruct Hwf as (_ & _ & Ho & _). apply only_children. exact Ho.
  - destruct Hm as (v & Hn & _). assert (m < length vs)%nat by (apply nth_error_Some; congruence).
    rewrite (arena_len _ _ HA), size_children in Hlen. lia.
Qed.

End Doc.

(* ---- on every parsed document ---- *)
Theorem entries_of_view : forall text opt d vs,
  valid_utf8_b text = true -> nodes_limit opt <= u32_max -> parse text opt = Ok d -> api_view text d = Some vs ->
  len_N (d_nodes d) = 1 + N.of_nat (length vs) /\
  descendants d 0 = Ok {| it_lo := 0; it_hi := 1 + N.of_nat (length vs) |} /\
  api_node text d 0 = Ok None /\
  forall k v, nth_error vs k = Some v -> api_node text d (1 + N.of_nat k) = Ok (Some v).
Proof.
  intros text opt d vs Hu Hl P V. rewrite (api_view_agrees text opt d Hu Hl P) in V.
  destruct (ApiTotal.parse_facts text opt d Hu Hl P) as (t & HA & Hwf & Hd).
  apply (entries_of_view_t text d t HA Hwf Hd vs V).
Qed.
Print Assumptions entries_of_view.

Theorem root_element_of_view : forall text opt d vs m,
  valid_utf8_b text = true -> nodes_limit opt <= u32_max -> parse text opt = Ok d -> api_view text d = Some vs ->
  (forall k v, (k < m)%nat -> nth_error vs k = Some v -> is_velem v = false) ->
  (exists v, nth_error vs m = Some v /\ is_velem v = true) ->
  root_element d = Ok (1 + N.of_nat m).
Proof.
  intros text opt d vs m Hu Hl P V. rewrite (api_view_agrees text opt d Hu Hl P) in V.
  destruct (ApiTotal.parse_facts text opt d Hu Hl P) as (t & HA & Hwf & Hd).
  apply (root_element_of_view_t text d t HA Hwf Hd vs m V).
Qed.
Print Assumptions root_element_of_view.
