(* Proofs/CstRangeTMain.v -- C13 (shape of the ranges) and C18 (what is stored) for every well-formed
   abstract document of Spec/CstText.v (text runs and attribute values made of pieces: literals incl.
   CR, character / predefined references, CDATA sections):
   - the ranges of the nodes and of the attributes of parse (render c) are exactly the places
     computed by CstRangeTDefs.v ([tspans], [tattr_spans]);  THE RANGE OF THE TEXT NODE OF A RUN IS
     THE RANGE OF THE FIRST SEGMENT OF THE RUN (the leading pieces that are not CDATA sections, or
     the first CDATA section), not the whole run: see [run_range_is_first_segment];
   - a run that is one literal without CR is Borrowed with exactly its span, a run that is one CDATA
     section without CR is Borrowed with the span of its content (the node's range is the whole
     section), every other run is Owned with value text_sem; an attribute value that is empty or
     one literal without TAB / LF / CR is Borrowed with the span between the quotes, every other is
     Owned with value value_sem ([tshapes], [tas_store]).
   Size hypotheses as in CstTextMain.v. *)
From Coq Require Import Ascii String.
From Coq Require Import List NArith PeanoNat Bool Lia ZifyBool ZifyN ZifyNat.
Import ListNotations.
From RX Require Import Generated.
From RX.Model Require Import Base CharClass Stream Tokenizer Doc Builder Parse Api.
From RX.Spec Require Cst CstText.
From RX.Spec Require Import Text.
From RX.Proofs Require Import Tactics CstLex CstBuild CstTree CstItems CstDoc CstMain.
From RX.Proofs Require Import CstTextSem CstTextLex CstTextBuild CstTextItems CstTextDoc CstTextMain.
From RX.Proofs Require Import CstRangeDefs CstRangeBuild CstRangeItems CstRangeDoc CstRangeMain.
From RX.Proofs Require Import CstRangeTDefs CstRangeTBuild CstRangeTItems CstRangeTDoc.
Open Scope N_scope.

(* ---- how a stored node matches its description (C18) ---- *)
(* [stored_as_t k sh] (this is CstRangeTItems.tkshape): the kind [k] of a stored node holds exactly
   the slices [sh]; a Text node is Borrowed with the given span or Owned with the given bytes; an
   element has no namespace *)
Definition stored_val (st : storage) (d : tstore) : Prop :=
  match st, d with
  | Borrowed (SIn s), TBorrowed sp => (sl_start s, sl_end s) = sp
  | Owned bs, TOwned bs' => bs = bs'
  | _, _ => False
  end.

Definition stored_as_t (k : node_kind) (sh : tshape) : Prop :=
  match k, sh with
  | KElement ns local _ _, TSElem sp => ns = None /\ (sl_start local, sl_end local) = sp
  | KText st, TSText d => stored_val st d
  | KComment s, TSComment sp => (sl_start s, sl_end s) = sp
  | KPI t v, TSPI tsp vsp =>
    (sl_start t, sl_end t) = tsp /\
    match v, vsp with
    | Some s, Some sp => (sl_start s, sl_end s) = sp
    | None, None => True
    | _, _ => False
    end
  | _, _ => False
  end.

Lemma stored_as_t_tkshape k sh : tkshape k sh <-> stored_as_t k sh.
Proof. reflexivity. Qed.

(* ------------------------------------------------------------------ *)
(* the run                                                              *)
Lemma parse_observed_t (c : T.doc) (opt : options) d :
  T.wf_doc c = true ->
  N.of_nat (length (T.sem c)) < nodes_limit opt ->
  N.of_nat (length (T.render c)) <= u32_max ->
  parse (T.render c) opt = Ok d ->
  map nd_range (d_nodes d) = (0, tlen (T.render c)) :: tspans c /\
  (exists k0, map nd_kind (d_nodes d) = KRoot :: k0 /\ Forall2 tkshape k0 (tshapes c)) /\
  d_attrs d = flat_map titem_ads (tdoc_items_at c).
Proof.
  intros Hwf Hlim Hsz H. destruct (trender_bounds c Hwf) as [B1 B2]. set (text := T.render c) in *.
  destruct (tparse_document_ok_r c (allow_dtd opt) (init_ctx text opt) Hwf (init_ctx_CI text opt) eq_refl eq_refl)
    as (cf & K & ext & E & S & _ & _ & (X1 & X2 & X3)).
  { unfold node_room. rewrite tnsizes_doc. cbn. unfold len_N. cbn [length]. unfold u32_max in *. lia. }
  { unfold attr_room. cbn. unfold tdoc_nattrs in B2. unfold u32_max in *. lia. }
  fold text in E. unfold tok_ev in E. rewrite (parse_is_doc text opt cf d E H).
  destruct S as (S0 & _).
  split; [|split].
  - exact X3.
  - exists (map snd K). split; [|exact X1].
    replace (map nd_kind (d_nodes (c_doc cf))) with (map snd (absn (c_doc cf)))
      by (unfold absn; rewrite map_map; apply map_ext; reflexivity).
    rewrite (s_nodes _ _ _ _ S0), map_app. reflexivity.
  - rewrite (s_attrs _ _ _ _ S0). cbn [init_ctx c_doc d_attrs app]. exact X2.
Qed.

(* ------------------------------------------------------------------ *)
(* (1) the ranges of the nodes                                          *)
Theorem parse_render_ranges_t : forall (c : T.doc) (opt : options) d,
  T.wf_doc c = true ->
  N.of_nat (length (T.sem c)) < nodes_limit opt ->          (* room for all nodes + the Root *)
  N.of_nat (length (T.render c)) <= u32_max ->               (* the input is at most u32::MAX bytes long *)
  parse (T.render c) opt = Ok d ->
  map nd_range (tl (d_nodes d)) = tspans c /\
  (exists root, nth_N (d_nodes d) 0 = Some root /\ nd_range root = (0, N.of_nat (length (T.render c)))).
Proof.
  intros c opt d Hwf Hlim Hsz H. destruct (parse_observed_t c opt d Hwf Hlim Hsz H) as (R & _ & _).
  destruct (d_nodes d) as [|root nodes]; [discriminate|]. cbn [map tl] in *. injection R as R0 R1.
  split; [exact R1|]. exists root. split; [reflexivity|exact R0].
Qed.
Print Assumptions parse_render_ranges_t.

(* ------------------------------------------------------------------ *)
(* (1') the ranges of the attributes                                    *)
Lemma tads_spans : forall attrs q, Forall tattr_small attrs ->
  map (fun a => (ad_range a, attr_range_qname a, attr_range_value a)) (map ad_of (tas' q attrs)) =
  map (fun s => (tas_range s, tas_qname s, Ok (tas_value s))) (taspans_at q attrs).
Proof.
  induction attrs as [|a r IH]; intros q HF; [reflexivity|].
  inversion HF as [|? ? [Hs1 Hs2] HF']; subst. cbn [tas' map taspans_at]. rewrite (IH _ HF'). f_equal.
  unfold ad_of, ta_of', taspan_at, attr_range_qname, attr_range_value, vlen. cbv zeta.
  cbn [ad_range ad_qname_len ad_eq_len ta_range ta_qname_len ta_eq_len tas_range tas_qname tas_value fst snd].
  unfold nlen in *. fold (blen (T.a_ws a)) (blen (T.a_name a)) (blen (T.a_ws1 a)) (blen (T.a_ws2 a))
    (blen (T.r_pieces (T.a_value a))) in *.
  unfold qname_len_sat, eq_len_sat.
  set (s := q + blen (T.a_ws a)). set (n := blen (T.a_name a)).
  set (w1 := blen (T.a_ws1 a)) in *. set (w2 := blen (T.a_ws2 a)) in *. set (v := blen (T.r_pieces (T.a_value a))).
  fold n in Hs1.
  replace (N.min (s + n - s) 65535) with n by lia.
  replace (N.min (s + n + w1 + 1 + w2 - (s + n)) 255) with (w1 + 1 + w2) by lia.
  replace (s + n + w1 + 1 + w2 + 1 + v + 1 =? 0) with false by lia.
  repeat (f_equal; try lia).
Qed.

Lemma tattrs_small_items L : Forall tattr_small (flat_map titem_attrs L) ->
  map (fun a => (ad_range a, attr_range_qname a, attr_range_value a)) (flat_map titem_ads L) =
  map (fun s => (tas_range s, tas_qname s, Ok (tas_value s))) (flat_map titem_aspans L).
Proof.
  induction L as [|[p i] L IH]; intros HF; [reflexivity|].
  cbn [flat_map] in *. apply Forall_app in HF. destruct HF as [H1 H2].
  rewrite !map_app, (IH H2). f_equal.
  unfold titem_ads, titem_aspans, titem_attrs in *. cbn [fst snd] in *.
  destruct i; try reflexivity. apply tads_spans. exact H1.
Qed.

Theorem parse_render_attr_ranges_t : forall (c : T.doc) (opt : options) d,
  T.wf_doc c = true ->
  N.of_nat (length (T.sem c)) < nodes_limit opt ->
  N.of_nat (length (T.render c)) <= u32_max ->
  tattrs_small c ->                                           (* below the saturation limits *)
  parse (T.render c) opt = Ok d ->
  map (fun a => (ad_range a, attr_range_qname a, attr_range_value a)) (d_attrs d) =
  map (fun s => (tas_range s, tas_qname s, Ok (tas_value s))) (tattr_spans c).
Proof.
  intros c opt d Hwf Hlim Hsz Hsmall H. destruct (parse_observed_t c opt d Hwf Hlim Hsz H) as (_ & _ & A).
  rewrite A. apply tattrs_small_items. exact Hsmall.
Qed.
Print Assumptions parse_render_attr_ranges_t.

(* ------------------------------------------------------------------ *)
(* (2) what is stored (C18)                                             *)
Lemma attrs_wf_at : forall i p, T.wf_item i = true -> Forall (fun a => T.wf_attr a = true) (flat_map titem_attrs (titems_at p i)).
Proof.
  intros i. induction i as [n a w|n a w cs w2 IH|ps|bs|t s v] using titem_ind; intros p Hwf;
    try (cbn; constructor).
  - destruct (twf_elem_parts _ _ _ _ Hwf) as (_ & Ha & _). rewrite titems_at_elem. cbn [flat_map titem_attrs snd].
    rewrite app_nil_r. apply Forall_forall. intros x Hx. rewrite forallb_forall in Ha. apply Ha. exact Hx.
  - destruct (twf_elem_parts _ _ _ _ Hwf) as (_ & Ha & _ & _ & _ & _ & _ & Hcs). rewrite titems_at_elem.
    cbn [flat_map titem_attrs snd]. apply Forall_app. split.
    + apply Forall_forall. intros x Hx. rewrite forallb_forall in Ha. apply Ha. exact Hx.
    + generalize (p + tstart_tag_len n a w). clear - IH Hcs. induction IH as [|c r Hc _ IHr]; intros q; [constructor|].
      cbn [twf_items] in Hcs. apply andb_true_iff in Hcs. destruct Hcs as [H1 H2].
      cbn [titems_list]. rewrite flat_map_app. apply Forall_app. split; [apply Hc; exact H1|apply IHr; exact H2].
Qed.

Lemma tdoc_attrs_wf c : T.wf_doc c = true -> Forall (fun a => T.wf_attr a = true) (tdoc_attrs c).
Proof.
  intros Hwf. unfold tdoc_attrs, tdoc_items_at. rewrite !flat_map_app.
  unfold T.wf_doc in Hwf. rewrite !andb_true_iff in Hwf. destruct Hwf as [[[[_ _] Hb] Hr] Ha].
  apply Forall_app. split; [|apply Forall_app; split].
  - generalize (nlen (T.d_ws0 c)). clear - Hb. induction (T.d_before c) as [|[i w] r IH]; intros q; [constructor|].
    cbn [forallb fst snd] in Hb. rewrite !andb_true_iff in Hb. destruct Hb as [[[_ B0] _] D].
    cbn [tbefore_at]. rewrite flat_map_app. apply Forall_app. split; [apply attrs_wf_at; exact B0|apply IH; exact D].
  - apply attrs_wf_at. destruct (T.d_root c); try discriminate. exact Hr.
  - generalize (troot_offset c + nlen (T.r_item (T.d_root c))). clear - Ha.
    induction (T.d_after c) as [|[w i] r IH]; intros q; [constructor|].
    cbn [forallb fst snd] in Ha. rewrite !andb_true_iff in Ha. destruct Ha as [[[_ _] C0] D].
    cbn [tafter_at]. rewrite flat_map_app. apply Forall_app. split; [apply attrs_wf_at; exact C0|apply IH; exact D].
Qed.

Definition attr_stored (a : attr_data) (s : taspan) : Prop :=
  ad_local a = slice_of (tas_qname s) /\ stored_val (ad_value a) (tas_store s).

Lemma tads_stored : forall attrs q, Forall (fun a => T.wf_attr a = true) attrs ->
  Forall2 attr_stored (map ad_of (tas' q attrs)) (taspans_at q attrs).
Proof.
  induction attrs as [|a r IH]; intros q HF; [constructor|].
  inversion HF as [|? ? Ha HF']; subst. cbn [tas' map taspans_at]. constructor; [|apply IH; exact HF'].
  unfold attr_stored, ad_of, ta_of', taspan_at, vlen. cbv zeta. cbn [ad_local ad_value ta_local ta_value tas_qname tas_store].
  split; [reflexivity|].
  destruct (wf_attr_parts' _ Ha) as (_ & _ & _ & _ & _ & _ & Hv & Hadj).
  assert (Hwv : T.wf_value (T.a_quote a) (T.a_value a) = true).
  { unfold T.wf_attr in Ha. rewrite !andb_true_iff in Ha. apply Ha. }
  rewrite (needs_norm_plain _ _ Hwv).
  destruct (value_plain (T.a_value a)); cbn [negb stored_val]; reflexivity.
Qed.

Lemma titems_stored L : Forall (fun a => T.wf_attr a = true) (flat_map titem_attrs L) ->
  Forall2 attr_stored (flat_map titem_ads L) (flat_map titem_aspans L).
Proof.
  induction L as [|[p i] L IH]; intros HF; [constructor|]. cbn [flat_map] in *.
  apply Forall_app in HF. destruct HF as [H1 H2]. apply Forall2_app; [|apply IH; exact H2].
  unfold titem_ads, titem_aspans, titem_attrs in *. cbn [fst snd] in *. destruct i; try constructor.
  apply tads_stored. exact H1.
Qed.

Theorem parse_render_storage_t : forall (c : T.doc) (opt : options) d,
  T.wf_doc c = true ->
  N.of_nat (length (T.sem c)) < nodes_limit opt ->
  N.of_nat (length (T.render c)) <= u32_max ->
  parse (T.render c) opt = Ok d ->
  (* every node holds exactly what [tshapes] says: the slices of its written occurrence; a Text node
     is Borrowed with the span of its literal / of the content of its CDATA section, or Owned with
     the decoded text *)
  Forall2 stored_as_t (map nd_kind (tl (d_nodes d))) (tshapes c) /\
  (* every attribute: the local name is the slice of the written name; the value is Borrowed with
     the span between the quotes, or Owned with the normalised value *)
  Forall2 attr_stored (d_attrs d) (tattr_spans c).
Proof.
  intros c opt d Hwf Hlim Hsz H. destruct (parse_observed_t c opt d Hwf Hlim Hsz H) as (_ & (k0 & Hk & HF) & A).
  split.
  - destruct (d_nodes d) as [|root nodes]; [discriminate|]. cbn [map tl] in *. injection Hk as _ Hk.
    rewrite Hk. exact HF.
  - rewrite A. apply titems_stored. apply (tdoc_attrs_wf c Hwf).
Qed.
Print Assumptions parse_render_storage_t.

(* ------------------------------------------------------------------ *)
(* the statement "the range of a run is the whole run" is FALSE of the model: the Text node keeps  *)
(* the range of the first token of the run                                                      *)
Definition run_doc (ps : list T.piece) : T.doc :=
  {| T.d_before := []; T.d_ws0 := []; T.d_root := T.IElem [114] [] [] (Some ([T.IText ps], []));
     T.d_after := []; T.d_ws_end := [] |}.

(* <r>a<![CDATA[b]]>c</r>: the run "a<![CDATA[b]]>c" is written at 3..18, the Text node has range 3..4 *)
Example run_range_is_first_segment :
  let c := run_doc [T.PLit [97]; T.PCData [98]; T.PLit [99]] in
  T.wf_doc c = true /\
  tspans c = [(0, 22); (3, 4)] /\
  match parse (T.render c) default_options with
  | Ok d => map nd_range (d_nodes d) = [(0, 22); (0, 22); (3, 4)] /\
            map nd_kind (tl (tl (d_nodes d))) = [KText (Owned [97; 98; 99])]
  | _ => False
  end.
Proof. vm_compute. repeat split; reflexivity. Qed.

(* one CDATA section: Borrowed content, the range is the whole section *)
Example cdata_run_borrowed :
  let c := run_doc [T.PCData [98; 99]] in
  T.wf_doc c = true /\
  match parse (T.render c) default_options with
  | Ok d => map nd_range (tl (tl (d_nodes d))) = [(3, 17)] /\
            map nd_kind (tl (tl (d_nodes d))) = [KText (Borrowed (SIn {| sl_start := 12; sl_end := 14 |}))]
  | _ => False
  end.
Proof. vm_compute. repeat split; reflexivity. Qed.

(* ------------------------------------------------------------------ *)
(* (3) consequences: what the slice of a node looks like                *)
Definition toccs (text : bytes) (L : list (N * T.item)) : Prop :=
  Forall (fun x => occ text (fst x) (T.r_item (snd x))) L.

Lemma tocc_items_list text cs :
  Forall (fun i => forall p, occ text p (T.r_item i) -> toccs text (titems_at p i)) cs ->
  forall q, occ text q (tr_items cs) -> toccs text (titems_list q cs).
Proof.
  induction 1 as [|i r Hi _ IH]; intros q Hq; cbn [titems_list]; [constructor|].
  cbn [tr_items] in Hq. apply Forall_app. split; [apply Hi; eapply occ_l; exact Hq|].
  apply IH. eapply occ_r; exact Hq.
Qed.

Lemma tocc_items text : forall i p, occ text p (T.r_item i) -> toccs text (titems_at p i).
Proof.
  intros i. induction i as [n a w|n a w cs w2 IH|bs|bs|t s v] using titem_ind; intros p Hp.
  - rewrite titems_at_elem. constructor; [exact Hp|constructor].
  - rewrite titems_at_elem. constructor; [exact Hp|].
    apply (tocc_items_list text cs IH). rewrite tr_item_elem in Hp.
    apply occ_r in Hp. apply occ_r in Hp. apply occ_r in Hp. apply occ_r in Hp. apply occ_r in Hp. apply occ_l in Hp.
    replace (p + tstart_tag_len n a w) with (p + nlen [60] + nlen n + nlen (flat_map T.r_attr a) + nlen w + nlen [62])
      by (unfold tstart_tag_len, nlen; cbn [length]; lia).
    exact Hp.
  - constructor; [exact Hp|constructor].
  - constructor; [exact Hp|constructor].
  - constructor; [exact Hp|constructor].
Qed.

Lemma tocc_before text : forall l q,
  occ text q (flat_map (fun x => T.r_item (fst x) ++ snd x) l) -> toccs text (tbefore_at q l).
Proof.
  induction l as [|[i w] r IH]; intros q H; cbn [tbefore_at]; [constructor|].
  cbn [flat_map fst snd] in H. rewrite <- app_assoc in H. apply Forall_app. split.
  - apply tocc_items. eapply occ_l; exact H.
  - apply IH. apply occ_r in H. apply occ_r in H. exact H.
Qed.

Lemma tocc_after text : forall l q,
  occ text q (flat_map (fun x => fst x ++ T.r_item (snd x)) l) -> toccs text (tafter_at q l).
Proof.
  induction l as [|[w i] r IH]; intros q H; cbn [tafter_at]; [constructor|].
  cbn [flat_map fst snd] in H. rewrite <- app_assoc in H. apply occ_r in H. apply Forall_app. split.
  - apply tocc_items. eapply occ_l; exact H.
  - apply IH. eapply occ_r; exact H.
Qed.

Lemma tdoc_occ c : toccs (T.render c) (tdoc_items_at c).
Proof.
  unfold tdoc_items_at, troot_offset, tbefore_len.
  assert (H0 : occ (T.render c) 0 (T.render c)).
  { exists [], []. rewrite app_nil_r. split; reflexivity. }
  unfold T.render in H0 at 2. apply occ_r in H0. rewrite N.add_0_l in H0.
  apply Forall_app. split; [apply tocc_before; eapply occ_l; exact H0|].
  apply occ_r in H0. apply Forall_app. split; [apply tocc_items; eapply occ_l; exact H0|].
  apply occ_r in H0. apply tocc_after. eapply occ_l; exact H0.
Qed.

(* every node but the Root is the k-th item of the document *)
Lemma node_item_t (c : T.doc) (opt : options) d id nd :
  T.wf_doc c = true -> N.of_nat (length (T.sem c)) < nodes_limit opt ->
  N.of_nat (length (T.render c)) <= u32_max -> parse (T.render c) opt = Ok d ->
  nth_N (d_nodes d) id = Some nd -> nd_kind nd <> KRoot ->
  exists x, In x (tdoc_items_at c) /\ nd_range nd = tspan_of x /\ stored_as_t (nd_kind nd) (tshape_of x) /\
            occ (T.render c) (fst x) (T.r_item (snd x)).
Proof.
  intros Hwf Hlim Hsz H Hn Hk. destruct (parse_observed_t c opt d Hwf Hlim Hsz H) as (R & (k0 & K0 & HF) & _).
  unfold nth_N in Hn. destruct (len_N (d_nodes d) <=? id); [discriminate|].
  destruct (d_nodes d) as [|root nodes]; [destruct (N.to_nat id); discriminate|].
  cbn [map] in R, K0. injection R as _ R. injection K0 as K00 K0.
  destruct (N.to_nat id) as [|k] eqn:Ek; cbn [nth_error] in Hn.
  { injection Hn as <-. contradiction. }
  unfold tspans, tshapes in *. subst k0.
  assert (Hx : exists x, nth_error (tdoc_items_at c) k = Some x).
  { destruct (nth_error (tdoc_items_at c) k) eqn:E; [eauto|]. apply nth_error_None in E.
    apply (f_equal (@length _)) in R. rewrite !map_length in R.
    assert (k < length nodes)%nat by (apply nth_error_Some; congruence). lia. }
  destruct Hx as [x Hx]. exists x. split; [eapply nth_error_In; exact Hx|].
  split; [|split].
  - pose proof (map_nth_error nd_range _ _ Hn) as A1. rewrite R in A1.
    pose proof (map_nth_error tspan_of _ _ Hx) as A2.
    assert (E : Some (nd_range nd) = Some (tspan_of x))
      by (transitivity (nth_error (map tspan_of (tdoc_items_at c)) k); [symmetry; exact A1|exact A2]).
    injection E as E. exact E.
  - pose proof (map_nth_error nd_kind _ _ Hn) as A1. pose proof (map_nth_error tshape_of _ _ Hx) as A2.
    revert A1 A2. generalize (nd_kind nd) (tshape_of x). clear - HF. revert k.
    induction HF as [|a b0 l l' Hab _ IH]; intros k u v A1 A2; destruct k; cbn [nth_error] in *; try discriminate.
    + injection A1 as <-. injection A2 as <-. exact Hab.
    + eapply IH; eauto.
  - pose proof (tdoc_occ c) as HO. unfold toccs in HO. rewrite Forall_forall in HO. apply HO.
    eapply nth_error_In; exact Hx.
Qed.

Lemma items_wf_at : forall i p, T.wf_item i = true -> Forall (fun j => T.wf_item j = true) (map snd (titems_at p i)).
Proof.
  intros i. induction i as [n a w|n a w cs w2 IH|ps|bs|t s v] using titem_ind; intros p Hwf;
    try (cbn [titems_at map snd]; constructor; [exact Hwf|constructor]).
  pose proof Hwf as Hwf0. destruct (twf_elem_parts _ _ _ _ Hwf) as (_ & _ & _ & _ & _ & _ & _ & Hcs).
  rewrite titems_at_elem. cbn [map snd]. constructor; [exact Hwf0|].
  generalize (p + tstart_tag_len n a w). clear - IH Hcs. induction IH as [|c r Hc _ IHr]; intros q; [constructor|].
  cbn [twf_items] in Hcs. apply andb_true_iff in Hcs. destruct Hcs as [H1 H2].
  cbn [titems_list]. rewrite map_app. apply Forall_app. split; [apply Hc; exact H1|apply IHr; exact H2].
Qed.

Lemma tdoc_items_wf c : T.wf_doc c = true -> Forall (fun j => T.wf_item j = true) (map snd (tdoc_items_at c)).
Proof.
  intros Hwf. unfold tdoc_items_at. rewrite !map_app.
  unfold T.wf_doc in Hwf. rewrite !andb_true_iff in Hwf. destruct Hwf as [[[[_ _] Hb] Hr] Ha].
  apply Forall_app. split; [|apply Forall_app; split].
  - generalize (nlen (T.d_ws0 c)). clear - Hb. induction (T.d_before c) as [|[i w] r IH]; intros q; [constructor|].
    cbn [forallb fst snd] in Hb. rewrite !andb_true_iff in Hb. destruct Hb as [[[_ B0] _] D].
    cbn [tbefore_at]. rewrite map_app. apply Forall_app. split; [apply items_wf_at; exact B0|apply IH; exact D].
  - apply items_wf_at. destruct (T.d_root c); try discriminate. exact Hr.
  - generalize (troot_offset c + nlen (T.r_item (T.d_root c))). clear - Ha.
    induction (T.d_after c) as [|[w i] r IH]; intros q; [constructor|].
    cbn [forallb fst snd] in Ha. rewrite !andb_true_iff in Ha. destruct Ha as [[[_ _] C0] D].
    cbn [tafter_at]. rewrite map_app. apply Forall_app. split; [apply items_wf_at; exact C0|apply IH; exact D].
Qed.

Section ShapesT.
Variables (c : T.doc) (opt : options) (d : document).
Hypothesis Hwf : T.wf_doc c = true.
Hypothesis Hlim : N.of_nat (length (T.sem c)) < nodes_limit opt.
Hypothesis Hsz : N.of_nat (length (T.render c)) <= u32_max.
Hypothesis Hparse : parse (T.render c) opt = Ok d.
Notation text := (T.render c).
Notation slice_of_range r := (sub text (fst r) (snd r)).

(* the slice of an element starts with '<' and its name, and ends with '>' *)
Corollary element_slice_shape_t : forall id nd ns local ar nss,
  nth_N (d_nodes d) id = Some nd -> nd_kind nd = KElement ns local ar nss ->
  exists mid, slice_of_range (nd_range nd) = [60] ++ slice_bytes text local ++ mid ++ [62].
Proof.
  intros id nd ns local ar nss Hn Hk.
  destruct (node_item_t c opt d id nd Hwf Hlim Hsz Hparse Hn ltac:(congruence)) as ([p i] & _ & Hr & Hs & Ho).
  rewrite Hk in Hs. rewrite Hr.
  destruct i as [name attrs ws body| | |]; cbn [tshape_of snd fst stored_as_t] in Hs; try contradiction.
  unfold tspan_of. cbn [fst snd] in *. rewrite (occ_sub _ _ _ Ho).
  destruct Hs as [_ Hs]. destruct local as [ls le]. cbn [sl_start sl_end] in Hs. injection Hs as -> ->.
  rewrite tr_item_elem in Ho |- *.
  change (p + 1) with (p + nlen [60]). rewrite (occ_slice _ _ _ _ _ Ho).
  destruct body as [[cs ws2]|].
  - exists (flat_map T.r_attr attrs ++ ws ++ [62] ++ tr_items cs ++ [60; 47] ++ name ++ ws2).
    rewrite <- !app_assoc. reflexivity.
  - exists (flat_map T.r_attr attrs ++ ws ++ [47]). rewrite <- !app_assoc. reflexivity.
Qed.

(* the slice of a comment is exactly "<!--" text "-->" *)
Corollary comment_slice_shape_t : forall id nd s,
  nth_N (d_nodes d) id = Some nd -> nd_kind nd = KComment s ->
  slice_of_range (nd_range nd) = [60; 33; 45; 45] ++ slice_bytes text s ++ [45; 45; 62].
Proof.
  intros id nd s Hn Hk.
  destruct (node_item_t c opt d id nd Hwf Hlim Hsz Hparse Hn ltac:(congruence)) as ([p i] & _ & Hr & Hs & Ho).
  rewrite Hk in Hs. rewrite Hr.
  destruct i as [| |bs|]; cbn [tshape_of snd fst stored_as_t] in Hs; try contradiction.
  unfold tspan_of. cbn [fst snd] in *. rewrite (occ_sub _ _ _ Ho).
  destruct s as [ls le]. cbn [sl_start sl_end] in Hs. injection Hs as -> ->.
  cbn [T.r_item Cst.r_item] in Ho |- *. change (p + 4) with (p + nlen [60; 33; 45; 45]).
  rewrite (occ_slice _ _ _ _ _ Ho). reflexivity.
Qed.

(* the slice of a processing instruction is "<?" target ... "?>" *)
Corollary pi_slice_shape_t : forall id nd target value,
  nth_N (d_nodes d) id = Some nd -> nd_kind nd = KPI target value ->
  exists mid, slice_of_range (nd_range nd) = [60; 63] ++ slice_bytes text target ++ mid ++ [63; 62].
Proof.
  intros id nd target value Hn Hk.
  destruct (node_item_t c opt d id nd Hwf Hlim Hsz Hparse Hn ltac:(congruence)) as ([p i] & _ & Hr & Hs & Ho).
  rewrite Hk in Hs. rewrite Hr.
  destruct i as [| | |t sp v]; cbn [tshape_of snd fst stored_as_t] in Hs; try contradiction.
  unfold tspan_of. cbn [fst snd] in *. rewrite (occ_sub _ _ _ Ho).
  destruct Hs as [Hs _]. destruct target as [ls le]. cbn [sl_start sl_end] in Hs. injection Hs as -> ->.
  cbn [T.r_item Cst.r_item] in Ho |- *. change (p + 2) with (p + nlen [60; 63]).
  rewrite (occ_slice _ _ _ _ _ Ho). exists (sp ++ v). rewrite <- !app_assoc. reflexivity.
Qed.

(* C13 for text: a BORROWED text value equals its slice, and that slice is the range of the node, or
   the range of the node is the CDATA section around it *)
Corollary text_slice_shape_t : forall id nd s,
  nth_N (d_nodes d) id = Some nd -> nd_kind nd = KText (Borrowed (SIn s)) ->
  ((sl_start s, sl_end s) = nd_range nd \/
   slice_of_range (nd_range nd) = T.cdata_open ++ slice_bytes text s ++ T.cdata_close) /\
  exists ps, In (T.IText ps) (map snd (tdoc_items_at c)) /\ slice_bytes text s = T.text_sem ps.
Proof.
  intros id nd s Hn Hk.
  destruct (node_item_t c opt d id nd Hwf Hlim Hsz Hparse Hn ltac:(congruence)) as ([p i] & Hin & Hr & Hs & Ho).
  rewrite Hk in Hs. rewrite Hr.
  destruct i as [|ps| |]; cbn [tshape_of snd fst stored_as_t] in Hs; try contradiction.
  unfold tspan_of. cbn [fst snd T.r_item] in *.
  assert (Hin' : In (T.IText ps) (map snd (tdoc_items_at c))) by (apply (in_map snd) in Hin; exact Hin).
  destruct ps as [|[bs|hex ds|e|bs] [|d0 r0]]; cbn [text_store stored_val] in Hs; try contradiction.
  - (* one literal *)
    destruct (has_cr bs) eqn:Ecr; cbn [stored_val] in Hs; [contradiction|].
    destruct s as [ls le]. cbn [sl_start sl_end] in Hs. injection Hs as -> ->.
    cbn [T.r_pieces flat_map T.r_piece run_head_len lead_len] in *. rewrite app_nil_r in Ho.
    split.
    + left. cbn [sl_start sl_end]. f_equal. unfold nlen. lia.
    + exists [T.PLit bs]. split; [exact Hin'|].
      unfold slice_bytes. cbn [sl_start sl_end]. rewrite (occ_sub _ _ _ Ho).
      assert (Hw : T.wf_item (T.IText [T.PLit bs]) = true).
      { pose proof (tdoc_items_wf c Hwf) as HW. rewrite Forall_forall in HW. apply HW. exact Hin'. }
      cbn [T.wf_item] in Hw. unfold T.wf_text in Hw. rewrite !andb_true_iff in Hw. destruct Hw as [[_ H1] H2].
      rewrite (text_sem_segs _ H1 H2). cbn [segs map seg_sem concat T.piece_chunks flat_map]. rewrite !app_nil_r.
      rewrite decode_lits. unfold has_cr in Ecr. rewrite norm_eol_nocr by exact Ecr. reflexivity.
  - (* one CDATA section *)
    destruct (has_cr bs) eqn:Ecr; cbn [stored_val] in Hs; [contradiction|].
    destruct s as [ls le]. cbn [sl_start sl_end] in Hs. injection Hs as -> ->.
    cbn [T.r_pieces flat_map T.r_piece run_head_len] in *. rewrite app_nil_r in Ho.
    split.
    + right. rewrite (occ_sub _ _ _ Ho). change (p + 9) with (p + nlen T.cdata_open).
      rewrite (occ_slice _ _ _ _ _ Ho). reflexivity.
    + exists [T.PCData bs]. split; [exact Hin'|].
      change (p + 9) with (p + nlen T.cdata_open). rewrite (occ_slice _ _ _ _ _ Ho).
      assert (Hw : T.wf_item (T.IText [T.PCData bs]) = true).
      { pose proof (tdoc_items_wf c Hwf) as HW. rewrite Forall_forall in HW. apply HW. exact Hin'. }
      cbn [T.wf_item] in Hw. unfold T.wf_text in Hw. rewrite !andb_true_iff in Hw. destruct Hw as [[_ H1] H2].
      rewrite (text_sem_segs _ H1 H2). cbn [segs map seg_sem concat]. rewrite app_nil_r.
      unfold has_cr in Ecr. rewrite norm_eol_nocr by exact Ecr. reflexivity.
Qed.

End ShapesT.
Print Assumptions element_slice_shape_t.
Print Assumptions comment_slice_shape_t.
Print Assumptions pi_slice_shape_t.
Print Assumptions text_slice_shape_t.

(* attribute values: <a x="1" y='b&amp;c' z="t&#9;u"/> -- x is Borrowed with the span between its
   quotes, y and z are Owned with the normalised value; the value range is the raw text (references
   undecoded) in all three cases *)
Definition attr_doc : T.doc :=
  let mk n q v := {| T.a_ws := [32]; T.a_name := [n]; T.a_ws1 := []; T.a_ws2 := []; T.a_quote := q; T.a_value := v |} in
  {| T.d_before := []; T.d_ws0 := [];
     T.d_root := T.IElem [97]
       [ mk 120 34 [T.PLit [49]];
         mk 121 39 [T.PLit [98]; T.PPredef T.Amp; T.PLit [99]];
         mk 122 34 [T.PLit [116]; T.PCharRef false [57]; T.PLit [117]] ] [] None;
     T.d_after := []; T.d_ws_end := [] |}.
Example attr_doc_spans : T.wf_doc attr_doc = true /\
  map (fun s => (tas_value s, tas_store s)) (tattr_spans attr_doc) =
  [ ((6, 7), TBorrowed (6, 7)); ((12, 19), TOwned [98; 38; 99]); ((24, 30), TOwned [116; 9; 117]) ] /\
  match parse (T.render attr_doc) default_options with
  | Ok d => map ad_value (d_attrs d) =
            [ Borrowed (SIn {| sl_start := 6; sl_end := 7 |}); Owned [98; 38; 99]; Owned [116; 9; 117] ]
  | _ => False
  end.
Proof. vm_compute. repeat split; reflexivity. Qed.
