(* Proofs/WfParseTok.v -- C08 lifted to a whole run, part 1: every token the tokenizer hands to
   its callback is lexically well formed ([token_wf]): comment bodies, PI contents, text, CDATA,
   entity values and raw attribute values consist of XML Chars; comments have no "--"; PI targets
   are Names; element and attribute local names are NCNames.  Whatever the callback, and whatever
   the stream the tokenizer is started on (a stream over an entity value included), as long as
   the stream walks over the text ([RestOk]). *)
From Coq Require Import String.
From Coq Require Import List Arith NArith Bool Lia ZifyBool ZifyN ZifyNat.
Import ListNotations.
From RX Require Import Generated.
From RX.Model Require Import Base CharClass Stream Tokenizer.
From RX.Proofs Require CharTablesProofs.
From RX.Proofs Require Import Tactics NoPanicUtf8 BorrowLocal RejectProofs.
Open Scope N_scope.

(* ------------------------------------------------------------------------------------------ *)
(* Runs of chars satisfying a predicate; Names and NCNames                                      *)

(* the first k bytes of l decode (decode1, repeatedly) to code points satisfying P *)
Inductive run (P : N -> bool) : bytes -> N -> Prop :=
| run_0 l : run P l 0
| run_step l c n k : decode1 l = Some (c, n) -> P c = true ->
    run P (skipn (N.to_nat n) l) k -> run P l (n + k).

Lemma run_chars l k : run char_is_char l k <-> chars_upto l k.
Proof.
  split; induction 1; try constructor; econstructor; eauto.
Qed.

Lemma all_chars_run l : all_chars l <-> run char_is_char l (blen l).
Proof. unfold all_chars. symmetry. apply run_chars. Qed.

Lemma run_mono (P Q : N -> bool) l k : (forall c, P c = true -> Q c = true) -> run P l k -> run Q l k.
Proof. intros HPQ. induction 1; [constructor|econstructor; eauto]. Qed.

Lemma run_firstn P l k : run P l k ->
  run P (firstn (N.to_nat k) l) k /\ (N.to_nat k <= length l)%nat.
Proof.
  induction 1 as [l|l c n k Hd Hc Hu [IH1 IH2]].
  - split; [constructor|cbn; lia].
  - destruct (decode1_firstn l c n (N.to_nat (n + k)) Hd ltac:(lia)) as (Hd' & Hn).
    rewrite skipn_length in IH2. split; [|lia].
    econstructor; [exact Hd'|exact Hc|]. rewrite skipn_firstn_comm.
    replace (N.to_nat (n + k) - N.to_nat n)%nat with (N.to_nat k) by lia. exact IH1.
Qed.

Lemma run_trans P l k k' : run P l k -> run P (skipn (N.to_nat k) l) k' -> run P l (k + k').
Proof.
  induction 1 as [l|l c n k Hd Hc Hu IH]; intros H2.
  - exact H2.
  - replace (n + k + k') with (n + (k + k')) by lia. econstructor; [exact Hd|exact Hc|].
    apply IH. rewrite RejectProofs.skipn_skipn'.
    replace (N.to_nat n + N.to_nat k)%nat with (N.to_nat (n + k)) by lia. exact H2.
Qed.

Lemma decode1_app l r c n : decode1 l = Some (c, n) -> decode1 (l ++ r) = Some (c, n).
Proof.
  intros H. destruct (decode1_struct _ _ _ H) as (x & cs & r0 & -> & _ & _ & _ & _ & Hd).
  cbn [app]. rewrite <- app_assoc. apply Hd.
Qed.

Lemma run_app P l1 l2 k : run P l1 (blen l1) -> run P l2 k -> run P (l1 ++ l2) (blen l1 + k).
Proof.
  intros H1 H2. remember (blen l1) as k1 eqn:Ek. revert Ek.
  induction H1 as [l|l c n k0 Hd Hc Hu IH]; intros Ek.
  - assert (l = []) by (destruct l; [reflexivity|unfold blen in Ek; cbn in Ek; lia]). subst. exact H2.
  - destruct (decode1_firstn l c n (N.to_nat n) Hd ltac:(lia)) as (_ & Hn).
    replace (n + k0 + k) with (n + (k0 + k)) by lia.
    econstructor; [apply decode1_app; exact Hd|exact Hc|].
    rewrite skipn_app. replace (N.to_nat n - length l)%nat with 0%nat by lia. cbn [skipn].
    apply IH. unfold blen in *. rewrite skipn_length. lia.
Qed.

Lemma all_chars_app l1 l2 : all_chars l1 -> all_chars l2 -> all_chars (l1 ++ l2).
Proof.
  rewrite !all_chars_run. intros H1 H2.
  replace (blen (l1 ++ l2)) with (blen l1 + blen l2) by (unfold blen; rewrite app_length; lia).
  apply run_app; assumption.
Qed.

Lemma all_chars_nil : all_chars [].
Proof. constructor. Qed.

Definition ncname_char (c : N) : bool := char_is_name c && negb (c =? 58).

(* [5] Name: a NameStartChar followed by NameChars *)
Definition is_name (l : bytes) : Prop :=
  exists c n, decode1 l = Some (c, n) /\ char_is_name_start c = true /\ n <= blen l /\
              run char_is_name (skipn (N.to_nat n) l) (blen l - n).

(* [4] NCName (Namespaces in XML): a Name without ':' *)
Definition is_ncname (l : bytes) : Prop :=
  exists c n, decode1 l = Some (c, n) /\ char_is_name_start c = true /\ c <> 58 /\ n <= blen l /\
              run ncname_char (skipn (N.to_nat n) l) (blen l - n).

Lemma ncname_is_name l : is_ncname l -> is_name l.
Proof.
  intros (c & n & Hd & Hs & _ & Hn & Hr). exists c, n. repeat split; auto.
  eapply run_mono; [|exact Hr]. unfold ncname_char. intros x Hx.
  apply andb_true_iff in Hx. tauto.
Qed.

(* a decoded first char and a run after it, cut at the end of the run *)
Lemma head_run_firstn P l0 c n k : decode1 l0 = Some (c, n) -> run P (skipn (N.to_nat n) l0) k ->
  let l := firstn (N.to_nat (n + k)) l0 in
  decode1 l = Some (c, n) /\ blen l = n + k /\ run P (skipn (N.to_nat n) l) (blen l - n).
Proof.
  intros Hd Hr l.
  destruct (decode1_firstn l0 c n (N.to_nat (n + k)) Hd ltac:(lia)) as (Hd' & Hn).
  destruct (run_firstn _ _ _ Hr) as (Hr' & Hk). rewrite skipn_length in Hk.
  assert (Hl : blen l = n + k).
  { unfold blen, l. rewrite firstn_length_le by lia. lia. }
  split; [exact Hd'|]. split; [exact Hl|]. rewrite Hl. unfold l. rewrite skipn_firstn_comm.
  replace (N.to_nat (n + k) - N.to_nat n)%nat with (N.to_nat k) by lia.
  replace (n + k - n) with k by lia. exact Hr'.
Qed.

Lemma char_is_name_ascii x : (x <? 128) = true -> char_is_name x = byte_is_name x.
Proof.
  intros H. unfold char_is_name, char_name_ascii_cut.
  assert ((x <? 129) = true) as -> by lia. rewrite N.mod_small by lia. reflexivity.
Qed.

Lemma char_is_name_start_ascii x : (x <? 128) = true -> char_is_name_start x = byte_is_name_start x.
Proof.
  intros H. unfold char_is_name_start, char_name_start_ascii_cut.
  assert ((x <? 129) = true) as -> by lia. rewrite N.mod_small by lia. reflexivity.
Qed.

Lemma ncname_intro l0 k : run ncname_char l0 k ->
  str_is_name_start (firstn (N.to_nat k) l0) = true -> is_ncname (firstn (N.to_nat k) l0).
Proof.
  intros Hr Hs. inversion Hr as [l|l c n k' Hd Hc Hu]; subst.
  { cbn in Hs. discriminate. }
  destruct (head_run_firstn _ _ _ _ _ Hd Hu) as (Hd' & Hl & Hr').
  apply andb_true_iff in Hc. destruct Hc as [Hc1 Hc2].
  exists c, n. split; [exact Hd'|]. split; [|split; [lia|split; [lia|exact Hr']]].
  unfold str_is_name_start in Hs.
  destruct (firstn (N.to_nat (n + k')) l0) as [|x r] eqn:El; [discriminate|].
  destruct (x <? 128) eqn:Ex.
  - rewrite decode1_ascii in Hd' by exact Ex. inversion Hd'; subst.
    rewrite char_is_name_start_ascii by exact Ex. exact Hs.
  - rewrite Hd' in Hs. exact Hs.
Qed.

(* ------------------------------------------------------------------------------------------ *)
(* Stream primitives                                                                            *)

Section Stream.
Variable text : bytes.
Notation R := (RestOk text).
Notation sb := (slice_bytes text).

Lemma RestOk_from_substr a e : okP (stream_from_substr text a e) R.
Proof.
  intros s H. unfold stream_from_substr in H. destruct ((e <? a) || (tlen text <? e)); [discriminate|].
  inversion H; subst. reflexivity.
Qed.

Lemma advance_okP n s : R s -> okP (advance n s) R.
Proof. intros Hr s' H. eapply advance_rest'; eauto. Qed.

Lemma skip_string_okP p s : R s -> okP (skip_string text p s) R.
Proof.
  intros Hr s' H. unfold skip_string in H. destruct (negb (starts_with s p)); [noerr|].
  eapply advance_rest'; eauto.
Qed.

Lemma consume_byte_okP c s : R s -> okP (consume_byte text c s) R.
Proof. intros Hr s' H. eapply consume_byte_rest; eauto. Qed.

Lemma consume_spaces_okP s : R s -> okP (consume_spaces text s) R.
Proof. intros Hr s' H. eapply consume_spaces_rest; eauto. Qed.

Lemma consume_eq_okP s : R s -> okP (consume_eq text s) R.
Proof. intros Hr s' H. eapply consume_eq_rest; eauto. Qed.

Lemma consume_quote_okP s : R s -> okP (consume_quote text s) (fun p => R (snd p)).
Proof. intros Hr [q s'] H. eapply consume_quote_rest; eauto. Qed.

Lemma advance_until2_okP a c s : R s -> okP (advance_until2 a c s) R.
Proof. intros Hr s' H. apply (advance_until2_no _ _ _ _ _ Hr H). Qed.

Lemma try_consume_byte_rest c s b0 s' : try_consume_byte c s = (b0, s') -> R s -> R s'.
Proof.
  unfold try_consume_byte. intros H Hr.
  destruct (curr_byte_opt s) as [x|]; [|inversion H; subst; exact Hr].
  destruct (x =? c); [|inversion H; subst; exact Hr].
  destruct (advance 1 s) as [s1| | |] eqn:E; inversion H; subst; try exact Hr.
  eapply advance_rest'; eauto.
Qed.

Lemma skip_spaces_rest s : R s -> R (skip_spaces s).
Proof. apply skip_bytes_rest. Qed.

Lemma mk_slice_eqP a e : okP (mk_slice text a e) (fun sl => sl = {| sl_start := a; sl_end := e |}).
Proof. intros sl H. eapply mk_slice_ok; eauto. Qed.

Lemma slice_back_eqP a s :
  okP (slice_back text a s) (fun sl => sl = {| sl_start := a; sl_end := s_pos s |}).
Proof. apply mk_slice_eqP. Qed.

Lemma consume_bytes_okP f s : R s -> okP (consume_bytes text f s) (fun p => R (snd p)).
Proof.
  intros Hr [sl s'] H. unfold consume_bytes in H. ib H sl1 H1. inversion H; subst.
  cbn [snd]. apply skip_bytes_rest; exact Hr.
Qed.

Lemma skip_chars_loop_rest f : forall fu s s', skip_chars_loop text fu f s = Ok s' -> R s -> R s'.
Proof.
  induction fu as [|fu IH]; intros s s' H Hr; cbn [skip_chars_loop] in H; [noerr|].
  ib H oc Ho. destruct oc as [[c n]|]; [|inversion H; subst; exact Hr].
  destruct (negb (char_is_char c)); [noerr|].
  destruct (f s c); [|inversion H; subst; exact Hr].
  ib H s1 H1. eapply IH; [exact H|]. eapply advance_rest'; eauto.
Qed.

Lemma skip_chars_okP f s : R s -> okP (skip_chars text f s) R.
Proof. intros Hr s' H. eapply skip_chars_loop_rest; eauto. Qed.

Lemma consume_chars_wf f s : R s ->
  okP (consume_chars text f s)
      (fun p => all_chars (sb (fst p)) /\
                fst p = {| sl_start := s_pos s; sl_end := s_pos (snd p) |} /\ R (snd p)).
Proof.
  intros Hr [sl s'] H. cbn [fst snd]. split; [eapply consume_chars_only_chars; eauto|].
  unfold consume_chars in H. ib H s1 H1. ib H sl1 H2. inversion H; subst.
  split; [eapply mk_slice_ok; exact H2|]. eapply skip_chars_loop_rest; eauto.
Qed.

Lemma next_char_some s c n : next_char s = Ok (Some (c, n)) -> decode1 (s_rest s) = Some (c, n).
Proof.
  unfold next_char. destruct (at_end s); [discriminate|].
  destruct (decode1 (s_rest s)) as [[c0 n0]|]; [|discriminate].
  destruct (s_end s <? s_pos s + n0); [discriminate|]. intros H; inversion H; reflexivity.
Qed.

Lemma skip_name_loop_run : forall fu s s', skip_name_loop fu s = Ok s' ->
  s_pos s <= s_pos s' /\ run char_is_name (s_rest s) (s_pos s' - s_pos s) /\ (R s -> R s').
Proof.
  induction fu as [|fu IH]; intros s s' H; cbn [skip_name_loop] in H; [noerr|].
  assert (Z : forall t : stream, s_pos t <= s_pos t /\ run char_is_name (s_rest t) (s_pos t - s_pos t) /\ (R t -> R t)).
  { intros t. split; [lia|]. split; [|auto]. replace (s_pos t - s_pos t) with 0 by lia. constructor. }
  ib H oc Ho. destruct oc as [[c n]|]; [|inversion H; subst; apply Z].
  apply next_char_some in Ho.
  destruct (char_is_name c) eqn:Ec; [|inversion H; subst; apply Z].
  ib H s1 H1. destruct (advance_ok _ _ _ H1) as (Hp & Hrest & _).
  destruct (IH _ _ H) as (Hle & Hrun & Hr). split; [lia|]. split.
  - replace (s_pos s' - s_pos s) with (n + (s_pos s' - s_pos s1)) by lia.
    econstructor; [exact Ho|exact Ec|]. rewrite <- Hrest. exact Hrun.
  - intros Hs. apply Hr. eapply advance_rest'; eauto.
Qed.

(* the shape of a successful skip_name that moved *)
Lemma skip_name_run s s' : skip_name text s = Ok s' ->
  (s' = s) \/
  (exists c n, decode1 (s_rest s) = Some (c, n) /\ char_is_name_start c = true /\
     exists k, s_pos s' = s_pos s + n + k /\ run char_is_name (skipn (N.to_nat n) (s_rest s)) k /\
               (R s -> R s')).
Proof.
  unfold skip_name. intros H. ib H oc Ho. destruct oc as [[c n]|]; [|inversion H; auto].
  apply next_char_some in Ho. destruct (char_is_name_start c) eqn:Ec; [|noerr].
  ib H s1 H1. destruct (advance_ok _ _ _ H1) as (Hp & Hrest & _).
  destruct (skip_name_loop_run _ _ _ H) as (Hle & Hrun & Hr).
  right. exists c, n. split; [exact Ho|]. split; [exact Ec|].
  exists (s_pos s' - s_pos s1). split; [lia|]. split; [rewrite <- Hrest; exact Hrun|].
  intros Hs. apply Hr. eapply advance_rest'; eauto.
Qed.

Lemma skip_name_okP s : R s -> okP (skip_name text s) R.
Proof.
  intros Hr s' H. destruct (skip_name_run _ _ H) as [->|(c & n & _ & _ & k & _ & _ & Hk)]; auto.
Qed.

Lemma consume_name_wf s : R s ->
  okP (consume_name text s) (fun p => is_name (sb (fst p)) /\ R (snd p)).
Proof.
  intros Hr [nm s'] H. cbn [fst snd]. unfold consume_name in H. ib H s1 H1. ib H sl H2.
  unfold slice_back in H2. apply mk_slice_ok in H2. subst sl.
  destruct (slice_len {| sl_start := s_pos s; sl_end := s_pos s1 |} =? 0) eqn:El; [noerr|].
  inversion H; subst. unfold slice_len in El. cbn [sl_start sl_end] in El.
  destruct (skip_name_run _ _ H1) as [->|(c & n & Hd & Hc & k & Hp & Hrun & Hr')]; [lia|].
  split; [|auto]. unfold slice_bytes, sub. cbn [sl_start sl_end]. rewrite <- Hr.
  replace (s_pos s' - s_pos s) with (n + k) by lia.
  destruct (head_run_firstn _ _ _ _ _ Hd Hrun) as (Hd' & Hl & Hr'').
  exists c, n. split; [exact Hd'|]. split; [exact Hc|]. split; [lia|exact Hr''].
Qed.

(* ---- qualified names: needs the validity of the text (an overlong ':' would be a NameChar) *)
Hypothesis Hvalid : valid_utf8_b text = true.

Lemma decode1_nonascii_not_colon s x r c n :
  R s -> s_rest s = x :: r -> (x <? 128) = false -> decode1 (s_rest s) = Some (c, n) -> c <> 58.
Proof.
  intros Hr Hs Hx Hd Hc. subst c. unfold RestOk in Hr. rewrite Hr in Hs, Hd.
  destruct (decode1_struct _ _ _ Hd) as (x' & cs & r' & El & Hnc & _).
  rewrite Hs in El. inversion El; subst x'.
  pose proof (Boundary_noncont text (s_pos s) x r Hs Hnc) as Hb.
  assert (Hp : s_pos s < blen text).
  { unfold blen. assert (N.to_nat (s_pos s) < length text)%nat; [|lia].
    destruct (Nat.lt_ge_cases (N.to_nat (s_pos s)) (length text)); auto.
    rewrite skipn_all2 in Hs by lia. discriminate. }
  destruct (char_at text Hvalid (s_pos s) Hb Hp) as (c' & n' & Hd' & Hn' & _ & _ & _ & _ & _ & Henc).
  rewrite Hd in Hd'. inversion Hd'; subst c' n'. rewrite Hs in Henc.
  change (encode_utf8 58) with [58] in Henc.
  destruct (N.to_nat n) eqn:En; [lia|]. cbn [firstn] in Henc. inversion Henc. subst x. discriminate.
Qed.

Lemma consume_qname_loop_run : forall fu start spl s spl' s',
  R s -> consume_qname_loop text fu start spl s = Ok (spl', s') ->
  s_pos s <= s_pos s' /\
  match spl with
  | Some sp => spl' = Some sp /\ run ncname_char (s_rest s) (s_pos s' - s_pos s)
  | None =>
    match spl' with
    | None => run ncname_char (s_rest s) (s_pos s' - s_pos s)
    | Some sp => s_pos s <= sp /\ sp + 1 <= s_pos s' /\
                 run ncname_char (skipn (N.to_nat (sp + 1)) text) (s_pos s' - (sp + 1))
    end
  end.
Proof.
  induction fu as [|fu IH]; intros start spl s spl' s' Hr H; cbn [consume_qname_loop] in H; [noerr|].
  assert (Z : forall P (t : stream), run P (s_rest t) (s_pos t - s_pos t)).
  { intros P t. replace (s_pos t - s_pos t) with 0 by lia. constructor. }
  destruct (at_end s).
  { inversion H; subst. split; [lia|]. destruct spl'; [split; [reflexivity|apply Z]|apply Z]. }
  ib H x Hx. unfold curr_byte_unchecked in Hx. destruct (s_rest s) as [|x0 r0] eqn:Es; [discriminate|].
  inversion Hx; subst x0. clear Hx. rewrite <- Es.
  (* one more name char, then the rest *)
  assert (STEP : forall c n s1, decode1 (s_rest s) = Some (c, n) -> ncname_char c = true ->
            advance n s = Ok s1 ->
            consume_qname_loop text fu start spl s1 = Ok (spl', s') ->
            s_pos s <= s_pos s' /\
            match spl with
            | Some sp => spl' = Some sp /\ run ncname_char (s_rest s) (s_pos s' - s_pos s)
            | None =>
              match spl' with
              | None => run ncname_char (s_rest s) (s_pos s' - s_pos s)
              | Some sp => s_pos s <= sp /\ sp + 1 <= s_pos s' /\
                           run ncname_char (skipn (N.to_nat (sp + 1)) text) (s_pos s' - (sp + 1))
              end
            end).
  { intros c n s1 Hd Hc H1 H2. destruct (advance_ok _ _ _ H1) as (Hp & Hrest & _).
    assert (Hr1 : R s1) by (eapply advance_rest'; eauto).
    destruct (IH _ _ _ _ _ Hr1 H2) as (Hle & Hm). split; [lia|].
    assert (RS : run ncname_char (s_rest s1) (s_pos s' - s_pos s1) ->
                 run ncname_char (s_rest s) (s_pos s' - s_pos s)).
    { intros Hrun. replace (s_pos s' - s_pos s) with (n + (s_pos s' - s_pos s1)) by lia.
      econstructor; [exact Hd|exact Hc|]. rewrite <- Hrest. exact Hrun. }
    destruct spl as [sp|].
    - destruct Hm as [-> Hrun]. split; [reflexivity|auto].
    - destruct spl' as [sp|]; [|auto]. destruct Hm as (A & B & C). repeat split; auto; lia. }
  destruct (x <? 128) eqn:Ex.
  - destruct (x =? 58) eqn:E58.
    + destruct spl as [sp|]; [noerr|]. ib H s1 H1.
      destruct (advance_ok _ _ _ H1) as (Hp & Hrest & _).
      assert (Hr1 : R s1) by (eapply advance_rest'; eauto).
      destruct (IH _ _ _ _ _ Hr1 H) as (Hle & -> & Hrun). split; [lia|].
      split; [lia|]. split; [lia|]. unfold RestOk in Hr1. rewrite Hr1, Hp in Hrun. exact Hrun.
    + destruct (byte_is_name x) eqn:Eb.
      * ib H s1 H1. eapply STEP; [rewrite Es; apply decode1_ascii; exact Ex| |exact H1|exact H].
        unfold ncname_char. rewrite char_is_name_ascii by exact Ex. rewrite Eb, E58. reflexivity.
      * inversion H; subst. split; [lia|]. destruct spl'; [split; [reflexivity|apply Z]|apply Z].
  - ib H oc Ho. destruct oc as [[c n]|].
    2:{ inversion H; subst. split; [lia|]. destruct spl'; [split; [reflexivity|apply Z]|apply Z]. }
    apply next_char_some in Ho.
    destruct (char_is_name c) eqn:Ec.
    2:{ inversion H; subst. split; [lia|]. destruct spl'; [split; [reflexivity|apply Z]|apply Z]. }
    ib H s1 H1. eapply STEP; [exact Ho| |exact H1|exact H].
    unfold ncname_char. rewrite Ec. cbn [andb].
    assert (c <> 58). { eapply decode1_nonascii_not_colon; eauto. }
    lia.
Qed.

Lemma consume_qname_wf s : R s ->
  okP (consume_qname text s) (fun p => is_ncname (sb (snd (fst p))) /\ R (snd p)).
Proof.
  intros Hr [[p l] s'] H. cbn [fst snd]. split; [|eapply consume_qname_rest; eauto].
  unfold consume_qname in H. ib H q Hq. destruct q as [spl s1]. ib H pl Hpl. destruct pl as [p0 l0].
  destruct (negb (slice_len p0 =? 0) && negb (str_is_name_start (slice_bytes text p0))); [noerr|].
  destruct (str_is_name_start (slice_bytes text l0)) eqn:Es; cbn [negb] in H; [|noerr].
  inversion H; subst p0 l0 s1. clear H.
  destruct (consume_qname_loop_run _ _ _ _ _ _ Hr Hq) as (Hle & Hm).
  destruct spl as [sp|].
  - ib Hpl p1 Hp1. ib Hpl l1 Hl1. inversion Hpl; subst p1 l1.
    unfold slice_back in Hl1. apply mk_slice_ok in Hl1. subst l.
    destruct Hm as (A & B & Hrun). unfold slice_bytes, sub in *. cbn [sl_start sl_end] in *.
    apply ncname_intro; assumption.
  - ib Hpl l1 Hl1. ib Hpl p1 Hp1. inversion Hpl; subst p1 l1.
    unfold slice_back in Hl1. apply mk_slice_ok in Hl1. subst l.
    unfold slice_bytes, sub in *. cbn [sl_start sl_end] in *. rewrite <- Hr in *.
    apply ncname_intro; assumption.
Qed.

End Stream.

(* the NCName property is stated under the validity of the text, so that the token invariant
   itself needs no hypothesis *)
Definition ncname_if_valid (text l : bytes) : Prop := valid_utf8_b text = true -> is_ncname l.

Lemma consume_qname_wf' text s : RestOk text s ->
  okP (consume_qname text s)
      (fun p => ncname_if_valid text (slice_bytes text (snd (fst p))) /\ RestOk text (snd p)).
Proof.
  intros Hr p H. split.
  - intros Hv. exact (proj1 (consume_qname_wf text Hv s Hr p H)).
  - destruct p as [[p0 l0] s']. eapply consume_qname_rest; eauto.
Qed.

(* ------------------------------------------------------------------------------------------ *)
(* is_xml_str                                                                                   *)

Lemma byte_is_char_char x : (x <? 128) = true -> byte_is_char x = true -> char_is_char x = true.
Proof.
  intros Hx H. destruct (CharTablesProofs.byte_char_agree x ltac:(lia)) as (E & _).
  rewrite <- E. exact H.
Qed.

Lemma is_xml_str_ascii_chars text : forall l i u, forallb (fun x => x <? 128) l = true ->
  is_xml_str_ascii text l i = Ok u -> all_chars l.
Proof.
  induction l as [|x l IH]; intros i u Ha H; [constructor|].
  cbn [forallb] in Ha. apply andb_true_iff in Ha. destruct Ha as [Hx Ha].
  cbn [is_xml_str_ascii] in H. destruct (byte_is_char x) eqn:Eb; cbn [negb] in H; [|noerr].
  change (x :: l) with ([x] ++ l). apply all_chars_app; [|eapply IH; eauto].
  unfold all_chars. change (blen [x]) with (1 + 0). econstructor.
  - apply decode1_ascii. exact Hx.
  - apply byte_is_char_char; assumption.
  - constructor.
Qed.

Lemma is_xml_str_unicode_chars text : forall fu l i u,
  is_xml_str_unicode text fu l i = Ok u -> all_chars l.
Proof.
  induction fu as [|fu IH]; intros l i u H; cbn [is_xml_str_unicode] in H; [noerr|].
  destruct l as [|x l]; [constructor|].
  destruct (decode1 (x :: l)) as [[c n]|] eqn:Ed; [|noerr].
  destruct (char_is_char c) eqn:Ec; cbn [negb] in H; [|noerr].
  apply IH in H. destruct (decode1_firstn _ _ _ (N.to_nat n) Ed ltac:(lia)) as (_ & Hn).
  unfold all_chars in *.
  replace (blen (x :: l)) with (n + blen (skipn (N.to_nat n) (x :: l)))
    by (unfold blen; rewrite skipn_length; lia).
  econstructor; eauto.
Qed.

Lemma is_xml_str_wf text sl vs : okP (is_xml_str text sl vs) (fun _ => all_chars (slice_bytes text sl)).
Proof.
  intros u H. unfold is_xml_str in H.
  destruct (forallb (fun x => x <? 128) (slice_bytes text sl)) eqn:Ea.
  - eapply is_xml_str_ascii_chars; eauto.
  - eapply is_xml_str_unicode_chars; eauto.
Qed.

(* ------------------------------------------------------------------------------------------ *)
(* Well-formed tokens                                                                           *)

Definition token_wf (text : bytes) (tok : token) : Prop :=
  let sb := slice_bytes text in
  match tok with
  | TPI target content _ =>
    is_name (sb target) /\ match content with Some v => all_chars (sb v) | None => True end
  | TComment t _ =>
    all_chars (sb t) /\ contains_b (b "--") (sb t) = false /\ ends_with_byte 45 (sb t) = false
  | TEntityDecl _ value => all_chars (sb value)
  | TElementStart _ local _ => ncname_if_valid text (sb local)
  | TAttribute _ _ _ _ local value => ncname_if_valid text (sb local) /\ all_chars (sb value)
  | TElementEnd _ _ => True
  | TText t r => all_chars (sb t) /\ r = (sl_start t, sl_end t)
  | TCdata t _ => all_chars (sb t)
  end.

Section Tok.
Variable text : bytes.
Variable C : Type.
Variable ev : token -> C -> res C.
Variable P : C -> Prop.
Hypothesis Hev : forall tok c0 c1, token_wf text tok -> P c0 -> ev tok c0 = Ok c1 -> P c1.

Notation R := (RestOk text).

Lemma ev_wfP tok c : token_wf text tok -> P c -> okP (ev tok c) P.
Proof. intros Ht Hc c1 H. exact (Hev tok c c1 Ht Hc H). Qed.

Definition PS (r : stream * C) : Prop := R (fst r) /\ P (snd r).
Definition PE (r : bool * stream * C) : Prop := R (snd (fst r)) /\ P (snd r).

Hint Resolve skip_spaces_rest skip_bytes_rest try_consume_byte_rest : rest.

Ltac fin :=
  unfold PS, PE in *; cbv beta in *; cbn [fst snd token_wf] in *; subst; cbn [sl_start sl_end fst snd] in *;
  repeat match goal with H : _ /\ _ |- _ => destruct H end;
  repeat match goal with |- context [if ?b then _ else _] => destruct b end;
  repeat match goal with |- _ /\ _ => split end;
  eauto 6 with rest.

Ltac sspec :=
  first [ apply advance_okP; solve [fin]
        | apply skip_string_okP; solve [fin]
        | apply consume_byte_okP; solve [fin]
        | apply consume_spaces_okP; solve [fin]
        | apply consume_eq_okP; solve [fin]
        | apply consume_quote_okP; solve [fin]
        | apply advance_until2_okP; solve [fin]
        | apply consume_bytes_okP; solve [fin]
        | apply skip_chars_okP; solve [fin]
        | apply consume_chars_wf; solve [fin]
        | apply skip_name_okP; solve [fin]
        | apply consume_name_wf; solve [fin]
        | apply consume_qname_wf'; solve [fin]
        | apply slice_back_eqP
        | apply mk_slice_eqP
        | apply is_xml_str_wf
        | apply ev_wfP; [solve [fin] | solve [fin]] ].

Ltac go := repeat ok_step sspec; fin.

Lemma parse_comment_wf s c : R s -> P c -> okP (parse_comment text C ev s c) PS.
Proof. intros Hr Hc. unfold parse_comment. go. Qed.

Lemma parse_pi_wf s c : R s -> P c -> okP (parse_pi text C ev s c) PS.
Proof. intros Hr Hc. unfold parse_pi. go. Qed.

Lemma parse_misc_loop_wf : forall fuel s c, R s -> P c -> okP (parse_misc_loop text C ev fuel s c) PS.
Proof.
  induction fuel as [|fu IH]; intros s c Hr Hc; cbn [parse_misc_loop]; [apply okP_fuel|].
  repeat ok_step ltac:(first [ apply parse_comment_wf; solve [fin] | apply parse_pi_wf; solve [fin]
                             | apply IH; solve [fin] ]); fin.
Qed.

Lemma parse_misc_wf s c : R s -> P c -> okP (parse_misc text C ev s c) PS.
Proof. apply parse_misc_loop_wf. Qed.

Lemma parse_attribute_wf s : R s -> okP (parse_attribute text s) (fun p => R (snd p)).
Proof. intros Hr. unfold parse_attribute. go. Qed.

Lemma parse_pseudo_attribute_wf name s : R s -> okP (parse_pseudo_attribute text name s) R.
Proof.
  intros Hr. unfold parse_pseudo_attribute.
  repeat ok_step ltac:(first [ apply parse_attribute_wf; solve [fin] | sspec ]); fin.
Qed.

Lemma decl_consume_spaces_wf s : R s -> okP (decl_consume_spaces text s) R.
Proof. intros Hr. unfold decl_consume_spaces. go. Qed.

Lemma parse_declaration_wf s : R s -> okP (parse_declaration text s) R.
Proof.
  intros Hr. unfold parse_declaration.
  repeat ok_step ltac:(first [ apply parse_pseudo_attribute_wf; solve [fin]
                             | apply decl_consume_spaces_wf; solve [fin] | sspec ]); fin.
Qed.

Lemma parse_external_literal_wf s : R s -> okP (parse_external_literal text s) R.
Proof. intros Hr. unfold parse_external_literal. go. Qed.

Lemma parse_pubid_literal_wf s : R s -> okP (parse_pubid_literal text s) R.
Proof. intros Hr. unfold parse_pubid_literal. go. Qed.

Lemma parse_external_id_wf s : R s -> okP (parse_external_id text s) (fun p => R (snd p)).
Proof.
  intros Hr. unfold parse_external_id.
  repeat ok_step ltac:(first [ apply parse_external_literal_wf; solve [fin]
                             | apply parse_pubid_literal_wf; solve [fin] | sspec ]); fin.
Qed.

Lemma parse_entity_def_wf s is_ge : R s ->
  okP (parse_entity_def text s is_ge)
      (fun p => match fst p with Some v => all_chars (slice_bytes text v) | None => True end /\
                R (snd p)).
Proof.
  intros Hr. unfold parse_entity_def.
  repeat ok_step ltac:(first [ apply parse_external_id_wf; solve [fin] | sspec ]); fin.
Qed.

Lemma parse_entity_decl_wf s c : R s -> P c -> okP (parse_entity_decl text C ev s c) PS.
Proof.
  intros Hr Hc. unfold parse_entity_decl.
  repeat ok_step ltac:(first [ apply parse_entity_def_wf; solve [fin] | sspec ]); fin.
Qed.

Lemma consume_decl_loop_wf : forall fuel s, R s -> okP (consume_decl_loop text fuel s) R.
Proof.
  induction fuel as [|fu IH]; intros s Hr; cbn [consume_decl_loop]; [apply okP_fuel|].
  repeat ok_step ltac:(first [ apply IH; solve [fin] | sspec ]); fin.
Qed.

Lemma consume_decl_wf s : R s -> okP (consume_decl text s) R.
Proof. intros Hr. unfold consume_decl. apply consume_decl_loop_wf. exact Hr. Qed.

Lemma parse_doctype_start_wf s : R s -> okP (parse_doctype_start text s) R.
Proof.
  intros Hr. unfold parse_doctype_start.
  repeat ok_step ltac:(first [ apply parse_external_id_wf; solve [fin] | sspec ]); fin.
Qed.

Lemma parse_doctype_loop_wf : forall fuel start s c, R s -> P c ->
  okP (parse_doctype_loop text C ev fuel start s c) PS.
Proof.
  induction fuel as [|fu IH]; intros start s c Hr Hc; cbn [parse_doctype_loop]; [apply okP_fuel|].
  repeat ok_step ltac:(first [ apply parse_comment_wf; solve [fin] | apply parse_pi_wf; solve [fin]
                             | apply parse_entity_decl_wf; solve [fin]
                             | apply IH; solve [fin] | sspec ]).
  all: try solve [fin].
  (* consume_decl *)
  all: apply IH; [eapply consume_decl_wf; [|eassumption]; fin|assumption].
Qed.

Lemma parse_doctype_wf s c : R s -> P c -> okP (parse_doctype text C ev s c) PS.
Proof.
  intros Hr Hc. unfold parse_doctype.
  repeat ok_step ltac:(first [ apply parse_doctype_start_wf; solve [fin]
                             | apply parse_doctype_loop_wf; solve [fin] | sspec ]); fin.
Qed.

Lemma parse_element_loop_wf : forall fuel tag_start s c, R s -> P c ->
  okP (parse_element_loop text C ev fuel tag_start s c) PE.
Proof.
  induction fuel as [|fu IH]; intros tag_start s c Hr Hc; cbn [parse_element_loop]; [apply okP_fuel|].
  repeat ok_step ltac:(first [ apply IH; solve [fin] | sspec ]); fin.
Qed.

Lemma parse_element_wf s c : R s -> P c -> okP (parse_element text C ev s c) PE.
Proof.
  intros Hr Hc. unfold parse_element.
  repeat ok_step ltac:(first [ apply parse_element_loop_wf; solve [fin] | sspec ]); fin.
Qed.

Lemma parse_cdata_wf s c : R s -> P c -> okP (parse_cdata text C ev s c) PS.
Proof. intros Hr Hc. unfold parse_cdata. go. Qed.

Lemma parse_close_element_wf s c : R s -> P c -> okP (parse_close_element text C ev s c) PS.
Proof. intros Hr Hc. unfold parse_close_element. go. Qed.

Lemma parse_text_wf s c : R s -> P c -> okP (parse_text text C ev s c) PS.
Proof. intros Hr Hc. unfold parse_text. go. Qed.

Lemma parse_content_loop_wf : forall fuel depth s c, R s -> P c ->
  okP (parse_content_loop text C ev fuel depth s c) PS.
Proof.
  induction fuel as [|fu IH]; intros depth s c Hr Hc; cbn [parse_content_loop]; [apply okP_fuel|].
  repeat ok_step ltac:(first [ apply parse_comment_wf; solve [fin] | apply parse_pi_wf; solve [fin]
                             | apply parse_cdata_wf; solve [fin] | apply parse_close_element_wf; solve [fin]
                             | apply parse_element_wf; solve [fin] | apply parse_text_wf; solve [fin]
                             | apply IH; solve [fin] ]); fin.
Qed.

Lemma parse_content_wf s c : R s -> P c -> okP (parse_content text C ev s c) PS.
Proof. apply parse_content_loop_wf. Qed.

Lemma parse_document_wf dtd c : P c -> okP (parse_document text C ev dtd c) P.
Proof.
  intros Hc. unfold parse_document.
  assert (R0 : R (stream_new text)) by reflexivity.
  repeat ok_step ltac:(first [ apply parse_misc_wf; solve [fin] | apply parse_doctype_wf; solve [fin]
                             | apply parse_element_wf; solve [fin] | apply parse_content_wf; solve [fin]
                             | apply parse_declaration_wf; solve [fin] | sspec ]); fin.
Qed.

End Tok.

(* the tokenizer delivers only well-formed tokens, whatever the callback *)
Theorem tokenizer_tokens_wf : forall text (C : Type) (ev : token -> C -> res C) (P : C -> Prop) dtd c c',
  (forall tok c0 c1, token_wf text tok -> P c0 -> ev tok c0 = Ok c1 -> P c1) ->
  P c -> parse_document text C ev dtd c = Ok c' -> P c'.
Proof.
  intros text C ev P dtd c c' Hev Hc H.
  exact (parse_document_wf text C ev P Hev dtd c Hc c' H).
Qed.
Print Assumptions tokenizer_tokens_wf.

(* the same for the entry point the builder uses on the value of an entity *)
Theorem tokenizer_content_tokens_wf : forall text (C : Type) (ev : token -> C -> res C) (P : C -> Prop) s c s' c',
  (forall tok c0 c1, token_wf text tok -> P c0 -> ev tok c0 = Ok c1 -> P c1) ->
  RestOk text s -> P c -> parse_content text C ev s c = Ok (s', c') -> P c'.
Proof.
  intros text C ev P s c s' c' Hev Hr Hc H.
  exact (proj2 (parse_content_wf text C ev P Hev s c Hr Hc (s', c') H)).
Qed.
Print Assumptions tokenizer_content_tokens_wf.
