(* Proofs/CstSound6cFlat.v -- C08 soundness on stage S6, markup-valued entities whose TEXT contains references
   (character references, predefined references, general entity references): Proofs/CstSound6aFlat.v with
   [FText ps] carrying the PIECES of a run of character data (decoded at the declaration from P8' = amp_ok, by
   Proofs/CstSoundPEnt.v [ge_pieces]; a reference never crosses the '<' or the end of the literal that ends the
   run: [amp_cut]).  Attribute values inside the literal contain no '&': either the literal contains none at all
   ([strict] = false) or the callback of the run refuses an attribute token whose value contains one
   ([strict] = true: [pevc]). *)
From Coq Require Import String.
From Coq Require Import List Arith NArith Bool Lia ZifyBool ZifyN ZifyNat.
Import ListNotations.
From RX Require Import Generated.
From RX.Model Require Import Base CharClass Stream Tokenizer.
From RX.Spec Require Cst Chars CstU CstNs CstEnt.
From RX.Spec Require Import CstFull CstFullS4 CstFullS5 CstFullS6.
From RX.Proofs Require Import Tactics CstLex CstULex.
From RX.Proofs Require RejectProofs CstEntCLex CstFullS4Lex CstFullTree CstFullS6Text CstSoundBuild.
From RX.Proofs Require Import CstSound CstSoundLex CstSoundU CstSoundULex CstSoundT CstSoundTLex CstSoundTText CstSoundTMain CstSoundN CstSoundNLex CstSoundNText CstSoundNMain.
From RX.Proofs Require Import CstSoundP CstSoundPEnt CstSoundPLex CstSoundPRef CstSoundPRMain.
From RX.Proofs Require CstFullS3Plug.
From RX.Proofs Require Import CstSound6 CstSound6c CstSound6Lex CstSound6Tok CstSound6U CstSound6uLex CstSound6uDtd CstSound6Val.
Open Scope N_scope.

Inductive flat :=
| FOpen (pre loc : list N) (attrs : list rattr) (ws_end : bytes)
| FEmpty (pre loc : list N) (attrs : list rattr) (ws_end : bytes)
| FClose (pre loc : list N) (ws2 : bytes)
| FText (ps : list E.epiece)
| FCData (cs : list N)
| FComment (bs : list N)
| FPI (t : list N) (sep : bytes) (v : list N).

Definition r_flat1 (x : flat) : bytes :=
  match x with
  | FOpen pre loc attrs ws => [60] ++ rq pre loc ++ flat_map r_rattr attrs ++ ws ++ [62]
  | FEmpty pre loc attrs ws => [60] ++ rq pre loc ++ flat_map r_rattr attrs ++ ws ++ [47; 62]
  | FClose pre loc ws2 => [60; 47] ++ rq pre loc ++ ws2 ++ [62]
  | FText ps => E.r_epieces (enc_epieces ps)
  | FCData cs => [60; 33; 91; 67; 68; 65; 84; 65; 91] ++ utf8s cs ++ [93; 93; 62]
  | FComment bs => [60; 33; 45; 45] ++ utf8s bs ++ [45; 45; 62]
  | FPI t sep v => [60; 63] ++ utf8s t ++ sep ++ utf8s v ++ [63; 62]
  end.
Definition r_flat (fl : list flat) : bytes := flat_map r_flat1 fl.

Definition tag_toks (p : N) (pre loc : list N) (attrs : list rattr) (ws : bytes) (empty : bool) : list token :=
  nstart_tok p pre loc :: nattr_toks (p + 1 + blen (rq pre loc)) attrs ++
  [end_tok (p + 1 + blen (rq pre loc) + blen (flat_map r_rattr attrs) + blen ws) empty].
Definition ftok1 (p : N) (x : flat) : list token :=
  match x with
  | FOpen pre loc attrs ws => tag_toks p pre loc attrs ws false
  | FEmpty pre loc attrs ws => tag_toks p pre loc attrs ws true
  | FClose pre loc ws2 => [nclose_tok p pre loc ws2]
  | FText ps => [TText (sl p (p + blen (E.r_epieces (enc_epieces ps)))) (p, p + blen (E.r_epieces (enc_epieces ps)))]
  | FCData cs => [cdata_tok p (utf8s cs)]
  | FComment bs => [TComment (sl (p + 4) (p + 4 + blen (utf8s bs))) (p, p + 4 + blen (utf8s bs) + 3)]
  | FPI t sep v => [pi_tok p (utf8s t) sep (utf8s v)]
  end.
Fixpoint ftoks (p : N) (fl : list flat) : list token :=
  match fl with [] => [] | x :: r => ftok1 p x ++ ftoks (p + blen (r_flat1 x)) r end.

Lemma blen_flat1 x : blen (r_flat1 x) =
  match x with
  | FOpen pre loc attrs ws => 1 + blen (rq pre loc) + blen (flat_map r_rattr attrs) + blen ws + 1
  | FEmpty pre loc attrs ws => 1 + blen (rq pre loc) + blen (flat_map r_rattr attrs) + blen ws + 2
  | FClose pre loc ws2 => 2 + blen (rq pre loc) + blen ws2 + 1
  | FText ps => blen (E.r_epieces (enc_epieces ps))
  | FCData cs => 9 + blen (utf8s cs) + 3
  | FComment bs => 4 + blen (utf8s bs) + 3
  | FPI t sep v => 2 + blen (utf8s t) + blen sep + blen (utf8s v) + 2
  end.
Proof.
  destruct x; cbn [r_flat1]; rewrite ?blen_app; try reflexivity;
    change (blen [60]) with 1; change (blen [62]) with 1; change (blen [47; 62]) with 2; change (blen [60; 47]) with 2;
    change (blen [60; 33; 91; 67; 68; 65; 84; 65; 91]) with 9; change (blen [93; 93; 62]) with 3;
    change (blen [60; 33; 45; 45]) with 4; change (blen [45; 45; 62]) with 3; change (blen [60; 63]) with 2; change (blen [63; 62]) with 2; lia.
Qed.

Definition vnoamp (attrs : list rattr) : Prop := Forall (fun a => Forall (fun y => y <> 38) (utf8s (ra_val a))) attrs.
Lemma wf_ents_v attrs : Forall rattr_ok attrs -> vnoamp attrs -> forallb (wf_uentry_s true) (ents_of attrs) = true.
Proof.
  induction 1 as [|a r Ha _ IH]; intros H38; [reflexivity|]. inversion H38 as [|? ? Ha38 Hr38]; subst.
  cbn [ents_of map forallb]. fold (ents_of r). rewrite (IH Hr38), andb_true_r. apply wf_entry6; assumption.
Qed.

Definition flat_ok1 (x : flat) : Prop :=
  match x with
  | FOpen pre loc attrs ws | FEmpty pre loc attrs ws =>
    qn_ok pre loc /\ Forall rattr_ok attrs /\ Cst.wf_ws ws = true /\ vnoamp attrs
  | FClose pre loc ws2 => qn_ok pre loc /\ Cst.wf_ws ws2 = true
  | FText ps => (exists cs, raw_text_ok_n cs /\ utf8s cs = E.r_epieces (enc_epieces ps)) /\
                forallb (wf_uepiece 60 false true true) ps = true /\ E.no_adjacent_elit ps = true /\ ps <> []
  | FCData cs => uchars cs /\ contains_b [93; 93; 62] cs = false
  | FComment bs => CstU.wf_item (Cst.IComment bs) = true
  | FPI t sep v => CstU.wf_item (Cst.IPI t sep v) = true
  end.
Fixpoint flat_ok (fl : list flat) : Prop :=
  match fl with
  | [] => True
  | x :: r => flat_ok1 x /\ match x with FText _ => text_stop (r_flat r) | _ => True end /\ flat_ok r
  end.

(* ---- the items, from the end of the list ---- *)
Definition bstate : Type := (list lvl * list uitem)%type.
Definition bstep (x : flat) (s : bstate) : bstate :=
  match x with
  | FOpen pre loc attrs ws =>
    match fst s with
    | (cs_in, w_in) :: lv1 => upd_first (cons (IElem (mkq pre loc) (ents_of attrs) ws (Some (cs_in, w_in)))) lv1 (snd s)
    | [] => s
    end
  | FEmpty pre loc attrs ws => upd_first (cons (IElem (mkq pre loc) (ents_of attrs) ws None)) (fst s) (snd s)
  | FClose pre loc ws2 => (([], ws2) :: fst s, snd s)
  | FText ps => upd_first (cons_text_r ps) (fst s) (snd s)
  | FCData cs => upd_first (cons_text_r [E.EP (T.PCData cs)]) (fst s) (snd s)
  | FComment bs => upd_first (cons (@IComment epieces bs)) (fst s) (snd s)
  | FPI t sep v => upd_first (cons (@IPI epieces t sep v)) (fst s) (snd s)
  end.
Definition build (fl : list flat) : bstate := fold_right bstep ([], []) fl.

(* the tags are balanced under the open names [stk] (innermost first) *)
Fixpoint fbal (stk : list (bytes * bytes)) (fl : list flat) : Prop :=
  match fl with
  | [] => stk = []
  | FOpen pre loc _ _ :: r => fbal ((utf8s pre, utf8s loc) :: stk) r
  | FClose pre loc _ :: r => match stk with n :: stk' => n = (utf8s pre, utf8s loc) /\ fbal stk' r | [] => False end
  | _ :: r => fbal stk r
  end.

Lemma upd_first_len g lv last : length (fst (upd_first g lv last)) = length lv.
Proof. destruct lv as [|[cs w] lv']; reflexivity. Qed.

Lemma fbal_len : forall fl stk, fbal stk fl -> length (fst (build fl)) = length stk.
Proof.
  induction fl as [|x fl IH]; intros stk H; [cbn in *; subst; reflexivity|].
  destruct x; cbn [fbal] in H; cbn [build fold_right]; fold (build fl).
  - specialize (IH _ H). cbn [bstep]. destruct (fst (build fl)) as [|[ci wi] lv1] eqn:E; [discriminate|]. rewrite upd_first_len. cbn [length] in IH. lia.
  - cbn [bstep]. rewrite upd_first_len. exact (IH _ H).
  - destruct stk as [|n stk']; [contradiction|]. destruct H as [_ H]. cbn [bstep fst length]. rewrite (IH _ H). reflexivity.
  - cbn [bstep]. rewrite upd_first_len. exact (IH _ H).
  - cbn [bstep]. rewrite upd_first_len. exact (IH _ H).
  - cbn [bstep]. rewrite upd_first_len. exact (IH _ H).
  - cbn [bstep]. rewrite upd_first_len. exact (IH _ H).
Qed.

Definition LvOK (stk : list (bytes * bytes)) (s : bstate) (l : bytes) : Prop :=
  length (fst s) = length stk /\ l = r_lv stk (fst s) (snd s) /\
  Forall (fun cw : lvl => items_ok (fst cw) /\ Cst.wf_ws (snd cw) = true) (fst s) /\ items_ok (snd s) /\
  (text_stop l -> head_ok6 (first_of (fst s) (snd s))).

Lemma LvOK_base : LvOK [] ([], []) [].
Proof. split; [reflexivity|]. split; [reflexivity|]. split; [constructor|]. split; [split; reflexivity|]. intros _. exact I. Qed.

(* change the first list: [g] needs the head condition of the rest only if [hd] *)
Lemma LvOK_upd stk lv last l1 pre (g : list uitem -> list uitem) :
  (forall cs, X4.r_uitems (g cs) = pre ++ X4.r_uitems cs) ->
  length lv = length stk -> l1 = r_lv stk lv last ->
  Forall (fun cw : lvl => items_ok (fst cw) /\ Cst.wf_ws (snd cw) = true) lv -> items_ok last ->
  (forall cs, items_ok cs -> cs = first_of lv last -> items_ok (g cs)) ->
  (forall cs, text_stop (pre ++ l1) -> head_ok6 (g cs)) ->
  LvOK stk (upd_first g lv last) (pre ++ l1).
Proof.
  intros Hr E1 E2 E3 E4 Hok Hhd.
  destruct lv as [|[cs w] lv'].
  - destruct stk; [|discriminate]. cbn [upd_first]. split; [reflexivity|]. split; [cbn [fst snd r_lv] in *; rewrite Hr, E2; reflexivity|].
    split; [constructor|]. split; [apply Hok; [exact E4|reflexivity]|]. intros Hs. apply Hhd. exact Hs.
  - destruct stk as [|f fs]; [discriminate|]. cbn [upd_first]. split; [exact E1|]. split.
    { cbn [fst snd r_lv] in *. rewrite Hr, E2, <- !app_assoc. reflexivity. }
    inversion E3 as [|? ? [A1 A2] A3]; subst. cbn [fst snd] in *.
    split; [constructor; [split; [apply Hok; [exact A1|reflexivity]|exact A2]|exact A3]|].
    split; [exact E4|]. intros Hs. apply Hhd. exact Hs.
Qed.

Lemma items_ok_cons (i : uitem) cs : wf_uitem_s true i = true -> is_text epieces i = false -> items_ok cs -> items_ok (i :: cs).
Proof.
  intros Hwf Htx [A B0]. split; [cbn [forallb]; rewrite Hwf, A; reflexivity|].
  destruct cs as [|c0 r]; [reflexivity|].
  change (no_adjacent_text epieces (i :: c0 :: r)) with (negb (is_text epieces i && is_text epieces c0) && no_adjacent_text epieces (c0 :: r)).
  rewrite B0, Htx. reflexivity.
Qed.

(* a non-text item in front *)
Lemma LvOK_item stk lv last (i : uitem) l1 :
  length lv = length stk -> l1 = r_lv stk lv last ->
  Forall (fun cw : lvl => items_ok (fst cw) /\ Cst.wf_ws (snd cw) = true) lv -> items_ok last ->
  wf_uitem_s true i = true -> is_text epieces i = false ->
  LvOK stk (upd_first (cons i) lv last) (r_item i ++ l1).
Proof.
  intros E1 E2 E3 E4 Hwf Htx. apply (LvOK_upd stk lv last l1 (r_item i) (cons i)); try assumption; [reflexivity| |].
  - intros cs H _. apply items_ok_cons; assumption.
  - intros cs _. destruct i; try exact I. discriminate.
Qed.

(* a text fragment in front *)
Lemma LvOK_frag stk s ps l1 : LvOK stk s l1 ->
  forallb (wf_uepiece 60 true true true) ps = true -> E.no_adjacent_elit ps = true -> ps <> [] ->
  (text_stop l1 \/ match ps with [E.EP (T.PCData _)] => True | _ => False end) ->
  (text_stop (E.r_epieces (enc_epieces ps) ++ l1) -> match ps with q :: _ => E.is_elit q = false | [] => True end) ->
  LvOK stk (upd_first (cons_text_r ps) (fst s) (snd s)) (E.r_epieces (enc_epieces ps) ++ l1).
Proof.
  intros (E1 & E2 & E3 & E4 & E5) A B0 C0 Hjoin Hhd.
  apply (LvOK_upd stk (fst s) (snd s) l1 _ (cons_text_r ps)); try assumption.
  - intros cs. rewrite !r_uitems_items. apply r_cons_text_r.
  - intros cs [X Y] Ecs. split; [|apply no_adj_text_cons_text_r; exact Y].
    apply wf_cons_text6; try assumption. intros qs r -> .
    assert (Hq : E.no_adjacent_elit qs = true) by (cbn [forallb] in X; apply andb_true_iff in X; apply itext_no_adj; apply X).
    destruct Hjoin as [Hst|Hcd].
    + specialize (E5 Hst). rewrite <- Ecs in E5. cbn [head_ok6] in E5. apply CstSoundPRMain.no_adj_elit_app; [exact B0|exact Hq|]. destruct qs; [exact I|exact E5].
    + destruct ps as [|[[| | |c]|] [|? ?]]; try contradiction. cbn [app]. destruct qs as [|q qs']; [reflexivity|].
      change (negb (false && E.is_elit q) && E.no_adjacent_elit (q :: qs') = true). exact Hq.
  - intros cs Hs. specialize (Hhd Hs). destruct ps as [|q ps']; [congruence|].
    destruct cs as [|[n0 a0 w0 bd|qs|bs|t s0 v] r]; cbn [cons_text_r head_ok6 app]; exact Hhd.
Qed.

Lemma LvOK_nest stk s pre loc attrs ws_end l1 : LvOK ((utf8s pre, utf8s loc) :: stk) s l1 ->
  qn_ok pre loc -> Forall rattr_ok attrs -> vnoamp attrs -> Cst.wf_ws ws_end = true ->
  LvOK stk (bstep (FOpen pre loc attrs ws_end) s) ([60] ++ rq pre loc ++ flat_map r_rattr attrs ++ ws_end ++ [62] ++ l1).
Proof.
  intros (E1 & E2 & E3 & E4 & E5) Hname Hattrs H38 Hwe. destruct s as [lv last]. cbn [fst snd] in *.
  destruct lv as [|[cs_in w_in] lv1]; [discriminate|]. cbn [length] in E1. injection E1 as E1.
  inversion E3 as [|? ? [[A1 A2] A3] A4]; subst. cbn [fst snd] in *. cbn [bstep fst snd].
  remember (IElem (mkq pre loc) (ents_of attrs) ws_end (Some (cs_in, w_in))) as it eqn:Eit.
  assert (Hwf : wf_uitem_s true it = true).
  { rewrite Eit. rewrite CstFullS6Text.wf_uitem_elem, (wf_qname_intro _ _ Hname), (wf_ents_v attrs Hattrs H38), (ws_s _ Hwe), (ws_s _ A3), A2.
    rewrite <- CstFullS6Text.wf_uitems_forallb. exact A1. }
  assert (Er : r_item it = [60] ++ rq pre loc ++ flat_map r_rattr attrs ++ ws_end ++ [62] ++ X4.r_uitems cs_in ++ [60; 47] ++ rq pre loc ++ w_in ++ [62]).
  { rewrite Eit. rewrite CstFullTree.r_item_elem. rewrite rq_eq. rewrite (r_ents attrs Hattrs).
    replace (X4.r_uitems cs_in) with (@CstFullTree.r_items epieces cs_in) by (symmetry; apply r_uitems_items). reflexivity. }
  cbn [r_lv]. rewrite fqb_rq.
  replace ([60] ++ rq pre loc ++ flat_map r_rattr attrs ++ ws_end ++ [62] ++ X4.r_uitems cs_in ++ [60; 47] ++ rq pre loc ++ w_in ++ [62] ++ r_lv stk lv1 last)
    with (r_item it ++ r_lv stk lv1 last) by (rewrite Er, <- !app_assoc; reflexivity).
  apply LvOK_item; try assumption; [reflexivity|rewrite Eit; reflexivity].
Qed.

Lemma LvOK_empty stk s pre loc attrs ws_end l1 : LvOK stk s l1 ->
  qn_ok pre loc -> Forall rattr_ok attrs -> vnoamp attrs -> Cst.wf_ws ws_end = true ->
  LvOK stk (bstep (FEmpty pre loc attrs ws_end) s) ([60] ++ rq pre loc ++ flat_map r_rattr attrs ++ ws_end ++ [47; 62] ++ l1).
Proof.
  intros (E1 & E2 & E3 & E4 & E5) Hname Hattrs H38 Hwe. cbn [bstep].
  pose proof (LvOK_item stk (fst s) (snd s) (IElem (mkq pre loc) (ents_of attrs) ws_end None) l1 E1 E2 E3 E4) as H.
  rewrite CstFullTree.r_item_elem, rq_eq, (r_ents attrs Hattrs) in H. rewrite <- !app_assoc in H. apply H; [|reflexivity].
  rewrite CstFullS6Text.wf_uitem_elem, (wf_qname_intro _ _ Hname), (wf_ents_v attrs Hattrs H38), (ws_s _ Hwe). reflexivity.
Qed.

Lemma LvOK_close f stk s ws2 l1 : LvOK stk s l1 -> Cst.wf_ws ws2 = true ->
  LvOK (f :: stk) (([], ws2) :: fst s, snd s) ([60; 47] ++ fqb f ++ ws2 ++ [62] ++ l1).
Proof.
  intros (E1 & E2 & E3 & E4 & E5) Hw. cbn [fst snd]. split; [cbn [fst length]; rewrite E1; reflexivity|]. split.
  { cbn [r_lv X4.r_uitems flat_map app]. rewrite E2. reflexivity. }
  split; [constructor; [split; [split; reflexivity|exact Hw]|exact E3]|]. split; [exact E4|]. intros _. exact I.
Qed.

(* ---- a reference does not cross the end of a run of character data ---- *)
Lemma span_app_stop f : forall a b0, match b0 with y :: _ => f y = false | [] => True end ->
  span f (a ++ b0) = (fst (span f a), snd (span f a) ++ b0).
Proof.
  induction a as [|x a IH]; intros b0 Hb.
  - cbn [app span fst snd]. destruct b0 as [|y b1]; [reflexivity|]. cbn [span]. rewrite Hb. reflexivity.
  - cbn [app span]. destruct (f x); [|reflexivity]. rewrite (IH b0 Hb). destruct (span f a) as [u v]. reflexivity.
Qed.

Lemma name_run_app_stop : forall a b0, match b0 with y :: _ => name_byte y = false | [] => True end ->
  name_run (a ++ b0) = name_run a.
Proof.
  induction a as [|x a IH]; intros b0 Hb.
  - cbn [app]. destruct b0 as [|y b1]; [reflexivity|]. cbn [name_run]. rewrite Hb. reflexivity.
  - cbn [app name_run]. destruct (name_byte x); [|reflexivity]. rewrite (IH b0 Hb). reflexivity.
Qed.

Lemma name_run_le : forall a, (length (name_run a) <= length a)%nat.
Proof. induction a as [|x a IH]; [apply Nat.le_refl|]. cbn [name_run]. destruct (name_byte x); cbn [length]; lia. Qed.

Lemma charref_cut r b1 : charref_val_ok (r ++ 60 :: b1) = true -> charref_val_ok r = true.
Proof.
  unfold charref_val_ok.
  assert (G : forall hex r0, (let '(ds, r') := span (T.is_digit hex) (r0 ++ 60 :: b1) in
             match ds, r' with _ :: _, 59 :: _ => let c := T.ref_val hex ds in
               Chars.xml_Char c && negb ((c =? 9) || (c =? 10) || (c =? 13) || (c =? 38) || (c =? 60)) | _, _ => false end) = true ->
            (let '(ds, r') := span (T.is_digit hex) r0 in
             match ds, r' with _ :: _, 59 :: _ => let c := T.ref_val hex ds in
               Chars.xml_Char c && negb ((c =? 9) || (c =? 10) || (c =? 13) || (c =? 38) || (c =? 60)) | _, _ => false end) = true).
  { intros hex r0. rewrite (span_app_stop (T.is_digit hex) r0 (60 :: b1)) by (destruct hex; reflexivity).
    destruct (span (T.is_digit hex) r0) as [ds r']. cbn [fst snd]. destruct ds as [|d0 ds0]; [auto|].
    destruct r' as [|z r'']; [cbn [app]; discriminate|]. cbn [app]. auto. }
  destruct r as [|x r'].
  - cbn [app]. intros H. exfalso. cbn in H. discriminate.
  - destruct (N.eq_dec x 120) as [->|Hx]; [intros H; exact (G true r' H)|].
    assert (Ex : forall (A : Type) (u v : A), match x with 120 => u | _ => v end = v).
    { intros A u v. destruct x as [|pp]; [reflexivity|]. do 7 (destruct pp as [pp|pp|]; try reflexivity). congruence. }
    intros H. cbn [app] in H. rewrite Ex in H. rewrite Ex. exact (G false (x :: r') H).
Qed.

Lemma refname_cut r b1 : ref_name_ok (r ++ 60 :: b1) = true -> ref_name_ok r = true.
Proof.
  unfold ref_name_ok. rewrite (name_run_app_stop r (60 :: b1)) by reflexivity.
  destruct (name_run r) as [|x n] eqn:En; [auto|]. intros H. apply andb_true_iff in H. destruct H as [H1 H2]. rewrite H1. cbn [andb].
  pose proof (name_run_le r) as Hle. rewrite En in Hle.
  rewrite skipn_app in H2. replace (length (x :: n) - length r)%nat with O in H2 by lia. cbn [skipn] in H2.
  destruct (skipn (length (x :: n)) r) as [|z t]; [cbn [app] in H2; discriminate|exact H2].
Qed.

Lemma amp_cut s l1 : text_stop l1 -> amp_ok (s ++ l1) = true -> amp_ok s = true.
Proof.
  intros Hs H. destruct l1 as [|y b1]; [rewrite app_nil_r in H; exact H|]. cbn [text_stop] in Hs. subst y.
  destruct s as [|x s1]; [reflexivity|]. cbn [app] in H.
  destruct (N.eq_dec x 38) as [->|Hx].
  2:{ destruct x as [|pp]; [reflexivity|]. do 6 (destruct pp as [pp|pp|]; try reflexivity). congruence. }
  destruct s1 as [|y s2].
  { exfalso. cbn in H. discriminate. }
  cbn [app] in H. destruct (N.eq_dec y 35) as [->|Hy].
  - cbn [amp_ok] in H |- *. exact (charref_cut _ _ H).
  - assert (E1 : amp_ok (38 :: y :: s2 ++ 60 :: b1) = ref_name_ok ((y :: s2) ++ 60 :: b1)).
    { cbn [amp_ok app]. destruct y as [|pp]; [reflexivity|]. do 6 (destruct pp as [pp|pp|]; try reflexivity). congruence. }
    assert (E2 : amp_ok (38 :: y :: s2) = ref_name_ok (y :: s2)).
    { cbn [amp_ok]. destruct y as [|pp]; [reflexivity|]. do 6 (destruct pp as [pp|pp|]; try reflexivity). congruence. }
    rewrite E1 in H. rewrite E2. exact (refname_cut _ _ H).
Qed.

Lemma amps_cut : forall s l1, text_stop l1 -> all_suffixes amp_ok (s ++ l1) = true -> all_suffixes amp_ok s = true.
Proof.
  induction s as [|x s IH]; intros l1 Hs H; [reflexivity|]. cbn [app all_suffixes] in H |- *. apply andb_true_iff in H. destruct H as [H1 H2].
  change (x :: s ++ l1) with ((x :: s) ++ l1) in H1. rewrite (amp_cut _ _ Hs H1), (IH _ Hs H2). reflexivity.
Qed.

Lemma wf_uepiece_cd q ch iv p : wf_uepiece q false ch iv p = true -> wf_uepiece q true ch iv p = true.
Proof. destruct p as [[cs|hex ds|pe|cs]|n]; cbn [wf_uepiece]; auto. cbn [andb]. discriminate. Qed.
Lemma wf_uepieces_cd q ch iv ps : forallb (wf_uepiece q false ch iv) ps = true -> forallb (wf_uepiece q true ch iv) ps = true.
Proof. apply CstLex.forallb_imp. intros p. apply wf_uepiece_cd. Qed.

(* the pieces of a run of character data of a markup value *)
Lemma text_pieces cs l1 : raw_text_ok_n cs -> text_stop l1 -> all_suffixes amp_ok (utf8s cs ++ l1) = true ->
  exists ps, E.r_epieces (enc_epieces ps) = utf8s cs /\ forallb (wf_uepiece 60 false true true) ps = true /\
             E.no_adjacent_elit ps = true /\ ps <> [].
Proof.
  intros (Hne & Hu & H60 & Hcc) Hs Ha.
  assert (Hv : Forall (vchar_ok 60) cs) by (eapply Forall_impl; [|exact H60]; cbv beta; unfold vchar_ok; auto).
  destruct (ge_pieces 60 ltac:(lia) (length cs) cs (Nat.le_refl _) Hu Hv Hcc (amps_cut _ _ Hs Ha)) as (ps & E1 & E2 & E3 & _).
  exists ps. split; [exact E1|]. split; [exact E2|]. split; [exact E3|]. intros ->. cbn in E1. symmetry in E1. apply utf8s_nil_inv in E1. congruence.
Qed.

(* ---- the run ---- *)
Definition pst : Type := (list token * bst)%type.
Definition pev (text : bytes) (tk : token) (s : pst) : res pst :=
  let! b0 := bal_ev text tk (snd s) in Ok (fst s ++ [tk], b0).

Lemma pev0_inv text tk s s' : pev text tk s = Ok s' -> bal_ev text tk (snd s) = Ok (snd s') /\ fst s' = fst s ++ [tk].
Proof. unfold pev. intros H. destruct (bal_ev text tk (snd s)) as [b0| | |]; cbn [bind] in H; try discriminate. injection H as <-. split; reflexivity. Qed.

(* [strict]: an attribute token whose value contains '&' is refused *)
Definition pevc (strict : bool) (text : bytes) (tk : token) (s : pst) : res pst :=
  if strict && att_bad text tk then Err UnexpectedEndOfStream else pev text tk s.

Lemma pevc_inv strict text tk s s' : pevc strict text tk s = Ok s' ->
  bal_ev text tk (snd s) = Ok (snd s') /\ fst s' = fst s ++ [tk] /\ (strict = true -> att_bad text tk = false).
Proof.
  unfold pevc. intros H. destruct (strict && att_bad text tk) eqn:E; [discriminate|]. destruct (pev0_inv _ _ _ _ H) as [A B0].
  split; [exact A|]. split; [exact B0|]. intros ->. exact E.
Qed.
Lemma pev_inv strict text tk s s' : pevc strict text tk s = Ok s' -> bal_ev text tk (snd s) = Ok (snd s') /\ fst s' = fst s ++ [tk].
Proof. intros H. destruct (pevc_inv _ _ _ _ _ H) as (A & B0 & _). split; assumption. Qed.

Section Run.
Variable text : bytes.
Hypothesis HF : FragL text.
Variable strict : bool.
Variable en : N.
Variable tl : bytes.
Notation st := (CstEntCLex.st en tl).
Notation W := (CstEntCLex.W text en tl).
Notation WV := (CstSound6Lex.WV text en tl).
Notation bev := (bal_ev text).
Hypothesis Hxml : forall p r, W p r -> 3 < p -> xml_at r = true.

Lemma evs_attrs_p : forall attrs q rest (s s' : pst), CstLex.W text q (flat_map r_rattr attrs ++ rest) ->
  evs pst (pevc strict text) (nattr_toks q attrs) s = Ok s' ->
  s' = (fst s ++ nattr_toks q attrs, snd s) /\ (strict = true -> vnoamp attrs).
Proof.
  induction attrs as [|a r IH]; intros q rest s s' HW H; cbn [nattr_toks evs] in H.
  - injection H as <-. cbn [nattr_toks flat_map]. rewrite app_nil_r. split; [destruct s; reflexivity|intros _; constructor].
  - destruct (pevc strict text (nattr_tok q a) s) as [s1| | |] eqn:E1; cbn [bind] in H; try discriminate.
    destruct (pevc_inv _ _ _ _ _ E1) as (A1 & A2 & A3). unfold nattr_tok in A1. cbv zeta in A1. cbn [bal_ev] in A1. injection A1 as A1.
    cbn [flat_map] in HW. rewrite <- app_assoc in HW.
    pose proof (CstLex.W_app text _ _ _ HW) as HWn.
    destruct (IH _ rest _ _ HWn H) as [-> I2]. rewrite A2, <- A1. cbn [fst snd nattr_toks]. rewrite <- app_assoc. split; [reflexivity|].
    intros Hs. constructor; [|exact (I2 Hs)].
    specialize (A3 Hs). unfold nattr_tok, att_bad in A3. cbv zeta in A3.
    unfold r_rattr in HW. rewrite <- !app_assoc in HW.
    pose proof (CstLex.W_app text _ _ _ HW) as H1.
    pose proof (CstLex.W_app text _ _ _ H1) as H2.
    pose proof (CstLex.W_app text _ _ _ H2) as H3.
    pose proof (CstLex.W_app text _ _ _ H3) as H4.
    pose proof (CstLex.W_app text _ _ _ H4) as H5.
    pose proof (CstLex.W_app text _ _ _ H5) as H6.
    change (blen [61]) with 1 in *. change (blen [ra_quote a]) with 1 in *.
    rewrite (CstLex.W_slice text _ _ _ H6) in A3. apply mem_b_Forall. exact A3.
Qed.

Definition Cond (l : bytes) : Prop := (strict = false -> Forall (fun y => y <> 38) l) /\ all_suffixes amp_ok l = true.
Lemma Cond_app_r a l : Cond (a ++ l) -> Cond l.
Proof. intros [A B0]. split; [intros Hs; specialize (A Hs); apply Forall_app in A; tauto|exact (all_suffixes_app_r _ _ _ B0)]. Qed.

Lemma content_flat : forall fuel depth p l c s' c' stk l0,
  WV p l -> 3 < p -> Cond l -> c = (l0, (None, stk)) -> N.of_nat (length stk) = depth ->
  parse_content_loop text pst (pevc strict text) fuel depth (st p l) c = Ok (s', c') -> snd c' = (None, []) ->
  exists fl, l = r_flat fl /\ flat_ok fl /\ fst c' = l0 ++ ftoks p fl /\ LvOK stk (build fl) l /\ fbal stk fl.
Proof.
  induction fuel as [|fu IH]; intros depth p l c s' c' stk l0 HWV Hp3 H38 Hc Hlen H HcF; cbn [parse_content_loop] in H; [noerr|].
  pose proof (CstSound6Lex.WV_W _ _ _ _ _ HWV) as HW.
  rewrite (CstEntCLex.at_end_st text en tl) in H by exact HW.
  destruct l as [|x l00].
  { injection H as _ <-. subst c. cbn [snd] in HcF. assert (stk = []) by congruence. subst stk.
    exists []. split; [reflexivity|]. split; [exact I|]. split; [cbn [fst ftoks]; rewrite app_nil_r; reflexivity|]. split; [apply LvOK_base|reflexivity]. }
  rewrite cbu_st in H. cbn [bind] in H.
  destruct (x =? 60) eqn:E60.
  2:{ (* a text token *)
    ib H q Hq. destruct q as [s1 c1].
    destruct (inv_text_g text en tl pst (pevc strict text) _ _ _ _ _ _ HWV ltac:(lia) Hq) as (cs & l1 & El & Hraw & Hstop & -> & HW1 & Hev).
    destruct (pev_inv _ _ _ _ _ Hev) as [Hb0 Hl0]. subst c. cbn [bal_ev snd fst] in Hb0, Hl0. injection Hb0 as Hb0.
    rewrite El in H38. pose proof (Cond_app_r _ _ H38) as Hb.
    destruct (text_pieces cs l1 Hraw Hstop (proj2 H38)) as (ps & Eps & Hwfp & Hadjp & Hnep).
    destruct c1 as [lg1 b1]. cbn [fst snd] in *. subst b1 lg1.
    destruct (IH _ _ _ _ _ _ _ _ HW1 ltac:(lia) Hb eq_refl Hlen H HcF) as (fl & Efl & Hok & Etk & HR & HB). rewrite El.
    exists (FText ps :: fl). split; [cbn [r_flat flat_map r_flat1]; fold (r_flat fl); rewrite Efl, Eps; reflexivity|].
    split; [cbn [flat_ok flat_ok1]; split; [split; [exists cs; split; [exact Hraw|symmetry; exact Eps]|auto]|split; [rewrite <- Efl; exact Hstop|exact Hok]]|].
    split; [rewrite Etk; cbn [ftoks ftok1]; rewrite blen_flat1, Eps, <- app_assoc; reflexivity|].
    split; [|exact HB].
    pose proof (LvOK_frag stk (build fl) ps l1 HR) as HP. rewrite Eps in HP. cbn [build fold_right bstep]. apply HP.
    - apply wf_uepieces_cd. exact Hwfp.
    - exact Hadjp.
    - exact Hnep.
    - left. exact Hstop.
    - intros Hs. exfalso. rewrite <- El in Hs. cbn [text_stop] in Hs. lia. }
  assert (x = 60) by lia. subst x.
  destruct l00 as [|y l1].
  { exfalso. unfold next_byte in H. cbn [CstEntCLex.st s_pos s_end s_rest] in H. destruct HW as [_ HW]. rewrite blen_cons, blen_nil in HW.
    replace (en <=? p + 1) with true in H by lia. noerr. }
  rewrite (CstEntCLex.next_byte_st text en tl) in H by exact HW.
  destruct (y =? 33) eqn:E33.
  { assert (y = 33) by lia. subst y. rewrite !(CstEntCLex.starts_with_st text en tl) in H by exact HW.
    destruct (prefix_b (b "<!--") (60 :: 33 :: l1)) eqn:Ec.
    - change (b "<!--") with [60; 33; 45; 45] in Ec. destruct (prefix_b_split _ _ Ec) as (l2 & El).
      rewrite El in H, HWV, H38. ib H q Hq. destruct q as [s1 c1].
      destruct (inv_comment_g text HF en tl pst (pevc strict text) _ _ _ _ _ HWV Hq) as (bs & l3 & -> & Hwf & -> & HW1 & Hev).
      destruct (pev_inv _ _ _ _ _ Hev) as [Hb0 Hl0]. subst c. cbn [bal_ev snd fst] in Hb0, Hl0. injection Hb0 as Hb0.
      destruct c1 as [lg1 b1]. cbn [fst snd] in *. subst b1 lg1.
      assert (Hb : Cond l3) by (do 3 (apply Cond_app_r in H38); exact H38).
      destruct (IH _ _ _ _ _ _ _ _ HW1 ltac:(lia) Hb eq_refl Hlen H HcF) as (fl & Efl & Hok & Etk & HR & HB). rewrite El.
      exists (FComment bs :: fl). split; [cbn [r_flat flat_map r_flat1]; fold (r_flat fl); rewrite Efl, <- !app_assoc; reflexivity|].
      split; [cbn [flat_ok flat_ok1]; auto|].
      split.
      { rewrite Etk. cbn [ftoks ftok1]. rewrite blen_flat1, <- app_assoc. cbn [app].
        replace (p + (4 + blen (utf8s bs) + 3)) with (p + 4 + blen (utf8s bs) + 3) by lia. reflexivity. }
      split; [|exact HB]. destruct HR as (E1 & E2 & E3 & E4 & E5).
      pose proof (LvOK_item stk (fst (build fl)) (snd (build fl)) (@IComment epieces bs) l3 E1 E2 E3 E4) as HP. cbn [r_item Cst.r_item] in HP. rewrite <- !app_assoc in HP.
      cbn [build fold_right bstep]. apply HP; [exact Hwf|reflexivity].
    - destruct (prefix_b (b "<![CDATA[") (60 :: 33 :: l1)) eqn:Ed; [|noerr].
      change (b "<![CDATA[") with [60; 33; 91; 67; 68; 65; 84; 65; 91] in Ed. destruct (prefix_b_split _ _ Ed) as (l2 & El).
      rewrite El in H, HWV, H38. ib H q Hq. destruct q as [s1 c1].
      destruct (inv_cdata_g text en tl pst (pevc strict text) _ _ _ _ _ HWV Hq) as (cs & l3 & -> & Hu & Hnc & -> & HW1 & Hev).
      destruct (pev_inv _ _ _ _ _ Hev) as [Hb0 Hl0]. subst c. unfold cdata_tok in Hb0. cbn [bal_ev snd fst] in Hb0, Hl0. injection Hb0 as Hb0.
      destruct c1 as [lg1 b1]. cbn [fst snd] in *. subst b1 lg1.
      assert (Hb : Cond l3) by (do 3 (apply Cond_app_r in H38); exact H38).
      destruct (IH _ _ _ _ _ _ _ _ HW1 ltac:(lia) Hb eq_refl Hlen H HcF) as (fl & Efl & Hok & Etk & HR & HB). rewrite El.
      exists (FCData cs :: fl). split; [cbn [r_flat flat_map r_flat1]; fold (r_flat fl); rewrite Efl, <- !app_assoc; reflexivity|].
      split; [cbn [flat_ok flat_ok1]; auto|].
      split.
      { rewrite Etk. cbn [ftoks ftok1]. rewrite blen_flat1, <- app_assoc. cbn [app].
        replace (p + (9 + blen (utf8s cs) + 3)) with (p + 9 + blen (utf8s cs) + 3) by lia. reflexivity. }
      split; [|exact HB]. pose proof (LvOK_frag stk (build fl) [E.EP (T.PCData cs)] l3 HR) as HP.
      unfold enc_epieces in HP. cbn [map enc_epiece enc_piece E.r_epieces flat_map E.r_epiece T.r_piece] in HP. rewrite app_nil_r, <- !app_assoc in HP.
      cbn [build fold_right bstep]. apply HP.
      + cbn [forallb wf_uepiece wf_utpiece andb]. rewrite contains_eq. change T.cdata_close with [93; 93; 62]. rewrite Hnc, (uchars_xml _ Hu). reflexivity.
      + reflexivity.
      + discriminate.
      + right. exact I.
      + intros _. reflexivity. }
  destruct (y =? 63) eqn:E63.
  { assert (y = 63) by lia. subst y. ib H q Hq. destruct q as [s1 c1].
    change (60 :: 63 :: l1) with ([60; 63] ++ l1) in *.
    destruct (inv_pi_g text HF en tl pst (pevc strict text) _ _ _ _ _ HWV (Hxml _ _ HW Hp3) Hq) as (tg & sep & v & l3 & -> & Hwf & -> & HW1 & Hev).
    destruct (pev_inv _ _ _ _ _ Hev) as [Hb0 Hl0]. subst c. unfold pi_tok in Hb0. cbv zeta in Hb0. cbn [bal_ev snd fst] in Hb0, Hl0. injection Hb0 as Hb0.
    destruct c1 as [lg1 b1]. cbn [fst snd] in *. subst b1 lg1.
    assert (Hb : Cond l3) by (do 5 (apply Cond_app_r in H38); exact H38).
    destruct (IH _ _ _ _ _ _ _ _ HW1 ltac:(lia) Hb eq_refl Hlen H HcF) as (fl & Efl & Hok & Etk & HR & HB).
    exists (FPI tg sep v :: fl). split; [cbn [r_flat flat_map r_flat1]; fold (r_flat fl); rewrite Efl, <- !app_assoc; reflexivity|].
    split; [cbn [flat_ok flat_ok1]; auto|].
    split.
    { rewrite Etk. cbn [ftoks ftok1]. rewrite blen_flat1, <- app_assoc. cbn [app].
      replace (p + (2 + blen (utf8s tg) + blen sep + blen (utf8s v) + 2)) with (p + 2 + blen (utf8s tg) + blen sep + blen (utf8s v) + 2) by lia. reflexivity. }
    split; [|exact HB]. destruct HR as (E1 & E2 & E3 & E4 & E5).
    pose proof (LvOK_item stk (fst (build fl)) (snd (build fl)) (@IPI epieces tg sep v) l3 E1 E2 E3 E4) as HP. cbn [r_item Cst.r_item] in HP. rewrite <- !app_assoc in HP.
    cbn [build fold_right bstep]. apply HP; [cbn [wf_uitem_s wf_misc_s]; apply (wf_pi_s_intro _ _ _ Hwf)|reflexivity]. }
  destruct (y =? 47) eqn:E47.
  { assert (y = 47) by lia. subst y. ib H q Hq. destruct q as [s1 c1].
    change (60 :: 47 :: l1) with ([60; 47] ++ l1) in *.
    destruct (inv_close_g text HF en tl pst (pevc strict text) _ _ _ _ _ HWV Hq) as (pre & loc & ws2 & l3 & -> & Hname & Hws & -> & HW1 & Hev).
    destruct (pev_inv _ _ _ _ _ Hev) as [Hb0 Hl0]. unfold nclose_tok in Hb0. subst c. cbn [bal_ev snd fst] in Hb0, Hl0.
    destruct stk as [|n r]; [discriminate|].
    pose proof (@CstEntCLex.W_app text en tl _ _ _ HW) as HWn. change (blen [60; 47]) with 2 in HWn.
    assert (HWq : CstLex.W text (p + 2) (rq pre loc ++ (ws2 ++ [62] ++ l3) ++ tl)) by (rewrite app_assoc; exact (proj1 HWn)).
    destruct (qname_slices_r text _ _ _ _ HWq) as (Sp & Sl & _).
    match type of Hb0 with (if ?bb then _ else _) = _ => destruct bb eqn:Eb; [|discriminate] end. injection Hb0 as Hb0.
    destruct c1 as [lg1 b1]. cbn [fst snd] in *. subst b1 lg1.
    apply andb_true_iff in Eb. destruct Eb as [Eb1 Eb2]. apply CstSoundBuild.bytes_eqb_true in Eb1. apply CstSoundBuild.bytes_eqb_true in Eb2.
    assert (Ef : fqb n = rq pre loc).
    { rewrite <- fqb_rq. destruct n as [n1 n2]. cbn [fst snd] in *. rewrite Sp in Eb1. rewrite Sl in Eb2. subst n1 n2. reflexivity. }
    assert (Hb : Cond l3) by (do 4 (apply Cond_app_r in H38); exact H38).
    destruct (depth =? 0) eqn:Ed.
    - exfalso. cbn [length] in Hlen. lia.
    - assert (Hlen' : N.of_nat (length r) = depth - 1) by (cbn [length] in Hlen; lia).
      destruct (IH _ _ _ _ _ _ _ _ HW1 ltac:(lia) Hb eq_refl Hlen' H HcF) as (fl & Efl & Hok & Etk & HR & HB).
      exists (FClose pre loc ws2 :: fl). split; [cbn [r_flat flat_map r_flat1]; fold (r_flat fl); rewrite Efl, <- !app_assoc; reflexivity|].
      split; [cbn [flat_ok flat_ok1]; auto|].
      split.
      { rewrite Etk. cbn [ftoks ftok1]. rewrite blen_flat1, <- app_assoc. cbn [app].
        replace (p + (2 + blen (rq pre loc) + blen ws2 + 1)) with (p + 2 + blen (rq pre loc) + blen ws2 + 1) by lia. reflexivity. }
      split; [cbn [build fold_right bstep]; rewrite <- Ef; apply LvOK_close; assumption|].
      cbn [fbal]. split; [|exact HB]. destruct n as [n1 n2]. cbn [fst snd] in *. rewrite Sp in Eb1. rewrite Sl in Eb2. subst n1 n2. reflexivity. }
  (* a start tag *)
  ib H q Hq. destruct q as [[open s1] c1].
  change (60 :: y :: l1) with ([60] ++ (y :: l1)) in *.
  destruct (inv_element_g text HF en tl pst (pevc strict text) _ _ _ _ _ _ HWV Hq)
    as (pre & loc & attrs & ws_end & l3 & ca & cb & El & Hname & Hraw & Hwe & Hev1 & Hev2 & Hev3 & -> & HW1).
  rewrite El in HWV, H38 |- *. pose proof (CstSound6Lex.WV_W _ _ _ _ _ HWV) as HW'.
  destruct (pev_inv _ _ _ _ _ Hev1) as [Hb1 Hl1]. unfold nstart_tok in Hb1. subst c. cbn [bal_ev snd fst] in Hb1, Hl1. injection Hb1 as Hb1.
  pose proof (@CstEntCLex.W_app text en tl _ _ _ HW') as HWn. change (blen [60]) with 1 in HWn.
  assert (HWq : CstLex.W text (p + 1) (rq pre loc ++ (flat_map r_rattr attrs ++ ws_end ++ tag_tail (negb open) ++ l3) ++ tl)) by (rewrite app_assoc; exact (proj1 HWn)).
  destruct (evs_attrs_p attrs _ ((ws_end ++ tag_tail (negb open) ++ l3) ++ tl) _ _ ltac:(rewrite app_assoc; exact (CstLex.W_app text _ _ _ HWq)) Hev2) as [Hev2' Hstrict].
  symmetry in Hev2'. rename Hev2' into Hev2x. clear Hev2. rename Hev2x into Hev2.
  destruct (pev_inv _ _ _ _ _ Hev3) as [Hb3 Hl3]. rewrite <- Hev2 in Hb3, Hl3. cbn [fst snd] in Hb3, Hl3. rewrite <- Hb1 in Hb3. rewrite Hl1 in Hl3.
  destruct (qname_slices_r text _ _ _ _ HWq) as (Sp & Sl & _).
  assert (Hbb3 : Cond l3) by (do 5 (apply Cond_app_r in H38); exact H38).
  assert (Hbb1 : vnoamp attrs).
  { destruct (Bool.bool_dec strict true) as [Est|Est]; [exact (Hstrict Est)|]. apply Bool.not_true_is_false in Est. destruct H38 as [H38 _]. specialize (H38 Est).
    do 2 (apply Forall_app in H38; destruct H38 as [_ H38]). apply Forall_app in H38. destruct H38 as [X _].
    clear - X. induction attrs as [|a r IHr]; [constructor|]. cbn [flat_map] in X. apply Forall_app in X. destruct X as [Xa Xr].
    constructor; [|exact (IHr Xr)]. unfold r_rattr in Xa. do 6 (apply Forall_app in Xa; destruct Xa as [_ Xa]). apply Forall_app in Xa. tauto. }
  destruct c1 as [lg1 b1]. cbn [fst snd] in *.
  unfold end_tok in Hb3. destruct open; cbn [negb bal_ev fst snd tag_tail] in *.
  - injection Hb3 as Hb3. subst b1. rewrite Sp, Sl in H.
    assert (Hlen' : N.of_nat (length ((utf8s pre, utf8s loc) :: stk)) = depth + 1) by (cbn [length]; rewrite Nat2N.inj_succ, <- Hlen, N.add_1_r; reflexivity).
    destruct (IH _ _ _ _ _ _ _ _ HW1 ltac:(lia) Hbb3 eq_refl Hlen' H HcF) as (fl & Efl & Hok & Etk & HR & HB).
    exists (FOpen pre loc attrs ws_end :: fl). split; [cbn [r_flat flat_map r_flat1]; fold (r_flat fl); rewrite Efl, <- !app_assoc; reflexivity|].
    split; [cbn [flat_ok flat_ok1]; auto 6|].
    split.
    { rewrite Etk, Hl3. cbn [ftoks ftok1]. unfold tag_toks. rewrite blen_flat1. cbn [app]. rewrite <- !app_assoc. cbn [app].
      replace (p + (1 + blen (rq pre loc) + blen (flat_map r_rattr attrs) + blen ws_end + 1)) with (p + 1 + blen (rq pre loc) + blen (flat_map r_rattr attrs) + blen ws_end + 1) by lia. reflexivity. }
    split; [cbn [build fold_right]; apply LvOK_nest; assumption|exact HB].
  - injection Hb3 as Hb3. subst b1.
    destruct (IH _ _ _ _ _ _ _ _ HW1 ltac:(lia) Hbb3 eq_refl Hlen H HcF) as (fl & Efl & Hok & Etk & HR & HB).
    exists (FEmpty pre loc attrs ws_end :: fl). split; [cbn [r_flat flat_map r_flat1]; fold (r_flat fl); rewrite Efl, <- !app_assoc; reflexivity|].
    split; [cbn [flat_ok flat_ok1]; auto 6|].
    split.
    { rewrite Etk, Hl3. cbn [ftoks ftok1]. unfold tag_toks. rewrite blen_flat1. cbn [app]. rewrite <- !app_assoc. cbn [app].
      replace (p + (1 + blen (rq pre loc) + blen (flat_map r_rattr attrs) + blen ws_end + 2)) with (p + 1 + blen (rq pre loc) + blen (flat_map r_rattr attrs) + blen ws_end + 2) by lia. reflexivity. }
    split; [cbn [build fold_right]; apply LvOK_empty; assumption|exact HB].
Qed.

End Run.

(* ---- what a markup-valued declaration exports ---- *)
(* [its] at [vs, vs + |its|): its flat list, and the tokens any run on that range reads *)
Definition UseOK (text : bytes) (vs : N) (its : list uitem) : Prop :=
  mem_b 60 (X4.r_uitems its) = true /\ U8.Valid (X4.r_uitems its) /\
  exists fl, build fl = ([], its) /\ flat_ok fl /\ fbal [] fl /\ r_flat fl = X4.r_uitems its /\
    forall es, stream_from_substr text vs (vs + blen (X4.r_uitems its)) = Ok es ->
      exists s', parse_content text (list token) ev_log es [] = Ok (s', ftoks vs fl).
Definition UseOKv (text : bytes) (vs : N) (v : X4.xvalue) : Prop :=
  match v with X4.XContent its => UseOK text vs its | X4.XText _ => True end.

(* a run with any callback on the range of the value *)
Lemma use_tokens text vs its C ev es c s' c' : UseOK text vs its ->
  stream_from_substr text vs (vs + blen (X4.r_uitems its)) = Ok es ->
  parse_content text C ev es c = Ok (s', c') ->
  exists fl, build fl = ([], its) /\ flat_ok fl /\ fbal [] fl /\ r_flat fl = X4.r_uitems its /\ evs C ev (ftoks vs fl) c = Ok c'.
Proof.
  intros (_ & _ & fl & Eb & Hok & Hbal & Er & Hlog) Es H. destruct (Hlog es Es) as (s1 & Hl).
  unfold parse_content in H, Hl.
  destruct (run_tokens _ _ _ _ _ _ _ _ _ [] H) as (toks & L1 & E1). rewrite Hl in L1. injection L1 as _ L1. cbn [app] in L1. subst toks.
  exists fl. auto 6.
Qed.
