(* Proofs/CstEntCMain.v -- C07 on whole documents, in full: "a reference behaves exactly as if the
   replacement text stood in its place".  The rendering of EVERY well-formed document of
   Spec/CstEnt.v -- internal DTD with general entities whose values are character data OR items
   (elements, comments, PIs, character data, further references), referenced in character data and
   in attribute values, nested up to the limits of the crate -- parses, with allow_dtd, to exactly
   the tree of the document in which every reference has been replaced by what it stands for
   ([parse_render_sem_ent]); so two documents with the same inlined meaning have the same view
   ([hoist_insensitive]), in particular a document and a spelling of its inlined form without any
   DOCTYPE ([inlined_equiv]).  Entities that stand for items add nodes, so the size hypotheses are
   about the MEANING (as in Proofs/CstMain.v, parse_render_sem_bounded), not about the input. *)
From Coq Require Import Ascii String.
From Coq Require Import List NArith PeanoNat Bool Lia ZifyBool ZifyN ZifyNat.
Import ListNotations.
From RX Require Import Generated.
From RX.Model Require Import Base CharClass Stream Tokenizer Doc Builder Parse.
From RX.Spec Require Cst CstText CstEnt Detector.
From RX.Spec Require Tree.
From RX.Spec Require Import Text.
From RX.Proofs Require Import Tactics CstLex CstBuild CstTree CstItems CstDoc CstMain.
From RX.Proofs Require Import CstTextSem CstTextLex CstTextBuild CstTextItems CstTextDoc CstTextMain.
From RX.Proofs Require Import CstEntSem CstEntText CstEntAttr CstEntMeaning CstEntRun CstEntLex CstEntDtd CstEntBuild CstEntInline CstEntItems CstEntDoc CstEntMain.
From RX.Proofs Require Import CstEntCFloor CstEntCAttr CstEntCBuild CstEntCSem CstEntCLex CstEntCLex2 CstEntCLoop CstEntCText CstEntCItems CstEntCDoc.
From RX.Proofs Require KeystoneEnc KeystoneBuilder KeystoneParse CstFinal.
Open Scope N_scope.

Theorem parse_render_sem_ent : forall (c : E.doc) (opt : options),
  E.wf_doc c = true -> allow_dtd opt = true ->
  N.of_nat (length (E.sem c)) < nodes_limit opt ->
  N.of_nat (length (E.sem c)) < u32_max ->
  N.of_nat (edoc_nattrs c) < u32_max ->
  exists d, parse (E.render c) opt = Ok d /\
            view (E.render c) d = E.sem c /\
            (forall nd ns local ar nss, In nd (d_nodes d) -> nd_kind nd = KElement ns local ar nss -> ns = None) /\
            (forall a, In a (d_attrs d) -> ad_ns_idx a = None).
Proof.
  intros c opt Hwf Hdtd Hlim Hmax Hattr. set (text := E.render c).
  destruct (ewf_doc_parts c Hwf) as [_ _ _ _ _ _ (name & attrs & ws & body & Er) _ _ (root' & tr & Hroot & Hinl & _ & _) _].
  set (cT := {| T.d_before := map (fun p => (E.misc_item (fst p), snd p)) (E.d_before c)
                               ++ map (fun p => (E.misc_item (snd p), fst p)) (E.d_mid c);
                T.d_ws0 := E.d_ws0 c; T.d_root := root';
                T.d_after := map (fun p => (fst p, E.misc_item (snd p))) (E.d_after c);
                T.d_ws_end := E.d_ws_end c |}) in *.
  assert (Esem : E.sem c = T.sem cT) by (unfold E.sem; rewrite Hinl; reflexivity).
  unfold edoc_nattrs in Hattr. rewrite Hinl in Hattr. rewrite Esem in *.
  destruct (cparse_document_ok c (init_ctx text opt) cT tr Hwf Hinl (init_ctx_CI text opt) eq_refl eq_refl eq_refl)
    as (cf & K & E & Habs0 & Hpp & I & F).
  { unfold node_room. rewrite tnsizes_doc. cbn [c_doc init_ctx d_nodes c_opt]. unfold len_N. cbn [length]. lia. }
  { unfold attr_room. cbn [c_doc init_ctx d_attrs]. unfold len_N. cbn [length]. unfold tdoc_nattrs in Hattr. lia. }
  fold text in E, F. cbn [c_parent_id init_ctx c_doc d_nodes] in F. change (len_N [_]) with 1 in F.
  cbn [c_parent_prefixes init_ctx] in Hpp.
  assert (Habs : absn (c_doc cf) = (None, KRoot) :: K) by (rewrite Habs0; reflexivity).
  set (d := c_doc cf) in *.
  destruct (d_nodes d) as [|rootnd nodes] eqn:En; [unfold absn in Habs; rewrite En in Habs; discriminate|].
  unfold absn in Habs. rewrite En in Habs. cbn [map] in Habs. injection Habs as Hp0 Hk0 HK.
  set (TT := tag_list 0 1 (doc_items (erase_doc cT))) in *.
  assert (HlenK : length K = length TT).
  { clear - F. induction F; cbn [length]; lia. }
  assert (HlenT : N.of_nat (length TT) = N.of_nat (length (T.sem cT))).
  { unfold TT. rewrite tag_list_len. apply tnsizes_doc. }
  assert (Hlen : len_N (d_nodes d) = 1 + N.of_nat (length (T.sem cT))).
  { rewrite En. unfold len_N. cbn [length]. rewrite <- HK in HlenK. rewrite map_length in HlenK. lia. }
  (* the arena is the encoding of a tree *)
  assert (HP : KeystoneBuilder.P cf).
  { eapply (KeystoneParse.parse_document_Q text context (Parse.token text) KeystoneBuilder.P).
    - intros tok x x'. apply KeystoneParse.token_P.
    - exists Tree.KdRoot, [], []. apply (KeystoneParse.init_context_Inv text opt). apply init_context_eq.
    - exact E. }
  destruct HP as (k & cs & outer & Inv).
  pose proof (KeystoneBuilder.inv_pp _ _ _ _ Inv) as Ipp. rewrite Hpp in Ipp. cbn [length] in Ipp.
  destruct outer as [|o outer]; [|cbn [length] in Ipp; lia].
  pose proof (KeystoneBuilder.inv_kinds _ _ _ _ Inv) as Ik. cbn [KeystoneBuilder.kinds_ok] in Ik. subst k.
  pose proof (KeystoneBuilder.inv_rows _ _ _ _ Inv) as Irows.
  unfold KeystoneEnc.ztree in Irows. cbn [KeystoneEnc.plug] in Irows.
  (* the root element is a child of the Root node *)
  assert (Er' : exists attrs' body', root' = T.IElem name attrs' ws body').
  { rewrite Er, inline_elem in Hroot. destruct (E.inline_attrs _ false attrs) as [[a' ta]|]; [|discriminate].
    cbn [E.obind fst] in Hroot. destruct body as [[cs0 w2]|].
    - destruct (E.inline_items _ false cs0) as [[b0 tb0]|]; [|discriminate]. cbn [E.obind] in Hroot. injection Hroot as <- _. eauto.
    - injection Hroot as <- _. eauto. }
  destruct Er' as (attrs' & body' & Er').
  set (k0 := length (tag_list 0 1 (map fst (Cst.d_before (erase_doc cT))))).
  assert (HT0 : exists m, nth_error TT k0 = Some (0, Cst.VElem name (T.eattrs attrs') m)).
  { unfold TT, doc_items. rewrite tag_list_app. unfold k0. rewrite nth_error_app2 by lia.
    rewrite Nat.sub_diag. cbn [tag_list]. change (Cst.d_root (erase_doc cT)) with (erase root').
    rewrite Er', erase_elem. fold (CstTree.eattrs (map erase_attr attrs')).
    destruct body' as [[cs0 w2]|]; [rewrite tag_elem|cbn [tag]]; rewrite eattrs_erase; cbn [app nth_error]; eauto. }
  destruct HT0 as (m & HT0).
  destruct (Forall2_nth_r _ _ _ F _ _ HT0) as (rw & Hrw & Hkm).
  rewrite <- HK in Hrw. apply nth_error_map_inv in Hrw. destruct Hrw as (nd0 & Hnd0 & Eabs).
  destruct Hkm as [Hpar Hkind]. rewrite <- Eabs in Hpar, Hkind. cbn [abs_nd fst snd] in Hpar, Hkind.
  assert (Hel : is_element_kind (nd_kind nd0) = true) by (destruct (nd_kind nd0); try contradiction; reflexivity).
  destruct (CstFinal.root_has_element d cs (N.of_nat (S k0)) nd0) as (it & Eit & Eany).
  { exact Irows. }
  { rewrite Hlen. unfold u32_max in Hmax. lia. }
  { rewrite Nat2N.id, En. cbn [nth_error]. exact Hnd0. }
  { exact Hpar. }
  { exact Hel. }
  exists d. split; [|split; [|split]].
  - unfold parse. rewrite init_context_eq. cbn [bind]. rewrite Hdtd. unfold tok_ev in E. rewrite E. cbn [bind].
    fold d. rewrite Eit. cbn [bind]. rewrite Eany. cbn [bind negb]. rewrite Hpp. reflexivity.
  - unfold view. rewrite En. cbn [view_from]. unfold view_node. rewrite Hk0.
    change (0 + 1) with 1.
    rewrite (view_from_rows text d nodes TT 1).
    + unfold TT. rewrite tag_list_sem. rewrite <- sem_erase_doc. symmetry. apply sem_doc_items.
    + rewrite HK. exact F.
    + intros k q v Hk. rewrite (tag_list_counts _ 0 1 ltac:(lia) k q v Hk). fold TT.
      unfold children_count. rewrite En. cbn [filter].
      rewrite Hp0.
      apply eq_sym. apply (count_rows text (d_attrs d)). rewrite HK. exact F.
  - intros nd ns local ar nss Hin Hk. rewrite En in Hin. destruct Hin as [<-|Hin].
    + congruence.
    + apply (in_map abs_nd) in Hin. rewrite HK in Hin.
      destruct (Forall2_In_l _ _ _ F _ Hin) as ([q v] & _ & _ & Hkm').
      cbn [abs_nd snd] in Hkm'. rewrite Hk in Hkm'. destruct v; try contradiction. apply Hkm'.
  - intros a Ha. pose proof (ci_attrs _ I) as HF. rewrite Forall_forall in HF. apply HF. exact Ha.
Qed.
Print Assumptions parse_render_sem_ent.

(* two documents with the same inlined meaning -- however the content is distributed over entities --
   have the same view *)
Theorem hoist_insensitive : forall c1 c2 opt,
  E.wf_doc c1 = true -> E.wf_doc c2 = true -> allow_dtd opt = true -> E.sem c1 = E.sem c2 ->
  N.of_nat (length (E.sem c1)) < nodes_limit opt -> N.of_nat (length (E.sem c1)) < u32_max ->
  N.of_nat (edoc_nattrs c1) < u32_max -> N.of_nat (edoc_nattrs c2) < u32_max ->
  exists d1 d2, parse (E.render c1) opt = Ok d1 /\ parse (E.render c2) opt = Ok d2 /\
                view (E.render c1) d1 = view (E.render c2) d2.
Proof.
  intros c1 c2 opt W1 W2 Hd E L M A1 A2.
  destruct (parse_render_sem_ent c1 opt W1 Hd L M A1) as (d1 & P1 & V1 & _).
  destruct (parse_render_sem_ent c2 opt W2 Hd ltac:(rewrite <- E; exact L) ltac:(rewrite <- E; exact M) A2) as (d2 & P2 & V2 & _).
  exists d1, d2. split; [exact P1|]. split; [exact P2|]. rewrite V1, V2. exact E.
Qed.
Print Assumptions hoist_insensitive.

(* a document with entities and a document WITHOUT a DOCTYPE (Spec/CstText.v) in which the replacement
   stands in place of every reference have the same view *)
Theorem inlined_equiv : forall (c : E.doc) (c' : T.doc) opt,
  E.wf_doc c = true -> allow_dtd opt = true -> T.wf_doc c' = true -> T.sem c' = E.sem c ->
  N.of_nat (length (E.sem c)) < nodes_limit opt -> N.of_nat (length (E.sem c)) < u32_max ->
  N.of_nat (edoc_nattrs c) < u32_max -> N.of_nat (length (T.render c')) <= u32_max ->
  exists d d', parse (E.render c) opt = Ok d /\ parse (T.render c') opt = Ok d' /\
               view (E.render c) d = view (T.render c') d'.
Proof.
  intros c c' opt W1 Hd W2 E L M A1 S2.
  destruct (parse_render_sem_ent c opt W1 Hd L M A1) as (d1 & P1 & V1 & _).
  destruct (parse_render_sem_text c' opt W2 ltac:(rewrite E; exact L) S2) as (d2 & P2 & V2 & _).
  exists d1, d2. split; [exact P1|]. split; [exact P2|]. rewrite V1, V2. symmetry. exact E.
Qed.
Print Assumptions inlined_equiv.

(* an example: <!DOCTYPE r [<!ENTITY t "T"><!ENTITY e "x<i k='&t;'>&t;</i><!--c-->y">]><r>1&e;2&e;3</r> *)
Definition exc_decl (n : bytes) (v : E.evalue) : E.edecl :=
  {| E.e_ws0 := []; E.e_ws1 := [32]; E.e_name := n; E.e_ws2 := [32]; E.e_quote := 34; E.e_value := v; E.e_ws3 := [] |}.
Definition exc_doc : E.doc :=
  {| E.d_ws0 := []; E.d_before := [];
     E.d_dtd := {| E.t_ws1 := [32]; E.t_name := [114]; E.t_ws2 := [32];
                   E.t_decls := [exc_decl [116] (E.EText [E.EP (T.PLit [84])]);
                                 exc_decl [101] (E.EContent
                                   [E.IText [E.EP (T.PLit [120])];
                                    E.IElem [105] [{| E.a_ws := [32]; E.a_name := [107]; E.a_ws1 := []; E.a_ws2 := []; E.a_quote := 39;
                                                      E.a_value := [E.ERef [116]] |}] [] (Some ([E.IText [E.ERef [116]]], []));
                                    E.IComment [99];
                                    E.IText [E.EP (T.PLit [121])]])];
                   E.t_ws3 := []; E.t_ws4 := [] |};
     E.d_mid := []; E.d_ws1 := [];
     E.d_root := E.IElem [114] [] [] (Some ([E.IText [E.EP (T.PLit [49]); E.ERef [101]; E.EP (T.PLit [50]); E.ERef [101]; E.EP (T.PLit [51])]], []));
     E.d_after := []; E.d_ws_end := [] |}.

Corollary exc_doc_parses : forall opt, allow_dtd opt = true -> 11 < nodes_limit opt ->
  exists d, parse (E.render exc_doc) opt = Ok d /\
            view (E.render exc_doc) d =
            [Cst.VElem [114] [] 7;
             Cst.VText [49; 120]; Cst.VElem [105] [([107], [84])] 1; Cst.VText [84]; Cst.VComment [99];
             Cst.VText [121; 50; 120]; Cst.VElem [105] [([107], [84])] 1; Cst.VText [84]; Cst.VComment [99];
             Cst.VText [121; 51]].
Proof.
  intros opt Hd Hl.
  assert (X : N.of_nat (length (E.sem exc_doc)) = 10) by (vm_compute; reflexivity).
  destruct (parse_render_sem_ent exc_doc opt) as (d & P & V & _);
    [vm_compute; reflexivity|exact Hd|rewrite X; lia|rewrite X; unfold u32_max; lia|vm_compute; reflexivity|].
  exists d. split; [exact P|]. rewrite V. vm_compute. reflexivity.
Qed.
Print Assumptions exc_doc_parses.
