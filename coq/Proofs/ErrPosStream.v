(* Proofs/ErrPosStream.v -- property C14 (errors): every Err carries a position inside the input.
   Part 1: the predicate, the proof automation, and the Stream primitives. *)
From Coq Require Import Lia ZifyBool ZifyN ZifyNat.
From RX Require Import Generated.
From RX.Model Require Import Base CharClass Stream.
From RX.Proofs Require Import Tactics.

Local Open Scope N_scope.

Definition positioned (text : bytes) (e : error) : Prop :=
  error_pos e = (1, 1) \/ exists p, p <= tlen text /\ gen_text_pos_at text p = Ok (error_pos e).

(* an error constructor that stores the position it is given *)
Definition pos_ctor (mk : textpos -> error) : Prop := forall p, error_pos (mk p) = p.

(* "every Err this computation can return is positioned" *)
Definition epos {A : Type} (text : bytes) (r : res A) : Prop :=
  forall e, r = Err e -> positioned text e.

Lemma epos_ok : forall (A : Type) text (a : A), epos text (Ok a).
Proof. intros A text a e H; discriminate. Qed.
Lemma epos_panic : forall (A : Type) text p, epos text (@Panic A p).
Proof. intros A text p e H; discriminate. Qed.
Lemma epos_fuel : forall (A : Type) text, epos text (@OutOfFuel A).
Proof. intros A text e H; discriminate. Qed.
Lemma epos_err : forall (A : Type) text e, error_pos e = (1, 1) -> epos text (@Err A e).
Proof. intros A text e He e' H. inversion H; subst. left. exact He. Qed.

Lemma epos_bind : forall (A B : Type) text (r : res A) (k : A -> res B),
  epos text r -> (forall a, epos text (k a)) -> epos text (bind r k).
Proof.
  intros A B text r k Hr Hk e H. apply bind_err in H. destruct H as [H|[a [_ H]]].
  - exact (Hr e H).
  - exact (Hk a e H).
Qed.

Lemma gen_text_pos_at_no_err : forall text p e, gen_text_pos_at text p <> Err e.
Proof.
  intros text p e. unfold gen_text_pos_at.
  destruct ((tlen text <? p) || negb (is_boundary text p)); discriminate.
Qed.

Lemma gen_text_pos_at_ok_le : forall text p tp, gen_text_pos_at text p = Ok tp -> p <= tlen text.
Proof.
  intros text p tp. unfold gen_text_pos_at.
  destruct (tlen text <? p) eqn:E; cbn [orb]; [discriminate|]. intros _. lia.
Qed.

Lemma gen_text_pos_at_positioned : forall text p tp mk,
  pos_ctor mk -> gen_text_pos_at text p = Ok tp -> positioned text (mk tp).
Proof.
  intros text p tp mk Hmk H. right. exists p. split.
  - eapply gen_text_pos_at_ok_le; eauto.
  - rewrite Hmk. exact H.
Qed.

Lemma epos_err_at : forall (A : Type) text s mk, pos_ctor mk -> epos text (@err_at text A s mk).
Proof.
  intros A text s mk Hmk e H. unfold err_at in H. apply bind_err in H.
  destruct H as [H|[tp [H1 H2]]].
  - unfold gen_text_pos in H. exfalso. eapply gen_text_pos_at_no_err; eauto.
  - inversion H2; subst. unfold gen_text_pos in H1. eapply gen_text_pos_at_positioned; eauto.
Qed.

Lemma epos_err_from : forall (A : Type) text p mk, pos_ctor mk -> epos text (@err_from text A p mk).
Proof.
  intros A text p mk Hmk e H. unfold err_from in H. apply bind_err in H.
  destruct H as [H|[tp [H1 H2]]].
  - unfold gen_text_pos_from in H. exfalso. eapply gen_text_pos_at_no_err; eauto.
  - inversion H2; subst. unfold gen_text_pos_from in H1. eapply gen_text_pos_at_positioned; eauto.
Qed.

(* ---- automation: walk over the result term ---- *)
Create HintDb epos.

Ltac epos_head t := lazymatch t with ?f _ => epos_head f | _ => t end.

Ltac epos_step :=
  lazymatch goal with
  | |- epos _ (bind _ _) => apply epos_bind; [ | intros ? ]
  | |- epos _ (Ok _) => apply epos_ok
  | |- epos _ (Panic _) => apply epos_panic
  | |- epos _ OutOfFuel => apply epos_fuel
  | |- epos _ (Err _) => apply epos_err; reflexivity
  | |- epos _ (err_at _ _ _) => apply epos_err_at; intro; reflexivity
  | |- epos _ (err_from _ _ _) => apply epos_err_from; intro; reflexivity
  | |- epos _ (match ?x with _ => _ end) => destruct x
  | |- epos _ ?r => first [ solve [eauto with epos] | let h := epos_head r in unfold h ]
  end.

Ltac epos_tac := repeat (progress cbv beta zeta || epos_step).

(* ---- Stream primitives ---- *)

Lemma mk_slice_epos : forall text a e, epos text (mk_slice text a e).
Proof. intros. epos_tac. Qed.
Lemma stream_from_substr_epos : forall text a e, epos text (stream_from_substr text a e).
Proof. intros. epos_tac. Qed.
Lemma curr_byte_unchecked_epos : forall text s, epos text (curr_byte_unchecked s).
Proof. intros. epos_tac. Qed.
Lemma curr_byte_epos : forall text s, epos text (curr_byte s).
Proof. intros. epos_tac. Qed.
Lemma next_byte_epos : forall text s, epos text (next_byte s).
Proof. intros. epos_tac. Qed.
Lemma advance_epos : forall text n s, epos text (advance n s).
Proof. intros. epos_tac. Qed.
#[export] Hint Resolve mk_slice_epos stream_from_substr_epos curr_byte_unchecked_epos
  curr_byte_epos next_byte_epos advance_epos : epos.

Lemma consume_byte_epos : forall text c s, epos text (consume_byte text c s).
Proof. intros. epos_tac. Qed.
Lemma skip_string_epos : forall text p s, epos text (skip_string text p s).
Proof. intros. epos_tac. Qed.
Lemma slice_back_epos : forall text a s, epos text (slice_back text a s).
Proof. intros. epos_tac. Qed.
#[export] Hint Resolve consume_byte_epos skip_string_epos slice_back_epos : epos.

Lemma consume_bytes_epos : forall text f s, epos text (consume_bytes text f s).
Proof. intros. epos_tac. Qed.
Lemma consume_spaces_epos : forall text s, epos text (consume_spaces text s).
Proof. intros. epos_tac. Qed.
Lemma advance_until2_epos : forall text n1 n2 s, epos text (advance_until2 n1 n2 s).
Proof. intros. epos_tac. Qed.
Lemma next_char_epos : forall text s, epos text (next_char s).
Proof. intros. epos_tac. Qed.
#[export] Hint Resolve consume_bytes_epos consume_spaces_epos advance_until2_epos next_char_epos : epos.

Lemma skip_chars_loop_epos : forall text fuel f s, epos text (skip_chars_loop text fuel f s).
Proof.
  intros text fuel f. induction fuel as [|fu IH]; intros s; cbn [skip_chars_loop]; epos_tac.
Qed.
#[export] Hint Resolve skip_chars_loop_epos : epos.

Lemma skip_chars_epos : forall text f s, epos text (skip_chars text f s).
Proof. intros. epos_tac. Qed.
#[export] Hint Resolve skip_chars_epos : epos.
Lemma consume_chars_epos : forall text f s, epos text (consume_chars text f s).
Proof. intros. epos_tac. Qed.
#[export] Hint Resolve consume_chars_epos : epos.

Lemma skip_name_loop_epos : forall text fuel s, epos text (skip_name_loop fuel s).
Proof.
  intros text fuel. induction fuel as [|fu IH]; intros s; cbn [skip_name_loop]; epos_tac.
Qed.
#[export] Hint Resolve skip_name_loop_epos : epos.

Lemma skip_name_epos : forall text s, epos text (skip_name text s).
Proof. intros. epos_tac. Qed.
#[export] Hint Resolve skip_name_epos : epos.
Lemma consume_name_epos : forall text s, epos text (consume_name text s).
Proof. intros. epos_tac. Qed.
#[export] Hint Resolve consume_name_epos : epos.

Lemma consume_qname_loop_epos : forall text fuel start sp s,
  epos text (consume_qname_loop text fuel start sp s).
Proof.
  intros text fuel start. induction fuel as [|fu IH]; intros sp s; cbn [consume_qname_loop]; epos_tac.
Qed.
#[export] Hint Resolve consume_qname_loop_epos : epos.

Lemma consume_qname_epos : forall text s, epos text (consume_qname text s).
Proof. intros. epos_tac. Qed.
Lemma consume_eq_epos : forall text s, epos text (consume_eq text s).
Proof. intros. epos_tac. Qed.
Lemma consume_quote_epos : forall text s, epos text (consume_quote text s).
Proof. intros. epos_tac. Qed.
#[export] Hint Resolve consume_qname_epos consume_eq_epos consume_quote_epos : epos.

(* consume_reference swallows the errors of its parts *)
Lemma consume_reference_epos : forall text s, epos text (consume_reference text s).
Proof. intros. epos_tac. Qed.
#[export] Hint Resolve consume_reference_epos : epos.

Lemma is_xml_str_ascii_epos : forall text l i, epos text (is_xml_str_ascii text l i).
Proof.
  intros text l. induction l as [|x r IH]; intros i; cbn [is_xml_str_ascii]; epos_tac.
Qed.
Lemma is_xml_str_unicode_epos : forall text fuel l i, epos text (is_xml_str_unicode text fuel l i).
Proof.
  intros text fuel. induction fuel as [|fu IH]; intros l i; cbn [is_xml_str_unicode]; epos_tac.
Qed.
#[export] Hint Resolve is_xml_str_ascii_epos is_xml_str_unicode_epos : epos.

Lemma is_xml_str_epos : forall text sl vs, epos text (is_xml_str text sl vs).
Proof. intros. epos_tac. Qed.
#[export] Hint Resolve is_xml_str_epos : epos.
