(* Proofs/DefaultContent.v -- C16: the amount of text and attribute content held by the
   builder (Phi) and how each Context callback changes it. *)
From Coq Require Import List NArith Bool Lia ZifyBool ZifyN ZifyNat.
Import ListNotations.
From RX Require Import Generated.
From RX.Model Require Import Base CharClass Stream Tokenizer Doc Builder.
From RX.Proofs Require Import TermStream TermTokenizer TermBuilder.
Open Scope N_scope.

Ltac vauto := repeat gstep.

Lemma blen_app (a b : bytes) : blen (a ++ b) = blen a + blen b.
Proof. unfold blen. rewrite app_length. lia. Qed.

Lemma list_upd_map {A B} (g : A -> B) (f : A -> A) : (forall x, g (f x) = g x) ->
  forall l i l', list_upd l i f = Some l' -> map g l' = map g l.
Proof.
  intros Hg. induction l as [|x l IH]; intros i l' H; cbn [list_upd] in H; [destruct i; discriminate|].
  destruct i.
  - injection H as <-. cbn [map]. rewrite Hg. reflexivity.
  - destruct (list_upd l i f) eqn:E; [|discriminate]. injection H as <-. cbn [map].
    rewrite (IH _ _ E). reflexivity.
Qed.

Lemma list_upd_last {A} (f : A -> A) (a : list A) x :
  list_upd (a ++ [x]) (length a) f = Some (a ++ [f x]).
Proof. induction a; cbn [list_upd app length]; [reflexivity|]. rewrite IHa. reflexivity. Qed.

Section WithText.
Variable text : bytes.

(* ---- the measure ---- *)
Definition klen (k : node_kind) : N :=
  match k with KText st => blen (storage_bytes text st) | _ => 0 end.
Definition kinds_len (ks : list node_kind) : N := fold_right (fun k acc => klen k + acc) 0 ks.
Definition attrs_len (l : list attr_data) : N :=
  fold_right (fun a acc => blen (storage_bytes text (ad_value a)) + acc) 0 l.
Definition cur_len (l : list temp_attr) : N :=
  fold_right (fun a acc => blen (storage_bytes text (ta_value a)) + acc) 0 l.
Definition frags_len (l : list cow) : N :=
  fold_right (fun t acc => blen (cow_bytes text t) + acc) 0 l.

Lemma kinds_len_cons x l : kinds_len (x :: l) = klen x + kinds_len l.
Proof. reflexivity. Qed.
Lemma attrs_len_cons x l : attrs_len (x :: l) = blen (storage_bytes text (ad_value x)) + attrs_len l.
Proof. reflexivity. Qed.
Lemma cur_len_cons x l : cur_len (x :: l) = blen (storage_bytes text (ta_value x)) + cur_len l.
Proof. reflexivity. Qed.
Lemma frags_len_cons x l : frags_len (x :: l) = blen (cow_bytes text x) + frags_len l.
Proof. reflexivity. Qed.

Lemma kinds_len_app a b : kinds_len (a ++ b) = kinds_len a + kinds_len b.
Proof.
  induction a as [|x a IH]; cbn [app]; [change (kinds_len []) with 0; lia|].
  rewrite !kinds_len_cons, IH. lia.
Qed.
Lemma attrs_len_app a b : attrs_len (a ++ b) = attrs_len a + attrs_len b.
Proof.
  induction a as [|x a IH]; cbn [app]; [change (attrs_len []) with 0; lia|].
  rewrite !attrs_len_cons, IH. lia.
Qed.
Lemma cur_len_app a b : cur_len (a ++ b) = cur_len a + cur_len b.
Proof.
  induction a as [|x a IH]; cbn [app]; [change (cur_len []) with 0; lia|].
  rewrite !cur_len_cons, IH. lia.
Qed.
Lemma frags_len_app a b : frags_len (a ++ b) = frags_len a + frags_len b.
Proof.
  induction a as [|x a IH]; cbn [app]; [change (frags_len []) with 0; lia|].
  rewrite !frags_len_cons, IH. lia.
Qed.

Lemma blen_concat l : blen (concat (map (cow_bytes text) l)) = frags_len l.
Proof.
  induction l as [|x l IH]; cbn [map concat]; [reflexivity|].
  rewrite blen_app, frags_len_cons, IH. lia.
Qed.

Definition kinds (c : context) : list node_kind := map nd_kind (d_nodes (c_doc c)).
Definition base (c : context) : N :=
  kinds_len (kinds c) + attrs_len (d_attrs (c_doc c)) + cur_len (c_cur_attrs c).
(* content held: the nodes, the resolved and the pending attributes, and the fragments of an
   open text run beyond the first (the first is the value of the last node) *)
Definition Phi (c : context) : N := base c + frags_len (tl (c_after_text c)).

Definition run_ok (c : context) : Prop :=
  match c_after_text c with
  | [] => True
  | f :: _ => exists ks st, kinds c = ks ++ [KText st] /\
                            blen (cow_bytes text f) <= blen (storage_bytes text st)
  end.

Definition eld (c c' : context) : Prop := c_entities c' = c_entities c /\ c_ld c' = c_ld c.
Definition rest5 (c c' : context) : Prop :=
  d_attrs (c_doc c') = d_attrs (c_doc c) /\ c_cur_attrs c' = c_cur_attrs c /\
  c_after_text c' = c_after_text c /\ eld c c'.

Ltac vsimp :=
  unfold rest5, eld, Phi, base, kinds in *;
  cbn [c_doc c_cur_attrs c_after_text c_entities c_ld c_opt c_parent_id c_awaiting
       set_doc set_ns_start_idx set_cur_attrs set_awaiting set_parent_prefixes set_entities
       set_after_text set_parent_id set_tag_name set_entity_floor set_ld
       d_nodes d_attrs set_nodes set_attrs fst snd] in *.

(* ---- node updates keep the kinds ---- *)
Lemma upd_node_kinds nodes i f : (forall nd, nd_kind (f nd) = nd_kind nd) ->
  good (fun l => map nd_kind l = map nd_kind nodes) (upd_node nodes i f).
Proof.
  intros Hf. unfold upd_node. destruct (list_upd nodes (N.to_nat i) f) eqn:E; [|exact I].
  cbn [good]. eapply list_upd_map; eauto.
Qed.

Lemma set_next_subtree_all_kinds ids : forall nodes v,
  good (fun l => map nd_kind l = map nd_kind nodes) (set_next_subtree_all nodes ids v).
Proof.
  induction ids; intros; cbn [set_next_subtree_all]; [reflexivity|].
  eapply good_bind; [apply upd_node_kinds; reflexivity|]. intros l Hl.
  eapply good_weaken; [apply IHids|]. intros l' Hl'. cbv beta in *. congruence.
Qed.

Hint Resolve node_id_new_good : good.

Lemma append_node_view k r c :
  good (fun p => kinds (snd p) = kinds c ++ [k] /\ rest5 c (snd p)) (append_node k r c).
Proof.
  unfold append_node. vauto.
  eapply good_bind; [apply upd_node_kinds; reflexivity|]. intros a1 H1.
  eapply good_bind; [apply upd_node_kinds; reflexivity|]. intros a2 H2.
  eapply good_bind; [apply set_next_subtree_all_kinds|]. intros a3 H3.
  cbv beta in *. cbn [good]. vsimp. rewrite H3, H2, H1, map_app. cbn [map nd_kind]. Show. auto.
Qed.

End WithText.
