(* Proofs/DefaultContent.v -- C16: the amount of text and attribute content held by the
   builder (Phi) and how each Context callback changes it. *)
From Coq Require Import List NArith Bool Lia ZifyBool ZifyN ZifyNat.
Import ListNotations.
From RX Require Import Generated.
From RX.Model Require Import Base CharClass Stream Tokenizer Doc Builder.
From RX.Proofs Require Import TermStream TermTokenizer TermBuilder.
Open Scope N_scope.

Ltac vauto := repeat gstep.

Lemma blen_app (a b : bytes) : blen (a ++ b) = blen a + blen b.
Proof. unfold blen. rewrite app_length. lia. Qed.

Lemma list_upd_map {A B} (g : A -> B) (f : A -> A) : (forall x, g (f x) = g x) ->
  forall l i l', list_upd l i f = Some l' -> map g l' = map g l.
Proof.
  intros Hg. induction l as [|x l IH]; intros i l' H; cbn [list_upd] in H; [destruct i; discriminate|].
  destruct i.
  - injection H as <-. cbn [map]. rewrite Hg. reflexivity.
  - destruct (list_upd l i f) eqn:E; [|discriminate]. injection H as <-. cbn [map].
    rewrite (IH _ _ E). reflexivity.
Qed.

Lemma list_upd_last {A} (f : A -> A) (a : list A) x :
  list_upd (a ++ [x]) (length a) f = Some (a ++ [f x]).
Proof. induction a; cbn [list_upd app length]; [reflexivity|]. rewrite IHa. reflexivity. Qed.

Section WithText.
Variable text : bytes.

(* ---- the measure ---- *)
Definition klen (k : node_kind) : N :=
  match k with KText st => blen (storage_bytes text st) | _ => 0 end.
Definition kinds_len (ks : list node_kind) : N := fold_right (fun k acc => klen k + acc) 0 ks.
Definition attrs_len (l : list attr_data) : N :=
  fold_right (fun a acc => blen (storage_bytes text (ad_value a)) + acc) 0 l.
Definition cur_len (l : list temp_attr) : N :=
  fold_right (fun a acc => blen (storage_bytes text (ta_value a)) + acc) 0 l.
Definition frags_len (l : list cow) : N :=
  fold_right (fun t acc => blen (cow_bytes text t) + acc) 0 l.

Lemma kinds_len_cons x l : kinds_len (x :: l) = klen x + kinds_len l.
Proof. reflexivity. Qed.
Lemma attrs_len_cons x l : attrs_len (x :: l) = blen (storage_bytes text (ad_value x)) + attrs_len l.
Proof. reflexivity. Qed.
Lemma cur_len_cons x l : cur_len (x :: l) = blen (storage_bytes text (ta_value x)) + cur_len l.
Proof. reflexivity. Qed.
Lemma frags_len_cons x l : frags_len (x :: l) = blen (cow_bytes text x) + frags_len l.
Proof. reflexivity. Qed.

Lemma kinds_len_app a b : kinds_len (a ++ b) = kinds_len a + kinds_len b.
Proof.
  induction a as [|x a IH]; cbn [app]; [change (kinds_len []) with 0; lia|].
  rewrite !kinds_len_cons, IH. lia.
Qed.
Lemma attrs_len_app a b : attrs_len (a ++ b) = attrs_len a + attrs_len b.
Proof.
  induction a as [|x a IH]; cbn [app]; [change (attrs_len []) with 0; lia|].
  rewrite !attrs_len_cons, IH. lia.
Qed.
Lemma cur_len_app a b : cur_len (a ++ b) = cur_len a + cur_len b.
Proof.
  induction a as [|x a IH]; cbn [app]; [change (cur_len []) with 0; lia|].
  rewrite !cur_len_cons, IH. lia.
Qed.
Lemma frags_len_app a b : frags_len (a ++ b) = frags_len a + frags_len b.
Proof.
  induction a as [|x a IH]; cbn [app]; [change (frags_len []) with 0; lia|].
  rewrite !frags_len_cons, IH. lia.
Qed.

Lemma blen_concat l : blen (concat (map (cow_bytes text) l)) = frags_len l.
Proof.
  induction l as [|x l IH]; cbn [map concat]; [reflexivity|].
  rewrite blen_app, frags_len_cons, IH. lia.
Qed.

Definition kinds (c : context) : list node_kind := map nd_kind (d_nodes (c_doc c)).
Definition base (c : context) : N :=
  kinds_len (kinds c) + attrs_len (d_attrs (c_doc c)) + cur_len (c_cur_attrs c).
(* content held: the nodes, the resolved and the pending attributes, and the fragments of an
   open text run beyond the first (the first is the value of the last node) *)
Definition Phi (c : context) : N := base c + frags_len (tl (c_after_text c)).

Definition run_ok (c : context) : Prop :=
  match c_after_text c with
  | [] => True
  | f :: _ => exists ks st, kinds c = ks ++ [KText st] /\
                            blen (cow_bytes text f) <= blen (storage_bytes text st)
  end.

Definition eld (c c' : context) : Prop := c_entities c' = c_entities c /\ c_ld c' = c_ld c.
Definition rest5 (c c' : context) : Prop :=
  d_attrs (c_doc c') = d_attrs (c_doc c) /\ c_cur_attrs c' = c_cur_attrs c /\
  c_after_text c' = c_after_text c /\ eld c c'.

Ltac vsimp :=
  unfold rest5, eld, Phi, base, kinds in *;
  cbn [c_doc c_cur_attrs c_after_text c_entities c_ld c_opt c_parent_id c_awaiting
       set_doc set_ns_start_idx set_cur_attrs set_awaiting set_parent_prefixes set_entities
       set_after_text set_parent_id set_tag_name set_entity_floor set_ld
       d_nodes d_attrs set_nodes set_attrs fst snd] in *.

(* ---- node updates keep the kinds ---- *)
Lemma upd_node_kinds nodes i f : (forall nd, nd_kind (f nd) = nd_kind nd) ->
  good (fun l => map nd_kind l = map nd_kind nodes) (upd_node nodes i f).
Proof.
  intros Hf. unfold upd_node. destruct (list_upd nodes (N.to_nat i) f) eqn:E; [|exact I].
  cbn [good]. eapply list_upd_map; eauto.
Qed.

Lemma set_next_subtree_all_kinds ids : forall nodes v,
  good (fun l => map nd_kind l = map nd_kind nodes) (set_next_subtree_all nodes ids v).
Proof.
  induction ids; intros; cbn [set_next_subtree_all]; [reflexivity|].
  eapply good_bind; [apply upd_node_kinds; reflexivity|]. intros l Hl.
  eapply good_weaken; [apply IHids|]. intros l' Hl'. cbv beta in *. congruence.
Qed.

Hint Resolve node_id_new_good : good.

Lemma append_node_view k r c :
  good (fun p => kinds (snd p) = kinds c ++ [k] /\ rest5 c (snd p)) (append_node k r c).
Proof.
  unfold append_node. vauto.
  eapply good_bind; [apply upd_node_kinds; reflexivity|]. intros a1 H1.
  eapply good_bind; [apply upd_node_kinds; reflexivity|]. intros a2 H2.
  eapply good_bind; [apply set_next_subtree_all_kinds|]. intros a3 H3.
  cbv beta in *. cbn [good]. vsimp. rewrite H3, H2, H1, map_app. cbn [map nd_kind]. repeat split; reflexivity.
Qed.


Lemma cow_storage_len t :
  blen (storage_bytes text match t with CowBorrowed s => Borrowed (SIn s) | CowOwned bs => Owned bs end)
  = blen (cow_bytes text t).
Proof. destruct t; reflexivity. Qed.

(* ---- append_text ---- *)
Lemma append_text_ok t r c : run_ok c ->
  good (fun c' => run_ok c' /\ eld c c' /\ Phi c' <= Phi c + blen (cow_bytes text t))
       (append_text t r c).
Proof.
  intros Hr. unfold append_text, run_ok in *. destruct (c_after_text c) as [|f l] eqn:Ea.
  - eapply good_bind; [eapply good_bind; [apply append_node_view|]|].
    { intros [i c1] H1. cbn [good snd] in *. exact H1. }
    intros c1 [Hk [Ha [Hc [Ht He]]]]. cbn [good fst snd] in *.
    unfold run_ok. vsimp. rewrite Ht, Ea. cbn [app tl].
    split; [|split; [exact He|]].
    + eexists _, _. split; [exact Hk|]. rewrite cow_storage_len. lia.
    + rewrite Hk, Ha, Hc, kinds_len_app, kinds_len_cons. cbn [klen].
      rewrite cow_storage_len. change (kinds_len []) with 0. change (frags_len []) with 0. lia.
  - cbn [bind good]. unfold run_ok. vsimp. rewrite Ea. cbn [app tl].
    split; [exact Hr|]. split; [split; reflexivity|]. rewrite frags_len_app, frags_len_cons.
    change (frags_len []) with 0. lia.
Qed.

(* ---- reset_after_text ---- *)
Lemma upd_node_last (l : list node_data) x r f : rev l = x :: r ->
  good (fun l' => l' = rev r ++ [f x]) (upd_node l (len_N l - 1) f).
Proof.
  intros H. assert (El : l = rev r ++ [x]).
  { rewrite <- (rev_involutive l), H. reflexivity. }
  unfold upd_node. subst l.
  replace (N.to_nat (len_N (rev r ++ [x]) - 1)) with (length (rev r))
    by (unfold len_N; rewrite app_length; cbn [length]; lia).
  rewrite list_upd_last. reflexivity.
Qed.

Lemma reset_after_text_ok c : run_ok c ->
  good (fun c' => c_after_text c' = [] /\ eld c c' /\ Phi c' <= Phi c) (reset_after_text text c).
Proof.
  intros Hr. unfold reset_after_text, run_ok in *. destruct (c_after_text c) as [|f [|g l]] eqn:Ea.
  - cbn [good]. vsimp. rewrite Ea. repeat split; try reflexivity; cbn [tl]; lia.
  - cbn [good]. vsimp. rewrite Ea. repeat split; try reflexivity; cbn [tl]; lia.
  - destruct Hr as [ks [st [Hk Hle]]].
    unfold merge_text. destruct (rev (d_nodes (c_doc c))) as [|nd rr] eqn:Er; [exact I|].
    assert (Enodes : d_nodes (c_doc c) = rev rr ++ [nd]).
    { rewrite <- (rev_involutive (d_nodes (c_doc c))), Er. reflexivity. }
    unfold kinds in Hk. rewrite Enodes, map_app in Hk. cbn [map] in Hk.
    apply app_inj_tail in Hk. destruct Hk as [Hks Hnd].
    rewrite Hnd. rewrite Ea.
    rewrite bind_assoc. eapply good_bind; [eapply upd_node_last; exact Er|].
    intros l' ->. cbn [bind good]. vsimp. rewrite Ea. cbn [tl]. repeat split; try reflexivity.
    rewrite Enodes, !map_app, !kinds_len_app. cbn [map nd_kind nd_set_kind]. rewrite Hnd.
    rewrite !kinds_len_cons. cbn [klen storage_bytes]. change (kinds_len []) with 0.
    cbn [concat]. rewrite !blen_app, (blen_concat l), !frags_len_cons. change (frags_len []) with 0. lia.
Qed.

(* ---- namespaces: the node and attribute arrays are not touched ---- *)
Definition keepd (d d' : document) : Prop := d_nodes d' = d_nodes d /\ d_attrs d' = d_attrs d.

Lemma push_ns_keepd name uri d : good (keepd d) (push_ns text name uri d).
Proof. unfold push_ns, keepd. vauto; cbn [d_nodes d_attrs]; auto. Qed.

Lemma push_ref_keepd i d : good (keepd d) (push_ref i d).
Proof. unfold push_ref, keepd. vauto; cbn [d_nodes d_attrs]; auto. Qed.

Hint Resolve ns_prefix_at_good ns_exists_good push_ref_keepd push_ns_keepd : good.

Lemma resolve_ns_loop_keepd st is : forall d, good (keepd d) (resolve_ns_loop text st is d).
Proof.
  induction is; intros d; cbn [resolve_ns_loop]; [split; reflexivity|].
  vauto; unfold keepd in *; destruct_conj; split; congruence.
Qed.

Definition samev (c c' : context) : Prop := kinds c' = kinds c /\ rest5 c c'.

Lemma samev_refl c : samev c c.
Proof. repeat split; reflexivity. Qed.

Hint Resolve ns_range_checked_good : good.

Lemma resolve_namespaces_view c : good (fun p => samev c (snd p)) (resolve_namespaces text c).
Proof.
  unfold resolve_namespaces. vauto; try apply samev_refl.
  eapply good_bind; [apply resolve_ns_loop_keepd|]. intros d [H1 H2].
  gb. cbn [good snd]. unfold samev. vsimp. rewrite H1, H2. repeat split; reflexivity.
Qed.

(* ---- attributes: the pending ones move to the document ---- *)
Hint Resolve get_ns_idx_by_prefix_good attr_expanded_name_good any_same_name_good : good.

Lemma resolve_attrs_loop_view nss st l : forall d,
  good (fun d' => d_nodes d' = d_nodes d /\ attrs_len (d_attrs d') = attrs_len (d_attrs d) + cur_len l)
       (resolve_attrs_loop text nss st l d).
Proof.
  induction l as [|a l IH]; intros d; cbn [resolve_attrs_loop].
  - cbn [good]. change (cur_len []) with 0. split; [reflexivity|lia].
  - vauto; cbn [d_nodes d_attrs set_attrs] in *; destruct_conj;
    match goal with
    | Hn : d_nodes ?x = d_nodes d, Hl : attrs_len (d_attrs ?x) = _ |- _ =>
        split; [exact Hn|];
        rewrite Hl, attrs_len_app, attrs_len_cons, cur_len_cons; cbn [ad_value];
        change (attrs_len []) with 0; lia
    end.
Qed.

Lemma resolve_attributes_view nss c :
  good (fun p => kinds (snd p) = kinds c /\ c_after_text (snd p) = c_after_text c /\
                 eld c (snd p) /\ base (snd p) = base c)
       (resolve_attributes text nss c).
Proof.
  unfold resolve_attributes. destruct (c_cur_attrs c) as [|a l] eqn:Ec.
  - cbn [good snd]. repeat split; reflexivity.
  - vauto.
    eapply good_bind; [apply resolve_attrs_loop_view|]. intros d [H1 H2].
    eapply good_bind; [apply short_range_good|]. intros rr _. cbn [good snd]. vsimp. rewrite H1, H2, Ec. repeat split; try reflexivity.
    change (cur_len []) with 0. lia.
Qed.

(* ---- process_element ---- *)

Lemma process_element_ok e r c :
  good (fun c' => c_after_text c' = c_after_text c /\ eld c c' /\ base c' = base c)
       (process_element text e r c).
Proof.
  unfold process_element. gstep; [vauto|].
  eapply good_bind; [apply resolve_namespaces_view|]. intros [nss c1] [Hk1 [Ha1 [Hc1 [Ht1 He1]]]].
  cbn [snd] in *. cbv zeta.
  eapply good_bind; [apply resolve_attributes_view|]. intros [ats c2] [Hk2 [Ht2 [He2 Hb2]]].
  cbn [snd] in *. cbv zeta.
  assert (Hb1 : base c2 = base c).
  { rewrite Hb2. vsimp. rewrite Hk1, Ha1, Hc1. reflexivity. }
  assert (Ht : c_after_text c2 = c_after_text c) by (vsimp; congruence).
  assert (He : eld c c2) by (vsimp; destruct He1, He2; split; congruence).
  clear Hk1 Ha1 Hc1 Ht1 He1 Hk2 Ht2 He2 Hb2.
  destruct e.
  - (* EOpen *)
    gb. eapply good_bind; [apply append_node_view|]. intros [i c3] [Hk3 [Ha3 [Hc3 [Ht3 He3]]]].
    cbn [good fst snd] in *. vsimp. destruct He, He3.
    rewrite Hk3, Ha3, Hc3, kinds_len_app, kinds_len_cons in *. cbn [klen].
    change (kinds_len []) with 0. repeat split; try congruence. lia.
  - (* EClose *)
    vauto.
    eapply good_bind; [apply upd_node_kinds; reflexivity|]. intros nodes Hn. cbv beta in Hn.
    vauto; vsimp; destruct He; rewrite ?Hn in *; repeat split; congruence.
  - (* EEmpty *)
    gb. eapply good_bind; [apply append_node_view|]. intros [i c3] [Hk3 [Ha3 [Hc3 [Ht3 He3]]]].
    cbn [good fst snd] in *. vsimp. destruct He, He3.
    rewrite Hk3, Ha3, Hc3, kinds_len_app, kinds_len_cons in *. cbn [klen].
    change (kinds_len []) with 0. repeat split; try congruence. lia.
Qed.

End WithText.
