(* Proofs/CstSound6uRDoc.v -- C08 soundness on stage S6 (Spec/CstFullS6.v), markup-valued entities declared but
   never referenced (Proofs/CstSound6U.v): the document level and the theorem, parametric in [ValOK]
   (a literal accepted by markup_ok, without '&', is the rendering of well-formed items: Proofs/CstSound6Val.v).
   CstSoundPRDoc.v on Frag6u; the body, well-formed for ents_meaning on E.level (map pd xds), is turned into
   the conditions of S6.wf_doc by Proofs/CstSound6uEmb.v. *)
From Coq Require Import String.
From Coq Require Import List Arith NArith Bool Lia ZifyBool ZifyN ZifyNat.
Import ListNotations.
From RX Require Import Generated.
From RX.Model Require Import Base CharClass Stream Tokenizer Doc Builder Parse.
From RX.Spec Require Cst Chars CstU CstNs Scope.
From RX.Spec Require CstText.
From RX.Spec Require Import CstFull CstFullS4 CstFullS5 CstFullS6.
From RX.Proofs Require Import Tactics CstLex CstULex CstTextLex.
From RX.Proofs Require CstBuild RejectProofs CstFullTree CstFullS2Sem CstNsTree CstSoundDoc CstSoundTDoc.
From RX.Proofs Require CstFullS5 CstFullS5Dtd CstFullS4Sem CstFullS4TSem CstFullS6Embed5 CstFullS6Doc.
From RX.Proofs Require Import CstFullS3Sem CstFullS3Text.
From RX.Proofs Require Import CstSound CstSoundT CstSoundTLex CstSoundULex CstSoundBuild CstSoundTBuild CstSoundTText CstSoundTMain.
From RX.Proofs Require Import CstSoundN CstSoundNLex CstSoundNBuild CstSoundNText CstSoundNMain CstSoundNDoc.
From RX.Proofs Require Import CstSoundP CstSoundPEnt CstSoundPLex CstSoundPDtd CstSoundPBuild CstSoundPText.
From RX.Proofs Require Import CstSoundPRef.
From RX.Proofs Require Import CstSound6 CstSound6U CstSound6uLex CstSound6uDtd CstSound6uText CstSound6uRText CstSound6uRTok CstSound6uRMain CstSound6uDoc CstSound6uEmb.
Open Scope N_scope.

Notation item3 := (CstFull.item epieces).
Notation pd := CstFullS4Sem.pd.

(* ---- from the subset items of CstSound6uLex.v to Spec/CstFullS6.v ---- *)
Definition to6 (s : sdecl) : sdecl6 :=
  match s with
  | SEntity e => XEntity (S6.xdecl_of e)
  | SXml e => XEntity e
  | SParam a c d e f g h => XOther (X5.SParam a c d e f g h)
  | SExternal a c d e f g h => XOther (X5.SExternal a c d e f g h)
  | SMarkup a c d => XOther (X5.SMarkup a c d)
  | SMisc a i => XOther (X5.SMisc a i)
  end.
Definition xds_of (ds : list sdecl) : list X4.xdecl :=
  flat_map (fun s => match s with SEntity e => [S6.xdecl_of e] | SXml e => [e] | _ => [] end) ds.
Definition dt6 (t : doctype) : doctype6 :=
  {| z_ws1 := t_ws1 t; z_name := t_name t; z_ws2 := t_ws2 t; z_ext := t_ext t;
     z_subset := match t_subset t with
                 | Some u => Some {| zu_decls := map to6 (u_decls u); zu_ws3 := u_ws3 u; zu_ws4 := u_ws4 u |}
                 | None => None
                 end |}.

Lemma r_to6 s : r_sdecl6 (to6 s) = r_sdecl s.
Proof. destruct s; cbn [to6 r_sdecl6 r_sdecl X5.r_sdecl]; try reflexivity. apply CstFullS6Embed5.r_xdecl_of. Qed.
Lemma r_to6s ds : flat_map r_sdecl6 (map to6 ds) = flat_map r_sdecl ds.
Proof. induction ds as [|s r IH]; [reflexivity|]. cbn [map flat_map]. rewrite r_to6, IH. reflexivity. Qed.
Lemma r_dt6 t : r_doctype6 (dt6 t) = r_doctype t.
Proof.
  unfold r_doctype6, r_doctype, dt6. cbn [z_ws1 z_name z_ws2 z_ext z_subset]. do 5 f_equal.
  destruct (t_subset t) as [u|]; [|reflexivity]. cbn [X5.r_opt r_opt]. unfold r_subset6, r_subset. cbn [zu_decls zu_ws3 zu_ws4]. rewrite r_to6s. reflexivity.
Qed.
Lemma wf_to6 s : wf_sdecl s = true -> wf_sdecl6 (to6 s) = true.
Proof.
  destruct s; cbn [to6 wf_sdecl6 wf_sdecl X5.wf_sdecl is_sentity negb andb]; intros H; try exact H.
  - apply CstFullS6Embed5.wf_xdecl_of. exact H.
  - apply andb_true_iff in H. apply H.
Qed.
Lemma wf_dt6 t : wf_doctype t = true -> wf_doctype6 (dt6 t) = true.
Proof.
  unfold wf_doctype, wf_doctype6, dt6. cbn [z_ws1 z_name z_ws2 z_ext z_subset]. rewrite !andb_true_iff. intros [[[[A B0] C0] D] F].
  repeat split; try assumption. destruct (t_subset t) as [u|]; [|reflexivity]. cbn [X5.wf_opt wf_opt] in *.
  unfold wf_subset in F. unfold wf_subset6. cbn [zu_decls zu_ws3 zu_ws4]. rewrite !andb_true_iff in F |- *. destruct F as [[F1 F2] F3].
  repeat split; try assumption. clear - F1. induction (u_decls u) as [|s r IH]; [reflexivity|]. cbn [map forallb] in *.
  apply andb_true_iff in F1. destruct F1 as [G1 G2]. rewrite (wf_to6 s G1), (IH G2). reflexivity.
Qed.
Lemma ge6_dt6 t : ge_decls6 (dt6 t) = xds_of (subset_decls t).
Proof.
  unfold ge_decls6, subset_decls6, dt6, subset_decls, xds_of. cbn [z_subset]. destruct (t_subset t) as [u|]; [|reflexivity]. cbn [zu_decls].
  induction (u_decls u) as [|s r IH]; [reflexivity|]. cbn [map flat_map]. rewrite IH. destruct s; reflexivity.
Qed.

Section DocR.
Variable text : bytes.
Hypothesis HF : Frag6u text.
Hypothesis HVal : ValOK text.
Notation T_ := (Parse.token text).
Notation st := (CstLex.st text).
Notation W := (CstLex.W text).
Notation WV := (CstULex.WV text).
Notation SimP := (CstSoundPBuild.SimP text).
Notation Res := (CstSoundPBuild.Res text).
Notation XA := (CstSound6uDoc.XA text).
Notation tail_doc := (CstSound6uDoc.tail_doc text).
Notation rest_doc := (CstSound6uDoc.rest_doc text).
Notation misc_sound_p := (CstSound6uDoc.misc_sound_p text HF).
Notation XA_mono := (CstSound6uDoc.XA_mono text).
Notation XA_after := (CstSound6uDoc.XA_after text HF).

Section Body.
Variable decls : list E.edecl.
Variable ets : list entity.
Hypothesis Henv : Forall2 (uent_ok text) decls ets.
Hypothesis Hdecls : Forall CstFullS4TSem.udecl_okc decls.
Hypothesis Hunref : forall d its, In d decls -> E.e_value d = E.EContent its -> contains_b ([38] ++ E.e_name d ++ [59]) text = false.
Hypothesis Hnames : Forall (fun d => uname (E.e_name d)) decls.
Notation M3 := (ents_meaning (E.level decls E.max_level)).

Lemma lv_wf_one_r opn (cs : list item3) w : lv_wf_r decls opn [(cs, w)] -> exists f, opn = [f] /\ level_ok_r decls f (cs, w).
Proof. intros H. inversion H as [|f cw o l Hl Hr]; subst. inversion Hr; subst. eauto. Qed.

Lemma body_sound_r p l c cF : WV p l -> bom_len text <= p -> XA p -> SimP ets c [] -> Res c [] 0%nat [] ->
  nonelem (erows c) -> tail_doc (st p l) c = Ok cF ->
  (exists ndE, In ndE (d_nodes (c_doc cF)) /\ is_element_kind (nd_kind ndE) = true) ->
  (1 <? len_N (c_parent_prefixes cF)) = false ->
  exists w0 (root : item3) post wend,
    l = w0 ++ r_item root ++ r_pairs_s post ++ wend /\ Cst.wf_ws w0 = true /\
    wf_item M3 root = true /\ ns_oks [] (den M3 root) = true /\
    match root with IElem _ _ _ _ => True | _ => False end /\
    wf_pairs_s post = true /\ Cst.wf_ws wend = true /\
    Res cF (NT.items_decls (den M3 root)) (NT.ns_costs [] (den M3 root)) [].
Proof.
  intros HW0 Hbp HX S1 RS1 N1 HD (ndE & HinE & HkE) Epp. unfold tail_doc in HD.
  destruct (skip_spaces_inv_p text HF _ _ HW0) as (w3 & l3 & -> & Hw3 & Hst3 & Es3 & HW3). rewrite Es3 in HD.
  ib HD q2 Hroot. destruct q2 as [s2 c2]. ib HD q3 Hm2. destruct q3 as [s3 c3].
  assert (HX3 : XA (p + blen w3)) by (apply (XA_mono p); [exact HX|lia]).
  assert (ROOT : exists (root : item3) l4 p4,
            l3 = r_item root ++ l4 /\ s2 = st p4 l4 /\ WV p4 l4 /\ p + blen w3 <= p4 /\ SimP ets c2 [] /\
            wf_item M3 root = true /\ ns_oks [] (den M3 root) = true /\
            match root with IElem _ _ _ _ => True | _ => False end /\
            Res c2 (NT.items_decls (den M3 root)) (NT.ns_costs [] (den M3 root)) []).
  { destruct (match curr_byte_opt (st (p + blen w3) l3) with Some x => x =? 60 | None => false end) eqn:Ecb.
    2:{ exfalso. inversion Hroot; subst s2 c2. unfold parse_misc in Hm2.
      destruct (misc_sound_p ets (fun _ => True) (fun _ _ _ _ => I) _ _ _ _ _ _ _ HW3 HX3 S1 I Hm2) as (post & w4 & l4 & p4 & K2 & _ & _ & _ & _ & _ & _ & _ & R2 & NK2 & _).
      assert (NE : nonelem (erows cF)).
      { assert (cF = c3) by (destruct (negb (at_end s3)); [noerr|inversion HD; reflexivity]). subst cF.
        rewrite R2. unfold nonelem. apply Forall_app; split; assumption. }
      unfold nonelem, erows in NE. rewrite Forall_forall in NE.
      specialize (NE (erowof ndE) (in_map erowof _ _ HinE)). cbn [erowof snd] in NE.
      destruct (nd_kind ndE); cbn in NE, HkE; congruence. }
    rewrite (CstSoundTDoc.curr_byte_opt_st_any_t text) in Ecb by apply HW3.
    destruct l3 as [|x l3']; [discriminate|]. assert (x = 60) by lia. subst x.
    ib Hroot q Hq. destruct q as [[open sE] cE].
    change (60 :: l3') with ([60] ++ l3') in *.
    destruct (inv_element_p text HF context T_ _ _ _ _ _ _ HW3 Hq)
      as (pr & loc & attrs & ws_end & l4 & ca & cb & El & Hname & Hrw & Hwe & Hev1 & Hev2 & Hev3 & -> & HW4).
    rewrite El in HW3.
    destruct (tag_sound_r text HF decls ets Henv Hdecls Hunref Hnames _ _ _ _ _ _ _ _ _ _ _ _ HW3 Hname Hrw Hwe S1 [] 0%nat RS1 Hev1 Hev2 Hev3) as (es & nss & HS1 & Ees & Hok & RSE).
    cbn [top_sc app] in Hok, RSE.
    destruct open.
    - unfold parse_content in Hroot.
      assert (Hl1 : N.of_nat (length [frame_of_r decls [] pr loc es nss]) = 0 + 1) by reflexivity.
      assert (Hbp4 : bom_len text < p + blen w3 + 1 + blen (rq pr loc) + blen (flat_map r_rattr attrs) + blen ws_end + blen (tag_tail (negb true))) by lia.
      destruct (content_sound_r text HF decls ets Henv Hdecls Hunref Hnames _ 0 _ _ _ _ _ _ _ _ HW4 Hbp4 HS1 RSE Hl1 Hroot) as [HC|HU].
      + destruct HC as (lv & l5 & p5 & opn & rest & E1' & E3' & E4' & E5' & E6' & E7' & E9' & E10' & E11').
        destruct lv as [|[cs w] [|? ?]]; cbn [length] in E3'; try (exfalso; clear - E3'; lia).
        destruct (lv_wf_one_r _ _ _ E10') as (f0 & Eo & (A1 & A2 & A3 & A4)). rewrite Eo in *. clear Eo.
        cbn [app] in E1'. injection E1' as En Er. rewrite <- En, <- Er in *. cbn [fst snd] in *.
        destruct (wf_elem_intro_r decls [] pr loc es ws_end (Some (cs, w)) Hok) as (W1 & W2).
        { split; [exact A3|]. split; [exact A2|]. split; [exact A1|exact A4]. }
        exists (IElem (mkq pr loc) es ws_end (Some (cs, w))), l5, p5.
        split. { rewrite El, E4', CstFullTree.r_item_elem, rq_eq, Ees. cbn [negb tag_tail r_levels_r].
                 unfold fq, frame_of_r. cbn [f_pre f_loc].
                 change (CstNs.r_qname {| CstNs.q_prefix := utf8s pr; CstNs.q_local := utf8s loc |}) with (r_qname (mkq pr loc)).
                 rewrite rq_eq. rewrite <- !app_assoc. cbn [app]. rewrite <- ?app_assoc. rewrite ?app_nil_r. reflexivity. }
        split; [exact E5'|]. split; [exact E6'|]. split.
        { pose proof (W_le text _ _ (WV_W _ _ _ E6')) as Hle5. subst s2. rewrite E4' in HW4.
          pose proof (WV_W _ _ _ HW4) as [_ Ha]. pose proof (WV_W _ _ _ E6') as [_ Hb]. rewrite blen_app in Ha. lia. }
        split; [exact E7'|].
        split; [exact W1|]. split; [exact W2|]. split; [exact I|].
        rewrite (decls_elem_r decls), (costs_elem_r decls []). cbn [lv_decls_r lv_cost_r frame_of_r f_sc top_sc] in E11'.
        rewrite app_nil_r, Nat.add_0_r in E11'. exact E11'.
      + exfalso. destruct HU as (stk2 & pz & lz & -> & HWz & HS2 & Hne & Hbz). unfold parse_misc in Hm2.
        assert (HXz : XA pz) by (apply XA_after; exact Hbz).
        destruct (misc_sound_p ets (fun _ => True) (fun _ _ _ _ => I) _ _ _ _ _ _ _ HWz HXz HS2 I Hm2) as (post & w4 & l5 & p5 & K2 & _ & _ & _ & _ & _ & _ & S3 & _ & _).
        assert (cF = c3) by (destruct (negb (at_end s3)); [noerr|inversion HD; reflexivity]). subst cF.
        pose proof (sn_pp _ _ _ _ S3) as Hpp. apply (f_equal (@length bytes)) in Hpp.
        rewrite map_length in Hpp. cbn [length] in Hpp. rewrite rev_length, map_length in Hpp.
        unfold len_N in Epp. destruct stk2; [congruence|]. cbn [length] in Hpp.
        clear - Hpp Epp. lia.
    - inversion Hroot; subst s2 c2.
      destruct (wf_elem_intro_r decls [] pr loc es ws_end None Hok I) as (W1 & W2).
      eexists (IElem (mkq pr loc) es ws_end None), l4, _.
      split. { rewrite El, CstFullTree.r_item_elem, rq_eq, Ees. cbn [negb tag_tail]. rewrite <- !app_assoc. reflexivity. }
      split; [reflexivity|]. split; [exact HW4|]. split; [lia|]. split; [exact HS1|].
      split; [exact W1|]. split; [exact W2|]. split; [exact I|].
      rewrite (decls_elem_r decls), (costs_elem_r decls []). rewrite app_nil_r, Nat.add_0_r. exact RSE. }
  destruct ROOT as (root & l4 & p4 & -> & -> & HW4 & Hp4 & S2' & Hrwf & Hrns & Hrk & RS2).
  unfold parse_misc in Hm2.
  assert (HX4 : XA p4) by (apply (XA_mono p); [exact HX|lia]).
  destruct (misc_sound_p ets _ (fun a b0 => Res_eq text a b0 _ _ []) _ _ _ _ _ _ _ HW4 HX4 S2' RS2 Hm2)
    as (post & w4 & l5 & p5 & K2 & -> & -> & HW5 & _ & Hpost & Hw4 & S3 & _ & _ & RS3).
  rewrite (at_end_st text) in HD by apply HW5. destruct l5 as [|? ?]; cbn [negb] in HD; [|noerr].
  inversion HD; subst cF. clear HD.
  exists w3, root, post, w4. rewrite app_nil_r. split; [rewrite <- ?app_assoc; reflexivity|].
  split; [exact Hw3|]. split; [exact Hrwf|]. split; [exact Hrns|]. split; [exact Hrk|]. split; [exact Hpost|]. split; [exact Hw4|exact RS3].
Qed.

(* ---- assembling the main part ---- *)
Lemma main_ok_r pre wpre (root : item3) post wend c :
  wf_pairs_s pre = true -> Cst.wf_ws wpre = true -> wf_item M3 root = true -> ns_oks [] (den M3 root) = true ->
  match root with IElem _ _ _ _ => True | _ => False end -> wf_pairs_s post = true -> Cst.wf_ws wend = true ->
  Res c (NT.items_decls (den M3 root)) (NT.ns_costs [] (den M3 root)) [] ->
  let main := {| d_before := snd (shift_s pre wpre); d_ws0 := fst (shift_s pre wpre); d_root := root;
                 d_after := post; d_ws_end := wend |} in
  @wf_main_s epieces M3 main = true /\
  CstFull.render main = r_pairs_s pre ++ wpre ++ r_item root ++ r_pairs_s post ++ wend /\
  CstFull.distinct_decls_le M3 main (N.to_nat 65535) /\
  1 + N.of_nat (CstFull.ns_cost M3 main) <= u32_max.
Proof.
  intros Hpre Hwpre Hrwf Hrns Hrk Hpost Hwend RS3 main.
  destruct (shift_wf_s pre wpre Hpre (ws_s _ Hwpre)) as (B1 & B2).
  split; [|split; [|split]].
  - unfold wf_main_s, main. cbn [d_ws0 d_ws_end d_before d_root d_after].
    rewrite B1, (ws_s _ Hwend), B2. cbn [andb]. unfold wf_pairs_s in Hpost. rewrite Hpost.
    rewrite CstFullTree.ns_oks_forallb, Hrns, !andb_true_r.
    pose proof (RX.Proofs.CstFullS5.wf_item_s_of M3 root Hrwf) as Hs. destruct root; try contradiction. exact Hs.
  - unfold CstFull.render, main. cbn [d_ws0 d_ws_end d_before d_root d_after].
    rewrite app_assoc, shift_render_s. unfold r_pairs_s. rewrite <- !app_assoc. reflexivity.
  - destruct RS3 as [(vs & Ev & Hi) Hlim _ Hu32]. rewrite app_nil_r in Hi.
    unfold CstFull.distinct_decls_le, doc_decls, main. cbn [d_root]. rewrite items_decls_flat.
    intros l0 Hnd0 Hl0. pose proof (NoDup_incl_length Hnd0 (incl_tran Hl0 Hi)) as Hlen.
    pose proof (valsd_len text (c_doc c)) as Hvl. unfold vals in Ev. rewrite Ev in Hvl. cbn [length] in Hvl.
    unfold len_N in Hlim. lia.
  - destruct RS3 as [_ _ _ Hu32]. unfold CstFull.ns_cost, main. cbn [d_root]. rewrite ns_costs_sum. exact Hu32.
Qed.

End Body.

(* ---- the declared entities, as the builder keeps them ---- *)
Lemma dsteps_env6 (P : context -> Prop) (HP : forall a b, nseq a b -> P a -> P b) : forall ds ets c c',
  dsteps text context T_ ds c c' -> forallb wf_sdecl ds = true -> SimP ets c [] -> P c ->
  exists ents K, SimP (ets ++ ents) c' [] /\ Forall2 (uent_ok text) (map pd (xds_of ds)) ents /\
    erows c' = erows c ++ K /\ nonelem K /\ P c' /\
    (forall e, In e (xds_of ds) -> is_xcontent e = true -> contains_b ([38] ++ utf8s (X4.x_name e) ++ [59]) text = false).
Proof.
  induction ds as [|sd ds IH]; intros ets c c' Hd Hwf HS HR.
  - inversion Hd; subst. exists [], []. rewrite !app_nil_r. split; [exact HS|]. split; [constructor|]. split; [reflexivity|]. split; [constructor|].
    split; [exact HR|]. intros e [].
  - inversion Hd as [|? ? ? c1 ? Hs Hrest]; subst. cbn [forallb] in Hwf. apply andb_true_iff in Hwf. destruct Hwf as [Hw1 Hw2].
    assert (ONE : exists e1 K1, SimP (ets ++ e1) c1 [] /\
              Forall2 (uent_ok text) (map pd (xds_of [sd])) e1 /\
              erows c1 = erows c ++ K1 /\ nonelem K1 /\ P c1 /\
              (forall e, In e (xds_of [sd]) -> is_xcontent e = true -> contains_b ([38] ++ utf8s (X4.x_name e) ++ [59]) text = false)).
    { assert (SAME : c1 = c -> xds_of [sd] = [] -> exists e1 K1, SimP (ets ++ e1) c1 [] /\ Forall2 (uent_ok text) (map pd (xds_of [sd])) e1 /\
                erows c1 = erows c ++ K1 /\ nonelem K1 /\ P c1 /\
                (forall e, In e (xds_of [sd]) -> is_xcontent e = true -> contains_b ([38] ++ utf8s (X4.x_name e) ++ [59]) text = false)).
      { intros -> Ex. rewrite Ex. exists [], []. rewrite !app_nil_r. split; [exact HS|]. split; [constructor|]. split; [reflexivity|]. split; [constructor|].
        split; [exact HR|]. intros e []. }
      destruct sd as [e|? ? ? ? ? ? ?|? ? ? ? ? ? ?|? ? ?|ws0 i|e]; cbn [dstep] in Hs; try (apply SAME; [exact Hs|reflexivity]).
      - destruct Hs as (nm & vl & Hev & Hnm & Hvl & vs & tail & Evl & HWv).
        destruct (step_entity_p text ets _ _ _ _ _ HS Hev) as (A & B0 & C0).
        cbn [wf_sdecl X5.wf_sdecl] in Hw1. pose proof (CstFullS6Embed5.udecl_s_etext e Hw1) as Het.
        eexists [_], []. rewrite app_nil_r. split; [exact A|]. split; [|split; [exact B0|split; [constructor|split; [exact (HP _ _ C0 HR)|]]]].
        + cbn [xds_of flat_map app map]. rewrite (CstFullS6Embed5.pd_xdecl_of e Het). constructor; [|constructor].
          split; [cbn [en_name enc_decl E.e_name]; exact Hnm|]. exists vs, tail. cbn [en_value]. split; assumption.
        + cbn [xds_of flat_map app]. intros e0 [<-|[]] Hx. exfalso. unfold is_xcontent, S6.xdecl_of in Hx. cbn [X4.x_value] in Hx.
          destruct (E.e_value e); discriminate.
      - destruct i as [? ? ? ?|?|bs|t sp v]; try contradiction.
        + destruct Hs as (s0 & r0 & Hev). destruct (step_comment_p text ets _ _ _ _ _ HS Hev) as (A & B0).
          eexists [], [_]. rewrite app_nil_r. split; [exact A|]. split; [constructor|]. split; [exact B0|]. split; [constructor; [reflexivity|constructor]|].
          split; [exact (HP _ _ (leaf_nseq text _ _ _ _ Hev) HR)|]. intros e [].
        + destruct Hs as (t0 & v0 & r0 & Hev). destruct (step_pi_p text ets _ _ _ _ _ _ HS Hev) as (A & B0).
          eexists [], [_]. rewrite app_nil_r. split; [exact A|]. split; [constructor|]. split; [exact B0|]. split; [constructor; [reflexivity|constructor]|].
          split; [exact (HP _ _ (leaf_nseq text _ _ _ _ Hev) HR)|]. intros e [].
      - destruct Hs as (nm & vl & Hev & Hnm & Hvl & (vs & tail & Evl & HWv) & Hun).
        destruct (step_entity_p text ets _ _ _ _ _ HS Hev) as (A & B0 & C0).
        eexists [_], []. rewrite app_nil_r. split; [exact A|]. split; [|split; [exact B0|split; [constructor|split; [exact (HP _ _ C0 HR)|]]]].
        + cbn [xds_of flat_map app map]. constructor; [|constructor].
          split; [cbn [en_name CstFullS4Sem.pd E.e_name]; exact Hnm|]. exists vs, tail. cbn [en_value CstFullS4Sem.pd E.e_value].
          rewrite CstFullS4Sem.r_value_pv. split; assumption.
        + cbn [xds_of flat_map app]. intros e0 [<-|[]] _. exact Hun. }
    destruct ONE as (e1 & K1 & A1 & F1 & B1 & C1 & D1 & U1).
    destruct (IH _ _ _ Hrest Hw2 A1 D1) as (e2 & K2 & A2 & F2 & B2 & C2 & D2 & U2).
    assert (Ex : xds_of (sd :: ds) = xds_of [sd] ++ xds_of ds) by (unfold xds_of; cbn [flat_map]; rewrite app_nil_r; reflexivity).
    exists (e1 ++ e2), (K1 ++ K2). rewrite app_assoc. split; [exact A2|]. split.
    { rewrite Ex, map_app. apply Forall2_app; assumption. }
    split; [rewrite B2, B1, app_assoc; reflexivity|]. split; [apply Forall_app; split; assumption|]. split; [exact D2|].
    intros e He. rewrite Ex in He. apply in_app_or in He. destruct He as [He|He]; [apply U1|apply U2]; exact He.
Qed.

(* what the declarations of a well-formed subset are for the character-data machine *)
Lemma xds_facts ds : forallb wf_sdecl ds = true ->
  Forall CstFullS4TSem.udecl_okc (map pd (xds_of ds)) /\ Forall (fun d => uname (E.e_name d)) (map pd (xds_of ds)).
Proof.
  induction ds as [|s r IH]; intros H; [split; constructor|]. cbn [forallb] in H. apply andb_true_iff in H. destruct H as [H1 H2].
  destruct (IH H2) as [I1 I2]. unfold xds_of. cbn [flat_map]. fold (xds_of r). rewrite map_app. split; apply Forall_app; split; try assumption.
  - destruct s; cbn [map]; try constructor; try constructor.
    + cbn [wf_sdecl X5.wf_sdecl] in H1. rewrite (CstFullS6Embed5.pd_xdecl_of e (CstFullS6Embed5.udecl_s_etext e H1)).
      apply CstFullS4TSem.udecl_ok_c. apply (proj2 (RX.Proofs.CstFullS5Dtd.udecl_of_s e H1)).
    + cbn [wf_sdecl] in H1. apply andb_true_iff in H1. destruct H1 as [_ Hx]. unfold is_xcontent in Hx.
      unfold CstFullS4TSem.udecl_okc, CstFullS4Sem.pd. cbn [E.e_value]. destruct (X4.x_value e); [discriminate|exact I].
  - destruct s; cbn [map]; try constructor; try constructor.
    + cbn [wf_sdecl X5.wf_sdecl] in H1. unfold wf_udecl_s in H1. repeat (apply andb_true_iff in H1; destruct H1 as [H1 ?]).
      cbn [CstFullS4Sem.pd S6.xdecl_of E.e_name X4.x_name]. eexists. split; [reflexivity|assumption].
    + cbn [wf_sdecl] in H1. apply andb_true_iff in H1. destruct H1 as [H1 _]. unfold wf_xdecl_s in H1. repeat (apply andb_true_iff in H1; destruct H1 as [H1 ?]).
      cbn [CstFullS4Sem.pd E.e_name]. eexists. split; [reflexivity|assumption].
Qed.

Lemma unref_of xds : (forall e, In e xds -> is_xcontent e = true -> contains_b ([38] ++ utf8s (X4.x_name e) ++ [59]) text = false) ->
  forall d its, In d (map pd xds) -> E.e_value d = E.EContent its -> contains_b ([38] ++ E.e_name d ++ [59]) text = false.
Proof.
  intros H d its Hin Ev. apply in_map_iff in Hin. destruct Hin as (e & <- & He). cbn [CstFullS4Sem.pd E.e_name E.e_value] in *.
  apply (H e He). unfold is_xcontent. destruct (X4.x_value e); [discriminate|reflexivity].
Qed.

(* ---- the body, well-formed for ents_meaning on E.level (map pd xds), as the body of an S6 document ---- *)
Lemma s6_of_main xds (bom : bool) (xd : option xmldecl) (g : option S6.dtd_part) (main : CstFull.doc epieces) n :
  match g with Some g0 => ge_decls6 (S6.g_dtd g0) | None => [] end = xds ->
  wf_opt wf_xmldecl xd = true -> X5.wf_opt S6.wf_dtd_part g = true ->
  @wf_main_s epieces (ents_meaning (E.level (map pd xds) E.max_level)) main = true ->
  CstFull.distinct_decls_le (ents_meaning (E.level (map pd xds) E.max_level)) main n ->
  let d6 := {| S6.x_bom := bom; S6.x_decl := xd; S6.x_dtd := g; S6.x_main := main |} in
  S6.wf_doc d6 = true /\ S6.distinct_decls_le d6 n /\
  S6.ns_cost d6 = CstFull.ns_cost (ents_meaning (E.level (map pd xds) E.max_level)) main.
Proof.
  intros Eg Hx Hg Hm Hdist d6. set (M := ents_meaning (E.level (map pd xds) E.max_level)) in *.
  pose proof Hm as Hm0. unfold wf_main_s in Hm. rewrite !andb_true_iff in Hm. destruct Hm as [[[[[M1 M2] M3] M4] M5] M6].
  destruct (d_root main) as [name es ws body| | |] eqn:Er; try discriminate.
  destruct (EmbI_all xds (IElem name es ws body) M4) as (Wr & its & tr & Ei & Gt & Pr).
  cbn [is_text] in Pr. destruct Pr as (root' & -> & Hnt & Hden & Hprov).
  assert (Einl : X4.S4.inline (S6.core d6) =
            Some ({| d_before := map (fun p => (X4.S4.misc_item (fst p), snd p)) (d_before main); d_ws0 := d_ws0 main; d_root := root';
                     d_after := map (fun p => (fst p, X4.S4.misc_item (snd p))) (d_after main); d_ws_end := d_ws_end main |}, tr)).
  { unfold X4.S4.inline. change (X4.S4.table (S6.core d6)) with (X4.level (S6.decls d6) E.max_level).
    change (X4.S4.x_main (S6.core d6)) with main. unfold S6.decls, d6. cbn [S6.x_dtd]. rewrite Eg, Er, Ei. reflexivity. }
  split; [|split].
  - unfold S6.wf_doc. rewrite Einl. unfold d6. cbn [S6.x_decl S6.x_dtd S6.x_main].
    rewrite Hx, Hg, M1, M2, M3, M5, Er, Wr. cbn [andb d_root].
    rewrite (GoodT_limits tr Gt), Hprov, Hden. cbn [andb]. exact M6.
  - unfold S6.distinct_decls_le, X4.S4.distinct_decls_le. rewrite Einl. unfold CstFull.distinct_decls_le, doc_decls in *. cbn [d_root].
    rewrite Hden. rewrite Er in Hdist. exact Hdist.
  - unfold S6.ns_cost, X4.S4.ns_cost. rewrite Einl. unfold CstFull.ns_cost. cbn [d_root]. rewrite Hden, Er. reflexivity.
Qed.

Lemma wf_doctype_decls t : wf_doctype t = true -> forallb wf_sdecl (subset_decls t) = true.
Proof.
  unfold wf_doctype, subset_decls. intros H. apply andb_true_iff in H. destruct H as [_ H]. destruct (t_subset t) as [u|]; [|reflexivity].
  cbn [wf_opt] in H. unfold wf_subset in H. apply andb_true_iff in H. destruct H as [H _]. apply andb_true_iff in H. apply H.
Qed.

Lemma rest_sound_6u t0 c0 cF : WV (bom_len text) t0 -> strip_bom text = t0 -> SimP [] c0 [] -> Res c0 [] 0%nat [] ->
  nonelem (erows c0) -> rest_doc true (st (bom_len text) t0) c0 = Ok cF ->
  (exists ndE, In ndE (d_nodes (c_doc cF)) /\ is_element_kind (nd_kind ndE) = true) ->
  (1 <? len_N (c_parent_prefixes cF)) = false ->
  exists xd g main xds, wf_opt wf_xmldecl xd = true /\ X5.wf_opt S6.wf_dtd_part g = true /\
    t0 = r_opt r_xmldecl xd ++ X5.r_opt S6.r_dtd_part g ++ CstFull.render main /\
    match g with Some g0 => ge_decls6 (S6.g_dtd g0) | None => [] end = xds /\
    @wf_main_s epieces (ents_meaning (E.level (map pd xds) E.max_level)) main = true /\
    CstFull.distinct_decls_le (ents_meaning (E.level (map pd xds) E.max_level)) main (N.to_nat 65535) /\
    1 + N.of_nat (CstFull.ns_cost (ents_meaning (E.level (map pd xds) E.max_level)) main) <= u32_max.
Proof.
  intros HWV0 Estrip S0 RS0 N0 HD Helem Epp. pose proof (WV_W _ _ _ HWV0) as HW0. unfold CstSound6uDoc.rest_doc in HD.
  (* the XML declaration *)
  ib HD sd Hsd.
  assert (Esd : starts_with_declaration (st (bom_len text) t0) = starts_decl t0).
  { unfold starts_with_declaration, starts_decl. rewrite (starts_with_st text), (avail_st text) by exact HW0.
    f_equal. destruct (nth_error t0 5); [symmetry; apply is_sp_space|reflexivity]. }
  rewrite Esd in Hsd.
  assert (XA0 : starts_decl t0 = false -> XA (bom_len text)).
  { intros Hnd p' l' HW' Hp'. destruct (N.eq_dec p' (bom_len text)) as [->|Hne].
    - destruct HW' as [E' _]. destruct HW0 as [E0 _]. rewrite E0 in E'. subst l'. rewrite <- Estrip. apply (xml_at_start text HF).
      rewrite Estrip. exact Hnd.
    - apply (xml_at_pos text HF _ _ HW'). lia. }
  assert (DECL : exists xd l1 p1, t0 = r_opt r_xmldecl xd ++ l1 /\ wf_opt wf_xmldecl xd = true /\ sd = st p1 l1 /\ WV p1 l1 /\
            bom_len text <= p1 /\ XA p1).
  { destruct (starts_decl t0) eqn:Ed.
    - unfold starts_decl in Ed. apply andb_true_iff in Ed. destruct Ed as [Ex Esp].
      change [60; 63; 120; 109; 108] with kw_xml in Ex. destruct (prefix_b_split _ _ Ex) as (l & ->).
      change (nth_error (kw_xml ++ l) 5) with (nth_error l 0) in Esp.
      destruct l as [|x l']; [discriminate|]. cbn [nth_error] in Esp. rewrite is_sp_space in Esp.
      assert (HQ : Qdecl (x :: l')).
      { pose proof (fp_dnames _ HF) as Hd. unfold decl_names_ok in Hd. cbv zeta in Hd. rewrite Estrip in Hd.
        assert (Esd' : starts_decl (kw_xml ++ x :: l') = true) by (unfold starts_decl; cbn; rewrite is_sp_space; exact Esp).
        rewrite Esd' in Hd. change (tl (kw_xml ++ x :: l')) with ([63; 120; 109; 108] ++ x :: l') in Hd.
        apply (Qdecl_app [63; 120; 109; 108]); [repeat constructor; lia|exact Hd]. }
      destruct (inv_declaration text HF _ _ _ HWV0 HQ Esp Hsd) as (xd & l1 & E1 & Hxd & -> & HW1).
      exists (Some xd), l1, (bom_len text + blen (r_xmldecl xd)). cbn [r_opt wf_opt].
      split; [exact E1|]. split; [exact Hxd|]. split; [reflexivity|]. split; [exact HW1|]. split; [lia|].
      apply XA_after. assert (1 <= blen (r_xmldecl xd)) by (unfold r_xmldecl; rewrite !blen_app; change (blen kw_xml) with 5; lia). lia.
    - inversion Hsd; subst sd. exists None, t0, (bom_len text). cbn [r_opt app].
      split; [reflexivity|]. split; [reflexivity|]. split; [reflexivity|]. split; [exact HWV0|]. split; [lia|]. apply XA0. reflexivity. }
  clear Hsd Esd XA0. destruct DECL as (xd & l1 & p1 & -> & Hxd & -> & HW1 & Hp1 & HX1).
  exists xd.
  (* Misc* *)
  ib HD q1 Hm1. destruct q1 as [s1 c1]. unfold parse_misc in Hm1.
  destruct (misc_sound_p [] _ (fun a b0 => Res_eq text a b0 [] 0%nat []) _ _ _ _ _ _ _ HW1 HX1 S0 RS0 Hm1)
    as (pre & w1 & l2 & p2 & K1 & -> & -> & HW2 & Hp2 & Hpre & Hw1 & S1 & R1 & NK1 & RS1).
  destruct (skip_spaces_inv_p text HF _ _ HW2) as (w2 & l3 & -> & Hw2 & Hst2 & Es2 & HW3).
  cbv zeta in HD. rewrite Es2 in HD. rewrite (starts_with_st text) in HD by apply HW3.
  change (b "<!DOCTYPE") with E.kw_doctype in HD.
  assert (N1 : nonelem (erows c1)) by (rewrite R1; apply Forall_app; split; assumption).
  assert (HX3 : XA (p2 + blen w2)) by (apply (XA_mono p1); [exact HX1|lia]).
  ib HD q2 Hdt. destruct q2 as [s2 c2].
  destruct (prefix_b E.kw_doctype l3) eqn:Edt.
  - (* a DOCTYPE *)
    destruct (prefix_b_split _ _ Edt) as (l4 & ->). cbn [negb] in Hdt. ib Hdt q3 Hd3. destruct q3 as [s3 c3].
    destruct (inv_doctype text HF HVal context T_ _ _ _ _ _ HW3 ltac:(lia) Hd3) as [REG|EOF].
    + destruct REG as (t & l5 & E5 & Hwt & Hds & -> & HW5).
      pose proof (wf_doctype_decls t Hwt) as Hwds.
      destruct (dsteps_env6 _ (fun a b0 => Res_eq text a b0 [] 0%nat []) _ _ _ _ Hds Hwds S1 RS1) as (ets & K2 & S2 & Fenv & R2 & NK2 & RS2 & Hun).
      cbn [app] in S2.
      set (xds := xds_of (subset_decls t)) in *. set (decls := map pd xds).
      assert (Henv : Forall2 (uent_ok text) decls ets) by exact Fenv.
      destruct (xds_facts _ Hwds) as [Hdecls Hnames]. fold xds in Hdecls, Hnames. fold decls in Hdecls, Hnames.
      pose proof (unref_of xds Hun) as Hunref. fold decls in Hunref.
      unfold parse_misc in Hdt.
      assert (HX5 : XA (p2 + blen w2 + blen (r_doctype t))) by (apply (XA_mono p1); [exact HX1|lia]).
      destruct (misc_sound_p ets _ (fun a b0 => Res_eq text a b0 [] 0%nat []) _ _ _ _ _ _ _ HW5 HX5 S2 RS2 Hdt)
        as (mid & w3 & l6 & p6 & K3 & -> & -> & HW6 & Hp6 & Hmid & Hw3 & S3 & R3 & NK3 & RS3).
      assert (N3 : nonelem (erows c2)).
      { rewrite R3, R2. apply Forall_app; split; [apply Forall_app; split; assumption|assumption]. }
      assert (HX6 : XA p6) by (apply (XA_mono p1); [exact HX1|lia]).
      destruct (body_sound_r decls ets Henv Hdecls Hunref Hnames _ _ _ _ HW6 ltac:(lia) HX6 S3 RS3 N3 HD Helem Epp)
        as (w0 & root & post & wend & -> & Hw0 & Hrwf & Hrns & Hrk & Hpost & Hwend & RSF).
      destruct (shift_wf_s pre (w1 ++ w2) Hpre (ws_s _ (wf_ws_app _ _ Hw1 Hw2))) as (G1 & G2).
      destruct (main_ok_r decls mid (w3 ++ w0) root post wend _ Hmid (wf_ws_app _ _ Hw3 Hw0) Hrwf Hrns Hrk Hpost Hwend RSF) as (M1 & M2 & M3 & M4).
      eexists (Some {| S6.g_ws0 := fst (shift_s pre (w1 ++ w2)); S6.g_before := snd (shift_s pre (w1 ++ w2)); S6.g_dtd := dt6 t |}), _, xds.
      split; [exact Hxd|]. split.
      { cbn [X5.wf_opt]. unfold S6.wf_dtd_part. cbn [S6.g_ws0 S6.g_before S6.g_dtd]. rewrite G1, G2, (wf_dt6 t Hwt). reflexivity. }
      split; [|split; [cbn [S6.g_dtd]; apply ge6_dt6|split; [exact M1|split; [exact M3|exact M4]]]].
      rewrite M2. cbn [X5.r_opt]. unfold S6.r_dtd_part. cbn [S6.g_ws0 S6.g_before S6.g_dtd]. rewrite r_dt6.
      pose proof (shift_render_s pre (w1 ++ w2)) as SR. unfold bytes in *. rewrite E5.
      rewrite <- !app_assoc. f_equal. rewrite (app_assoc (fst (shift_s pre (w1 ++ w2)))). rewrite (app_assoc w1), (app_assoc (r_pairs_s pre)). f_equal. symmetry. exact SR.
    + (* the input ends inside the DOCTYPE: no root element *)
      exfalso. destruct EOF as (ds & qe & Hds & -> & HWe).
      destruct (CstSound6uDoc.dsteps_sim text (fun _ => True) (fun _ _ _ _ => I) _ _ _ _ Hds S1 I) as (ets & K2 & S2 & R2 & NK2 & _).
      unfold parse_misc in Hdt.
      assert (HXe : XA qe).
      { intros p' l' HW' Hp'. pose proof (W_le text _ _ HW') as L1. pose proof (WV_W _ _ _ HWe) as [_ L2]. rewrite blen_nil in L2.
        assert (p' = qe) by lia. subst p'. destruct HW' as [E1 _]. destruct (WV_W _ _ _ HWe) as [E2 _]. rewrite E2 in E1. subst l'. reflexivity. }
      destruct (misc_sound_p ets (fun _ => True) (fun _ _ _ _ => I) _ _ _ _ _ _ _ HWe HXe S2 I Hdt)
        as (mid & w3 & l6 & p6 & K3 & E6 & -> & HW6 & Hp6 & _ & _ & S3 & R3 & NK3 & _).
      assert (l6 = []).
      { symmetry in E6. apply app_eq_nil in E6. destruct E6 as [_ E6]. apply app_eq_nil in E6. apply E6. } subst l6.
      unfold CstSound6uDoc.tail_doc in HD. rewrite (skip_spaces_st text _ [] []) in HD by (try reflexivity; try exact I; apply HW6).
      rewrite blen_nil, N.add_0_r in HD. unfold curr_byte_opt in HD. rewrite (at_end_st text) in HD by apply HW6. cbn [negb bind] in HD.
      ib HD q5 Hm5. destruct q5 as [s5 c5]. unfold parse_misc in Hm5.
      destruct (misc_sound_p ets (fun _ => True) (fun _ _ _ _ => I) _ _ _ _ _ _ _ HW6 ltac:(apply (XA_mono qe); [exact HXe|assumption]) S3 I Hm5)
        as (mid5 & w5 & l7 & p7 & K5 & _ & _ & _ & _ & _ & _ & _ & R5 & NK5 & _).
      assert (cF = c5) by (destruct (negb (at_end s5)); [noerr|inversion HD; reflexivity]). subst cF.
      destruct Helem as (ndE & HinE & HkE).
      assert (NE : nonelem (erows c5)).
      { rewrite R5, R3, R2. repeat (apply Forall_app; split); assumption. }
      unfold nonelem, erows in NE. rewrite Forall_forall in NE.
      specialize (NE (erowof ndE) (in_map erowof _ _ HinE)). cbn [erowof snd] in NE.
      destruct (nd_kind ndE); cbn in NE, HkE; congruence.
  - (* no DOCTYPE: no entity is declared *)
    inversion Hdt; subst s2 c2. clear Hdt.
    destruct (body_sound_r [] [] (Forall2_nil _) (Forall_nil _) (fun d its (Hin : In d []) _ => match Hin with end) (Forall_nil _) _ _ _ _ HW3 ltac:(lia) HX3 S1 RS1 N1 HD Helem Epp)
      as (w0 & root & post & wend & -> & Hw0 & Hrwf & Hrns & Hrk & Hpost & Hwend & RSF).
    destruct (main_ok_r [] pre (w1 ++ w2 ++ w0) root post wend _ Hpre (wf_ws_app _ _ Hw1 (wf_ws_app _ _ Hw2 Hw0)) Hrwf Hrns Hrk Hpost Hwend RSF) as (M1 & M2 & M3 & M4).
    eexists None, _, []. split; [exact Hxd|]. split; [reflexivity|].
    split; [|split; [reflexivity|split; [exact M1|split; [exact M3|exact M4]]]].
    rewrite M2. cbn [X5.r_opt r_opt app]. rewrite <- !app_assoc. reflexivity.
Qed.

Theorem parse_sound_fragment_6u_ctx : forall opt d, allow_dtd opt = true ->
  parse text opt = Ok d ->
  exists c : S6.doc, S6.wf_doc c = true /\ S6.render c = text /\
    S6.distinct_decls_le c (N.to_nat 65535) /\ 1 + N.of_nat (S6.ns_cost c) <= u32_max.
Proof.
  intros opt d Hallow H. unfold parse in H. ib H c0 H0. ib H cF HD.
  destruct (init_sim_p text opt c0 H0) as (S0 & R0 & _). pose proof (init_res_p text opt c0 H0) as RS0.
  assert (N0 : nonelem (erows c0)) by (rewrite R0; constructor; [reflexivity|constructor]).
  cbv zeta in H. ib H it Hit. ib H he Hhe. destruct he; cbn [negb] in H; [|discriminate].
  destruct (1 <? len_N (c_parent_prefixes cF)) eqn:Epp; [discriminate|]. inversion H; subst d. clear H.
  destruct (CstSoundDoc.any_element_row _ _ _ Hhe) as (ndE & HinE & HkE).
  rewrite Hallow in HD.
  pose proof (WV_new text (fp_valid _ HF)) as HWV. pose proof (WV_W _ _ _ HWV) as HW.
  assert (HR : exists t0, WV (bom_len text) t0 /\ strip_bom text = t0 /\ text = (if prefix_b [239; 187; 191] text then S5.bom else []) ++ t0 /\
             rest_doc true (st (bom_len text) t0) c0 = Ok cF).
  { unfold parse_document in HD. rewrite st_new in HD. rewrite (starts_with_st text) in HD by exact HW.
    unfold bom_len, strip_bom. destruct (prefix_b [239; 187; 191] text) eqn:Eb.
    - destruct (prefix_b_split _ _ Eb) as (t0 & Et). exists t0.
      assert (HW3 : WV (0 + 3) t0). { apply (WV_app text 0 [239; 187; 191] t0); [rewrite <- Et; exact HWV|exact bom_valid]. }
      split; [exact HW3|]. split; [rewrite Et at 1; reflexivity|]. split; [exact Et|].
      assert (Ea : advance 3 (st 0 text) = Ok (st (0 + 3) t0)).
      { rewrite Et at 2. apply (advance_st text 3 0 [239; 187; 191] t0); [reflexivity|rewrite <- Et; exact HW]. }
      rewrite Ea in HD.
      cbn [bind] in HD. exact HD.
    - exists text. split; [exact HWV|]. split; [reflexivity|]. split; [reflexivity|]. cbn [bind] in HD. exact HD. }
  destruct HR as (t0 & HWV0 & Estrip & Etext & HD0).
  destruct (rest_sound_6u t0 c0 cF HWV0 Estrip S0 RS0 N0 HD0 (ex_intro _ ndE (conj HinE HkE)) Epp) as (xd & g & main & xds & Hxd & Hg & Et0 & Eg & M1 & M3 & M4).
  destruct (s6_of_main xds (prefix_b [239; 187; 191] text) xd g main _ Eg Hxd Hg M1 M3) as (W6 & D6 & C6).
  eexists. split; [exact W6|]. split; [|split; [exact D6|rewrite C6; exact M4]].
  unfold S6.render. cbn [S6.x_bom S6.x_decl S6.x_dtd S6.x_main]. rewrite <- Et0. symmetry. exact Etext.
Qed.

End DocR.

(* the theorem, for any text whose markup literals are renderings of well-formed items *)
Theorem parse_sound_fragment_6u_val : forall text opt d, ValOK text ->
  in_fragment_6u text = true -> allow_dtd opt = true -> parse text opt = Ok d ->
  exists c : S6.doc, S6.wf_doc c = true /\ S6.render c = text /\
    S6.distinct_decls_le c (N.to_nat 65535) /\ 1 + N.of_nat (S6.ns_cost c) <= u32_max.
Proof.
  intros text opt d HV HF Hallow H. exact (parse_sound_fragment_6u_ctx text (in_fragment_6u_Frag6u _ HF) HV opt d Hallow H).
Qed.
Print Assumptions parse_sound_fragment_6u_val.
