(* Proofs/CstSoundT.v -- C08, soundness half on the fragment of Spec/CstText.v (references and
   CDATA): the fragment, the statement and sanity examples.

   [in_fragment_t text] (all byte-level, on the input):
     T1  every byte is printable ASCII, TAB or LF (Cst.is_plain)
         -- NO CR: see the finding below; '&' and "<![" are allowed now
     T2  no ':' (58) anywhere
     T3  no "<!D", no "<?xml", no "xmlns" anywhere
     T4  [charrefs_scalar text]: wherever the bytes "&#" digits ";" / "&#x" hexdigits ";" occur, the
         number is a Unicode scalar value.  The crate maps a reference to a NON-scalar number
         (&#xD800; &#x110000;) to U+FFFD instead of refusing it (4.1 WFC Legal Character): a documented
         leniency; Spec/CstText.v (wf_charref) follows the recommendation.
   No condition on the result: normalised attribute values are inside the fragment (S1 is gone). *)
From Coq Require Import String.
From Coq Require Import List NArith Bool Lia.
Import ListNotations.
From RX Require Import Generated.
From RX.Model Require Import Base CharClass Stream Tokenizer Doc Builder Parse.
From RX.Spec Require Cst Chars.
From RX.Spec Require CstText.
From RX.Proofs Require Import CstSound.
Module T := CstText.
Open Scope N_scope.

Fixpoint span (f : N -> bool) (l : bytes) : bytes * bytes :=
  match l with
  | x :: r => if f x then let '(a, c) := span f r in (x :: a, c) else ([], l)
  | [] => ([], [])
  end.

(* [l] is what follows "&#": if it reads (x)? digits ';' the number must be a scalar value *)
Definition ref_ok_at (l : bytes) : bool :=
  let '(hex, r) := match l with 120 :: r => (true, r) | _ => (false, l) end in
  let '(ds, r') := span (T.is_digit hex) r in
  match r' with 59 :: _ => Chars.scalar (T.ref_val hex ds) | _ => true end.

Fixpoint charrefs_scalar (l : bytes) : bool :=
  match l with
  | [] => true
  | x :: r => (match l with 38 :: 35 :: r2 => ref_ok_at r2 | _ => true end) && charrefs_scalar r
  end.

Definition in_fragment_t (text : bytes) : bool :=
  forallb Cst.is_plain text && negb (mem_b 58 text) &&
  negb (contains_b (b "<!D") text) && negb (contains_b (b "<?xml") text) && negb (contains_b (b "xmlns") text) &&
  charrefs_scalar text.

Definition parse_sound_fragment_t_stmt : Prop :=
  forall text opt d, in_fragment_t text = true -> parse text opt = Ok d ->
  exists c : T.doc, T.wf_doc c = true /\ T.render c = text.

(* ---- sanity examples ---- *)
Definition witness_t (c : T.doc) : bool :=
  let text := T.render c in in_fragment_t text && accepted text && T.wf_doc c.
Definition mk (root : T.item) : T.doc :=
  {| T.d_before := []; T.d_ws0 := []; T.d_root := root; T.d_after := []; T.d_ws_end := [] |}.
Definition el (name : string) (attrs : list T.attr) (cs : list T.item) : T.item :=
  T.IElem (b name) attrs [] (Some (cs, [])).
Definition at_ (name : string) (q : N) (v : list T.piece) : T.attr :=
  {| T.a_ws := [32]; T.a_name := b name; T.a_ws1 := []; T.a_ws2 := []; T.a_quote := q; T.a_value := v |}.

(* accepted inputs with their abstract documents *)
Example ext_ok1 : witness_t (mk (el "r" [at_ "a" 39 [T.PLit (b "x	y"); T.PCharRef false (b "9"); T.PPredef T.Lt; T.PCharRef true (b "3c")];
                                          at_ "b" 34 [T.PPredef T.Quot; T.PLit (b "'")]]
    [T.IText [T.PLit (b "a "); T.PPredef T.Amp; T.PCharRef true (b "00041"); T.PCData (b "<&#xD7FF;>]]"); T.PCData []; T.PLit (b "]] >")];
     el "e" [] []; T.IText [T.PCharRef false (b "1114111")]; T.IComment (b " & "); T.IText [T.PCData (b "z")]])) = true.
Proof. vm_compute. reflexivity. Qed.

(* inputs of the fragment that are rejected *)
Example ext_rej : forallb (fun t => in_fragment_t (b t) && negb (accepted (b t)))
  [ "<a>&amp</a>"; "<a>& </a>"; "<a>&;</a>"; "<a>&nbsp;</a>"; "<a>&#;</a>"; "<a>&#x;</a>"; "<a>&#X41;</a>";
    "<a>&#6A;</a>"; "<a>&#0;</a>"; "<a>&#1;</a>"; "<a>&#xFFFE;</a>"; "<a>&#65</a>";
    "<a b='&lt'/>"; "<a b='<'/>"; "<a b='&#0;'/>"; "<a>]]></a>"; "<a><![CDATA[x</a>"; "<a><![cdata[x]]></a>";
    "<![CDATA[x]]><a/>"; "<a/><![CDATA[x]]>"; "<a b='<![CDATA[x]]>'/>" ]%string = true.
Proof. vm_compute. reflexivity. Qed.

(* T4: the documented U+FFFD leniency: accepted, satisfy every other condition, not renderings *)
Example cext_fffd : forallb (fun t => accepted (b t) && negb (charrefs_scalar (b t)))
  [ "<a>&#xD800;</a>"; "<a>&#x110000;</a>"; "<a>&#1114112;</a>"; "<a b='&#xDFFF;'/>" ]%string = true.
Proof. vm_compute. reflexivity. Qed.

(* T1 (no CR): CR is legal white space and a legal Char for the crate, but Spec/CstText.v allows it
   only in character data and attribute values (Cst.wf_ws, comments and PIs are those of Spec/Cst.v).
   Accepted, not renderings of well-formed CstText documents: *)
Example cext_cr : forallb (fun l => accepted l)
  [ b "<a" ++ [13] ++ b "/>"; [13] ++ b "<a/>"; b "<a/>" ++ [13]; b "<a b" ++ [13] ++ b "='1'/>";
    b "<!--" ++ [13] ++ b "--><a/>"; b "<?p " ++ [13] ++ b "?><a/>"; b "<a></a" ++ [13] ++ b ">" ] = true.
Proof. vm_compute. reflexivity. Qed.
(* ... whereas CR in character data, CDATA and attribute values is inside CstText (completeness covers it) *)
Example cr_in_data : T.wf_doc (mk (el "r" [at_ "a" 39 [T.PLit [13]]] [T.IText [T.PLit [120; 13; 10]; T.PCData [13]]])) = true.
Proof. vm_compute. reflexivity. Qed.
