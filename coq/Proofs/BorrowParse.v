(* Proofs/BorrowParse.v -- C18, part 3: the builder stores only sub-slices of the input (or owned
   copies, or the two 'static strings of the xml namespace) in the document. *)
From Coq Require Import List NArith Bool Lia ZifyBool ZifyN.
Import ListNotations.
From RX Require Import Generated.
From RX.Model Require Import Base CharClass Stream Tokenizer Doc Builder Parse.
From RX.Proofs Require Import Tactics BorrowLocal BorrowTokenizer.
Open Scope N_scope.

(* ------------------------------------------------------------------ *)
(* the invariant                                                        *)

Definition kind_ok (text : bytes) (k : node_kind) : Prop :=
  match k with
  | KElement _ local _ _ => valid_slice text local
  | KPI target value => valid_slice text target /\
                        match value with Some v => valid_slice text v | None => True end
  | KComment s => valid_slice text s
  | KText st => valid_storage text st
  | KRoot => True
  end.
Definition node_ok (text : bytes) (nd : node_data) : Prop := kind_ok text (nd_kind nd).
Definition attr_ok (text : bytes) (a : attr_data) : Prop :=
  valid_slice text (ad_local a) /\ valid_storage text (ad_value a).
Definition ns_ok (text : bytes) (v : namespace) : Prop :=
  match ns_name v with Some s => valid_str text s | None => True end /\
  valid_storage text (ns_uri v).

(* a namespace that mentions a 'static string *)
Definition ns_static (v : namespace) : Prop :=
  (exists b0, ns_name v = Some (SStatic b0)) \/ (exists b0, ns_uri v = Borrowed (SStatic b0)).
Definition ns_static_ok (v : namespace) : Prop := ns_static v -> v = xml_ns.

Definition doc_ok (text : bytes) (d : document) : Prop :=
  Forall (node_ok text) (d_nodes d) /\
  Forall (attr_ok text) (d_attrs d) /\
  Forall (ns_ok text) (d_ns_values d) /\
  Forall ns_static_ok (d_ns_values d).

Lemma doc_ok_borrows text d : doc_ok text d -> doc_borrows_ok text d.
Proof.
  intros [H1 [H2 [H3 _]]]. rewrite Forall_forall in H1, H2, H3.
  split; [|split].
  - intros nd Hin. exact (H1 nd Hin).
  - intros a Hin. exact (H2 a Hin).
  - intros v Hin. exact (H3 v Hin).
Qed.

Definition entity_ok (text : bytes) (e : entity) : Prop :=
  valid_slice text (en_name e) /\ valid_slice text (en_value e).
Definition tattr_ok (text : bytes) (a : temp_attr) : Prop :=
  valid_slice text (ta_prefix a) /\ valid_slice text (ta_local a) /\ valid_storage text (ta_value a).
Definition tagname_ok (text : bytes) (tn : tag_name_span) : Prop :=
  valid_slice text (tn_prefix tn) /\ valid_slice text (tn_name tn).
Definition valid_cow (text : bytes) (x : cow) : Prop :=
  match x with CowBorrowed s => valid_slice text s | CowOwned _ => True end.

(* every borrowed string the builder holds: the document so far, the declared entities (names
   and values), the pending attributes, the prefixes of the open elements, the current tag name
   and the pending text fragments *)
Definition ctx_borrows_ok (text : bytes) (c : context) : Prop :=
  doc_ok text (c_doc c) /\
  Forall (entity_ok text) (c_entities c) /\
  Forall (tattr_ok text) (c_cur_attrs c) /\
  Forall (valid_slice text) (c_parent_prefixes c) /\
  tagname_ok text (c_tag_name c) /\
  Forall (valid_cow text) (c_after_text c).

Lemma ctx_ok_doc_borrows text c : ctx_borrows_ok text c -> doc_borrows_ok text (c_doc c).
Proof. intros [H _]. apply doc_ok_borrows; assumption. Qed.

(* not one of the crate's 'static strings *)
Definition nonstatic (st : storage) : Prop :=
  match st with Borrowed (SStatic _) => False | _ => True end.

Section Builder.
Variable text : bytes.
Notation V := (valid_slice text).
Notation I := (ctx_borrows_ok text).
Notation stream := Stream.stream.

Notation IS := (fun r => I (snd r)).

(* ---- nodes ---- *)
Lemma list_upd_Forall {A} (Q : A -> Prop) (f : A -> A) :
  (forall x, Q x -> Q (f x)) ->
  forall l i l', list_upd l i f = Some l' -> Forall Q l -> Forall Q l'.
Proof.
  intros Hf. induction l as [|x l IH]; intros i l' H HF; cbn [list_upd] in H; [discriminate|].
  inversion HF; subst. destruct i.
  - injection H as <-. constructor; auto.
  - destruct (list_upd l i f) eqn:E; [|discriminate]. injection H as <-.
    constructor; eauto.
Qed.

Definition keeps (f : node_data -> node_data) : Prop :=
  forall nd, node_ok text nd -> node_ok text (f nd).

Lemma upd_node_ok nodes i f :
  keeps f -> Forall (node_ok text) nodes -> okP (upd_node nodes i f) (Forall (node_ok text)).
Proof.
  intros Hf HF l H. unfold upd_node in H.
  destruct (list_upd nodes (N.to_nat i) f) eqn:E; [|discriminate]. injection H as <-.
  eapply list_upd_Forall; eauto.
Qed.

Lemma keeps_prev v : keeps (fun nd => nd_set_prev nd v).
Proof. intros nd H; exact H. Qed.
Lemma keeps_next v : keeps (fun nd => nd_set_next_subtree nd v).
Proof. intros nd H; exact H. Qed.
Lemma keeps_last v : keeps (fun nd => nd_set_last_child nd v).
Proof. intros nd H; exact H. Qed.
Lemma keeps_range v : keeps (fun nd => nd_set_range_end nd v).
Proof. intros nd H; exact H. Qed.
Lemma keeps_kind k : kind_ok text k -> keeps (fun nd => nd_set_kind nd k).
Proof. intros Hk nd H; exact Hk. Qed.

Lemma set_next_subtree_all_ok : forall ids nodes v,
  Forall (node_ok text) nodes -> okP (set_next_subtree_all nodes ids v) (Forall (node_ok text)).
Proof.
  induction ids as [|i ids IH]; intros nodes v HF; cbn [set_next_subtree_all].
  - apply okP_ret; assumption.
  - eapply okP_bind; [apply upd_node_ok; [apply keeps_next|assumption]|].
    intros l Hl. apply IH; assumption.
Qed.

(* ---- the invariant and the record updates ---- *)
Ltac unI := unfold ctx_borrows_ok in *;
  cbn [c_doc c_entities c_cur_attrs c_parent_prefixes c_tag_name c_after_text
       set_doc set_ns_start_idx set_cur_attrs set_awaiting set_parent_prefixes set_entities
       set_after_text set_parent_id set_tag_name set_entity_floor set_ld fst snd] in *.

Lemma I_set_doc c d : I c -> doc_ok text d -> I (set_doc c d).
Proof. unI. tauto. Qed.
Lemma I_set_ns_start_idx c v : I c -> I (set_ns_start_idx c v).
Proof. unI. tauto. Qed.
Lemma I_set_awaiting c v : I c -> I (set_awaiting c v).
Proof. unI. tauto. Qed.
Lemma I_set_parent_id c v : I c -> I (set_parent_id c v).
Proof. unI. tauto. Qed.
Lemma I_set_entity_floor c v : I c -> I (set_entity_floor c v).
Proof. unI. tauto. Qed.
Lemma I_set_ld c v : I c -> I (set_ld c v).
Proof. unI. tauto. Qed.
Lemma I_set_cur_attrs c v : I c -> Forall (tattr_ok text) v -> I (set_cur_attrs c v).
Proof. unI. tauto. Qed.
Lemma I_set_parent_prefixes c v : I c -> Forall V v -> I (set_parent_prefixes c v).
Proof. unI. tauto. Qed.
Lemma I_set_entities c v : I c -> Forall (entity_ok text) v -> I (set_entities c v).
Proof. unI. tauto. Qed.
Lemma I_set_after_text c v : I c -> Forall (valid_cow text) v -> I (set_after_text c v).
Proof. unI. tauto. Qed.
Lemma I_set_tag_name c v : I c -> tagname_ok text v -> I (set_tag_name c v).
Proof. unI. tauto. Qed.

Lemma I_doc c : I c -> doc_ok text (c_doc c).
Proof. unI. tauto. Qed.
Lemma I_entities c : I c -> Forall (entity_ok text) (c_entities c).
Proof. unI. tauto. Qed.
Lemma I_cur_attrs c : I c -> Forall (tattr_ok text) (c_cur_attrs c).
Proof. unI. tauto. Qed.
Lemma I_parent_prefixes c : I c -> Forall V (c_parent_prefixes c).
Proof. unI. tauto. Qed.
Lemma I_tag_name c : I c -> tagname_ok text (c_tag_name c).
Proof. unI. tauto. Qed.
Lemma I_after_text c : I c -> Forall (valid_cow text) (c_after_text c).
Proof. unI. tauto. Qed.

Lemma doc_ok_set_nodes d nodes : doc_ok text d -> Forall (node_ok text) nodes -> doc_ok text (set_nodes d nodes).
Proof. unfold doc_ok, set_nodes; cbn [d_nodes d_attrs d_ns_values]. tauto. Qed.
Lemma doc_ok_set_attrs d attrs : doc_ok text d -> Forall (attr_ok text) attrs -> doc_ok text (set_attrs d attrs).
Proof. unfold doc_ok, set_attrs; cbn [d_nodes d_attrs d_ns_values]. tauto. Qed.
Lemma doc_ok_nodes d : doc_ok text d -> Forall (node_ok text) (d_nodes d).
Proof. unfold doc_ok; tauto. Qed.
Lemma doc_ok_attrs d : doc_ok text d -> Forall (attr_ok text) (d_attrs d).
Proof. unfold doc_ok; tauto. Qed.

Lemma Forall_snoc {A} (Q : A -> Prop) l x : Forall Q l -> Q x -> Forall Q (l ++ [x]).
Proof. intros. apply Forall_app; split; [assumption|constructor; [assumption|constructor]]. Qed.

Local Hint Resolve I_set_doc I_set_ns_start_idx I_set_awaiting I_set_parent_id I_set_entity_floor
  I_set_ld I_set_cur_attrs I_set_parent_prefixes I_set_entities I_set_after_text I_set_tag_name
  I_doc I_entities I_cur_attrs I_parent_prefixes I_tag_name I_after_text
  doc_ok_set_nodes doc_ok_set_attrs doc_ok_nodes doc_ok_attrs Forall_snoc
  keeps_prev keeps_next keeps_last keeps_range keeps_kind Forall_nil : bdb.

Ltac fin := cbv beta in *; cbn [fst snd] in *; eauto 8 with bdb.

(* ---- append_node, append_text, merge_text, reset_after_text ---- *)
Lemma append_node_ok kind r c : I c -> kind_ok text kind -> okP (append_node kind r c) IS.
Proof.
  intros Hc Hk. unfold append_node.
  assert (Hn : Forall (node_ok text)
    (d_nodes (c_doc c) ++ [{| nd_parent := Some (c_parent_id c); nd_prev_sibling := None;
                              nd_next_subtree := None; nd_last_child := None;
                              nd_kind := kind; nd_range := r |}])).
  { apply Forall_snoc; [fin|exact Hk]. }
  repeat ok_step ltac:(first [ apply upd_node_ok; [fin|eassumption]
                             | apply set_next_subtree_all_ok; eassumption ]).
  fin.
Qed.

Lemma append_text_ok t r c : I c -> valid_cow text t -> okP (append_text t r c) I.
Proof.
  intros Hc Ht. unfold append_text.
  repeat ok_step ltac:(first [ apply append_node_ok; [assumption|destruct t; exact Ht] ]).
  all: apply I_set_after_text; [fin|]; apply Forall_snoc; [fin|assumption].
Qed.

Lemma merge_text_ok c : I c -> okP (merge_text text c) I.
Proof.
  intros Hc. unfold merge_text.
  repeat ok_step ltac:(first [ apply upd_node_ok; [apply keeps_kind; exact Logic.I|fin] ]).
  fin.
Qed.

Lemma reset_after_text_ok c : I c -> okP (reset_after_text text c) I.
Proof.
  intros Hc. unfold reset_after_text.
  repeat ok_step ltac:(first [ apply merge_text_ok; assumption ]); fin.
Qed.

(* ---- namespaces ---- *)
Lemma push_ns_ok name uri d :
  doc_ok text d -> ns_ok text {| ns_name := name; ns_uri := uri |} ->
  ns_static_ok {| ns_name := name; ns_uri := uri |} ->
  okP (push_ns text name uri d) (doc_ok text).
Proof.
  intros Hd Hn Hs. unfold push_ns.
  repeat ok_step fail; unfold doc_ok in *; cbn [d_nodes d_attrs d_ns_values]; intuition auto.
  - apply Forall_snoc; assumption.
  - apply Forall_snoc; assumption.
Qed.

Lemma push_ref_ok i d : doc_ok text d -> okP (push_ref i d) (doc_ok text).
Proof.
  intros Hd. unfold push_ref.
  repeat ok_step fail; unfold doc_ok in *; cbn [d_nodes d_attrs d_ns_values]; intuition auto.
Qed.

Lemma resolve_ns_loop_ok start : forall is d,
  doc_ok text d -> okP (resolve_ns_loop text start is d) (doc_ok text).
Proof.
  induction is as [|i is IH]; intros d Hd; cbn [resolve_ns_loop].
  - apply okP_ret; assumption.
  - repeat ok_step ltac:(first [ apply push_ref_ok; assumption | apply IH; assumption ]).
Qed.

Lemma resolve_namespaces_ok c : I c -> okP (resolve_namespaces text c) IS.
Proof.
  intros Hc. unfold resolve_namespaces.
  repeat ok_step ltac:(first [ apply resolve_ns_loop_ok; fin ]); fin.
Qed.

(* ---- attributes ---- *)
Lemma resolve_attrs_loop_ok nss start : forall l d,
  Forall (tattr_ok text) l -> doc_ok text d ->
  okP (resolve_attrs_loop text nss start l d) (doc_ok text).
Proof.
  induction l as [|a l IH]; intros d Hl Hd; cbn [resolve_attrs_loop].
  - apply okP_ret; assumption.
  - inversion Hl as [|? ? Ha Hl']; subst. destruct Ha as [Hp [Hlo Hv]].
    repeat ok_step ltac:(first [ apply IH; [assumption|];
      apply doc_ok_set_attrs; [assumption|]; apply Forall_snoc; [fin|]; split; assumption ]).
Qed.

Lemma resolve_attributes_ok nss c : I c -> okP (resolve_attributes text nss c) IS.
Proof.
  intros Hc. unfold resolve_attributes.
  pose proof (I_cur_attrs c Hc) as Hl.
  destruct (c_cur_attrs c) as [|a l] eqn:E; [apply okP_ret; fin|].
  repeat ok_step ltac:(first [ apply resolve_attrs_loop_ok; [assumption|fin] ]).
  fin.
Qed.

Lemma normalize_attribute_ok value c : I c -> V value ->
  okP (normalize_attribute text value c)
      (fun p => valid_storage text (fst p) /\ nonstatic (fst p) /\ I (snd p)).
Proof.
  intros Hc Hv. unfold normalize_attribute.
  repeat ok_step fail; cbn [fst snd valid_storage valid_str nonstatic]; intuition auto.
Qed.

Lemma process_attribute_ok r ql el prefix local value c :
  I c -> V prefix -> V local -> V value ->
  okP (process_attribute text r ql el prefix local value c) I.
Proof.
  intros Hc Hp Hl Hv. unfold process_attribute.
  eapply okP_bind; [apply normalize_attribute_ok; assumption|].
  intros [st c1] [Hst [Hns Hc1]]. cbn [fst snd] in *.
  assert (Hs1 : ns_static_ok {| ns_name := Some (SIn local); ns_uri := st |}).
  { intros [[b0 H]|[b0 H]]; cbn [ns_name ns_uri] in H; [discriminate|].
    subst st. destruct Hns. }
  assert (Hs2 : ns_static_ok {| ns_name := None; ns_uri := st |}).
  { intros [[b0 H]|[b0 H]]; cbn [ns_name ns_uri] in H; [discriminate|].
    subst st. destruct Hns. }
  repeat ok_step ltac:(first [ apply push_ns_ok; [fin| split; cbn [ns_name ns_uri valid_str]; auto | assumption] ]).
  - fin.
  - fin.
  - fin.
  - apply I_set_cur_attrs; [assumption|]. apply Forall_snoc; [fin|].
    unfold tattr_ok; cbn [ta_prefix ta_local ta_value]. auto.
Qed.

(* ---- process_element ---- *)
Lemma Forall_removelast {A} (Q : A -> Prop) : forall l, Forall Q l -> Forall Q (removelast l).
Proof.
  induction l as [|x l IH]; intros H; cbn [removelast]; [constructor|].
  inversion H; subst. destruct l; [constructor|]. constructor; auto.
Qed.

Lemma process_element_ok e r c :
  I c -> match e with EClose p l => V p /\ V l | _ => True end ->
  okP (process_element text e r c) I.
Proof.
  intros Hc He. unfold process_element.
  repeat ok_step ltac:(first
    [ apply resolve_namespaces_ok; fin
    | apply resolve_attributes_ok; fin
    | apply append_node_ok; [fin | cbn [kind_ok]; match goal with H : I ?c |- V (tn_name (c_tag_name ?c)) => exact (proj2 (I_tag_name c H)) end ]
    | apply upd_node_ok; [apply keeps_range | fin ] ]).
  all: try solve [fin].
  1: { apply I_set_parent_prefixes; [fin|]. apply Forall_snoc; [fin|].
       match goal with H : I ?c |- V (tn_prefix (c_tag_name ?c)) => exact (proj1 (I_tag_name c H)) end. }
  all: match goal with H : removelast _ = _ |- _ => rewrite <- H end;
       apply I_set_parent_prefixes; [fin|]; apply Forall_removelast; fin.
Qed.

Lemma process_cdata_ok t r c : I c -> V t -> okP (process_cdata text t r c) I.
Proof.
  intros Hc Ht. unfold process_cdata.
  repeat ok_step ltac:(first [ apply append_text_ok; [assumption|cbn [valid_cow]; auto] ]).
Qed.

(* ---- the callback, generic in how Text is processed ---- *)
Lemma token_with_ok ptext :
  (forall t r c, I c -> V t -> okP (ptext t r c) I) ->
  forall tk c, token_ok text tk -> I c -> okP (token_with text ptext tk c) I.
Proof.
  intros Hp tk c Ht Hc. unfold token_with. destruct tk; cbn [token_ok] in Ht.
  - destruct Ht as [Ht Hv].
    repeat ok_step ltac:(first [ apply reset_after_text_ok; assumption
                               | apply append_node_ok; [assumption|cbn [kind_ok]; auto] ]); fin.
  - repeat ok_step ltac:(first [ apply reset_after_text_ok; assumption
                               | apply append_node_ok; [assumption|cbn [kind_ok]; auto] ]); fin.
  - apply okP_ret. apply I_set_entities; [assumption|]. apply Forall_snoc; [fin|exact Ht].
  - repeat ok_step ltac:(first [ apply reset_after_text_ok; assumption ]).
    apply I_set_tag_name; [assumption|split; assumption].
  - destruct Ht as [H1 [H2 H3]]. apply process_attribute_ok; assumption.
  - repeat ok_step ltac:(first [ apply reset_after_text_ok; assumption
                               | apply process_element_ok; [assumption|exact Ht] ]).
  - apply Hp; assumption.
  - apply process_cdata_ok; assumption.
Qed.

(* ---- process_text_with: the inner loop with a name ---- *)
Definition ptext_loop (pc : stream -> context -> res (stream * context)) (r : range) :=
  fix loop (fuel : nat) (s : stream) (buf : text_buffer) (c : context) {struct fuel}
    : res (text_buffer * context) :=
    match fuel with
    | O => OutOfFuel
    | S fu =>
      if at_end s then Ok (buf, c) else
      let! (ch, s) := parse_next_chunk text s (c_entities c) in
      match ch with
      | ChByte x => loop fu s (tb_push_from_text x buf) c
      | ChChar cp =>
        loop fu s (push_char_bytes_text (encode_utf8 cp) (0 <? ld_depth (c_ld c)) buf) c
      | ChText value =>
        let! c := if negb (tb_is_empty buf)
                  then let! bs := tb_finish buf in append_text (CowOwned bs) r c
                  else Ok c in
        let! ld := inc_references text s (c_ld c) in
        let! ld := inc_depth text s ld in
        let c := set_ld c ld in
        let! es := stream_from_substr text (sl_start value) (sl_end value) in
        let prev_tag_name := c_tag_name c in
        let prev_floor := c_entity_floor c in
        let c := set_entity_floor (set_tag_name c tag_name_null) (len_N (c_parent_prefixes c)) in
        let! (_, c) := pc es c in
        if negb (len_N (c_parent_prefixes c) =? c_entity_floor c) then Err UnexpectedEndOfStream
        else
          let c := set_entity_floor (set_tag_name c prev_tag_name) prev_floor in
          let c := set_ld c (dec_depth (c_ld c)) in
          loop fu s tb_new c
      end
    end.

Lemma process_text_with_eq pc t r c :
  process_text_with text pc t r c =
  let tb := slice_bytes text t in
  if negb (existsb (fun x => (x =? 38) || (x =? 13)) tb) then append_text (CowBorrowed t) r c
  else
    let! s0 := stream_from_substr text (fst r) (snd r) in
    let! (buf, c) := ptext_loop pc r (S (length (s_rest s0))) s0 tb_new c in
    if negb (tb_is_empty buf)
    then let! bs := tb_finish buf in append_text (CowOwned bs) r c
    else Ok c.
Proof. reflexivity. Qed.

Lemma tag_name_null_ok : tagname_ok text tag_name_null.
Proof. split; apply empty_slice_valid. Qed.

Lemma ptext_loop_ok pc r :
  (forall s c, I c -> okP (pc s c) IS) ->
  forall fuel s buf c, I c -> okP (ptext_loop pc r fuel s buf c) IS.
Proof.
  intros Hpc. induction fuel as [|fu IH]; intros s buf c Hc; cbn [ptext_loop]; [apply okP_fuel|].
  repeat ok_step ltac:(first
    [ apply IH; assumption
    | apply append_text_ok; [assumption|exact Logic.I]
    | apply Hpc; apply I_set_entity_floor; apply I_set_tag_name;
      [apply I_set_ld; assumption|apply tag_name_null_ok]
    | apply IH; apply I_set_ld; apply I_set_entity_floor; apply I_set_tag_name; [assumption|];
      cbn [c_tag_name set_ld]; apply I_tag_name; assumption ]).
  fin.
Qed.

Lemma process_text_with_ok pc :
  (forall s c, I c -> okP (pc s c) IS) ->
  forall t r c, I c -> V t -> okP (process_text_with text pc t r c) I.
Proof.
  intros Hpc t r c Hc Ht. rewrite process_text_with_eq.
  repeat ok_step ltac:(first
    [ apply append_text_ok; [assumption|first [exact Ht|exact Logic.I]]
    | apply ptext_loop_ok; assumption ]).
  fin.
Qed.

(* ---- the recursion through entity expansion ---- *)
Lemma parse_content_lvl_ok : forall lvl s c, I c -> okP (parse_content_lvl text lvl s c) IS.
Proof.
  induction lvl as [|lvl IH]; intros s c Hc; cbn [parse_content_lvl]; [apply okP_fuel|].
  intros [s' c'] H. cbn [snd].
  refine (tokenizer_content_tokens_ok text context _ I s c s' c' _ Hc H).
  intros tok c0 c1 Htok Hc0 Hr.
  refine (token_with_ok _ _ tok c0 Htok Hc0 c1 Hr).
  intros t r c2 Hc2 Ht. apply process_text_with_ok; assumption.
Qed.

Lemma token_ok_I tok c : token_ok text tok -> I c -> okP (token text tok c) I.
Proof.
  intros Ht Hc. unfold token, process_text. apply token_with_ok; [|assumption|assumption].
  intros t r c2 Hc2 Hv. apply process_text_with_ok; [|assumption|assumption].
  intros s c3 Hc3. apply parse_content_lvl_ok; assumption.
Qed.

Lemma init_context_ok opt : okP (init_context text opt) I.
Proof.
  unfold init_context.
  eapply okP_bind.
  { apply push_ns_ok.
    - unfold doc_ok; cbn [d_nodes d_attrs d_ns_values].
      repeat split; try constructor; try constructor.
    - split; exact Logic.I.
    - intros _. reflexivity. }
  intros d Hd. apply okP_ret. unI.
  split; [exact Hd|]. split; [constructor|]. split; [constructor|].
  split; [constructor; [apply empty_slice_valid|constructor]|].
  split; [apply tag_name_null_ok|constructor].
Qed.

Lemma parse_ok opt : okP (parse text opt) (doc_ok text).
Proof.
  unfold parse.
  eapply okP_bind; [apply init_context_ok|]. intros c0 Hc0.
  eapply okP_bind with (Q' := I).
  { intros c1 H. refine (tokenizer_tokens_ok text context (token text) I _ c0 c1 _ Hc0 H).
    intros tok ca cb Htok Hca Hr. exact (token_ok_I tok ca Htok Hca cb Hr). }
  intros c1 Hc1. repeat ok_step fail. fin.
Qed.

End Builder.

(* ------------------------------------------------------------------ *)
(* the builder keeps them *)
Theorem token_preserves_borrows : forall text tok c c',
  token_ok text tok -> ctx_borrows_ok text c -> token text tok c = Ok c' -> ctx_borrows_ok text c'.
Proof.
  intros text tok c c' Ht Hc H. exact (token_ok_I text tok c Ht Hc c' H).
Qed.
Print Assumptions token_preserves_borrows.

Theorem parse_borrows_ok : forall text opt d, parse text opt = Ok d -> doc_borrows_ok text d.
Proof.
  intros text opt d H. apply doc_ok_borrows. exact (parse_ok text opt d H).
Qed.
Print Assumptions parse_borrows_ok.

(* the only 'static strings in a document are the prefix and the URI of the xml namespace *)
Theorem static_only_xml : forall text opt d v, parse text opt = Ok d -> In v (d_ns_values d) ->
  (exists b0, ns_name v = Some (SStatic b0)) \/ (exists b0, ns_uri v = Borrowed (SStatic b0)) -> v = xml_ns.
Proof.
  intros text opt d v H Hin Hs.
  pose proof (parse_ok text opt d H) as [_ [_ [_ Hst]]].
  rewrite Forall_forall in Hst. exact (Hst v Hin Hs).
Qed.
Print Assumptions static_only_xml.
