(* Proofs/CstFullRejText.v -- C09 on the capstone fragment: character data on whose expansion the loop detector stops:
   the text token fails with EntityReferenceLoop, after whatever has been read -- and appended to the tree -- before
   (Proofs/CstFullS6Text.v for that part).  Proofs/CstEntRejText.v for the abstract syntax of Spec/CstFullS6.v. *)
From Coq Require Import Ascii String.
From Coq Require Import List NArith PeanoNat Bool Lia ZifyBool ZifyN ZifyNat.
Import ListNotations.
From RX Require Import Generated.
From RX.Model Require Import Base CharClass Stream Tokenizer Doc Builder Parse.
From RX.Spec Require Cst CstText CstEnt Detector Scope CstU CstNs.
From RX.Spec Require Chars.
From RX.Spec Require Import CstFullS5.
From RX.Spec Require Import Text CstFull CstFullS4.
From RX.Spec Require Import CstFullS6.
From RX.Proofs Require Import Tactics CstLex CstBuild CstULex TextMachine TextMerge HoistProofs NoPanicUtf8 DetectorProofs.
From RX.Proofs Require Import CstTextSem CstTextLex CstTextBuild CstEntSem CstEntMeaning CstEntRun CstEntInline.
From RX.Proofs Require Import CstNsLex CstNsView CstNsBuild CstFullLex CstFullBuild CstFullTree.
From RX.Proofs Require Import CstFullS2Sem CstFullS2Lex CstFullS2Build CstFullS3Sem CstFullS3Text CstFullS3Plug.
From RX.Proofs Require Import CstEntCFloor CstEntCBuild CstEntCSem CstEntCLoop.
From RX.Proofs Require Import CstFullS4Sem CstFullS4TSem CstFullS4TText CstFullS4Build CstFullS4Attr.
From RX.Proofs Require Import CstFullS5Ws.
From RX.Proofs Require Import CstFullS6Text CstFullS6Items.
From RX.Proofs Require Import CstFullRejSem CstFullRejAttr.
From RX.Proofs Require CstEntText CstEntCLex CstEntCText CstFullS6Lex CstNsItems CstNsDoc CstFullItems CstTextItems.
Open Scope N_scope.

(* ---- the value of a character-data entity, read as a run ---- *)
Lemma glevel4_pieces decls k n v qv : ylookup (glevel4 decls k) n = Some v -> y_pieces v = Some qv ->
  y_items v = [@IText bpieces qv].
Proof.
  intros Hl Hx. rewrite ylookup_glevel in Hl. destruct (first_xdecl decls n) as [d|]; [|discriminate].
  destruct k as [|k'].
  - injection Hl as <-. destruct (x_value d); cbn in *; [injection Hx as <-; reflexivity|discriminate].
  - destruct (x_value d) as [vps|its]; cbn [inline_value] in Hl.
    + destruct (E.inline_ps (ptable (glevel4 decls k')) false true (enc_epieces vps)) as [[a b0]|]; [|discriminate].
      cbn [E.obind fst snd] in Hl. injection Hl as <-. cbn in *. injection Hx as <-. reflexivity.
    + destruct (inline_items (glevel4 decls k') true its) as [[a b0]|]; [|discriminate]. cbn [E.obind fst snd] in Hl.
      injection Hl as <-. discriminate.
Qed.

Lemma ps_to_run4 decls k ie : forall ps q tr, E.inline_ps (ptable (glevel4 decls k)) false ie ps = Some (q, tr) ->
  exists its, inline_run (glevel4 decls k) ie ps = Some (its, tr) /\ forallb is_btext its = true /\ pieces_of its = q.
Proof.
  induction ps as [|p ps IH]; intros q tr H.
  - injection H as <- <-. exists []. auto.
  - cbn [E.inline_ps inline_run] in *. destruct p as [p|n].
    + cbn [andb] in H. destruct (E.inline_ps (ptable (glevel4 decls k)) false ie ps) as [[q' tr']|] eqn:Er; [|discriminate].
      cbn [E.obind fst snd] in H. injection H as <- <-. destruct (IH _ _ eq_refl) as (its & E1 & E2 & E3).
      rewrite E1. cbn [E.obind fst snd]. eexists. split; [reflexivity|]. cbn [forallb is_btext pieces_of app]. rewrite E2, E3. auto.
    + rewrite lookup_ptable in H. destruct (ylookup (glevel4 decls k) n) as [v|] eqn:El; [|discriminate]. cbn [E.obind E.x_pieces E.x_trace] in *.
      destruct (y_pieces v) as [qv|] eqn:Ex; [|discriminate]. cbn [E.obind andb] in H.
      destruct (E.inline_ps (ptable (glevel4 decls k)) false ie ps) as [[q' tr']|] eqn:Er; [|discriminate].
      cbn [E.obind fst snd] in H. injection H as <- <-. destruct (IH _ _ eq_refl) as (its & E1 & E2 & E3).
      rewrite E1. cbn [E.obind fst snd]. rewrite (glevel4_pieces decls k n v qv El Ex).
      eexists. split; [reflexivity|]. unfold bmark. cbn [app forallb is_btext pieces_of]. rewrite E2, E3. auto.
Qed.

(* the table of the unfolding, seen by the character-data machine *)
Lemma glevel_teq decls : forall k, teq (ptable (glevel4 decls k)) (CstEntRejSem.glevel (map pd decls) k).
Proof.
  induction k as [|k IH]; intros n; rewrite lookup_ptable, ylookup_glevel, CstEntRejSem.lookup_glevel, first_decl_pd;
    (destruct (first_xdecl decls n) as [d|]; cbn [option_map]; [|reflexivity]); change (E.e_value (pd d)) with (pv (x_value d)).
  - destruct (x_value d); reflexivity.
  - destruct (x_value d) as [ps|its]; cbn [inline_value pv E.inline_value].
    + rewrite (inline_ps_teq _ _ false true IH).
      destruct (E.inline_ps (CstEntRejSem.glevel (map pd decls) k) false true (enc_epieces ps)) as [[q tr]|]; reflexivity.
    + destruct (inline_items (glevel4 decls k) true its) as [[x tr]|]; reflexivity.
Qed.

Lemma inline_ps_glevel decls k fa ie ps :
  E.inline_ps (ptable (glevel4 decls k)) fa ie ps = E.inline_ps (CstEntRejSem.glevel (map pd decls) k) fa ie ps.
Proof. apply inline_ps_teq. apply glevel_teq. Qed.

Section RejText.
Variable text : bytes.
Variable D : list Scope.binding.
Hypothesis HD : forall l, NoDup l -> incl l D -> N.of_nat (length l) <= 65535.
Variable decls : list xdecl.
Variable es : list entity.
Hypothesis Henv : Forall2 (uent_ok text) (map pd decls) es.
Hypothesis Hdecls : Forall udecl_okc (map pd decls).
Hypothesis Hcont : Forall decl_cont decls.

Notation W := (CstLex.W text).
Notation WV := (CstULex.WV text).
Notation WVs := (CstFullS6Lex.WV text).
Notation sst4 := CstEntCLex.st.
Notation evl := (CstEntCBuild.evl text).
Notation OR := (CstFullS6Text.OR text D es).
Notation Res := (CstFullS6Text.Res text D es).
Notation Rooms := (CstFullS6Text.Rooms).
Notation NsOk := (CstFullS6Text.NsOk D).
Notation SemI := (CstEntCText.SemI text).
Notation decls3 := (map pd decls).

(* what is proved of a list of items on whose expansion the detector stops *)
Definition ItemsF (k : nat) (cs : list uitem) : Prop :=
  forall inh m en tl p post c0 c frs acc lvl depth fuel its tr,
    forallb (wf_uitem_s m) cs = true -> no_adjacent_text epieces cs = true ->
    WVs en tl p (r_uitems cs ++ post) -> text_stop post ->
    OR inh c0 c frs -> SemI frs acc -> bnd_if cs acc ->
    m = (0 <? ld_depth (c_ld c)) -> N.of_nat lvl + ld_depth (c_ld c) = 12 -> 12 <= N.of_nat k + ld_depth (c_ld c) ->
    ld_ok (c_ld c) -> c_entity_floor c <= len_N (c_parent_prefixes c) ->
    inline_items (glevel4 decls k) m cs = Some (its, tr) -> ld_run (c_ld c) tr = None ->
    Pok acc its -> Rooms inh c0 acc its -> NsOk inh acc its ->
    exists pos,
      parse_content_loop text context (evl lvl) (usteps_list cs + fuel) depth (sst4 en tl p (r_uitems cs ++ post)) c =
      Err (EntityReferenceLoop pos).

Lemma IHok : forall k k', k = S k' -> forall cs, ItemsOK text D es (level decls k') cs.
Proof. intros k k' _ cs. apply (ItemsOK_all text D HD decls es Henv Hdecls Hcont). Qed.

(* ... and of the pieces of a text token *)
Definition TLfS (k : nat) : Prop :=
  forall ps bps bacc inh m e p more c0 c frs acc fuel L r its tr,
  Forall (uep_ok m) ps -> WV p (E.r_epieces ps ++ more) -> p + blen (E.r_epieces ps) = e -> e <= tlen text ->
  m = (0 <? ld_depth (c_ld c)) -> N.of_nat L + ld_depth (c_ld c) = 12 -> 12 <= N.of_nat k + ld_depth (c_ld c) -> ld_ok (c_ld c) ->
  acc_ok m bacc -> bacc = chunks bps -> nomarks bps ->
  OR inh c0 c frs -> SemI frs acc -> bnd acc = true ->
  c_entity_floor c <= len_N (c_parent_prefixes c) ->
  inline_run (glevel4 decls k) m ps = Some (its, tr) -> ld_run (c_ld c) tr = None ->
  Pok (acc ++ bps) its -> Rooms inh c0 (acc ++ bps) its -> NsOk inh (acc ++ bps) its ->
  (length (E.r_epieces ps) < fuel)%nat ->
  exists pos,
    (let! (b0, c1) := text_loop text (parse_content_lvl text L) r fuel (sst e p (E.r_epieces ps ++ more))
                        (push_text_chunks m bacc tb_new) c in finish_text r b0 c1) = Err (EntityReferenceLoop pos).

Section Level.
Variable k : nat.
Hypothesis IHf : forall k', k = S k' -> forall cs, ItemsF k' cs.
Hypothesis IHt : forall k', k = S k' -> TLfS k'.

(* a reference on which the detector stops at once *)
Lemma ref_step_enter_fail pc r fu s buf c value s1 c1 :
  at_end s = false -> parse_next_chunk text s (c_entities c) = Ok (ChText value, s1) ->
  finish_text r buf c = Ok c1 -> ld_enter (c_ld c1) = None -> s_pos s1 <= tlen text -> is_boundary text (s_pos s1) = true ->
  exists pos, text_loop text pc r (S fu) s buf c = Err (EntityReferenceLoop pos).
Proof.
  intros He Hp Ef Een Hs Hb. rewrite (text_loop_entity_step text pc r fu s buf c value s1 He Hp).
  rewrite Ef. cbn [bind]. destruct (enter_fail_u text s1 (c_ld c1) Hb Hs Een) as [pos E1].
  destruct (inc_references text s1 (c_ld c1)) as [l0| | |] eqn:Ei; cbn [bind] in E1 |- *.
  - rewrite E1. cbn [bind]. eauto.
  - injection E1 as ->. eauto.
  - discriminate.
  - discriminate.
Qed.

(* a reference whose value is entered, and fails *)
Lemma ref_step_value_fail pc r fu s buf c value s1 c1 ld1 sv pos :
  at_end s = false -> parse_next_chunk text s (c_entities c) = Ok (ChText value, s1) ->
  finish_text r buf c = Ok c1 -> ld_enter (c_ld c1) = Some ld1 ->
  stream_from_substr text (sl_start value) (sl_end value) = Ok sv ->
  pc sv (set_entity_floor (set_tag_name (set_ld c1 ld1) tag_name_null) (len_N (c_parent_prefixes c1))) = Err (EntityReferenceLoop pos) ->
  text_loop text pc r (S fu) s buf c = Err (EntityReferenceLoop pos).
Proof.
  intros He Hp Ef Een Es Epc. rewrite (text_loop_entity_step text pc r fu s buf c value s1 He Hp).
  rewrite Ef. cbn [bind]. destruct (CstEntText.enter_model text s1 _ _ Een) as (l0 & Ei1 & Ei2).
  rewrite Ei1. cbn [bind]. rewrite Ei2. cbn [bind]. rewrite Es. cbn [bind]. cbv zeta.
  cbn [c_parent_prefixes c_tag_name c_entity_floor set_ld]. rewrite Epc. reflexivity.
Qed.

(* the value of an entity on whose expansion the detector stops *)
Lemma value_f inh n v d en L c0 c2 frs2 acc2 :
  ylookup (glevel4 decls k) n = Some v -> first_xdecl decls n = Some d -> uent_ok text (pd d) en ->
  OR inh c0 c2 frs2 -> SemI frs2 acc2 -> bnd acc2 = true ->
  0 < ld_depth (c_ld c2) <= 10 -> N.of_nat L + ld_depth (c_ld c2) = 13 -> 13 <= N.of_nat k + ld_depth (c_ld c2) ->
  ld_ok (c_ld c2) -> c_entity_floor c2 = len_N (c_parent_prefixes c2) ->
  ld_run (c_ld c2) (y_trace v) = None ->
  Pok acc2 (y_items v) -> Rooms inh c0 acc2 (y_items v) -> NsOk inh acc2 (y_items v) ->
  exists sv pos,
    stream_from_substr text (sl_start (en_value en)) (sl_end (en_value en)) = Ok sv /\
    parse_content_lvl text L sv c2 = Err (EntityReferenceLoop pos).
Proof.
  intros El Hfd Hent HO HS Hbnd Hd0 Hlvl Hk Hok Hfl Hld HP HR HN.
  rewrite ylookup_glevel in El. rewrite Hfd in El. destruct k as [|k'] eqn:Ek; [lia|].
  pose proof (first_xdecl_in _ _ _ Hfd) as Hin.
  destruct L as [|L']; [lia|].
  destruct (x_value d) as [vps0|its_v] eqn:Hval; cbn [inline_value] in El.
  - (* character data *)
    set (vps := enc_epieces vps0) in *.
    destruct (E.inline_ps (ptable (glevel4 decls k')) false true vps) as [[qv trv]|] eqn:Ei; [|discriminate].
    cbn [E.obind fst snd] in El. injection El as <-. cbn [y_items y_trace] in *.
    destruct (ps_to_run4 decls k' true vps qv trv Ei) as (its' & Erun & Htx & Hpc).
    assert (Hdok : udecl_okc (pd d)) by (rewrite Forall_forall in Hdecls; apply Hdecls; apply in_map; exact Hin).
    assert (Hval' : E.e_value (pd d) = E.EText vps) by (cbn [pd E.e_value]; rewrite Hval; reflexivity).
    unfold udecl_okc in Hdok. rewrite Hval' in Hdok. destruct Hdok as (Hvok & Hvn3 & _).
    destruct Hent as (Hen & vs & tail & Eval & HWv). rewrite Hval' in Eval, HWv. cbn [E.r_value] in Eval, HWv.
    rewrite Eval. cbn [sl sl_start sl_end].
    rewrite (stream_from_substr_W text vs (E.r_epieces vps) tail (WV_W _ _ _ HWv)).
    set (ve := vs + blen (E.r_epieces vps)) in *.
    pose proof (CstLex.W_le _ _ _ (CstLex.W_app _ _ _ _ (WV_W _ _ _ HWv))) as Hlev. fold ve in Hlev.
    destruct (uep_bytes true vps Hvok) as [Hvu Hvb].
    assert (Ew : walk acc2 its' = walk acc2 [@IText bpieces qv]).
    { rewrite (walk_texts its' acc2 Htx), Hpc. cbn [walk]. reflexivity. }
    assert (Hne : E.r_epieces vps <> []).
    { intros E0. destruct vps as [|pp vr]; [cbn in Erun; injection Erun as _ <-; discriminate|].
      apply Forall_cons_iff in Hvok. destruct Hvok as [Hq0 _].
      destruct (uep_piece_ne true pp Hq0) as (x1 & r1 & E1). rewrite r_epieces_cons, E1 in E0. discriminate. }
    eexists. cut (exists pos, parse_content_lvl text (S L') (sst ve vs (E.r_epieces vps ++ tail)) c2 = Err (EntityReferenceLoop pos)).
    { intros [pos E]. exists pos. split; [reflexivity|exact E]. }
    assert (Epc : forall s0 cc, parse_content_lvl text (S L') s0 cc =
                parse_content_loop text context (token_with text (process_text_with text (parse_content_lvl text L')))
                  (S (length (s_rest s0))) 0 s0 cc) by reflexivity.
    rewrite Epc. cbn [sst s_rest].
    assert (Hlen : (1 <= length (E.r_epieces vps ++ tail))%nat).
    { rewrite app_length. destruct (E.r_epieces vps); [congruence|cbn; lia]. }
    destruct (length (E.r_epieces vps ++ tail)) as [|len'] eqn:Elen; [lia|].
    rewrite (content_loop_text_ne_u text context _ ve vs (E.r_epieces vps) tail c2 len' HWv eq_refl Hlev Hvu Hvb Hvn3 Hne).
    cbn [token_with].
    rewrite process_text_with_unfold. unfold slice_bytes at 1. cbn [sl sl_start sl_end].
    unfold ve. rewrite (CstLex.W_sub _ _ _ _ (WV_W _ _ _ HWv)). fold ve.
    destruct (existsb (fun x => (x =? 38) || (x =? 13)) (E.r_epieces vps)) eqn:Efast; cbn [negb].
    2:{ destruct (existsb_or_false _ _ _ Efast) as [E38 _].
        destruct (inline_run_plain (glevel4 decls k') true vps its' trv E38 Hvok Erun) as (-> & _). discriminate. }
    cbn [fst snd]. unfold ve. rewrite (stream_from_substr_W text vs (E.r_epieces vps) tail (WV_W _ _ _ HWv)). fold ve. cbn [bind].
    assert (Hm' : true = (0 <? ld_depth (c_ld c2))) by (replace (0 <? ld_depth (c_ld c2)) with true by lia; reflexivity).
    assert (HP' : Pok (acc2 ++ []) its') by (rewrite app_nil_r; unfold Pok; rewrite Ew; exact HP).
    assert (HR' : Rooms inh c0 (acc2 ++ []) its') by (rewrite app_nil_r; unfold CstFullS6Text.Rooms; rewrite Ew; exact HR).
    assert (HN' : NsOk inh (acc2 ++ []) its') by (rewrite app_nil_r; unfold CstFullS6Text.NsOk; rewrite Ew; exact HN).
    destruct (IHt k' eq_refl vps [] [] inh true ve vs tail c0 c2 frs2 acc2
                (S (length (s_rest (sst ve vs (E.r_epieces vps ++ tail))))) L' (vs, ve) its' trv
                Hvok HWv eq_refl Hlev Hm' ltac:(lia) ltac:(lia) Hok (acc_nil true) eq_refl (Forall_nil _) HO HS Hbnd
                ltac:(lia) Erun Hld HP' HR' HN' ltac:(cbn [sst s_rest]; rewrite app_length; lia))
      as [pos Ef].
    cbn [push_text_chunks sst s_rest] in Ef |- *. rewrite Ef. cbn [bind]. eauto.
  - (* items *)
    destruct (inline_items (glevel4 decls k') true its_v) as [[itv trv]|] eqn:Ei; [|discriminate].
    cbn [E.obind fst snd] in El. injection El as <-. cbn [y_items y_trace] in *.
    assert (Hc : decl_cont d) by (rewrite Forall_forall in Hcont; apply Hcont; exact Hin).
    unfold decl_cont in Hc. rewrite Hval in Hc. destruct Hc as [Hwf Hna].
    destruct Hent as (Hen & vs & tail & Eval & HWv).
    change (E.e_value (pd d)) with (pv (x_value d)) in Eval, HWv. rewrite r_value_pv, Hval in Eval, HWv. cbn [r_xvalue] in Eval, HWv.
    rewrite Eval. cbn [sl sl_start sl_end].
    rewrite (stream_from_substr_W text vs (r_uitems its_v) tail (WV_W _ _ _ HWv)).
    set (ve := vs + blen (r_uitems its_v)).
    pose proof (usteps_list_le D HD true its_v Hwf) as Hst.
    assert (HW' : WVs ve tail vs (r_uitems its_v ++ [])).
    { split; [rewrite app_nil_r; exact HWv|rewrite app_nil_r; reflexivity]. }
    assert (Hm' : true = (0 <? ld_depth (c_ld c2))) by (replace (0 <? ld_depth (c_ld c2)) with true by lia; reflexivity).
    assert (Hb' : bnd_if its_v acc2) by (destruct its_v; [exact I|]; intros _; exact Hbnd).
    destruct (IHf k' eq_refl its_v inh true ve tail vs [] c0 c2 frs2 acc2 L' 0
                (S (length (r_uitems its_v ++ tail) - usteps_list its_v)) itv trv
                Hwf Hna HW' I HO HS Hb' Hm' ltac:(lia) ltac:(lia) Hok ltac:(lia) Ei Hld HP HR HN) as [pos Ef].
    eexists. exists pos. split; [reflexivity|].
    rewrite parse_content_lvl_S. unfold parse_content. cbn [sst s_rest].
    replace (S (length (r_uitems its_v ++ tail)))
      with (usteps_list its_v + S (length (r_uitems its_v ++ tail) - usteps_list its_v))%nat
      by (rewrite app_length; lia).
    change (sst ve vs (r_uitems its_v ++ tail)) with (sst4 ve tail vs (r_uitems its_v)).
    rewrite <- (app_nil_r (r_uitems its_v)) at 2. exact Ef.
Qed.

(* ---- the loop of process_text_with ---- *)
Lemma TLf : TLfS k.
Proof.
  intros ps. induction ps as [|pc0 rest IH]; intros bps bacc inh m e p more c0 c frs acc fuel L r its tr
    Hok HW He Hle Hm Hlvl Hk Hldok Hacc Hb Hnm HO HS Hbnd Hfl Hin Hld HP HR HN Hfu.
  - cbn [inline_run] in Hin. injection Hin as <- <-. discriminate.
  - apply Forall_cons_iff in Hok. destruct Hok as [Hp Hrest]. destruct pc0 as [q|n].
    + (* a piece *)
      cbn [inline_run] in Hin. destruct (inline_run (glevel4 decls k) m rest) as [[itr trr]|] eqn:Er; [|discriminate].
      cbn [E.obind fst snd] in Hin. injection Hin as <- <-.
      cbn [E.r_epieces flat_map E.r_epiece] in *. fold (E.r_epieces rest) in *.
      rewrite <- app_assoc in HW |- *. rewrite blen_app in He.
      pose proof Hp as [Hvp _]. pose proof (chunks_le_piece_u D HD q Hvp) as Hcl. rewrite app_length in Hfu.
      replace fuel with (length (T.piece_chunks q) + (fuel - length (T.piece_chunks q)))%nat by lia.
      rewrite (loop_piece_u text D HD) by (try assumption; lia). rewrite <- Hm.
      rewrite <- push_text_chunks_app.
      apply (IH (bps ++ [q]) (bacc ++ T.piece_chunks q) inh m e (p + blen (T.r_piece q)) more c0 c frs acc
                (fuel - length (T.piece_chunks q))%nat L r itr trr); try assumption; try lia.
      * apply (WV_app _ _ _ _ HW (vpiece_valid 60 q Hvp)).
      * apply acc_app; [exact Hacc|apply uep_chunks; exact Hp].
      * rewrite chunks_app, Hb. f_equal. unfold chunks. cbn [flat_map]. rewrite app_nil_r. reflexivity.
      * apply Forall_app. split; [exact Hnm|]. constructor; [apply (uep_nonmark _ _ Hp)|constructor].
      * rewrite app_assoc. exact HP.
      * rewrite app_assoc. exact HR.
      * rewrite app_assoc. exact HN.
    + (* a reference *)
      destruct Hp as [Hn Hpre].
      cbn [inline_run] in Hin. destruct (ylookup (glevel4 decls k) n) as [v|] eqn:El; [|discriminate]. cbn [E.obind] in Hin.
      destruct (inline_run (glevel4 decls k) m rest) as [[itr trr]|] eqn:Er; [|discriminate].
      cbn [E.obind fst snd] in Hin. injection Hin as <- <-.
      cbn [E.r_epieces flat_map E.r_epiece] in *. fold (E.r_epieces rest) in *.
      rewrite <- !app_assoc in HW |- *. rewrite !blen_app in He. change (blen [38]) with 1 in He. change (blen [59]) with 1 in He.
      assert (Hfd : exists d, first_xdecl decls n = Some d).
      { rewrite ylookup_glevel in El. destruct (first_xdecl decls n); [eauto|discriminate]. }
      destruct Hfd as [d Hfd].
      assert (Hfd3 : first_decl decls3 n = Some (pd d)) by (rewrite first_decl_pd, Hfd; reflexivity).
      destruct (pnc_entity_u text D HD decls3 es Henv e p n (E.r_epieces rest ++ more) (pd d) HW Hn Hpre ltac:(lia) Hle Hfd3)
        as (en & Epnc & Hent).
      destruct fuel as [|fu]; [lia|].
      set (acc1 := acc ++ bps) in *.
      set (acc2 := acc1 ++ [E.mark]).
      assert (Eits : bmark :: y_items v ++ bmark :: itr = (bmark :: y_items v ++ [bmark]) ++ itr)
        by (cbn [app]; rewrite <- app_assoc; reflexivity).
      assert (Ew1 : walk acc1 (bmark :: y_items v ++ [bmark]) =
                    (fst (walk acc2 (y_items v)), snd (walk acc2 (y_items v)) ++ [E.mark])).
      { unfold bmark. cbn [walk]. fold acc2. rewrite walk_app. cbn [walk fst snd]. rewrite app_nil_r. reflexivity. }
      rewrite Eits in HP, HR, HN.
      destruct (Pok_app _ _ _ HP) as [HP1 HP2]. rewrite Ew1 in HP2. cbn [snd] in HP2.
      destruct (CstFullS6Text.NsOk_app _ _ _ _ _ HN) as [HN1 HN2]. rewrite Ew1 in HN2. cbn [snd] in HN2.
      assert (HNv : NsOk inh acc2 (y_items v)).
      { unfold CstFullS6Text.NsOk in HN1 |- *. rewrite Ew1 in HN1. cbn [fst] in HN1. exact HN1. }
      assert (HPv : Pok acc2 (y_items v)).
      { destruct HP1 as [X1 X2]. rewrite Ew1 in X1, X2. cbn [fst snd] in X1, X2. split; [exact X1|].
        apply (crlf_split_app_l _ [E.mark]). exact X2. }
      pose proof (CstFullS6Text.Rooms_app_l D HD _ _ _ _ _ HR) as HR1.
      (* flush *)
      destruct (CstFullS6Text.buf_flush text D es inh m bacc bps r c0 c frs acc Hacc Hb Hnm HO HS Hbnd) as (c1 & G0 & E0 & HO1 & HS1 & L1 & L2 & L3).
      { apply (crlf_split_app_l _ [E.mark]). apply (Pok_acc _ _ HPv). }
      { intros Z0 Z1. destruct HR1 as [HR1 _]. rewrite Ew1 in HR1. cbn [fst snd] in HR1.
        apply (CstFullItems.node_room_room _ _ HR1).
        pose proof (CstFullS6Text.flush_later (y_items v ++ [bmark]) acc2) as Hl.
        rewrite walk_app in Hl. unfold bmark in Hl. cbn [walk fst snd] in Hl. rewrite app_nil_r in Hl.
        assert (X : NT.nsizes (CstFullTree.dens bpieces bmeaning (flush acc2)) = 1).
        { rewrite CstFullS6Text.nsizes_flush. unfold acc2, acc1. rewrite !CstEntCText.all_marks_app, Z0. cbn [andb].
          destruct (all_marks bps) eqn:Em; [apply (nomarks_all bps Hnm) in Em; congruence|]. reflexivity. }
        lia. }
      assert (Hend : at_end (sst e p ([38] ++ n ++ [59] ++ E.r_epieces rest ++ more)) = false) by (rewrite at_end_sst; lia).
      assert (Hpnc : parse_next_chunk text (sst e p ([38] ++ n ++ [59] ++ E.r_epieces rest ++ more)) (c_entities c) =
                     Ok (ChText (en_value en), sst e (p + 2 + blen n) (E.r_epieces rest ++ more)))
        by (rewrite (or_es _ _ _ _ _ _ _ HO); exact Epnc).
      assert (HWn : WV (p + 2 + blen n) (E.r_epieces rest ++ more)).
      { pose proof (WV_cons _ _ _ _ HW ltac:(lia)) as X1. cbn [app] in X1.
        destruct (uname_bytes n Hn) as (Hun & _). pose proof (WV_app _ _ _ _ X1 (ustr_valid _ Hun)) as X2.
        pose proof (WV_cons _ _ _ _ X2 ltac:(lia)) as X3.
        replace (p + 2 + blen n) with (p + 1 + blen n + 1) by lia. exact X3. }
      (* the detector *)
      cbn [ld_run] in Hld. destruct (ld_enter (c_ld c)) as [ld1|] eqn:Eenter.
      2:{ destruct (ref_step_enter_fail (parse_content_lvl text L) r fu _ _ c (en_value en) _ c1 Hend Hpnc E0
                      ltac:(rewrite L1; exact Eenter) ltac:(cbn [sst s_pos]; lia) ltac:(cbn [sst s_pos]; apply (boundary_v _ _ _ HWn))) as [pos Ef].
          rewrite Ef. cbn [bind]. eauto. }
      destruct (enter_d _ _ Eenter) as [Hd1 Hd10].
      set (c2 := set_entity_floor (set_tag_name (set_ld c1 ld1) tag_name_null) (len_N (c_parent_prefixes c1))).
      assert (HO2 : OR inh c0 c2 (frs ++ G0)) by (apply (CstFullS6Text.OR_frame text D es inh c0 c1 c2 _ HO1); unfold c2; repeat split).
      assert (HS2 : SemI (frs ++ G0) acc2) by (apply CstEntCText.SemI_marks; [exact HS1|reflexivity]).
      assert (Hb2 : bnd acc2 = true) by (unfold acc2; rewrite CstEntCText.bnd_snoc; reflexivity).
      assert (Hok2 : ld_ok (c_ld c2)) by (unfold c2; cbn; apply (ld_ok_enter _ _ Eenter Hldok)).
      assert (HRv : Rooms inh c0 acc2 (y_items v)).
      { destruct HR1 as (X1 & X2 & X3). rewrite Ew1 in X1, X2, X3. cbn [fst snd] in X1, X2, X3. split; [|split; assumption].
        unfold CstNsItems.node_room in *. rewrite !bdens_app, !nsizes_app in *.
        assert (Y : NT.nsizes (CstFullTree.dens bpieces bmeaning (flush (snd (walk acc2 (y_items v))))) <=
                    NT.nsizes (CstFullTree.dens bpieces bmeaning (flush (snd (walk acc2 (y_items v)) ++ [E.mark])))).
        { rewrite !CstFullS6Text.nsizes_flush, CstEntCText.all_marks_app. change (all_marks [E.mark]) with true. rewrite andb_true_r. apply N.le_refl. }
        lia. }
      rewrite ld_run_app in Hld. destruct (ld_run ld1 (y_trace v)) as [ld1'|] eqn:Erun1.
      * (* the value is read; the detector stops later *)
        cbn [ld_run] in Hld.
        destruct (agree4_lookup decls k n v (c_ld c) ld1 ld1' El Eenter Erun1 Hk) as [El' _].
        destruct (CstFullS6Text.value_ok text D HD decls es Henv Hdecls Hcont k (IHok k) inh n v d en L c0 c2 (frs ++ G0) acc2 ld1' El' Hfd Hent HO2 HS2 Hb2)
          as (sv & s' & c0a & c2' & frsa & K1 & e1 & Es & Epc & HRes1); try assumption.
        { unfold c2. cbn. lia. }
        { unfold c2. cbn. lia. }
        { unfold c2. reflexivity. }
        pose proof HRes1 as (S1 & O1 & M1 & F1 & Le1 & Nc1 & D1 & D1' & Fl1 & T1).
        assert (Hpp : len_N (c_parent_prefixes c2') = c_entity_floor c2').
        { rewrite Fl1. change (c_entity_floor c2) with (len_N (c_parent_prefixes c1)).
          rewrite (CstEntText.Run_pp _ _ _ (or_run _ _ _ _ _ _ _ O1)), (CstEntText.Run_pp _ _ _ (or_run _ _ _ _ _ _ _ HO1)).
          destruct S1 as (_ & _ & ->). reflexivity. }
        rewrite (CstEntCText.ref_step text (parse_content_lvl text L) r fu (sst e p ([38] ++ n ++ [59] ++ E.r_epieces rest ++ more))
                   (push_text_chunks m bacc tb_new) c (en_value en) (sst e (p + 2 + blen n) (E.r_epieces rest ++ more)) c1 ld1 sv s' c2');
          try assumption.
        2:{ rewrite L1. exact Eenter. }
        set (c3 := set_ld (set_entity_floor (set_tag_name c2' (c_tag_name c1)) (c_entity_floor c1)) (dec_depth (c_ld c2'))).
        assert (HO3 : OR inh c0a c3 frsa) by (apply (CstFullS6Text.OR_frame text D es inh c0a c2' c3 _ O1); unfold c3; repeat split).
        assert (Eld3 : c_ld c3 = dec_depth ld1') by (unfold c3; cbn; rewrite D1; reflexivity).
        assert (Hdd : ld_depth (dec_depth ld1') = ld_depth (c_ld c)).
        { rewrite dec_d; rewrite D1'; unfold c2; cbn [c_ld set_entity_floor set_tag_name set_ld]; lia. }
        assert (HResE : Res inh c0 c acc1 (bmark :: y_items v ++ [bmark]) (dec_depth ld1') c0a c3 frsa K1 e1).
        { unfold CstFullS6Text.Res. rewrite Ew1. cbn [fst snd].
          split; [exact S1|]. split; [exact HO3|]. split; [apply CstEntCText.SemI_marks; [exact M1|reflexivity]|].
          split; [exact F1|]. split; [exact Le1|]. split; [exact Nc1|]. split; [exact Eld3|]. split; [exact Hdd|].
          split; [unfold c3; cbn; exact L3|]. unfold tn_set, c3. cbn. rewrite L2. auto. }
        apply (IH [] [] inh m e (p + 2 + blen n) more c0a c3 frsa (snd (walk acc2 (y_items v)) ++ [E.mark]) fu L r itr trr); try assumption.
        -- lia.
        -- rewrite Eld3, Hdd. exact Hm.
        -- rewrite Eld3, Hdd. exact Hlvl.
        -- rewrite Eld3, Hdd. exact Hk.
        -- rewrite Eld3. apply ld_ok_dec. apply (ld_ok_run _ _ _ Erun1). apply (ld_ok_enter _ _ Eenter Hldok).
        -- apply acc_nil.
        -- reflexivity.
        -- constructor.
        -- apply CstEntCText.SemI_marks; [exact M1|reflexivity].
        -- rewrite CstEntCText.bnd_snoc. reflexivity.
        -- unfold c3. cbn [c_entity_floor c_parent_prefixes set_ld set_entity_floor set_tag_name].
           rewrite (CstEntText.Run_pp _ _ _ (or_run _ _ _ _ _ _ _ O1)). destruct S1 as (_ & _ & ->). rewrite L3.
           rewrite <- (CstEntText.Run_pp _ _ _ (or_run _ _ _ _ _ _ _ HO)). exact Hfl.
        -- rewrite Eld3. exact Hld.
        -- rewrite app_nil_r. exact HP2.
        -- rewrite app_nil_r. pose proof (CstFullS6Text.Rooms_app_r text D HD es _ _ _ _ _ _ _ _ _ _ _ _ HResE HR) as X. rewrite Ew1 in X. exact X.
        -- rewrite app_nil_r. exact HN2.
        -- rewrite !app_length in Hfu. cbn [length] in Hfu. lia.
      * (* the detector stops inside the value *)
        destruct (value_f inh n v d en L c0 c2 (frs ++ G0) acc2 El Hfd Hent HO2 HS2 Hb2) as (sv & pos & Es & Epc); try assumption.
        { unfold c2. cbn. lia. }
        { unfold c2. cbn. lia. }
        { unfold c2. cbn. lia. }
        { unfold c2. reflexivity. }
        rewrite (ref_step_value_fail (parse_content_lvl text L) r fu (sst e p ([38] ++ n ++ [59] ++ E.r_epieces rest ++ more))
                   (push_text_chunks m bacc tb_new) c (en_value en) (sst e (p + 2 + blen n) (E.r_epieces rest ++ more)) c1 ld1 sv pos
                   Hend Hpnc E0 ltac:(rewrite L1; exact Eenter) Es Epc).
        cbn [bind]. eauto.
Qed.

End Level.

End RejText.

Print Assumptions value_f.
Print Assumptions TLf.
