(* Proofs/WfParse.v -- C08 lifted to a whole parse, part 3: every string stored in the document
   built by [parse] is lexically well formed: text, comments, PI contents and attribute values
   consist of XML Chars; comments have no "--" and do not end with '-'; element and attribute
   local names are NCNames and PI targets are Names.
   Route: the tokenizer delivers only well-formed tokens (WfParseTok.v), the builder keeps a
   context invariant [ctx_wf] on every well-formed token, including when it re-enters the
   tokenizer on the value of an entity. *)
From Coq Require Import String.
From Coq Require Import List Arith NArith Bool Lia ZifyBool ZifyN ZifyNat.
Import ListNotations.
From RX Require Import Generated.
From RX.Model Require Import Base CharClass Stream Tokenizer Doc Builder Parse.
From RX.Proofs Require Import Tactics NoPanicUtf8 BorrowLocal BorrowParse RejectProofs WfParseTok WfParseChars.
Open Scope N_scope.

(* ------------------------------------------------------------------------------------------ *)
(* The invariant                                                                                *)

Definition comment_wf (l : bytes) : Prop :=
  all_chars l /\ contains_b (b "--") l = false /\ ends_with_byte 45 l = false.

Definition kind_wf (text : bytes) (k : node_kind) : Prop :=
  match k with
  | KElement _ local _ _ => ncname_if_valid text (slice_bytes text local)
  | KPI target value => is_name (slice_bytes text target) /\
                        match value with Some v => all_chars (slice_bytes text v) | None => True end
  | KComment s => comment_wf (slice_bytes text s)
  | KText st => all_chars (storage_bytes text st)
  | KRoot => True
  end.
Definition node_wf (text : bytes) (nd : node_data) : Prop := kind_wf text (nd_kind nd).
Definition attr_wf (text : bytes) (a : attr_data) : Prop :=
  ncname_if_valid text (slice_bytes text (ad_local a)) /\ all_chars (storage_bytes text (ad_value a)).
Definition doc_wf (text : bytes) (d : document) : Prop :=
  Forall (node_wf text) (d_nodes d) /\ Forall (attr_wf text) (d_attrs d).

Definition entity_wf (text : bytes) (e : entity) : Prop := all_chars (slice_bytes text (en_value e)).
Definition tattr_wf (text : bytes) (a : temp_attr) : Prop :=
  ncname_if_valid text (slice_bytes text (ta_local a)) /\ all_chars (storage_bytes text (ta_value a)).
Definition tagname_wf (text : bytes) (tn : tag_name_span) : Prop :=
  slice_len (tn_name tn) <> 0 -> ncname_if_valid text (slice_bytes text (tn_name tn)).
Definition cow_wf (text : bytes) (x : cow) : Prop := all_chars (cow_bytes text x).

Definition ctx_wf (text : bytes) (c : context) : Prop :=
  doc_wf text (c_doc c) /\
  Forall (entity_wf text) (c_entities c) /\
  Forall (tattr_wf text) (c_cur_attrs c) /\
  tagname_wf text (c_tag_name c) /\
  Forall (cow_wf text) (c_after_text c).

(* ------------------------------------------------------------------------------------------ *)
(* The loop of norm_attr_lvl, by name                                                           *)

Section AttrLoop.
Variable text : bytes.
Variable lvl' : nat.
Variable entities : list entity.
Fixpoint nattr_loop (fuel : nat) (s : stream) (t : text_buffer) (ld : loop_detector) {struct fuel}
  : res (text_buffer * loop_detector) :=
  match fuel with
  | O => OutOfFuel
  | S fu =>
    if at_end s then Ok (t, ld) else
    let! x := curr_byte_unchecked s in
    if negb (x =? 38) then
      if (x =? 60) && (0 <? ld_depth ld) then err_at text s InvalidAttributeValue
      else
        let! s := advance 1 s in
        nattr_loop fu s (tb_push_from_attr x (curr_byte_opt s) t) ld
    else
      let start := s_pos s in
      let! r := consume_reference text s in
      match r with
      | Some (RefChar ch, s) =>
        match push_char_bytes_attr (encode_utf8 ch) (0 <? ld_depth ld) t with
        | Some t => nattr_loop fu s t ld
        | None => err_from text start InvalidAttributeValue
        end
      | Some (RefEntity name, s) =>
        match find_entity text entities (slice_bytes text name) with
        | Some e =>
          let! ld := inc_references text s ld in
          let! ld := inc_depth text s ld in
          let! (t, ld) := norm_attr_lvl text lvl' entities (en_value e) t ld in
          nattr_loop fu s t (dec_depth ld)
        | None => err_from text start (UnknownEntityReference (slice_bytes text name))
        end
      | None => err_from text start MalformedEntityReference
      end
  end.
End AttrLoop.

Lemma norm_attr_lvl_eq text lvl' entities value t ld :
  norm_attr_lvl text (S lvl') entities value t ld =
  let! s0 := stream_from_substr text (sl_start value) (sl_end value) in
  nattr_loop text lvl' entities (S (length (s_rest s0))) s0 t ld.
Proof. reflexivity. Qed.

Section Builder.
Variable text : bytes.
Notation sb := (slice_bytes text).
Notation I := (ctx_wf text).
Notation R := (RestOk text).
Notation IS := (fun r => I (snd r)).

(* ---- nodes ---- *)
Definition keeps (f : node_data -> node_data) : Prop :=
  forall nd, node_wf text nd -> node_wf text (f nd).

Lemma upd_node_wf nodes i f :
  keeps f -> Forall (node_wf text) nodes -> okP (upd_node nodes i f) (Forall (node_wf text)).
Proof.
  intros Hf HF l H. unfold upd_node in H.
  destruct (list_upd nodes (N.to_nat i) f) eqn:E; [|discriminate]. injection H as <-.
  eapply list_upd_Forall; eauto.
Qed.

Lemma keeps_prev v : keeps (fun nd => nd_set_prev nd v).
Proof. intros nd H; exact H. Qed.
Lemma keeps_next v : keeps (fun nd => nd_set_next_subtree nd v).
Proof. intros nd H; exact H. Qed.
Lemma keeps_last v : keeps (fun nd => nd_set_last_child nd v).
Proof. intros nd H; exact H. Qed.
Lemma keeps_range v : keeps (fun nd => nd_set_range_end nd v).
Proof. intros nd H; exact H. Qed.
Lemma keeps_kind k : kind_wf text k -> keeps (fun nd => nd_set_kind nd k).
Proof. intros Hk nd H; exact Hk. Qed.

Lemma set_next_subtree_all_wf : forall ids nodes v,
  Forall (node_wf text) nodes -> okP (set_next_subtree_all nodes ids v) (Forall (node_wf text)).
Proof.
  induction ids as [|i ids IH]; intros nodes v HF; cbn [set_next_subtree_all].
  - apply okP_ret; assumption.
  - eapply okP_bind; [apply upd_node_wf; [apply keeps_next|assumption]|].
    intros l Hl. apply IH; assumption.
Qed.

(* ---- the invariant and the record updates ---- *)
Ltac unI := unfold ctx_wf in *;
  cbn [c_doc c_entities c_cur_attrs c_parent_prefixes c_tag_name c_after_text
       set_doc set_ns_start_idx set_cur_attrs set_awaiting set_parent_prefixes set_entities
       set_after_text set_parent_id set_tag_name set_entity_floor set_ld fst snd] in *.

Lemma I_set_doc c d : I c -> doc_wf text d -> I (set_doc c d).
Proof. unI. tauto. Qed.
Lemma I_set_ns_start_idx c v : I c -> I (set_ns_start_idx c v).
Proof. unI. tauto. Qed.
Lemma I_set_awaiting c v : I c -> I (set_awaiting c v).
Proof. unI. tauto. Qed.
Lemma I_set_parent_id c v : I c -> I (set_parent_id c v).
Proof. unI. tauto. Qed.
Lemma I_set_parent_prefixes c v : I c -> I (set_parent_prefixes c v).
Proof. unI. tauto. Qed.
Lemma I_set_entity_floor c v : I c -> I (set_entity_floor c v).
Proof. unI. tauto. Qed.
Lemma I_set_ld c v : I c -> I (set_ld c v).
Proof. unI. tauto. Qed.
Lemma I_set_cur_attrs c v : I c -> Forall (tattr_wf text) v -> I (set_cur_attrs c v).
Proof. unI. tauto. Qed.
Lemma I_set_entities c v : I c -> Forall (entity_wf text) v -> I (set_entities c v).
Proof. unI. tauto. Qed.
Lemma I_set_after_text c v : I c -> Forall (cow_wf text) v -> I (set_after_text c v).
Proof. unI. tauto. Qed.
Lemma I_set_tag_name c v : I c -> tagname_wf text v -> I (set_tag_name c v).
Proof. unI. tauto. Qed.

Lemma I_doc c : I c -> doc_wf text (c_doc c).
Proof. unI. tauto. Qed.
Lemma I_entities c : I c -> Forall (entity_wf text) (c_entities c).
Proof. unI. tauto. Qed.
Lemma I_cur_attrs c : I c -> Forall (tattr_wf text) (c_cur_attrs c).
Proof. unI. tauto. Qed.
Lemma I_tag_name c : I c -> tagname_wf text (c_tag_name c).
Proof. unI. tauto. Qed.
Lemma I_after_text c : I c -> Forall (cow_wf text) (c_after_text c).
Proof. unI. tauto. Qed.

Lemma doc_wf_set_nodes d nodes : doc_wf text d -> Forall (node_wf text) nodes -> doc_wf text (set_nodes d nodes).
Proof. unfold doc_wf, set_nodes; cbn [d_nodes d_attrs]. tauto. Qed.
Lemma doc_wf_set_attrs d attrs : doc_wf text d -> Forall (attr_wf text) attrs -> doc_wf text (set_attrs d attrs).
Proof. unfold doc_wf, set_attrs; cbn [d_nodes d_attrs]. tauto. Qed.
Lemma doc_wf_nodes d : doc_wf text d -> Forall (node_wf text) (d_nodes d).
Proof. unfold doc_wf; tauto. Qed.
Lemma doc_wf_attrs d : doc_wf text d -> Forall (attr_wf text) (d_attrs d).
Proof. unfold doc_wf; tauto. Qed.

Local Hint Resolve I_set_doc I_set_ns_start_idx I_set_awaiting I_set_parent_id I_set_entity_floor
  I_set_ld I_set_cur_attrs I_set_parent_prefixes I_set_entities I_set_after_text I_set_tag_name
  I_doc I_entities I_cur_attrs I_tag_name I_after_text
  doc_wf_set_nodes doc_wf_set_attrs doc_wf_nodes doc_wf_attrs Forall_snoc
  keeps_prev keeps_next keeps_last keeps_range keeps_kind Forall_nil : wdb.

Ltac fin := cbv beta in *; cbn [fst snd] in *; eauto 8 with wdb.

(* ---- append_node, append_text, merge_text, reset_after_text ---- *)
Lemma append_node_wf kind r c : I c -> kind_wf text kind -> okP (append_node kind r c) IS.
Proof.
  intros Hc Hk. unfold append_node.
  assert (Hn : Forall (node_wf text)
    (d_nodes (c_doc c) ++ [{| nd_parent := Some (c_parent_id c); nd_prev_sibling := None;
                              nd_next_subtree := None; nd_last_child := None;
                              nd_kind := kind; nd_range := r |}])).
  { apply Forall_snoc; [fin|exact Hk]. }
  repeat ok_step ltac:(first [ apply upd_node_wf; [fin|eassumption]
                             | apply set_next_subtree_all_wf; eassumption ]).
  fin.
Qed.

Lemma append_text_wf t r c : I c -> cow_wf text t -> okP (append_text t r c) I.
Proof.
  intros Hc Ht. unfold append_text.
  repeat ok_step ltac:(first [ apply append_node_wf; [assumption|destruct t; exact Ht] ]).
  all: apply I_set_after_text; [fin|]; apply Forall_snoc; [fin|assumption].
Qed.

Lemma concat_cow_chars l : Forall (cow_wf text) l -> all_chars (concat (map (cow_bytes text) l)).
Proof.
  induction 1 as [|x l Hx Hl IH]; cbn [map concat]; [constructor|].
  apply all_chars_app; assumption.
Qed.

Lemma merge_text_wf c : I c -> okP (merge_text text c) I.
Proof.
  intros Hc. unfold merge_text.
  repeat ok_step ltac:(first [ apply upd_node_wf;
      [apply keeps_kind; cbn [kind_wf storage_bytes]; apply concat_cow_chars; fin|fin] ]).
  fin.
Qed.

Lemma reset_after_text_wf c : I c -> okP (reset_after_text text c) I.
Proof.
  intros Hc. unfold reset_after_text.
  repeat ok_step ltac:(first [ apply merge_text_wf; assumption ]); fin.
Qed.

(* ---- namespaces: nodes and attributes untouched ---- *)
Lemma push_ns_wf name uri d : doc_wf text d -> okP (push_ns text name uri d) (doc_wf text).
Proof.
  intros Hd. unfold push_ns.
  repeat ok_step fail; unfold doc_wf in *; cbn [d_nodes d_attrs]; exact Hd.
Qed.

Lemma push_ref_wf i d : doc_wf text d -> okP (push_ref i d) (doc_wf text).
Proof.
  intros Hd. unfold push_ref.
  repeat ok_step fail; unfold doc_wf in *; cbn [d_nodes d_attrs]; exact Hd.
Qed.

Lemma resolve_ns_loop_wf start : forall is d,
  doc_wf text d -> okP (resolve_ns_loop text start is d) (doc_wf text).
Proof.
  induction is as [|i is IH]; intros d Hd; cbn [resolve_ns_loop].
  - apply okP_ret; assumption.
  - repeat ok_step ltac:(first [ apply push_ref_wf; assumption | apply IH; assumption ]).
Qed.

Notation IST c := (fun r => I (snd r) /\ c_tag_name (snd r) = c_tag_name c).

Lemma resolve_namespaces_wf c : I c -> okP (resolve_namespaces text c) (IST c).
Proof.
  intros Hc. unfold resolve_namespaces.
  repeat ok_step ltac:(first [ apply resolve_ns_loop_wf; fin ]); split; fin.
Qed.

(* ---- attributes ---- *)
Lemma resolve_attrs_loop_wf nss start : forall l d,
  Forall (tattr_wf text) l -> doc_wf text d ->
  okP (resolve_attrs_loop text nss start l d) (doc_wf text).
Proof.
  induction l as [|a l IH]; intros d Hl Hd; cbn [resolve_attrs_loop].
  - apply okP_ret; assumption.
  - inversion Hl as [|? ? Ha Hl']; subst. destruct Ha as [Hlo Hv].
    repeat ok_step ltac:(first [ apply IH; [assumption|];
      apply doc_wf_set_attrs; [assumption|]; apply Forall_snoc; [fin|]; split; assumption ]).
Qed.

Lemma resolve_attributes_wf nss c : I c -> okP (resolve_attributes text nss c) (IST c).
Proof.
  intros Hc. unfold resolve_attributes.
  pose proof (I_cur_attrs c Hc) as Hl.
  destruct (c_cur_attrs c) as [|a l] eqn:E; [apply okP_ret; split; fin|].
  repeat ok_step ltac:(first [ apply resolve_attrs_loop_wf; [assumption|fin] ]).
  split; fin.
Qed.

(* ---- process_element ---- *)
Lemma process_element_wf e r c : I c -> okP (process_element text e r c) I.
Proof.
  intros Hc. unfold process_element.
  destruct (slice_len (tn_name (c_tag_name c)) =? 0) eqn:E0.
  { destruct e; repeat ok_step fail. }
  eapply okP_bind; [apply resolve_namespaces_wf; exact Hc|]. intros [nss c1] [H1 T1]. cbn [fst snd] in *.
  eapply okP_bind; [apply resolve_attributes_wf; apply I_set_ns_start_idx; exact H1|].
  intros [attrs c3] [H3 T3]. cbn [fst snd c_tag_name set_ns_start_idx] in *.
  assert (Hname : ncname_if_valid text (sb (tn_name (c_tag_name c3)))).
  { apply (I_tag_name c3 H3). rewrite T3, T1. lia. }
  destruct e;
    repeat ok_step ltac:(first
      [ apply append_node_wf; [fin | exact Hname]
      | apply upd_node_wf; [apply keeps_range | fin ] ]);
    fin.
Qed.

Lemma process_cdata_wf t r c : I c -> all_chars (sb t) -> okP (process_cdata text t r c) I.
Proof.
  intros Hc Ht. unfold process_cdata. cbv zeta.
  destruct (mem_b 13 (sb t)); apply append_text_wf; try assumption; unfold cow_wf; cbn [cow_bytes];
    try apply cdata_norm_chars; exact Ht.
Qed.

(* ---- attribute values ---- *)
Lemma find_entity_In es name e : find_entity text es name = Some e -> In e es.
Proof.
  intros H. destruct (find_entity_first _ _ _ _ H) as (pre & post & -> & _).
  apply in_or_app. right. left. reflexivity.
Qed.

Lemma nattr_loop_wf lvl' ents :
  Forall (entity_wf text) ents ->
  (forall value t ld t' ld', all_chars (sb value) -> all_chars (tb_buf t) ->
     norm_attr_lvl text lvl' ents value t ld = Ok (t', ld') -> all_chars (tb_buf t')) ->
  forall fu s t ld t' ld', CInv text s (tb_buf t) false ->
    nattr_loop text lvl' ents fu s t ld = Ok (t', ld') -> all_chars (tb_buf t').
Proof.
  intros Hents IHl. induction fu as [|fu IH]; intros s t ld t' ld' Hinv H; cbn [nattr_loop] in H; [noerr|].
  destruct (at_end s) eqn:Ea. { inversion H; subst. eapply CInv_end; eauto. }
  ib H x Hx. unfold curr_byte_unchecked in Hx.
  destruct (s_rest s) as [|x0 r0] eqn:Es; [discriminate|]. inversion Hx; subst x0. clear Hx.
  destruct (x =? 38) eqn:E38; cbn [negb] in H.
  - assert (x = 38) by lia. subst x.
    destruct (CInv_boundary text s _ _ Hinv) as (Hall & Hg).
    { right. exists 38, r0. split; [exact Es|reflexivity]. }
    cbv zeta in H. ib H rf Hrf. destruct rf as [[rf s2]|]; [|noerr].
    destruct (G_consume_reference text s rf s2 Hg Hrf) as (Hg2 & Hrf2).
    destruct rf as [name|cp].
    + destruct (find_entity text ents (sb name)) as [e|] eqn:Ef; [|noerr].
      ib H ld1 Hl1. ib H ld2 Hl2. ib H q Hq. destruct q as [t1 ld3].
      assert (He : entity_wf text e).
      { rewrite Forall_forall in Hents. apply Hents. eapply find_entity_In; eauto. }
      pose proof (IHl _ _ _ _ _ He Hall Hq) as Hall1.
      eapply IH; [|exact H]. apply G_CInv; assumption.
    + destruct Hrf2 as (Hcp & Hsc).
      destruct (push_char_bytes_attr (encode_utf8 cp) (0 <? ld_depth ld) t) as [t1|] eqn:Ep; [|noerr].
      eapply IH; [|exact H]. apply G_CInv; [exact Hg2|].
      eapply push_attr_ref_chars; eauto.
  - destruct ((x =? 60) && (0 <? ld_depth ld)); [noerr|].
    ib H s1 H1. eapply IH; [|exact H].
    destruct (x <? 128) eqn:Ex.
    + destruct (CInv_boundary text s _ _ Hinv) as (Hall & Hg).
      { right. exists x, r0. split; [exact Es|exact Ex]. }
      destruct (G_ascii_step text s x r0 s1 Hg Es Ex H1) as (Hg1 & Hcx).
      apply G_CInv; [exact Hg1|]. apply push_from_attr_ascii_chars; assumption.
    + destruct (push_from_attr_hi x (curr_byte_opt s1) t Ex) as (E1 & _). rewrite E1.
      exact (CInv_hi_step text s _ false x r0 s1 Hinv Es Ex Ea H1).
Qed.

Lemma norm_attr_lvl_wf ents : Forall (entity_wf text) ents ->
  forall lvl value t ld t' ld', all_chars (sb value) -> all_chars (tb_buf t) ->
    norm_attr_lvl text lvl ents value t ld = Ok (t', ld') -> all_chars (tb_buf t').
Proof.
  intros Hents. induction lvl as [|lvl IH]; intros value t ld t' ld' Hv Ht H; [discriminate|].
  rewrite norm_attr_lvl_eq in H. ib H s0 H0.
  eapply (nattr_loop_wf lvl ents Hents IH); [|exact H].
  apply G_CInv; [|exact Ht]. eapply G_from_substr; [|exact H0]. exact Hv.
Qed.

Lemma normalize_attribute_wf value c : I c -> all_chars (sb value) ->
  okP (normalize_attribute text value c)
      (fun p => all_chars (storage_bytes text (fst p)) /\ I (snd p)).
Proof.
  intros Hc Hv [st c1] H. cbn [fst snd]. unfold normalize_attribute in H. cbv zeta in H.
  destruct (existsb _ (sb value)).
  - ib H q Hq. destruct q as [t ld]. ib H bs Hbs. inversion H; subst. cbn [storage_bytes].
    split; [|apply I_set_ld; exact Hc].
    eapply tb_finish_chars; [|exact Hbs].
    eapply (norm_attr_lvl_wf _ (I_entities c Hc)); [exact Hv| |exact Hq]. constructor.
  - inversion H; subst. split; [exact Hv|exact Hc].
Qed.

Lemma process_attribute_wf r ql el prefix local value c :
  I c -> ncname_if_valid text (sb local) -> all_chars (sb value) ->
  okP (process_attribute text r ql el prefix local value c) I.
Proof.
  intros Hc Hl Hv. unfold process_attribute.
  eapply okP_bind; [apply normalize_attribute_wf; assumption|].
  intros [st c1] [Hst Hc1]. cbn [fst snd] in *.
  repeat ok_step ltac:(first [ apply push_ns_wf; fin ]).
  - fin.
  - fin.
  - fin.
  - apply I_set_cur_attrs; [assumption|]. apply Forall_snoc; [fin|].
    unfold tattr_wf; cbn [ta_local ta_value]. auto.
Qed.

(* ---- the callback, generic in how Text is processed ---- *)
Lemma token_with_wf ptext :
  (forall t r c, I c -> all_chars (sb t) -> r = (sl_start t, sl_end t) -> okP (ptext t r c) I) ->
  forall tk c, token_wf text tk -> I c -> okP (token_with text ptext tk c) I.
Proof.
  intros Hp tk c Ht Hc. unfold token_with. destruct tk; cbn [token_wf] in Ht.
  - destruct Ht as [Ht Hv].
    repeat ok_step ltac:(first [ apply reset_after_text_wf; assumption
                               | apply append_node_wf; [assumption|cbn [kind_wf]; auto] ]); fin.
  - repeat ok_step ltac:(first [ apply reset_after_text_wf; assumption
                               | apply append_node_wf; [assumption|cbn [kind_wf]; unfold comment_wf; auto] ]); fin.
  - apply okP_ret. apply I_set_entities; [assumption|]. apply Forall_snoc; [fin|exact Ht].
  - repeat ok_step ltac:(first [ apply reset_after_text_wf; assumption ]).
    apply I_set_tag_name; [assumption|]. intros _. exact Ht.
  - destruct Ht as [H1 H2]. apply process_attribute_wf; assumption.
  - repeat ok_step ltac:(first [ apply reset_after_text_wf; assumption
                               | apply process_element_wf; assumption ]).
  - destruct Ht as [H1 H2]. apply Hp; assumption.
  - apply process_cdata_wf; assumption.
Qed.

(* ---- process_text_with ---- *)
Lemma tag_name_null_wf : tagname_wf text tag_name_null.
Proof. intros H. exfalso. apply H. reflexivity. Qed.

Lemma ptext_loop_wf pc r :
  (forall s c, R s -> I c -> okP (pc s c) IS) ->
  forall fuel s buf c, CInv text s (tb_buf buf) (tb_pending_cr buf) -> I c ->
  okP (ptext_loop text pc r fuel s buf c) (fun p => all_chars (tb_buf (fst p)) /\ I (snd p)).
Proof.
  intros Hpc. induction fuel as [|fu IH]; intros s buf c Hinv Hc [buf' c'] H;
    cbn [ptext_loop] in H; [discriminate|]. cbn [fst snd].
  destruct (at_end s) eqn:Ea. { inversion H; subst. split; [eapply CInv_end; eauto|exact Hc]. }
  ib H q Hq. destruct q as [ch s1].
  unfold parse_next_chunk in Hq. rewrite Ea in Hq. ib Hq x Hx. unfold curr_byte_unchecked in Hx.
  destruct (s_rest s) as [|x0 r0] eqn:Es; [discriminate|]. inversion Hx; subst x0. clear Hx.
  destruct (x =? 38) eqn:E38.
  - assert (x = 38) by lia. subst x.
    destruct (CInv_boundary text s _ _ Hinv) as (Hall & Hg).
    { right. exists 38, r0. split; [exact Es|reflexivity]. }
    cbv zeta in Hq. ib Hq rf Hrf. destruct rf as [[rf s2]|]; [|noerr].
    destruct (G_consume_reference text s rf s2 Hg Hrf) as (Hg2 & Hrf2).
    destruct rf as [name|cp].
    + destruct (find_entity text (c_entities c) (sb name)) as [e|] eqn:Ef; [|noerr].
      inversion Hq; subst ch s1. clear Hq.
      assert (He : entity_wf text e).
      { pose proof (I_entities c Hc) as Hents. rewrite Forall_forall in Hents. apply Hents.
        eapply find_entity_In; eauto. }
      ib H c1 Hc1.
      assert (I1 : I c1).
      { destruct (negb (tb_is_empty buf)); [|inversion Hc1; subst; exact Hc].
        ib Hc1 bs Hbs. eapply append_text_wf; [exact Hc| |exact Hc1].
        unfold cow_wf. cbn [cow_bytes]. eapply tb_finish_chars; eauto. }
      ib H ld1 Hl1. ib H ld2 Hl2. cbv zeta in H. ib H es Hes. ib H q Hq. destruct q as [es' c2].
      assert (I2 : I c2).
      { refine (Hpc es _ _ _ (es', c2) Hq); [eapply RestOk_from_substr; exact Hes|].
        apply I_set_entity_floor. apply I_set_tag_name; [apply I_set_ld; exact I1|apply tag_name_null_wf]. }
      destruct (negb (len_N (c_parent_prefixes c2) =? c_entity_floor c2)); [noerr|].
      refine (IH _ _ _ _ _ (buf', c') H).
      * apply G_CInv; [exact Hg2|constructor].
      * apply I_set_ld. apply I_set_entity_floor. apply I_set_tag_name; [exact I2|].
        cbn [c_tag_name set_ld]. apply I_tag_name. exact I1.
    + destruct Hrf2 as (Hcp & Hsc). inversion Hq; subst ch s1. clear Hq.
      refine (IH _ _ _ _ Hc (buf', c') H). apply G_CInv; [exact Hg2|].
      apply push_text_ref_chars; assumption.
  - ib Hq s2 H2. inversion Hq; subst ch s1. clear Hq.
    refine (IH _ _ _ _ Hc (buf', c') H).
    destruct (x <? 128) eqn:Ex.
    + destruct (CInv_boundary text s _ _ Hinv) as (Hall & Hg).
      { right. exists x, r0. split; [exact Es|exact Ex]. }
      destruct (G_ascii_step text s x r0 s2 Hg Es Ex H2) as (Hg1 & Hcx).
      apply G_CInv; [exact Hg1|]. apply push_from_text_ascii_chars; assumption.
    + destruct (push_from_text_hi x buf Ex) as (E1 & E2). rewrite E1, E2.
      exact (CInv_hi_step text s _ _ x r0 s2 Hinv Es Ex Ea H2).
Qed.

Lemma process_text_with_wf pc :
  (forall s c, R s -> I c -> okP (pc s c) IS) ->
  forall t r c, I c -> all_chars (sb t) -> r = (sl_start t, sl_end t) ->
  okP (process_text_with text pc t r c) I.
Proof.
  intros Hpc t r c Hc Ht Hr. rewrite process_text_with_eq. cbv zeta.
  destruct (negb (existsb (fun x => (x =? 38) || (x =? 13)) (sb t))).
  { apply append_text_wf; [exact Hc|exact Ht]. }
  intros c' H. ib H s0 H0. ib H q Hq. destruct q as [buf c1].
  assert (G0 : G text s0).
  { subst r. cbn [fst snd] in H0. eapply G_from_substr; [|exact H0]. exact Ht. }
  destruct (ptext_loop_wf pc r Hpc _ s0 tb_new c (G_CInv text s0 [] false G0 all_chars_nil) Hc _ Hq)
    as (Hb & I1). cbn [fst snd] in *.
  destruct (negb (tb_is_empty buf)); [|inversion H; subst; exact I1].
  ib H bs Hbs. eapply append_text_wf; [exact I1| |exact H].
  unfold cow_wf. cbn [cow_bytes]. eapply tb_finish_chars; eauto.
Qed.

(* ---- the recursion through entity expansion ---- *)
Lemma parse_content_lvl_wf : forall lvl s c, R s -> I c -> okP (parse_content_lvl text lvl s c) IS.
Proof.
  induction lvl as [|lvl IH]; intros s c Hr Hc; cbn [parse_content_lvl]; [apply okP_fuel|].
  intros [s' c'] H. cbn [snd].
  refine (tokenizer_content_tokens_wf text context _ I s c s' c' _ Hr Hc H).
  intros tok c0 c1 Htok Hc0 Hr0.
  refine (token_with_wf _ _ tok c0 Htok Hc0 c1 Hr0).
  intros t r c2 Hc2 Ht Hrr. apply process_text_with_wf; assumption.
Qed.

Lemma token_wf_I tok c : token_wf text tok -> I c -> okP (Parse.token text tok c) I.
Proof.
  intros Ht Hc. unfold Parse.token, process_text. apply token_with_wf; [|assumption|assumption].
  intros t r c2 Hc2 Hv Hr. apply process_text_with_wf; [|assumption|assumption|assumption].
  intros s c3 Hr3 Hc3. apply parse_content_lvl_wf; assumption.
Qed.

Lemma init_context_wf opt : okP (init_context text opt) I.
Proof.
  unfold init_context.
  eapply okP_bind.
  { apply push_ns_wf. unfold doc_wf; cbn [d_nodes d_attrs].
    split; [constructor; [exact Logic.I|constructor]|constructor]. }
  intros d Hd. apply okP_ret. unI.
  split; [exact Hd|]. split; [constructor|]. split; [constructor|].
  split; [apply tag_name_null_wf|constructor].
Qed.

Lemma parse_wf opt : okP (parse text opt) (doc_wf text).
Proof.
  unfold parse.
  eapply okP_bind; [apply init_context_wf|]. intros c0 Hc0.
  eapply okP_bind with (Q' := I).
  { intros c1 H. refine (tokenizer_tokens_wf text context (Parse.token text) I _ c0 c1 _ Hc0 H).
    intros tok ca cb Htok Hca Hr. exact (token_wf_I tok ca Htok Hca cb Hr). }
  intros c1 Hc1. repeat ok_step fail. fin.
Qed.

End Builder.

(* ------------------------------------------------------------------------------------------ *)
(* Main theorems                                                                                *)

(* the builder keeps the invariant on well-formed tokens *)
Theorem token_preserves_wf : forall text tok c c',
  token_wf text tok -> ctx_wf text c -> Parse.token text tok c = Ok c' -> ctx_wf text c'.
Proof. intros text tok c c' Ht Hc H. exact (token_wf_I text tok c Ht Hc c' H). Qed.
Print Assumptions token_preserves_wf.

Theorem parse_doc_wf : forall text opt d, parse text opt = Ok d -> doc_wf text d.
Proof. intros text opt d H. exact (parse_wf text opt d H). Qed.
Print Assumptions parse_doc_wf.

(* [15] Comment *)
Theorem parse_comments_ok : forall text opt d nd s,
  parse text opt = Ok d -> In nd (d_nodes d) -> nd_kind nd = KComment s ->
  contains_b (b "--") (slice_bytes text s) = false /\ ends_with_byte 45 (slice_bytes text s) = false.
Proof.
  intros text opt d nd s H Hin Hk. destruct (parse_doc_wf _ _ _ H) as [Hn _].
  rewrite Forall_forall in Hn. specialize (Hn nd Hin). unfold node_wf in Hn. rewrite Hk in Hn.
  destruct Hn as (_ & A & B). auto.
Qed.
Print Assumptions parse_comments_ok.

(* element and attribute local names are NCNames, PI targets are Names *)
Theorem parse_names_are_names : forall text opt d, valid_utf8_b text = true -> parse text opt = Ok d ->
  (forall nd ns local ar nss, In nd (d_nodes d) -> nd_kind nd = KElement ns local ar nss ->
     is_ncname (slice_bytes text local)) /\
  (forall a, In a (d_attrs d) -> is_ncname (slice_bytes text (ad_local a))) /\
  (forall nd t v, In nd (d_nodes d) -> nd_kind nd = KPI t v -> is_name (slice_bytes text t)).
Proof.
  intros text opt d Hv H. destruct (parse_doc_wf _ _ _ H) as [Hn Ha].
  rewrite Forall_forall in Hn, Ha. split; [|split].
  - intros nd ns local ar nss Hin Hk. specialize (Hn nd Hin). unfold node_wf in Hn. rewrite Hk in Hn.
    exact (Hn Hv).
  - intros a Hin. exact (proj1 (Ha a Hin) Hv).
  - intros nd t v Hin Hk. specialize (Hn nd Hin). unfold node_wf in Hn. rewrite Hk in Hn.
    exact (proj1 Hn).
Qed.
Print Assumptions parse_names_are_names.

(* every stored string consists of XML Chars *)
Theorem parse_all_chars : forall text opt d, valid_utf8_b text = true -> parse text opt = Ok d ->
  (forall nd st, In nd (d_nodes d) -> nd_kind nd = KText st -> all_chars (storage_bytes text st)) /\
  (forall nd s, In nd (d_nodes d) -> nd_kind nd = KComment s -> all_chars (slice_bytes text s)) /\
  (forall nd t v, In nd (d_nodes d) -> nd_kind nd = KPI t (Some v) -> all_chars (slice_bytes text v)) /\
  (forall a, In a (d_attrs d) -> all_chars (storage_bytes text (ad_value a))).
Proof.
  intros text opt d _ H. destruct (parse_doc_wf _ _ _ H) as [Hn Ha].
  rewrite Forall_forall in Hn, Ha. repeat split.
  - intros nd st Hin Hk. specialize (Hn nd Hin). unfold node_wf in Hn. rewrite Hk in Hn. exact Hn.
  - intros nd s Hin Hk. specialize (Hn nd Hin). unfold node_wf in Hn. rewrite Hk in Hn. exact (proj1 Hn).
  - intros nd t v Hin Hk. specialize (Hn nd Hin). unfold node_wf in Hn. rewrite Hk in Hn. exact (proj2 Hn).
  - intros a Hin. exact (proj2 (Ha a Hin)).
Qed.
Print Assumptions parse_all_chars.
