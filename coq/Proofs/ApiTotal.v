(* Proofs/ApiTotal.v -- C10: on a successfully parsed document every public read operation
   returns normally (Ok): link accessors, iterators, element variants, text/tail, slice
   iterators, names, attribute and namespace lookups, text_pos_at, get_node.
   Ingredients: the arena is the encoding of a tree (KeystoneParseWf.parse_wf_doc_tree), the
   navigation theorems on such arenas (Nav*.v), and the invariant of the builder at the end of
   the run (NoPanicParse.parse_document_token_core: ranges and indices are in bounds). *)
From Coq Require Import Ascii String.
From Coq Require Import List Arith NArith Bool Lia ZifyBool ZifyN ZifyNat.
Import ListNotations.
From RX Require Import Generated.
From RX.Model Require Import Base CharClass Stream Tokenizer Doc Builder Parse Api.
From RX.Spec Require Import Tree.
From RX.Proofs Require KeystoneBuilder KeystoneParseWf.
From RX.Proofs Require Import NavEnc NavLinks NavIter NavAxes NavElem.
From RX.Proofs Require PositionProofs OrderProofs OptionsMain.
From RX.Proofs Require Import Tactics NoPanicUtf8 NoPanicStream NoPanicBuilder NoPanicBuilderCtx NoPanicParse.
Open Scope N_scope.

Definition returns {A} (r : res A) : Prop := exists a, r = Ok a.

Lemma returns_bind {A B} (r : res A) (f : A -> res B) :
  returns r -> (forall a, r = Ok a -> returns (f a)) -> returns (bind r f).
Proof. intros [a Ha] H. rewrite Ha. cbn. apply H. exact Ha. Qed.

(* ---------------------------------------------------------------------------------------- *)
(* what a successful parse gives                                                            *)
(* ---------------------------------------------------------------------------------------- *)

Lemma parse_facts text opt d :
  valid_utf8_b text = true -> nodes_limit opt <= u32_max -> parse text opt = Ok d ->
  exists t, Arena' d t /\ wf_doc_tree t /\ DocOk d.
Proof.
  intros Hvalid Hl H.
  destruct (KeystoneParseWf.parse_wf_doc_tree text opt d H) as (t & Hrows & Hwf).
  exists t. split; [|split; auto].
  - split; [exact Hrows|].
    assert (Hlen : len_N (d_nodes d) = size t).
    { rewrite <- (KeystoneBuilder.links_of_nodes_len (d_nodes d)), Hrows.
      apply KeystoneBuilder.encode_len. }
    rewrite <- Hlen.
    assert (Hopt : opt = OptionsMain.opts (allow_dtd opt) (nodes_limit opt)) by (destruct opt; reflexivity).
    rewrite Hopt in H. apply OptionsMain.limit_caps in H. unfold u32_max in Hl. lia.
  - unfold parse in H. apply bind_ok in H as (c0 & H0 & H). apply bind_ok in H as (c & Hc & H).
    apply bind_ok in H as (it & _ & H). apply bind_ok in H as (he & _ & H).
    destruct (negb he); [discriminate|]. destruct (_ <? _); [discriminate|]. inversion H; subst.
    apply (core_doc text c). eapply parse_document_token_core; eauto.
Qed.

Lemma In_N_range : forall n a i, a <= i -> i < a + N.of_nat n -> In i (N_range a n).
Proof.
  induction n; intros a i H1 H2; cbn [N_range]; [lia|].
  destruct (N.eq_dec a i) as [->|Hne]; [left; reflexivity|right]. apply IHn; lia.
Qed.

Lemma in_table_of_lt t id : id < size t -> exists par s, In (id, par, s) (table t).
Proof.
  intros H. assert (Hin : In id (map (fun e => fst (fst e)) (table t))).
  { rewrite table_ids. apply In_N_range; lia. }
  apply in_map_iff in Hin as ([[i p] s] & E & Hin). cbn in E. subst. eauto.
Qed.

(* ---------------------------------------------------------------------------------------- *)
(* the operations that read ranges and indices                                              *)
(* ---------------------------------------------------------------------------------------- *)

Section Doc.
Variable text : bytes.
Variable d : document.
Hypothesis Hd : DocOk d.

Lemma node_kind_ok id nd : get_node d id = Some nd -> KindOk d (nd_kind nd).
Proof. intros H. unfold get_node in H. exact (Forall_nth_N _ _ _ _ (dok_nodes d Hd) H). Qed.

Lemma attributes_returns id nd : get_node d id = Some nd ->
  exists it, attributes d id = Ok it /\ it_lo it <= it_hi it /\ it_hi it <= len_N (d_attrs d).
Proof.
  intros Hg. pose proof (node_kind_ok id nd Hg) as Hk.
  unfold attributes, node_data_of. rewrite Hg. cbn [bind].
  destruct (nd_kind nd) as [|ns loc [a e] nss| | |]; try (eexists; split; [reflexivity|cbn; lia]).
  destruct Hk as (_ & H1 & H2 & _). cbn [fst snd] in *.
  destruct ((e <? a) || (len_N (d_attrs d) <? e)) eqn:E; [lia|].
  eexists; split; [reflexivity|cbn; lia].
Qed.

Lemma namespaces_returns id nd : get_node d id = Some nd ->
  exists it, namespaces d id = Ok it /\ it_lo it <= it_hi it /\ it_hi it <= len_N (d_ns_tree d).
Proof.
  intros Hg. pose proof (node_kind_ok id nd Hg) as Hk.
  unfold namespaces, node_data_of. rewrite Hg. cbn [bind].
  destruct (nd_kind nd) as [|ns loc ats [a e]| | |]; try (eexists; split; [reflexivity|cbn; lia]).
  destruct Hk as ([H1 H2] & _). cbn [fst snd] in *.
  destruct ((e <? a) || (len_N (d_ns_tree d) <? e)) eqn:E; [lia|].
  eexists; split; [reflexivity|cbn; lia].
Qed.

Lemma ns_uri_at_returns o : NsIdxOk d o -> returns (ns_uri_at text d o).
Proof.
  intros H. unfold ns_uri_at. destruct o as [i|]; [|eexists; reflexivity].
  destruct (nth_N_some _ _ H) as [v ->]. eexists; reflexivity.
Qed.

Lemma tag_name_returns id nd : get_node d id = Some nd -> returns (tag_name text d id).
Proof.
  intros Hg. pose proof (node_kind_ok id nd Hg) as Hk.
  unfold tag_name, node_data_of. rewrite Hg. cbn [bind].
  destruct (nd_kind nd); try (eexists; reflexivity).
  destruct Hk as (_ & _ & _ & Hk). apply returns_bind; [apply ns_uri_at_returns; auto|].
  intros; eexists; reflexivity.
Qed.

Lemma has_tag_name_returns id nd name : get_node d id = Some nd ->
  returns (has_tag_name text d id name).
Proof.
  intros Hg. pose proof (node_kind_ok id nd Hg) as Hk.
  unfold has_tag_name, node_data_of. rewrite Hg. cbn [bind].
  destruct (nd_kind nd); try (eexists; reflexivity).
  destruct Hk as (_ & _ & _ & Hk). destruct (fst name); [|eexists; reflexivity].
  apply returns_bind; [apply ns_uri_at_returns; auto|]. intros; eexists; reflexivity.
Qed.

Lemma attr_at_returns i : i < len_N (d_attrs d) ->
  exists a, attr_at d i = Ok a /\ AttrOk d a.
Proof.
  intros H. unfold attr_at. destruct (nth_N_some _ _ H) as [a E]. rewrite E.
  exists a. split; auto. exact (Forall_nth_N _ _ _ _ (dok_attrs d Hd) E).
Qed.

Lemma attr_ename_returns a : AttrOk d a -> returns (attr_ename text d a).
Proof.
  intros [H _]. unfold attr_ename. apply returns_bind; [apply ns_uri_at_returns; auto|].
  intros; eexists; reflexivity.
Qed.

Lemma find_attr_returns name : forall is, Forall (fun i => i < len_N (d_attrs d)) is ->
  exists o, find_attr text d is name = Ok o /\
            match o with Some i => i < len_N (d_attrs d) | None => True end.
Proof.
  induction is as [|i r IH]; intros H; cbn [find_attr]; [eexists; split; [reflexivity|exact I]|].
  inversion H as [|? ? Hi Hr]; subst.
  destruct (attr_at_returns i Hi) as (a & -> & Ha). cbn [bind].
  destruct (attr_ename_returns a Ha) as [n ->]. cbn [bind].
  destruct (ename_eqb n name); [eexists; split; [reflexivity|exact Hi]|auto].
Qed.

Lemma sit_list_lt it bound : it_lo it <= it_hi it -> it_hi it <= bound ->
  Forall (fun i => i < bound) (sit_list it).
Proof.
  intros H0 H. unfold sit_list, sit_len. apply N_range_lt. rewrite N2Nat.id. lia.
Qed.

Lemma attribute_node_returns id nd name : get_node d id = Some nd ->
  exists o, attribute_node text d id name = Ok o /\
            match o with Some i => i < len_N (d_attrs d) | None => True end.
Proof.
  intros Hg. destruct (attributes_returns id nd Hg) as (it & Hit & Hlo & Hhi).
  unfold attribute_node. rewrite Hit. cbn [bind].
  apply find_attr_returns. apply sit_list_lt; auto.
Qed.

Lemma namespace_at_returns p : p < len_N (d_ns_tree d) -> returns (namespace_at d p).
Proof.
  intros H. unfold namespace_at. destruct (nth_N_some _ _ H) as [vi E]. rewrite E.
  pose proof (Forall_nth_N _ _ _ _ (dok_tree d Hd) E) as Hv. cbn in Hv.
  destruct (nth_N_some _ _ Hv) as [v ->]. eexists; reflexivity.
Qed.

Lemma find_ns_by_returns pred : forall ps, Forall (fun p => p < len_N (d_ns_tree d)) ps ->
  returns (find_ns_by d ps pred).
Proof.
  induction ps as [|p r IH]; intros H; cbn [find_ns_by]; [eexists; reflexivity|].
  inversion H as [|? ? Hp Hr]; subst.
  destruct (namespace_at_returns p Hp) as [v ->]. cbn [bind].
  destruct (pred v); [eexists; reflexivity|auto].
Qed.

Lemma ns_lookup_returns {B} id nd pred (k : option namespace -> B) : get_node d id = Some nd ->
  returns (let! it := namespaces d id in
           let! o := find_ns_by d (sit_list it) pred in Ok (k o)).
Proof.
  intros Hg. destruct (namespaces_returns id nd Hg) as (it & -> & Hlo & Hhi). cbn [bind].
  destruct (find_ns_by_returns pred (sit_list it) (sit_list_lt _ _ Hlo Hhi)) as [o ->]. cbn [bind].
  eexists; reflexivity.
Qed.

End Doc.

(* an element child exists *)
Lemma first_elem_some t p pp k cs :
  In (p, pp, T k cs) (table t) -> (1 <= count_kind KdElem cs)%nat ->
  exists i, first_elem t (child_ids (p + 1) cs) = Some i.
Proof.
  intros Hin Hc. unfold count_kind in Hc.
  destruct (filter (fun c => kind_eqb (tkind c) KdElem) cs) as [|c r] eqn:Ef; [cbn in Hc; lia|].
  assert (Hcin : In c (filter (fun c => kind_eqb (tkind c) KdElem) cs)) by (rewrite Ef; left; auto).
  apply filter_In in Hcin as [Hcin Hck].
  apply in_split in Hcin as (l1 & l2 & ->).
  pose proof (table_child t p pp k l1 c l2 Hin) as Hch.
  unfold first_elem.
  destruct (find (is_elem_id t) (child_ids (p + 1) (l1 ++ c :: l2))) as [i|] eqn:E; [eauto|].
  exfalso. pose proof (find_none _ _ E (p + 1 + sizes l1)) as Hn.
  assert (Hi : In (p + 1 + sizes l1) (child_ids (p + 1) (l1 ++ c :: l2))).
  { rewrite child_ids_app. apply in_or_app. right. cbn [child_ids]. left. reflexivity. }
  specialize (Hn Hi). unfold is_elem_id in Hn. rewrite (table_find _ _ _ _ Hch) in Hn.
  destruct c as [kc ccs]. cbn [tkind] in Hck. destruct kc; discriminate.
Qed.

(* ---------------------------------------------------------------------------------------- *)
(* C10                                                                                      *)
(* ---------------------------------------------------------------------------------------- *)

Theorem api_total : forall text opt d, valid_utf8_b text = true -> nodes_limit opt <= u32_max -> parse text opt = Ok d ->
  forall id, id < len_N (d_nodes d) ->
    returns (parent d id) /\ returns (prev_sibling d id) /\ returns (next_sibling d id) /\ returns (first_child d id) /\ returns (last_child d id) /\
    returns (has_children d id) /\ returns (has_siblings d id) /\ returns (children_list d id) /\
    (forall a, returns (axis_list d a id)) /\
    returns (parent_element d id) /\ returns (prev_sibling_element d id) /\ returns (next_sibling_element d id) /\
    returns (first_element_child d id) /\ returns (last_element_child d id) /\
    returns (text_storage d id) /\ returns (tail_storage d id) /\
    returns (descendants d id) /\ returns (attributes d id) /\ returns (namespaces d id) /\
    returns (tag_name text d id) /\
    (forall name, returns (has_tag_name text d id name) /\ returns (attribute_node text d id name) /\ returns (attribute text d id name) /\ returns (has_attribute text d id name)) /\
    returns (default_namespace text d id) /\ (forall p, returns (lookup_namespace_uri text d id p)) /\ (forall u, returns (lookup_prefix text d id u)).
Proof.
  intros text opt d Hvalid Hl Hp id Hid.
  destruct (parse_facts text opt d Hvalid Hl Hp) as (t & HA & Hwf & Hd).
  rewrite (arena_len d t HA) in Hid.
  destruct (in_table_of_lt t id Hid) as (par & s & Hin).
  destruct (table_get d t id par s HA Hin) as [nd Hg].
  assert (Hnd : node_data_of d id = Ok nd) by (unfold node_data_of; rewrite Hg; reflexivity).
  repeat match goal with |- _ /\ _ => split end.
  - eexists; eapply nav_parent'; eauto.
  - eexists; eapply nav_prev_sibling'; eauto.
  - eexists; eapply nav_next_sibling'; eauto.
  - eexists; eapply nav_first_child'; eauto.
  - eexists; eapply nav_last_child'; eauto.
  - eexists; eapply nav_has_children'; eauto.
  - eexists; eapply nav_has_siblings'; eauto.
  - eexists; eapply nav_children'; eauto.
  - intros a. destruct a; eexists.
    + eapply nav_ancestors'; eauto.
    + eapply nav_prev_siblings'; eauto.
    + eapply nav_next_siblings'; eauto.
    + eapply nav_first_children'; eauto.
    + eapply nav_last_children'; eauto.
  - eexists; eapply nav_parent_element'; eauto.
  - eexists; eapply nav_prev_sibling_element'; eauto.
  - eexists; eapply nav_next_sibling_element'; eauto.
  - eexists; eapply nav_first_element_child'; eauto.
  - eexists; eapply nav_last_element_child'; eauto.
  - eexists; eapply nav_text_storage'; eauto.
  - eexists; eapply nav_tail_storage'; eauto.
  - eexists; eapply nav_descendants'; eauto.
  - destruct (attributes_returns d Hd id nd Hg) as (it & E & _). eexists; eauto.
  - destruct (namespaces_returns d Hd id nd Hg) as (it & E & _). eexists; eauto.
  - eapply tag_name_returns; eauto.
  - intros name.
    destruct (attribute_node_returns text d Hd id nd name Hg) as (o & Eo & Ho).
    split; [eapply has_tag_name_returns; eauto|]. split; [eexists; eauto|]. split.
    + unfold attribute. rewrite Eo. cbn [bind]. destruct o as [i|]; [|eexists; reflexivity].
      destruct (attr_at_returns d Hd i Ho) as (a & -> & _). eexists; reflexivity.
    + unfold has_attribute. rewrite Eo. eexists; reflexivity.
  - unfold default_namespace. eapply ns_lookup_returns; eauto.
  - intros p. unfold lookup_namespace_uri. eapply ns_lookup_returns; eauto.
  - intros u. unfold lookup_prefix. destruct (bytes_eqb u ns_xml_uri); [eexists; reflexivity|].
    eapply ns_lookup_returns; eauto.
Qed.
Print Assumptions api_total.

Theorem api_total_doc : forall text opt d, valid_utf8_b text = true -> nodes_limit opt <= u32_max -> parse text opt = Ok d ->
  returns (root_element d) /\ (forall p, returns (text_pos_at text p)) /\
  (forall k, k < u32_max -> returns (get_node_id d k)) /\
  (forall i, i < len_N (d_attrs d) -> exists a, attr_at d i = Ok a /\ returns (attr_range_value a) /\ returns (attr_ename text d a)).
Proof.
  intros text opt d Hvalid Hl Hp.
  destruct (parse_facts text opt d Hvalid Hl Hp) as (t & HA & Hwf & Hd).
  repeat match goal with |- _ /\ _ => split end.
  - destruct Hwf as (Hk & _ & _ & Hc & _). destruct t as [k cs]. cbn [tkind tchildren] in *.
    destruct (first_elem_some (T k cs) 0 None k cs (table_root _) ltac:(lia)) as [i Hi].
    exists i. eapply nav_root_element'; eauto.
  - intros p. apply PositionProofs.text_pos_total_valid; auto.
  - intros k Hk. eexists. apply OrderProofs.get_node_id_spec. exact Hk.
  - intros i Hi. destruct (attr_at_returns d Hd i Hi) as (a & Ea & Ha). exists a. split; auto.
    split; [|eapply attr_ename_returns; eauto].
    unfold attr_range_value. destruct Ha as [_ Ha].
    destruct (snd (ad_range a) =? 0) eqn:E; [lia|]. eexists; reflexivity.
Qed.
Print Assumptions api_total_doc.
