(* OptionsDtd.v -- C16, second half: an input that does not contain "<!DOCTYPE" parses the
   same with and without allow_dtd.  Stream invariant: s_rest is a suffix of the text. *)
From Coq Require Import Ascii String.
From Coq Require Import Lia ZifyBool ZifyN ZifyNat.
From RX Require Import Generated.
From RX.Model Require Import Base CharClass Stream Tokenizer Doc Builder Parse.
From RX.Proofs Require Import Tactics OptionsParam OptionsBuild OptionsMain.

Lemma prefix_b_firstn p : forall n l, prefix_b p (firstn n l) = true -> prefix_b p l = true.
Proof.
  induction p as [|a p IH]; intros n l H; [reflexivity|].
  destruct n, l; cbn [firstn prefix_b] in *; try discriminate.
  apply andb_true_iff in H. destruct H as [H1 H2]. rewrite H1. cbn [andb]. eapply IH; eauto.
Qed.

Lemma contains_b_skipn a p : forall l k,
  contains_b (a :: p) l = false -> prefix_b (a :: p) (skipn k l) = false.
Proof.
  induction l as [|x r IH]; intros k H.
  - destruct k; reflexivity.
  - cbn [contains_b] in H. apply orb_false_iff in H. destruct H as [H1 H2].
    destruct k; cbn [skipn]; auto.
Qed.

Lemma skipn_skipn' {A} n : forall k (l : list A), skipn n (skipn k l) = skipn (k + n) l.
Proof.
  induction k; intros l; [reflexivity|].
  destruct l; cbn [skipn plus]; [destruct n; reflexivity|]. apply IHk.
Qed.

Section Sfx.
Variable text : bytes.

Definition sfx (s : stream) : Prop := exists k, s_rest s = skipn k text.

Lemma sfx_skipn s n r e : sfx s -> sfx {| s_pos := r; s_end := e; s_rest := skipn n (s_rest s) |}.
Proof.
  intros [k Hk]. exists (k + n)%nat. cbn [s_rest]. rewrite Hk.
  rewrite skipn_skipn'. reflexivity.
Qed.

Lemma sfx_new : sfx (stream_new text).
Proof. exists 0%nat. reflexivity. Qed.

Lemma sfx_advance n s s' : advance n s = Ok s' -> sfx s -> sfx s'.
Proof. unfold advance. intros H Hs. usteps. apply sfx_skipn; assumption. Qed.

Lemma sfx_skip_bytes f s : sfx s -> sfx (skip_bytes f s).
Proof. unfold skip_bytes. apply sfx_skipn. Qed.

Lemma sfx_skip_spaces s : sfx s -> sfx (skip_spaces s).
Proof. apply sfx_skip_bytes. Qed.

Ltac sside :=
  repeat first [ assumption
               | match goal with
                 | |- sfx (skip_spaces _) => apply sfx_skip_spaces
                 | |- sfx (skip_bytes _ _) => apply sfx_skip_bytes
                 end ].
Ltac fws lem := match goal with H : _ = Ok _ |- _ => apply lem in H; [|solve [sside]] end.

Lemma sfx_skip_string p s s' : skip_string text p s = Ok s' -> sfx s -> sfx s'.
Proof. unfold skip_string. intros H Hs. usteps. fws sfx_advance. assumption. Qed.

Lemma sfx_consume_byte x s s' : consume_byte text x s = Ok s' -> sfx s -> sfx s'.
Proof. unfold consume_byte. intros H Hs. usteps. fws sfx_advance. assumption. Qed.

Lemma sfx_skip_chars_loop fuel : forall f s s',
  skip_chars_loop text fuel f s = Ok s' -> sfx s -> sfx s'.
Proof.
  induction fuel; intros f s s' H Hs; [discriminate|].
  cbn [skip_chars_loop] in H. usteps; try assumption.
  fws sfx_advance. eapply IHfuel; eassumption.
Qed.

Lemma sfx_skip_chars f s s' : skip_chars text f s = Ok s' -> sfx s -> sfx s'.
Proof. unfold skip_chars. apply sfx_skip_chars_loop. Qed.

Lemma sfx_consume_chars f s x s' : consume_chars text f s = Ok (x, s') -> sfx s -> sfx s'.
Proof. unfold consume_chars. intros H Hs. usteps. fws sfx_skip_chars. assumption. Qed.

Lemma sfx_skip_name_loop fuel : forall s s',
  skip_name_loop fuel s = Ok s' -> sfx s -> sfx s'.
Proof.
  induction fuel; intros s s' H Hs; [discriminate|].
  cbn [skip_name_loop] in H. usteps; try assumption.
  fws sfx_advance. eapply IHfuel; eassumption.
Qed.

Lemma sfx_skip_name s s' : skip_name text s = Ok s' -> sfx s -> sfx s'.
Proof.
  unfold skip_name. intros H Hs. usteps; try assumption.
  fws sfx_advance. eapply sfx_skip_name_loop; eassumption.
Qed.

Lemma sfx_consume_name s x s' : consume_name text s = Ok (x, s') -> sfx s -> sfx s'.
Proof. unfold consume_name. intros H Hs. usteps. fws sfx_skip_name. assumption. Qed.

Lemma sfx_consume_qname_loop fuel : forall st sp s sp' s',
  consume_qname_loop text fuel st sp s = Ok (sp', s') -> sfx s -> sfx s'.
Proof.
  induction fuel; intros st sp s sp' s' H Hs; [discriminate|].
  cbn [consume_qname_loop] in H. usteps; try assumption;
  fws sfx_advance; eapply IHfuel; eassumption.
Qed.

Lemma sfx_consume_qname s p l s' : consume_qname text s = Ok (p, l, s') -> sfx s -> sfx s'.
Proof.
  unfold consume_qname. intros H Hs. usteps; fws sfx_consume_qname_loop; assumption.
Qed.

Lemma sfx_consume_eq s s' : consume_eq text s = Ok s' -> sfx s -> sfx s'.
Proof. unfold consume_eq. intros H Hs. usteps. fws sfx_consume_byte. sside. Qed.

Lemma sfx_consume_quote s q s' : consume_quote text s = Ok (q, s') -> sfx s -> sfx s'.
Proof. unfold consume_quote. intros H Hs. usteps. fws sfx_advance. assumption. Qed.

Ltac fwall := repeat match goal with
  | H : advance _ _ = Ok _ |- _ => apply sfx_advance in H; [|solve [sside]]
  | H : skip_string _ _ _ = Ok _ |- _ => apply sfx_skip_string in H; [|solve [sside]]
  | H : consume_byte _ _ _ = Ok _ |- _ => apply sfx_consume_byte in H; [|solve [sside]]
  | H : skip_chars _ _ _ = Ok _ |- _ => apply sfx_skip_chars in H; [|solve [sside]]
  | H : consume_chars _ _ _ = Ok _ |- _ => apply sfx_consume_chars in H; [|solve [sside]]
  | H : consume_name _ _ = Ok _ |- _ => apply sfx_consume_name in H; [|solve [sside]]
  | H : consume_qname _ _ = Ok _ |- _ => apply sfx_consume_qname in H; [|solve [sside]]
  | H : consume_eq _ _ = Ok _ |- _ => apply sfx_consume_eq in H; [|solve [sside]]
  | H : consume_quote _ _ = Ok _ |- _ => apply sfx_consume_quote in H; [|solve [sside]]
  end.

Lemma sfx_parse_attribute s p l s' : parse_attribute text s = Ok (p, l, s') -> sfx s -> sfx s'.
Proof. unfold parse_attribute. intros H Hs. usteps. fwall. assumption. Qed.

Lemma sfx_parse_pseudo_attribute name s s' : parse_pseudo_attribute text name s = Ok s' -> sfx s -> sfx s'.
Proof.
  unfold parse_pseudo_attribute. intros H Hs. usteps. eapply sfx_parse_attribute; eassumption.
Qed.

Lemma sfx_decl_consume_spaces s s' : decl_consume_spaces text s = Ok s' -> sfx s -> sfx s'.
Proof. unfold decl_consume_spaces. intros H Hs. usteps; sside. Qed.

Lemma sfx_consume_spaces s s' : consume_spaces text s = Ok s' -> sfx s -> sfx s'.
Proof. unfold consume_spaces. intros H Hs. usteps; sside. Qed.

Lemma sfx_parse_declaration s s' : parse_declaration text s = Ok s' -> sfx s -> sfx s'.
Proof.
  unfold parse_declaration. intros H Hs. usteps;
  repeat first [progress fwall
    | match goal with
      | H : parse_pseudo_attribute _ _ _ = Ok _ |- _ => apply sfx_parse_pseudo_attribute in H; [|solve [sside]]
      | H : decl_consume_spaces _ _ = Ok _ |- _ =>
        apply sfx_decl_consume_spaces in H; [|solve [sside]]
      end]; sside.
Qed.

Section WithEv.
Variable C : Type.
Variable ev : Tokenizer.token -> C -> res C.

Lemma sfx_parse_comment s c s' c' : parse_comment text C ev s c = Ok (s', c') -> sfx s -> sfx s'.
Proof. unfold parse_comment. intros H Hs. usteps. fwall. assumption. Qed.

Lemma sfx_parse_pi s c s' c' : parse_pi text C ev s c = Ok (s', c') -> sfx s -> sfx s'.
Proof.
  unfold parse_pi. intros H Hs. usteps; fwall; [assumption|].
  match goal with H : consume_spaces _ _ = Ok _ |- _ =>
    apply sfx_consume_spaces in H; [|solve [sside]] end.
  fwall. assumption.
Qed.

Lemma sfx_parse_misc_loop fuel : forall s c s' c',
  parse_misc_loop text C ev fuel s c = Ok (s', c') -> sfx s -> sfx s'.
Proof.
  induction fuel; intros s c s' c' H Hs; [discriminate|].
  cbn [parse_misc_loop] in H. usteps; try assumption; sside.
  - fws sfx_parse_comment. eapply IHfuel; eassumption.
  - fws sfx_parse_pi. eapply IHfuel; eassumption.
Qed.

Lemma sfx_parse_misc s c s' c' : parse_misc text C ev s c = Ok (s', c') -> sfx s -> sfx s'.
Proof. unfold parse_misc. apply sfx_parse_misc_loop. Qed.

Lemma no_doctype_starts s :
  contains_b (b "<!DOCTYPE") text = false -> sfx s -> starts_with s (b "<!DOCTYPE") = false.
Proof.
  intros Hc [k Hk]. unfold starts_with, avail. rewrite Hk.
  destruct (prefix_b _ (firstn _ _)) eqn:E; [|reflexivity].
  apply prefix_b_firstn in E.
  change (b "<!DOCTYPE") with (60 :: b "!DOCTYPE") in *.
  rewrite contains_b_skipn in E by exact Hc. discriminate.
Qed.

Lemma parse_document_noflag c :
  contains_b (b "<!DOCTYPE") text = false ->
  parse_document text C ev false c = parse_document text C ev true c.
Proof.
  intros Hc. unfold parse_document.
  destruct (if starts_with (stream_new text) [239; 187; 191] then _ else _) as [s1| | |] eqn:E1;
    cbn [bind]; auto.
  assert (H1 : sfx s1).
  { destruct (starts_with (stream_new text) [239; 187; 191]).
    - eapply sfx_advance; [exact E1 | apply sfx_new].
    - inversion E1; subst. apply sfx_new. }
  destruct (if starts_with_declaration s1 then _ else _) as [s2| | |] eqn:E2; cbn [bind]; auto.
  assert (H2 : sfx s2).
  { destruct (starts_with_declaration s1).
    - eapply sfx_parse_declaration; eassumption.
    - inversion E2; subst. assumption. }
  destruct (parse_misc text C ev s2 c) as [[s3 c3]| | |] eqn:E3; cbn [bind]; auto.
  apply sfx_parse_misc in E3; [|assumption].
  rewrite (no_doctype_starts (skip_spaces s3)); [reflexivity | exact Hc |].
  apply sfx_skip_spaces. assumption.
Qed.

End WithEv.
End Sfx.

Lemma prun_noflag text o :
  contains_b (b "<!DOCTYPE") text = false -> prun text false o = prun text true o.
Proof.
  intros Hc. unfold prun. destruct (init_context text o) as [c| | |]; cbn [bind]; auto.
  rewrite parse_document_noflag by exact Hc. reflexivity.
Qed.

Theorem no_doctype_no_difference : forall text lim,
  contains_b (b "<!DOCTYPE") text = false ->
  parse text (opts false lim) = parse text (opts true lim).
Proof.
  intros text lim Hc. rewrite !parse_prun. cbn [allow_dtd opts].
  rewrite prun_noflag by exact Hc.
  assert (H := prun_rel text true (opts false lim) (opts true lim)).
  cbn [nodes_limit opts] in H. specialize (H (N.le_refl _)).
  eapply grel_noearly_eq; [|exact H]. lia.
Qed.
Print Assumptions no_doctype_no_difference.
