(* Proofs/CstSoundUDoc.v -- C08 soundness on the UNICODE fragment (Spec/CstU.v): prolog, root,
   epilog, final checks; the main theorem [parse_sound_fragment_u] (CstSoundDoc.v over scalars). *)
From Coq Require Import String.
From Coq Require Import List Arith NArith Bool Lia ZifyBool ZifyN ZifyNat.
Import ListNotations.
From RX Require Import Generated.
From RX.Model Require Import Base CharClass Stream Tokenizer Doc Builder Parse.
From RX.Spec Require Cst CstU.
From RX.Proofs Require Import Tactics CstLex CstTree CstULex.
From RX.Proofs Require CstBuild RejectProofs CstUItems.
From RX.Proofs Require Import CstSound CstSoundLex CstSoundBuild CstSoundMain CstSoundDoc
                              CstSoundU CstSoundULex CstSoundUMain.
Open Scope N_scope.

Definition r_pairs_u (l : pairs) : bytes := flat_map (fun x => fst x ++ Cst.r_item (enc_item (snd x))) l.
Definition uwf_pairs (l : pairs) : bool :=
  forallb (fun x => Cst.wf_ws (fst x) && Cst.is_misc (snd x) && CstU.wf_item (snd x)) l.

Lemma flat_map_map {A B D} (f : B -> list D) (g : A -> B) l : flat_map f (map g l) = flat_map (fun x => f (g x)) l.
Proof. induction l as [|x l IH]; cbn [map flat_map]; [reflexivity|]. rewrite IH. reflexivity. Qed.

Lemma shift_render_u : forall l w,
  fst (shift l w) ++ flat_map (fun p => Cst.r_item (enc_item (fst p)) ++ snd p) (snd (shift l w)) = r_pairs_u l ++ w.
Proof.
  induction l as [|[w1 i1] r IH]; intros w.
  - cbn. rewrite app_nil_r. reflexivity.
  - cbn [shift]. specialize (IH w). destruct (shift r w) as [w0 b0]. cbn [fst snd] in *.
    unfold r_pairs_u in *. cbn [flat_map fst snd]. rewrite <- !app_assoc. rewrite <- IH. reflexivity.
Qed.

Lemma shift_wf_u : forall l w, uwf_pairs l = true -> Cst.wf_ws w = true ->
  Cst.wf_ws (fst (shift l w)) = true /\
  forallb (fun p => Cst.is_misc (fst p) && CstU.wf_item (fst p) && Cst.wf_ws (snd p)) (snd (shift l w)) = true.
Proof.
  induction l as [|[w1 i1] r IH]; intros w Hl Hw; cbn [shift fst snd forallb]; [auto|].
  cbn [uwf_pairs forallb fst snd] in Hl. apply andb_true_iff in Hl. destruct Hl as [H1 H2].
  apply andb_true_iff in H1. destruct H1 as [H1 H3]. apply andb_true_iff in H1. destruct H1 as [H0 H1].
  destruct (IH w H2 Hw) as [A B]. destruct (shift r w) as [w0 b0]. cbn [fst snd forallb] in *.
  split; [exact H0|]. rewrite H1, H3, A, B. reflexivity.
Qed.

Section UDoc.
Variable text : bytes.
Hypothesis HF : FragU text.
Notation T := (Parse.token text).
Notation st := (CstLex.st text).
Notation W := (CstLex.W text).
Notation WV := (CstULex.WV text).
Notation Sim := (Sim text).

(* ---- Misc* ---- *)
Lemma misc_sound_u : forall fuel p l c s' c' stk,
  WV p l -> Sim c stk ->
  parse_misc_loop text context T fuel (st p l) c = Ok (s', c') ->
  exists items wend l' p' K,
    l = r_pairs_u items ++ wend ++ l' /\ s' = st p' l' /\ WV p' l' /\
    uwf_pairs items = true /\ Cst.wf_ws wend = true /\
    Sim c' stk /\ Ext c c' /\ rows c' = rows c ++ K /\ nonelem K.
Proof.
  induction fuel as [|fu IH]; intros p l c s' c' stk HW HS H; cbn [parse_misc_loop] in H; [noerr|].
  pose proof (WV_W _ _ _ HW) as HW0.
  rewrite (at_end_st text) in H by exact HW0.
  destruct l as [|x l0].
  { inversion H; subst. exists [], [], [], p, []. rewrite app_nil_r.
    split; [reflexivity|]. split; [reflexivity|]. split; [exact HW|]. split; [reflexivity|].
    split; [reflexivity|]. split; [exact HS|]. split; [apply Ext_refl|]. split; [first [rewrite app_nil_r; reflexivity|reflexivity]|constructor]. }
  cbv zeta in H.
  destruct (skip_spaces_inv_u text HF p (x :: l0) HW) as (w & l1 & El & Hw & Hst & E1 & HW1).
  rewrite E1 in H. rewrite !(starts_with_st text) in H by apply HW1.
  destruct (prefix_b (b "<!--") l1) eqn:Ec.
  { change (b "<!--") with [60; 33; 45; 45] in Ec. destruct (prefix_b_split _ _ Ec) as (l2 & ->).
    ib H q Hq. destruct q as [s1 c1].
    destruct (inv_comment_u text HF context T _ _ _ _ _ HW1 Hq) as (bs & l3 & -> & Hwf & -> & HW2 & Hev).
    destruct (step_comment text _ _ _ _ _ HS Hev) as (HS1 & R1 & A1 & _ & _).
    destruct (IH _ _ _ _ _ _ HW2 HS1 H) as (items & wend & l' & p' & K & -> & -> & HW3 & Hi & Hwe & HS2 & HE & R2 & HK).
    eexists ((w, Cst.IComment bs) :: items), wend, l', p', (_ :: K).
    split. { rewrite El. cbn [r_pairs_u flat_map fst snd CstU.enc_item Cst.r_item]. rewrite <- !app_assoc. reflexivity. }
    split; [reflexivity|]. split; [exact HW3|]. split.
    { cbn [uwf_pairs forallb fst snd Cst.is_misc]. rewrite Hw, Hwf. exact Hi. }
    split; [exact Hwe|]. split; [exact HS2|]. split; [eapply Ext_trans; [apply Ext_eq; exact A1|exact HE]|].
    split; [rewrite R2, R1, <- app_assoc; reflexivity|]. constructor; [reflexivity|exact HK]. }
  destruct (prefix_b (b "<?") l1) eqn:Ep.
  { change (b "<?") with [60; 63] in Ep. destruct (prefix_b_split _ _ Ep) as (l2 & ->).
    ib H q Hq. destruct q as [s1 c1].
    destruct (inv_pi_u text HF context T _ _ _ _ _ HW1 Hq) as (tg & sep & v & l3 & -> & Hwf & -> & HW2 & Hev).
    unfold pi_tok in Hev. cbv zeta in Hev.
    destruct (step_pi text _ _ _ _ _ _ HS Hev) as (HS1 & R1 & A1 & _ & _).
    destruct (IH _ _ _ _ _ _ HW2 HS1 H) as (items & wend & l' & p' & K & -> & -> & HW3 & Hi & Hwe & HS2 & HE & R2 & HK).
    eexists ((w, Cst.IPI tg sep v) :: items), wend, l', p', (_ :: K).
    split. { rewrite El. cbn [r_pairs_u flat_map fst snd CstU.enc_item Cst.r_item]. rewrite <- !app_assoc. reflexivity. }
    split; [reflexivity|]. split; [exact HW3|]. split.
    { cbn [uwf_pairs forallb fst snd Cst.is_misc]. rewrite Hw, Hwf. exact Hi. }
    split; [exact Hwe|]. split; [exact HS2|]. split; [eapply Ext_trans; [apply Ext_eq; exact A1|exact HE]|].
    split; [rewrite R2, R1, <- app_assoc; reflexivity|]. constructor; [reflexivity|exact HK]. }
  inversion H; subst. exists [], w, l1, (p + blen w), []. cbn [r_pairs_u flat_map app]. rewrite app_nil_r.
  split; [exact El|]. split; [reflexivity|]. split; [exact HW1|]. split; [reflexivity|].
  split; [exact Hw|]. split; [exact HS|]. split; [apply Ext_refl|]. split; [first [rewrite app_nil_r; reflexivity|reflexivity]|constructor].
Qed.

(* ---- the whole document ---- *)
Theorem parse_sound_fragment_u_ctx : forall opt d,
  parse text opt = Ok d -> attrs_raw d ->
  exists c : Cst.doc, CstU.wf_doc c = true /\ CstU.render c = text.
Proof.
  intros opt d H Hraw. unfold parse in H. ib H c0 H0. ib H cF HD.
  assert (S0 : Sim c0 [] /\ nonelem (rows c0)).
  { unfold init_context in H0. cbn in H0. inversion H0; subst c0. clear H0. split.
    - constructor; cbn; try reflexivity; try lia.
      + eapply ch_root. reflexivity.
      + constructor; [reflexivity|constructor].
    - cbn. constructor; [reflexivity|constructor]. }
  destruct S0 as [S0 N0].
  cbv zeta in H. ib H it Hit. ib H he Hhe. destruct he; cbn [negb] in H; [|discriminate].
  destruct (1 <? len_N (c_parent_prefixes cF)) eqn:Epp; [discriminate|]. inversion H; subst d. clear H.
  destruct (any_element_row _ _ _ Hhe) as (ndE & HinE & HkE).
  unfold parse_document in HD. rewrite st_new in HD.
  pose proof (WV_new text (fu_valid _ HF)) as HW0. pose proof (WV_W _ _ _ HW0) as HW00.
  rewrite (starts_with_st text) in HD by exact HW00.
  rewrite (fu_bom _ HF) in HD. cbn [bind] in HD.
  assert (Hdecl : starts_with_declaration (st 0 text) = false).
  { unfold starts_with_declaration. rewrite (starts_with_st text) by exact HW00.
    change (b "<?xml") with [60; 63; 120; 109; 108].
    rewrite (W_noprefix text _ _ _ HW00 (fu_decl _ HF) ltac:(discriminate)). reflexivity. }
  rewrite Hdecl in HD. cbn [bind] in HD.
  ib HD q1 Hm1. destruct q1 as [s1 c1]. unfold parse_misc in Hm1.
  destruct (misc_sound_u _ _ _ _ _ _ _ HW0 S0 Hm1)
    as (pre & w1 & l1 & p1 & K1 & Et & -> & HW1 & Hpre & Hw1 & S1 & E1 & R1 & NK1).
  destruct (skip_spaces_inv_u text HF _ _ HW1) as (w2 & l2 & -> & Hw2 & Hst2 & Es2 & HW2).
  rewrite Es2 in HD. rewrite (starts_with_st text) in HD by apply HW2.
  change (b "<!DOCTYPE") with ([60; 33; 68] ++ [79; 67; 84; 89; 80; 69]) in HD.
  assert (Hnd : prefix_b ([60; 33; 68] ++ [79; 67; 84; 89; 80; 69]) l2 = false).
  { destruct (prefix_b _ l2) eqn:E; [|reflexivity]. apply prefix_b_app_l in E.
    rewrite (W_noprefix text _ _ _ (WV_W _ _ _ HW2) (fu_doctype _ HF) ltac:(discriminate)) in E. discriminate. }
  rewrite Hnd in HD. cbn [bind] in HD.
  destruct (skip_spaces_inv_u text HF _ _ HW2) as (w3 & l3 & -> & Hw3 & Hst3 & Es3 & HW3).
  rewrite Es3 in HD.
  ib HD q2 Hroot. destruct q2 as [s2 c2]. ib HD q3 Hm2. destruct q3 as [s3 c3].
  set (wpre := w1 ++ w2 ++ w3).
  assert (Hwpre : Cst.wf_ws wpre = true) by (unfold wpre; repeat apply wf_ws_app; assumption).
  pose proof (WV_W _ _ _ HW3) as HW30.
  assert (ROOT : exists root l4 p4,
            l3 = Cst.r_item (enc_item root) ++ l4 /\ s2 = st p4 l4 /\ WV p4 l4 /\ Sim c2 [] /\ Ext c1 c2 /\
            (AttrRaw c2 -> CstU.wf_item root = true) /\
            match root with Cst.IElem _ _ _ _ => True | _ => False end).
  { destruct (match curr_byte_opt (st (p1 + blen w2 + blen w3) l3) with Some x => x =? 60 | None => false end) eqn:Ecb.
    2:{ exfalso. inversion Hroot; subst s2 c2. unfold parse_misc in Hm2.
      destruct (misc_sound_u _ _ _ _ _ _ _ HW3 S1 Hm2) as (post & w4 & l4 & p4 & K2 & _ & _ & _ & _ & _ & _ & _ & R2 & NK2).
      assert (NE : nonelem (rows cF)).
      { assert (cF = c3) by (destruct (negb (at_end s3)); [noerr|inversion HD; reflexivity]). subst cF.
        rewrite R2, R1. unfold nonelem. repeat (apply Forall_app; split); assumption. }
      unfold nonelem, rows in NE. rewrite Forall_forall in NE.
      specialize (NE (rowof ndE) (in_map rowof _ _ HinE)). cbn [rowof snd] in NE. congruence. }
    rewrite (curr_byte_opt_st_any text) in Ecb by exact HW30.
    destruct l3 as [|x l3']; [discriminate|]. assert (x = 60) by lia. subst x.
    ib Hroot q Hq. destruct q as [[open sE] cE].
    change (60 :: l3') with ([60] ++ l3') in *.
    destruct (inv_element_u text HF context T _ _ _ _ _ _ HW3 Hq)
      as (name & attrs & ws_end & l4 & ca & cb & El & Hname & Hrw & Hwe & Hev1 & Hev2 & Hev3 & -> & HW4).
    rewrite El in HW30.
    destruct (tag_sound_u text HF _ _ _ _ _ _ _ _ _ _ _ HW30 Hname Hrw S1 Hev1 Hev2 Hev3)
      as (HS1 & HE1 & Hat1 & Hnx & Hax & Hnd2 & Hwa).
    assert (Hok : forall cf, Ext cE cf -> AttrRaw cf -> elem_ok_u name attrs ws_end).
    { intros cf HEf HA. repeat split; auto. apply Hwa. eapply AttrRaw_ext; eauto. }
    destruct open.
    - unfold parse_content in Hroot.
      assert (Hl1 : N.of_nat (length [utf8s name]) = 0 + 1) by reflexivity.
      assert (Hat2 : c_after_text cE <> [] -> text_stop l4) by (intros Hn; congruence).
      destruct (content_sound_u text HF _ 0 _ _ _ _ _ [utf8s name] HW4 HS1 Hl1 Hat2 Hroot) as (HE2 & [HC|HU]).
      + destruct HC as (lv & l5 & p5 & opn & rest & E1' & E2' & E3' & E4' & E5' & E6' & E7' & E8' & E9' & E10').
        destruct lv as [|[cs w] [|? ?]]; cbn [length] in E3'; try (exfalso; clear - E3'; lia).
        destruct opn as [|n0 [|? ?]]; cbn [length] in E2'; try (exfalso; clear - E2'; lia).
        cbn [map app] in E1'. injection E1' as En Er. subst rest.
        exists (Cst.IElem name attrs ws_end (Some (cs, w))), l5, p5.
        split. { rewrite El, E4', CstUItems.enc_item_elem, r_item_elem. cbn [negb tag_tail r_levels_u].
                 rewrite <- En. rewrite <- !app_assoc. cbn [app]. rewrite <- ?app_assoc. rewrite ?app_nil_r. reflexivity. }
        split; [exact E5'|]. split; [exact E6'|]. split; [exact E7'|]. split; [eapply Ext_trans; eauto|].
        split; [|exact I]. intros HA. specialize (E10' HA). inversion E10' as [|? ? (A1 & A2 & A3) _]; subst.
        apply wf_elem_intro_u; [eapply Hok; [exact HE2|exact HA]|]. cbn [fst snd] in *. auto.
      + exfalso. destruct HU as (stk2 & pz & lz & -> & HWz & HS2 & Hne). unfold parse_misc in Hm2.
        destruct (misc_sound_u _ _ _ _ _ _ _ HWz HS2 Hm2) as (post & w4 & l5 & p5 & K2 & _ & _ & _ & _ & _ & S3 & _ & _ & _).
        assert (cF = c3) by (destruct (negb (at_end s3)); [noerr|inversion HD; reflexivity]). subst cF.
        destruct S3 as [_ Hl _ _ _]. unfold len_N in Epp. destruct stk2; [congruence|]. cbn [length] in Hl.
        clear - Hl Epp. lia.
    - inversion Hroot; subst s2 c2.
      eexists (Cst.IElem name attrs ws_end None), l4, _.
      split. { rewrite El, CstUItems.enc_item_elem, r_item_elem. cbn [negb tag_tail]. rewrite <- !app_assoc. reflexivity. }
      split; [reflexivity|]. split; [exact HW4|]. split; [exact HS1|]. split; [exact HE1|].
      split; [|exact I]. intros HA. apply wf_elem_intro_u; [eapply Hok; [apply Ext_refl|exact HA]|exact I]. }
  destruct ROOT as (root & l4 & p4 & -> & -> & HW4 & S2 & E2 & Hrwf & Hrk).
  unfold parse_misc in Hm2.
  destruct (misc_sound_u _ _ _ _ _ _ _ HW4 S2 Hm2) as (post & w4 & l5 & p5 & K2 & -> & -> & HW5 & Hpost & Hw4 & S3 & E3 & _ & _).
  rewrite (at_end_st text) in HD by apply HW5. destruct l5 as [|? ?]; cbn [negb] in HD; [|noerr].
  inversion HD; subst cF. clear HD.
  assert (HA3 : AttrRaw c3).
  { unfold AttrRaw, attrs_of. apply Forall_forall. intros a Ha. exact (Hraw a Ha). }
  assert (HA2 : AttrRaw c2) by (eapply AttrRaw_ext; eauto).
  exists {| Cst.d_before := snd (shift pre wpre); Cst.d_ws0 := fst (shift pre wpre);
            Cst.d_root := root; Cst.d_after := post; Cst.d_ws_end := w4 |}.
  destruct (shift_wf_u pre wpre Hpre Hwpre) as (B1 & B2).
  split.
  - unfold CstU.wf_doc. cbn [Cst.d_ws0 Cst.d_ws_end Cst.d_before Cst.d_root Cst.d_after].
    rewrite B1, Hw4, B2. cbn [andb]. unfold uwf_pairs in Hpost. rewrite Hpost, andb_true_r.
    destruct root; try contradiction. apply Hrwf. exact HA2.
  - unfold CstU.render, Cst.render, CstU.enc_doc.
    cbn [Cst.d_ws0 Cst.d_ws_end Cst.d_before Cst.d_root Cst.d_after].
    rewrite !flat_map_map. cbn [fst snd].
    rewrite app_assoc, shift_render_u. rewrite Et. unfold wpre, r_pairs_u. rewrite app_nil_r, <- !app_assoc. reflexivity.
Qed.

End UDoc.

(* ------------------------------------------------------------------------------------------ *)
(* Main theorem, Unicode: on the fragment an accepted input IS the rendering (in UTF-8) of a
   well-formed abstract document of Spec/CstU.v. *)
Theorem parse_sound_fragment_u : forall text opt d,
  in_fragment_u text = true -> parse text opt = Ok d -> attrs_raw d ->
  exists c : Cst.doc, CstU.wf_doc c = true /\ CstU.render c = text.
Proof.
  intros text opt d Hf H Hraw. eapply parse_sound_fragment_u_ctx; [apply in_fragment_u_FragU; exact Hf|exact H|exact Hraw].
Qed.
Print Assumptions parse_sound_fragment_u.

Theorem parse_sound_fragment_u_holds : parse_sound_fragment_u_stmt.
Proof. exact parse_sound_fragment_u. Qed.
Print Assumptions parse_sound_fragment_u_holds.
