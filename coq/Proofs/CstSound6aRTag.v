(* Proofs/CstSound6aRTag.v -- the first half of CstSound6uRMain.v (entries and start tags) on Frag6a, markup-valued entities
   referenced ([Hmk], [Hvals] of CstSound6aRText.v instead of [Hunref]).  Original header: CstSoundPRMain.v re-instantiated on Frag6a.  References to declared
   entities used in the body: CstSoundNMain.v / CstSoundPMain.v (start tags, content loop) with the
   syntax epieces and the meaning ents_meaning of Spec/CstFull.v for the table of the declarations. *)
From Coq Require Import String.
From Coq Require Import List Arith NArith Bool Lia ZifyBool ZifyN ZifyNat.
Import ListNotations.
From RX Require Import Generated.
From RX.Model Require Import Base CharClass Stream Tokenizer Doc Builder Parse.
From RX.Spec Require Cst Chars CstU CstNs Scope.
From RX.Spec Require CstText.
From RX.Spec Require Import CstFull CstFullS5.
From RX.Proofs Require Import Tactics CstLex CstULex CstTextLex.
From RX.Proofs Require CstBuild RejectProofs CstFullTree CstFullS2Sem CstNsTree.
From RX.Proofs Require Import CstFullS3Sem CstFullS3Text.
From RX.Proofs Require Import CstSound CstSoundT CstSoundTLex CstSoundULex CstSoundBuild CstSoundTBuild CstSoundTText CstSoundTMain.
From RX.Proofs Require Import CstSoundN CstSoundNLex CstSoundNBuild CstSoundNText CstSoundNMain.
From RX.Proofs Require Import CstSoundP CstSoundPEnt CstSoundPLex CstSoundPDtd CstSoundPBuild CstSoundPText.
From RX.Proofs Require Import CstSoundPRef.
From RX.Proofs Require CstFullS4TSem.
From RX.Proofs Require Import CstSound6 CstSound6U CstSound6aLex CstSound6aDtd CstSound6aText CstSound6aRText CstSound6aRTok.
Open Scope N_scope.

Section MainR.
Variable text : bytes.
Hypothesis HF : Frag6a text.
Variable decls : list E.edecl.
Variable ets : list entity.
Hypothesis Henv : Forall2 (uent_ok text) decls ets.
Hypothesis Hdecls : Forall CstFullS4TSem.udecl_okc decls.
Hypothesis Hmk : forall d its, In d decls -> E.e_value d = E.EContent its ->
  mem_b 60 (E.r_value (E.e_value d)) = true /\ Forall (fun y => y <> 38) (E.r_value (E.e_value d)).
Hypothesis Hvals : forall d vps, In d decls -> E.e_value d = E.EText vps -> NoMk decls (E.r_epieces vps).
Hypothesis Hnames : Forall (fun d => uname (E.e_name d)) decls.
Notation tb := (E.level decls E.max_level).
Notation M3 := (ents_meaning (E.level decls E.max_level)).
Notation item3 := (CstFull.item epieces).
Notation entry3 := (CstFull.entry epieces).
Notation r_items3 := (@CstFullTree.r_items epieces).
Notation wf_items3 := (CstFullTree.wf_items epieces M3).
Notation dens3 := (CstFullTree.dens epieces M3).
Notation xe3 := (x_entry epieces (val_sem M3)).
Notation decls3 cs := (NT.items_decls (dens3 cs)).
Notation costs3 sc cs := (NT.ns_costs sc (dens3 cs)).
Notation T_ := (Parse.token text).
Notation st := (CstLex.st text).
Notation W := (CstLex.W text).
Notation WV := (CstULex.WV text).
Notation sb := (slice_bytes text).
Notation SimP := (CstSoundPBuild.SimP text ets).
Notation InTagP := (CstSoundPBuild.InTagP text ets).
Notation evs := (CstLex.evs context T_).
Notation Res := (CstSoundPBuild.Res text).

(* ---- entries: a raw entry with the epieces of its value ---- *)
Definition lay_of (a : rattr) : CstNs.layout :=
  {| CstNs.l_ws := ra_ws a; CstNs.l_ws1 := ra_ws1 a; CstNs.l_ws2 := ra_ws2 a; CstNs.l_quote := ra_quote a |}.

Definition entry_of_r (a : rattr) (ps : list E.epiece) : entry3 :=
  let pb := utf8s (ra_pre a) in
  let lb := utf8s (ra_loc a) in
  if bytes_eqb pb CstNs.xmlns_b then @EDecl epieces (lay_of a) (ra_loc a) ps
  else match pb with
       | [] => if bytes_eqb lb CstNs.xmlns_b then @EDecl epieces (lay_of a) [] ps
               else @EAttr epieces (lay_of a) (mkq (ra_pre a) (ra_loc a)) ps
       | _ => @EAttr epieces (lay_of a) (mkq (ra_pre a) (ra_loc a)) ps
       end.

Lemma entry_of_den_r a ps :
  xe3 (entry_of_r a ps) = classify (lay_of a) (utf8s (ra_pre a)) (utf8s (ra_loc a)) (eval_sem tb ps).
Proof.
  unfold entry_of_r, classify. cbv zeta. destruct (bytes_eqb (utf8s (ra_pre a)) CstNs.xmlns_b); [reflexivity|].
  destruct (utf8s (ra_pre a)) eqn:Ep.
  - destruct (bytes_eqb (utf8s (ra_loc a)) CstNs.xmlns_b); [reflexivity|].
    cbn [x_entry]. unfold x_qname, mkq. cbn [q_prefix q_local]. rewrite Ep. reflexivity.
  - cbn [x_entry]. unfold x_qname, mkq. cbn [q_prefix q_local]. rewrite Ep. reflexivity.
Qed.

Lemma entry_of_render_r a ps : rattr_ok a -> utf8s (ra_val a) = E.r_epieces (enc_epieces ps) ->
  r_entry (entry_of_r a ps) = r_rattr a.
Proof.
  intros (_ & (Hpre & Hloc) & _) Ev. unfold r_entry, CstNs.r_entry, r_rattr. cbv zeta.
  assert (Hlne : utf8s (ra_loc a) <> []).
  { intros E. apply utf8s_nil_inv in E. rewrite E in Hloc. discriminate. }
  assert (En : CstNs.e_name (x_entry epieces (r_val epieces) (entry_of_r a ps)) = rq (ra_pre a) (ra_loc a) /\
               CstNs.e_layout (x_entry epieces (r_val epieces) (entry_of_r a ps)) = lay_of a /\
               CstNs.e_value (x_entry epieces (r_val epieces) (entry_of_r a ps)) = E.r_epieces (enc_epieces ps)).
  { unfold entry_of_r, rq. cbv zeta. destruct (bytes_eqb (utf8s (ra_pre a)) CstNs.xmlns_b) eqn:Ex.
    - apply bytes_eqb_true in Ex. cbn [x_entry CstNs.e_name CstNs.e_layout CstNs.e_value]. split; [|split; reflexivity].
      destruct (ra_pre a) as [|c0 p0] eqn:Ep; [discriminate|]. rewrite Ex.
      destruct (utf8s (ra_loc a)); [congruence|reflexivity].
    - destruct (utf8s (ra_pre a)) eqn:Ep.
      + apply utf8s_nil_inv in Ep. rewrite Ep.
        destruct (bytes_eqb (utf8s (ra_loc a)) CstNs.xmlns_b) eqn:El.
        * apply bytes_eqb_true in El. cbn [x_entry CstNs.e_name CstNs.e_layout CstNs.e_value CstU.utf8s flat_map]. rewrite El. auto.
        * cbn [x_entry CstNs.e_name CstNs.e_layout CstNs.e_value]. unfold x_qname, mkq, CstNs.r_qname.
          cbn [q_prefix q_local CstNs.q_prefix CstNs.q_local CstU.utf8s flat_map]. auto.
      + cbn [x_entry CstNs.e_name CstNs.e_layout CstNs.e_value]. unfold x_qname, mkq, CstNs.r_qname.
        cbn [q_prefix q_local CstNs.q_prefix CstNs.q_local]. rewrite Ep.
        destruct (ra_pre a); [cbn in Ep; discriminate|]. auto. }
  destruct En as (E1 & E2 & E3). rewrite E1, E2, E3, Ev. reflexivity.
Qed.

Lemma entry_of_wf_r a ps : rattr_ok a -> wf_eval tb (ra_quote a) ps = true -> wf_entry M3 (entry_of_r a ps) = true.
Proof.
  intros (H1 & (Hpre & Hloc) & H3 & H4 & H5 & _) Hv.
  assert (Hlay : CstNs.wf_layout (lay_of a) = true).
  { unfold CstNs.wf_layout, lay_of. cbn [CstNs.l_ws CstNs.l_ws1 CstNs.l_ws2 CstNs.l_quote]. rewrite H1, H3, H4. cbn [andb]. lia. }
  unfold wf_entry, entry_of_r. cbv zeta.
  destruct (bytes_eqb (utf8s (ra_pre a)) CstNs.xmlns_b).
  - cbn [e_layout e_value]. rewrite Hlay. cbn [lay_of CstNs.l_quote wf_val M3]. rewrite Hv. cbn [andb].
    destruct (ra_loc a); [reflexivity|exact Hloc].
  - assert (Ha : CstNs.wf_layout (e_layout epieces (@EAttr epieces (lay_of a) (mkq (ra_pre a) (ra_loc a)) ps)) &&
                 wf_val M3 (CstNs.l_quote (e_layout epieces (@EAttr epieces (lay_of a) (mkq (ra_pre a) (ra_loc a)) ps)))
                   (e_value epieces (@EAttr epieces (lay_of a) (mkq (ra_pre a) (ra_loc a)) ps)) &&
                 wf_qname (mkq (ra_pre a) (ra_loc a)) = true).
    { cbn [e_layout e_value]. rewrite Hlay. cbn [lay_of CstNs.l_quote wf_val M3]. rewrite Hv. cbn [andb].
      apply wf_qname_intro. split; assumption. }
    destruct (utf8s (ra_pre a)); [|exact Ha].
    destruct (bytes_eqb (utf8s (ra_loc a)) CstNs.xmlns_b); [|exact Ha].
    cbn [e_layout e_value]. rewrite Hlay. cbn [lay_of CstNs.l_quote wf_val M3]. rewrite Hv. reflexivity.
Qed.

(* ---- levels ---- *)
Definition levels_r := list (list item3 * bytes).

Fixpoint r_levels_r (fs : list frame) (lv : levels_r) : bytes :=
  match fs, lv with
  | f :: fs', (cs, w) :: lv' => r_items3 cs ++ [60; 47] ++ fq f ++ w ++ [62] ++ r_levels_r fs' lv'
  | _, _ => []
  end.

Definition level_ok_r (f : frame) (cw : list item3 * bytes) : Prop :=
  wf_items3 (fst cw) = true /\ no_adjacent_text epieces (fst cw) = true /\ Cst.wf_ws (snd cw) = true /\
  ns_oks (f_sc f) (dens3 (fst cw)) = true.
Definition lv_wf_r (fs : list frame) (lv : levels_r) : Prop := Forall2 level_ok_r fs lv.

Definition head_ok_r (lv : levels_r) : Prop :=
  match lv with (IText (p :: _) :: _, _) :: _ => E.is_elit p = false | _ => True end.

Definition cons_text_r (ps : list E.epiece) (cs : list item3) : list item3 :=
  match cs with IText qs :: r => @IText epieces (ps ++ qs) :: r | _ => @IText epieces ps :: cs end.

Lemma r_cons_text_r ps cs : r_items3 (cons_text_r ps cs) = E.r_epieces (enc_epieces ps) ++ r_items3 cs.
Proof.
  destruct cs as [|[n a w bd|qs|bs|t s v] r]; cbn [cons_text_r CstFullTree.r_items]; try reflexivity.
  cbn [r_item r_run epieces]. rewrite enc_epieces_app, r_epieces_app, <- app_assoc. reflexivity.
Qed.

Lemma no_adj_elit_app : forall ps qs, E.no_adjacent_elit ps = true -> E.no_adjacent_elit qs = true ->
  match qs with q :: _ => E.is_elit q = false | [] => True end -> E.no_adjacent_elit (ps ++ qs) = true.
Proof.
  induction ps as [|a ps IH]; intros qs H1 H2 Hq; [exact H2|].
  destruct ps as [|c r].
  - cbn [app]. destruct qs as [|q qs']; [reflexivity|].
    change (negb (E.is_elit a && E.is_elit q) && E.no_adjacent_elit (q :: qs') = true). rewrite Hq, andb_false_r. exact H2.
  - change (negb (E.is_elit a && E.is_elit c) && E.no_adjacent_elit (c :: r) = true) in H1.
    apply andb_true_iff in H1. destruct H1 as [A B].
    change (negb (E.is_elit a && E.is_elit c) && E.no_adjacent_elit ((c :: r) ++ qs) = true).
    rewrite A. apply IH; assumption.
Qed.

(* what a text item denotes: nothing that matters for the namespace rules *)
Lemma den_text_facts sc (x : list E.epiece) rest :
  ns_oks sc (den M3 (@IText epieces x) ++ rest) = ns_oks sc rest /\
  NT.items_decls (den M3 (@IText epieces x) ++ rest) = NT.items_decls rest /\
  NT.ns_costs sc (den M3 (@IText epieces x) ++ rest) = NT.ns_costs sc rest.
Proof. cbn [den run_sem ents_meaning]. destruct (erun_sem tb x); cbn [app]; auto. Qed.

Lemma no_adj_text_cons_text_r ps cs : no_adjacent_text epieces cs = true -> no_adjacent_text epieces (cons_text_r ps cs) = true.
Proof.
  intros H. destruct cs as [|[n a w bd|qs|bs|t s v] r]; cbn [cons_text_r]; try reflexivity.
  - change (negb (true && false) && no_adjacent_text epieces (IElem n a w bd :: r) = true). exact H.
  - destruct r as [|c0 r']; [reflexivity|]. exact H.
  - change (negb (true && false) && no_adjacent_text epieces (@IComment epieces bs :: r) = true). exact H.
  - change (negb (true && false) && no_adjacent_text epieces (@IPI epieces t s v :: r) = true). exact H.
Qed.

Lemma wf_cons_text_r ps cs : erun_parts decls ps -> wf_items3 cs = true ->
  (forall qs r, cs = IText qs :: r -> wf_erun tb qs = true -> E.no_adjacent_elit (ps ++ qs) = true) ->
  wf_items3 (cons_text_r ps cs) = true.
Proof.
  intros Hp Hc Hh. destruct cs as [|[n a w bd|qs|bs|t s v] r]; cbn [cons_text_r CstFullTree.wf_items] in *.
  - cbn [wf_item wf_run ents_meaning]. rewrite (wf_erun_intro decls _ Hp). reflexivity.
  - cbn [wf_item wf_run ents_meaning] in *. rewrite (wf_erun_intro decls _ Hp). exact Hc.
  - apply andb_true_iff in Hc. destruct Hc as [Hq Hr]. cbn [wf_item wf_run ents_meaning] in *. rewrite Hr, andb_true_r.
    apply (wf_erun_merge decls); [exact Hp|exact Hq|]. apply (Hh qs r eq_refl Hq).
  - cbn [wf_item wf_run ents_meaning] in *. rewrite (wf_erun_intro decls _ Hp). exact Hc.
  - cbn [wf_item wf_run ents_meaning] in *. rewrite (wf_erun_intro decls _ Hp). exact Hc.
Qed.

Lemma ns_oks_cons_text_r sc ps cs : ns_oks sc (dens3 (cons_text_r ps cs)) = ns_oks sc (dens3 cs).
Proof.
  destruct cs as [|[n a w bd|qs|bs|t s v] r]; cbn [cons_text_r CstFullTree.dens];
    rewrite ?(proj1 (den_text_facts sc _ _)); reflexivity.
Qed.

Lemma ns_oks_nonelem_r sc (i : item3) : match i with IElem _ _ _ _ => False | _ => True end -> ns_oks sc (den M3 i) = true.
Proof.
  destruct i as [? ? ? ?|x| |]; try contradiction; intros _; try reflexivity.
  rewrite <- (app_nil_r (den M3 (IText x))), (proj1 (den_text_facts sc x [])). reflexivity.
Qed.

(* ---- what the levels declare and cost (the two namespace resources) ---- *)

Fixpoint lv_decls_r (lv : levels_r) : list Scope.binding :=
  match lv with (cs, _) :: lv' => decls3 cs ++ lv_decls_r lv' | [] => [] end.
Fixpoint lv_cost_r (fs : list frame) (lv : levels_r) : nat :=
  match fs, lv with f :: fs', (cs, _) :: lv' => (costs3 (f_sc f) cs + lv_cost_r fs' lv')%nat | _, _ => 0%nat end.

Lemma decls_cons_text_r ps cs : decls3 (cons_text_r ps cs) = decls3 cs.
Proof.
  destruct cs as [|[n a w bd|qs|bs|t s v] r]; cbn [cons_text_r CstFullTree.dens];
    rewrite ?(proj1 (proj2 (den_text_facts [] _ _))); reflexivity.
Qed.
Lemma costs_cons_text_r sc ps cs : costs3 sc (cons_text_r ps cs) = costs3 sc cs.
Proof.
  destruct cs as [|[n a w bd|qs|bs|t s v] r]; cbn [cons_text_r CstFullTree.dens];
    rewrite ?(proj2 (proj2 (den_text_facts sc _ _))); reflexivity.
Qed.

Lemma decls_cons_r (i : item3) cs : decls3 (i :: cs) = NT.items_decls (den M3 i) ++ decls3 cs.
Proof. cbn [CstFullTree.dens]. apply CstFullTree.items_decls_app. Qed.
Lemma costs_cons_r sc (i : item3) cs : costs3 sc (i :: cs) = (NT.ns_costs sc (den M3 i) + costs3 sc cs)%nat.
Proof. cbn [CstFullTree.dens]. apply CstFullTree.ns_costs_app. Qed.

Lemma decls_nonelem_r (i : item3) : match i with IElem _ _ _ _ => False | _ => True end -> NT.items_decls (den M3 i) = [].
Proof.
  destruct i as [? ? ? ?|x| |]; try contradiction; intros _; try reflexivity.
  rewrite <- (app_nil_r (den M3 (IText x))), (proj1 (proj2 (den_text_facts [] x []))). reflexivity.
Qed.
Lemma costs_nonelem_r sc (i : item3) : match i with IElem _ _ _ _ => False | _ => True end -> NT.ns_costs sc (den M3 i) = 0%nat.
Proof.
  destruct i as [? ? ? ?|x| |]; try contradiction; intros _; try reflexivity.
  rewrite <- (app_nil_r (den M3 (IText x))), (proj2 (proj2 (den_text_facts sc x []))). reflexivity.
Qed.


Lemma decls_elem_r pre loc (es : list entry3) ws body :
  NT.items_decls (den M3 (IElem (mkq pre loc) es ws body)) =
  CstNs.own_bindings (map xe3 es) ++ match body with None => [] | Some (cs, _) => decls3 cs end.
Proof.
  rewrite CstFullTree.den_elem. cbn [NT.items_decls]. rewrite app_nil_r, NT.item_decls_elem.
  destruct body as [[cs w2]|]; reflexivity.
Qed.
Lemma costs_elem_r inh pre loc (es : list entry3) ws body :
  NT.ns_costs inh (den M3 (IElem (mkq pre loc) es ws body)) =
  (elem_cost (CstNs.own_bindings (map xe3 es)) (Scope.scope_of (CstNs.own_bindings (map xe3 es)) inh) +
   match body with None => 0 | Some (cs, _) => costs3 (Scope.scope_of (CstNs.own_bindings (map xe3 es)) inh) cs end)%nat.
Proof.
  rewrite CstFullTree.den_elem. cbn [NT.ns_costs]. rewrite Nat.add_0_r, NT.ns_cost_elem. unfold NT.esc, elem_cost.
  destruct body as [[cs w2]|]; reflexivity.
Qed.


(* the slices of a qualified name *)
Lemma qname_slices_r s pre loc rest : W s (rq pre loc ++ rest) ->
  sb (sl s (s + blen (utf8s pre))) = utf8s pre /\
  sb (sl (s + qoff pre) (s + qoff pre + blen (utf8s loc))) = utf8s loc /\
  slice_len (sl s (s + blen (utf8s pre))) = blen (utf8s pre).
Proof.
  intros HW. split; [|split; [|unfold slice_len; cbn [sl sl_start sl_end]; lia]].
  - unfold rq in HW. destruct pre as [|c pre].
    + cbn [CstU.utf8s flat_map]. change (blen []) with 0. apply (W_slice text s [] _ HW).
    + rewrite <- !app_assoc in HW. apply (W_slice text _ _ _ HW).
  - unfold rq, qoff in *. destruct pre as [|c pre].
    + rewrite N.add_0_r. apply (W_slice text _ _ _ HW).
    + rewrite <- !app_assoc in HW. pose proof (W_app text _ _ _ HW) as H1. pose proof (W_app text _ _ _ H1) as H2.
      change (blen [58]) with 1 in H2. rewrite <- N.add_assoc in H2. apply (W_slice text _ _ _ H2).
Qed.

Lemma wf_name_bytes_ne_r n : CstU.wf_name n = true -> utf8s n <> [].
Proof. intros H E. apply utf8s_nil_inv in E. subst. discriminate. Qed.

(* ---- the entries of a start tag ---- *)
Lemma attrs_steps_r : forall attrs q rest c1 c2 stk tp tn des,
  WV q (flat_map r_rattr attrs ++ rest) -> Forall rattr_ok attrs -> InTagP c1 stk tp tn des ->
  forall D K, Res c1 D K (CstNs.own_bindings des) ->
  evs (nattr_toks q attrs) c1 = Ok c2 ->
  exists es, InTagP c2 stk tp tn (des ++ map xe3 es) /\ erows c2 = erows c1 /\
             flat_map r_entry es = flat_map r_rattr attrs /\ forallb (wf_entry M3) es = true /\
             Res c2 D K (CstNs.own_bindings (des ++ map xe3 es)) /\
             Forall2 (fun a e => exists ps, e = entry_of_r a ps /\ utf8s (ra_val a) = E.r_epieces (enc_epieces ps) /\ wf_eval tb (ra_quote a) ps = true) attrs es.
Proof.
  induction attrs as [|a attrs IH]; intros q rest c1 c2 stk tp tn des HWV Hok HI D K HR H.
  - cbn [nattr_toks CstLex.evs] in H. inversion H; subst. exists []. cbn [map]. rewrite app_nil_r. auto 10.
  - cbn [nattr_toks CstLex.evs] in H. ib H c1' H1. cbn [flat_map] in HWV. rewrite <- app_assoc in HWV.
    inversion Hok as [|? ? Hra Hras]; subst.
    pose proof Hra as (Hw1 & (Hpre & Hloc) & Hws1 & Hws2 & Hq & Hu & Hb).
    (* the windows *)
    pose proof HWV as HWa. unfold r_rattr in HWa. rewrite <- !app_assoc in HWa.
    assert (Hlit : forall w, Cst.wf_ws w = true -> forallb (fun y => y <? 128) w = true) by (intros w; apply ws_lit).
    assert (Hw1' : Cst.wf_ws (ra_ws a) = true) by (unfold Cst.wf_ws1 in Hw1; destruct (ra_ws a); [discriminate|exact Hw1]).
    pose proof (WV_lit text _ _ _ HWa (Hlit _ Hw1')) as Hn.
    assert (Hqv : U8.Valid (rq (ra_pre a) (ra_loc a))).
    { unfold rq. destruct Hpre as [->|Hp]; [apply CstFullLex.uname_valid; exact Hloc|].
      destruct (ra_pre a); [apply CstFullLex.uname_valid; exact Hloc|].
      apply U8.Valid_app; [apply CstFullLex.uname_valid; exact Hp|].
      apply U8.Valid_app; [apply Valid_lit; reflexivity|apply CstFullLex.uname_valid; exact Hloc]. }
    pose proof (WV_app text _ _ _ Hn Hqv) as H2. pose proof (WV_lit text _ _ _ H2 (Hlit _ Hws1)) as H3.
    pose proof (WV_lit text _ [61] _ H3 eq_refl) as H4. pose proof (WV_lit text _ _ _ H4 (Hlit _ Hws2)) as H5.
    assert (Hq128 : ra_quote a < 128) by lia.
    pose proof (WV_cons text _ _ _ H5 Hq128) as Hv. change (blen [61]) with 1 in *.
    destruct (qname_slices_r _ _ _ _ (WV_W _ _ _ Hn)) as (Sp & Sl & Slen).
    unfold nattr_tok in H1. cbv zeta in H1.
    set (vs := q + blen (ra_ws a) + blen (rq (ra_pre a) (ra_loc a)) + blen (ra_ws1 a) + 1 + blen (ra_ws2 a) + 1) in *.
    assert (Hnorm : forall v c0, normalize_attribute text (sl vs (vs + blen (utf8s (ra_val a)))) c1 = Ok (v, c0) -> c0 = c1).
    { intros v c0 Hn0. exact (proj1 (value_r text HF decls ets Henv Hdecls Hmk Hvals Hnames _ _ _ _ _ _ _ Hv Hu Hb Hq (tn_ent _ _ _ _ _ _ _ HI) (tn_ld _ _ _ _ _ _ _ HI) Hn0)). }
    destruct (step_attr_p text ets (lay_of a) _ _ _ _ _ _ _ _ _ _ _ _ HI ltac:(rewrite Slen, Sp; reflexivity)
                ltac:(rewrite Sl; apply wf_name_bytes_ne_r; exact Hloc) Hnorm H1) as (v & Hnv & HI' & R1 & Heff).
    pose proof (res_attr text _ _ D K des _ HR Heff) as HR'.
    destruct (value_r text HF decls ets Henv Hdecls Hmk Hvals Hnames _ _ _ _ _ _ _ Hv Hu Hb Hq (tn_ent _ _ _ _ _ _ _ HI) (tn_ld _ _ _ _ _ _ _ HI) Hnv)
      as (_ & ps & Eps & Hwf & Hst).
    rewrite Sp, Sl, Hst, <- entry_of_den_r in HI', HR'.
    assert (HWn : WV (q + blen (r_rattr a)) (flat_map r_rattr attrs ++ rest)).
    { pose proof (WV_app text _ _ _ Hv (Valid_uchars _ Hu)) as H7. pose proof (WV_cons text _ _ _ H7 Hq128) as H8.
      replace (q + blen (r_rattr a)) with (vs + blen (utf8s (ra_val a)) + 1); [exact H8|].
      unfold vs, r_rattr. rewrite !blen_app. change (blen [61]) with 1. change (blen [ra_quote a]) with 1. lia. }
    destruct (IH _ _ _ _ _ _ _ _ HWn Hras HI' D K HR' H) as (es & HI2 & R2 & E1 & E2 & HR2 & HF2).
    exists (entry_of_r a ps :: es). cbn [map flat_map forallb]. rewrite <- app_assoc in HI2, HR2.
    split; [exact HI2|]. split; [congruence|]. split; [|split; [|split; [exact HR2|constructor; [exists ps; auto|exact HF2]]]].
    + rewrite E1, (entry_of_render_r a ps Hra Eps). reflexivity.
    + rewrite E2, (entry_of_wf_r a ps Hra Hwf). reflexivity.
Qed.

Definition elem_ok_r (inh : list Scope.binding) (pre loc : list N) (es : list entry3) (ws_end : bytes) : Prop :=
  wf_qname (mkq pre loc) = true /\ forallb (wf_entry M3) es = true /\ Cst.wf_ws ws_end = true /\
  ns_own inh (x_qname (mkq pre loc)) (map xe3 es) = true.

Definition frame_of_r (stk : list frame) (pre loc : list N) (es : list entry3) (nss : range) : frame :=
  {| f_pre := utf8s pre; f_loc := utf8s loc;
     f_sc := Scope.scope_of (CstNs.own_bindings (map xe3 es)) (top_sc stk); f_nss := nss |}.

Lemma tag_sound_r p pre loc attrs ws_end open l' c c1 c2 c' stk :
  WV p ([60] ++ rq pre loc ++ flat_map r_rattr attrs ++ ws_end ++ tag_tail (negb open) ++ l') ->
  qn_ok pre loc -> Forall rattr_ok attrs -> Cst.wf_ws ws_end = true -> SimP c stk ->
  forall D K, Res c D K [] ->
  T_ (nstart_tok p pre loc) c = Ok c1 ->
  evs (nattr_toks (p + 1 + blen (rq pre loc)) attrs) c1 = Ok c2 ->
  T_ (end_tok (p + 1 + blen (rq pre loc) + blen (flat_map r_rattr attrs) + blen ws_end) (negb open)) c2 = Ok c' ->
  exists es nss, SimP c' (if open then frame_of_r stk pre loc es nss :: stk else stk) /\
    flat_map r_entry es = flat_map r_rattr attrs /\ elem_ok_r (top_sc stk) pre loc es ws_end /\
    Res c' (D ++ CstNs.own_bindings (map xe3 es))
        (K + elem_cost (CstNs.own_bindings (map xe3 es)) (Scope.scope_of (CstNs.own_bindings (map xe3 es)) (top_sc stk))) [] /\
    Forall2 (fun a e => exists ps, e = entry_of_r a ps /\ utf8s (ra_val a) = E.r_epieces (enc_epieces ps) /\ wf_eval tb (ra_quote a) ps = true) attrs es.
Proof.
  intros HWV (Hpre & Hloc) Hattrs Hwe HS D K HR H1 H2 H3.
  pose proof (WV_lit text _ [60] _ HWV eq_refl) as HW1. change (blen [60]) with 1 in HW1.
  destruct (qname_slices_r _ _ _ _ (WV_W _ _ _ HW1)) as (Sp & Sl & _).
  assert (Hqv : U8.Valid (rq pre loc)).
  { unfold rq. destruct Hpre as [->|Hp]; [apply CstFullLex.uname_valid; exact Hloc|].
    destruct pre; [apply CstFullLex.uname_valid; exact Hloc|].
    apply U8.Valid_app; [apply CstFullLex.uname_valid; exact Hp|].
    apply U8.Valid_app; [apply Valid_lit; reflexivity|apply CstFullLex.uname_valid; exact Hloc]. }
  pose proof (WV_app text _ _ _ HW1 Hqv) as HW2.
  unfold nstart_tok in H1.
  destruct (step_start_p text ets _ _ _ _ _ _ HS H1) as (HI & R1 & Hx).
  pose proof (Res_eq text _ _ _ _ _ (start_nseq text _ _ _ _ _ H1) HR) as HR1.
  destruct (attrs_steps_r _ _ _ _ _ _ _ _ _ HW2 Hattrs HI D K HR1 H2) as (es & HI2 & R2 & E1 & E2 & HR2 & HF2).
  cbn [app] in HI2, HR2. unfold end_tok in H3.
  destruct (step_tagend_p text ets (if negb open then EEmpty else EOpen) _ _ _ _ _ _ _ HI2
              ltac:(destruct open; auto) H3) as (nss & HS' & _ & Hb & Hab & Hnd & Hvs & Heff).
  pose proof (res_tagend text _ _ D K _ _ HR2 (intag_own_len text ets _ _ _ _ _ HI2) Hvs Heff) as HR3.
  exists es, nss. rewrite Sp, Sl in HS'. split; [destruct open; exact HS'|]. split; [exact E1|].
  split; [|split; [exact HR3|exact HF2]].
  split; [apply wf_qname_intro; split; assumption|]. split; [exact E2|]. split; [exact Hwe|].
  unfold ns_own. cbv zeta. unfold x_qname, mkq. cbn [q_prefix q_local CstNs.q_prefix CstNs.q_local].
  change Scope.bytes_eqb with bytes_eqb. rewrite <- Sp, Hx. cbn [negb andb].
  rewrite (tn_eok _ _ _ _ _ _ _ HI2), (tn_uniq _ _ _ _ _ _ _ HI2). cbn [andb].
  rewrite Sp in Hb. rewrite Sp. rewrite Hb. cbn [andb]. rewrite attrs_bound, Hab. cbn [andb].
  rewrite sem_attrs_names. apply NoDup_enames_distinct. exact Hnd.
Qed.

End MainR.
