(* Proofs/NsRejMain.v -- C06/C08, rejection half at the level of whole documents: a document of
   Spec/CstNs.v that satisfies every syntactic condition of [CstNs.wf_doc] ([wf_syntax_ns]) but
   violates one of the namespace conditions N1-N7 ([ns_conditions] = false) is rejected by [parse]
   with the error the crate documents for the FIRST violated rule ([ns_violation_variant],
   [ns_violation_rejected]; per rule: [n1_...] ... [n7_...]).  With [parse_render_sem_ns]: a
   syntactically well-formed document parses IFF the namespace conditions hold ([ns_decide]).

   The size hypotheses are those of [parse_render_sem_ns] (they are stated on the abstract document
   and make sense whether or not the namespace conditions hold). *)
From Coq Require Import Ascii String.
From Coq Require Import List NArith PeanoNat Bool Lia ZifyBool ZifyN ZifyNat.
Import ListNotations.
From RX Require Import Generated.
From RX.Model Require Import Base CharClass Stream Tokenizer Doc Builder Parse.
From RX.Spec Require Cst Scope CstNs.
From RX.Proofs Require Import Tactics CstLex CstBuild CstNsLex CstNsView CstNsBuild CstNsTree CstNsItems CstNsDoc CstNsMain.
From RX.Proofs Require Import NsRejDefs NsRejLex NsRejBuild NsRejItems NsRejDoc.
From RX.Proofs Require CstItems ScopeProofs.
Open Scope N_scope.

Import CstNs.

(* ------------------------------------------------------------------------------------------ *)
(* the node and attribute bounds follow from the input size (syntax only)                     *)
(* ------------------------------------------------------------------------------------------ *)
Lemma sem_le_render_syn : forall i, syn_item i = true ->
  (isize i + (if is_elem i then 1 else 0) <= length (r_item i))%nat /\
  (nattrs i + (if is_elem i then 1 else 0) <= length (r_item i))%nat.
Proof.
  intros i. induction i as [n a w|n a w cs w2 IH|bs|bs|t s v] using item_ind'; intros Hwf.
  - rewrite r_item_elem, nattrs_elem, !app_length. cbn [length is_elem isize].
    pose proof (nea_le a). lia.
  - destruct (syn_elem_parts _ _ _ _ Hwf) as (_ & _ & _ & _ & _ & Hcs).
    rewrite r_item_elem, isize_elem, nattrs_elem, !app_length. cbn [length is_elem].
    assert (G : (isizes cs <= length (r_items cs) /\ nattrs_items cs <= length (r_items cs))%nat).
    { clear - IH Hcs. induction IH as [|c r Hc _ IHr]; [cbn; lia|].
      cbn [syn_items] in Hcs. apply andb_true_iff in Hcs. destruct Hcs as [H1 H2].
      cbn [isizes r_items nattrs_items]. rewrite !app_length.
      destruct (Hc H1) as [A1 A2]. destruct (IHr H2) as [B1 B2]. lia. }
    pose proof (nea_le a). lia.
  - destruct (CstItems.wf_text _ Hwf) as (_ & Hne & _). destruct bs; [congruence|]. cbn. lia.
  - cbn [r_item isize nattrs is_elem]. rewrite !app_length. cbn [length]. lia.
  - cbn [r_item isize nattrs is_elem]. rewrite !app_length. cbn [length]. lia.
Qed.

Lemma render_bounds_syn c : wf_syntax_ns c = true ->
  (length (sem c) < length (render c))%nat /\ (doc_nattrs c < length (render c))%nat.
Proof.
  intros Hwf. pose proof (wf_syntax_parts c Hwf) as [H1 H2 H3 (name & es & ws & body & Er) H5 H6].
  destruct (regroup_wf _ _ H1 H3) as [R1 _].
  rewrite render_shape, sem_doc_items, sem_items_len. unfold doc_items, doc_nattrs.
  assert (E : isizes (map fst (d_before c)) = isizes (map snd (regroup (d_ws0 c) (d_before c))))
    by (rewrite regroup_items; reflexivity).
  rewrite isizes_app, E. cbn [isizes]. rewrite !app_length.
  pose proof (pairs_sem_le _ R1). pose proof (pairs_sem_le _ H6).
  destruct (sem_le_render_syn _ H5) as [A1 A2]. rewrite Er in A1, A2 |- *. cbn [is_elem] in A1, A2.
  change (@map (Scope.bytes * item) item (@snd Scope.bytes item) (d_after c))
    with (@map (Cst.bytes * item) item (@snd Cst.bytes item) (d_after c)).
  lia.
Qed.

(* ------------------------------------------------------------------------------------------ *)
(* the main theorems                                                                          *)
(* ------------------------------------------------------------------------------------------ *)

(* WHICH error: that of the first violated rule *)
Theorem ns_violation_variant : forall (c : doc) (opt : options) (rl : rule),
  wf_syntax_ns c = true -> first_violation c = Some rl ->
  N.of_nat (length (sem c)) < nodes_limit opt ->               (* room for all nodes + the Root *)
  N.of_nat (length (render c)) <= u32_max ->                    (* the input is at most u32::MAX bytes long *)
  distinct_decls_le (d_root c) (N.to_nat 65535) ->              (* at most 65535 distinct declared bindings *)
  1 + N.of_nat (ns_cost [] (d_root c)) <= u32_max ->            (* the namespace table fits *)
  exists e, parse (render c) opt = Err e /\ rule_error rl e = true.
Proof.
  intros c opt rl Hwf Hv Hlim Hsz Hdist Hcost. destruct (render_bounds_syn c Hwf) as [B1 B2].
  set (text := render c) in *. set (D := item_decls (d_root c)).
  assert (HD : forall l, NoDup l -> incl l D -> N.of_nat (length l) <= 65535).
  { intros l N1 N2. pose proof (Hdist l N1 N2). lia. }
  destruct (parse_document_rej D HD c (allow_dtd opt) (init_ctx text opt) rl Hwf Hv (incl_refl _)
              (init_ctx_CIn text D opt) eq_refl) as (er & E & R).
  { unfold node_room. cbn. rewrite nsizes_doc. unfold len_N. cbn [length]. lia. }
  { unfold attr_room. cbn. unfold doc_nattrs in B2. unfold len_N. cbn [length]. lia. }
  { unfold ns_room. cbn. unfold len_N. cbn [length]. lia. }
  fold text in E. exists er. split; [|exact R].
  unfold parse. rewrite init_context_eq. cbn [bind]. unfold tok_ev in E. rewrite E. reflexivity.
Qed.
Print Assumptions ns_violation_variant.

Theorem ns_violation_rejected : forall (c : doc) (opt : options),
  wf_syntax_ns c = true -> ns_conditions c = false ->
  N.of_nat (length (sem c)) < nodes_limit opt ->
  N.of_nat (length (render c)) <= u32_max ->
  distinct_decls_le (d_root c) (N.to_nat 65535) ->
  1 + N.of_nat (ns_cost [] (d_root c)) <= u32_max ->
  exists e, parse (render c) opt = Err e /\ is_ns_error e = true.
Proof.
  intros c opt Hwf Hns Hlim Hsz Hd Hc. destruct (ns_conditions_false c Hns) as [rl Hv].
  destruct (ns_violation_variant c opt rl Hwf Hv Hlim Hsz Hd Hc) as (e & E & R).
  exists e. split; [exact E|apply (rule_error_ns rl e R)].
Qed.
Print Assumptions ns_violation_rejected.

(* for syntactically well-formed documents: parse succeeds IFF the namespace conditions hold *)
Theorem ns_decide : forall (c : doc) (opt : options),
  wf_syntax_ns c = true ->
  N.of_nat (length (sem c)) < nodes_limit opt ->
  N.of_nat (length (render c)) <= u32_max ->
  distinct_decls_le (d_root c) (N.to_nat 65535) ->
  1 + N.of_nat (ns_cost [] (d_root c)) <= u32_max ->
  ((exists d, parse (render c) opt = Ok d) <-> ns_conditions c = true).
Proof.
  intros c opt Hwf Hlim Hsz Hd Hc. split.
  - intros [d E]. destruct (ns_conditions c) eqn:Hns; [reflexivity|].
    destruct (ns_violation_rejected c opt Hwf Hns Hlim Hsz Hd Hc) as (e & E' & _). congruence.
  - intros Hns. destruct (parse_render_sem_ns c opt) as (d & E & _); try assumption.
    + rewrite wf_doc_split_ns, Hwf, Hns. reflexivity.
    + exists d. exact E.
Qed.
Print Assumptions ns_decide.

(* the same with the tree: either the tree of the document, or the error of the first violation *)
Corollary ns_decide_sem : forall (c : doc) (opt : options),
  wf_syntax_ns c = true ->
  N.of_nat (length (sem c)) < nodes_limit opt ->
  N.of_nat (length (render c)) <= u32_max ->
  distinct_decls_le (d_root c) (N.to_nat 65535) ->
  1 + N.of_nat (ns_cost [] (d_root c)) <= u32_max ->
  match first_violation c with
  | None => exists d, parse (render c) opt = Ok d /\ view (render c) d = Some (sem c)
  | Some rl => exists e, parse (render c) opt = Err e /\ rule_error rl e = true
  end.
Proof.
  intros c opt Hwf Hlim Hsz Hd Hc. destruct (first_violation c) as [rl|] eqn:Hv.
  - apply ns_violation_variant; assumption.
  - apply parse_render_sem_ns; try assumption.
    rewrite wf_doc_split_ns, Hwf, ns_conditions_first, Hv. reflexivity.
Qed.
Print Assumptions ns_decide_sem.

(* ------------------------------------------------------------------------------------------ *)
(* rule by rule                                                                               *)
(* ------------------------------------------------------------------------------------------ *)
Definition fits (c : doc) (opt : options) : Prop :=
  N.of_nat (length (sem c)) < nodes_limit opt /\
  N.of_nat (length (render c)) <= u32_max /\
  distinct_decls_le (d_root c) (N.to_nat 65535) /\
  1 + N.of_nat (ns_cost [] (d_root c)) <= u32_max.

Lemma variant_fits c opt rl : wf_syntax_ns c = true -> first_violation c = Some rl -> fits c opt ->
  exists e, parse (render c) opt = Err e /\ rule_error rl e = true.
Proof. intros Hwf Hv (F1 & F2 & F3 & F4). apply ns_violation_variant; assumption. Qed.

(* N1: the element name has the prefix xmlns *)
Theorem n1_element_prefix_xmlns c opt :
  wf_syntax_ns c = true -> first_violation c = Some ElemPrefixXmlns -> fits c opt ->
  exists tp, parse (render c) opt = Err (InvalidElementNamePrefix tp).
Proof.
  intros Hwf Hv F. destruct (variant_fits c opt _ Hwf Hv F) as (e & E & R).
  destruct e; try discriminate R. eauto.
Qed.

(* N2: an unbound prefix on an element or attribute name *)
Theorem n2_unbound_prefix c opt p :
  wf_syntax_ns c = true -> first_violation c = Some (UnboundPrefix p) -> fits c opt ->
  exists tp, parse (render c) opt = Err (UnknownNamespace p tp).
Proof.
  intros Hwf Hv F. destruct (variant_fits c opt _ Hwf Hv F) as (e & E & R).
  destruct e; try discriminate R. cbn [rule_error] in R. apply ScopeProofs.bytes_eqb_eq in R. subst s. eauto.
Qed.

(* N3: xmlns:xmlns is declared *)
Theorem n3_xmlns_declared c opt :
  wf_syntax_ns c = true -> first_violation c = Some DeclXmlns -> fits c opt ->
  exists tp, parse (render c) opt = Err (InvalidElementNamePrefix tp).
Proof.
  intros Hwf Hv F. destruct (variant_fits c opt _ Hwf Hv F) as (e & E & R).
  destruct e; try discriminate R. eauto.
Qed.

(* N4: the xmlns URI is bound *)
Theorem n4_xmlns_uri_bound c opt :
  wf_syntax_ns c = true -> first_violation c = Some XmlnsUriBound -> fits c opt ->
  exists tp, parse (render c) opt = Err (UnexpectedXmlnsUri tp).
Proof.
  intros Hwf Hv F. destruct (variant_fits c opt _ Hwf Hv F) as (e & E & R).
  destruct e; try discriminate R. eauto.
Qed.

(* N5: the xml prefix with another URI *)
Theorem n5_xml_prefix_other_uri c opt :
  wf_syntax_ns c = true -> first_violation c = Some XmlPrefixOtherUri -> fits c opt ->
  exists tp, parse (render c) opt = Err (InvalidXmlPrefixUri tp).
Proof.
  intros Hwf Hv F. destruct (variant_fits c opt _ Hwf Hv F) as (e & E & R).
  destruct e; try discriminate R. eauto.
Qed.

(* N5: the xml URI on another prefix or as the default namespace *)
Theorem n5_xml_uri_other_prefix c opt :
  wf_syntax_ns c = true -> first_violation c = Some XmlUriOtherPrefix -> fits c opt ->
  exists tp, parse (render c) opt = Err (UnexpectedXmlUri tp).
Proof.
  intros Hwf Hv F. destruct (variant_fits c opt _ Hwf Hv F) as (e & E & R).
  destruct e; try discriminate R. eauto.
Qed.

(* N6: the same prefix declared twice on one tag *)
Theorem n6_duplicate_prefix c opt p :
  wf_syntax_ns c = true -> first_violation c = Some (DupPrefix p) -> fits c opt ->
  exists tp, parse (render c) opt = Err (DuplicatedNamespace p tp).
Proof.
  intros Hwf Hv F. destruct (variant_fits c opt _ Hwf Hv F) as (e & E & R).
  destruct e; try discriminate R. cbn [rule_error] in R. apply ScopeProofs.bytes_eqb_eq in R. subst s. eauto.
Qed.

(* N6: the default namespace declared twice on one tag *)
Theorem n6_duplicate_default c opt :
  wf_syntax_ns c = true -> first_violation c = Some DupDefault -> fits c opt ->
  exists tp, parse (render c) opt = Err (DuplicatedAttribute xmlns_b tp).
Proof.
  intros Hwf Hv F. destruct (variant_fits c opt _ Hwf Hv F) as (e & E & R).
  destruct e; try discriminate R. cbn [rule_error] in R. apply ScopeProofs.bytes_eqb_eq in R. subst s. eauto.
Qed.

(* N7: two attributes with one expanded name *)
Theorem n7_duplicate_attribute c opt l :
  wf_syntax_ns c = true -> first_violation c = Some (DupAttr l) -> fits c opt ->
  exists tp, parse (render c) opt = Err (DuplicatedAttribute l tp).
Proof.
  intros Hwf Hv F. destruct (variant_fits c opt _ Hwf Hv F) as (e & E & R).
  destruct e; try discriminate R. cbn [rule_error] in R. apply ScopeProofs.bytes_eqb_eq in R. subst s. eauto.
Qed.

Print Assumptions n1_element_prefix_xmlns.
Print Assumptions n2_unbound_prefix.
Print Assumptions n3_xmlns_declared.
Print Assumptions n4_xmlns_uri_bound.
Print Assumptions n5_xml_prefix_other_uri.
Print Assumptions n5_xml_uri_other_prefix.
Print Assumptions n6_duplicate_prefix.
Print Assumptions n6_duplicate_default.
Print Assumptions n7_duplicate_attribute.
