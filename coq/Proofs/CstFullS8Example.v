(* Proofs/CstFullS8Example.v -- the theorems of Proofs/CstFullS8Main.v are not vacuous, and stage S8 is strictly wider
   than stage S7: the sample document ex8 of Proofs/CstFullS8Sanity.v -- '%' in the literals of character-data entities
   ("100%", "a%p;b% %%" with a parameter entity p declared, "urn:%41" used as a namespace URI) and of a MARKUP entity
   (in an attribute value, in text, in a comment, in a PI) -- satisfies the hypotheses of
   [parse_render_sem_full_s8_api] and is not a document of S7. *)
From Coq Require Import Ascii String.
From Coq Require Import List NArith Bool Lia.
Import ListNotations.
From RX Require Import Generated.
From RX.Model Require Import Base Stream Tokenizer Doc Builder Parse.
From RX.Spec Require CstNs CstU.
From RX.Spec Require Import CstFull CstFullS6 CstFullS7 CstFullS8.
From RX.Proofs Require Import CstNsView CstFullMain CstFullS6Sanity CstFullS8Sanity CstFullS8Main.
From RX.Proofs Require ApiView.
Open Scope N_scope.

Definition optx := {| allow_dtd := true; nodes_limit := default_nodes_limit |}.

Theorem s8_wider : S8.wf_doc ex8 = true /\ S7.wf_doc ex8 = false.
Proof. split; vm_compute; reflexivity. Qed.

Example ex8_parses : exists x, parse (S8.render ex8) optx = Ok x /\ ApiView.api_view (S8.render ex8) x = Some (S8.sem ex8).
Proof.
  apply parse_render_sem_full_s8_api.
  - vm_compute. reflexivity.
  - reflexivity.
  - vm_compute. intros H. discriminate H.
  - vm_compute. reflexivity.
  - vm_compute. reflexivity.
  - vm_compute. reflexivity.
  - unfold S8.distinct_decls_le, S6.distinct_decls_le, X4.S4.distinct_decls_le.
    match goal with |- match ?x with _ => _ end => let y := eval vm_compute in x in change x with y end.
    apply distinct_by_count.
    match goal with |- (length ?l <= _)%nat => let n := eval vm_compute in (length l) in change (length l) with n end. lia.
  - vm_compute. intros H. discriminate H.
Qed.

Print Assumptions s8_wider.
Print Assumptions ex8_parses.
