(* Proofs/CstSound11Cls.v -- the CLASSIFICATION of the literals without '<' (Proofs/CstSound6bCls.v) with a THIRD reason
   to be content-valued, for stage S11 (Spec/CstFullS11.v).  The lexical layer (Proofs/CstSound11Lex.v) reads every
   literal without '<' as character data [XText ps], with the piece conditions of S11 ([wf_xdecl11w] of
   Proofs/CstSound11Aux.v: references to TAB / LF admitted).  S11 admits those references in the runs of CONTENT values
   only.  "Content-valued" is the LEAST set S of names closed under: the binding declaration of n has a literal with
   '<', or its literal has a reference to TAB / LF ([has_ws]), or it mentions a name of S.  [exists_cls3]: such a set
   exists, [Sound3] and [Closed3]; [rc3 S] reclassifies a declaration, [rcdt3 S] a DOCTYPE of Spec/CstFullS6.v:
   rendering and binding declarations are kept, and a DOCTYPE that is well formed as read ([wf_doctype11w]) becomes
   well formed for S11 ([wf_rcdt3]).  No parser is involved. *)
From Coq Require Import List NArith Bool Lia.
Import ListNotations.
From RX Require Import Generated.
From RX.Model Require Import Base.
From RX.Spec Require Cst Chars CstU CstNs CstText CstEnt Scope.
From RX.Spec Require Import CstFull CstFullS4 CstFullS5 CstFullS6.
From RX.Spec Require Import CstFullS7 CstFullS8 CstFullS9 CstFullS10 CstFullS11.
From RX.Proofs Require CstFullS4Sem CstFullS11Main.
From RX.Proofs Require Import CstSound6bCls CstSound11Aux.
Open Scope N_scope.

(* the declaration is content-valued, given the content-valued names S *)
Definition crit3 (S : list bytes) (d : X4.xdecl) : bool :=
  match X4.x_value d with X4.XContent _ => true | X4.XText ps => has_ws ps || refs_in S ps end.
Definition rc3 (S : list bytes) (d : X4.xdecl) : X4.xdecl :=
  match X4.x_value d with
  | X4.XText ps =>
    if has_ws ps || refs_in S ps
    then {| X4.x_ws0 := X4.x_ws0 d; X4.x_ws1 := X4.x_ws1 d; X4.x_name := X4.x_name d; X4.x_ws2 := X4.x_ws2 d;
            X4.x_quote := X4.x_quote d; X4.x_value := X4.XContent [@IText epieces ps]; X4.x_ws3 := X4.x_ws3 d |}
    else d
  | X4.XContent _ => d
  end.

Lemma crit3_mono m S d : crit3 S d = true -> crit3 (m :: S) d = true.
Proof.
  unfold crit3. destruct (X4.x_value d) as [ps|its]; [|auto]. intros H. apply orb_true_iff in H. apply orb_true_iff.
  destruct H as [H|H]; [left; exact H|right; apply refs_mono; exact H].
Qed.

(* ---- what reclassification keeps ---- *)
Lemma rc3_name S d : X4.x_name (rc3 S d) = X4.x_name d.
Proof. unfold rc3. destruct (X4.x_value d) as [ps|its]; [destruct (has_ws ps || refs_in S ps)|]; reflexivity. Qed.
Lemma rc3_rvalue S d : X4.r_xvalue (X4.x_value (rc3 S d)) = X4.r_xvalue (X4.x_value d).
Proof.
  unfold rc3. destruct (X4.x_value d) as [ps|its] eqn:Ev; [destruct (has_ws ps || refs_in S ps)|]; rewrite ?Ev; try reflexivity.
  cbn. apply app_nil_r.
Qed.
Lemma rc3_render S d : X4.r_xdecl (rc3 S d) = X4.r_xdecl d.
Proof.
  unfold X4.r_xdecl. rewrite rc3_rvalue, rc3_name. unfold rc3. destruct (X4.x_value d) as [ps|its]; [destruct (has_ws ps || refs_in S ps)|]; reflexivity.
Qed.
Lemma rc3_value S d : X4.x_value (rc3 S d) =
  match X4.x_value d with X4.XText ps => if has_ws ps || refs_in S ps then X4.XContent [@IText epieces ps] else X4.XText ps | v => v end.
Proof. unfold rc3. destruct (X4.x_value d) as [ps|its] eqn:Ev; [destruct (has_ws ps || refs_in S ps)|]; cbn [X4.x_value]; rewrite ?Ev; reflexivity. Qed.

Lemma first_rc3 S : forall l n, first_xdecl (map (rc3 S) l) n = option_map (rc3 S) (first_xdecl l n).
Proof.
  unfold CstFullS4Sem.first_xdecl. induction l as [|d r IH]; intros n; [reflexivity|]. cbn [map find]. rewrite rc3_name.
  destruct (E.beq (utf8s (X4.x_name d)) n); [reflexivity|apply IH].
Qed.

(* well-formedness of the reclassified declaration: as read -> for S11 *)
Lemma wf_rc3 S d : wf_xdecl11w d = true -> wf_xdecl11 (rc3 S d) = true.
Proof.
  intros H. unfold wf_xdecl11w in H. unfold wf_xdecl11. rewrite rc3_name. pose proof (rc3_rvalue S d) as Er. pose proof (rc3_value S d) as Ev.
  rewrite !andb_true_iff in H. destruct H as [[[[[[H0 H1] Hn] H2] Hq] Hv] H3].
  assert (Hv' : wf_xvalue11 (X4.x_quote d) (X4.x_value (rc3 S d)) = true).
  { unfold wf_xvalue11w in Hv. apply andb_true_iff in Hv. destruct Hv as [Hv1 Hv2]. rewrite Ev.
    destruct (X4.x_value d) as [ps|its] eqn:Exv.
    - destruct (has_ws ps || refs_in S ps) eqn:Eref.
      + assert (Hne : ps <> []) by (intros ->; cbn in Eref; discriminate).
        exact (proj1 (CstFullS11Main.content_reading (X4.x_quote d) ps Hne Hv1 Hv2)).
      + apply orb_false_iff in Eref. destruct Eref as [Ews _]. unfold wf_xvalue11. rewrite Hv1. cbn [andb].
        apply uepieces11_10; assumption.
    - unfold wf_xvalue11. rewrite Hv1. cbn [andb]. apply andb_true_iff in Hv2. destruct Hv2 as [A B0]. rewrite B0, andb_true_r.
      revert A. apply CstLex.forallb_imp. intros i. apply CstFullS11Main.uitem_11. }
  assert (E0 : X4.x_ws0 (rc3 S d) = X4.x_ws0 d /\ X4.x_ws1 (rc3 S d) = X4.x_ws1 d /\ X4.x_ws2 (rc3 S d) = X4.x_ws2 d /\
               X4.x_quote (rc3 S d) = X4.x_quote d /\ X4.x_ws3 (rc3 S d) = X4.x_ws3 d).
  { unfold rc3. destruct (X4.x_value d) as [ps|its]; [destruct (has_ws ps || refs_in S ps)|]; repeat split; reflexivity. }
  destruct E0 as (E0 & E1 & E2 & E3 & E4). rewrite E0, E1, E2, E3, E4, H0, H1, Hn, H2, Hq, Hv', H3. reflexivity.
Qed.

(* ---- the DOCTYPE of Spec/CstFullS6.v ---- *)
Definition rc63 (S : list bytes) (s : sdecl6) : sdecl6 := match s with XEntity e => XEntity (rc3 S e) | o => o end.
Definition rcdt3 (S : list bytes) (t : doctype6) : doctype6 :=
  {| z_ws1 := z_ws1 t; z_name := z_name t; z_ws2 := z_ws2 t; z_ext := z_ext t;
     z_subset := match z_subset t with
                 | Some u => Some {| zu_decls := map (rc63 S) (zu_decls u); zu_ws3 := zu_ws3 u; zu_ws4 := zu_ws4 u |}
                 | None => None
                 end |}.

Lemma r_rcdt3 S t : r_doctype6 (rcdt3 S t) = r_doctype6 t.
Proof.
  unfold r_doctype6, rcdt3. cbn [z_ws1 z_name z_ws2 z_ext z_subset]. destruct (z_subset t) as [u|]; [|reflexivity].
  cbn [X5.r_opt]. unfold r_subset6. cbn [zu_decls zu_ws3 zu_ws4].
  assert (E : flat_map r_sdecl6 (map (rc63 S) (zu_decls u)) = flat_map r_sdecl6 (zu_decls u)).
  { induction (zu_decls u) as [|s r IH]; [reflexivity|]. cbn [map flat_map]. rewrite IH. f_equal.
    destruct s; cbn [rc63 r_sdecl6]; [apply rc3_render|reflexivity]. }
  rewrite E. reflexivity.
Qed.
Lemma wf_rcdt3 S t : wf_doctype11w t = true -> wf_doctype11 (rcdt3 S t) = true.
Proof.
  unfold wf_doctype11w, wf_doctype11, rcdt3. cbn [z_ws1 z_name z_ws2 z_ext z_subset]. rewrite !andb_true_iff. intros [[[[A B0] C0] D] F].
  repeat split; try assumption. destruct (z_subset t) as [u|]; [|reflexivity]. cbn [X5.wf_opt] in *.
  unfold wf_subset11w in F. unfold wf_subset11. cbn [zu_decls zu_ws3 zu_ws4]. rewrite !andb_true_iff in F |- *. destruct F as [[F1 F2] F3].
  repeat split; try assumption. rewrite forallb_forall in F1. apply forallb_forall. intros s Hs. apply in_map_iff in Hs.
  destruct Hs as (s0 & <- & Hs0). specialize (F1 _ Hs0). destruct s0; cbn [rc63 wf_sdecl11 wf_sdecl11w] in *; [apply wf_rc3; exact F1|exact F1].
Qed.
Lemma ge_rcdt3 S t : ge_decls6 (rcdt3 S t) = map (rc3 S) (ge_decls6 t).
Proof.
  unfold ge_decls6, subset_decls6, rcdt3. cbn [z_subset]. destruct (z_subset t) as [u|]; [|reflexivity]. cbn [zu_decls].
  induction (zu_decls u) as [|s r IH]; [reflexivity|]. cbn [map flat_map]. rewrite IH, map_app. destruct s; reflexivity.
Qed.

(* ---- the least closed set of content-valued names ---- *)
Section Cls3.
Variable xds : list X4.xdecl.

Definition Sound3 (S : list bytes) : Prop := forall n, memn n S = true -> exists d, first_xdecl xds n = Some d /\ crit3 S d = true.
Definition Closed3 (S : list bytes) : Prop := forall n d, first_xdecl xds n = Some d -> crit3 S d = true -> memn n S = true.

Definition names3 : list bytes := map (fun d => utf8s (X4.x_name d)) xds.
Definition cnt3 (S : list bytes) : nat := length (filter (fun n => negb (memn n S)) names3).
Definition cand3 (S : list bytes) (d : X4.xdecl) : bool :=
  negb (memn (utf8s (X4.x_name d)) S) &&
  match first_xdecl xds (utf8s (X4.x_name d)) with Some d' => crit3 S d' | None => false end.

Lemma cls_step3 S : Sound3 S -> Closed3 S \/ exists n, Sound3 (n :: S) /\ (cnt3 (n :: S) < cnt3 S)%nat.
Proof.
  intros HS. destruct (find (cand3 S) xds) as [d|] eqn:Ef.
  - right. apply find_some in Ef. destruct Ef as [Hin Hc]. unfold cand3 in Hc. apply andb_true_iff in Hc. destruct Hc as [Hm Hc].
    apply negb_true_iff in Hm. set (n := utf8s (X4.x_name d)) in *.
    destruct (first_xdecl xds n) as [d'|] eqn:Ed; [|discriminate]. exists n. split.
    + intros m Hmm. rewrite memn_cons in Hmm. apply orb_true_iff in Hmm. destruct Hmm as [Hb|Hmm].
      * apply beq_eq in Hb. subst m. exists d'. split; [exact Ed|apply crit3_mono; exact Hc].
      * destruct (HS m Hmm) as (dm & E1 & E2). exists dm. split; [exact E1|apply crit3_mono; exact E2].
    + unfold cnt3. apply (filter_len_lt _ _ n).
      * intros x Hx. apply negb_true_iff in Hx. apply negb_true_iff. rewrite memn_cons in Hx. apply orb_false_iff in Hx. apply Hx.
      * unfold names3. apply in_map_iff. exists d. split; [reflexivity|exact Hin].
      * apply negb_true_iff. exact Hm.
      * apply negb_false_iff. rewrite memn_cons, beq_refl. reflexivity.
  - left. intros n d Hd Hc. destruct (first_name _ _ _ Hd) as [En Hin]. pose proof (find_none _ _ Ef d Hin) as Hn.
    unfold cand3 in Hn. rewrite En, Hd, Hc, andb_true_r in Hn. apply negb_false_iff in Hn. exact Hn.
Qed.

Lemma cls_iter3 : forall m S, Sound3 S -> (cnt3 S <= m)%nat -> exists S', Sound3 S' /\ Closed3 S'.
Proof.
  induction m as [|m IH]; intros S HS Hm.
  - destruct (cls_step3 S HS) as [HC|(n & _ & Hlt)]; [exists S; split; assumption|lia].
  - destruct (cls_step3 S HS) as [HC|(n & HS' & Hlt)]; [exists S; split; assumption|]. apply (IH (n :: S) HS'). lia.
Qed.

Theorem exists_cls3 : exists S, Sound3 S /\ Closed3 S.
Proof. apply (cls_iter3 (cnt3 []) []); [intros n H; discriminate|apply le_n]. Qed.

Variable S : list bytes.
Hypothesis HClosed : Closed3 S.

(* a character-data declaration mentions character-data entities only *)
Lemma cls_pure3 : forall d ps n d', In d (map (rc3 S) xds) -> X4.x_value d = X4.XText ps -> In (E.ERef n) (enc_epieces ps) ->
  first_xdecl (map (rc3 S) xds) n = Some d' -> exists ps', X4.x_value d' = X4.XText ps'.
Proof.
  intros d ps n d' Hin Ev Hr Hd'. apply in_map_iff in Hin. destruct Hin as (d0 & <- & Hin0).
  rewrite rc3_value in Ev. destruct (X4.x_value d0) as [ps0|its0] eqn:Ev0; [|discriminate].
  destruct (has_ws ps0 || refs_in S ps0) eqn:Eref; [discriminate|]. injection Ev as <-.
  apply orb_false_iff in Eref. destruct Eref as [_ Eref].
  pose proof (refs_in_false _ _ _ Eref Hr) as Hm.
  rewrite first_rc3 in Hd'. destruct (first_xdecl xds n) as [d0'|] eqn:Ed0; [|discriminate]. cbn [option_map] in Hd'. injection Hd' as <-.
  destruct (crit3 S d0') eqn:Ec; [rewrite (HClosed n d0' Ed0 Ec) in Hm; discriminate|].
  rewrite rc3_value. unfold crit3 in Ec. destruct (X4.x_value d0') as [ps'|?]; [|discriminate]. rewrite Ec. eauto.
Qed.
End Cls3.
