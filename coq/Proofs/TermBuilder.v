(* Proofs/TermBuilder.v -- termination, part 3: the Context callbacks of Builder.v never run
   out of fuel and keep the depth of the loop detector. *)
From Coq Require Import List NArith Bool Lia ZifyBool ZifyN ZifyNat.
Import ListNotations.
From RX Require Import Generated.
From RX.Model Require Import Base CharClass Stream Tokenizer Doc Builder.
From RX.Proofs Require Import TermStream TermTokenizer.
Open Scope N_scope.

Definition depth (c : context) : N := ld_depth (c_ld c).
(* c' has the same detector depth as c *)
Definition kd (c c' : context) : Prop := depth c' = depth c.

Ltac kfin :=
  unfold kd, depth in *;
  cbn [c_ld set_doc set_ns_start_idx set_cur_attrs set_awaiting set_parent_prefixes set_entities
       set_after_text set_parent_id set_tag_name set_entity_floor set_ld fst snd] in *;
  solve [ exact I | congruence | lia | eauto with good ].

Ltac gauto := repeat gstep; try kfin.
Ltac measure := unfold adv, wf in *; cbn [s_pos s_end s_rest] in *; lia.

Section WithText.
Variable text : bytes.
Hypothesis Hsafe : safe text.

Lemma from_substr_good' a e : good wf (stream_from_substr text a e).
Proof. apply from_substr_good; exact Hsafe. Qed.
Hint Resolve from_substr_good' : good.

(* ---- small things ---- *)
Lemma short_range_good a e : good (fun _ => True) (short_range a e).
Proof. unfold short_range. gauto. Qed.

Lemma tb_finish_good t : good (fun _ => True) (tb_finish t).
Proof. unfold tb_finish. gauto. Qed.

Lemma push_ns_good name uri d : good (fun _ => True) (push_ns text name uri d).
Proof. unfold push_ns. gauto. Qed.

Lemma push_ref_good i d : good (fun _ => True) (push_ref i d).
Proof. unfold push_ref. gauto. Qed.

Lemma ns_prefix_at_good d i : good (fun _ => True) (ns_prefix_at text d i).
Proof. unfold ns_prefix_at. gauto. Qed.
Hint Resolve short_range_good tb_finish_good push_ns_good push_ref_good ns_prefix_at_good : good.

Lemma any_prefix_good d idxs p : good (fun _ => True) (any_prefix text d idxs p).
Proof. induction idxs; cbn [any_prefix]; gauto. Qed.
Hint Resolve any_prefix_good : good.

Lemma ns_exists_good d st p : good (fun _ => True) (ns_exists text d st p).
Proof. unfold ns_exists. gauto. Qed.

Lemma node_id_new_good n : good (fun _ => True) (node_id_new n).
Proof. unfold node_id_new. gauto. Qed.

Lemma upd_node_good nodes i f : good (fun _ => True) (upd_node nodes i f).
Proof. unfold upd_node. gauto. Qed.
Hint Resolve ns_exists_good node_id_new_good upd_node_good : good.

Lemma set_next_subtree_all_good ids : forall nodes v,
  good (fun _ => True) (set_next_subtree_all nodes ids v).
Proof. induction ids; intros; cbn [set_next_subtree_all]; gauto. Qed.
Hint Resolve set_next_subtree_all_good : good.

(* ---- append_node, append_text, merge_text, reset_after_text ---- *)
Lemma append_node_good k r c : good (fun p => kd c (snd p)) (append_node k r c).
Proof. unfold append_node. gauto. Qed.
Hint Resolve append_node_good : good.

Lemma append_text_good t r c : good (kd c) (append_text t r c).
Proof. unfold append_text. gauto. Qed.

Lemma merge_text_good c : good (kd c) (merge_text text c).
Proof. unfold merge_text. gauto. Qed.
Hint Resolve append_text_good merge_text_good : good.

Lemma reset_after_text_good c : good (kd c) (reset_after_text text c).
Proof. unfold reset_after_text. gauto. Qed.
Hint Resolve reset_after_text_good : good.

(* ---- namespaces and attributes ---- *)
Lemma find_prefix_idx_good d idxs p : good (fun _ => True) (find_prefix_idx text d idxs p).
Proof. induction idxs; cbn [find_prefix_idx]; gauto. Qed.

Lemma ns_range_slice_good d nss : good (fun _ => True) (ns_range_slice d nss).
Proof. unfold ns_range_slice. gauto. Qed.
Hint Resolve find_prefix_idx_good ns_range_slice_good : good.

Lemma get_ns_idx_by_prefix_good nss pp p d : good (fun _ => True) (get_ns_idx_by_prefix text nss pp p d).
Proof. unfold get_ns_idx_by_prefix. gauto. Qed.
Hint Resolve get_ns_idx_by_prefix_good : good.

Lemma resolve_ns_loop_good st is : forall d, good (fun _ => True) (resolve_ns_loop text st is d).
Proof. induction is; intros; cbn [resolve_ns_loop]; gauto. Qed.
Hint Resolve resolve_ns_loop_good : good.

Lemma ns_range_checked_good a e : good (fun _ => True) (ns_range_checked a e).
Proof. unfold ns_range_checked. gauto. Qed.
Hint Resolve ns_range_checked_good : good.

Lemma resolve_namespaces_good c : good (fun p => kd c (snd p)) (resolve_namespaces text c).
Proof. unfold resolve_namespaces. gauto. Qed.
Hint Resolve resolve_namespaces_good : good.

Lemma attr_expanded_name_good d i l : good (fun _ => True) (attr_expanded_name text d i l).
Proof. unfold attr_expanded_name. gauto. Qed.
Hint Resolve attr_expanded_name_good : good.

Lemma any_same_name_good d l n : good (fun _ => True) (any_same_name text d l n).
Proof. induction l; cbn [any_same_name]; gauto. Qed.
Hint Resolve any_same_name_good : good.

Lemma resolve_attrs_loop_good nss st l : forall d,
  good (fun _ => True) (resolve_attrs_loop text nss st l d).
Proof. induction l; intros; cbn [resolve_attrs_loop]; gauto. Qed.
Hint Resolve resolve_attrs_loop_good : good.

Lemma resolve_attributes_good nss c : good (fun p => kd c (snd p)) (resolve_attributes text nss c).
Proof. unfold resolve_attributes. gauto. Qed.
Hint Resolve resolve_attributes_good : good.

Lemma process_element_good e r c : good (kd c) (process_element text e r c).
Proof. unfold process_element. gauto. Qed.

Lemma process_cdata_good t r c : good (kd c) (process_cdata text t r c).
Proof. unfold process_cdata. gauto. Qed.

(* ---- the loop detector ---- *)
Lemma inc_references_good s ld :
  good (fun ld' => ld_depth ld' = ld_depth ld) (inc_references text s ld).
Proof. unfold inc_references. gauto. Qed.

Lemma inc_depth_good s ld :
  good (fun ld' => ld_depth ld < 10 /\ ld_depth ld' = ld_depth ld + 1) (inc_depth text s ld).
Proof.
  unfold inc_depth. change ld_max_depth with 10.
  destruct (ld_depth ld <? 10) eqn:E; [|apply good_err_at].
  cbn [good ld_depth]. lia.
Qed.
Hint Resolve inc_references_good inc_depth_good : good.

Lemma dec_depth_succ ld d : ld_depth ld = d + 1 -> ld_depth (dec_depth ld) = d.
Proof.
  intros H. unfold dec_depth. cbn [ld_depth]. rewrite H.
  destruct (0 <? d + 1) eqn:E; lia.
Qed.

(* ---- parse_next_chunk: always consumes something ---- *)
Lemma parse_next_chunk_good s ents : wf s ->
  good (fun p => adv 1 s (snd p)) (parse_next_chunk text s ents).
Proof. intros W. unfold parse_next_chunk. gauto. Qed.

(* ---- normalize_attribute ---- *)

(* the inner loop of norm_attr_lvl, with the recursive call abstracted *)
Definition norm_loop
    (rec : list entity -> slice -> text_buffer -> loop_detector -> res (text_buffer * loop_detector))
    (entities : list entity) :=
  fix loop (fuel : nat) (s : Stream.stream) (t : text_buffer) (ld : loop_detector) {struct fuel}
    : res (text_buffer * loop_detector) :=
    match fuel with
    | O => OutOfFuel
    | S fu =>
      if at_end s then Ok (t, ld) else
      let! x := curr_byte_unchecked s in
      if negb (x =? 38) then
        if (x =? 60) && (0 <? ld_depth ld) then err_at text s InvalidAttributeValue
        else
          let! s := advance 1 s in
          loop fu s (tb_push_from_attr x (curr_byte_opt s) t) ld
      else
        let start := s_pos s in
        let! r := consume_reference text s in
        match r with
        | Some (RefChar ch, s) =>
          match push_char_bytes_attr (encode_utf8 ch) (0 <? ld_depth ld) t with
          | Some t => loop fu s t ld
          | None => err_from text start InvalidAttributeValue
          end
        | Some (RefEntity name, s) =>
          match find_entity text entities (slice_bytes text name) with
          | Some e =>
            let! ld := inc_references text s ld in
            let! ld := inc_depth text s ld in
            let! (t, ld) := rec entities (en_value e) t ld in
            loop fu s t (dec_depth ld)
          | None => err_from text start (UnknownEntityReference (slice_bytes text name))
          end
        | None => err_from text start MalformedEntityReference
        end
    end.

Lemma norm_attr_lvl_S lvl entities value t ld :
  norm_attr_lvl text (S lvl) entities value t ld =
  let! s0 := stream_from_substr text (sl_start value) (sl_end value) in
  norm_loop (norm_attr_lvl text lvl) entities (S (length (s_rest s0))) s0 t ld.
Proof. reflexivity. Qed.

Lemma norm_loop_good rec ents d :
  (d < 10 -> forall es v t ld, ld_depth ld = d + 1 ->
     good (fun p => ld_depth (snd p) = d + 1) (rec es v t ld)) ->
  forall fuel s t ld, wf s -> ld_depth ld = d -> s_end s - s_pos s < N.of_nat fuel ->
  good (fun p => ld_depth (snd p) = d) (norm_loop rec ents fuel s t ld).
Proof.
  intros Hrec. induction fuel; intros s t ld W Hd Hf; [lia|]. cbn [norm_loop].
  repeat gstep; gsimp; try kfin;
    try (apply IHfuel; [eauto with good|congruence|measure]).
  eapply good_bind; [apply Hrec; lia|]. intros [t' ld'] H'; gsimp.
  apply IHfuel; [eauto with good|apply dec_depth_succ; assumption|measure].
Qed.

Lemma norm_attr_lvl_good lvl : forall d, d <= 10 -> (11 <= lvl + N.to_nat d)%nat ->
  forall ents v t ld, ld_depth ld = d ->
  good (fun p => ld_depth (snd p) = d) (norm_attr_lvl text lvl ents v t ld).
Proof.
  induction lvl; intros d Hd Hl ents v t ld Hld; [lia|].
  rewrite norm_attr_lvl_S. gb.
  apply norm_loop_good; [|assumption|assumption|apply fuel_enough; assumption].
  intros Hlt es v' t' ld' Hld'. apply IHlvl; [lia|lia|assumption].
Qed.

Lemma entity_levels_eq : entity_levels = 12%nat.
Proof. reflexivity. Qed.

Lemma normalize_attribute_good v c : depth c <= 10 ->
  good (fun p => kd c (snd p)) (normalize_attribute text v c).
Proof.
  intros Hd. unfold normalize_attribute. gstep; [|gauto].
  eapply good_bind; [apply (norm_attr_lvl_good entity_levels (depth c)); [assumption| |reflexivity]|].
  { rewrite entity_levels_eq. lia. }
  intros [t ld] H; gsimp. gauto.
Qed.

Lemma process_attribute_good r q e p l v c : depth c <= 10 ->
  good (kd c) (process_attribute text r q e p l v c).
Proof.
  intros Hd. unfold process_attribute.
  eapply good_bind; [apply normalize_attribute_good; assumption|].
  intros [v' c'] H; gsimp. gauto.
Qed.

End WithText.
