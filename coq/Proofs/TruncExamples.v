(* TruncExamples.v -- C08, truncation: every prefix of concrete accepted documents, by vm_compute. *)
From Coq Require Import Ascii String.
From Coq Require Import Lia ZifyBool ZifyN ZifyNat.
From RX.Model Require Import Base CharClass Stream Tokenizer Doc Builder Parse.
From RX.Proofs Require Import TruncMain.

Definition o : options := {| allow_dtd := true; nodes_limit := 1000 |}.
Definition is_ok {A} (r : res A) : bool := match r with Ok _ => true | _ => false end.
Definition is_err {A} (r : res A) : bool := match r with Err _ => true | _ => false end.

(* the prefixes shorter than the end of the root element that are still valid UTF-8 are all
   rejected with an error; the list of the accepted ones is empty *)
Definition check (text : bytes) : option (N * list nat) :=
  match parse text o with
  | Ok d =>
    let e := root_element_end d in
    Some (e, filter (fun n => valid_utf8_b (firstn n text) && negb (is_err (parse (firstn n text) o)))
                    (seq 0 (N.to_nat e)))
  | _ => None
  end.

Definition doc1 : bytes :=
  b "<?xml version=""1.0""?><!--c--><a x=""1>"" y='2'><b/>t&lt;<![CDATA[x]]><?pi d?><!--c--></a><!--z-->".

Example doc1_accepted : is_ok (parse doc1 o) = true.
Proof. vm_compute. reflexivity. Qed.

Example doc1_all_prefixes : check doc1 = Some (87, []).
Proof. vm_compute. reflexivity. Qed.

(* the theorem applies to doc1 (hypotheses by computation) *)
Example doc1_instance : forall n d, parse doc1 o = Ok d -> n < root_element_end d ->
  valid_utf8_b (firstn_N n doc1) = true -> exists e, parse (firstn_N n doc1) o = Err e.
Proof.
  intros n d Hd Hn Hv.
  eapply (truncation_rejected_partial doc1 o d n); [ | | | exact Hd | exact Hn | exact Hv ].
  - vm_compute. reflexivity.
  - apply N.leb_le. vm_compute. reflexivity.
  - vm_compute. reflexivity.
Qed.

(* a document with a multi-byte character: the cut inside the character is not a valid prefix,
   all valid ones are rejected *)
Definition doc2 : bytes := b "<a>" ++ [195; 169] ++ b "</a>".
Example doc2_all_prefixes : check doc2 = Some (9, []).
Proof. vm_compute. reflexivity. Qed.

(* with a DOCTYPE and entities (outside the partial theorem): the property still holds on
   this example *)
Example doc3_all_prefixes :
  check (b "<!DOCTYPE r [<!ENTITY a ""<x>y</x>"">]><r>&a;&a;</r> ") = Some (50, []).
Proof. vm_compute. reflexivity. Qed.
