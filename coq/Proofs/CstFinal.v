(* Proofs/CstFinal.v -- C03, the final check of [parse]: on an arena that encodes a tree, if some
   row is an element whose parent is the root, root().children().any(is_element) finds it. *)
From Coq Require Import List NArith Bool Lia ZifyBool ZifyN ZifyNat.
Import ListNotations.
From RX.Model Require Import Base Doc Builder.
From RX.Spec Require Import Tree.
From RX.Proofs Require Import Tactics NavEnc NavLinks NavIter.
Open Scope N_scope.

Lemma any_elem_seg d t p pp sp : Arena' d t -> In (p, pp, sp) (table t) ->
  forall l fuel, seg p sp l ->
  (forall n, In n l -> exists b, node_is_element d n = Ok b) ->
  (exists n, In n l /\ node_is_element d n = Ok true) ->
  (length l < fuel)%nat ->
  children_any_element fuel d (mk_it l) = Ok true.
Proof.
  intros HA Hp. induction l as [|a l IH]; intros fuel Hseg Hall Hex Hf.
  - destruct Hex as (n & [] & _).
  - destruct fuel as [|fu]; [cbn in Hf; lia|]. cbn [children_any_element].
    rewrite (children_next_spec d t p pp sp HA Hp (a :: l) Hseg). cbn [bind hd_error tl].
    destruct (Hall a (or_introl eq_refl)) as [b0 Eb]. rewrite Eb. cbn [bind].
    destruct b0; [reflexivity|].
    apply IH.
    + eapply seg_tl. exact Hseg.
    + intros n Hn. apply Hall. right. exact Hn.
    + destruct Hex as (n & [Hn|Hn] & En); [subst n; congruence|]. exists n. auto.
    + cbn [length] in Hf. lia.
Qed.

Lemma root_has_element d cs r nd :
  links_of_nodes (d_nodes d) = encode (T KdRoot cs) ->
  len_N (d_nodes d) <= 4294967295 ->
  nth_error (d_nodes d) (N.to_nat r) = Some nd ->
  nd_parent nd = Some 0 -> is_element_kind (nd_kind nd) = true ->
  exists it, children d 0 = Ok it /\
             children_any_element (S (length (d_nodes d))) d it = Ok true.
Proof.
  intros Hrows Hlen Hnd Hpar Hkind. set (t := T KdRoot cs) in *.
  assert (Hsz : len_N (d_nodes d) = size t).
  { unfold len_N. assert (E : length (d_nodes d) = length (encode t)).
    { rewrite <- Hrows. unfold links_of_nodes. rewrite map_length. reflexivity. }
    rewrite E, encode_length. lia. }
  assert (HA : Arena' d t) by (split; [exact Hrows|lia]).
  assert (Hp : In (0, None, t) (table t)) by (unfold table, t; cbn [nodes_of]; left; reflexivity).
  exists (mk_it (child_ids (0 + 1) (tchildren t))). split; [apply (children_spec d t 0 None t HA Hp)|].
  assert (Hroot' : In (0, None, None, t) (table' t)) by apply rows_head.
  (* the row r is a child of the root *)
  assert (Hr : r < size t).
  { rewrite <- Hsz. unfold len_N. assert (N.to_nat r < length (d_nodes d))%nat by (apply nth_error_Some; congruence). lia. }
  assert (Hin : In r (map (fun e => fst (fst e)) (table t))).
  { rewrite table_ids. apply N_range_In. lia. }
  apply in_map_iff in Hin. destruct Hin as ([[r' par] s] & Er & Hin). cbn [fst] in Er. subst r'.
  apply in_table_table'' in Hin. destruct Hin as [pv Hin].
  pose proof (encode_row _ _ _ _ _ Hin) as Hrow. rewrite <- Hrows in Hrow.
  unfold links_of_nodes in Hrow. rewrite nth_error_map, Hnd in Hrow. cbn [option_map link_of] in Hrow.
  injection Hrow as Ek Ep _ _ _. rewrite Hpar in Ep. subst par.
  destruct (table'_parent _ _ _ _ _ Hin) as (pp & ppv & k & l1 & l2 & Hpar' & Eid & _).
  pose proof (table'_unique _ _ _ Hpar' Hroot' eq_refl) as Eu. unfold t in Eu. injection Eu as _ _ _ Ecs.
  assert (HrL : In r (child_ids (0 + 1) (tchildren t))).
  { unfold t. cbn [tchildren]. rewrite <- Ecs, child_ids_app. apply in_or_app. right.
    cbn [child_ids]. left. lia. }
  assert (Hget : forall n, In n (child_ids (0 + 1) (tchildren t)) ->
                 exists nd', get_node d n = Some nd' /\ node_is_element d n = Ok (is_element_kind (nd_kind nd'))).
  { intros n Hn. apply child_ids_In in Hn. unfold t in Hn. cbn [tchildren] in Hn.
    assert (Hlt : n < len_N (d_nodes d)) by (rewrite Hsz; unfold t; rewrite size_T; lia).
    unfold node_is_element, node_data_of, get_node, nth_N.
    replace (len_N (d_nodes d) <=? n) with false by lia.
    destruct (nth_error (d_nodes d) (N.to_nat n)) as [nd'|] eqn:En.
    - exists nd'. split; reflexivity.
    - apply nth_error_None in En. unfold len_N in Hlt. lia. }
  apply (any_elem_seg d t 0 None t HA Hp).
  - apply seg_L.
  - intros n Hn. destruct (Hget n Hn) as (nd' & _ & E). eauto.
  - exists r. split; [exact HrL|]. destruct (Hget r HrL) as (nd' & G & E). rewrite E.
    unfold get_node, nth_N in G. replace (len_N (d_nodes d) <=? r) with false in G by lia.
    rewrite Hnd in G. injection G as <-. rewrite Hkind. reflexivity.
  - rewrite child_ids_length. unfold t. cbn [tchildren].
    pose proof (length_le_sizes cs). unfold len_N in Hsz. unfold t in Hsz. rewrite size_T in Hsz. lia.
Qed.

Print Assumptions root_has_element.
