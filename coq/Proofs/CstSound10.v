(* Proofs/CstSound10.v -- C08, soundness half, witness in stage S10 of Spec/CstFullS10.v: the fragment, the
   statement and the inclusion of [in_fragment_9].

   [in_fragment_10 text] is [in_fragment_9 text] (Proofs/CstSound9.v) with the character references to '&' and '<'
   admitted inside the literal of a general entity declaration (Spec/CstFullS10.v [charref_ok10]; known finding D29:
   the crate replaces the character references of an entity literal where the entity is USED, and the character is
   data):
     - P8 [amp_ok9] (every '&' inside the literal of a general entity declaration starts a character reference or
       "&name;" with an ASCII name) becomes [amp_ok10]: the condition on "&#...;" is [charref_val_ok10], which is
       [charref_val_ok] of Proofs/CstSoundP.v without the tests "the number is not 38" / "is not 60".  Any spelling of
       the numbers is admitted ("&#38;", "&#x26;", "&#038;", "&#60;", "&#x3C;", "&#x3c;" ...); the references to TAB,
       LF and CR stay outside.
   Nothing else changes.  A '<' that reaches an ATTRIBUTE value through an entity is refused by the crate however it is
   written (D15), so "&#60;" in a literal that is used in an attribute value is in the fragment but not accepted. *)
From Coq Require Import String.
From Coq Require Import List NArith Bool Lia.
Import ListNotations.
From RX Require Import Generated.
From RX.Model Require Import Base CharClass Stream Tokenizer Doc Builder Parse.
From RX.Spec Require Cst Chars CstU CstNs CstText CstEnt Scope.
From RX.Spec Require Import CstFull CstFullS5 CstFullS6 CstFullS7 CstFullS8 CstFullS9 CstFullS10.
From RX.Proofs Require Import CstSound CstSoundT CstSoundN CstSoundP CstSound6 CstSound7 CstSound8 CstSound9.
Open Scope N_scope.

(* P8: [l] is what follows "&#" *)
Definition charref_val_ok10 (l : bytes) : bool :=
  let '(hex, r) := match l with 120 :: r => (true, r) | _ => (false, l) end in
  let '(ds, r') := span (T.is_digit hex) r in
  match ds, r' with
  | _ :: _, 59 :: _ =>
    let c := T.ref_val hex ds in
    Chars.xml_Char c && negb ((c =? 9) || (c =? 10) || (c =? 13))
  | _, _ => false
  end.
Definition amp_ok10 (l : bytes) : bool :=
  match l with 38 :: 35 :: r => charref_val_ok10 r | 38 :: r => ref_name_ok9 r | _ => true end.

(* [v] is the literal, at [vs, vs + blen v) *)
Definition ge_value_ok10 (text : bytes) (vs : N) (v : bytes) : bool :=
  all_suffixes amp_ok10 v &&
  (if mem_b 60 v then markup_ok text vs (vs + blen v) else negb (contains_b [93; 93; 62] v)).
Definition lit_ok10 (text : bytes) (q0 : N) (l : bytes) : bool :=
  match l with
  | q :: v => if (q =? 39) || (q =? 34) then ge_value_ok10 text (q0 + 1) (take_until q v) else true
  | [] => true
  end.
Definition ge_decl_ok10 (text : bytes) (p : N) (s : bytes) : bool :=
  if prefix_b (b "<!ENTITY") s then
    let r := skip_ws (skipn 8 s) in
    if is_pe r then true
    else let l := skip_ws (drop_name r) in lit_ok10 text (p + blen s - blen l) l
  else true.
Definition ge_values_ok10 (text : bytes) : bool := scan_pos (ge_decl_ok10 text) 0 text.

Definition in_fragment_10 (text : bytes) : bool :=
  valid_utf8_b text && negb (mem_b 13 text) && charrefs_scalar text &&
  no_colon_start text &&
  xml_pi_ok text && decl_names_ok text && names_nc9 text && ndata_sp text && ge_values_ok10 text.

Definition parse_sound_fragment_10_stmt : Prop :=
  forall text opt d, in_fragment_10 text = true -> allow_dtd opt = true -> parse text opt = Ok d ->
  exists c : S6.doc, S10.wf_doc c = true /\ S10.render c = text.

Lemma charref_val_ok_10 l : charref_val_ok l = true -> charref_val_ok10 l = true.
Proof.
  unfold charref_val_ok, charref_val_ok10.
  destruct (match l with 120 :: r => (true, r) | _ => (false, l) end) as [hex r].
  destruct (span (T.is_digit hex) r) as [ds r']. destruct ds as [|d0 ds]; [intros H; exact H|].
  destruct r' as [|z r'']; [intros H; exact H|]. destruct (N.eq_dec z 59) as [->|Hz].
  - cbv zeta. intros H. apply andb_true_iff in H. destruct H as [H1 H2]. rewrite H1. cbn [andb].
    apply negb_true_iff in H2. apply negb_true_iff. repeat (apply orb_false_iff in H2; destruct H2 as [H2 ?]).
    rewrite H2. cbn [orb]. match goal with X : (_ =? 10) = false |- _ => rewrite X end. cbn [orb]. assumption.
  - intros H. exfalso. destruct z as [|pp]; [discriminate|]. do 6 (destruct pp as [pp|pp|]; try discriminate). congruence.
Qed.

Lemma amp_ok_10 l : amp_ok9 l = true -> amp_ok10 l = true.
Proof.
  destruct l as [|x r]; [reflexivity|]. destruct (N.eq_dec x 38) as [->|Hx].
  - destruct r as [|y r]; [intros H; exact H|].
    destruct (N.eq_dec y 35) as [->|Hy]; [cbn [amp_ok9 amp_ok10]; apply charref_val_ok_10|].
    assert (E9 : amp_ok9 (38 :: y :: r) = ref_name_ok9 (y :: r)).
    { cbn [amp_ok9]. destruct y as [|pp]; [reflexivity|]. do 6 (destruct pp as [pp|pp|]; try reflexivity). congruence. }
    assert (E10 : amp_ok10 (38 :: y :: r) = ref_name_ok9 (y :: r)).
    { cbn [amp_ok10]. destruct y as [|pp]; [reflexivity|]. do 6 (destruct pp as [pp|pp|]; try reflexivity). congruence. }
    rewrite E9, E10. intros H; exact H.
  - assert (E10 : amp_ok10 (x :: r) = true).
    { cbn [amp_ok10]. destruct x as [|pp]; [reflexivity|]. do 6 (destruct pp as [pp|pp|]; try reflexivity). congruence. }
    intros _. exact E10.
Qed.

Lemma ge_values_ok_10 text : ge_values_ok9 text = true -> ge_values_ok10 text = true.
Proof.
  unfold ge_values_ok9, ge_values_ok10. apply scan_pos_impl. intros p l. unfold ge_decl_ok9, ge_decl_ok10.
  destruct (prefix_b (b "<!ENTITY") l); [|reflexivity]. cbv zeta. destruct (is_pe _); [reflexivity|].
  unfold lit_ok9, lit_ok10. destruct (skip_ws _) as [|q v]; [reflexivity|]. destruct ((q =? 39) || (q =? 34)); [|reflexivity].
  unfold ge_value_ok9, ge_value_ok10. intros H. apply andb_true_iff in H. destruct H as [H2 H3].
  rewrite H3, (all_suffixes_impl _ _ amp_ok_10 _ H2). reflexivity.
Qed.

Lemma in_fragment_9_10 text : in_fragment_9 text = true -> in_fragment_10 text = true.
Proof.
  unfold in_fragment_9, in_fragment_10. intros H.
  rewrite !andb_true_iff in H. destruct H as [[[[[[[[H0 H1] H2] H3] H5] H6] H7] H8] H9].
  rewrite H0, H1, H2, H3, H5, H6, H7, H8, (ge_values_ok_10 _ H9). reflexivity.
Qed.
