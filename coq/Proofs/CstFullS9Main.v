(* Proofs/CstFullS9Main.v -- the capstone fragment, stage S9 (Spec/CstFullS9.v): the statement of Proofs/CstFullS8Main.v for
   the wider conditions of Spec/CstFullS9.v -- the names of general entities, in declarations and in references, are
   Names with colons ([parse_render_sem_full_s9], and through the public API [parse_render_sem_full_s9_api]); stage
   S8 embeds, with the same documents, rendering and meaning ([s8_in_s9]).  An adapted copy of
   Proofs/CstFullS7Main.v. *)
From Coq Require Import Ascii String.
From Coq Require Import List NArith PeanoNat Bool Lia ZifyBool ZifyN ZifyNat.
Import ListNotations.
From RX Require Import Generated.
From RX.Model Require Import Base CharClass Stream Tokenizer Doc Builder Parse.
From RX.Spec Require Cst CstText CstEnt Detector Scope CstU CstNs Chars.
From RX.Spec Require Import CstFullS5.
From RX.Spec Require Import Text CstFull CstFullS4.
From RX.Spec Require Import CstFullS6 CstFullS7 CstFullS8 CstFullS9.
From RX.Proofs Require Import Tactics CstLex CstBuild CstNsLex CstNsView CstNsBuild CstULex.
From RX.Proofs Require Import CstFullLex CstFullBuild CstFullTree CstFullDoc.
From RX.Proofs Require Import CstFullS4Sem.
From RX.Proofs Require Import CstFullS5Ws CstFullS5Doc.
From RX.Proofs Require Import CstFullS9Text CstFullS9Items CstFullS7Misc CstFullS9Dtd CstFullS9Doc.
From RX.Proofs Require CstNsItems CstNsDoc CstNsMain CstFullMain CstFullS3 CstFullS4Main CstFullS5 OptionsMain CstFullS7Lex CstFullS7Main CstFullS7Text.
From RX.Proofs Require ApiView ApiViewProofs.
Open Scope N_scope.

Notation finish_g := CstFullS3.finish_g.
Notation init_ctx := CstNsMain.init_ctx.
Notation vattrs := CstFullS4Main.vattrs.

Notation flat_sem := CstFullS7Main.flat_sem.
Notation bdens_flat := CstFullS7Main.bdens_flat.
Notation misc_nattrs := CstFullS7Main.misc_nattrs.

Section Sem9.
Variable d : S9.doc.
Hypothesis Hwf : S9.wf_doc d = true.
Notation main := (S6.x_main d).

Lemma prolog_misc9 : forallb (is_misc epieces) (S6.prolog_items d) = true.
Proof.
  destruct (s9_parts d Hwf) as [_ Hg _ _ _ _ _ _ _]. unfold S6.prolog_items. destruct (S6.x_dtd d) as [g|]; [|reflexivity].
  cbn [wf_opt] in Hg. destruct (dtd_part_parts9 g Hg) as (H0 & Hb & Ht). rewrite forallb_app, (subset_misc9_misc _ Ht), andb_true_r.
  clear - Hb. induction (S6.g_before g) as [|[i w] r IH]; [reflexivity|]. cbn [forallb fst snd map] in *.
  rewrite !andb_true_iff in Hb. destruct Hb as [[Hi _] Hr]. rewrite (misc7_is _ Hi), (IH Hr). reflexivity.
Qed.

Lemma sem_all9 root' tr : S4.inline (S6.core d) = Some (cI d root', tr) -> S6.sem d = NT.sem_items [] (L9 d root').
Proof.
  intros Hi. destruct (s9_parts d Hwf) as [_ _ _ _ H3 _ _ H6 _].
  unfold S6.sem, S4.sem. rewrite Hi. cbn [S4.x_before S6.core map flat_map app].
  unfold L9, CstFull.sem, doc_items. cbn [cI d_before d_root d_after].
  rewrite !flat_sem, !bdens_flat, <- CstNsDoc.sem_items_app. f_equal.
  rewrite (dens_misc _ prolog_misc9). f_equal.
  rewrite (bdens_app _ (_ :: _)). cbn [CstFullTree.dens]. f_equal; [|f_equal].
  - unfold B1. rewrite (regroup_items epieces). etransitivity; [|symmetry; apply dens_misc; apply (CstFullS7Main.before_misc _ H3)].
    rewrite !map_map. reflexivity.
  - etransitivity; [|symmetry; apply dens_misc; apply (pairs_misc _ H6)]. rewrite !map_map. reflexivity.
Qed.

End Sem9.

(* ------------------------------------------------------------------------------------------ *)
(* the theorems                                                                               *)
(* ------------------------------------------------------------------------------------------ *)
Theorem parse_render_sem_full_s9 : forall (d : S9.doc) (opt : options),
  S9.wf_doc d = true ->
  (S9.has_dtd d = true -> allow_dtd opt = true) ->                (* a DOCTYPE needs the option *)
  N.of_nat (length (S9.sem d)) < nodes_limit opt ->               (* room for all nodes + the Root *)
  N.of_nat (length (S9.sem d)) < u32_max ->                        (* of the MEANING: entities add nodes *)
  N.of_nat (S9.nattrs d) < u32_max ->                              (* the attribute rows of the meaning *)
  S9.distinct_decls_le d (N.to_nat 65535) ->                       (* at most 65535 distinct declared bindings *)
  1 + N.of_nat (S9.ns_cost d) <= u32_max ->                        (* the namespace table fits *)
  exists doc, parse (S9.render d) opt = Ok doc /\ view (S9.render d) doc = Some (S9.sem d).
Proof.
  intros d opt Hwf Hdtd Hlim Hmax Hattr Hdist Hcost. unfold S9.render, S9.sem, S9.has_dtd, S9.distinct_decls_le, S9.ns_cost, S9.nattrs in *. set (text := S6.render d).
  destruct (s9_parts d Hwf) as [_ _ H1 _ H3 (name & ens & ws & body & Er) H5 H6 (root' & tr & Hroot & Hinl & Hl & Hp & Hns)].
  pose proof (sem_all9 d Hwf root' tr Hinl) as Esem.
  unfold S6.distinct_decls_le, S4.distinct_decls_le in Hdist. rewrite Hinl in Hdist.
  unfold S6.ns_cost, S4.ns_cost in Hcost. rewrite Hinl in Hcost.
  unfold CstFull.distinct_decls_le, doc_decls in Hdist. unfold CstFull.ns_cost in Hcost. cbn [d_root cI] in Hdist, Hcost.
  set (D := flat_map CstNs.item_decls (bden root')) in *.
  assert (HD : forall l, NoDup l -> incl l D -> N.of_nat (length l) <= 65535).
  { intros l N1 N2. pose proof (Hdist l N1 N2). lia. }
  assert (Hsz : NT.nsizes (L9 d root') = N.of_nat (length (S6.sem d))).
  { rewrite Esem, CstFullMain.sem_items_len. reflexivity. }
  assert (Hat : NT.nattrs_items (bden root') = S6.nattrs d).
  { unfold S6.nattrs. fold (vattrs (S6.sem d)). rewrite Esem, CstFullS4Main.vattrs_sems. unfold L9.
    destruct (regroup_wf7 _ _ H1 H3) as [Q1 _].
    destruct (pairs_dens7 _ Q1) as (X1 & _). destruct (pairs_dens7 _ H6) as (X2 & _).
    pose proof (misc_nattrs _ (prolog_misc9 d Hwf)) as X0.
    assert (G : forall x y z w : nat, x = 0%nat -> y = 0%nat -> w = 0%nat -> (x + (y + (z + w)) = z)%nat) by (intros; lia).
    rewrite !nattrs_items_app. symmetry. apply G; [exact X0|exact X1|exact X2]. }
  rewrite ns_oks_forallb in Hns.
  destruct (parse_document_ok_9 d Hwf D HD (allow_dtd opt) root' tr (init_ctx text opt) Hdtd Hroot Hl Hp Hns)
    as (cf & K & E & Habs & Hpp & F).
  { unfold D. rewrite items_decls_flat. apply incl_refl. }
  { apply (CstNsMain.init_ctx_CIn text D opt). }
  { reflexivity. } { reflexivity. } { reflexivity. }
  { unfold CstNsItems.node_room. cbn [CstNsMain.init_ctx c_doc c_opt d_nodes]. rewrite Hsz. unfold len_N. cbn [length]. lia. }
  { unfold CstNsItems.attr_room. cbn [CstNsMain.init_ctx c_doc d_attrs]. rewrite Hat. unfold len_N. cbn [length]. lia. }
  { unfold CstNsItems.ns_room. cbn [CstNsMain.init_ctx c_doc d_ns_tree]. unfold len_N. cbn [length]. rewrite ns_costs_sum. lia. }
  cbn [c_parent_id CstNsMain.init_ctx c_doc d_nodes] in F. change (len_N [_]) with 1 in F.
  destruct (finish_g text opt cf K (L9 d root') E Habs Hpp F) as (doc & P & V).
  { assert (Er' : exists ens' body', root' = @IElem bpieces name ens' ws body').
    { rewrite Er, inline_item_elem in Hroot. destruct (inline_entries (level (S6.decls d) E.max_level) false ens) as [[a' ta]|]; [|discriminate].
      cbn [E.obind fst] in Hroot. destruct body as [[cs0 w2]|].
      - destruct (inline_items (level (S6.decls d) E.max_level) false cs0) as [[b0 tb0]|]; [|discriminate]. cbn [E.obind] in Hroot. injection Hroot as <- _. eauto.
      - injection Hroot as <- _. eauto. }
    destruct Er' as (ens' & body' & ->). unfold L9. rewrite den_elem. cbn [app]. rewrite !app_assoc. eauto 10. }
  { rewrite Hsz. exact Hmax. }
  exists doc. split; [exact P|]. rewrite V, Esem. reflexivity.
Qed.
Print Assumptions parse_render_sem_full_s9.

(* documents with the same meaning -- however the content is distributed over entities (character data or markup),
   literal text, CDATA sections and references, whatever the prolog and whatever the layout -- have the same view *)
Theorem hoist_prolog_insensitive_full_s9 : forall (d1 d2 : S9.doc) opt,
  S9.wf_doc d1 = true -> S9.wf_doc d2 = true -> allow_dtd opt = true -> S9.sem d1 = S9.sem d2 ->
  N.of_nat (length (S9.sem d1)) < nodes_limit opt -> N.of_nat (length (S9.sem d1)) < u32_max ->
  N.of_nat (S9.nattrs d1) < u32_max ->
  S9.distinct_decls_le d1 (N.to_nat 65535) -> S9.distinct_decls_le d2 (N.to_nat 65535) ->
  1 + N.of_nat (S9.ns_cost d1) <= u32_max -> 1 + N.of_nat (S9.ns_cost d2) <= u32_max ->
  exists x1 x2, parse (S9.render d1) opt = Ok x1 /\ parse (S9.render d2) opt = Ok x2 /\
                view (S9.render d1) x1 = view (S9.render d2) x2.
Proof.
  intros d1 d2 opt W1 W2 Hdtd E L Mx At D1 D2 C1 C2.
  pose proof (parse_render_sem_full_s9 d1 opt W1 (fun _ => Hdtd)) as T1. pose proof (parse_render_sem_full_s9 d2 opt W2 (fun _ => Hdtd)) as T2.
  unfold S9.render, S9.sem, S9.has_dtd, S9.distinct_decls_le, S9.ns_cost, S9.nattrs in *.
  assert (At2 : S6.nattrs d2 = S6.nattrs d1) by (unfold S6.nattrs; rewrite E; reflexivity).
  destruct (T1 L Mx At D1 C1) as (x1 & P1 & V1).
  destruct (T2 ltac:(rewrite <- E; exact L) ltac:(rewrite <- E; exact Mx) ltac:(rewrite At2; exact At) D2 C2)
    as (x2 & P2 & V2).
  exists x1, x2. split; [exact P1|]. split; [exact P2|]. rewrite V1, V2, E. reflexivity.
Qed.
Print Assumptions hoist_prolog_insensitive_full_s9.

Theorem render_valid_utf8_s9 : forall d : S9.doc, S9.wf_doc d = true -> valid_utf8_b (S9.render d) = true.
Proof. intros d H. unfold S9.render. apply U8.valid_iff_Valid. apply text_valid9. exact H. Qed.
Print Assumptions render_valid_utf8_s9.


(* ------------------------------------------------------------------------------------------ *)
(* through the public API (Proofs/ApiView.v)                                                  *)
(* ------------------------------------------------------------------------------------------ *)
Theorem parse_render_sem_full_s9_api : forall (d : S9.doc) (opt : options),
  S9.wf_doc d = true ->
  (S9.has_dtd d = true -> allow_dtd opt = true) ->
  nodes_limit opt <= u32_max ->                                    (* a u32 *)
  N.of_nat (length (S9.sem d)) < nodes_limit opt ->
  N.of_nat (length (S9.sem d)) < u32_max ->
  N.of_nat (S9.nattrs d) < u32_max ->
  S9.distinct_decls_le d (N.to_nat 65535) ->
  1 + N.of_nat (S9.ns_cost d) <= u32_max ->
  exists doc, parse (S9.render d) opt = Ok doc /\ ApiView.api_view (S9.render d) doc = Some (S9.sem d).
Proof.
  intros d opt Hwf Hdtd Hu Hlim Hmax Hattr Hdist Hcost.
  destruct (parse_render_sem_full_s9 d opt Hwf Hdtd Hlim Hmax Hattr Hdist Hcost) as (doc & P & V).
  exists doc. split; [exact P|].
  rewrite (ApiViewProofs.api_view_agrees (S9.render d) opt doc (render_valid_utf8_s9 d Hwf) Hu P). exact V.
Qed.
Print Assumptions parse_render_sem_full_s9_api.

Theorem hoist_prolog_insensitive_full_s9_api : forall (d1 d2 : S9.doc) opt,
  S9.wf_doc d1 = true -> S9.wf_doc d2 = true -> allow_dtd opt = true -> nodes_limit opt <= u32_max -> S9.sem d1 = S9.sem d2 ->
  N.of_nat (length (S9.sem d1)) < nodes_limit opt -> N.of_nat (length (S9.sem d1)) < u32_max ->
  N.of_nat (S9.nattrs d1) < u32_max ->
  S9.distinct_decls_le d1 (N.to_nat 65535) -> S9.distinct_decls_le d2 (N.to_nat 65535) ->
  1 + N.of_nat (S9.ns_cost d1) <= u32_max -> 1 + N.of_nat (S9.ns_cost d2) <= u32_max ->
  exists x1 x2, parse (S9.render d1) opt = Ok x1 /\ parse (S9.render d2) opt = Ok x2 /\
                ApiView.api_view (S9.render d1) x1 = ApiView.api_view (S9.render d2) x2.
Proof.
  intros d1 d2 opt W1 W2 Hdtd Hu E L Mx At D1 D2 C1 C2.
  assert (At2 : S9.nattrs d2 = S9.nattrs d1) by (unfold S9.nattrs, S6.nattrs; change (S6.sem d2) with (S9.sem d2); rewrite <- E; reflexivity).
  destruct (parse_render_sem_full_s9_api d1 opt W1 (fun _ => Hdtd) Hu L Mx At D1 C1) as (x1 & P1 & V1).
  destruct (parse_render_sem_full_s9_api d2 opt W2 (fun _ => Hdtd) Hu ltac:(rewrite <- E; exact L) ltac:(rewrite <- E; exact Mx) ltac:(rewrite At2; exact At) D2 C2)
    as (x2 & P2 & V2).
  exists x1, x2. split; [exact P1|]. split; [exact P2|]. rewrite V1, V2, E. reflexivity.
Qed.
Print Assumptions hoist_prolog_insensitive_full_s9_api.

(* ------------------------------------------------------------------------------------------ *)
(* S8 inside S9                                                                               *)
(* ------------------------------------------------------------------------------------------ *)
Lemma uepiece_9 q cd ch iv p : wf_uepiece q cd ch iv p = true -> wf_uepiece9 q cd ch iv p = true.
Proof.
  destruct p as [[cs|hex ds|e|cs]|n]; cbn [wf_uepiece wf_uepiece9]; try (intros H; exact H).
  rewrite !andb_true_iff. intros [H1 H2]. split; [apply CstFullS7Lex.name_7; exact H1|exact H2].
Qed.

Lemma uepieces_9 q cd ch iv ps : wf_uepieces q cd ch iv ps = true -> wf_uepieces9 q cd ch iv ps = true.
Proof.
  unfold wf_uepieces, wf_uepieces9. rewrite !andb_true_iff. intros [H1 H2]. split; [|exact H2].
  revert H1. apply CstLex.forallb_imp. intros p. apply uepiece_9.
Qed.

Lemma uentry_9 m e : wf_uentry_s m e = true -> wf_uentry9 m e = true.
Proof.
  unfold wf_uentry_s, wf_uentry9. rewrite !andb_true_iff. intros [[H1 H2] H3]. repeat split; try assumption. apply uepieces_9. exact H2.
Qed.

Lemma uentries_9 m a : forallb (wf_uentry_s m) a = true -> forallb (wf_uentry9 m) a = true.
Proof. apply CstLex.forallb_imp. intros e. apply uentry_9. Qed.

Lemma uitem_9 m : forall i, wf_uitem7 m i = true -> wf_uitem9 m i = true.
Proof.
  intros i. induction i as [n a w|n a w cs w2 IH|r|bs|t s v] using fitem_ind; intros H.
  - cbn [wf_uitem7 wf_uitem9] in *. rewrite !andb_true_iff in H |- *. destruct H as [[[Hn Ha] Hw] _].
    repeat split; try assumption. apply uentries_9. exact Ha.
  - rewrite CstFullS7Text.wf_uitem_elem in H. rewrite wf_uitem_elem. rewrite !andb_true_iff in H |- *. destruct H as [[[Hn Ha] Hw] [[Hw2 Hna] Hcs]].
    repeat split; try assumption; [apply uentries_9; exact Ha|].
    clear - IH Hcs. induction IH as [|c r Hc _ IHr]; [reflexivity|]. cbn [CstFullS7Text.wf_uitems wf_uitems] in *.
    apply andb_true_iff in Hcs. destruct Hcs as [H1 H2]. rewrite (Hc H1), (IHr H2). reflexivity.
  - cbn [wf_uitem7 wf_uitem9] in *. rewrite !andb_true_iff in H |- *. destruct H as [H1 H2]. split; [exact H1|apply uepieces_9; exact H2].
  - exact H.
  - exact H.
Qed.

Lemma xdecl_9 e : wf_xdecl8 e = true -> wf_xdecl9 e = true.
Proof.
  unfold wf_xdecl8, wf_xdecl9, wf_xvalue8, wf_xvalue9. rewrite !andb_true_iff. intros [[[[[[H0 H1] Hn] H2] Hq] [Hv1 Hv2]] H3].
  repeat split; try assumption; [apply CstFullS7Lex.name_7; exact Hn|].
  destruct (x_value e) as [ps|its]; [apply uepieces_9; exact Hv2|]. apply andb_true_iff in Hv2. destruct Hv2 as [A B0]. rewrite B0, andb_true_r.
  revert A. apply CstLex.forallb_imp. intros i. apply uitem_9.
Qed.

Lemma sdecl_9 s : wf_sdecl8 s = true -> wf_sdecl9 s = true.
Proof. destruct s as [e|s]; cbn [wf_sdecl8 wf_sdecl9]; [apply xdecl_9|intros H; exact H]. Qed.

Lemma doctype_9 t : wf_doctype8 t = true -> wf_doctype9 t = true.
Proof.
  unfold wf_doctype8, wf_doctype9. rewrite !andb_true_iff. intros [[[[H1 H2] H3] H4] H5].
  repeat split; try assumption.
  destruct (z_subset t) as [u|]; [|reflexivity]. cbn [wf_opt] in *. unfold wf_subset8, wf_subset9 in *. rewrite !andb_true_iff in *.
  destruct H5 as [[A B0] C0]. repeat split; try assumption. revert A. apply CstLex.forallb_imp. exact sdecl_9.
Qed.

(* the documents of stage S8 are documents of stage S9: the same document, so the same rendering and the same meaning *)
Theorem s8_in_s9 : forall d : S8.doc, S8.wf_doc d = true ->
  S9.wf_doc d = true /\ S9.render d = S8.render d /\ S9.sem d = S8.sem d /\ S9.has_dtd d = S8.has_dtd d.
Proof.
  intros d Hwf. split; [|repeat split; reflexivity].
  unfold S8.wf_doc in Hwf. unfold S9.wf_doc. rewrite !andb_true_iff in Hwf |- *.
  destruct Hwf as [[[[[[[H1 H2] H3] H4] H5] H6] H7] H8]. repeat split; try assumption.
  - destruct (S6.x_dtd d) as [g|]; [|reflexivity]. cbn [wf_opt] in *. unfold S8.wf_dtd_part, S9.wf_dtd_part in *.
    rewrite !andb_true_iff in *. destruct H2 as [[A B0] C0]. repeat split; [exact A|exact B0|apply doctype_9; exact C0].
  - destruct (d_root (S6.x_main d)); try discriminate. apply uitem_9. exact H6.
Qed.
Print Assumptions s8_in_s9.
