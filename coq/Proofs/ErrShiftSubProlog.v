(* Proofs/ErrShiftSubProlog.v -- C14 (inside the internal subset), part 7: the general entities
   recorded before a head of the loop of the internal subset.  Every recorded entity has its name
   below the position q of the head and its value at least 2 bytes below q (the value is followed
   by its quote and by ">"); the floor of the loop detector is still 0. *)
From Coq Require Import Ascii String.
From Coq Require Import List Arith NArith Bool Lia ZifyBool ZifyN ZifyNat.
Import ListNotations.
From RX Require Import Generated.
From RX.Model Require Import Base CharClass Stream Tokenizer Doc Builder Parse.
From RX.Proofs Require Import Tactics OptionsParam BudgetStream BudgetTok RangeShiftTokenizer
  ErrShiftMidCont ErrShiftDtdCont ErrShiftEntProlog ErrShiftSubCont.
Open Scope N_scope.

Section P.
Variable T : bytes.
Notation tk := (Parse.token T).
Notation wfl := (wfl T).
Notation evP := (evP T).
Notation Inv2 := (Inv 2).

Lemma dtd_steps_evP : forall n s c, dtd_steps T context evP n s c = dtd_steps T context tk n s c.
Proof.
  induction n as [|n IH]; intros s c; [reflexivity|]. cbn [dtd_steps].
  destruct (at_end s); [reflexivity|]. cbv zeta.
  destruct (starts_with _ (b "<!ENTITY")).
  { rewrite parse_entity_decl_evP. destruct (parse_entity_decl T context tk _ c) as [[s1 c1]| | |]; [apply IH|reflexivity..]. }
  destruct (starts_with _ (b "<!--")).
  { rewrite parse_comment_evP. destruct (parse_comment T context tk _ c) as [[s1 c1]| | |]; [apply IH|reflexivity..]. }
  destruct (starts_with _ (b "<?")).
  { rewrite parse_pi_evP. destruct (parse_pi T context tk _ c) as [[s1 c1]| | |]; [apply IH|reflexivity..]. }
  destruct (starts_with _ (b "]")); [reflexivity|].
  destruct (_ || _); [|reflexivity].
  destruct (consume_decl T _) as [s1| | |]; [apply IH|reflexivity..].
Qed.

Lemma ep_dtd_steps : forall n s c s' c', dtd_steps T context evP n s c = Some (s', c') ->
  wfl s -> EI 2 (s_pos s) c -> wfl s' /\ s_end s' = s_end s /\ s_pos s <= s_pos s' /\ EI 2 (s_pos s') c'.
Proof.
  induction n as [|n IH]; intros s c s' c' H W HI; cbn [dtd_steps] in H.
  { injection H as <- <-. split; [exact W|split; [reflexivity|split; [lia|exact HI]]]. }
  destruct (at_end s); [discriminate|]. cbv zeta in H.
  pose proof (mv_skip_spaces T s W) as (W0 & E0 & P0). set (s0 := skip_spaces s) in *.
  assert (HI0 : EI 2 (s_pos s0) c) by (eapply EI_mono; [| |exact HI]; lia).
  assert (Hrec : forall s1 c1, wfl s1 -> s_end s1 = s_end s0 -> s_pos s0 <= s_pos s1 -> EI 2 (s_pos s1) c1 ->
            dtd_steps T context evP n s1 c1 = Some (s', c') ->
            wfl s' /\ s_end s' = s_end s /\ s_pos s <= s_pos s' /\ EI 2 (s_pos s') c').
  { intros s1 c1 W1 E1 P1 HI1 Hl. destruct (IH _ _ _ _ Hl W1 HI1) as (A & B0 & C0 & D).
    split; [exact A|split; [lia|split; [lia|exact D]]]. }
  destruct (starts_with s0 (b "<!ENTITY")).
  { destruct (parse_entity_decl T context evP s0 c) as [[s1 c1]| | |] eqn:H1; try discriminate. cbn [fst snd] in H.
    destruct (ep_parse_entity_decl T _ _ _ _ H1 W0 HI0) as [(A & B0 & C0) D]. apply (Hrec s1 c1); try assumption; lia. }
  destruct (starts_with s0 (b "<!--")).
  { destruct (parse_comment T context evP s0 c) as [[s1 c1]| | |] eqn:H1; try discriminate. cbn [fst snd] in H.
    destruct (tp_parse_comment T context evP Inv2 (Inv_mono 2) (Hev_r T 2) (Hev_0 T 2) _ _ _ _ H1 W0 HI0) as [(A & B0 & C0) D].
    apply (Hrec s1 c1); try assumption; lia. }
  destruct (starts_with s0 (b "<?")).
  { destruct (parse_pi T context evP s0 c) as [[s1 c1]| | |] eqn:H1; try discriminate. cbn [fst snd] in H.
    destruct (tp_parse_pi T context evP Inv2 (Inv_mono 2) (Hev_r T 2) (Hev_0 T 2) _ _ _ _ H1 W0 HI0) as [(A & B0 & C0) D].
    apply (Hrec s1 c1); try assumption; lia. }
  destruct (starts_with s0 (b "]")); [discriminate|].
  destruct (_ || _); [|discriminate].
  destruct (consume_decl T s0) as [s1| | |] eqn:Ed; try discriminate.
  apply (mv_consume_decl T) in Ed; [|exact W0]. destruct Ed as (W1 & E1 & P1).
  apply (Hrec s1 c); try assumption; [lia|]. eapply EI_mono; [| |exact HI0]; lia.
Qed.

Lemma ep_sub_open s3 start s4 : sub_open T s3 = Some (start, s4) -> wfl s3 ->
  start = s_pos s3 /\ wfl s4 /\ s_end s4 = s_end s3 /\ s_pos s3 <= s_pos s4.
Proof.
  unfold sub_open. intros H W.
  destruct (parse_doctype_start T s3) as [s1| | |] eqn:H1; try discriminate. cbv zeta in H.
  apply (mv_parse_doctype_start T) in H1; [|exact W]. destruct H1 as (W1 & E1 & P1).
  pose proof (mv_skip_spaces T s1 W1) as (W2 & E2 & P2).
  destruct (match curr_byte_opt (skip_spaces s1) with Some x => x =? 62 | None => false end); [discriminate|].
  destruct (advance 1 (skip_spaces s1)) as [s5| | |] eqn:H5; try discriminate. injection H as <- <-.
  apply (mv_advance T) in H5; [|exact W2]. destruct H5 as (W5 & E5 & P5).
  split; [reflexivity|]. split; [exact W5|]. split; lia.
Qed.

Theorem sub_entities opt n start sQ cQ : subset_state T opt n = Some (start, sQ, cQ) -> EI 2 (s_pos sQ) cQ.
Proof.
  unfold subset_state. intros H.
  destruct (init_context T opt) as [ci| | |] eqn:Ei; try discriminate.
  destruct (doc_start T) as [s2| | |] eqn:Es; try discriminate.
  destruct (parse_misc T context tk s2 ci) as [[s3 c3]| | |] eqn:Hm; try discriminate.
  cbv zeta in H. cbn [fst snd] in H.
  destruct (starts_with (skip_spaces s3) (b "<!DOCTYPE") && allow_dtd opt); [|discriminate].
  destruct (sub_open T (skip_spaces s3)) as [[st s4]|] eqn:Hop; [|discriminate].
  destruct (dtd_steps T context tk n s4 c3) as [[sQ' cQ']|] eqn:Hst; [|discriminate]. injection H as <- <- <-.
  destruct (doc_start_wfl T s2 Es) as [W2 E2].
  assert (HI0 : EI 2 (s_pos s2) ci).
  { unfold init_context, push_ns in Ei. cbn in Ei. injection Ei as <-. split; [constructor|reflexivity]. }
  unfold parse_misc in Hm. rewrite <- parse_misc_loop_evP in Hm.
  apply (tp_parse_misc_loop T context evP Inv2 (Inv_mono 2) (Hev_r T 2) (Hev_0 T 2)) in Hm; [|exact W2|exact HI0].
  destruct Hm as [(W3 & E3 & P3) HI3].
  pose proof (mv_skip_spaces T s3 W3) as (W3' & E3' & P3').
  destruct (ep_sub_open _ _ _ Hop W3') as (_ & W4 & E4 & P4).
  rewrite <- dtd_steps_evP in Hst.
  destruct (ep_dtd_steps _ _ _ _ _ Hst W4) as (_ & _ & _ & G); [|exact G].
  eapply EI_mono; [| |exact HI3]; lia.
Qed.

End P.

Print Assumptions sub_entities.
