(* Proofs/CstEntLex.v -- C07: the start-tag lexer of Proofs/CstTextLex.v for attributes whose
   value is given as raw bytes (so that values with general entity references are covered). *)
From Coq Require Import Ascii String.
From Coq Require Import List NArith PeanoNat Bool Lia ZifyBool ZifyN ZifyNat.
Import ListNotations.
From RX Require Import Generated.
From RX.Model Require Import Base CharClass Stream Tokenizer Doc Builder Parse.
From RX.Spec Require Cst CstText.
From RX.Spec Require Import Text.
From RX.Proofs Require Import CstLex TextMachine CstTextLex.
Open Scope N_scope.

Section Raw.
Variable text : bytes.
Hypothesis Hascii : Forall (fun x => x < 128) text.
Notation W := (CstLex.W text).
Variable C : Type.
Variable ev : Tokenizer.token -> C -> res C.
Notation st := (CstLex.st text).

Record rattr := { ra_ws : bytes; ra_name : bytes; ra_ws1 : bytes; ra_ws2 : bytes; ra_quote : N; ra_value : bytes }.
Definition r_rattr (a : rattr) : bytes :=
  ra_ws a ++ ra_name a ++ ra_ws1 a ++ [61] ++ ra_ws2 a ++ [ra_quote a] ++ ra_value a ++ [ra_quote a].
Definition wf_rattr (a : rattr) : Prop :=
  ra_ws a <> [] /\ Cst.wf_ws (ra_ws a) = true /\ Cst.wf_name (ra_name a) = true /\
  Cst.wf_ws (ra_ws1 a) = true /\ Cst.wf_ws (ra_ws2 a) = true /\
  (ra_quote a = 39 \/ ra_quote a = 34) /\ forallb (vbyte (ra_quote a)) (ra_value a) = true.
Definition vlen (a : rattr) : N := blen (ra_value a).

Definition rattr_tok (q : N) (a : rattr) : Tokenizer.token :=
  let start := q + blen (ra_ws a) in
  let ne := start + blen (ra_name a) in
  let eqe := ne + blen (ra_ws1 a) + 1 + blen (ra_ws2 a) in
  let vs := eqe + 1 in
  let ve := vs + vlen a in
  TAttribute (start, ve + 1) (N.min (ne - start) qname_len_sat) (N.min (eqe - ne) eq_len_sat)
             (sl start start) (sl start ne) (sl vs ve).

Fixpoint rattr_toks (q : N) (attrs : list rattr) : list Tokenizer.token :=
  match attrs with
  | [] => []
  | a :: r => rattr_tok q a :: rattr_toks (q + blen (r_rattr a)) r
  end.

Lemma lex_rattr_iter fuel ts q a more c : W q (r_rattr a ++ more) -> wf_rattr a ->
  parse_element_loop text C ev (S fuel) ts (st q (r_rattr a ++ more)) c =
  let! c' := ev (rattr_tok q a) c in
  parse_element_loop text C ev fuel ts (st (q + blen (r_rattr a)) more) c'.
Proof.
  intros HW Hwf. destruct Hwf as (Hne & Hws & Hn & Hw1 & Hw2 & Hq & HV).
  unfold rattr_tok, vlen. cbv zeta.
  assert (Elen : q + blen (r_rattr a) = q + blen (ra_ws a) + blen (ra_name a) + blen (ra_ws1 a) + 1
                  + blen (ra_ws2 a) + 1 + blen (ra_value a) + 1).
  { clear. unfold r_rattr. rewrite !blen_app, !blen_cons, blen_nil. lia. }
  rewrite Elen. clear Elen.
  unfold r_rattr in *. rewrite <- !app_assoc in *. cbn [app] in *.
  destruct a as [ws name ws1 ws2 quote value]. cbn [ra_ws ra_name ra_ws1 ra_ws2 ra_quote ra_value] in *.
  destruct (value_bytes_facts _ _ HV) as (Hv1 & Hv2 & Hv3). clear HV.
  assert (Hqq : (quote =? 39) || (quote =? 34) = true) by (clear - Hq; lia).
  assert (Hqsp : byte_is_space quote = false) by (clear - Hq; destruct Hq as [-> | ->]; reflexivity).
  clear Hq.
  destruct ws as [|w ws]; [congruence|]. clear Hne.
  destruct name as [|n name]; [discriminate|].
  assert (Hn0 : Cst.is_name_start n = true).
  { cbn [Cst.wf_name] in Hn. apply andb_true_iff in Hn. apply Hn. }
  destruct (name_start_byte _ Hn0) as (_ & _ & Hnsp & Hn47 & Hn62 & _).
  apply N.eqb_neq in Hn47, Hn62. clear Hn0.
  assert (Hwsp : byte_is_space w = true).
  { cbn [Cst.wf_ws forallb] in Hws. apply andb_true_iff in Hws. apply ws_space. apply Hws. }
  cbn [parse_element_loop]. rewrite (at_end_st text) by exact HW. cbn [app].
  unfold starts_with_space. rewrite (curr_byte_opt_st text) by exact HW.
  rewrite Hwsp. cbv zeta.
  change (w :: ws ++ ?l) with ((w :: ws) ++ l) in HW |- *.
  rewrite (skip_spaces_st text); [|exact HW|apply ws_spaces; exact Hws|cbn [app stops]; exact Hnsp].
  pose proof (W_app _ _ _ _ HW) as HW1. cbn [CstLex.st s_pos].
  try match goal with |- context [ {| s_pos := ?a; s_end := tlen text; s_rest := ?r |} ] => fold (st a r) end.
  cbn [app] in HW1 |- *.
  rewrite (curr_byte_st text) by exact HW1. cbn [bind].
  rewrite Hn47, Hn62.
  change (n :: name ++ ?l) with ((n :: name) ++ l) in HW1 |- *.
  rewrite (consume_qname_st text Hascii); [|exact HW1|exact Hn|].
  2:{ apply ws_stop_name; [exact Hw1|]. cbn [name_stop]. apply not_name_byte_lit. auto. }
  cbn [bind]. pose proof (W_app _ _ _ _ HW1) as HW2.
  unfold consume_eq.
  rewrite (skip_spaces_st text); [|exact HW2|apply ws_spaces; exact Hw1|reflexivity].
  pose proof (W_app _ _ _ _ HW2) as HW3.
  rewrite (consume_byte_st text) by exact HW3. cbn [bind].
  pose proof (W_cons _ _ _ _ HW3) as HW4.
  rewrite (skip_spaces_st text); [|exact HW4|apply ws_spaces; exact Hw2|cbn [stops]; exact Hqsp].
  pose proof (W_app _ _ _ _ HW4) as HW5. cbn [CstLex.st s_pos].
  try match goal with |- context [ {| s_pos := ?a; s_end := tlen text; s_rest := ?r |} ] => fold (st a r) end.
  unfold consume_quote. rewrite (curr_byte_st text) by exact HW5. cbn [bind].
  rewrite Hqq.
  rewrite (advance1_st text) by exact HW5. cbn [bind].
  pose proof (W_cons _ _ _ _ HW5) as HW6. cbn [CstLex.st s_pos].
  try match goal with |- context [ {| s_pos := ?a; s_end := tlen text; s_rest := ?r |} ] => fold (st a r) end.
  unfold advance_until2. rewrite (avail_st text) by exact HW6.
  rewrite find_idx_run; [|exact Hv1|rewrite N.eqb_refl; reflexivity].
  rewrite (advance_st text) by (try reflexivity; exact HW6). cbn [bind].
  pose proof (W_app _ _ _ _ HW6) as HW7. unfold slice_back. cbn [CstLex.st s_pos].
  pose proof (W_le _ _ _ HW7) as Hle7.
  rewrite (mk_slice_ok text Hascii) by (clear - Hle7; lia). cbn [bind].
  unfold is_xml_str. rewrite (W_slice _ _ _ _ HW6).
  rewrite Hv2. rewrite is_xml_str_ascii_ok by exact Hv3.
  cbn [bind].
  try match goal with |- context [ {| s_pos := ?a; s_end := tlen text; s_rest := ?r |} ] => fold (st a r) end.
  rewrite (consume_byte_st text) by exact HW7. cbn [bind]. cbn [CstLex.st s_pos].
  reflexivity.
Qed.

Lemma lex_relem_loop ts ws_end empty post : forall attrs q c fuel,
  W q (flat_map r_rattr attrs ++ ws_end ++ tag_tail empty ++ post) ->
  Forall wf_rattr attrs -> Cst.wf_ws ws_end = true -> (length attrs < fuel)%nat ->
  parse_element_loop text C ev fuel ts (st q (flat_map r_rattr attrs ++ ws_end ++ tag_tail empty ++ post)) c =
  let q' := q + blen (flat_map r_rattr attrs) + blen ws_end in
  let! c1 := evs C ev (rattr_toks q attrs) c in
  let! c2 := ev (end_tok q' empty) c1 in
  Ok (negb empty, st (q' + blen (tag_tail empty)) post, c2).
Proof.
  induction attrs as [|a attrs IH]; intros q c fuel HW Ha Hws Hf; cbv zeta.
  - cbn [flat_map app rattr_toks evs bind] in *. rewrite blen_nil, N.add_0_r.
    destruct fuel as [|fu]; [cbn in Hf; lia|]. apply lex_elem_end; assumption.
  - apply Forall_cons_iff in Ha. destruct Ha as [Ha1 Ha2].
    cbn [length] in Hf. destruct fuel as [|fu]; [lia|].
    cbn [flat_map rattr_toks evs] in *. rewrite <- app_assoc in *.
    rewrite lex_rattr_iter by assumption.
    destruct (ev (rattr_tok q a) c) as [c'| | |]; cbn [bind]; try reflexivity.
    rewrite IH; [|apply (W_app _ _ _ _ HW)|exact Ha2|exact Hws|lia]. cbv zeta.
    rewrite blen_app. rewrite !N.add_assoc. reflexivity.
Qed.

Lemma flat_rattr_len attrs : (length attrs <= length (flat_map r_rattr attrs))%nat.
Proof.
  induction attrs as [|a attrs IH]; cbn [flat_map length]; [lia|]. rewrite app_length.
  unfold r_rattr at 1. rewrite !app_length. cbn [length]. lia.
Qed.

Lemma rattrs_name_stop attrs ws_end empty post :
  Forall wf_rattr attrs -> Cst.wf_ws ws_end = true ->
  name_stop (flat_map r_rattr attrs ++ ws_end ++ tag_tail empty ++ post).
Proof.
  intros Ha Hws. destruct attrs as [|a attrs].
  - cbn [flat_map app]. apply ws_stop_name; [exact Hws|]. destruct empty; cbn [tag_tail app name_stop];
      apply not_name_byte_lit; auto.
  - apply Forall_cons_iff in Ha. destruct Ha as [Ha _].
    destruct Ha as (Hne & Hw & _). cbn [flat_map]. unfold r_rattr.
    destruct (ra_ws a) as [|w ws]; [congruence|]. cbn [app name_stop].
    cbn [Cst.wf_ws forallb] in Hw. apply andb_true_iff in Hw. apply ws_not_name_byte. apply Hw.
Qed.

Definition rstart_toks (p : N) (name : bytes) (attrs : list rattr) : list Tokenizer.token :=
  TElementStart (sl (p + 1) (p + 1)) (sl (p + 1) (p + 1 + blen name)) p :: rattr_toks (p + 1 + blen name) attrs.

Lemma lex_relement p name attrs ws_end empty post c :
  W p ([60] ++ name ++ flat_map r_rattr attrs ++ ws_end ++ tag_tail empty ++ post) ->
  Cst.wf_name name = true -> Forall wf_rattr attrs -> Cst.wf_ws ws_end = true ->
  let q' := p + 1 + blen name + blen (flat_map r_rattr attrs) + blen ws_end in
  parse_element text C ev (st p ([60] ++ name ++ flat_map r_rattr attrs ++ ws_end ++ tag_tail empty ++ post)) c =
  let! c1 := evs C ev (rstart_toks p name attrs) c in
  let! c2 := ev (end_tok q' empty) c1 in
  Ok (negb empty, st (q' + blen (tag_tail empty)) post, c2).
Proof.
  intros HW Hn Ha Hws q'. unfold parse_element. cbv zeta. cbn [CstLex.st s_pos].
  fold (st p ([60] ++ name ++ flat_map r_rattr attrs ++ ws_end ++ tag_tail empty ++ post)).
  rewrite (advance_st text 1 p [60]) by (try reflexivity; exact HW). cbn [bind].
  pose proof (W_app _ _ _ _ HW) as HW1. change (blen [60]) with 1 in HW1.
  rewrite (consume_qname_st text Hascii); [|exact HW1|exact Hn|apply rattrs_name_stop; assumption]. cbn [bind].
  unfold rstart_toks. cbn [evs].
  destruct (ev _ c) as [c0| | |]; cbn [bind]; try reflexivity.
  pose proof (W_app _ _ _ _ HW1) as HW2.
  rewrite lex_relem_loop; [|exact HW2|exact Ha|exact Hws|].
  2:{ cbn [CstLex.st s_rest]. rewrite app_length. pose proof (flat_rattr_len attrs). lia. }
  reflexivity.
Qed.

End Raw.

Print Assumptions lex_relement.
