(* Proofs/RangeArena.v -- C13, part 2: how the builder's primitive operations change the node
   arena, as pointwise relations between the node lists before and after. *)
From Coq Require Import List Arith NArith Bool Lia ZifyBool ZifyN ZifyNat.
Import ListNotations.
From RX Require Import Generated.
From RX.Model Require Import Base CharClass Stream Tokenizer Doc Builder.
From RX.Proofs Require Import Tactics BorrowLocal.
Open Scope N_scope.

(* ------------------------------------------------------------------ *)
(* nth_N                                                               *)

Lemma nth_N_lt {A} (l : list A) i x : nth_N l i = Some x -> i < len_N l.
Proof.
  unfold nth_N. destruct (len_N l <=? i) eqn:E; [discriminate|]. intros _. lia.
Qed.

Lemma nth_N_some {A} (l : list A) i : i < len_N l -> exists x, nth_N l i = Some x.
Proof.
  intros H. unfold nth_N. destruct (len_N l <=? i) eqn:E; [lia|].
  destruct (nth_error l (N.to_nat i)) eqn:En; [eauto|].
  apply nth_error_None in En. unfold len_N in H. lia.
Qed.

Lemma nth_N_none {A} (l : list A) i : len_N l <= i -> nth_N l i = None.
Proof. intros H. unfold nth_N. destruct (len_N l <=? i) eqn:E; [reflexivity|lia]. Qed.

Lemma len_N_app {A} (l r : list A) : len_N (l ++ r) = len_N l + len_N r.
Proof. unfold len_N. rewrite app_length. lia. Qed.

Lemma len_N_snoc {A} (l : list A) x : len_N (l ++ [x]) = len_N l + 1.
Proof. rewrite len_N_app. reflexivity. Qed.

Lemma nth_N_app_l {A} (l r : list A) i : i < len_N l -> nth_N (l ++ r) i = nth_N l i.
Proof.
  intros H. unfold nth_N. rewrite len_N_app.
  destruct (len_N l + len_N r <=? i) eqn:E1; [lia|].
  destruct (len_N l <=? i) eqn:E2; [lia|].
  apply nth_error_app1. unfold len_N in H. lia.
Qed.

Lemma nth_N_app_r {A} (l r : list A) i : len_N l <= i -> nth_N (l ++ r) i = nth_N r (i - len_N l).
Proof.
  intros H. unfold nth_N. rewrite len_N_app.
  destruct (len_N l + len_N r <=? i) eqn:E1; destruct (len_N r <=? i - len_N l) eqn:E2;
    try reflexivity; try lia.
  unfold len_N in *. rewrite nth_error_app2 by lia. f_equal. lia.
Qed.

Lemma nth_N_snoc {A} (l : list A) x : nth_N (l ++ [x]) (len_N l) = Some x.
Proof. rewrite nth_N_app_r by lia. rewrite N.sub_diag. reflexivity. Qed.

Lemma nth_N_snoc_inv {A} (l : list A) x i y :
  nth_N (l ++ [x]) i = Some y -> (i < len_N l /\ nth_N l i = Some y) \/ (i = len_N l /\ y = x).
Proof.
  intros H. destruct (N.ltb_spec i (len_N l)).
  - left. rewrite nth_N_app_l in H by assumption. auto.
  - right. pose proof (nth_N_lt _ _ _ H) as Hl. rewrite len_N_snoc in Hl.
    assert (i = len_N l) by lia. subst i. rewrite nth_N_snoc in H. split; congruence.
Qed.

Lemma nth_N_In {A} (l : list A) i x : nth_N l i = Some x -> In x l.
Proof.
  unfold nth_N. destruct (len_N l <=? i); [discriminate|]. apply nth_error_In.
Qed.

Lemma In_nth_N {A} (l : list A) x : In x l -> exists i, nth_N l i = Some x.
Proof.
  intros H. apply In_nth_error in H. destruct H as [n H]. exists (N.of_nat n).
  unfold nth_N. assert (n < length l)%nat by (apply nth_error_Some; congruence).
  destruct (len_N l <=? N.of_nat n) eqn:E; [unfold len_N in E; lia|].
  rewrite Nat2N.id. exact H.
Qed.

Lemma len_N_removelast {A} (l : list A) : l <> [] -> len_N (removelast l) + 1 = len_N l.
Proof.
  intros H. destruct (exists_last H) as [l' [x ->]]. rewrite removelast_last, len_N_snoc. reflexivity.
Qed.

(* ------------------------------------------------------------------ *)
(* list_upd / upd_node                                                  *)

Lemma list_upd_spec {A} (f : A -> A) : forall l i l', list_upd l i f = Some l' ->
  length l' = length l /\
  forall j, nth_error l' j = if Nat.eqb j i then option_map f (nth_error l j) else nth_error l j.
Proof.
  induction l as [|x l IH]; intros i l' H; cbn [list_upd] in H; [discriminate|].
  destruct i.
  - injection H as <-. split; [reflexivity|]. intros [|j]; reflexivity.
  - destruct (list_upd l i f) eqn:E; [|discriminate]. injection H as <-.
    destruct (IH _ _ E) as [HL HN]. split; [cbn; congruence|].
    intros [|j]; [reflexivity|]. cbn [nth_error Nat.eqb]. apply HN.
Qed.

Lemma upd_node_spec nodes i f l' : upd_node nodes i f = Ok l' ->
  len_N l' = len_N nodes /\
  forall j, nth_N l' j = if j =? i then option_map f (nth_N nodes j) else nth_N nodes j.
Proof.
  unfold upd_node. destruct (list_upd nodes (N.to_nat i) f) as [l|] eqn:E; [|discriminate].
  intros [= <-]. apply list_upd_spec in E. destruct E as [HL HN].
  split; [unfold len_N; congruence|].
  intros j. unfold nth_N, len_N. rewrite HL.
  destruct (N.of_nat (length nodes) <=? j) eqn:Ej.
  - destruct (j =? i); reflexivity.
  - rewrite HN. destruct (N.eqb_spec j i).
    + subst j. rewrite Nat.eqb_refl. reflexivity.
    + destruct (Nat.eqb_spec (N.to_nat j) (N.to_nat i)); [lia|reflexivity].
Qed.

(* ------------------------------------------------------------------ *)
(* pointwise relations between node lists                               *)

Definition kind_sim (k k' : node_kind) : Prop :=
  k' = k \/ is_text_kind k' = true.

(* everything but next_subtree (and the content of a text node) is the same *)
Definition same_core (nd nd' : node_data) : Prop :=
  nd_parent nd' = nd_parent nd /\ nd_prev_sibling nd' = nd_prev_sibling nd /\
  nd_last_child nd' = nd_last_child nd /\ nd_range nd' = nd_range nd /\
  kind_sim (nd_kind nd) (nd_kind nd').

Lemma same_core_refl nd : same_core nd nd.
Proof. unfold same_core, kind_sim. auto 6. Qed.

Lemma kind_sim_trans a b c : kind_sim a b -> kind_sim b c -> kind_sim a c.
Proof.
  unfold kind_sim. intros [->|H1] [->|H3]; auto.
Qed.

Lemma same_core_trans a b c : same_core a b -> same_core b c -> same_core a c.
Proof.
  unfold same_core. intros (A1 & A2 & A3 & A4 & A5) (B1 & B2 & B3 & B4 & B5).
  repeat split; try congruence. eapply kind_sim_trans; eauto.
Qed.

Definition pw (R : N -> node_data -> node_data -> Prop) (l l' : list node_data) : Prop :=
  len_N l' = len_N l /\
  forall j nd, nth_N l j = Some nd -> exists nd', nth_N l' j = Some nd' /\ R j nd nd'.

Lemma pw_back R l l' j nd' : pw R l l' -> nth_N l' j = Some nd' ->
  exists nd, nth_N l j = Some nd /\ R j nd nd'.
Proof.
  intros [HL HF] H. pose proof (nth_N_lt _ _ _ H) as Hlt. rewrite HL in Hlt.
  destruct (nth_N_some l j Hlt) as [nd Hnd]. exists nd. split; [exact Hnd|].
  destruct (HF j nd Hnd) as [nd2 [H2 HR]]. congruence.
Qed.

Lemma pw_refl (R : N -> node_data -> node_data -> Prop) l : (forall j nd, R j nd nd) -> pw R l l.
Proof. intros HR. split; [reflexivity|]. intros j nd H. eauto. Qed.

Lemma pw_trans (R1 R2 R3 : N -> node_data -> node_data -> Prop) l1 l2 l3 :
  (forall j a b c, R1 j a b -> R2 j b c -> R3 j a c) -> pw R1 l1 l2 -> pw R2 l2 l3 -> pw R3 l1 l3.
Proof.
  intros HR [L1 F1] [L2 F2]. split; [congruence|]. intros j nd H.
  destruct (F1 j nd H) as [b [Hb R1b]]. destruct (F2 j b Hb) as [c [Hc R2c]]. eauto.
Qed.

Lemma pw_weaken (R R' : N -> node_data -> node_data -> Prop) l l' :
  (forall j a b, R j a b -> R' j a b) -> pw R l l' -> pw R' l l'.
Proof.
  intros HR [L F]. split; [exact L|]. intros j nd H. destruct (F j nd H) as [b [Hb Rb]]. eauto.
Qed.

Definition core_pw := pw (fun _ => same_core).

Lemma core_pw_refl l : core_pw l l.
Proof. apply pw_refl. intros; apply same_core_refl. Qed.

Lemma core_pw_trans l1 l2 l3 : core_pw l1 l2 -> core_pw l2 l3 -> core_pw l1 l3.
Proof. apply pw_trans. intros j a b c. apply same_core_trans. Qed.

(* an update by [f] at index [i] *)
Lemma upd_node_pw (R : N -> node_data -> node_data -> Prop) nodes i f l' :
  (forall j nd, R j nd nd) -> (forall nd, R i nd (f nd)) ->
  upd_node nodes i f = Ok l' -> pw R nodes l'.
Proof.
  intros Hrefl Hf H. apply upd_node_spec in H. destruct H as [HL HN]. split; [exact HL|].
  intros j nd Hj. rewrite HN, Hj. destruct (N.eqb_spec j i); cbn [option_map].
  - subst j. eauto.
  - eauto.
Qed.

(* everything but next_subtree is the same *)
Definition same_links (nd nd' : node_data) : Prop :=
  nd_parent nd' = nd_parent nd /\ nd_prev_sibling nd' = nd_prev_sibling nd /\
  nd_last_child nd' = nd_last_child nd /\ nd_range nd' = nd_range nd /\
  nd_kind nd' = nd_kind nd.

Lemma same_links_core nd nd' : same_links nd nd' -> same_core nd nd'.
Proof. unfold same_links, same_core, kind_sim. intuition auto. Qed.

Lemma set_next_subtree_all_links : forall ids nodes v l',
  set_next_subtree_all nodes ids v = Ok l' -> pw (fun _ => same_links) nodes l'.
Proof.
  induction ids as [|i ids IH]; intros nodes v l' H; cbn [set_next_subtree_all] in H.
  - injection H as <-. apply pw_refl. intros; unfold same_links; auto 6.
  - apply bind_ok in H. destruct H as [l1 [H1 H2]].
    apply (pw_trans (fun _ => same_links) (fun _ => same_links) (fun _ => same_links) nodes l1 l');
      [| |eapply IH; exact H2].
    + intros j a b c HA HB. cbv beta in *. unfold same_links in *.
      destruct HA as (A1 & A2 & A3 & A4 & A5). destruct HB as (B1 & B2 & B3 & B4 & B5).
      repeat split; congruence.
    + eapply upd_node_pw; [| |exact H1]; intros; unfold same_links; cbn; auto 6.
Qed.

(* ------------------------------------------------------------------ *)
(* append_node                                                          *)

(* the arena after appending a node of kind [kind] and range [r] below [pid] *)
Definition AppSpec (nodes : list node_data) (pid : N) (kind : node_kind) (r : range)
           (nodes' : list node_data) : Prop :=
  let n := len_N nodes in
  len_N nodes' = n + 1 /\
  (forall j nd, nth_N nodes j = Some nd ->
     exists nd', nth_N nodes' j = Some nd' /\
       nd_parent nd' = nd_parent nd /\ nd_prev_sibling nd' = nd_prev_sibling nd /\
       nd_kind nd' = nd_kind nd /\ nd_range nd' = nd_range nd /\
       nd_last_child nd' = (if j =? pid then Some n else nd_last_child nd)) /\
  (exists pnd ndn, nth_N nodes pid = Some pnd /\ nth_N nodes' n = Some ndn /\
     nd_parent ndn = Some pid /\ nd_prev_sibling ndn = nd_last_child pnd /\
     nd_kind ndn = kind /\ nd_range ndn = r /\ nd_last_child ndn = None).

Lemma AppSpec_back nodes pid kind r nodes' j nd' :
  AppSpec nodes pid kind r nodes' -> nth_N nodes' j = Some nd' ->
  (j < len_N nodes /\ exists nd, nth_N nodes j = Some nd /\
     nd_parent nd' = nd_parent nd /\ nd_prev_sibling nd' = nd_prev_sibling nd /\
     nd_kind nd' = nd_kind nd /\ nd_range nd' = nd_range nd /\
     nd_last_child nd' = (if j =? pid then Some (len_N nodes) else nd_last_child nd)) \/
  (j = len_N nodes /\ exists pnd, nth_N nodes pid = Some pnd /\
     nd_parent nd' = Some pid /\ nd_prev_sibling nd' = nd_last_child pnd /\
     nd_kind nd' = kind /\ nd_range nd' = r /\ nd_last_child nd' = None).
Proof.
  intros (HL & HF & pnd & ndn & Hp & Hn & H1 & H2 & H3 & H4 & H5) H.
  pose proof (nth_N_lt _ _ _ H) as Hlt. rewrite HL in Hlt.
  destruct (N.ltb_spec j (len_N nodes)) as [Hj|Hj].
  - left. split; [exact Hj|]. destruct (nth_N_some nodes j Hj) as [nd Hnd]. exists nd.
    split; [exact Hnd|]. destruct (HF j nd Hnd) as [nd2 [E2 HR]].
    assert (nd2 = nd') by congruence. subst nd2. exact HR.
  - right. assert (j = len_N nodes) by lia. subst j. split; [reflexivity|].
    exists pnd. assert (ndn = nd') by congruence. subst ndn. auto 8.
Qed.

Lemma append_node_spec kind r c id c' :
  c_parent_id c < len_N (d_nodes (c_doc c)) ->
  append_node kind r c = Ok (id, c') ->
  exists nodes',
    id = len_N (d_nodes (c_doc c)) /\
    c' = set_awaiting (set_doc c (set_nodes (c_doc c) nodes'))
                      (if is_element_kind kind then [] else [id]) /\
    AppSpec (d_nodes (c_doc c)) (c_parent_id c) kind r nodes'.
Proof.
  intros Hpid. unfold append_node. cbv zeta.
  set (nodes := d_nodes (c_doc c)) in *. set (n := len_N nodes) in *. set (pid := c_parent_id c) in *.
  destruct (nodes_limit (c_opt c) <=? n); [discriminate|].
  unfold node_id_new. destruct (u32_max <=? n); [discriminate|]. cbn [bind].
  set (new0 := {| nd_parent := Some pid; nd_prev_sibling := None; nd_next_subtree := None;
                  nd_last_child := None; nd_kind := kind; nd_range := r |}).
  destruct (nth_N (nodes ++ [new0]) pid) as [pnd|] eqn:Ep; [|discriminate]. cbn [bind].
  intros H. apply bind_ok in H. destruct H as [l1 [H1 H]].
  apply bind_ok in H. destruct H as [l2 [H2 H]].
  apply bind_ok in H. destruct H as [l3 [H3 H]].
  injection H as <- <-. exists l3. split; [reflexivity|]. split; [reflexivity|].
  apply upd_node_spec in H1. destruct H1 as [L1 N1].
  apply upd_node_spec in H2. destruct H2 as [L2 N2].
  apply set_next_subtree_all_links in H3. destruct H3 as [L3 F3].
  fold nodes n pid.
  assert (Ln : len_N (nodes ++ [new0]) = n + 1) by apply len_N_snoc.
  (* the three steps, pointwise *)
  assert (Hstep : forall j x, nth_N (nodes ++ [new0]) j = Some x ->
            exists x3, nth_N l3 j = Some x3 /\
              nd_parent x3 = nd_parent x /\ nd_kind x3 = nd_kind x /\ nd_range x3 = nd_range x /\
              nd_prev_sibling x3 = (if j =? n then nd_last_child pnd else nd_prev_sibling x) /\
              nd_last_child x3 = (if j =? pid then Some n else nd_last_child x)).
  { intros j x Hx.
    assert (E1 : nth_N l1 j = Some (if j =? n then nd_set_prev x (nd_last_child pnd) else x)).
    { rewrite N1, Hx. destruct (j =? n); reflexivity. }
    assert (E2 : nth_N l2 j = Some (let y := if j =? n then nd_set_prev x (nd_last_child pnd) else x in
                                     if j =? pid then nd_set_last_child y (Some n) else y)).
    { rewrite N2, E1. destruct (j =? pid); reflexivity. }
    destruct (F3 j _ E2) as [x3 [E3 (C1 & C2 & C3 & C4 & C5)]].
    exists x3. split; [exact E3|]. cbv zeta in *.
    rewrite C1, C2, C3, C4, C5. destruct (j =? pid), (j =? n); cbn; auto 6. }
  unfold AppSpec. fold n. split; [congruence|]. split.
  - intros j nd Hj. pose proof (nth_N_lt _ _ _ Hj) as Hlt. fold n in Hlt.
    assert (Hx : nth_N (nodes ++ [new0]) j = Some nd) by (rewrite nth_N_app_l; assumption).
    destruct (Hstep j nd Hx) as [x3 [E3 (D1 & D2 & D3 & D4 & D5)]].
    exists x3. split; [exact E3|]. replace (j =? n) with false in D4 by lia. auto 6.
  - destruct (Hstep n new0 (nth_N_snoc nodes new0)) as [x3 [E3 (D1 & D2 & D3 & D4 & D5)]].
    rewrite N.eqb_refl in D4.
    assert (Hp : nth_N nodes pid = Some pnd).
    { rewrite nth_N_app_l in Ep by exact Hpid. exact Ep. }
    exists pnd, x3. split; [exact Hp|]. split; [exact E3|].
    replace (n =? pid) with false in D5 by lia. cbn in *. auto 8.
Qed.

(* ------------------------------------------------------------------ *)
(* merge_text: only the kind of a (text) node changes                   *)

Lemma merge_text_nodes text c : okP (merge_text text c)
  (fun c' => exists nodes', c' = set_doc c (set_nodes (c_doc c) nodes') /\
                            core_pw (d_nodes (c_doc c)) nodes').
Proof.
  unfold merge_text. intros c' H.
  destruct (rev (d_nodes (c_doc c))) as [|nd l]; [discriminate|].
  destruct (nd_kind nd); try discriminate.
  apply bind_ok in H. destruct H as [nodes' [H1 H2]]. injection H2 as <-.
  exists nodes'. split; [reflexivity|].
  eapply upd_node_pw; [| |exact H1]; intros.
  - apply same_core_refl.
  - unfold same_core, kind_sim. cbn. auto 6.
Qed.

(* closing an element: the end of its range is overwritten *)
Definition CloseSpec (nodes : list node_data) (x e : N) (nodes' : list node_data) : Prop :=
  pw (fun j nd nd' => if j =? x then nd' = nd_set_range_end nd e else nd' = nd) nodes nodes'.

Lemma upd_range_end_spec nodes x e l' :
  upd_node nodes x (fun nd => nd_set_range_end nd e) = Ok l' -> CloseSpec nodes x e l'.
Proof.
  intros H. apply upd_node_spec in H. destruct H as [HL HN]. split; [exact HL|].
  intros j nd Hj. rewrite HN, Hj. destruct (j =? x); cbn [option_map]; eauto.
Qed.
