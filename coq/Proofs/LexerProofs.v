(* Proofs/LexerProofs.v -- post-conditions of the tokenizer's token parsers (C03, C13), with the
   token recorder as callback. *)
From Coq Require Import String.
From Coq Require Import List NArith PeanoNat Bool Lia ZifyBool ZifyN ZifyNat.
Import ListNotations.
From RX Require Import Generated.
From RX.Model Require Import Base CharClass Stream Tokenizer.
Open Scope N_scope.

Definition rec_ev (tok : token) (acc : list token) : res (list token) := Ok (acc ++ [tok]).
Definition SInv (text : bytes) (s : stream) : Prop :=      (* the stream really is a window on text *)
  s_rest s = skipn (N.to_nat (s_pos s)) text /\ s_pos s <= s_end s /\ s_end s <= tlen text.

(* invert [H : bind r f = Ok _] *)
Tactic Notation "binv" hyp(H) "as" simple_intropattern(p) ident(E) :=
  match type of H with
  | bind ?r _ = Ok _ => destruct r as [p| | |] eqn:E; cbn [bind] in H; [|discriminate H ..]
  end.

(* ------------------------------------------------------------------------------------------ *)
(* lists                                                                                      *)
(* ------------------------------------------------------------------------------------------ *)

Lemma skipn_add {A} : forall (a b : nat) (l : list A), skipn b (skipn a l) = skipn (a + b) l.
Proof.
  induction a as [|a IH]; intros b l; [reflexivity|].
  destruct l as [|x l]; cbn [skipn Nat.add]; [destruct b; reflexivity|apply IH].
Qed.

Lemma firstn_add {A} : forall (n k : nat) (l : list A),
  firstn (n + k) l = firstn n l ++ firstn k (skipn n l).
Proof.
  induction n as [|n IH]; intros k l; [reflexivity|].
  destruct l as [|x l]; cbn [firstn skipn Nat.add app]; [destruct k; reflexivity|].
  f_equal. apply IH.
Qed.

Lemma sub_app : forall t a m e, a <= m -> m <= e -> sub t a e = sub t a m ++ sub t m e.
Proof.
  intros t a m e H1 H2. unfold sub.
  replace (N.to_nat (e - a)) with (N.to_nat (m - a) + N.to_nat (e - m))%nat by lia.
  rewrite firstn_add, skipn_add.
  replace (N.to_nat a + N.to_nat (m - a))%nat with (N.to_nat m) by lia. reflexivity.
Qed.

Lemma sub_nil : forall t a, sub t a a = [].
Proof. intros. unfold sub. rewrite N.sub_diag. reflexivity. Qed.

Lemma prefix_b_firstn : forall p l,
  prefix_b p l = true -> firstn (length p) l = p /\ (length p <= length l)%nat.
Proof.
  induction p as [|a p IH]; intros l H.
  - split; [reflexivity|cbn; lia].
  - destruct l as [|c l]; cbn [prefix_b] in H; [discriminate|].
    apply andb_true_iff in H. destruct H as [H1 H2]. apply N.eqb_eq in H1. subst c.
    destruct (IH _ H2) as [F L]. cbn [firstn length]. split; [f_equal; exact F|lia].
Qed.

Lemma prefix_b_app : forall p r, prefix_b p (p ++ r) = true.
Proof.
  induction p as [|a p IH]; intros r; cbn [prefix_b app]; [reflexivity|].
  rewrite N.eqb_refl. apply IH.
Qed.

Lemma mem_b_false : forall q l, Forall (fun x => x <> q) l -> mem_b q l = false.
Proof.
  intros q l H. induction H as [|x l Hx _ IH]; cbn [mem_b]; [reflexivity|].
  rewrite IH, orb_false_r. apply N.eqb_neq. congruence.
Qed.

Lemma scan_props : forall f room l,
  (scan f l room <= room)%nat /\ (scan f l room <= length l)%nat /\
  forallb f (firstn (scan f l room) l) = true /\
  (scan f l room = room \/ (length l <= scan f l room)%nat \/
   exists x r, skipn (scan f l room) l = x :: r /\ f x = false).
Proof.
  intros f. induction room as [|room IH]; intros l.
  - destruct l; cbn [scan]; (split; [lia|]; split; [cbn; lia|]; split; [reflexivity|]; left; reflexivity).
  - destruct l as [|x t]; cbn [scan].
    + split; [lia|]. split; [cbn; lia|]. split; [reflexivity|]. right. left. cbn. lia.
    + destruct (f x) eqn:Fx.
      * destruct (IH t) as (A & B & C & D). cbn [firstn forallb skipn length].
        rewrite Fx, C. split; [lia|]. split; [lia|]. split; [reflexivity|].
        destruct D as [D|[D|D]]; [left; lia|right; left; lia|right; right; exact D].
      * split; [lia|]. split; [lia|]. split; [reflexivity|].
        right. right. exists x, t. auto.
Qed.

(* the bytes of one decoded char: the char itself (ASCII) or bytes >= 128 *)
Lemma decode1_bytes : forall l c n, decode1 l = Some (c, n) ->
  Forall (fun x => x = c \/ 128 <= x) (firstn (N.to_nat n) l) /\
  (N.to_nat n <= length l)%nat /\ 1 <= n.
Proof.
  intros l c n H. unfold decode1 in H. destruct l as [|b0 r]; [discriminate|].
  destruct (b0 <? 128) eqn:E0.
  { injection H as <- <-. cbn. repeat split; try lia. apply Forall_cons; [left; reflexivity|apply Forall_nil]. }
  destruct (b0 <? 192); [discriminate|].
  destruct (b0 <? 224).
  { destruct r as [|b1 r]; [discriminate|]. destruct (is_cont b1) eqn:C1; [|discriminate].
    injection H as <- <-. unfold is_cont in C1. cbn. repeat split; try lia.
    repeat (apply Forall_cons; [right; lia|]); apply Forall_nil. }
  destruct (b0 <? 240).
  { destruct r as [|b1 [|b2 r]]; try discriminate.
    destruct (is_cont b1) eqn:C1; [|discriminate]. destruct (is_cont b2) eqn:C2; [|discriminate].
    injection H as <- <-. unfold is_cont in C1, C2. cbn. repeat split; try lia.
    repeat (apply Forall_cons; [right; lia|]); apply Forall_nil. }
  destruct (b0 <? 248); [|discriminate].
  destruct r as [|b1 [|b2 [|b3 r]]]; try discriminate.
  destruct (is_cont b1) eqn:C1; [|discriminate]. destruct (is_cont b2) eqn:C2; [|discriminate].
  destruct (is_cont b3) eqn:C3; [|discriminate].
  injection H as <- <-. unfold is_cont in C1, C2, C3. cbn. repeat split; try lia.
  repeat (apply Forall_cons; [right; lia|]); apply Forall_nil.
Qed.

(* ------------------------------------------------------------------------------------------ *)
(* stream primitives                                                                          *)
(* ------------------------------------------------------------------------------------------ *)

Section Lexer.
Variable text : bytes.

(* [s'] is [s] moved forward inside the same window *)
Definition Adv (s s' : stream) : Prop :=
  SInv text s' /\ s_pos s <= s_pos s' /\ s_end s' = s_end s.

Lemma Adv_refl : forall s, SInv text s -> Adv s s.
Proof. intros s H. split; [exact H|]. split; [lia|reflexivity]. Qed.

Lemma Adv_trans : forall s1 s2 s3, Adv s1 s2 -> Adv s2 s3 -> Adv s1 s3.
Proof. intros s1 s2 s3 (A & B & C) (D & E & F). split; [exact D|]. split; [lia|congruence]. Qed.

Lemma Adv_inv : forall s s', Adv s s' -> SInv text s'.
Proof. intros s s' H. apply H. Qed.

Lemma err_at_not_ok : forall A s mk (a : A), err_at text s mk = Ok a -> False.
Proof. intros A s mk a. unfold err_at. destruct (gen_text_pos text s); cbn [bind]; discriminate. Qed.

Lemma err_from_not_ok : forall A p mk (a : A), err_from text p mk = Ok a -> False.
Proof. intros A p mk a. unfold err_from. destruct (gen_text_pos_from text p); cbn [bind]; discriminate. Qed.

Ltac not_ok H :=
  solve [exfalso; first [eapply err_at_not_ok; exact H | eapply err_from_not_ok; exact H]].

Lemma sub_rest : forall s e, SInv text s ->
  sub text (s_pos s) e = firstn (N.to_nat (e - s_pos s)) (s_rest s).
Proof. intros s e [R _]. unfold sub. rewrite R. reflexivity. Qed.

Lemma rest_len : forall s, SInv text s ->
  length (s_rest s) = (length text - N.to_nat (s_pos s))%nat.
Proof. intros s [R _]. rewrite R. apply skipn_length. Qed.

Lemma sub_one : forall s x r, SInv text s -> s_rest s = x :: r ->
  sub text (s_pos s) (s_pos s + 1) = [x].
Proof.
  intros s x r H E. rewrite sub_rest by assumption. rewrite E.
  replace (N.to_nat (s_pos s + 1 - s_pos s)) with 1%nat by lia. reflexivity.
Qed.

Lemma starts_with_sub : forall s p, SInv text s -> starts_with s p = true ->
  sub text (s_pos s) (s_pos s + blen p) = p /\ s_pos s + blen p <= s_end s.
Proof.
  intros s p [R [L1 L2]] H. unfold starts_with, avail in H.
  apply prefix_b_firstn in H. destruct H as [F Ln].
  rewrite firstn_length in Ln. rewrite firstn_firstn, Nat.min_l in F by lia.
  unfold blen. split; [|lia].
  unfold sub. rewrite <- R.
  replace (N.to_nat (s_pos s + N.of_nat (length p) - s_pos s)) with (length p) by lia.
  exact F.
Qed.

Lemma advance_adv : forall n s s', SInv text s -> advance n s = Ok s' ->
  Adv s s' /\ s_pos s' = s_pos s + n.
Proof.
  intros n s s' [R [L1 L2]] H. unfold advance in H.
  destruct (s_end s <? s_pos s + n) eqn:E; [discriminate|]. injection H as <-.
  unfold Adv, SInv. cbn [s_pos s_end s_rest]. split; [|reflexivity].
  split; [|split; [lia|reflexivity]].
  split; [|lia].
  rewrite R, skipn_add. f_equal. lia.
Qed.

Lemma curr_byte_inv : forall s x, curr_byte s = Ok x ->
  s_pos s < s_end s /\ exists r, s_rest s = x :: r.
Proof.
  intros s x H. unfold curr_byte in H. destruct (at_end s) eqn:E; [discriminate|].
  unfold at_end in E. unfold curr_byte_unchecked in H.
  destruct (s_rest s) as [|y r]; [discriminate|]. injection H as <-.
  split; [lia|eauto].
Qed.

Lemma curr_byte_opt_inv : forall s x, curr_byte_opt s = Some x ->
  s_pos s < s_end s /\ exists r, s_rest s = x :: r.
Proof.
  intros s x H. unfold curr_byte_opt in H. destruct (at_end s) eqn:E; [discriminate|].
  unfold at_end in E. destruct (s_rest s) as [|y r]; [discriminate|]. injection H as <-.
  split; [lia|eauto].
Qed.

Lemma skip_bytes_adv : forall f s, SInv text s ->
  Adv s (skip_bytes f s) /\
  forallb f (sub text (s_pos s) (s_pos (skip_bytes f s))) = true /\
  (at_end (skip_bytes f s) = true \/
   exists x r, s_rest (skip_bytes f s) = x :: r /\ f x = false).
Proof.
  intros f s H. pose proof (rest_len s H) as RL. destruct H as [R [L1 L2]].
  unfold tlen, blen in L2.
  destruct (scan_props f (N.to_nat (s_end s - s_pos s)) (s_rest s)) as (A & B & C & D).
  unfold skip_bytes, at_end, Adv, SInv. cbn [s_pos s_end s_rest].
  set (n := scan f (s_rest s) (N.to_nat (s_end s - s_pos s))) in *.
  split; [|split].
  - split; [|split; [lia|reflexivity]].
    split; [|unfold tlen, blen; lia].
    rewrite R, skipn_add. f_equal. lia.
  - unfold sub. rewrite <- R.
    replace (N.to_nat (s_pos s + N.of_nat n - s_pos s)) with n by lia. exact C.
  - destruct D as [D|[D|D]]; [left; lia|left; lia|right; exact D].
Qed.

Lemma skip_string_adv : forall p s s', SInv text s -> skip_string text p s = Ok s' ->
  Adv s s' /\ s_pos s' = s_pos s + blen p /\ sub text (s_pos s) (s_pos s') = p.
Proof.
  intros p s s' H E. unfold skip_string in E.
  destruct (starts_with s p) eqn:SW; cbn [negb] in E; [|not_ok E].
  destruct (advance_adv _ _ _ H E) as [A P]. destruct (starts_with_sub _ _ H SW) as [S _].
  rewrite P. auto.
Qed.

Lemma consume_byte_adv : forall c s s', SInv text s -> consume_byte text c s = Ok s' ->
  Adv s s' /\ s_pos s' = s_pos s + 1 /\ sub text (s_pos s) (s_pos s') = [c].
Proof.
  intros c s s' H E. unfold consume_byte in E. binv E as x Ec.
  destruct (x =? c) eqn:Ex; cbn [negb] in E; [|not_ok E]. apply N.eqb_eq in Ex. subst x.
  destruct (curr_byte_inv _ _ Ec) as [_ [r Er]].
  destruct (advance_adv _ _ _ H E) as [A P]. rewrite P.
  split; [exact A|]. split; [reflexivity|]. eapply sub_one; eassumption.
Qed.

Lemma consume_spaces_adv : forall s s', SInv text s -> consume_spaces text s = Ok s' -> Adv s s'.
Proof.
  intros s s' H E. unfold consume_spaces in E.
  destruct (at_end s); [discriminate|].
  destruct (starts_with_space s); cbn [negb] in E.
  - injection E as <-. apply skip_bytes_adv. exact H.
  - binv E as x Ex. not_ok E.
Qed.

Lemma consume_eq_adv : forall s s', SInv text s -> consume_eq text s = Ok s' -> Adv s s'.
Proof.
  intros s s' H E. unfold consume_eq in E. binv E as s1 E1. injection E as <-.
  destruct (skip_bytes_adv byte_is_space s H) as [A0 _].
  destruct (consume_byte_adv _ _ _ (Adv_inv _ _ A0) E1) as [A1 _].
  destruct (skip_bytes_adv byte_is_space s1 (Adv_inv _ _ A1)) as [A2 _].
  eapply Adv_trans; [exact A0|]. eapply Adv_trans; [exact A1|exact A2].
Qed.

Lemma consume_quote_adv : forall s q s', SInv text s -> consume_quote text s = Ok (q, s') -> Adv s s'.
Proof.
  intros s q s' H E. unfold consume_quote in E. binv E as x Ex.
  destruct ((x =? 39) || (x =? 34)); [|not_ok E].
  binv E as s1 E1. injection E as _ <-. apply (advance_adv _ _ _ H E1).
Qed.

Lemma advance_until2_adv : forall a c s s', SInv text s -> advance_until2 a c s = Ok s' -> Adv s s'.
Proof.
  intros a c s s' H E. unfold advance_until2 in E.
  destruct (find_idx _ (avail s)); [|discriminate]. apply (advance_adv _ _ _ H E).
Qed.

Lemma mk_slice_inv : forall a e sl, mk_slice text a e = Ok sl -> sl_start sl = a /\ sl_end sl = e.
Proof.
  intros a e sl H. unfold mk_slice in H.
  destruct ((e <? a) || (tlen text <? e)); [discriminate|].
  destruct (is_boundary text a && is_boundary text e); [|discriminate].
  injection H as <-. auto.
Qed.

Lemma next_char_inv : forall s c n, next_char s = Ok (Some (c, n)) ->
  decode1 (s_rest s) = Some (c, n).
Proof.
  intros s c n H. unfold next_char in H. destruct (at_end s); [discriminate|].
  destruct (decode1 (s_rest s)) as [[c' n']|]; [|discriminate].
  destruct (s_end s <? s_pos s + n'); [discriminate|]. injection H as <- <-. reflexivity.
Qed.

(* skip_chars walks over whole chars accepted by [f]; [P] holds of every byte walked over *)
Lemma skip_chars_loop_walk : forall (P : N -> Prop) f,
  (forall s c, f s c = true -> P c) -> (forall x, 128 <= x -> P x) ->
  forall fuel s s', SInv text s -> skip_chars_loop text fuel f s = Ok s' ->
  Adv s s' /\ Forall P (sub text (s_pos s) (s_pos s')).
Proof.
  intros P f Hf H128. induction fuel as [|fu IH]; intros s s' H E; [discriminate|].
  cbn [skip_chars_loop] in E. binv E as oc En.
  destruct oc as [[c n]|].
  - destruct (char_is_char c); cbn [negb] in E; [|not_ok E].
    destruct (f s c) eqn:Ef.
    + binv E as s1 Ea. destruct (advance_adv _ _ _ H Ea) as [A1 P1].
      destruct (IH _ _ (Adv_inv _ _ A1) E) as [A2 F2].
      split; [eapply Adv_trans; eassumption|].
      destruct A1 as (_ & L1 & _). destruct A2 as (_ & L2 & _).
      rewrite (sub_app text (s_pos s) (s_pos s1)) by assumption.
      apply Forall_app. split; [|exact F2].
      apply next_char_inv in En. apply decode1_bytes in En. destruct En as [Fb _].
      rewrite sub_rest by assumption. rewrite P1.
      replace (N.to_nat (s_pos s + n - s_pos s)) with (N.to_nat n) by lia.
      eapply Forall_impl; [|exact Fb]. intros x [->|Hx]; [eapply Hf; exact Ef|apply H128; exact Hx].
    + injection E as <-. split; [apply Adv_refl; exact H|]. rewrite sub_nil. constructor.
  - injection E as <-. split; [apply Adv_refl; exact H|]. rewrite sub_nil. constructor.
Qed.

Lemma consume_chars_walk : forall (P : N -> Prop) f,
  (forall s c, f s c = true -> P c) -> (forall x, 128 <= x -> P x) ->
  forall s sl s', SInv text s -> consume_chars text f s = Ok (sl, s') ->
  Adv s s' /\ sl_start sl = s_pos s /\ sl_end sl = s_pos s' /\ Forall P (slice_bytes text sl).
Proof.
  intros P f Hf H128 s sl s' H E. unfold consume_chars in E. binv E as s1 E1. binv E as sl1 E2.
  injection E as <- <-. unfold skip_chars in E1.
  destruct (skip_chars_loop_walk P f Hf H128 _ _ _ H E1) as [A F].
  unfold slice_back in E2. apply mk_slice_inv in E2. destruct E2 as [S1 S2].
  unfold slice_bytes. rewrite S1, S2. auto.
Qed.

Lemma consume_chars_adv : forall f s sl s', SInv text s -> consume_chars text f s = Ok (sl, s') ->
  Adv s s' /\ sl_start sl = s_pos s /\ sl_end sl = s_pos s'.
Proof.
  intros f s sl s' H E.
  destruct (consume_chars_walk (fun _ => True) f (fun _ _ _ => I) (fun _ _ => I) _ _ _ H E)
    as (A & B & C & _). auto.
Qed.

Lemma skip_name_loop_adv : forall fuel s s', SInv text s -> skip_name_loop fuel s = Ok s' -> Adv s s'.
Proof.
  induction fuel as [|fu IH]; intros s s' H E; [discriminate|].
  cbn [skip_name_loop] in E. binv E as oc En. destruct oc as [[c n]|].
  - destruct (char_is_name c).
    + binv E as s1 Ea. destruct (advance_adv _ _ _ H Ea) as [A1 _].
      eapply Adv_trans; [exact A1|]. apply IH; [apply (Adv_inv _ _ A1)|exact E].
    + injection E as <-. apply Adv_refl. exact H.
  - injection E as <-. apply Adv_refl. exact H.
Qed.

Lemma skip_name_adv : forall s s', SInv text s -> skip_name text s = Ok s' -> Adv s s'.
Proof.
  intros s s' H E. unfold skip_name in E. binv E as oc En. destruct oc as [[c n]|].
  - destruct (char_is_name_start c); [|not_ok E].
    binv E as s1 Ea. destruct (advance_adv _ _ _ H Ea) as [A1 _].
    eapply Adv_trans; [exact A1|]. eapply skip_name_loop_adv; [apply (Adv_inv _ _ A1)|exact E].
  - injection E as <-. apply Adv_refl. exact H.
Qed.

Lemma consume_name_adv : forall s sl s', SInv text s -> consume_name text s = Ok (sl, s') ->
  Adv s s' /\ sl_start sl = s_pos s /\ sl_end sl = s_pos s'.
Proof.
  intros s sl s' H E. unfold consume_name in E. binv E as s1 E1. binv E as nm E2.
  destruct (slice_len nm =? 0); [not_ok E|]. injection E as <- <-.
  unfold slice_back in E2. apply mk_slice_inv in E2. destruct E2 as [S1 S2].
  split; [eapply skip_name_adv; eassumption|auto].
Qed.

Lemma consume_qname_loop_adv : forall fuel start spl s spl' s',
  SInv text s -> consume_qname_loop text fuel start spl s = Ok (spl', s') -> Adv s s'.
Proof.
  induction fuel as [|fu IH]; intros start spl s spl' s' H E; [discriminate|].
  cbn [consume_qname_loop] in E.
  destruct (at_end s); [injection E as _ <-; apply Adv_refl; exact H|].
  binv E as x Ex. destruct (x <? 128).
  - destruct (x =? 58).
    + destruct spl; [not_ok E|]. binv E as s1 Ea.
      destruct (advance_adv _ _ _ H Ea) as [A1 _].
      eapply Adv_trans; [exact A1|]. eapply IH; [apply (Adv_inv _ _ A1)|exact E].
    + destruct (byte_is_name x).
      * binv E as s1 Ea. destruct (advance_adv _ _ _ H Ea) as [A1 _].
        eapply Adv_trans; [exact A1|]. eapply IH; [apply (Adv_inv _ _ A1)|exact E].
      * injection E as _ <-. apply Adv_refl. exact H.
  - binv E as oc En. destruct oc as [[c n]|].
    + destruct (char_is_name c).
      * binv E as s1 Ea. destruct (advance_adv _ _ _ H Ea) as [A1 _].
        eapply Adv_trans; [exact A1|]. eapply IH; [apply (Adv_inv _ _ A1)|exact E].
      * injection E as _ <-. apply Adv_refl. exact H.
    + injection E as _ <-. apply Adv_refl. exact H.
Qed.

Lemma consume_qname_adv : forall s prefix local s',
  SInv text s -> consume_qname text s = Ok (prefix, local, s') ->
  Adv s s' /\ sl_start prefix = s_pos s.
Proof.
  intros s prefix local s' H E. unfold consume_qname in E. binv E as [spl s1] E1.
  apply consume_qname_loop_adv in E1; [|exact H].
  binv E as [p l] E2.
  assert (Hp : sl_start p = s_pos s).
  { destruct spl as [sp|].
    - binv E2 as p0 Ep. binv E2 as l0 El. injection E2 as <- <-.
      apply mk_slice_inv in Ep. apply Ep.
    - binv E2 as l0 El. binv E2 as p0 Ep. injection E2 as <- <-.
      apply mk_slice_inv in Ep. apply Ep. }
  destruct (negb (slice_len p =? 0) && negb (str_is_name_start (slice_bytes text p)));
    [not_ok E|].
  destruct (negb (str_is_name_start (slice_bytes text l))); [not_ok E|].
  injection E as <- <- <-. auto.
Qed.


Lemma skip_spaces_adv : forall s, SInv text s -> Adv s (skip_spaces s).
Proof. intros s H. apply (skip_bytes_adv byte_is_space s H). Qed.

Lemma rec_ev_eq : forall tok acc, rec_ev tok acc = Ok (acc ++ [tok]).
Proof. reflexivity. Qed.

(* ------------------------------------------------------------------------------------------ *)
(* C03 / C13: comments, text, CDATA, processing instructions, end tags                        *)
(* ------------------------------------------------------------------------------------------ *)

Theorem parse_comment_post : forall s acc s' acc', SInv text s ->
  starts_with s (b "<!--") = true ->
  parse_comment text (list token) rec_ev s acc = Ok (s', acc') ->
  exists txt, acc' = acc ++ [TComment txt (s_pos s, s_pos s')] /\ SInv text s' /\
    sub text (s_pos s) (s_pos s') = b "<!--" ++ slice_bytes text txt ++ b "-->" /\
    sl_start txt = s_pos s + 4 /\ sl_end txt + 3 = s_pos s'.
Proof.
  intros s acc s' acc' H SW E. unfold parse_comment in E. cbv zeta in E.
  binv E as s1 E1. binv E as [txt s2] E2. binv E as s3 E3.
  destruct (contains_b _ _); [not_ok E|]. destruct (ends_with_byte _ _); [not_ok E|].
  rewrite rec_ev_eq in E. cbn [bind] in E. injection E as <- <-.
  destruct (advance_adv _ _ _ H E1) as [A1 P1].
  destruct (consume_chars_adv _ _ _ _ (Adv_inv _ _ A1) E2) as (A2 & T1 & T2).
  destruct (skip_string_adv _ _ _ (Adv_inv _ _ A2) E3) as (A3 & P3 & S3).
  destruct (starts_with_sub _ _ H SW) as [S0 _].
  change (blen (b "<!--")) with 4 in S0. change (blen (b "-->")) with 3 in P3.
  assert (L1 : s_pos s <= s_pos s1) by apply A1.
  assert (L2 : s_pos s1 <= s_pos s2) by apply A2.
  assert (L3 : s_pos s2 <= s_pos s3) by apply A3.
  exists txt. split; [reflexivity|]. split; [apply A3|]. split; [|split; lia].
  rewrite (sub_app text (s_pos s) (s_pos s1) (s_pos s3)) by lia.
  rewrite (sub_app text (s_pos s1) (s_pos s2) (s_pos s3)) by lia.
  rewrite S3. unfold slice_bytes. rewrite T1, T2, P1, S0. reflexivity.
Qed.

Theorem parse_text_post : forall s acc s' acc', SInv text s ->
  parse_text text (list token) rec_ev s acc = Ok (s', acc') ->
  exists txt, acc' = acc ++ [TText txt (s_pos s, s_pos s')] /\ SInv text s' /\
    sl_start txt = s_pos s /\ sl_end txt = s_pos s' /\ mem_b 60 (slice_bytes text txt) = false.
Proof.
  intros s acc s' acc' H E. unfold parse_text in E. cbv zeta in E.
  binv E as [txt s1] E1.
  destruct (mem_b 62 _ && contains_b _ _); [not_ok E|].
  rewrite rec_ev_eq in E. cbn [bind] in E. injection E as <- <-.
  destruct (consume_chars_walk (fun x => x <> 60) (fun _ ch => negb (ch =? 60))) with (3 := H) (4 := E1)
    as (A & T1 & T2 & F).
  - intros _ c Hc. apply N.eqb_neq. destruct (c =? 60); [discriminate|reflexivity].
  - intros x Hx. lia.
  - exists txt. split; [reflexivity|]. split; [apply A|]. split; [exact T1|]. split; [exact T2|].
    apply mem_b_false. exact F.
Qed.

Theorem parse_cdata_post : forall s acc s' acc', SInv text s ->
  starts_with s (b "<![CDATA[") = true ->
  parse_cdata text (list token) rec_ev s acc = Ok (s', acc') ->
  exists txt, acc' = acc ++ [TCdata txt (s_pos s, s_pos s')] /\ SInv text s' /\
    sub text (s_pos s) (s_pos s') = b "<![CDATA[" ++ slice_bytes text txt ++ b "]]>".
Proof.
  intros s acc s' acc' H SW E. unfold parse_cdata in E. cbv zeta in E.
  binv E as s1 E1. binv E as [txt s2] E2. binv E as s3 E3.
  rewrite rec_ev_eq in E. cbn [bind] in E. injection E as <- <-.
  destruct (advance_adv _ _ _ H E1) as [A1 P1].
  destruct (consume_chars_adv _ _ _ _ (Adv_inv _ _ A1) E2) as (A2 & T1 & T2).
  destruct (skip_string_adv _ _ _ (Adv_inv _ _ A2) E3) as (A3 & P3 & S3).
  destruct (starts_with_sub _ _ H SW) as [S0 _].
  change (blen (b "<![CDATA[")) with 9 in S0.
  assert (L1 : s_pos s <= s_pos s1) by apply A1.
  assert (L2 : s_pos s1 <= s_pos s2) by apply A2.
  assert (L3 : s_pos s2 <= s_pos s3) by apply A3.
  exists txt. split; [reflexivity|]. split; [apply A3|].
  rewrite (sub_app text (s_pos s) (s_pos s1) (s_pos s3)) by lia.
  rewrite (sub_app text (s_pos s1) (s_pos s2) (s_pos s3)) by lia.
  rewrite S3. unfold slice_bytes. rewrite T1, T2, P1, S0. reflexivity.
Qed.

(* consume_spaces really consumes: at least one byte *)
Lemma consume_spaces_lt : forall s s', SInv text s -> consume_spaces text s = Ok s' ->
  s_pos s < s_pos s'.
Proof.
  intros s s' H E. unfold consume_spaces in E.
  destruct (at_end s) eqn:Eae; [discriminate|].
  destruct (starts_with_space s) eqn:Ess; cbn [negb] in E; [|binv E as x Ex; not_ok E].
  injection E as <-.
  destruct (skip_bytes_adv byte_is_space s H) as ((_ & L & _) & _ & Stop).
  destruct (N.lt_ge_cases (s_pos s) (s_pos (skip_spaces s))) as [Lt|Ge]; [exact Lt|exfalso].
  unfold starts_with_space, curr_byte_opt in Ess. rewrite Eae in Ess.
  destruct (s_rest s) as [|x r] eqn:Er; [discriminate|].
  unfold skip_spaces, skip_bytes, at_end in *. cbn [s_pos s_end s_rest] in *. rewrite Er in *.
  set (n := scan byte_is_space (x :: r) (N.to_nat (s_end s - s_pos s))) in *.
  assert (n = 0%nat) as -> by lia. cbn [skipn] in Stop.
  destruct Stop as [St|(y & r' & Ey & Fy)]; [lia|]. injection Ey as <- _. congruence.
Qed.

(* directly in front of "?>" the PI content is empty *)
Lemma pi_content_empty : forall s sl s', SInv text s -> starts_with s (b "?>") = true ->
  consume_chars text (fun s ch => negb ((ch =? 63) && starts_with s (b "?>"))) s = Ok (sl, s') ->
  s_pos s' = s_pos s.
Proof.
  intros s sl s' H SW E. unfold consume_chars in E. binv E as s1 E1. binv E as sl1 E2.
  injection E as _ <-. unfold skip_chars in E1. cbn [skip_chars_loop] in E1.
  destruct (starts_with_sub _ _ H SW) as [S2 L2]. change (blen (b "?>")) with 2 in *.
  rewrite sub_rest in S2 by exact H. change (b "?>") with [63; 62] in S2.
  destruct (s_rest s) as [|x r] eqn:Er; [destruct (N.to_nat _); discriminate|].
  destruct (N.to_nat _); [discriminate|]. injection S2 as -> _.
  unfold next_char in E1. replace (at_end s) with false in E1 by (unfold at_end; lia).
  rewrite Er in E1. cbn [decode1] in E1. change (63 <? 128) with true in E1. cbv iota in E1.
  destruct (s_end s <? s_pos s + 1); [discriminate|]. cbn [bind] in E1.
  replace (char_is_char 63) with true in E1 by (vm_compute; reflexivity). cbn [negb] in E1.
  rewrite SW in E1. change (63 =? 63) with true in E1. cbn [andb negb] in E1.
  injection E1 as <-. reflexivity.
Qed.

Theorem parse_pi_post : forall s acc s' acc', SInv text s ->
  starts_with s (b "<?") = true ->
  parse_pi text (list token) rec_ev s acc = Ok (s', acc') ->
  exists target value, acc' = acc ++ [TPI target value (s_pos s, s_pos s')] /\ SInv text s' /\
    sl_start target = s_pos s + 2 /\
    prefix_b (b "<?") (sub text (s_pos s) (s_pos s')) = true /\
    sub text (s_pos s' - 2) (s_pos s') = b "?>" /\
    match value with
    | Some v => slice_len v <> 0 /\ sl_end v + 2 = s_pos s' /\ sl_end target < sl_start v /\
                forallb byte_is_space (sub text (sl_end target) (sl_start v)) = true /\
                (exists x, hd_error (slice_bytes text v) = Some x /\ byte_is_space x = false)
    | None => forallb byte_is_space (sub text (sl_end target) (s_pos s' - 2)) = true
    end.
Proof.
  intros s acc s' acc' H SW E. unfold parse_pi in E.
  destruct (starts_with s (b "<?xml ")); [not_ok E|]. cbv zeta in E.
  binv E as s1 E1. binv E as [target s2] E2. binv E as s3 E3.
  binv E as [content s4] E4. binv E as s5 E5.
  rewrite rec_ev_eq in E. cbn [bind] in E. injection E as <- <-.
  destruct (advance_adv _ _ _ H E1) as [A1 P1].
  destruct (consume_name_adv _ _ _ (Adv_inv _ _ A1) E2) as (A2 & T1 & T2).
  assert (X3 : Adv s2 s3 /\
    forallb byte_is_space (sub text (s_pos s2) (s_pos s3)) = true /\
    (at_end s3 = true \/ exists x r, s_rest s3 = x :: r /\ byte_is_space x = false) /\
    (s_pos s2 < s_pos s3 \/ s_pos s4 = s_pos s3)).
  { destruct (starts_with s2 (b "?>")) eqn:SW2.
    - injection E3 as <-. split; [apply Adv_refl, (Adv_inv _ _ A2)|].
      split; [rewrite sub_nil; reflexivity|].
      split; [|right; exact (pi_content_empty _ _ _ (Adv_inv _ _ A2) SW2 E4)]. right.
      destruct (starts_with_sub _ _ (Adv_inv _ _ A2) SW2) as [S2 _].
      rewrite sub_rest in S2 by apply A2.
      destruct (s_rest s2) as [|x r]; [destruct (N.to_nat _); discriminate|].
      exists x, r. split; [reflexivity|].
      destruct (N.to_nat _); [discriminate|]. injection S2 as -> _. reflexivity.
    - pose proof (consume_spaces_lt _ _ (Adv_inv _ _ A2) E3) as Lt3.
      unfold consume_spaces in E3. destruct (at_end s2); [discriminate|].
      destruct (starts_with_space s2); cbn [negb] in E3.
      + injection E3 as <-.
        destruct (skip_bytes_adv byte_is_space s2 (Adv_inv _ _ A2)) as (X & Y & Z). auto.
      + binv E3 as x Ex. not_ok E3. }
  destruct X3 as (A3 & F3 & Stop3 & Sep3).
  destruct (consume_chars_adv _ _ _ _ (Adv_inv _ _ A3) E4) as (A4 & C1 & C2).
  destruct (skip_string_adv _ _ _ (Adv_inv _ _ A4) E5) as (A5 & P5 & S5).
  destruct (starts_with_sub _ _ H SW) as [S0 _].
  change (blen (b "<?")) with 2 in S0. change (blen (b "?>")) with 2 in P5.
  assert (L1 : s_pos s <= s_pos s1) by apply A1.
  assert (L2 : s_pos s1 <= s_pos s2) by apply A2.
  assert (L3 : s_pos s2 <= s_pos s3) by apply A3.
  assert (L4 : s_pos s3 <= s_pos s4) by apply A4.
  assert (L5 : s_pos s4 <= s_pos s5) by apply A5.
  exists target, (if slice_len content =? 0 then None else Some content).
  split; [reflexivity|]. split; [apply A5|]. split; [lia|]. split; [|split].
  - rewrite (sub_app text (s_pos s) (s_pos s1) (s_pos s5)) by lia.
    rewrite P1, S0. apply prefix_b_app.
  - replace (s_pos s5 - 2) with (s_pos s4) by lia. exact S5.
  - unfold slice_len. destruct (sl_end content - sl_start content =? 0) eqn:EL.
    + replace (s_pos s5 - 2) with (s_pos s3) by lia. rewrite T2. exact F3.
    + split; [unfold slice_len; lia|]. split; [lia|].
      split; [apply N.eqb_neq in EL; lia|].
      split; [rewrite T2, C1; exact F3|].
      destruct Stop3 as [St|[x [r [Er Fx]]]].
      * exfalso. unfold at_end in St.
        destruct A4 as ([_ [Le _]] & _ & Ee). lia.
      * exists x. split; [|exact Fx].
        unfold slice_bytes. rewrite C1, C2. rewrite sub_rest by apply A3. rewrite Er.
        destruct (N.to_nat (s_pos s4 - s_pos s3)) eqn:En; [lia|]. reflexivity.
Qed.

Theorem parse_close_element_post : forall s acc s' acc', SInv text s ->
  starts_with s (b "</") = true ->
  parse_close_element text (list token) rec_ev s acc = Ok (s', acc') ->
  exists prefix local, acc' = acc ++ [TElementEnd (EClose prefix local) (s_pos s, s_pos s')] /\
    SInv text s' /\
    prefix_b (b "</") (sub text (s_pos s) (s_pos s')) = true /\
    sub text (s_pos s' - 1) (s_pos s') = [62] /\
    sl_start prefix = s_pos s + 2.
Proof.
  intros s acc s' acc' H SW E. unfold parse_close_element in E. cbv zeta in E.
  binv E as s1 E1. binv E as [[prefix local] s2] E2. binv E as s4 E4.
  rewrite rec_ev_eq in E. cbn [bind] in E. injection E as <- <-.
  destruct (advance_adv _ _ _ H E1) as [A1 P1].
  destruct (consume_qname_adv _ _ _ _ (Adv_inv _ _ A1) E2) as (A2 & T1).
  pose proof (skip_spaces_adv s2 (Adv_inv _ _ A2)) as A3.
  destruct (consume_byte_adv _ _ _ (Adv_inv _ _ A3) E4) as (A4 & P4 & S4).
  destruct (starts_with_sub _ _ H SW) as [S0 _].
  change (blen (b "</")) with 2 in S0.
  assert (L1 : s_pos s <= s_pos s1) by apply A1.
  assert (L2 : s_pos s1 <= s_pos s2) by apply A2.
  assert (L3 : s_pos s2 <= s_pos (skip_spaces s2)) by apply A3.
  exists prefix, local. split; [reflexivity|]. split; [apply A4|]. split; [|split; [|lia]].
  - rewrite (sub_app text (s_pos s) (s_pos s1) (s_pos s4)) by lia.
    rewrite P1, S0. apply prefix_b_app.
  - replace (s_pos s4 - 1) with (s_pos (skip_spaces s2)) by lia. exact S4.
Qed.

(* ------------------------------------------------------------------------------------------ *)
(* which tokens the prolog parsers can emit                                                   *)
(* ------------------------------------------------------------------------------------------ *)

Lemma tok_chain : forall (P : token -> Prop) acc acc1 acc' new1 new2,
  acc1 = acc ++ new1 -> acc' = acc1 ++ new2 -> Forall P new1 -> Forall P new2 ->
  exists new, acc' = acc ++ new /\ Forall P new.
Proof.
  intros P acc acc1 acc' new1 new2 -> -> F1 F2. exists (new1 ++ new2).
  split; [rewrite app_assoc; reflexivity|apply Forall_app; auto].
Qed.

Lemma tok_none : forall (P : token -> Prop) acc, exists new, acc = acc ++ new /\ Forall P new.
Proof. intros. exists []. rewrite app_nil_r. auto. Qed.

Lemma parse_comment_tok : forall s acc s' acc',
  parse_comment text (list token) rec_ev s acc = Ok (s', acc') ->
  exists txt r, acc' = acc ++ [TComment txt r].
Proof.
  intros s acc s' acc' E. unfold parse_comment in E. cbv zeta in E.
  binv E as s1 E1. binv E as [txt s2] E2. binv E as s3 E3.
  destruct (contains_b _ _); [not_ok E|]. destruct (ends_with_byte _ _); [not_ok E|].
  rewrite rec_ev_eq in E. cbn [bind] in E. injection E as <- <-. eauto.
Qed.

Lemma parse_pi_tok : forall s acc s' acc',
  parse_pi text (list token) rec_ev s acc = Ok (s', acc') ->
  exists t v r, acc' = acc ++ [TPI t v r].
Proof.
  intros s acc s' acc' E. unfold parse_pi in E.
  destruct (starts_with s (b "<?xml ")); [not_ok E|]. cbv zeta in E.
  binv E as s1 E1. binv E as [target s2] E2. binv E as s3 E3.
  binv E as [content s4] E4. binv E as s5 E5.
  rewrite rec_ev_eq in E. cbn [bind] in E. injection E as <- <-. eauto.
Qed.

Lemma parse_entity_decl_tok : forall s acc s' acc',
  parse_entity_decl text (list token) rec_ev s acc = Ok (s', acc') ->
  acc' = acc \/ exists n v, acc' = acc ++ [TEntityDecl n v].
Proof.
  intros s acc s' acc' E. unfold parse_entity_decl in E.
  binv E as s1 E1. binv E as s2 E2. destruct (try_consume_byte 37 s2) as [pe s3].
  binv E as s4 E4. cbv zeta in E. binv E as [name s5] E5. binv E as s6 E6.
  binv E as [def s7] E7. binv E as c1 Ec. binv E as s8 E8. injection E as <- <-.
  destruct def as [d|]; [destruct (negb pe)|].
  - rewrite rec_ev_eq in Ec. injection Ec as <-. eauto.
  - injection Ec as <-. auto.
  - injection Ec as <-. auto.
Qed.

Definition tok_misc (tok : token) : Prop :=
  match tok with TComment _ _ | TPI _ _ _ => True | _ => False end.
Definition tok_dtd (tok : token) : Prop :=
  match tok with TEntityDecl _ _ | TComment _ _ | TPI _ _ _ => True | _ => False end.

Lemma parse_misc_loop_tokens : forall fuel s acc s' acc',
  parse_misc_loop text (list token) rec_ev fuel s acc = Ok (s', acc') ->
  exists new, acc' = acc ++ new /\ Forall tok_misc new.
Proof.
  induction fuel as [|fu IH]; intros s acc s' acc' E; [discriminate|].
  cbn [parse_misc_loop] in E. cbv zeta in E.
  destruct (at_end s); [injection E as _ <-; apply tok_none|].
  destruct (starts_with (skip_spaces s) (b "<!--")).
  { binv E as [s1 acc1] E1. apply parse_comment_tok in E1. destruct E1 as (txt & r & ->).
    apply IH in E. destruct E as (new & -> & F).
    eapply tok_chain; [reflexivity|reflexivity| |exact F]. repeat constructor. }
  destruct (starts_with (skip_spaces s) (b "<?")).
  { binv E as [s1 acc1] E1. apply parse_pi_tok in E1. destruct E1 as (t & v & r & ->).
    apply IH in E. destruct E as (new & -> & F).
    eapply tok_chain; [reflexivity|reflexivity| |exact F]. repeat constructor. }
  injection E as _ <-. apply tok_none.
Qed.

Theorem parse_misc_tokens : forall s acc s' acc',
  parse_misc text (list token) rec_ev s acc = Ok (s', acc') ->
  exists new, acc' = acc ++ new /\
    Forall (fun tok => match tok with TComment _ _ | TPI _ _ _ => True | _ => False end) new.
Proof. intros s acc s' acc' E. unfold parse_misc in E. eapply parse_misc_loop_tokens. exact E. Qed.

Lemma parse_doctype_loop_tokens : forall fuel start s acc s' acc',
  parse_doctype_loop text (list token) rec_ev fuel start s acc = Ok (s', acc') ->
  exists new, acc' = acc ++ new /\ Forall tok_dtd new.
Proof.
  induction fuel as [|fu IH]; intros start s acc s' acc' E; [discriminate|].
  cbn [parse_doctype_loop] in E. cbv zeta in E.
  destruct (at_end s); [injection E as _ <-; apply tok_none|].
  destruct (starts_with (skip_spaces s) (b "<!ENTITY")).
  { binv E as [s1 acc1] E1. apply parse_entity_decl_tok in E1.
    apply IH in E. destruct E as (new & -> & F).
    destruct E1 as [->|(n & v & ->)].
    - eauto.
    - eapply tok_chain; [reflexivity|reflexivity| |exact F]. repeat constructor. }
  destruct (starts_with (skip_spaces s) (b "<!--")).
  { binv E as [s1 acc1] E1. apply parse_comment_tok in E1. destruct E1 as (txt & r & ->).
    apply IH in E. destruct E as (new & -> & F).
    eapply tok_chain; [reflexivity|reflexivity| |exact F]. repeat constructor. }
  destruct (starts_with (skip_spaces s) (b "<?")).
  { binv E as [s1 acc1] E1. apply parse_pi_tok in E1. destruct E1 as (t & v & r & ->).
    apply IH in E. destruct E as (new & -> & F).
    eapply tok_chain; [reflexivity|reflexivity| |exact F]. repeat constructor. }
  destruct (starts_with (skip_spaces s) (b "]")).
  { binv E as s1 E1. destruct (curr_byte_opt (skip_spaces s1)) as [x|]; [|discriminate].
    destruct (x =? 62); [|not_ok E]. binv E as s2 E2. injection E as _ <-. apply tok_none. }
  destruct (starts_with (skip_spaces s) (b "<!ELEMENT") || starts_with (skip_spaces s) (b "<!ATTLIST")
            || starts_with (skip_spaces s) (b "<!NOTATION")); [|not_ok E].
  destruct (consume_decl text (skip_spaces s)) as [s1| | |]; try discriminate; [|not_ok E].
  apply IH in E. exact E.
Qed.

(* the DOCTYPE produces entity declarations, comments and PIs only *)
Theorem parse_doctype_tokens : forall s acc s' acc',
  parse_doctype text (list token) rec_ev s acc = Ok (s', acc') ->
  exists new, acc' = acc ++ new /\
    Forall (fun tok => match tok with TEntityDecl _ _ | TComment _ _ | TPI _ _ _ => True | _ => False end) new.
Proof.
  intros s acc s' acc' E. unfold parse_doctype in E. cbv zeta in E.
  binv E as s1 E1.
  destruct (match curr_byte_opt (skip_spaces s1) with Some x => x =? 62 | None => false end).
  - binv E as s2 E2. injection E as _ <-. apply tok_none.
  - binv E as s2 E2. eapply parse_doctype_loop_tokens. exact E.
Qed.

(* ------------------------------------------------------------------------------------------ *)
(* start tags                                                                                 *)
(* ------------------------------------------------------------------------------------------ *)

Definition tok_attr (tok : token) : Prop :=
  match tok with TAttribute _ _ _ _ _ _ => True | _ => False end.

Lemma parse_element_loop_post : forall fuel ts s acc open s' acc', SInv text s ->
  parse_element_loop text (list token) rec_ev fuel ts s acc = Ok (open, s', acc') ->
  exists attrs e r, acc' = acc ++ attrs ++ [TElementEnd e r] /\ Forall tok_attr attrs /\
    (e = EOpen /\ open = true \/ e = EEmpty /\ open = false) /\ snd r = s_pos s' /\
    Adv s s' /\ s_pos s < s_pos s' /\ sub text (s_pos s' - 1) (s_pos s') = [62].
Proof.
  induction fuel as [|fu IH]; intros ts s acc open s' acc' H E; [discriminate|].
  cbn [parse_element_loop] in E. destruct (at_end s); [discriminate|]. cbv zeta in E.
  pose proof (skip_spaces_adv s H) as A0. set (s0 := skip_spaces s) in *.
  assert (L0 : s_pos s <= s_pos s0) by apply A0.
  binv E as x Ex. destruct (curr_byte_inv _ _ Ex) as [Lx [rx Erx]].
  destruct (x =? 47) eqn:E47.
  { binv E as s1 E1. binv E as s2 E2.
    rewrite rec_ev_eq in E. cbn [bind] in E. injection E as <- <- <-.
    destruct (advance_adv _ _ _ (Adv_inv _ _ A0) E1) as [A1 P1].
    destruct (consume_byte_adv _ _ _ (Adv_inv _ _ A1) E2) as (A2 & P2 & S2).
    exists [], EEmpty, (s_pos s0, s_pos s2). cbn [app snd].
    split; [reflexivity|]. split; [constructor|]. split; [auto|]. split; [reflexivity|].
    split; [eapply Adv_trans; [exact A0|eapply Adv_trans; eassumption]|]. split; [lia|].
    replace (s_pos s2 - 1) with (s_pos s1) by lia. exact S2. }
  destruct (x =? 62) eqn:E62.
  { binv E as s1 E1.
    rewrite rec_ev_eq in E. cbn [bind] in E. injection E as <- <- <-.
    destruct (advance_adv _ _ _ (Adv_inv _ _ A0) E1) as [A1 P1].
    exists [], EOpen, (s_pos s0, s_pos s1). cbn [app snd].
    split; [reflexivity|]. split; [constructor|]. split; [auto|]. split; [reflexivity|].
    split; [eapply Adv_trans; eassumption|]. split; [lia|].
    replace (s_pos s1 - 1) with (s_pos s0) by lia. rewrite P1.
    apply N.eqb_eq in E62. subst x. eapply sub_one; [apply A0|exact Erx]. }
  binv E as s1 E1. binv E as [[prefix local] s2] E2. binv E as s3 E3.
  binv E as [quote s4] E4. binv E as s5 E5. binv E as value E6. binv E as u E7.
  binv E as s6 E8. rewrite rec_ev_eq in E. cbn [bind] in E.
  assert (A1 : Adv s0 s1).
  { destruct (starts_with_space s).
    - injection E1 as <-. apply Adv_refl. apply A0.
    - eapply consume_spaces_adv; [apply A0|exact E1]. }
  destruct (consume_qname_adv _ _ _ _ (Adv_inv _ _ A1) E2) as [A2 _].
  pose proof (consume_eq_adv _ _ (Adv_inv _ _ A2) E3) as A3.
  pose proof (consume_quote_adv _ _ _ (Adv_inv _ _ A3) E4) as A4.
  pose proof (advance_until2_adv _ _ _ _ (Adv_inv _ _ A4) E5) as A5.
  destruct (consume_byte_adv _ _ _ (Adv_inv _ _ A5) E8) as (A6 & _ & _).
  assert (A06 : Adv s s6).
  { eapply Adv_trans; [exact A0|]. eapply Adv_trans; [exact A1|]. eapply Adv_trans; [exact A2|].
    eapply Adv_trans; [exact A3|]. eapply Adv_trans; [exact A4|]. eapply Adv_trans; [exact A5|].
    exact A6. }
  destruct (IH _ _ _ _ _ _ (Adv_inv _ _ A06) E) as (attrs & e & r & -> & Fa & He & Hr & A7 & L7 & S7).
  eexists (_ :: attrs), e, r.
  split; [rewrite <- app_assoc; reflexivity|].
  split; [constructor; [exact I|exact Fa]|]. split; [exact He|]. split; [exact Hr|].
  split; [eapply Adv_trans; eassumption|]. split; [|exact S7].
  destruct A06 as (_ & L & _). lia.
Qed.

(* start tag: ElementStart, then attributes only, then exactly one ElementEnd (Open or Empty) *)
Theorem parse_element_tokens : forall s acc open s' acc', SInv text s ->
  starts_with s (b "<") = true ->
  parse_element text (list token) rec_ev s acc = Ok (open, s', acc') ->
  exists prefix local attrs e r,
    acc' = acc ++ [TElementStart prefix local (s_pos s)] ++ attrs ++ [TElementEnd e r] /\
    Forall (fun tok => match tok with TAttribute _ _ _ _ _ _ => True | _ => False end) attrs /\
    (e = EOpen /\ open = true \/ e = EEmpty /\ open = false) /\ snd r = s_pos s' /\ SInv text s' /\
    hd_error (sub text (s_pos s) (s_pos s')) = Some 60 /\ sub text (s_pos s' - 1) (s_pos s') = [62] /\
    sl_start prefix = s_pos s + 1.
Proof.
  intros s acc open s' acc' H SW E. unfold parse_element in E. cbv zeta in E.
  binv E as s1 E1. binv E as [[prefix local] s2] E2.
  rewrite rec_ev_eq in E. cbn [bind] in E.
  destruct (advance_adv _ _ _ H E1) as [A1 P1].
  destruct (consume_qname_adv _ _ _ _ (Adv_inv _ _ A1) E2) as [A2 T1].
  destruct (parse_element_loop_post _ _ _ _ _ _ _ (Adv_inv _ _ A2) E)
    as (attrs & e & r & -> & Fa & He & Hr & A3 & L3 & S3).
  destruct (starts_with_sub _ _ H SW) as [S0 _]. change (blen (b "<")) with 1 in S0.
  assert (L1 : s_pos s <= s_pos s1) by apply A1.
  assert (L2 : s_pos s1 <= s_pos s2) by apply A2.
  exists prefix, local, attrs, e, r.
  split; [rewrite <- app_assoc; reflexivity|]. split; [exact Fa|]. split; [exact He|].
  split; [exact Hr|]. split; [apply A3|]. split; [|split; [exact S3|lia]].
  rewrite (sub_app text (s_pos s) (s_pos s1) (s_pos s')) by lia.
  rewrite P1, S0. reflexivity.
Qed.

End Lexer.

(* parse_declaration : bytes -> stream -> res stream has no callback and no callback state at
   all (see its type), so the XML declaration cannot produce a token. *)
Theorem parse_declaration_no_tokens : True.
Proof. exact I. Qed.
Check (parse_declaration : bytes -> stream -> res stream).

Print Assumptions parse_comment_post.
Print Assumptions parse_text_post.
Print Assumptions parse_cdata_post.
Print Assumptions parse_misc_tokens.
Print Assumptions parse_doctype_tokens.
Print Assumptions parse_element_tokens.
Print Assumptions parse_pi_post.
Print Assumptions parse_close_element_post.

(* ------------------------------------------------------------------------------------------ *)
(* the [starts_with] hypotheses added to the statements are needed: the parsers themselves    *)
(* skip the opening delimiter blindly (advance 4 / 2 / 9 / 1); it is the caller that tests it *)
(* ------------------------------------------------------------------------------------------ *)

Lemma SInv_new : forall text, SInv text (stream_new text).
Proof. intros text. unfold SInv, stream_new. cbn [s_pos s_end s_rest]. split; [reflexivity|lia]. Qed.

Lemma parse_comment_needs_prefix :
  let text := b "abcd-->" in
  exists s' acc', parse_comment text (list token) rec_ev (stream_new text) [] = Ok (s', acc') /\
    sub text 0 (s_pos s') = b "abcd-->".
Proof. eexists. eexists. split; vm_compute; reflexivity. Qed.

Lemma parse_cdata_needs_prefix :
  let text := b "abcdefghix]]>" in
  exists s' acc', parse_cdata text (list token) rec_ev (stream_new text) [] = Ok (s', acc') /\
    sub text 0 (s_pos s') = b "abcdefghix]]>".
Proof. eexists. eexists. split; vm_compute; reflexivity. Qed.

Lemma parse_pi_needs_prefix :
  let text := b "abc?>" in
  exists s' acc', parse_pi text (list token) rec_ev (stream_new text) [] = Ok (s', acc') /\
    sub text 0 (s_pos s') = b "abc?>".
Proof. eexists. eexists. split; vm_compute; reflexivity. Qed.

Lemma parse_close_element_needs_prefix :
  let text := b "abc>" in
  exists s' acc', parse_close_element text (list token) rec_ev (stream_new text) [] = Ok (s', acc') /\
    sub text 0 (s_pos s') = b "abc>".
Proof. eexists. eexists. split; vm_compute; reflexivity. Qed.

Lemma parse_element_needs_prefix :
  let text := b "ab>" in
  exists open s' acc', parse_element text (list token) rec_ev (stream_new text) [] = Ok (open, s', acc') /\
    sub text 0 (s_pos s') = b "ab>".
Proof. eexists. eexists. eexists. split; vm_compute; reflexivity. Qed.

(* what the callers establish ([parse_content_loop]: current byte '<' and the next byte;
   [parse_document]: curr_byte_opt = Some '<') gives the [starts_with] hypotheses *)
Lemma curr_byte_opt_starts_with : forall text s x, SInv text s ->
  curr_byte_opt s = Some x -> starts_with s [x] = true.
Proof.
  intros text s x H E. destruct (curr_byte_opt_inv _ _ E) as [L [r Er]].
  unfold starts_with, avail. rewrite Er.
  destruct (N.to_nat (s_end s - s_pos s)) eqn:En; [lia|].
  cbn [firstn prefix_b]. rewrite N.eqb_refl. reflexivity.
Qed.

Lemma next_byte_starts_with : forall text s x y, SInv text s ->
  at_end s = false -> curr_byte_unchecked s = Ok x -> next_byte s = Ok y ->
  starts_with s [x; y] = true.
Proof.
  intros text s x y H E Ex Ey. unfold curr_byte_unchecked in Ex. unfold next_byte in Ey.
  destruct (s_end s <=? s_pos s + 1) eqn:El; [discriminate|].
  destruct (s_rest s) as [|x' [|y' r]] eqn:Er; try discriminate.
  injection Ex as ->. injection Ey as ->.
  unfold starts_with, avail. rewrite Er.
  destruct (N.to_nat (s_end s - s_pos s)) as [|[|k]] eqn:En; [lia|lia|].
  cbn [firstn prefix_b]. rewrite !N.eqb_refl. reflexivity.
Qed.
Print Assumptions next_byte_starts_with.
